import Props.C18
