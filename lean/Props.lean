import Props.C01
import Props.C02
import Props.C04
import Props.C05
import Props.C05b
import Props.C18
