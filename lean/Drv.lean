import Drv.Codec
import Drv.Topic
