import Drv.Codec
import Drv.Topic
import Drv.Session
import Drv.Broker
import Drv.BaseConn
import Drv.Stream
import Drv.Service
import Drv.Client
