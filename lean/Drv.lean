import Drv.Codec
