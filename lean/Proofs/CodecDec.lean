import Model.Codec
import Model.Ref
/-
  Proofs/CodecDec.lean — helper lemmas for property C02 (Props/C02.lean).

  §1  generic facts about `R`/`Rd`, `slice?`
  §2  `NoPanic`   (decode_no_panic)
  §3  `Suffix`    (decode_rest_suffix)
  §4  the varint reader as a fuelled structural function `rv`
  §5  header lemmas (header_table, detect_eq_header, framed headers)
  §6  locality
  §7  re-encodability
  §8  agreement with the reference decoder
-/

/-! ## §1 generic -/

theorem slice?_zero {α} (s : List α) (n : Nat) (h : n ≤ s.length) :
    slice? s 0 n = .ok (s.take n) := by
  simp [slice?, h]

theorem slice?_zero_panic {α} (s : List α) (n : Nat) (h : ¬ n ≤ s.length) :
    slice? s 0 n = .error .panic := by
  simp [slice?, h]

theorem slice?_zero_length {α} (s : List α) : slice? s 0 s.length = .ok s := by
  simp [slice?]

theorem Rd.bind_apply' (m : Rd α) (f : α → Rd β) (bs : Bytes) :
    (Rd.bind m f) bs = match m bs with
      | .ok a rest => f a rest
      | .err e rest => .err e rest := rfl

theorem Rd.ite_apply (c : Prop) [Decidable c] (m₁ m₂ : Rd α) (bs : Bytes) :
    (if c then m₁ else m₂) bs = if c then m₁ bs else m₂ bs := by
  split <;> rfl

/-- the do-notation compiles `if c then Rd.fail` to `if c then Rd.fail >>= jp else jp ()` -/
theorem Rd.fail_bind {α β} (e : GoErr) (k : α → Rd β) : (Rd.fail e : Rd α) >>= k = Rd.fail e := rfl

@[simp] theorem R.isPanic_err {α} (e : GoErr) (r : Bytes) :
    (R.err e r : R α).isPanic = decide (e = GoErr.panic) := by
  cases e <;> rfl

@[simp] theorem R.isPanic_ok {α} (a : α) (r : Bytes) : (R.ok a r).isPanic = false := rfl

/-! ## §2 NoPanic -/

def NoPanic (m : Rd α) : Prop := ∀ bs, (m bs).isPanic = false

namespace NoPanic

theorem pure (a : α) : NoPanic (Pure.pure a : Rd α) := fun _ => rfl

theorem fail : NoPanic (Rd.fail : Rd α) := fun _ => rfl

theorem bind {m : Rd α} {f : α → Rd β} (hm : NoPanic m) (hf : ∀ a, NoPanic (f a)) :
    NoPanic (m >>= f) := by
  intro bs
  rw [Rd.bind_apply]
  have := hm bs
  split
  · exact hf _ _
  · rename_i e r heq
    rw [heq] at this
    simpa using this

theorem ite {c : Prop} [Decidable c] {m₁ m₂ : Rd α} (h₁ : NoPanic m₁) (h₂ : NoPanic m₂) :
    NoPanic (if c then m₁ else m₂) := by
  split <;> assumption

theorem guard {c : Prop} [Decidable c] : NoPanic (if c then Rd.fail else Pure.pure PUnit.unit) :=
  ite fail (pure _)

theorem readU8 : NoPanic readU8 := by
  intro bs; cases bs <;> rfl

theorem readU16 : NoPanic readU16 := by
  intro bs
  match bs with
  | [] => rfl
  | [_] => rfl
  | _ :: _ :: _ => rfl

theorem readLP : NoPanic readLP := by
  intro bs
  unfold _root_.readLP
  have := readU16 bs
  split
  · rename_i heq; rw [heq] at this; simpa using this
  · split <;> rfl

theorem readVarint : NoPanic readVarint := by
  intro bs
  unfold _root_.readVarint
  split
  split <;> rfl

theorem getLen : NoPanic Rd.getLen := fun _ => rfl

theorem decodeHeader (t : PType) : NoPanic (decodeHeader t) := by
  intro bs
  unfold _root_.decodeHeader
  split
  · rfl
  · rfl
  · split
    · rfl
    · split
      · rfl
      · have := readVarint (by assumption)
        split
        · rename_i heq; rw [heq] at this; simpa using this
        · split <;> rfl

theorem decSubs (sl : Int) (buf : Bytes) (acc : List Subscription) :
    (decSubs sl buf acc).isPanic = false := by
  fun_induction _root_.decSubs sl buf acc with
  | case1 => rfl
  | case2 sl buf acc hsl e r h =>
    have := readLP buf; rw [h] at this; simpa using this
  | case3 => rfl
  | case4 => rfl
  | case5 _ _ _ _ _ _ _ _ _ _ ih => exact ih

theorem decTopics (tl : Int) (buf : Bytes) (acc : List Bytes) :
    (decTopics tl buf acc).isPanic = false := by
  fun_induction _root_.decTopics tl buf acc with
  | case1 => rfl
  | case2 tl buf acc htl e r h =>
    have := readLP buf; rw [h] at this; simpa using this
  | case3 _ _ _ _ _ _ _ ih => exact ih

theorem decCodes (n : Nat) (buf : Bytes) (acc : List UInt8) :
    (decCodes n buf acc).isPanic = false := by
  induction n generalizing buf acc with
  | zero => rfl
  | succ n ih =>
    unfold _root_.decCodes
    split
    · rfl
    · split
      · rfl
      · exact ih _ _

/-- `Rd.within rl m` cannot panic when `rl` bytes are there -/
theorem within_apply {m : Rd α} (hm : NoPanic m) (rl : Nat) (bs : Bytes) (h : rl ≤ bs.length) :
    (Rd.within rl m bs).isPanic = false := by
  unfold Rd.within
  rw [slice?_zero _ _ h]
  have := hm (bs.take rl)
  simp only
  split
  · rfl
  · rename_i heq; rw [heq] at this; simpa using this

end NoPanic

theorem decodeHeader_ok_le {t : PType} {src : Bytes} {fl rl : Nat} {rest : Bytes}
    (h : decodeHeader t src = .ok (fl, rl) rest) : rl ≤ rest.length := by
  unfold decodeHeader at h
  split at h
  · cases h
  · cases h
  · split at h
    · cases h
    · split at h
      · cases h
      · split at h
        · cases h
        · split at h
          · cases h
          · cases h; omega

/-- header followed by a body restricted to the declared length -/
theorem NoPanic.header_within (t : PType) {f : Nat → Nat → Rd α} (hf : ∀ fl rl, NoPanic (f fl rl)) :
    NoPanic (_root_.decodeHeader t >>= fun x => Rd.within x.2 (f x.1 x.2)) := by
  intro bs
  rw [Rd.bind_apply]
  have h := NoPanic.decodeHeader t bs
  split
  · rename_i a rest heq
    obtain ⟨fl, rl⟩ := a
    exact NoPanic.within_apply (hf _ _) _ _ (decodeHeader_ok_le heq)
  · rename_i heq; rw [heq] at h; simpa using h

/-- a NoPanic goal made of binds, guards and primitive readers -/
macro "nopanic_step" : tactic => `(tactic| first
  | exact NoPanic.pure _ | exact NoPanic.fail | exact NoPanic.guard
  | exact NoPanic.readU8 | exact NoPanic.readU16 | exact NoPanic.readLP | exact NoPanic.readVarint
  | exact NoPanic.decodeHeader _
  | exact (fun bs => NoPanic.decSubs _ bs _)
  | exact (fun bs => NoPanic.decTopics _ bs _)
  | exact (fun bs => NoPanic.decCodes _ bs _)
  | apply NoPanic.bind | apply NoPanic.ite | intro _)

macro "nopanic" : tactic => `(tactic| repeat nopanic_step)

theorem NoPanic.header_bind (t : PType) {f : Nat × Nat → Rd α}
    (hf : ∀ fl rl rest, rl ≤ rest.length → (f (fl, rl) rest).isPanic = false) :
    NoPanic (_root_.decodeHeader t >>= f) := by
  intro bs
  rw [Rd.bind_apply]
  have h := NoPanic.decodeHeader t bs
  split
  · rename_i a rest heq
    obtain ⟨fl, rl⟩ := a
    exact hf _ _ _ (decodeHeader_ok_le heq)
  · rename_i heq; rw [heq] at h; simpa using h

/-- the payload reader of PUBLISH, named -/
def payloadRd (l : Nat) : Rd Bytes := fun bs =>
  match slice? bs 0 l with
  | .ok pl => R.ok pl (bs.drop l)
  | .error e => R.err e bs

theorem payloadRd_length (bs : Bytes) : payloadRd bs.length bs = .ok bs [] := by
  simp [payloadRd, slice?_zero_length]

theorem getLen_payload_apply {g : Bytes → Rd β} (bs : Bytes) :
    (Rd.getLen >>= fun l => payloadRd l >>= g) bs = g bs [] := by
  rw [Rd.bind_apply]
  simp only [Rd.getLen]
  rw [Rd.bind_apply, payloadRd_length]

/-- the payload slice of PUBLISH: `l` is the current length, so the slice is in bounds -/
theorem NoPanic.getLen_payload {g : Bytes → Rd β} (hg : ∀ pl, NoPanic (g pl)) :
    NoPanic (Rd.getLen >>= fun l => payloadRd l >>= g) := by
  intro bs
  rw [getLen_payload_apply]
  exact hg _ _

theorem NoPanic.decodePublishBody (flags rl : Nat) : NoPanic (decodePublishBody flags rl) := by
  unfold _root_.decodePublishBody
  simp only [↓Rd.fail_bind]
  refine .ite .fail (.bind .readLP fun topic => .ite .fail (.bind ?_ fun id => ?_))
  · nopanic
  · exact NoPanic.getLen_payload fun pl => .pure _

theorem NoPanic.decodePublish : NoPanic decodePublish := by
  apply NoPanic.header_bind
  intro fl rl rest h
  exact NoPanic.within_apply (NoPanic.decodePublishBody fl rl) _ _ h

theorem NoPanic.decodeSubscribe : NoPanic decodeSubscribe := by
  apply NoPanic.header_bind
  intro fl rl rest h
  refine NoPanic.within_apply ?_ _ _ h
  simp only [↓Rd.fail_bind]
  nopanic

theorem NoPanic.decodeUnsubscribe : NoPanic decodeUnsubscribe := by
  apply NoPanic.header_bind
  intro fl rl rest h
  refine NoPanic.within_apply ?_ _ _ h
  simp only [↓Rd.fail_bind]
  nopanic

theorem NoPanic.decodeSuback : NoPanic decodeSuback := by
  apply NoPanic.bind (.decodeHeader _)
  rintro ⟨fl, rl⟩
  simp only [↓Rd.fail_bind]
  nopanic

theorem NoPanic.decodeConnack : NoPanic decodeConnack := by
  apply NoPanic.bind (.decodeHeader _)
  rintro ⟨fl, rl⟩
  simp only [↓Rd.fail_bind]
  nopanic

theorem NoPanic.decodeIdentified (t : PType) (mk : UInt16 → Packet) :
    NoPanic (decodeIdentified t mk) := by
  apply NoPanic.bind (.decodeHeader _)
  rintro ⟨fl, rl⟩
  simp only [↓Rd.fail_bind]
  nopanic

theorem NoPanic.decodeNaked (t : PType) (p : Packet) : NoPanic (decodeNaked t p) := by
  apply NoPanic.bind (.decodeHeader _)
  rintro ⟨fl, rl⟩
  simp only [↓Rd.fail_bind]
  nopanic

theorem NoPanic.decodeConnect : NoPanic decodeConnect := by
  unfold _root_.decodeConnect
  simp only [↓Rd.fail_bind]
  nopanic

theorem NoPanic.decode (t : PType) : NoPanic (decode t) := by
  cases t <;> unfold _root_.decode <;> simp only
  · exact .decodeConnect
  · exact .decodeConnack
  · exact .decodePublish
  · exact .decodeIdentified _ _
  · exact .decodeIdentified _ _
  · exact .decodeIdentified _ _
  · exact .decodeIdentified _ _
  · exact .decodeSubscribe
  · exact .decodeSuback
  · exact .decodeUnsubscribe
  · exact .decodeIdentified _ _
  · exact .decodeNaked _ _
  · exact .decodeNaked _ _
  · exact .decodeNaked _ _

/-! ## §3 Suffix -/

def Suffix (m : Rd α) : Prop := ∀ bs, (m bs).rest <:+ bs

namespace Suffix

theorem pure (a : α) : Suffix (Pure.pure a : Rd α) := fun _ => List.suffix_refl _

theorem fail : Suffix (Rd.fail : Rd α) := fun _ => List.suffix_refl _

theorem bind {m : Rd α} {f : α → Rd β} (hm : Suffix m) (hf : ∀ a, Suffix (f a)) :
    Suffix (m >>= f) := by
  intro bs
  rw [Rd.bind_apply]
  have := hm bs
  split
  · rename_i a r heq
    rw [heq] at this
    exact (hf a r).trans this
  · rename_i e r heq
    rw [heq] at this
    exact this

theorem ite {c : Prop} [Decidable c] {m₁ m₂ : Rd α} (h₁ : Suffix m₁) (h₂ : Suffix m₂) :
    Suffix (if c then m₁ else m₂) := by
  split <;> assumption

theorem readU8 : Suffix readU8 := by
  intro bs
  cases bs with
  | nil => exact List.suffix_refl _
  | cons b r => exact List.suffix_cons _ _

theorem readU16 : Suffix readU16 := by
  intro bs
  match bs with
  | [] => exact List.suffix_refl _
  | [_] => exact List.suffix_refl _
  | a :: b :: r => exact (List.suffix_cons _ _).trans (List.suffix_cons _ _)

theorem readLP : Suffix readLP := by
  intro bs
  unfold _root_.readLP
  have := readU16 bs
  split
  · rename_i heq; rw [heq] at this; exact this
  · rename_i heq; rw [heq] at this
    split
    · exact this
    · exact (List.drop_suffix _ _).trans this

theorem readVarint : Suffix readVarint := by
  intro bs
  unfold _root_.readVarint
  split
  split
  · exact List.suffix_refl _
  · exact List.drop_suffix _ _

theorem getLen : Suffix Rd.getLen := fun _ => List.suffix_refl _

theorem payloadRd (l : Nat) : Suffix (payloadRd l) := by
  intro bs
  unfold _root_.payloadRd
  split
  · exact List.drop_suffix _ _
  · exact List.suffix_refl _

theorem decodeHeader (t : PType) : Suffix (decodeHeader t) := by
  intro bs
  unfold _root_.decodeHeader
  split
  · exact List.suffix_refl _
  · exact List.suffix_refl _
  · rename_i b0 tl _
    have h1 : tl <:+ b0 :: tl := List.suffix_cons _ _
    split
    · exact h1
    · split
      · exact h1
      · have := readVarint tl
        split
        · rename_i heq; rw [heq] at this; exact this.trans h1
        · rename_i heq; rw [heq] at this
          split <;> exact this.trans h1

theorem decSubs (sl : Int) (buf : Bytes) (acc : List Subscription) :
    (decSubs sl buf acc).rest <:+ buf := by
  fun_induction _root_.decSubs sl buf acc with
  | case1 => exact List.suffix_refl _
  | case2 sl buf acc hsl e r h =>
    have := readLP buf; rw [h] at this; exact this
  | case3 sl buf acc hsl topic h _ =>
    have := readLP buf; rw [h] at this; exact this
  | case4 sl buf acc hsl topic q rest' h hq _ =>
    have := readLP buf; rw [h] at this; exact (List.suffix_cons _ _).trans this
  | case5 sl buf acc hsl topic q rest' h hq _ ih =>
    have := readLP buf; rw [h] at this
    exact ih.trans ((List.suffix_cons _ _).trans this)

theorem decTopics (tl : Int) (buf : Bytes) (acc : List Bytes) :
    (decTopics tl buf acc).rest <:+ buf := by
  fun_induction _root_.decTopics tl buf acc with
  | case1 => exact List.suffix_refl _
  | case2 tl buf acc htl e r h =>
    have := readLP buf; rw [h] at this; exact this
  | case3 tl buf acc htl topic rest h ih =>
    have := readLP buf; rw [h] at this
    exact ih.trans this

theorem decCodes (n : Nat) (buf : Bytes) (acc : List UInt8) :
    (decCodes n buf acc).rest <:+ buf := by
  induction n generalizing buf acc with
  | zero => exact List.suffix_refl _
  | succ n ih =>
    unfold _root_.decCodes
    split
    · exact List.suffix_refl _
    · split
      · exact List.suffix_cons _ _
      · exact (ih _ _).trans (List.suffix_cons _ _)

theorem within {m : Rd α} (hm : Suffix m) (rl : Nat) : Suffix (Rd.within rl m) := by
  intro bs
  unfold Rd.within
  by_cases h : rl ≤ bs.length
  · rw [slice?_zero _ _ h]
    have := hm (bs.take rl)
    have key : ∀ r : Bytes, r <:+ bs.take rl → r ++ bs.drop rl <:+ bs := by
      intro r ⟨t, ht⟩
      refine ⟨t, ?_⟩
      rw [← List.append_assoc, ht, List.take_append_drop]
    simp only
    split
    · rename_i heq; rw [heq] at this; exact key _ this
    · rename_i heq; rw [heq] at this; exact key _ this
  · rw [slice?_zero_panic _ _ h]
    exact List.suffix_refl _

end Suffix

macro "suffix_step" : tactic => `(tactic| first
  | exact Suffix.pure _ | exact Suffix.fail
  | exact Suffix.readU8 | exact Suffix.readU16 | exact Suffix.readLP | exact Suffix.readVarint
  | exact Suffix.decodeHeader _ | exact Suffix.getLen | exact Suffix.payloadRd _
  | exact (fun bs => Suffix.decSubs _ bs _)
  | exact (fun bs => Suffix.decTopics _ bs _)
  | exact (fun bs => Suffix.decCodes _ bs _)
  | apply Suffix.within
  | apply Suffix.bind | apply Suffix.ite | intro _)

macro "suffix" : tactic => `(tactic| repeat suffix_step)

theorem Suffix.decodePublishBody (flags rl : Nat) : Suffix (decodePublishBody flags rl) := by
  unfold _root_.decodePublishBody
  simp only [↓Rd.fail_bind]
  suffix

theorem Suffix.decodePublish : Suffix decodePublish := by
  apply Suffix.bind (.decodeHeader _)
  rintro ⟨fl, rl⟩
  exact Suffix.within (Suffix.decodePublishBody fl rl) _

theorem Suffix.decodeSubscribe : Suffix decodeSubscribe := by
  apply Suffix.bind (.decodeHeader _)
  rintro ⟨fl, rl⟩
  simp only [↓Rd.fail_bind]
  suffix

theorem Suffix.decodeUnsubscribe : Suffix decodeUnsubscribe := by
  apply Suffix.bind (.decodeHeader _)
  rintro ⟨fl, rl⟩
  simp only [↓Rd.fail_bind]
  suffix

theorem Suffix.decodeSuback : Suffix decodeSuback := by
  apply Suffix.bind (.decodeHeader _)
  rintro ⟨fl, rl⟩
  simp only [↓Rd.fail_bind]
  suffix

theorem Suffix.decodeConnack : Suffix decodeConnack := by
  apply Suffix.bind (.decodeHeader _)
  rintro ⟨fl, rl⟩
  simp only [↓Rd.fail_bind]
  suffix

theorem Suffix.decodeIdentified (t : PType) (mk : UInt16 → Packet) :
    Suffix (decodeIdentified t mk) := by
  apply Suffix.bind (.decodeHeader _)
  rintro ⟨fl, rl⟩
  simp only [↓Rd.fail_bind]
  suffix

theorem Suffix.decodeNaked (t : PType) (p : Packet) : Suffix (decodeNaked t p) := by
  apply Suffix.bind (.decodeHeader _)
  rintro ⟨fl, rl⟩
  simp only [↓Rd.fail_bind]
  suffix

theorem Suffix.decodeConnect : Suffix decodeConnect := by
  unfold _root_.decodeConnect
  simp only [↓Rd.fail_bind]
  suffix

theorem Suffix.decode (t : PType) : Suffix (decode t) := by
  cases t <;> unfold _root_.decode <;> simp only
  · exact .decodeConnect
  · exact .decodeConnack
  · exact .decodePublish
  · exact .decodeIdentified _ _
  · exact .decodeIdentified _ _
  · exact .decodeIdentified _ _
  · exact .decodeIdentified _ _
  · exact .decodeSubscribe
  · exact .decodeSuback
  · exact .decodeUnsubscribe
  · exact .decodeIdentified _ _
  · exact .decodeNaked _ _
  · exact .decodeNaked _ _
  · exact .decodeNaked _ _

/-! ## §4 the varint reader as a fuelled structural function -/

/-- at most `fuel` bytes; `mult` is the weight of the next 7-bit group -/
def rv : Nat → Nat → Nat → Bytes → Option (Nat × Bytes)
  | 0, _, _, _ => none
  | _ + 1, _, _, [] => none
  | f + 1, mult, acc, b :: r =>
    if b.toNat < 128 then some (acc + b.toNat * mult, r)
    else rv f (mult * 128) (acc + b.toNat % 128 * mult) r

theorem rv_length {f m a : Nat} {l : Bytes} {v : Nat} {r : Bytes} (h : rv f m a l = some (v, r)) :
    r.length < l.length ∧ l.length ≤ r.length + f ∧ r = l.drop (l.length - r.length) := by
  induction f generalizing m a l with
  | zero => simp [rv] at h
  | succ f ih =>
    cases l with
    | nil => simp [rv] at h
    | cons b t =>
      simp only [rv] at h
      split at h
      · cases h
        simp
      · have := ih h
        obtain ⟨h1, h2, h3⟩ := this
        refine ⟨by simp; omega, by simp; omega, ?_⟩
        have : (b :: t).length - r.length = (t.length - r.length) + 1 := by simp; omega
        rw [this, List.drop_succ_cons]
        exact h3

theorem uvarintAux_take (f : Nat) (buf : Bytes) (x s i : Nat) (hi : i + f ≤ 9) :
    uvarintAux (buf.take f) x s i =
      match rv f (2 ^ s) x buf with
      | some (v, r) => (v, ((i + (buf.length - r.length) : Nat) : Int))
      | none => (0, 0) := by
  induction f generalizing buf x s i with
  | zero => simp [rv, uvarintAux]
  | succ f ih =>
    cases buf with
    | nil => simp [rv, uvarintAux]
    | cons b t =>
      simp only [List.take_succ_cons, uvarintAux, rv]
      have h10 : ¬ i = 10 := by omega
      have h9 : ¬ i = 9 := by omega
      simp only [h10, h9, if_false, false_and]
      split
      · simp
      · rw [ih t _ _ _ (by omega)]
        rw [Nat.pow_add]
        show _ = match rv f (2 ^ s * 128) (x + b.toNat % 128 * 2 ^ s) t with
          | some (v, r) => (v, ((i + ((b :: t).length - r.length) : Nat) : Int))
          | none => (0, 0)
        cases hrv : rv f (2 ^ s * 128) (x + b.toNat % 128 * 2 ^ s) t with
        | none => rfl
        | some p =>
          obtain ⟨v, r⟩ := p
          have := rv_length hrv
          simp only [List.length_cons]
          congr 2
          omega

theorem readVarint_eq_rv (buf : Bytes) :
    readVarint buf = match rv 4 1 0 buf with
      | some (v, r) => .ok v r
      | none => .err .err buf := by
  unfold readVarint uvarint
  rw [uvarintAux_take 4 buf 0 0 0 (by omega)]
  have e : (2 : Nat) ^ 0 = 1 := rfl
  rw [e]
  cases hrv : rv 4 1 0 buf with
  | none => simp
  | some p =>
    obtain ⟨v, r⟩ := p
    have := rv_length hrv
    simp only
    rw [if_neg (by omega)]
    congr 1
    rw [show ((0 + (buf.length - r.length) : Nat) : Int).toNat = buf.length - r.length by omega]
    exact this.2.2.symm

theorem rv_append {f m a : Nat} {l : Bytes} {v : Nat} {r : Bytes} (h : rv f m a l = some (v, r))
    (tail : Bytes) : rv f m a (l ++ tail) = some (v, r ++ tail) := by
  induction f generalizing m a l with
  | zero => simp [rv] at h
  | succ f ih =>
    cases l with
    | nil => simp [rv] at h
    | cons b t =>
      simp only [rv, List.cons_append] at h ⊢
      split at h
      · cases h; rw [if_pos (by assumption)]
      · rw [if_neg (by assumption)]; exact ih h

/-- the value is `acc + q * mult` with `q` below `128 ^ fuel` -/
theorem rv_value {f m a : Nat} {l : Bytes} {v : Nat} {r : Bytes} (h : rv f m a l = some (v, r)) :
    ∃ q, v = a + q * m ∧ q < 128 ^ f := by
  induction f generalizing m a l with
  | zero => simp [rv] at h
  | succ f ih =>
    cases l with
    | nil => simp [rv] at h
    | cons b t =>
      simp only [rv] at h
      split at h
      · cases h
        refine ⟨b.toNat, rfl, ?_⟩
        have : 0 < 128 ^ f := Nat.pow_pos (by omega)
        rw [Nat.pow_succ]; omega
      · obtain ⟨q, hq, hlt⟩ := ih h
        refine ⟨b.toNat % 128 + q * 128, ?_, ?_⟩
        · rw [hq, Nat.add_mul, Nat.mul_assoc, Nat.mul_comm 128 m, Nat.add_assoc]
        · rw [Nat.pow_succ]; omega

theorem readVarint_ok_le {buf : Bytes} {rl : Nat} {rest : Bytes} (h : readVarint buf = .ok rl rest) :
    rl ≤ maxVarint := by
  rw [readVarint_eq_rv] at h
  cases hrv : rv 4 1 0 buf with
  | none => rw [hrv] at h; cases h
  | some p =>
    obtain ⟨v, r⟩ := p
    rw [hrv] at h
    cases h
    obtain ⟨q, hq, hlt⟩ := rv_value hrv
    simp [maxVarint] at *
    omega

theorem readVarint_ok_iff {buf : Bytes} {rl : Nat} {rest : Bytes} :
    readVarint buf = .ok rl rest ↔ rv 4 1 0 buf = some (rl, rest) := by
  rw [readVarint_eq_rv]
  cases rv 4 1 0 buf with
  | none => simp
  | some p => obtain ⟨v, r⟩ := p; simp

theorem readVarint_err_iff {buf : Bytes} {e : GoErr} {rest : Bytes} :
    readVarint buf = .err e rest ↔ rv 4 1 0 buf = none ∧ e = .err ∧ rest = buf := by
  rw [readVarint_eq_rv]
  cases rv 4 1 0 buf with
  | none => simp; constructor <;> (rintro ⟨rfl, rfl⟩; exact ⟨rfl, rfl⟩)
  | some p => obtain ⟨v, r⟩ := p; simp

theorem readVarint_append {buf : Bytes} {rl : Nat} {rest : Bytes} (h : readVarint buf = .ok rl rest)
    (tail : Bytes) : readVarint (buf ++ tail) = .ok rl (rest ++ tail) := by
  rw [readVarint_ok_iff] at h ⊢
  exact rv_append h tail

theorem readVarint_ok_length {buf : Bytes} {rl : Nat} {rest : Bytes} (h : readVarint buf = .ok rl rest) :
    rest.length < buf.length ∧ buf.length ≤ rest.length + 4 := by
  rw [readVarint_ok_iff] at h
  have := rv_length h
  exact ⟨this.1, this.2.1⟩

/-- the reference remaining-length decoder is the same function -/
theorem decRL_eq_rv (f m a : Nat) (l : Bytes) : Ref.decRL f m a l = rv f m a l := by
  induction f generalizing m a l with
  | zero => rfl
  | succ f ih =>
    cases l with
    | nil => rfl
    | cons b t =>
      simp only [rv]
      show (if b.toNat < 128 then (pure (a + b.toNat % 128 * m) : Ref.P Nat) else Ref.decRL f (m * 128) (a + b.toNat % 128 * m)) t = _
      split
      · rename_i hb
        rw [Nat.mod_eq_of_lt hb]; rfl
      · exact ih _ _ _

/-! ## §5 headers -/

theorem uvarintAux_append (l l' : Bytes) (x s i : Nat) (v : Nat) (n : Int)
    (h : uvarintAux l x s i = (v, n)) (hn : 0 < n) : uvarintAux (l ++ l') x s i = (v, n) := by
  induction l generalizing x s i with
  | nil => simp [uvarintAux] at h; omega
  | cons b t ih =>
    simp only [uvarintAux, List.cons_append] at h ⊢
    split
    · rw [if_pos (by assumption)] at h; exact h
    · rw [if_neg (by assumption)] at h
      split
      · rw [if_pos (by assumption)] at h; exact h
      · rw [if_neg (by assumption)] at h; exact ih _ _ _ h

theorem wrapInt64_small (x : Int) (h0 : 0 ≤ x) (h1 : x < 2 ^ 62) : wrapInt64 x = x := by
  unfold wrapInt64
  have e63 : (2 : Int) ^ 63 = 9223372036854775808 := by decide
  have e64 : (2 : Int) ^ 64 = 18446744073709551616 := by decide
  have e62 : (2 : Int) ^ 62 = 4611686018427387904 := by decide
  rw [e63, e64]; rw [e62] at h1
  omega

theorem detect_eq_header' (b0 : UInt8) (tl : Bytes) (rl : Nat) (rest : Bytes)
    (h : readVarint tl = .ok rl rest) :
    detectPacket (b0 :: tl) = (((1 + (tl.length - rest.length) + rl : Nat) : Int), b0.toNat / 16) := by
  have hle := readVarint_ok_le h
  have hlen := readVarint_ok_length h
  have hrv := readVarint_ok_iff.mp h
  have hu := uvarintAux_take 4 tl 0 0 0 (by omega)
  have e : (2 : Nat) ^ 0 = 1 := rfl
  rw [e, hrv] at hu
  simp only [Nat.zero_add] at hu
  have hu' : uvarint tl = (rl, ((tl.length - rest.length : Nat) : Int)) := by
    have := uvarintAux_append (tl.take 4) (tl.drop 4) 0 0 0 _ _ hu (by omega)
    rw [List.take_append_drop] at this
    exact this
  cases tl with
  | nil => simp at hlen
  | cons a t =>
    unfold detectPacket
    simp only [hu']
    rw [if_neg (by omega)]
    rw [wrapInt64_small _ (by omega) (by simp [maxVarint] at hle; omega)]
    congr 1

theorem UInt8.toNat_ofNat_lt (n : Nat) (h : n < 256) : (UInt8.ofNat n).toNat = n := by
  simp; omega

theorem readVarint_zero (rest : Bytes) : readVarint (0 :: rest) = .ok 0 rest := by
  rw [readVarint_ok_iff]; simp [rv]

theorem header_table' (t : PType) (ty fl : Nat) (hty : ty < 16) (hfl : fl < 16) (rest : Bytes) :
    (decodeHeader t (UInt8.ofNat (ty * 16 + fl) :: 0 :: rest)).isOk
      = (decide (ty = t.code) && (t == .publish || decide (fl = t.defaultFlags))) := by
  have hb : (UInt8.ofNat (ty * 16 + fl)).toNat = ty * 16 + fl := UInt8.toNat_ofNat_lt _ (by omega)
  have h1 : (ty * 16 + fl) / 16 = ty := by omega
  have h2 : (ty * 16 + fl) % 16 = fl := by omega
  unfold decodeHeader
  simp only [hb, h1, h2, readVarint_zero]
  by_cases hc : ty = t.code
  · by_cases hp : t = .publish
    · simp [hc, hp, R.isOk]
    · by_cases hf : fl = t.defaultFlags
      · simp [hc, hp, hf, R.isOk]
      · simp [hc, hp, hf, R.isOk]
  · simp [hc, R.isOk]

/-! ## §6 framed packets and locality -/

theorem framed_elim {pkt : Bytes} (hf : framed pkt = true) :
    ∃ b0 tl rl rest, pkt = b0 :: tl ∧ readVarint tl = .ok rl rest ∧ rest.length = rl := by
  cases pkt with
  | nil => simp [framed] at hf
  | cons b0 tl =>
    simp only [framed] at hf
    cases h : readVarint tl with
    | ok rl rest =>
      rw [h] at hf
      exact ⟨b0, tl, rl, rest, rfl, h, by simpa using hf⟩
    | err e r => rw [h] at hf; simp at hf

/-- what `decodeHeader` checks in the first byte -/
def hdrOK (t : PType) (b0 : UInt8) : Bool :=
  decide (b0.toNat / 16 = t.code) && (decide (t = .publish) || decide (b0.toNat % 16 = t.defaultFlags))

theorem decodeHeader_framed (t : PType) (b0 : UInt8) {tl : Bytes} {rl : Nat} {rest : Bytes}
    (h : readVarint tl = .ok rl rest) (hl : rest.length = rl) (tail : Bytes) :
    decodeHeader t (b0 :: tl ++ tail) =
      if hdrOK t b0 then .ok (b0.toNat % 16, rl) (rest ++ tail) else .err .err (tl ++ tail) := by
  have hlen := readVarint_ok_length h
  cases tl with
  | nil => simp at hlen
  | cons a tl' =>
    have h' := readVarint_append h tail
    simp only [List.cons_append] at h' ⊢
    unfold decodeHeader
    simp only [h']
    unfold hdrOK
    by_cases h1 : b0.toNat / 16 = t.code
    · by_cases h2 : t = .publish
      · simp [h1, h2, hl]
      · by_cases h3 : b0.toNat % 16 = t.defaultFlags
        · simp [h1, h2, h3, hl]
        · simp [h1, h2, h3]
    · simp [h1]

/-- append `tail` to the reported rest -/
def R.app (r : R α) (tail : Bytes) : R α :=
  match r with
  | .ok a r => .ok a (r ++ tail)
  | .err e r => .err e (r ++ tail)

@[simp] theorem R.app_ok (a : α) (r tail : Bytes) : (R.ok a r).app tail = .ok a (r ++ tail) := rfl
@[simp] theorem R.app_err (e : GoErr) (r tail : Bytes) :
    (R.err e r : R α).app tail = .err e (r ++ tail) := rfl
@[simp] theorem R.app_toOption (x : R α) (tail : Bytes) : (x.app tail).toOption = x.toOption := by
  cases x <;> rfl

theorem header_bind_local (t : PType) (f : Nat × Nat → Rd α) (b0 : UInt8) {tl : Bytes} {rl : Nat}
    {rest : Bytes} (h : readVarint tl = .ok rl rest) (hl : rest.length = rl) (tail : Bytes)
    (hf : f (b0.toNat % 16, rl) (rest ++ tail) = (f (b0.toNat % 16, rl) rest).app tail) :
    (decodeHeader t >>= f) (b0 :: tl ++ tail) = ((decodeHeader t >>= f) (b0 :: tl)).app tail := by
  have h1 := decodeHeader_framed t b0 h hl tail
  have h2 := decodeHeader_framed t b0 h hl []
  simp only [List.append_nil] at h2
  rw [Rd.bind_apply, Rd.bind_apply, h1, h2]
  cases hdrOK t b0 with
  | true => simpa using hf
  | false => simp

theorem header_bind_local_opt (t : PType) (f : Nat × Nat → Rd α) (b0 : UInt8) {tl : Bytes} {rl : Nat}
    {rest : Bytes} (h : readVarint tl = .ok rl rest) (hl : rest.length = rl) (tail : Bytes)
    (hf : (f (b0.toNat % 16, rl) (rest ++ tail)).toOption = (f (b0.toNat % 16, rl) rest).toOption) :
    ((decodeHeader t >>= f) (b0 :: tl ++ tail)).toOption
      = ((decodeHeader t >>= f) (b0 :: tl)).toOption := by
  have h1 := decodeHeader_framed t b0 h hl tail
  have h2 := decodeHeader_framed t b0 h hl []
  simp only [List.append_nil] at h2
  rw [Rd.bind_apply, Rd.bind_apply, h1, h2]
  cases hdrOK t b0 with
  | true => simpa using hf
  | false => simp [R.toOption]

theorem within_local (m : Rd α) {rl : Nat} {rest : Bytes} (hl : rest.length = rl) (tail : Bytes) :
    Rd.within rl m (rest ++ tail) = (Rd.within rl m rest).app tail := by
  unfold Rd.within
  rw [slice?_zero _ _ (by simp; omega), slice?_zero _ _ (by omega)]
  subst hl
  simp only [List.take_left', List.drop_left', List.take_length, List.drop_length]
  cases m rest <;> simp

theorem Rd.pure_apply' {α} (a : α) (bs : Bytes) : (Pure.pure a : Rd α) bs = .ok a bs := rfl

theorem Rd.fail_apply {α} (e : GoErr) (bs : Bytes) : (Rd.fail e : Rd α) bs = .err e bs := rfl

@[simp] theorem readU16_cons2 (a b : UInt8) (r : Bytes) :
    readU16 (a :: b :: r) = .ok (a.toNat * 256 + b.toNat) r := rfl
@[simp] theorem readU16_nil : readU16 [] = .err .err [] := rfl
@[simp] theorem readU16_single (a : UInt8) : readU16 [a] = .err .err [a] := rfl
@[simp] theorem readU8_cons_d (a : UInt8) (r : Bytes) : readU8 (a :: r) = .ok a r := rfl
@[simp] theorem readU8_nil : readU8 [] = .err .err [] := rfl

theorem length_eq_two {l : List α} (h : l.length = 2) : ∃ a b, l = [a, b] := by
  match l, h with
  | [a, b], _ => exact ⟨a, b, rfl⟩

theorem identified_body_local (mk : UInt16 → Packet) {rl : Nat} {rest : Bytes}
    (hl : rest.length = rl) (tail : Bytes) :
    (if rl ≠ 2 then Rd.fail else readU16 >>= fun pid =>
        if pid = 0 then Rd.fail else pure (mk (UInt16.ofNat pid)) : Rd Packet) (rest ++ tail)
      = ((if rl ≠ 2 then Rd.fail else readU16 >>= fun pid =>
        if pid = 0 then Rd.fail else pure (mk (UInt16.ofNat pid)) : Rd Packet) rest).app tail := by
  by_cases h : rl = 2
  · subst h
    obtain ⟨a, b, rfl⟩ := length_eq_two hl
    simp only [ne_eq, not_true_eq_false, if_false, Rd.bind_apply, List.cons_append, List.nil_append,
      readU16_cons2]
    split <;> simp [Rd.fail_apply, Rd.pure_apply']
  · simp [h, Rd.fail_apply]

theorem decodeIdentified_local (t : PType) (mk : UInt16 → Packet) (b0 : UInt8) {tl : Bytes} {rl : Nat}
    {rest : Bytes} (h : readVarint tl = .ok rl rest) (hl : rest.length = rl) (tail : Bytes) :
    decodeIdentified t mk (b0 :: tl ++ tail) = (decodeIdentified t mk (b0 :: tl)).app tail := by
  unfold decodeIdentified
  apply header_bind_local t _ b0 h hl
  simp only [↓Rd.fail_bind]
  exact identified_body_local mk hl tail

theorem decodeNaked_local (t : PType) (p : Packet) (b0 : UInt8) {tl : Bytes} {rl : Nat}
    {rest : Bytes} (h : readVarint tl = .ok rl rest) (hl : rest.length = rl) (tail : Bytes) :
    decodeNaked t p (b0 :: tl ++ tail) = (decodeNaked t p (b0 :: tl)).app tail := by
  unfold decodeNaked
  apply header_bind_local t _ b0 h hl
  simp only [↓Rd.fail_bind]
  split <;> simp [Rd.fail_apply, Rd.pure_apply']

theorem decodeConnack_local (b0 : UInt8) {tl : Bytes} {rl : Nat}
    {rest : Bytes} (h : readVarint tl = .ok rl rest) (hl : rest.length = rl) (tail : Bytes) :
    decodeConnack (b0 :: tl ++ tail) = (decodeConnack (b0 :: tl)).app tail := by
  unfold decodeConnack
  apply header_bind_local _ _ b0 h hl
  simp only [↓Rd.fail_bind]
  by_cases h2 : rl = 2
  · subst h2
    obtain ⟨a, b, rfl⟩ := length_eq_two hl
    simp only [ne_eq, not_true_eq_false, if_false, Rd.bind_apply, List.cons_append, List.nil_append,
      readU8_cons_d]
    split
    · simp [Rd.fail_apply]
    · simp only [Rd.bind_apply, readU8_cons_d]
      split <;> simp [Rd.fail_apply, Rd.pure_apply']
  · simp [h2, Rd.fail_apply]

theorem decodePublish_local (b0 : UInt8) {tl : Bytes} {rl : Nat}
    {rest : Bytes} (h : readVarint tl = .ok rl rest) (hl : rest.length = rl) (tail : Bytes) :
    decodePublish (b0 :: tl ++ tail) = (decodePublish (b0 :: tl)).app tail := by
  unfold decodePublish
  apply header_bind_local _ _ b0 h hl
  exact within_local _ hl tail

theorem decodeSubscribe_local (b0 : UInt8) {tl : Bytes} {rl : Nat}
    {rest : Bytes} (h : readVarint tl = .ok rl rest) (hl : rest.length = rl) (tail : Bytes) :
    decodeSubscribe (b0 :: tl ++ tail) = (decodeSubscribe (b0 :: tl)).app tail := by
  unfold decodeSubscribe
  apply header_bind_local _ _ b0 h hl
  exact within_local _ hl tail

theorem decodeUnsubscribe_local (b0 : UInt8) {tl : Bytes} {rl : Nat}
    {rest : Bytes} (h : readVarint tl = .ok rl rest) (hl : rest.length = rl) (tail : Bytes) :
    decodeUnsubscribe (b0 :: tl ++ tail) = (decodeUnsubscribe (b0 :: tl)).app tail := by
  unfold decodeUnsubscribe
  apply header_bind_local _ _ b0 h hl
  exact within_local _ hl tail

theorem decCodes_local (cs : Bytes) (acc : List UInt8) (tail : Bytes) :
    decCodes cs.length (cs ++ tail) acc = (decCodes cs.length cs acc).app tail := by
  induction cs generalizing acc with
  | nil => simp [decCodes]
  | cons c cs ih =>
    simp only [List.length_cons, List.cons_append, decCodes]
    split
    · simp
    · exact ih _

/-- SUBACK reads the packet identifier before it looks at the remaining length: only the
    accept/reject outcome and the decoded value are local, not the error position -/
theorem decodeSuback_local_opt (b0 : UInt8) {tl : Bytes} {rl : Nat}
    {rest : Bytes} (h : readVarint tl = .ok rl rest) (hl : rest.length = rl) (tail : Bytes) :
    (decodeSuback (b0 :: tl ++ tail)).toOption = (decodeSuback (b0 :: tl)).toOption := by
  unfold decodeSuback
  apply header_bind_local_opt _ _ b0 h hl
  simp only [↓Rd.fail_bind]
  match rest, hl with
  | [], hl =>
    subst hl
    simp only [List.nil_append, Rd.bind_apply, readU16_nil]
    split
    · split
      · rfl
      · simp [R.toOption, Rd.fail_apply]
    · rfl
  | [a], hl =>
    subst hl
    simp only [Rd.bind_apply, readU16_single]
    split
    · split
      · rfl
      · simp [R.toOption, Rd.fail_apply]
    · rfl
  | a :: b :: cs, hl =>
    subst hl
    simp only [List.cons_append, Rd.bind_apply, readU16_cons2]
    split
    · rfl
    · split
      · rfl
      · have e : (a :: b :: cs).length - 2 = cs.length := by simp
        rw [e]
        simp only [bind, Rd.bind]
        rw [decCodes_local]
        cases decCodes cs.length cs [] <;> rfl

/-- SUBACK is fully local (error positions included) as soon as the declared length covers the
    packet identifier -/
theorem decodeSuback_local (b0 : UInt8) {tl : Bytes} {rl : Nat}
    {rest : Bytes} (h : readVarint tl = .ok rl rest) (hl : rest.length = rl) (h2 : 2 ≤ rl)
    (tail : Bytes) :
    decodeSuback (b0 :: tl ++ tail) = (decodeSuback (b0 :: tl)).app tail := by
  unfold decodeSuback
  apply header_bind_local _ _ b0 h hl
  simp only [↓Rd.fail_bind]
  match rest, hl with
  | [], hl => subst hl; simp at h2
  | [a], hl => subst hl; simp at h2
  | a :: b :: cs, hl =>
    subst hl
    simp only [List.cons_append, Rd.bind_apply, readU16_cons2]
    split
    · rfl
    · split
      · rfl
      · have e : (a :: b :: cs).length - 2 = cs.length := by simp
        rw [e]
        simp only [bind, Rd.bind]
        rw [decCodes_local]
        cases decCodes cs.length cs [] <;> rfl

theorem decode_local_strong' (t : PType) (ht : t ≠ .connect) (hs : t ≠ .suback) (pkt tail : Bytes)
    (hf : framed pkt = true) : decode t (pkt ++ tail) = (decode t pkt).app tail := by
  obtain ⟨b0, tl, rl, rest, rfl, h, hl⟩ := framed_elim hf
  cases t <;> simp only [decode] <;> first
    | exact absurd rfl ht
    | exact absurd rfl hs
    | exact decodeIdentified_local _ _ b0 h hl tail
    | exact decodeNaked_local _ _ b0 h hl tail
    | exact decodeConnack_local b0 h hl tail
    | exact decodePublish_local b0 h hl tail
    | exact decodeSubscribe_local b0 h hl tail
    | exact decodeUnsubscribe_local b0 h hl tail

theorem decode_local_opt' (t : PType) (ht : t ≠ .connect) (pkt tail : Bytes)
    (hf : framed pkt = true) : (decode t (pkt ++ tail)).toOption = (decode t pkt).toOption := by
  by_cases hs : t = .suback
  · subst hs
    obtain ⟨b0, tl, rl, rest, rfl, h, hl⟩ := framed_elim hf
    exact decodeSuback_local_opt b0 h hl tail
  · rw [decode_local_strong' t ht hs pkt tail hf, R.app_toOption]

theorem decodeSuback_local_hdr (pkt tail : Bytes) (hf : framed pkt = true) (fl rl : Nat) (rest : Bytes)
    (hh : decodeHeader .suback pkt = .ok (fl, rl) rest) (h2 : 2 ≤ rl) :
    decode .suback (pkt ++ tail) = (decode .suback pkt).app tail := by
  simp only [decode]
  obtain ⟨b0, tl, rl', rest', rfl, h, hl⟩ := framed_elim hf
  have := decodeHeader_framed .suback b0 h hl []
  simp only [List.append_nil] at this
  rw [this] at hh
  split at hh
  · cases hh
    exact decodeSuback_local b0 h hl h2 tail
  · cases hh

/-- witness against full locality of CONNECT -/
def connectWitness : Bytes := [0x10, 0x0d, 0, 4, 77, 81, 84, 84, 4, 2, 0, 30, 0, 2, 0x2b]

theorem connectWitness_framed : framed connectWitness = true := by decide +kernel

theorem connectWitness_alone : (decode .connect connectWitness).toOption = none := by
  decide +kernel

theorem connectWitness_embedded :
    (decode .connect (connectWitness ++ [0x7a, 0x6f])).toOption
      = some (.connect [0x2b, 0x7a] 30 [] [] true none 4) := by
  decide +kernel

/-! ## §7 inversion of successful reads; re-encodability -/

theorem Rd.bind_eq_ok {m : Rd α} {f : α → Rd β} {bs : Bytes} {a : β} {r : Bytes} :
    (m >>= f) bs = .ok a r ↔ ∃ x r', m bs = .ok x r' ∧ f x r' = .ok a r := by
  rw [Rd.bind_apply]
  cases m bs with
  | ok x r' =>
    constructor
    · intro h; exact ⟨x, r', rfl, h⟩
    · rintro ⟨x', r'', h1, h2⟩; cases h1; exact h2
  | err e r' => simp

theorem Rd.ite_eq_ok {c : Prop} [Decidable c] {m₁ m₂ : Rd α} {bs : Bytes} {a : α} {r : Bytes} :
    (if c then m₁ else m₂) bs = .ok a r ↔ (c ∧ m₁ bs = .ok a r) ∨ (¬c ∧ m₂ bs = .ok a r) := by
  split <;> simp [*]

theorem Rd.fail_eq_ok {e : GoErr} {bs : Bytes} {a : α} {r : Bytes} :
    (Rd.fail e : Rd α) bs = .ok a r ↔ False := by
  simp [Rd.fail]

theorem Rd.pure_eq_ok {x : α} {bs : Bytes} {a : α} {r : Bytes} :
    (Pure.pure x : Rd α) bs = .ok a r ↔ x = a ∧ bs = r := by
  rw [Rd.pure_apply']; simp

theorem Rd.getLen_eq_ok {bs : Bytes} {x : Nat} {r : Bytes} :
    Rd.getLen bs = .ok x r ↔ bs.length = x ∧ bs = r := by
  simp [Rd.getLen]

theorem within_eq_ok {m : Rd α} {rl : Nat} {bs : Bytes} {a : α} {r : Bytes}
    (h : Rd.within rl m bs = .ok a r) :
    rl ≤ bs.length ∧ ∃ r', m (bs.take rl) = .ok a r' ∧ r = r' ++ bs.drop rl := by
  unfold Rd.within at h
  by_cases hl : rl ≤ bs.length
  · rw [slice?_zero _ _ hl] at h
    simp only at h
    split at h
    · rename_i a' r' heq
      cases h
      exact ⟨hl, r', heq, rfl⟩
    · cases h
  · rw [slice?_zero_panic _ _ hl] at h
    cases h

theorem decodeHeader_ok_le_max {t : PType} {src : Bytes} {fl rl : Nat} {rest : Bytes}
    (h : decodeHeader t src = .ok (fl, rl) rest) : rl ≤ maxVarint := by
  unfold decodeHeader at h
  split at h
  · cases h
  · cases h
  · split at h
    · cases h
    · split at h
      · cases h
      · split at h
        · cases h
        · rename_i heq
          split at h
          · cases h
          · cases h; exact readVarint_ok_le heq

theorem readU16_ok_lt {buf : Bytes} {n : Nat} {rest : Bytes} (h : readU16 buf = .ok n rest) :
    n < 65536 ∧ rest.length + 2 = buf.length := by
  match buf, h with
  | a :: b :: r, h =>
    simp only [readU16_cons2] at h
    cases h
    have := a.toNat_lt; have := b.toNat_lt
    simp; omega

theorem readLP_ok_le {buf t rest : Bytes} (h : readLP buf = .ok t rest) : t.length ≤ 65535 := by
  unfold readLP at h
  split at h
  · cases h
  · rename_i l r heq
    have := (readU16_ok_lt heq).1
    split at h
    · cases h
    · cases h
      simp only [List.length_take]
      omega

theorem qosOK_ofNat {q : Nat} (h : ¬ q > 2) : qosOK (UInt8.ofNat q) = true := by
  have : q = 0 ∨ q = 1 ∨ q = 2 := by omega
  rcases this with h | h | h <;> subst h <;> decide

theorem ofNat_ne_zero {q : Nat} (h : UInt8.ofNat q ≠ 0) : q ≠ 0 := by
  intro h0; subst h0; exact h rfl

/-- a message that passes these checks can be published again (with any non-zero id) -/
theorem encode_publish_ok_d (m : Message) (d' : Bool) (id' : UInt16) (hid : id' ≠ 0)
    (ht : m.topic.length ≠ 0) (hq : qosOK m.qos = true) (hl : m.topic.length ≤ 65535)
    (hr : 2 + m.topic.length + m.payload.length + (if m.qos ≠ 0 then 2 else 0) ≤ maxVarint) :
    ∃ out, encode (.publish m d' id') = .ok out := by
  have hl' : ¬ 65535 < m.topic.length := by omega
  by_cases h0 : m.qos = 0
  · simp only [h0, ne_eq, not_true_eq_false, if_false] at hr
    have hr' : ¬ maxVarint < 2 + m.topic.length + m.payload.length := by omega
    rw [h0] at hq
    simp [encode, ht, hq, encodeHeader, Packet.rlen, writeLP, h0, hl', hr', bind, Except.bind]
    exact ⟨_, rfl⟩
  · simp only [h0, ne_eq, not_false_eq_true, if_true] at hr
    have hr' : ¬ maxVarint < 2 + m.topic.length + m.payload.length + 2 := by omega
    simp [encode, ht, hq, hid, encodeHeader, Packet.rlen, writeLP, h0, hl', hr', bind, Except.bind]
    exact ⟨_, rfl⟩

theorem decodePublishBody_eq (flags rl : Nat) :
    decodePublishBody flags rl =
      (if flags / 2 % 4 > 2 then Rd.fail else
        readLP >>= fun topic =>
        if topic.length = 0 then Rd.fail else
        (if flags / 2 % 4 ≠ 0 then readU16 >>= fun pid => if pid = 0 then Rd.fail else pure pid
         else pure 0) >>= fun id =>
        Rd.getLen >>= fun l => payloadRd l >>= fun payload =>
        pure (.publish ⟨topic, payload, UInt8.ofNat (flags / 2 % 4), flags % 2 == 1⟩
          (flags / 8 % 2 == 1) (UInt16.ofNat id))) := by
  unfold decodePublishBody
  simp only [↓Rd.fail_bind]
  rfl

theorem decodePublishBody_ok {flags rl : Nat} {body : Bytes} {m : Message} {d : Bool} {id : UInt16}
    {r : Bytes} (h : decodePublishBody flags rl body = .ok (.publish m d id) r) :
    m.topic.length ≠ 0 ∧ qosOK m.qos = true ∧ m.topic.length ≤ 65535 ∧
      2 + m.topic.length + m.payload.length + (if m.qos ≠ 0 then 2 else 0) ≤ body.length := by
  rw [decodePublishBody_eq] at h
  simp only [Rd.ite_eq_ok, Rd.fail_eq_ok, and_false, false_or, Rd.bind_eq_ok, Rd.pure_eq_ok,
    Rd.getLen_eq_ok] at h
  obtain ⟨hq, topic, r1, hlp, ht, id', r2, hid, l, r3, ⟨rfl, rfl⟩, pl, r4, hpl, hp, -⟩ := h
  rw [payloadRd_length] at hpl
  cases hpl
  cases hp
  have h1 := readLP_ok_length hlp
  have h2 := readLP_ok_le hlp
  refine ⟨ht, qosOK_ofNat hq, h2, ?_⟩
  simp only
  rcases hid with ⟨hq0, pid, r2', hu, -, -, rfl⟩ | ⟨hq0, -, rfl⟩
  · have := (readU16_ok_lt hu).2
    split <;> omega
  · split
    · rename_i hne
      exact absurd (ofNat_ne_zero hne) hq0
    · omega

theorem decoded_publish_reencodable' (bs : Bytes) (m : Message) (d : Bool) (id : UInt16) (r : Bytes)
    (h : decode .publish bs = .ok (.publish m d id) r) :
    ∀ (d' : Bool) (id' : UInt16), id' ≠ 0 → ∃ out, encode (.publish m d' id') = .ok out := by
  simp only [decode, decodePublish, Rd.bind_eq_ok] at h
  obtain ⟨⟨fl, rl⟩, rest, hh, hw⟩ := h
  simp only at hw
  obtain ⟨hle, r', hb, -⟩ := within_eq_ok hw
  have hmax := decodeHeader_ok_le_max hh
  obtain ⟨h1, h2, h3, h4⟩ := decodePublishBody_ok hb
  intro d' id' hid
  refine encode_publish_ok_d m d' id' hid h1 h2 h3 ?_
  rw [List.length_take] at h4
  omega

theorem decoded_will_reencodable' (bs : Bytes) (c : Bytes) (ka : UInt16) (u p : Bytes) (cl : Bool)
    (m : Message) (v : UInt8) (r : Bytes)
    (h : decode .connect bs = .ok (.connect c ka u p cl (some m) v) r) :
    ∀ (d' : Bool) (id' : UInt16), id' ≠ 0 → ∃ out, encode (.publish m d' id') = .ok out := by
  simp only [decode, decodeConnect, ↓Rd.fail_bind, Rd.ite_eq_ok, Rd.fail_eq_ok, and_false, false_or,
    Rd.bind_eq_ok, Rd.pure_eq_ok] at h
  obtain ⟨_, _, -, name, _, -, ver, _, -, -, -, cf, _, -, -, hq, -, -, ka', _, -, cid, r3, -, -,
    will, r4, hw, user, r5, -, pass, r6, -, hp, -⟩ := h
  cases hp
  rcases hw with ⟨-, t, r7, ht, htl, pl, r8, hpl, hm, -⟩ | ⟨-, hn, -⟩
  · cases hm
    intro d' id' hid
    have h1 := readLP_ok_le ht
    have h2 := readLP_ok_le hpl
    refine encode_publish_ok_d _ d' id' hid htl (qosOK_ofNat hq) h1 ?_
    simp only [maxVarint]
    split <;> omega
  · cases hn

/-! ## §8 agreement with the reference decoder on framed input -/

def R.toOpt : R α → Option (α × Bytes)
  | .ok a r => some (a, r)
  | .err _ _ => none

/-- the reference decoder wants the body consumed exactly -/
def fin : Option (α × Bytes) → Option α
  | some (a, r) => if r.isEmpty then some a else none
  | none => none

@[simp] theorem fin_none : fin (none : Option (α × Bytes)) = none := rfl
@[simp] theorem fin_some_nil (a : α) : fin (some (a, [])) = some a := rfl
@[simp] theorem fin_some_cons (a : α) (b : UInt8) (r : Bytes) : fin (some (a, b :: r)) = none := rfl

namespace Ref
theorem P.bind_apply (p : P α) (g : α → P β) (bs : Bytes) :
    (p >>= g) bs = (p bs).bind (fun x => g x.1 x.2) := rfl
theorem P.pure_apply (a : α) (bs : Bytes) : (Pure.pure a : P α) bs = some (a, bs) := rfl
theorem P.failure_apply (bs : Bytes) : (failure : P α) bs = none := rfl
theorem guard'_apply (b : Bool) (bs : Bytes) : guard' b bs = if b then some ((), bs) else none := by
  cases b <;> rfl
end Ref

theorem Ref.decode_framed (t : PType) (b0 : UInt8) {tl : Bytes} {rl : Nat} {rest : Bytes}
    (h : readVarint tl = .ok rl rest) (hl : rest.length = rl) :
    Ref.decode t (b0 :: tl) =
      if hdrOK t b0 then fin (Ref.bodyParser t (b0.toNat % 16) rest) else none := by
  have hrv := readVarint_ok_iff.mp h
  rw [← decRL_eq_rv] at hrv
  unfold Ref.decode
  have hg : ∀ (c : Prop) [Decidable c] (f : Unit → Option Packet),
      (guard c : Option Unit).bind f = if c then f () else none := by
    intro c _ f; by_cases hc : c <;> simp [guard, hc]
  have hfin : ∀ x : Option (Packet × Bytes),
      (x.bind fun y => if y.snd = [] then some y.fst else none) = fin x := by
    intro x
    match x with
    | none => rfl
    | some (a, []) => rfl
    | some (a, b :: r) => rfl
  simp [Ref.byte, hrv, hl, hg, hfin, hdrOK]
  by_cases h1 : b0.toNat / 16 = t.code
  · by_cases h2 : t = .publish
    · simp [h1, h2]
    · by_cases h3 : b0.toNat % 16 = t.defaultFlags
      · simp [h1, h2, h3]
        intro hx; exfalso; revert hx; cases t <;> simp [PType.defaultFlags]
      · simp [h1, h2, h3]
        intro hx; exfalso; revert hx h3; cases t <;> simp [PType.defaultFlags]
  · simp [h1]

theorem header_bind_framed (t : PType) (f : Nat × Nat → Rd α) (b0 : UInt8) {tl : Bytes} {rl : Nat}
    {rest : Bytes} (h : readVarint tl = .ok rl rest) (hl : rest.length = rl) :
    ((decodeHeader t >>= f) (b0 :: tl)).toOption =
      if hdrOK t b0 then (f (b0.toNat % 16, rl) rest).toOption else none := by
  have h2 := decodeHeader_framed t b0 h hl []
  simp only [List.append_nil] at h2
  rw [Rd.bind_apply, h2]
  cases hdrOK t b0 <;> rfl

/-! ### simulation of straight-line readers -/

def Sim (m : Rd α) (p : Ref.P α) : Prop := ∀ bs, (m bs).toOpt = p bs

/-- simulation up to the final "body used up" check -/
def SimEnd (m : Rd α) (p : Ref.P α) : Prop := ∀ bs, (m bs).toOption = fin (p bs)

theorem Sim.pure (a : α) : Sim (Pure.pure a) (Pure.pure a) := fun _ => rfl

theorem Sim.fail : Sim (Rd.fail : Rd α) failure := fun _ => rfl

theorem Sim.bind {m : Rd α} {p : Ref.P α} {f : α → Rd β} {g : α → Ref.P β}
    (h : Sim m p) (hf : ∀ a, Sim (f a) (g a)) : Sim (m >>= f) (p >>= g) := by
  intro bs
  rw [Rd.bind_apply, Ref.P.bind_apply, ← h bs]
  cases m bs with
  | ok a r => exact hf a r
  | err e r => rfl

theorem Sim.guard {c : Prop} [Decidable c] {b : Bool} (hb : b = !decide c) {K : Rd α} {p : Ref.P α}
    (h : ¬ c → Sim K p) : Sim (if c then Rd.fail else K) (Ref.guard' b >>= fun _ => p) := by
  intro bs
  rw [Ref.P.bind_apply, Ref.guard'_apply]
  by_cases hc : c
  · simp [hc] at hb; subst hb; simp [hc]; rfl
  · simp [hc] at hb; subst hb; simp [hc]; exact h hc bs

theorem Sim.ite {c : Prop} [Decidable c] {m₁ m₂ : Rd α} {p₁ p₂ : Ref.P α}
    (h₁ : Sim m₁ p₁) (h₂ : Sim m₂ p₂) : Sim (if c then m₁ else m₂) (if c then p₁ else p₂) := by
  split <;> assumption

theorem Sim.readU8 : Sim readU8 Ref.byte := by
  intro bs; cases bs <;> rfl

theorem Sim.readU16 : Sim readU16 Ref.word := by
  intro bs
  match bs with
  | [] => rfl
  | [_] => rfl
  | _ :: _ :: _ => rfl

theorem Sim.readLP : Sim readLP Ref.field := by
  intro bs
  unfold _root_.readLP Ref.field
  rw [Ref.P.bind_apply, ← Sim.readU16 bs]
  cases _root_.readU16 bs with
  | err e r => rfl
  | ok l rest =>
    simp only [R.toOpt, Option.bind, Ref.takeN]
    by_cases h : rest.length < l
    · rw [if_pos h, if_neg (by omega)]
    · rw [if_neg h, if_pos (by omega)]

theorem SimEnd.fail : SimEnd (Rd.fail : Rd α) failure := fun _ => rfl

theorem SimEnd.bind {m : Rd α} {p : Ref.P α} {f : α → Rd β} {g : α → Ref.P β}
    (h : Sim m p) (hf : ∀ a, SimEnd (f a) (g a)) : SimEnd (m >>= f) (p >>= g) := by
  intro bs
  rw [Rd.bind_apply, Ref.P.bind_apply, ← h bs]
  cases m bs with
  | ok a r => exact hf a r
  | err e r => rfl

theorem SimEnd.guard {c : Prop} [Decidable c] {b : Bool} (hb : b = !decide c) {K : Rd α}
    {p : Ref.P α} (h : ¬ c → SimEnd K p) :
    SimEnd (if c then Rd.fail else K) (Ref.guard' b >>= fun _ => p) := by
  intro bs
  rw [Ref.P.bind_apply, Ref.guard'_apply]
  by_cases hc : c
  · simp [hc] at hb; subst hb; simp [hc]; rfl
  · simp [hc] at hb; subst hb; simp [hc]; exact h hc bs

/-- the reference reads `remaining`; the model either stops reading (CONNECT) … -/
theorem SimEnd.pure_remaining (a : α) :
    SimEnd (Pure.pure a) (Ref.remaining >>= fun _ => Pure.pure a) := fun _ => rfl

/-- … or takes everything that is left (PUBLISH) -/
theorem SimEnd.payload {f : Bytes → α} :
    SimEnd (Rd.getLen >>= fun l => payloadRd l >>= fun pl => Pure.pure (f pl))
      (Ref.remaining >>= fun pl => Pure.pure (f pl)) := by
  intro bs
  rw [getLen_payload_apply]
  rfl

/-! ### per type -/

theorem decodeNaked_ref (t : PType) (p : Packet) (hp : ∀ fl, Ref.bodyParser t fl = Pure.pure p)
    (b0 : UInt8) {tl : Bytes} {rl : Nat} {rest : Bytes}
    (h : readVarint tl = .ok rl rest) (hl : rest.length = rl) :
    (decodeNaked t p (b0 :: tl)).toOption = Ref.decode t (b0 :: tl) := by
  rw [Ref.decode_framed t b0 h hl]
  unfold decodeNaked
  rw [header_bind_framed t _ b0 h hl]
  simp only [↓Rd.fail_bind, hp]
  subst hl
  cases rest with
  | nil => simp [Rd.pure_apply', Ref.P.pure_apply, R.toOption]
  | cons a r => simp [Rd.fail_apply, Ref.P.pure_apply, R.toOption]

theorem identified_sim (mk : UInt16 → Packet) :
    Sim (readU16 >>= fun pid => if pid = 0 then Rd.fail else Pure.pure (mk (UInt16.ofNat pid)))
      (Ref.identified mk) := by
  unfold Ref.identified
  refine Sim.bind Sim.readU16 fun pid => Sim.guard ?_ (fun _ => Sim.pure _)
  by_cases h : pid = 0 <;> simp [h]

theorem decodeIdentified_ref (t : PType) (mk : UInt16 → Packet)
    (hp : ∀ fl, Ref.bodyParser t fl = Ref.identified mk)
    (b0 : UInt8) {tl : Bytes} {rl : Nat} {rest : Bytes}
    (h : readVarint tl = .ok rl rest) (hl : rest.length = rl) :
    (decodeIdentified t mk (b0 :: tl)).toOption = Ref.decode t (b0 :: tl) := by
  rw [Ref.decode_framed t b0 h hl]
  unfold decodeIdentified
  rw [header_bind_framed t _ b0 h hl]
  simp only [↓Rd.fail_bind, hp]
  congr 1
  rw [← identified_sim mk rest]
  subst hl
  match rest with
  | [] => simp [Rd.fail_apply, R.toOption, Rd.bind_apply, R.toOpt]
  | [a] => simp [Rd.fail_apply, R.toOption, Rd.bind_apply, R.toOpt]
  | [a, b] =>
    simp only [List.length_cons, List.length_nil, ne_eq, not_true_eq_false, if_false,
      Rd.bind_apply, readU16_cons2]
    split <;> simp [Rd.fail_apply, Rd.pure_apply', R.toOption, R.toOpt]
  | a :: b :: c :: r =>
    simp only [List.length_cons, ne_eq, Rd.bind_apply, readU16_cons2]
    rw [if_pos (by omega)]
    split <;> simp [Rd.fail_apply, Rd.pure_apply', R.toOption, R.toOpt]

theorem connack_sim (fl0 : Nat) :
    Sim (readU8 >>= fun fl => if fl.toNat / 2 ≠ 0 then Rd.fail else
          readU8 >>= fun rc => if rc > 5 then Rd.fail else
          Pure.pure (Packet.connack (fl.toNat % 2 == 1) rc))
      (Ref.bodyParser .connack fl0) := by
  unfold Ref.bodyParser
  refine Sim.bind Sim.readU8 fun fl => Sim.guard ?_ fun hfl =>
    Sim.bind Sim.readU8 fun rc => Sim.guard ?_ fun hrc => ?_
  · by_cases h : fl.toNat / 2 = 0
    · simp [h]; omega
    · simp [h]; omega
  · by_cases h : rc > 5
    · simp [h]; exact UInt8.lt_iff_toNat_lt.mp h
    · simp [h]; exact Nat.le_of_not_lt (fun h' => h (UInt8.lt_iff_toNat_lt.mpr h'))
  · have h1 : fl.toNat = 0 ∨ fl.toNat = 1 := by omega
    have : (fl.toNat % 2 == 1) = (fl == 1) := by
      rcases h1 with h1 | h1
      · have : fl = 0 := UInt8.toNat_inj.mp h1
        subst this; rfl
      · have : fl = 1 := UInt8.toNat_inj.mp h1
        subst this; rfl
    rw [this]
    exact Sim.pure _

theorem decodeConnack_ref (b0 : UInt8) {tl : Bytes} {rl : Nat} {rest : Bytes}
    (h : readVarint tl = .ok rl rest) (hl : rest.length = rl) :
    (decodeConnack (b0 :: tl)).toOption = Ref.decode .connack (b0 :: tl) := by
  rw [Ref.decode_framed _ b0 h hl]
  unfold decodeConnack
  rw [header_bind_framed _ _ b0 h hl]
  simp only [↓Rd.fail_bind]
  congr 1
  rw [← connack_sim _ rest]
  subst hl
  match rest with
  | [] => simp [Rd.fail_apply, R.toOption, Rd.bind_apply, R.toOpt]
  | [a] =>
    simp only [List.length_cons, List.length_nil, ne_eq, Rd.bind_apply, readU8_cons_d]
    rw [if_pos (by omega)]
    split <;> simp [Rd.fail_apply, R.toOption, Rd.bind_apply, R.toOpt]
  | [a, b] =>
    simp only [List.length_cons, List.length_nil, ne_eq, not_true_eq_false, if_false,
      Rd.bind_apply, readU8_cons_d]
    split
    · simp [Rd.fail_apply, R.toOption, R.toOpt]
    · simp only [Rd.bind_apply, readU8_cons_d]
      split <;> simp [Rd.fail_apply, Rd.pure_apply', R.toOption, R.toOpt]
  | a :: b :: c :: r =>
    simp only [List.length_cons, ne_eq, Rd.bind_apply, readU8_cons_d]
    rw [if_pos (by omega)]
    split
    · simp [Rd.fail_apply, R.toOption, R.toOpt]
    · simp only [Rd.bind_apply, readU8_cons_d]
      split <;> simp [Rd.fail_apply, Rd.pure_apply', R.toOption, R.toOpt]
theorem qosOK_eq (q : UInt8) : qosOK q = decide (q.toNat ≤ 2) := by
  have e : ∀ k : UInt8, (q == k) = decide (q.toNat = k.toNat) := by
    intro k
    by_cases h : q = k
    · subst h; simp
    · have : q.toNat ≠ k.toNat := fun h' => h (UInt8.toNat_inj.mp h')
      simp [h, this]
  unfold qosOK
  rw [e, e, e]
  by_cases h : q.toNat ≤ 2
  · simp [h]; omega
  · simp [h]; omega

namespace Ref
@[simp] theorem word_cons2 (a b : UInt8) (r : Bytes) :
    word (a :: b :: r) = some (a.toNat * 256 + b.toNat, r) := rfl
@[simp] theorem word_nil : word [] = none := rfl
@[simp] theorem word_single (a : UInt8) : word [a] = none := rfl
@[simp] theorem remaining_apply (bs : Bytes) : remaining bs = some (bs, []) := rfl
end Ref

theorem decCodes_all (cs : Bytes) (acc : List UInt8) :
    (decCodes cs.length cs acc).toOption =
      if cs.all (fun c => c.toNat ≤ 2 || c == 0x80) then some (acc.reverse ++ cs) else none := by
  induction cs generalizing acc with
  | nil => simp [decCodes, R.toOption]
  | cons c cs ih =>
    simp only [List.length_cons, decCodes, List.all_cons]
    have : subackCodeOK c = (decide (c.toNat ≤ 2) || c == 0x80) := by
      unfold subackCodeOK; rw [qosOK_eq]
    rw [this]
    by_cases hc : (decide (c.toNat ≤ 2) || c == 0x80) = true
    · rw [if_neg (by simp [hc]), ih]
      simp [hc]
    · rw [if_pos (by simpa using hc)]
      simp only [Bool.not_eq_true] at hc
      simp [hc, R.toOption]

theorem toOption_map_pure (x : R α) (f : α → β) :
    (match x with
      | .ok a rest => (Pure.pure (f a) : Rd β) rest
      | .err e rest => .err e rest).toOption = x.toOption.map f := by
  cases x <;> rfl

theorem decodeSuback_ref (b0 : UInt8) {tl : Bytes} {rl : Nat} {rest : Bytes}
    (h : readVarint tl = .ok rl rest) (hl : rest.length = rl) :
    (decodeSuback (b0 :: tl)).toOption = Ref.decode .suback (b0 :: tl) := by
  rw [Ref.decode_framed _ b0 h hl]
  unfold decodeSuback
  rw [header_bind_framed _ _ b0 h hl]
  simp only [↓Rd.fail_bind]
  congr 1
  unfold Ref.bodyParser
  subst hl
  match rest with
  | [] => simp [R.toOption, Rd.bind_apply, Ref.P.bind_apply]
  | [a] => simp [R.toOption, Rd.bind_apply, Ref.P.bind_apply]
  | a :: b :: cs =>
    simp only [Rd.bind_apply, readU16_cons2, Ref.P.bind_apply, Ref.word_cons2, Option.bind,
      Ref.guard'_apply]
    by_cases hp : a.toNat * 256 + b.toNat = 0
    · simp [hp, Rd.fail_apply, R.toOption]
    · simp only [hp, if_false, bne_iff_ne, ne_eq, not_false_eq_true, if_true,
        Ref.remaining_apply]
      cases cs with
      | nil => simp [Rd.fail_apply, R.toOption]
      | cons c cs' =>
        have e : (a :: b :: c :: cs').length - 2 = (c :: cs').length := by simp
        rw [if_neg (by simp only [List.length_cons]; omega), e]
        simp only [bind, Rd.bind]
        have hall := decCodes_all (c :: cs') []
        cases hd : decCodes (c :: cs').length (c :: cs') [] with
        | ok codes r =>
          rw [hd] at hall
          show (R.ok (Packet.suback codes (UInt16.ofNat (a.toNat * 256 + b.toNat))) r).toOption = _
          by_cases ha : ((c :: cs').all fun c => decide (c.toNat ≤ 2) || c == 128) = true
          · simp [ha, R.toOption] at hall
            simp [ha, R.toOption, Ref.P.pure_apply, hall]
          · simp [ha, R.toOption] at hall
        | err e r =>
          rw [hd] at hall
          by_cases ha : ((c :: cs').all fun c => decide (c.toNat ≤ 2) || c == 128) = true
          · simp [ha, R.toOption] at hall
          · simp [ha, R.toOption]

theorem Sim.ite' {c₁ c₂ : Prop} [Decidable c₁] [Decidable c₂] (hc : c₁ ↔ c₂) {m₁ m₂ : Rd α}
    {p₁ p₂ : Ref.P α} (h₁ : Sim m₁ p₁) (h₂ : Sim m₂ p₂) :
    Sim (if c₁ then m₁ else m₂) (if c₂ then p₁ else p₂) := by
  by_cases h : c₁
  · rw [if_pos h, if_pos (hc.mp h)]; exact h₁
  · rw [if_neg h, if_neg (fun h' => h (hc.mpr h'))]; exact h₂

theorem within_framed (m : Rd α) {rl : Nat} {rest : Bytes} (hl : rest.length = rl) :
    (Rd.within rl m rest).toOption = (m rest).toOption := by
  unfold Rd.within
  rw [slice?_zero _ _ (by omega)]
  subst hl
  simp only [List.take_length]
  cases m rest <;> rfl

theorem publish_bits : ∀ fl, fl < 16 →
    ((fl >>> 1) &&& 3) = fl / 2 % 4 ∧ (fl &&& 1 != 0) = (fl % 2 == 1) ∧
      (fl &&& 8 != 0) = (fl / 8 % 2 == 1) := by
  decide

theorem publish_simEnd (fl rl : Nat) (hfl : fl < 16) :
    SimEnd (decodePublishBody fl rl) (Ref.bodyParser .publish fl) := by
  rw [decodePublishBody_eq]
  unfold Ref.bodyParser
  obtain ⟨h1, h2, h3⟩ := publish_bits fl hfl
  simp only [h1, h2, h3]
  refine SimEnd.guard ?_ fun hq => SimEnd.bind Sim.readLP fun topic =>
    SimEnd.guard ?_ fun ht => SimEnd.bind (Sim.ite' ?_ ?_ (Sim.pure _)) fun id => SimEnd.payload
  · by_cases h : fl / 2 % 4 > 2 <;> simp [h] <;> omega
  · by_cases h : topic.length = 0 <;> simp [h]; omega
  · omega
  · refine Sim.bind Sim.readU16 fun pid => Sim.guard ?_ fun _ => Sim.pure _
    by_cases h : pid = 0 <;> simp [h]

theorem decodePublish_ref (b0 : UInt8) {tl : Bytes} {rl : Nat} {rest : Bytes}
    (h : readVarint tl = .ok rl rest) (hl : rest.length = rl) :
    (decodePublish (b0 :: tl)).toOption = Ref.decode .publish (b0 :: tl) := by
  rw [Ref.decode_framed _ b0 h hl]
  unfold decodePublish
  rw [header_bind_framed _ _ b0 h hl]
  congr 1
  simp only
  rw [within_framed _ hl]
  exact publish_simEnd _ _ (Nat.mod_lt _ (by omega)) rest

/-! ### the loops -/

theorem many_go_succ (p : Ref.P α) (f : Nat) (acc : List α) (bs : Bytes) :
    Ref.many.go p (f + 1) acc bs =
      if bs.isEmpty then some (acc.reverse, bs)
      else (p bs).bind fun x => Ref.many.go p f (x.1 :: acc) x.2 := by
  cases bs <;> rfl

theorem many_go_zero (p : Ref.P α) (acc : List α) (bs : Bytes) :
    Ref.many.go p 0 acc bs = none := rfl

/-- the subscription parser of the reference -/
def psub : Ref.P Subscription := do
  let t ← Ref.field; let q ← Ref.byte; Ref.guard' (decide (q.toNat ≤ 2)); pure (Subscription.mk t q)

theorem psub_apply (buf : Bytes) :
    psub buf = match readLP buf with
      | .err _ _ => none
      | .ok _ [] => none
      | .ok topic (q :: rest') => if qosOK q then some (⟨topic, q⟩, rest') else none := by
  unfold psub
  rw [Ref.P.bind_apply, ← Sim.readLP buf]
  cases readLP buf with
  | err e r => rfl
  | ok topic rest =>
    cases rest with
    | nil => rfl
    | cons q rest' =>
      simp only [R.toOpt, Option.bind, Ref.P.bind_apply, Ref.byte, Ref.guard'_apply, qosOK_eq]
      by_cases hq : q.toNat ≤ 2 <;> simp [hq, Ref.P.pure_apply]

theorem decSubs_many (sl : Int) (buf : Bytes) (acc : List Subscription) :
    ∀ fuel, sl = buf.length → buf.length < fuel →
      (decSubs sl buf acc).toOpt = Ref.many.go psub fuel acc buf := by
  fun_induction decSubs sl buf acc with
  | case1 sl buf acc hsl =>
    intro fuel hs hf
    have : buf = [] := by
      cases buf with
      | nil => rfl
      | cons a b => simp at hs; omega
    subst this
    cases fuel with
    | zero => omega
    | succ f => rfl
  | case2 sl buf acc hsl e r h =>
    intro fuel hs hf
    cases fuel with
    | zero => omega
    | succ f =>
      rw [many_go_succ, psub_apply, h]
      cases buf with
      | nil => simp at hs; omega
      | cons a b => rfl
  | case3 sl buf acc hsl topic h _ =>
    intro fuel hs hf
    cases fuel with
    | zero => omega
    | succ f =>
      rw [many_go_succ, psub_apply, h]
      cases buf with
      | nil => simp at hs; omega
      | cons a b => rfl
  | case4 sl buf acc hsl topic q rest' h hq _ =>
    intro fuel hs hf
    cases fuel with
    | zero => omega
    | succ f =>
      rw [many_go_succ, psub_apply, h]
      cases buf with
      | nil => simp at hs; omega
      | cons a b =>
        simp only [Bool.not_eq_true'] at hq
        simp [hq, R.toOpt]
  | case5 sl buf acc hsl topic q rest' h hq _ ih =>
    intro fuel hs hf
    have hlen := readLP_ok_length h
    simp only [List.length_cons] at hlen
    cases fuel with
    | zero => omega
    | succ f =>
      rw [many_go_succ, psub_apply, h]
      cases buf with
      | nil => simp at hs; omega
      | cons a b =>
        simp only [Bool.not_eq_true', Bool.not_eq_false] at hq
        simp only [hq, List.isEmpty_cons, Bool.false_eq_true, if_false, if_true, Option.bind]
        simp only [List.length_cons] at hlen hf hs
        apply ih
        · omega
        · omega

theorem many_go_rest (p : Ref.P α) (fuel : Nat) (acc : List α) (bs : Bytes) (x : List α) (r : Bytes)
    (h : Ref.many.go p fuel acc bs = some (x, r)) : r = [] := by
  induction fuel generalizing acc bs with
  | zero => rw [many_go_zero] at h; cases h
  | succ f ih =>
    rw [many_go_succ] at h
    split at h
    · rename_i he
      cases h
      simpa using he
    · cases hp : p bs with
      | none => rw [hp] at h; cases h
      | some y => rw [hp] at h; exact ih _ _ h

theorem decodeSubscribe_ref (b0 : UInt8) {tl : Bytes} {rl : Nat} {rest : Bytes}
    (h : readVarint tl = .ok rl rest) (hl : rest.length = rl) :
    (decodeSubscribe (b0 :: tl)).toOption = Ref.decode .subscribe (b0 :: tl) := by
  rw [Ref.decode_framed _ b0 h hl]
  unfold decodeSubscribe
  rw [header_bind_framed _ _ b0 h hl]
  congr 1
  simp only
  rw [within_framed _ hl]
  simp only [↓Rd.fail_bind]
  unfold Ref.bodyParser
  subst hl
  match rest with
  | [] => simp [R.toOption, Rd.bind_apply, Ref.P.bind_apply]
  | [a] => simp [R.toOption, Rd.bind_apply, Ref.P.bind_apply]
  | a :: b :: cs =>
    simp only [Rd.bind_apply, readU16_cons2, Ref.P.bind_apply, Ref.word_cons2, Option.bind_some,
      Ref.guard'_apply]
    by_cases hp : a.toNat * 256 + b.toNat = 0
    · simp [hp, Rd.fail_apply, R.toOption]
    · simp only [hp, if_false, bne_iff_ne, ne_eq, not_false_eq_true, if_true, Option.bind_some]
      have e : (((a :: b :: cs).length : Nat) : Int) - 2 = (cs.length : Int) := by
        simp only [List.length_cons]; omega
      rw [e]
      have key := decSubs_many cs.length cs [] (cs.length + 1) rfl (by omega)
      have hmany : ∀ p : Ref.P Subscription, Ref.many (cs.length + 1) p cs
          = Ref.many.go p (cs.length + 1) [] cs := fun _ => rfl
      rw [hmany]
      change _ = fin ((Ref.many.go psub (cs.length + 1) [] cs).bind _)
      rw [← key]
      simp only [bind, Rd.bind]
      cases hd : decSubs (↑cs.length) cs [] with
      | err e r => rfl
      | ok subs r =>
        rw [hd] at key
        have hr := many_go_rest _ _ _ _ _ _ key.symm
        subst hr
        simp only [R.toOpt, Option.bind_some]
        cases subs with
        | nil => rfl
        | cons s ss => rfl

theorem decTopics_many (tl : Int) (buf : Bytes) (acc : List Bytes) :
    ∀ fuel, tl = buf.length → buf.length < fuel →
      (decTopics tl buf acc).toOpt = Ref.many.go Ref.field fuel acc buf := by
  fun_induction decTopics tl buf acc with
  | case1 tl buf acc htl =>
    intro fuel hs hf
    have : buf = [] := by
      cases buf with
      | nil => rfl
      | cons a b => simp at hs; omega
    subst this
    cases fuel with
    | zero => omega
    | succ f => rfl
  | case2 tl buf acc htl e r h =>
    intro fuel hs hf
    cases fuel with
    | zero => omega
    | succ f =>
      rw [many_go_succ, ← Sim.readLP buf, h]
      cases buf with
      | nil => simp at hs; omega
      | cons a b => rfl
  | case3 tl buf acc htl topic rest h ih =>
    intro fuel hs hf
    have hlen := readLP_ok_length h
    cases fuel with
    | zero => omega
    | succ f =>
      rw [many_go_succ, ← Sim.readLP buf, h]
      cases buf with
      | nil => simp at hs; omega
      | cons a b =>
        simp only [List.isEmpty_cons, Bool.false_eq_true, if_false, R.toOpt, Option.bind_some]
        simp only [List.length_cons] at hlen hf hs
        apply ih
        · omega
        · omega

theorem decodeUnsubscribe_ref (b0 : UInt8) {tl : Bytes} {rl : Nat} {rest : Bytes}
    (h : readVarint tl = .ok rl rest) (hl : rest.length = rl) :
    (decodeUnsubscribe (b0 :: tl)).toOption = Ref.decode .unsubscribe (b0 :: tl) := by
  rw [Ref.decode_framed _ b0 h hl]
  unfold decodeUnsubscribe
  rw [header_bind_framed _ _ b0 h hl]
  congr 1
  simp only
  rw [within_framed _ hl]
  simp only [↓Rd.fail_bind]
  unfold Ref.bodyParser
  subst hl
  match rest with
  | [] => simp [R.toOption, Rd.bind_apply, Ref.P.bind_apply]
  | [a] => simp [R.toOption, Rd.bind_apply, Ref.P.bind_apply]
  | a :: b :: cs =>
    simp only [Rd.bind_apply, readU16_cons2, Ref.P.bind_apply, Ref.word_cons2, Option.bind_some,
      Ref.guard'_apply]
    by_cases hp : a.toNat * 256 + b.toNat = 0
    · simp [hp, Rd.fail_apply, R.toOption]
    · simp only [hp, if_false, bne_iff_ne, ne_eq, not_false_eq_true, if_true, Option.bind_some]
      have e : (((a :: b :: cs).length : Nat) : Int) - 2 = (cs.length : Int) := by
        simp only [List.length_cons]; omega
      rw [e]
      have key := decTopics_many cs.length cs [] (cs.length + 1) rfl (by omega)
      have hmany : ∀ p : Ref.P Bytes, Ref.many (cs.length + 1) p cs
          = Ref.many.go p (cs.length + 1) [] cs := fun _ => rfl
      rw [hmany, ← key]
      simp only [bind, Rd.bind]
      cases hd : decTopics (↑cs.length) cs [] with
      | err e r => rfl
      | ok ts r =>
        rw [hd] at key
        have hr := many_go_rest _ _ _ _ _ _ key.symm
        subst hr
        simp only [R.toOpt, Option.bind_some]
        cases ts with
        | nil => rfl
        | cons s ss => rfl
set_option maxRecDepth 4096 in
theorem connect_bits : ∀ n, n < 256 →
    (n &&& 1 == 0) = (n % 2 == 0) ∧ (n &&& 4 != 0) = (n / 4 % 2 == 1) ∧
    ((n >>> 3) &&& 3) = n / 8 % 4 ∧ (n &&& 0x20 != 0) = (n / 32 % 2 == 1) ∧
    (n &&& 0x80 != 0) = (n / 128 % 2 == 1) ∧ (n &&& 0x40 != 0) = (n / 64 % 2 == 1) ∧
    (n &&& 2 != 0) = (n / 2 % 2 == 1) := by
  decide

theorem SimEnd.guard2 {c₁ c₂ : Prop} [Decidable c₁] [Decidable c₂] {b : Bool}
    (hb : b = (!decide c₁ && !decide c₂)) {K : Rd α} {p : Ref.P α}
    (h : ¬ c₁ → ¬ c₂ → SimEnd K p) :
    SimEnd (if c₁ then Rd.fail else if c₂ then Rd.fail else K) (Ref.guard' b >>= fun _ => p) := by
  intro bs
  rw [Ref.P.bind_apply, Ref.guard'_apply]
  by_cases h1 : c₁
  · simp [h1] at hb; subst hb; simp [h1]; rfl
  · by_cases h2 : c₂
    · simp [h1, h2] at hb; subst hb; simp [h1, h2]; rfl
    · simp [h1, h2] at hb; subst hb; simp [h1, h2]; exact h h1 h2 bs

theorem SimEnd.apply {m : Rd α} {p : Ref.P α} (h : SimEnd m p) (bs : Bytes) :
    (m bs).toOption = fin (p bs) := h bs

theorem decodeConnect_ref (b0 : UInt8) {tl : Bytes} {rl : Nat} {rest : Bytes}
    (h : readVarint tl = .ok rl rest) (hl : rest.length = rl) :
    (decodeConnect (b0 :: tl)).toOption = Ref.decode .connect (b0 :: tl) := by
  rw [Ref.decode_framed _ b0 h hl]
  unfold decodeConnect
  rw [header_bind_framed _ _ b0 h hl]
  congr 1
  simp only [↓Rd.fail_bind]
  refine SimEnd.apply ?_ rest
  unfold Ref.bodyParser
  simp only []
  refine SimEnd.bind Sim.readLP fun name => SimEnd.bind Sim.readU8 fun ver =>
    SimEnd.guard2 ?_ fun hv hn => SimEnd.bind Sim.readU8 fun cf => ?_
  · -- protocol name / level
    by_cases h4 : ver = 4
    · subst h4
      by_cases hn : name = versionName 4
      · subst hn; simp [versionName]
      · have : ¬ name = "MQTT".toUTF8.toList := by simpa [versionName] using hn
        simp [hn]; exact this
    · by_cases h3 : ver = 3
      · subst h3
        by_cases hn : name = versionName 3
        · subst hn; simp [versionName]
        · have : ¬ name = "MQIsdp".toUTF8.toList := by simpa [versionName] using hn
          simp [hn]; exact this
      · simp [h4, h3]
  · obtain ⟨h1, h2, h3, h4, h5, h6, h7⟩ := connect_bits cf.toNat cf.toNat_lt
    simp only [h1, h2, h3, h4, h5, h6, h7]
    generalize cf.toNat / 8 % 4 = q
    generalize (cf.toNat / 4 % 2 == 1) = wf
    generalize (cf.toNat / 32 % 2 == 1) = wr
    generalize (cf.toNat / 128 % 2 == 1) = uf
    generalize (cf.toNat / 64 % 2 == 1) = pf
    generalize (cf.toNat / 2 % 2 == 1) = cl
    refine SimEnd.guard ?_ fun _ => SimEnd.guard ?_ fun _ => SimEnd.guard ?_ fun _ =>
      SimEnd.guard ?_ fun _ => SimEnd.bind Sim.readU16 fun ka => SimEnd.bind Sim.readLP fun cid =>
      SimEnd.guard ?_ fun _ => SimEnd.bind (Sim.ite ?_ (Sim.pure _)) fun will =>
      SimEnd.bind (Sim.ite Sim.readLP (Sim.pure _)) fun user =>
      SimEnd.bind (Sim.ite Sim.readLP (Sim.pure _)) fun pass => SimEnd.pure_remaining _
    · by_cases h : cf.toNat % 2 = 0 <;> simp [h]
    · by_cases h : q > 2 <;> simp [h] <;> omega
    · cases wf <;> cases wr <;> by_cases h : q = 0 <;> simp [h]
    · cases uf <;> cases pf <;> simp
    · cases cl <;> by_cases h : cid.length = 0 <;> simp [h] <;> omega
    · refine Sim.bind Sim.readLP fun t => Sim.guard ?_ fun _ =>
        Sim.bind Sim.readLP fun pl => Sim.pure _
      by_cases h : t.length = 0 <;> simp [h]; omega

theorem decode_framed_eq_ref' (t : PType) (bs : Bytes) (hf : framed bs = true) :
    (decode t bs).toOption = Ref.decode t bs := by
  obtain ⟨b0, tl, rl, rest, rfl, h, hl⟩ := framed_elim hf
  cases t <;> simp only [decode]
  · exact decodeConnect_ref b0 h hl
  · exact decodeConnack_ref b0 h hl
  · exact decodePublish_ref b0 h hl
  · exact decodeIdentified_ref _ _ (fun _ => rfl) b0 h hl
  · exact decodeIdentified_ref _ _ (fun _ => rfl) b0 h hl
  · exact decodeIdentified_ref _ _ (fun _ => rfl) b0 h hl
  · exact decodeIdentified_ref _ _ (fun _ => rfl) b0 h hl
  · exact decodeSubscribe_ref b0 h hl
  · exact decodeSuback_ref b0 h hl
  · exact decodeUnsubscribe_ref b0 h hl
  · exact decodeIdentified_ref _ _ (fun _ => rfl) b0 h hl
  · exact decodeNaked_ref _ _ (fun _ => rfl) b0 h hl
  · exact decodeNaked_ref _ _ (fun _ => rfl) b0 h hl
  · exact decodeNaked_ref _ _ (fun _ => rfl) b0 h hl
