import Proofs.BaseConnRecv
/-
  Proofs/BaseConnStep.lean — per-step and per-run facts of the BaseConn LTS (C19).
-/
namespace BaseConn
namespace Pf

theorem run_nil (C : Cfg) (s : State) : run C s [] = (s, []) := rfl
theorem run_cons (C : Cfg) (s : State) (e : Event) (es : List Event) :
    run C s (e :: es) = ((run C (step C s e).1 es).1, (step C s e).2 :: (run C (step C s e).1 es).2) := rfl

theorem run_append (C : Cfg) (s : State) (a b : List Event) :
    run C s (a ++ b) = ((run C (run C s a).1 b).1, (run C s a).2 ++ (run C (run C s a).1 b).2) := by
  induction a generalizing s with
  | nil => simp [run_nil]
  | cons e es ih => simp [run_cons, ih]

/-! ### the invariant along runs -/

theorem setReadTimeout_wsame (C : Cfg) (s : State) (on : Bool) :
    WSame s (resetTimeout C { s with readTimeout := on }).1 := by
  unfold resetTimeout
  have w := (carrierSetDeadline_spec C { s with readTimeout := on } on).1
  exact ⟨w.wire, w.buf, w.berr, w.werr, w.timerArmed, w.hist⟩

theorem inv_step {C : Cfg} {s : State} (i : Inv s) (e : Event) : Inv (step C s e).1 := by
  cases e with
  | send g bs a => exact inv_send i g bs a
  | sendInvalid g => exact Inv.congr (closeCarrier_wsame s) i
  | timerFire => exact inv_timer i
  | close => exact inv_close (C := C) i
  | receive => exact Inv.congr (recvStep_ok C s).wsame i
  | setReadTimeout on => exact Inv.congr (setReadTimeout_wsame C s on) i
  | setDelay z => exact Inv.congr (s := s) (by constructor <;> rfl) i
  | peerData bs =>
    simp only [step]; split
    · exact i
    · exact Inv.congr (s := s) (by constructor <;> rfl) i
  | peerClose => exact Inv.congr (s := s) (by constructor <;> rfl) i
  | carrierFail k n => cases k <;> exact Inv.congr (s := s) (by constructor <;> rfl) i
  | deadlineExpire =>
    simp only [step]; split
    · exact Inv.congr (s := s) (by constructor <;> rfl) i
    · exact i

theorem inv_run {C : Cfg} {s : State} (i : Inv s) (evs : List Event) : Inv (run C s evs).1 := by
  induction evs generalizing s with
  | nil => exact i
  | cons e es ih => rw [run_cons]; exact ih (inv_step i e)

theorem inv_reachable {C : Cfg} {s : State} (h : Reachable C s) : Inv s := by
  obtain ⟨evs, rfl⟩ := h; exact inv_run inv_init evs

/-! ### the carrier never reopens; an error leaves it closed -/

theorem sendStep_closed (C : Cfg) (s : State) (g : Nat) (bs : Bytes) (a : Bool) :
    (s.closed = true → (sendStep C s g bs a).1.closed = true)
      ∧ ((sendStep C s g bs a).2 = .err → (sendStep C s g bs a).1.closed = true)
      ∧ ((sendStep C s g bs a).2 = .ok ∨ (sendStep C s g bs a).2 = .err)
      ∧ (sendStep C s g bs a).1.rbuf = s.rbuf := by
  unfold sendStep
  split
  · rename_i s1 h
    have w := (mercWrite_ok h).2.2.2.2.2.2.2.2.1
    exact ⟨fun hc => by simp [w.closed, hc], fun h => by simp at h, Or.inl rfl, by simp [w.rbuf]⟩
  · rename_i s1 h
    have w := (mercWrite_fail h).1
    exact ⟨fun _ => closeCarrier_closed s1, fun _ => closeCarrier_closed s1, Or.inr rfl,
      by simp [closeCarrier_rbuf, w.rbuf]⟩

theorem closeStep_closed (C : Cfg) (s : State) :
    (closeStep C s).1.closed = true ∧ (closeStep C s).1.rbuf = s.rbuf
      ∧ ((closeStep C s).2 = .ok ∨ (closeStep C s).2 = .err) := by
  unfold closeStep closeFlush
  split; rename_i s1 ok1 h
  split; rename_i s2 ok2 h2
  have c := carrierClose_spec s1; rw [h2] at c
  have r : s1.rbuf = s.rbuf := by
    cases ok1
    · exact (mercWrite_fail h).1.rbuf
    · exact (mercWrite_ok h).2.2.2.2.2.2.2.2.1.rbuf
  refine ⟨c.1, by rw [c.2.2.1, r], ?_⟩
  cases ok1 <;> cases ok2 <;> simp

theorem closed_mono {C : Cfg} {s : State} (hc : s.closed = true) (e : Event) : (step C s e).1.closed = true := by
  cases e with
  | send g bs a => exact (sendStep_closed C s g bs a).1 hc
  | sendInvalid g => exact closeCarrier_closed s
  | timerFire => simp only [step]; rw [(mercTimer_spec s).2.1.closed]; exact hc
  | close => exact (closeStep_closed C s).1
  | receive => exact (recvStep_ok C s).mono hc
  | setReadTimeout on =>
    simp only [step]; unfold resetTimeout
    rw [(carrierSetDeadline_spec C { s with readTimeout := on } on).2.1]; exact hc
  | setDelay z => exact hc
  | peerData bs => simp only [step]; split <;> exact hc
  | peerClose => exact hc
  | carrierFail k n => cases k <;> exact hc
  | deadlineExpire => simp only [step]; split <;> exact hc

theorem closed_run {C : Cfg} {s : State} (hc : s.closed = true) (evs : List Event) : (run C s evs).1.closed = true := by
  induction evs generalizing s with
  | nil => exact hc
  | cons e es ih => rw [run_cons]; exact ih (closed_mono hc e)

/-- the calls that can fail -/
def isCall : Event → Bool
  | .send _ _ _ => true
  | .sendInvalid _ => true
  | .receive => true
  | _ => false

theorem err_closes (C : Cfg) (s : State) (e : Event) (hcall : isCall e = true) (he : (step C s e).2 = .err) :
    (step C s e).1.closed = true := by
  cases e with
  | send g bs a => exact (sendStep_closed C s g bs a).2.1 he
  | sendInvalid g => exact closeCarrier_closed s
  | receive => exact (recvStep_ok C s).err_closes he
  | _ => simp [isCall] at hcall

/-- only a `receive` on an open carrier can wait -/
theorem block_only_receive (C : Cfg) (s : State) (e : Event) (hb : (step C s e).2 = .block) :
    e = .receive ∧ s.closed = false := by
  cases e with
  | send g bs a => rcases (sendStep_closed C s g bs a).2.2.1 with h | h <;> simp [step, h] at hb
  | close => rcases (closeStep_closed C s).2.2 with h | h <;> simp [step, h] at hb
  | receive =>
    refine ⟨rfl, ?_⟩
    cases hc : s.closed
    · rfl
    · exact absurd hb ((recvStep_ok C s).no_block hc)
  | _ => simp [step] at hb

/-! ### sends on a closed carrier -/

/-- a successful writer call on a closed carrier only buffers -/
theorem mercWrite_ok_closed {C : Cfg} {s s1 : State} {p : Bytes} {fl : Bool} (hc : s.closed = true)
    (h : mercWrite C s p fl = (s1, true)) : s1.buf = s.buf ++ p ∧ s1.wire = s.wire := by
  obtain ⟨m1, m2, m3, m4, m5, m6, m7, m8, m9, m10⟩ := mercWrite_ok h
  have hw := m6 hc
  rw [hw, List.append_assoc] at m5
  exact ⟨List.append_cancel_left m5, hw⟩

theorem send_closed_flush_err {C : Cfg} {s : State} (hc : s.closed = true) {bs : Bytes} (hne : bs ≠ [])
    (g : Nat) (a : Bool) (hfl : a = false ∨ s.delay0 = true) : (sendStep C s g bs a).2 = .err := by
  unfold sendStep
  split
  · rename_i s1 h
    obtain ⟨hb, _⟩ := mercWrite_ok_closed hc h
    have := ((mercWrite_ok h).2.2.2.2.2.2.2.1 (by rcases hfl with h | h <;> simp [h])).1
    rw [this] at hb
    have : bs = [] := (List.append_eq_nil_iff.mp hb.symm).2
    exact absurd this hne
  · rfl

theorem send_closed_async_ok {C : Cfg} {s : State} (hc : s.closed = true) {bs : Bytes} (hne : bs ≠ [])
    (g : Nat) (a : Bool) (hok : (sendStep C s g bs a).2 = .ok) :
    (sendStep C s g bs a).1.buf ≠ [] ∧ (sendStep C s g bs a).1.timerArmed = true
      ∧ (sendStep C s g bs a).1.wire = s.wire := by
  unfold sendStep at hok ⊢
  split
  · rename_i s1 h
    obtain ⟨hb, hw⟩ := mercWrite_ok_closed hc h
    have hn : s1.buf ≠ [] := by rw [hb]; simp [hne]
    exact ⟨hn, (mercWrite_ok h).2.2.2.2.2.2.1 hn, hw⟩
  · rename_i s1 h; rw [h] at hok; simp at hok

/-- `Doomed`: the carrier is closed and the writer either has failed or holds bytes it can no
    longer deliver -/
def Doomed (s : State) : Prop := s.closed = true ∧ (s.buf ≠ [] ∨ s.berr = true)

theorem berr_mono {C : Cfg} {s : State} (hb : s.berr = true) (e : Event) : (step C s e).1.berr = true := by
  cases e with
  | send g bs a =>
    simp only [step]; unfold sendStep
    split
    · rename_i s1 h; simp [(mercWrite_ok h).2.2.1, hb]
    · rename_i s1 h
      obtain ⟨w, m1, m2, m3⟩ := mercWrite_fail h
      simp only [(closeCarrier_wsame s1).berr]
      rcases m3 with ⟨_, _, _, a4⟩ | ⟨_, b2, _⟩
      · rw [a4]; exact hb
      · exact b2
  | sendInvalid g => simp only [step]; rw [(closeCarrier_wsame s).berr]; exact hb
  | timerFire =>
    simp only [step]
    rcases (mercTimer_spec s).2.2 with ⟨a1, _⟩ | ⟨b1, _⟩
    · rw [hb] at a1; simp at a1
    · exact b1
  | close =>
    simp only [step]; unfold closeStep closeFlush
    split; rename_i s1 ok1 h
    split; rename_i s2 ok2 h2
    have c := (carrierClose_spec s1).2.1; rw [h2] at c
    rw [c.berr]
    cases ok1
    · obtain ⟨w, m1, m2, m3⟩ := mercWrite_fail h
      rcases m3 with ⟨_, _, _, a4⟩ | ⟨_, b2, _⟩
      · rw [a4]; exact hb
      · exact b2
    · rw [(mercWrite_ok h).2.2.1]; exact hb
  | receive => simp only [step]; rw [(recvStep_ok C s).wsame.berr]; exact hb
  | setReadTimeout on => simp only [step]; rw [(setReadTimeout_wsame C s on).berr]; exact hb
  | setDelay z => exact hb
  | peerData bs => simp only [step]; split <;> exact hb
  | peerClose => exact hb
  | carrierFail k n => cases k <;> exact hb
  | deadlineExpire => simp only [step]; split <;> exact hb

theorem send_berr_err {C : Cfg} {s : State} (hb : s.berr = true) {bs : Bytes} (hne : bs ≠ []) (g : Nat) (a : Bool) :
    (sendStep C s g bs a).2 = .err := by
  unfold sendStep
  split
  · rename_i s1 h
    have := (mercWrite_ok h).2.1 hne; rw [hb] at this; simp at this
  · rfl

theorem doomed_step {C : Cfg} {s : State} (d : Doomed s) (e : Event) : Doomed (step C s e).1 := by
  refine ⟨closed_mono d.1 e, ?_⟩
  rcases d.2 with hn | hb
  case inr => exact Or.inr (berr_mono hb e)
  cases e with
  | send g bs a =>
    simp only [step]; unfold sendStep
    split
    · rename_i s1 h
      left; simp only [(mercWrite_ok_closed d.1 h).1]; simp [hn]
    · rename_i s1 h
      obtain ⟨w, m1, m2, m3⟩ := mercWrite_fail h
      have cw := closeCarrier_wsame s1
      simp only [cw.berr, cw.buf]
      rcases m3 with ⟨_, _, a3, _⟩ | ⟨_, b2, _⟩
      · left; rw [a3]; exact hn
      · right; exact b2
  | sendInvalid g => simp only [step]; left; rw [(closeCarrier_wsame s).buf]; exact hn
  | timerFire =>
    simp only [step]
    rcases (mercTimer_spec s).2.2 with ⟨_, _, _, _, _, a6⟩ | ⟨b1, _⟩
    · have := a6 hn; rw [d.1] at this; simp at this
    · right; exact b1
  | close =>
    simp only [step]; unfold closeStep closeFlush
    split; rename_i s1 ok1 h
    split; rename_i s2 ok2 h2
    have c := (carrierClose_spec s1).2.1; rw [h2] at c
    rw [c.berr, c.buf]
    cases ok1
    · obtain ⟨w, m1, m2, m3⟩ := mercWrite_fail h
      rcases m3 with ⟨_, _, a3, _⟩ | ⟨_, b2, _⟩
      · left; rw [a3]; exact hn
      · right; exact b2
    · left; rw [(mercWrite_ok_closed d.1 h).1]; simp [hn]
  | receive => simp only [step]; left; rw [(recvStep_ok C s).wsame.buf]; exact hn
  | setReadTimeout on => simp only [step]; left; rw [(setReadTimeout_wsame C s on).buf]; exact hn
  | setDelay z => left; exact hn
  | peerData bs => simp only [step]; split <;> (left; exact hn)
  | peerClose => left; exact hn
  | carrierFail k n => cases k <;> (left; exact hn)
  | deadlineExpire => simp only [step]; split <;> (left; exact hn)

theorem doomed_run {C : Cfg} {s : State} (d : Doomed s) (evs : List Event) : Doomed (run C s evs).1 := by
  induction evs generalizing s with
  | nil => exact d
  | cons e es ih => rw [run_cons]; exact ih (doomed_step d e)

theorem doomed_timer {s : State} (d : Doomed s) : (mercTimer s).berr = true := by
  rcases (mercTimer_spec s).2.2 with ⟨a1, _, _, _, _, a6⟩ | ⟨b1, _⟩
  · rcases d.2 with hn | hb
    · have := a6 hn; rw [d.1] at this; simp at this
    · rw [hb] at a1; simp at a1
  · exact b1

/-- every `send` of a non-empty packet in the trace returned an error -/
def SendsErr : List Event → List Outcome → Prop
  | .send _ bs _ :: es, o :: os => (bs ≠ [] → o = .err) ∧ SendsErr es os
  | _ :: es, _ :: os => SendsErr es os
  | _, _ => True

theorem berr_sends_err {C : Cfg} {s : State} (hb : s.berr = true) (evs : List Event) :
    SendsErr evs (run C s evs).2 ∧ (run C s evs).1.berr = true := by
  induction evs generalizing s with
  | nil => exact ⟨trivial, hb⟩
  | cons e es ih =>
    rw [run_cons]
    have ih' := ih (berr_mono (C := C) hb e)
    refine ⟨?_, ih'.2⟩
    cases e with
    | send g bs a => exact ⟨fun hne => send_berr_err hb hne g a, ih'.1⟩
    | _ => exact ih'.1

/-- every flushed `send` (sync, or any send while the delay is zero — here: sync) returned an error -/
def SyncSendsErr : List Event → List Outcome → Prop
  | .send _ bs false :: es, o :: os => (bs ≠ [] → o = .err) ∧ SyncSendsErr es os
  | _ :: es, _ :: os => SyncSendsErr es os
  | _, _ => True

theorem closed_sync_sends_err {C : Cfg} {s : State} (hc : s.closed = true) (evs : List Event) :
    SyncSendsErr evs (run C s evs).2 := by
  induction evs generalizing s with
  | nil => trivial
  | cons e es ih =>
    rw [run_cons]
    have ih' := ih (closed_mono (C := C) hc e)
    cases e with
    | send g bs a =>
      cases a
      · exact ⟨fun hne => send_closed_flush_err hc hne g false (Or.inl rfl), ih'⟩
      · exact ih'
    | _ => exact ih'

end Pf
end BaseConn
