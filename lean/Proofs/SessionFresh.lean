import Model.Session
import Proofs.Session
/-
  Proofs/SessionFresh.lean — facts about `MemorySession.freshID` (the broker's `Client.nextID`: the
  next packet id that no stored outgoing packet uses).  Core Lean only.

  * frame: only the id counter of the session changes (`freshID_outgoing`, `freshID_incoming`);
  * `freshID_unused`: the id handed out is not a key of the outgoing store (0 = no id);
  * `freshID_ne_zero_of_lt`: an id is found whenever the store holds fewer than 65535 packets
    (pigeonhole over the 65535 ids one cycle of the counter runs through).
-/

/-- an id that `Lookup` does not find is the key of no entry -/
theorem PacketStore.not_mem_of_lookup_none {st : PacketStore} {id : UInt16} (h : st.lookup id = none)
    {k : UInt16} {p : Packet} (hm : (k, p) ∈ st.entries) : k ≠ id := by
  intro e
  unfold PacketStore.lookup at h
  rw [Option.map_eq_none_iff, List.find?_eq_none] at h
  have := h (k, p) hm
  simp [e] at this

namespace MemorySession

theorem freshIDAux_stores (n : Nat) (s : MemorySession) :
    (freshIDAux n s).2.outgoing = s.outgoing ∧ (freshIDAux n s).2.incoming = s.incoming := by
  induction n generalizing s with
  | zero => exact ⟨rfl, rfl⟩
  | succ n ih =>
    unfold freshIDAux
    split
    · exact ⟨rfl, rfl⟩
    · exact ih _

@[simp] theorem freshID_outgoing (s : MemorySession) : s.freshID.2.outgoing = s.outgoing :=
  (freshIDAux_stores _ s).1
@[simp] theorem freshID_incoming (s : MemorySession) : s.freshID.2.incoming = s.incoming :=
  (freshIDAux_stores _ s).2

theorem freshIDAux_unused (n : Nat) (s : MemorySession) (h : (freshIDAux n s).1 ≠ 0) :
    s.outgoing.lookup (freshIDAux n s).1 = none := by
  induction n generalizing s with
  | zero => exact absurd rfl h
  | succ n ih =>
    unfold freshIDAux at h ⊢
    split
    · rename_i hf
      simp only [hf, if_true] at h
      simpa [lookupPacket, store] using hf
    · rename_i hf
      simp only [hf] at h
      exact ih _ h

/-- the id the broker's `Client.nextID` hands out is not a key of the outgoing store -/
theorem freshID_unused (s : MemorySession) (h : s.freshID.1 ≠ 0) : s.outgoing.lookup s.freshID.1 = none :=
  freshIDAux_unused _ s h

/-- the allocation depends on the id counter and the outgoing store only -/
theorem freshIDAux_congr (n : Nat) {s s' : MemorySession} (hc : s'.counter = s.counter)
    (ho : s'.outgoing = s.outgoing) :
    (freshIDAux n s').1 = (freshIDAux n s).1 ∧ (freshIDAux n s').2.counter = (freshIDAux n s).2.counter := by
  induction n generalizing s s' with
  | zero => exact ⟨rfl, hc⟩
  | succ n ih =>
    have e1 : s'.nextID.1 = s.nextID.1 := by simp [nextID, hc]
    have e2 : s'.nextID.2.counter = s.nextID.2.counter := by simp [nextID, hc]
    have e3 : s'.lookupPacket .outgoing s'.nextID.1 = s.lookupPacket .outgoing s.nextID.1 := by
      simp only [lookupPacket, store, ho, e1]
    unfold freshIDAux
    rw [e3]
    split
    · exact ⟨e1, e2⟩
    · exact ih e2 ho

theorem freshID_congr {s s' : MemorySession} (hc : s'.counter = s.counter) (ho : s'.outgoing = s.outgoing) :
    s'.freshID.1 = s.freshID.1 ∧ s'.freshID.2.counter = s.freshID.2.counter :=
  freshIDAux_congr _ hc ho

theorem nextID_fst_ne_zero (s : MemorySession) : s.nextID.1 ≠ 0 := by
  show (if s.counter.next = 0 then s.counter.next + 1 else s.counter.next) ≠ 0
  split
  · rename_i h; rw [h]; decide
  · assumption

/-- while the first try already finds an unused id, `freshID` is `NextID` -/
theorem freshID_eq_nextID (s : MemorySession) (h : s.outgoing.lookup s.nextID.1 = none) : s.freshID = s.nextID := by
  show freshIDAux (65534 + 1) s = _
  unfold freshIDAux
  have : (s.lookupPacket .outgoing s.nextID.1).isNone = true := by simp [lookupPacket, store, h]
  simp only [this, if_true]

/-! ### an id is found unless the store holds all 65535 of them -/

/-- the ids `n` consecutive `NextID` calls hand out -/
def tries : Nat → MemorySession → List UInt16
  | 0, _ => []
  | n + 1, s => s.nextID.1 :: tries n s.nextID.2

theorem tries_length (n : Nat) (s : MemorySession) : (tries n s).length = n := by
  induction n generalizing s with
  | zero => rfl
  | succ n ih => simp [tries, ih]

/-- when the loop runs out of tries, every id it tried is the key of a stored packet -/
theorem freshIDAux_zero_tries (n : Nat) (s : MemorySession) (h : (freshIDAux n s).1 = 0) :
    ∀ id ∈ tries n s, (s.outgoing.lookup id).isSome = true := by
  induction n generalizing s with
  | zero => intro id hid; cases hid
  | succ n ih =>
    unfold freshIDAux at h
    split at h
    · exact absurd h (nextID_fst_ne_zero s)
    · rename_i hf
      intro id hid
      rcases List.mem_cons.1 hid with rfl | hid
      · have hf' : ¬ s.outgoing.lookup s.nextID.1 = none := by simpa [lookupPacket, store] using hf
        exact Option.isSome_iff_ne_none.2 hf'
      · exact ih _ h id hid

/-- the `k`-th of the ids tried, as a number: the counter runs cyclically through 1..65535 -/
theorem tries_toNat (n : Nat) (s : MemorySession) :
    ∀ id ∈ tries n s, ∃ k, k < n ∧ id.toNat = (s.counter.normNat - 1 + k) % 65535 + 1 := by
  induction n generalizing s with
  | zero => intro id hid; cases hid
  | succ n ih =>
    intro id hid
    have h1 := s.counter.normNat_pos
    have h2 := s.counter.normNat_le
    rcases List.mem_cons.1 hid with rfl | hid
    · refine ⟨0, by omega, ?_⟩
      have : s.nextID.1.toNat = s.counter.normNat := IDCounter.nextID_fst_toNat _
      omega
    · obtain ⟨k, hk, e⟩ := ih _ id hid
      have hn : s.nextID.2.counter.normNat = s.counter.normNat % 65535 + 1 := IDCounter.nextID_snd_normNat _
      refine ⟨k + 1, by omega, ?_⟩
      rw [e, hn]
      omega

theorem tries_nodup (n : Nat) (hn : n ≤ 65535) (s : MemorySession) : (tries n s).Nodup := by
  induction n generalizing s with
  | zero => exact List.nodup_nil
  | succ n ih =>
    refine List.nodup_cons.2 ⟨?_, ih (by omega) _⟩
    intro hmem
    obtain ⟨k, hk, e⟩ := tries_toNat n _ _ hmem
    have h1 := s.counter.normNat_pos
    have h2 := s.counter.normNat_le
    have hn' : s.nextID.2.counter.normNat = s.counter.normNat % 65535 + 1 := IDCounter.nextID_snd_normNat _
    have h0 : s.nextID.1.toNat = s.counter.normNat := IDCounter.nextID_fst_toNat _
    rw [hn', h0] at e
    omega

theorem length_le_of_nodup_subset {α : Type} [DecidableEq α] (l₁ l₂ : List α) (hn : l₁.Nodup)
    (hs : ∀ a ∈ l₁, a ∈ l₂) : l₁.length ≤ l₂.length := by
  induction l₁ generalizing l₂ with
  | nil => simp
  | cons a t ih =>
    have ha : a ∈ l₂ := hs a List.mem_cons_self
    obtain ⟨hat, hnt⟩ := List.nodup_cons.1 hn
    have hsub : ∀ b ∈ t, b ∈ l₂.erase a := fun b hb =>
      (List.mem_erase_of_ne (fun (e : b = a) => hat (by rw [← e]; exact hb))).2 (hs b (List.mem_cons_of_mem _ hb))
    have := ih (l₂.erase a) hnt hsub
    rw [List.length_erase_of_mem ha] at this
    have : 0 < l₂.length := List.length_pos_of_mem ha
    simp only [List.length_cons]
    omega

theorem mem_keys_of_lookup_isSome {st : PacketStore} {id : UInt16} (h : (st.lookup id).isSome = true) :
    id ∈ st.entries.map (·.1) := by
  unfold PacketStore.lookup at h
  rw [Option.isSome_map] at h
  obtain ⟨e, he⟩ := Option.isSome_iff_exists.1 h
  have hm := List.mem_of_find?_eq_some he
  have hp := List.find?_some he
  simp only [beq_iff_eq] at hp
  exact List.mem_map.2 ⟨e, hm, hp⟩

/-- `ErrPacketIDsExhausted` only when the outgoing store holds at least 65535 packets -/
theorem freshID_zero_full (s : MemorySession) (h : s.freshID.1 = 0) : 65535 ≤ s.outgoing.entries.length := by
  have h1 := freshIDAux_zero_tries 65535 s h
  have h2 := length_le_of_nodup_subset (tries 65535 s) (s.outgoing.entries.map (·.1))
    (tries_nodup 65535 (Nat.le_refl _) s) (fun id hid => mem_keys_of_lookup_isSome (h1 id hid))
  rw [tries_length, List.length_map] at h2
  exact h2

/-- an unused id is found whenever the outgoing store holds fewer than 65535 packets -/
theorem freshID_ne_zero_of_lt (s : MemorySession) (h : s.outgoing.entries.length < 65535) : s.freshID.1 ≠ 0 :=
  fun e => by have := freshID_zero_full s e; omega

end MemorySession
