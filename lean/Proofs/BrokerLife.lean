import Model.Broker
/-
  Proofs/BrokerLife.lean — helper lemmas for C13 (one live connection per client id, takeover) and
  C14 (isolation, Terminate exactly once, closed signal, totality) on `Model/Broker.lean`.
  Everything lives in namespace `BrokerB4`.
-/
namespace BrokerB4
open BState

/-! ### association lists -/
section AssocLemmas
variable {κ α : Type} [DecidableEq κ]

theorem get_nil (k : κ) : Assoc.get ([] : List (κ × α)) k = none := rfl

theorem get_cons (e : κ × α) (l : List (κ × α)) (k : κ) :
    Assoc.get (e :: l) k = if e.1 = k then some e.2 else Assoc.get l k := by
  unfold Assoc.get
  by_cases h : e.1 = k
  · simp [h]
  · simp [h]

theorem get_map_same (l : List (κ × α)) (k : κ) (a : α) (h : l.any (·.1 = k) = true) :
    Assoc.get (l.map (fun e => if e.1 = k then (k, a) else e)) k = some a := by
  induction l with
  | nil => simp at h
  | cons e rest ih =>
    rw [List.map_cons, get_cons]
    by_cases he : e.1 = k
    · simp [he]
    · simp only [he, if_false]
      apply ih
      simpa [he] using h

theorem get_map_other (l : List (κ × α)) (k k' : κ) (a : α) (hk : k' ≠ k) :
    Assoc.get (l.map (fun e => if e.1 = k then (k, a) else e)) k' = Assoc.get l k' := by
  induction l with
  | nil => rfl
  | cons e rest ih =>
    rw [List.map_cons, get_cons, get_cons, ih]
    by_cases he : e.1 = k
    · have h1 : ¬ e.1 = k' := by rw [he]; exact fun h => hk h.symm
      have h2 : ¬ k = k' := fun h => hk h.symm
      simp [he, h2]
    · simp [he]

theorem get_append_single (l : List (κ × α)) (k k' : κ) (a : α) :
    Assoc.get (l ++ [(k, a)]) k' =
      match Assoc.get l k' with
      | some b => some b
      | none => if k = k' then some a else none := by
  induction l with
  | nil => simp [get_cons, get_nil]
  | cons e rest ih =>
    rw [List.cons_append, get_cons, get_cons, ih]
    by_cases he : e.1 = k' <;> simp [he]

theorem get_none_of_not_any (l : List (κ × α)) (k : κ) (h : ¬ l.any (·.1 = k) = true) :
    Assoc.get l k = none := by
  induction l with
  | nil => rfl
  | cons e rest ih =>
    rw [get_cons]
    by_cases he : e.1 = k
    · simp [he] at h
    · simp only [he, if_false]
      apply ih
      simpa [he] using h

theorem get_set_same (l : List (κ × α)) (k : κ) (a : α) : Assoc.get (Assoc.set l k a) k = some a := by
  unfold Assoc.set
  by_cases h : l.any (·.1 = k) = true
  · rw [if_pos h]; exact get_map_same l k a h
  · rw [if_neg h, get_append_single, get_none_of_not_any l k h]; simp

theorem get_set_other (l : List (κ × α)) (k k' : κ) (a : α) (hk : k' ≠ k) :
    Assoc.get (Assoc.set l k a) k' = Assoc.get l k' := by
  unfold Assoc.set
  by_cases h : l.any (·.1 = k) = true
  · rw [if_pos h]; exact get_map_other l k k' a hk
  · rw [if_neg h, get_append_single]
    have h2 : ¬ k = k' := fun h => hk h.symm
    cases Assoc.get l k' <;> simp [h2]

theorem get_set (l : List (κ × α)) (k k' : κ) (a : α) :
    Assoc.get (Assoc.set l k a) k' = if k' = k then some a else Assoc.get l k' := by
  by_cases h : k' = k
  · subst h; simp [get_set_same]
  · simp [h, get_set_other l k k' a h]

theorem get_del_same (l : List (κ × α)) (k : κ) : Assoc.get (Assoc.del l k) k = none := by
  unfold Assoc.del
  induction l with
  | nil => rfl
  | cons e rest ih =>
    simp only [ne_eq, decide_not] at ih ⊢
    by_cases he : e.1 = k
    · simp [he]; exact ih
    · simp [he, get_cons]; exact ih

theorem get_del_other (l : List (κ × α)) (k k' : κ) (hk : k' ≠ k) :
    Assoc.get (Assoc.del l k) k' = Assoc.get l k' := by
  unfold Assoc.del
  induction l with
  | nil => rfl
  | cons e rest ih =>
    simp only [ne_eq, decide_not] at ih ⊢
    by_cases he : e.1 = k
    · have h2 : ¬ k = k' := fun h => hk h.symm
      simp [he, get_cons, h2]; exact ih
    · simp [he, get_cons]
      rw [ih]

theorem get_del (l : List (κ × α)) (k k' : κ) :
    Assoc.get (Assoc.del l k) k' = if k' = k then none else Assoc.get l k' := by
  by_cases h : k' = k
  · subst h; simp [get_del_same]
  · simp [h, get_del_other l k k' h]

theorem mem_of_get (l : List (κ × α)) (k : κ) (a : α) (h : Assoc.get l k = some a) : (k, a) ∈ l := by
  induction l with
  | nil => simp [get_nil] at h
  | cons e rest ih =>
    rw [get_cons] at h
    by_cases he : e.1 = k
    · simp [he] at h
      have : e = (k, a) := by cases e; simp_all
      simp [this]
    · simp [he] at h
      exact List.mem_cons_of_mem _ (ih h)

theorem get_isSome_of_mem (l : List (κ × α)) (k : κ) (a : α) (h : (k, a) ∈ l) :
    ∃ a', Assoc.get l k = some a' := by
  induction l with
  | nil => simp at h
  | cons e rest ih =>
    rw [get_cons]
    by_cases he : e.1 = k
    · exact ⟨e.2, by simp [he]⟩
    · simp only [he, if_false]
      rcases List.mem_cons.1 h with h | h
      · exact absurd (by rw [← h]) he
      · exact ih h

end AssocLemmas

/-! ### `Res` -/

/-- `P` holds for every possible successor (vacuous for `unsupported`) -/
def RAll (P : BState → Prop) : Res → Prop
  | .ok ss => ∀ s' ∈ ss, P s'
  | .unsupported _ => True

/-- the result is a list of successors -/
def RSupp : Res → Prop
  | .ok _ => True
  | .unsupported _ => False

theorem RAll_one {P : BState → Prop} {s : BState} : RAll P (Res.one s) ↔ P s := by
  simp [RAll, Res.one]

theorem RAll_mono {P Q : BState → Prop} {r : Res} (h : RAll P r) (hpq : ∀ s, P s → Q s) : RAll Q r := by
  cases r with
  | ok ss => exact fun s' hs => hpq _ (h s' hs)
  | unsupported w => trivial

theorem RAll_and {P Q : BState → Prop} {r : Res} (h1 : RAll P r) (h2 : RAll Q r) :
    RAll (fun s => P s ∧ Q s) r := by
  cases r with
  | ok ss => exact fun s' hs => ⟨h1 s' hs, h2 s' hs⟩
  | unsupported w => trivial

theorem RAll_ok {P : BState → Prop} {r : Res} {ss : List BState} (h : RAll P r) (hr : r = .ok ss) :
    ∀ s' ∈ ss, P s' := by
  subst hr; exact h

private def bindStep (f : BState → Res) (acc : Res) (s : BState) : Res :=
  match acc, f s with
  | .unsupported w, _ => .unsupported w
  | _, .unsupported w => .unsupported w
  | .ok a, .ok b => .ok (a ++ b)

private theorem foldl_unsupp (f : BState → Res) (w : String) (ss : List BState) :
    ss.foldl (bindStep f) (.unsupported w) = .unsupported w := by
  induction ss with
  | nil => rfl
  | cons s rest ih => simp only [List.foldl_cons, bindStep]; exact ih

private theorem foldl_ok (f : BState → Res) : ∀ (ss : List BState) (a out : List BState),
    ss.foldl (bindStep f) (.ok a) = .ok out →
      ∀ s', s' ∈ out ↔ (s' ∈ a ∨ ∃ s ∈ ss, ∃ o, f s = .ok o ∧ s' ∈ o) := by
  intro ss
  induction ss with
  | nil =>
    intro a out h s'
    simp only [List.foldl_nil, Res.ok.injEq] at h
    subst h; simp
  | cons s rest ih =>
    intro a out h s'
    simp only [List.foldl_cons] at h
    cases hf : f s with
    | unsupported w =>
      simp only [bindStep, hf] at h
      rw [foldl_unsupp] at h; cases h
    | ok o =>
      simp only [bindStep, hf] at h
      rw [ih _ _ h s']
      constructor
      · rintro (h1 | ⟨s0, hs0, o0, ho0, hm⟩)
        · rcases List.mem_append.1 h1 with h1 | h1
          · exact Or.inl h1
          · exact Or.inr ⟨s, by simp, o, hf, h1⟩
        · exact Or.inr ⟨s0, List.mem_cons_of_mem _ hs0, o0, ho0, hm⟩
      · rintro (h1 | ⟨s0, hs0, o0, ho0, hm⟩)
        · exact Or.inl (List.mem_append_left _ h1)
        · rcases List.mem_cons.1 hs0 with h2 | h2
          · subst h2; rw [hf] at ho0; cases ho0
            exact Or.inl (List.mem_append_right _ hm)
          · exact Or.inr ⟨s0, h2, o0, ho0, hm⟩

private theorem foldl_supp (f : BState → Res) : ∀ (ss : List BState) (a : List BState),
    (∀ s ∈ ss, RSupp (f s)) → ∃ out, ss.foldl (bindStep f) (.ok a) = .ok out := by
  intro ss
  induction ss with
  | nil => intro a _; exact ⟨a, rfl⟩
  | cons s rest ih =>
    intro a h
    have hs := h s (by simp)
    cases hf : f s with
    | unsupported w => rw [hf] at hs; exact hs.elim
    | ok o =>
      simp only [List.foldl_cons, bindStep, hf]
      exact ih _ (fun s' hs' => h s' (List.mem_cons_of_mem _ hs'))

theorem bind_eq (r : Res) (f : BState → Res) :
    Res.bind r f = match r with
      | .unsupported w => .unsupported w
      | .ok ss => ss.foldl (bindStep f) (.ok []) := by
  cases r <;> rfl

/-- membership in a `Res.bind` -/
theorem mem_bind {ss out : List BState} {f : BState → Res} (h : Res.bind (.ok ss) f = .ok out) (s' : BState) :
    s' ∈ out ↔ ∃ s ∈ ss, ∃ o, f s = .ok o ∧ s' ∈ o := by
  rw [bind_eq] at h
  have := foldl_ok f ss [] out h s'
  simpa using this

theorem bind_ok_inv {r : Res} {out : List BState} {f : BState → Res} (h : Res.bind r f = .ok out) :
    ∃ ss, r = .ok ss := by
  cases r with
  | ok ss => exact ⟨ss, rfl⟩
  | unsupported w => rw [bind_eq] at h; cases h

/-- Hoare rule for `Res.bind` -/
theorem RAll_bind {P Q : BState → Prop} {r : Res} {f : BState → Res}
    (h1 : RAll Q r) (h2 : ∀ s, Q s → RAll P (f s)) : RAll P (Res.bind r f) := by
  cases hb : Res.bind r f with
  | unsupported w => trivial
  | ok out =>
    obtain ⟨ss, rfl⟩ := bind_ok_inv hb
    intro s' hs'
    obtain ⟨s, hs, o, ho, hm⟩ := (mem_bind hb s').1 hs'
    have := h2 s (h1 s hs)
    rw [ho] at this
    exact this s' hm

theorem RSupp_bind {r : Res} {f : BState → Res} (h1 : RSupp r) (h2 : RAll (fun s => RSupp (f s)) r) :
    RSupp (Res.bind r f) := by
  cases r with
  | unsupported w => exact h1.elim
  | ok ss =>
    rw [bind_eq]
    obtain ⟨out, ho⟩ := foldl_supp f ss [] h2
    simp only [ho]; trivial

private theorem foldl_why (f : BState → Res) : ∀ (ss : List BState) (a : List BState) (w : String),
    ss.foldl (bindStep f) (.ok a) = .unsupported w → ∃ s ∈ ss, f s = .unsupported w := by
  intro ss
  induction ss with
  | nil => intro a w h; cases h
  | cons s rest ih =>
    intro a w h
    simp only [List.foldl_cons] at h
    cases hf : f s with
    | unsupported w' =>
      simp only [bindStep, hf] at h
      rw [foldl_unsupp] at h; cases h
      exact ⟨s, by simp, hf⟩
    | ok o =>
      simp only [bindStep, hf] at h
      obtain ⟨s0, hs0, h0⟩ := ih _ _ h
      exact ⟨s0, List.mem_cons_of_mem _ hs0, h0⟩

/-- where an `unsupported` outcome of a `Res.bind` comes from -/
theorem bind_unsupported {r : Res} {f : BState → Res} {w : String} (h : Res.bind r f = .unsupported w) :
    r = .unsupported w ∨ ∃ ss s, r = .ok ss ∧ s ∈ ss ∧ f s = .unsupported w := by
  cases r with
  | unsupported w' => rw [bind_eq] at h; cases h; exact Or.inl rfl
  | ok ss =>
    rw [bind_eq] at h
    obtain ⟨s, hs, hf⟩ := foldl_why f ss [] w h
    exact Or.inr ⟨ss, s, rfl, hs, hf⟩

theorem RSupp_one (s : BState) : RSupp (Res.one s) := trivial

theorem bind_one (s : BState) (f : BState → Res) : RAll P (f s) → RAll P (Res.bind (Res.one s) f) := by
  intro h
  exact RAll_bind (Q := fun t => t = s) (by simp [RAll, Res.one]) (fun t ht => ht ▸ h)

/-! ### basic state operations -/

@[simp] theorem conn?_setConn (s : BState) (c e : ConnId) (x : BConn) :
    (s.setConn c x).conn? e = if e = c then some x else s.conn? e := by
  unfold BState.conn? BState.setConn; exact get_set _ _ _ _

theorem conn?_updConn (s : BState) (c e : ConnId) (f : BConn → BConn) :
    (s.updConn c f).conn? e = if e = c then (s.conn? c).map f else s.conn? e := by
  unfold BState.updConn
  cases h : s.conn? c with
  | none => by_cases he : e = c <;> simp [he, h]
  | some x => simp

@[simp] theorem setConn_stored (s : BState) (c : ConnId) (x : BConn) : (s.setConn c x).stored = s.stored := rfl
@[simp] theorem setConn_temp (s : BState) (c : ConnId) (x : BConn) : (s.setConn c x).temp = s.temp := rfl
@[simp] theorem setConn_ac (s : BState) (c : ConnId) (x : BConn) : (s.setConn c x).activeClients = s.activeClients := rfl
@[simp] theorem setConn_cfg (s : BState) (c : ConnId) (x : BConn) : (s.setConn c x).cfg = s.cfg := rfl
@[simp] theorem setConn_closing (s : BState) (c : ConnId) (x : BConn) : (s.setConn c x).closing = s.closing := rfl
@[simp] theorem setConn_bevents (s : BState) (c : ConnId) (x : BConn) : (s.setConn c x).bevents = s.bevents := rfl
@[simp] theorem setConn_lateAck (s : BState) (c : ConnId) (x : BConn) : (s.setConn c x).lateAck = s.lateAck := rfl
@[simp] theorem setConn_neverAck (s : BState) (c : ConnId) (x : BConn) : (s.setConn c x).neverAck = s.neverAck := rfl

theorem updConn_eq (s : BState) (c : ConnId) (f : BConn → BConn) :
    s.updConn c f = match s.conn? c with | some x => s.setConn c (f x) | none => s := rfl

@[simp] theorem updConn_stored (s : BState) (c : ConnId) (f : BConn → BConn) : (s.updConn c f).stored = s.stored := by
  rw [updConn_eq]; split <;> rfl
@[simp] theorem updConn_temp (s : BState) (c : ConnId) (f : BConn → BConn) : (s.updConn c f).temp = s.temp := by
  rw [updConn_eq]; split <;> rfl
@[simp] theorem updConn_ac (s : BState) (c : ConnId) (f : BConn → BConn) : (s.updConn c f).activeClients = s.activeClients := by
  rw [updConn_eq]; split <;> rfl
@[simp] theorem updConn_cfg (s : BState) (c : ConnId) (f : BConn → BConn) : (s.updConn c f).cfg = s.cfg := by
  rw [updConn_eq]; split <;> rfl
@[simp] theorem updConn_closing (s : BState) (c : ConnId) (f : BConn → BConn) : (s.updConn c f).closing = s.closing := by
  rw [updConn_eq]; split <;> rfl
@[simp] theorem updConn_bevents (s : BState) (c : ConnId) (f : BConn → BConn) : (s.updConn c f).bevents = s.bevents := by
  rw [updConn_eq]; split <;> rfl

theorem sessOf_of_conn {s : BState} {c : ConnId} {x : BConn} (h : s.conn? c = some x) :
    s.sessOf c = match x.sref with
      | .none => none
      | .temp => Assoc.get s.temp c
      | .stored id => Assoc.get s.stored id := by
  unfold BState.sessOf; rw [h]; rfl

theorem setSessOf_of_conn {s : BState} {c : ConnId} {x : BConn} (h : s.conn? c = some x) (b : BSess) :
    s.setSessOf c b = match x.sref with
      | .none => s
      | .temp => { s with temp := Assoc.set s.temp c b }
      | .stored id => { s with stored := Assoc.set s.stored id b } := by
  unfold BState.setSessOf; rw [h]; rfl

@[simp] theorem setSessOf_conns (s : BState) (c : ConnId) (b : BSess) : (s.setSessOf c b).conns = s.conns := by
  unfold BState.setSessOf; split
  · split <;> rfl
  · rfl
@[simp] theorem setSessOf_conn? (s : BState) (c e : ConnId) (b : BSess) : (s.setSessOf c b).conn? e = s.conn? e := by
  unfold BState.conn?; rw [setSessOf_conns]
@[simp] theorem setSessOf_ac (s : BState) (c : ConnId) (b : BSess) : (s.setSessOf c b).activeClients = s.activeClients := by
  unfold BState.setSessOf; split
  · split <;> rfl
  · rfl
@[simp] theorem setSessOf_cfg (s : BState) (c : ConnId) (b : BSess) : (s.setSessOf c b).cfg = s.cfg := by
  unfold BState.setSessOf; split
  · split <;> rfl
  · rfl
@[simp] theorem setSessOf_closing (s : BState) (c : ConnId) (b : BSess) : (s.setSessOf c b).closing = s.closing := by
  unfold BState.setSessOf; split
  · split <;> rfl
  · rfl
@[simp] theorem setSessOf_bevents (s : BState) (c : ConnId) (b : BSess) : (s.setSessOf c b).bevents = s.bevents := by
  unfold BState.setSessOf; split
  · split <;> rfl
  · rfl

/-! ### relations between a state and a successor -/

/-- relation lifted to options: both absent, or both present and related -/
def ORel {α : Type} (R : α → α → Prop) : Option α → Option α → Prop
  | none, none => True
  | some a, some b => R a b
  | _, _ => False

theorem ORel.refl {α : Type} {R : α → α → Prop} (h : ∀ a, R a a) (o : Option α) : ORel R o o := by
  cases o <;> simp [ORel, h]

theorem ORel.trans {α : Type} {R : α → α → Prop} (h : ∀ a b c, R a b → R b c → R a c)
    {o1 o2 o3 : Option α} (h1 : ORel R o1 o2) (h2 : ORel R o2 o3) : ORel R o1 o3 := by
  cases o1 <;> cases o2 <;> cases o3 <;> simp_all [ORel]
  exact h _ _ _ h1 h2

theorem ORel.mono {α : Type} {R Q : α → α → Prop} (h : ∀ a b, R a b → Q a b)
    {o1 o2 : Option α} (h1 : ORel R o1 o2) : ORel Q o1 o2 := by
  cases o1 <;> cases o2 <;> simp_all [ORel]

theorem ORel.some_left {α : Type} {R : α → α → Prop} {a : α} {o : Option α} (h : ORel R (some a) o) :
    ∃ b, o = some b ∧ R a b := by
  cases o <;> simp_all [ORel]

theorem ORel.some_right {α : Type} {R : α → α → Prop} {b : α} {o : Option α} (h : ORel R o (some b)) :
    ∃ a, o = some a ∧ R a b := by
  cases o <;> simp_all [ORel]

theorem ORel.none_left {α : Type} {R : α → α → Prop} {o : Option α} (h : ORel R none o) : o = none := by
  cases o <;> simp_all [ORel]

theorem ORel.none_right {α : Type} {R : α → α → Prop} {o : Option α} (h : ORel R o none) : o = none := by
  cases o <;> simp_all [ORel]

/-- a session changed only by messages appended to its queues -/
structure SessExt (b b' : BSess) : Prop where
  subs : b'.subs = b.subs
  sess : b'.sess = b.sess
  active : b'.active = b.active
  storedQ : ∃ l, b'.storedQ = b.storedQ ++ l
  tempQ : ∃ l, b'.tempQ = b.tempQ ++ l

theorem SessExt.refl (b : BSess) : SessExt b b := ⟨rfl, rfl, rfl, ⟨[], by simp⟩, ⟨[], by simp⟩⟩

theorem SessExt.trans {a b c : BSess} (h1 : SessExt a b) (h2 : SessExt b c) : SessExt a c := by
  obtain ⟨l1, e1⟩ := h1.storedQ; obtain ⟨l2, e2⟩ := h2.storedQ
  obtain ⟨m1, f1⟩ := h1.tempQ; obtain ⟨m2, f2⟩ := h2.tempQ
  exact ⟨h2.subs.trans h1.subs, h2.sess.trans h1.sess, h2.active.trans h1.active,
    ⟨l1 ++ l2, by rw [e2, e1, List.append_assoc]⟩, ⟨m1 ++ m2, by rw [f2, f1, List.append_assoc]⟩⟩

/-- the life-cycle fields of a connection record -/
def core (x : BConn) : Phase × Bool × ClientId × SessRef × Bool × Bool :=
  (x.phase, x.alive, x.id, x.sref, x.stalled, x.zombie)

/-- how one session may change in a step that is no life-cycle event: the owner stays; unless the
    session is exempt (`ex`) it only grows at the tails of its queues -/
def SessChg (ex : Prop) (b b' : BSess) : Prop := b'.active = b.active ∧ (¬ ex → SessExt b b')

theorem coreRel_refl (o : Option BConn) : ORel (fun x x' => core x' = core x) o o := by
  cases o <;> simp [ORel]

theorem SessChg.refl (ex : Prop) (b : BSess) : SessChg ex b b := ⟨rfl, fun _ => SessExt.refl b⟩
theorem SessChg.trans {ex : Prop} {a b c : BSess} (h1 : SessChg ex a b) (h2 : SessChg ex b c) : SessChg ex a c :=
  ⟨h2.1.trans h1.1, fun h => (h1.2 h).trans (h2.2 h)⟩
theorem SessChg.otrans {ex : Prop} {o1 o2 o3 : Option BSess} (h1 : ORel (SessChg ex) o1 o2)
    (h2 : ORel (SessChg ex) o2 o3) : ORel (SessChg ex) o1 o3 :=
  ORel.trans (R := SessChg ex) (fun _ _ _ h1 h2 => SessChg.trans h1 h2) h1 h2
theorem SessChg.of_ext {ex : Prop} {a b : BSess} (h : SessExt a b) : SessChg ex a b := ⟨h.active, fun _ => h⟩

/-- `Quiet c S s s'`: between `s` and `s'` connection `c` did something that is no life-cycle event.
    Other connection records are untouched, `c` keeps its life-cycle fields, no session changes owner
    or appears / disappears, sessions other than `c`'s own (`S` = its stored key, its temporary key
    is `c`) only grow at the queue tails, the only backend calls are `Publish` calls by `c`. -/
structure Quiet (c : ConnId) (S : ClientId → Prop) (s s' : BState) : Prop where
  cfg : s'.cfg = s.cfg
  closing : s'.closing = s.closing
  ac : s'.activeClients = s.activeClients
  connO : ∀ e, e ≠ c → s'.conn? e = s.conn? e
  connC : ORel (fun x x' => core x' = core x) (s.conn? c) (s'.conn? c)
  stored : ∀ k, ORel (SessChg (S k)) (Assoc.get s.stored k) (Assoc.get s'.stored k)
  temp : ∀ k, ORel (SessChg (k = c)) (Assoc.get s.temp k) (Assoc.get s'.temp k)
  bev : ∃ l, s'.bevents = s.bevents ++ l ∧ ∀ ev ∈ l, ∃ m, ev = BEvent.publish c m

theorem Quiet.refl (c : ConnId) (S : ClientId → Prop) (s : BState) : Quiet c S s s :=
  ⟨rfl, rfl, rfl, fun _ _ => rfl, coreRel_refl _, fun _ => ORel.refl (SessChg.refl _) _,
   fun _ => ORel.refl (SessChg.refl _) _, ⟨[], by simp, by simp⟩⟩

theorem Quiet.trans {c : ConnId} {S : ClientId → Prop} {s1 s2 s3 : BState}
    (h1 : Quiet c S s1 s2) (h2 : Quiet c S s2 s3) : Quiet c S s1 s3 := by
  obtain ⟨l1, e1, p1⟩ := h1.bev
  obtain ⟨l2, e2, p2⟩ := h2.bev
  refine ⟨h2.cfg.trans h1.cfg, h2.closing.trans h1.closing, h2.ac.trans h1.ac,
    fun e he => (h2.connO e he).trans (h1.connO e he),
    ORel.trans (fun a b c hab hbc => hbc.trans hab) h1.connC h2.connC,
    fun k => SessChg.otrans (h1.stored k) (h2.stored k),
    fun k => SessChg.otrans (h1.temp k) (h2.temp k),
    ⟨l1 ++ l2, by rw [e2, e1, List.append_assoc], ?_⟩⟩
  intro ev hev
  rcases List.mem_append.1 hev with h | h
  · exact p1 ev h
  · exact p2 ev h

/-- a change of fields of `c`'s record that are no life-cycle fields -/
theorem Quiet.setConn {c : ConnId} {S : ClientId → Prop} {s : BState} {x x' : BConn}
    (h : s.conn? c = some x) (hc : core x' = core x) : Quiet c S s (s.setConn c x') := by
  refine ⟨rfl, rfl, rfl, fun e he => by simp [he], ?_, fun _ => ORel.refl (SessChg.refl _) _,
   fun _ => ORel.refl (SessChg.refl _) _, ⟨[], by simp, by simp⟩⟩
  rw [h]; simp [ORel, hc]

theorem Quiet.updConn {c : ConnId} {S : ClientId → Prop} {s : BState} {f : BConn → BConn}
    (hc : ∀ x, core (f x) = core x) : Quiet c S s (s.updConn c f) := by
  rw [updConn_eq]
  cases h : s.conn? c with
  | none => exact Quiet.refl _ _ _
  | some x => exact Quiet.setConn h (hc x)

/-- `c`'s own session is rewritten, the owner stays -/
theorem Quiet.setSessOf {c : ConnId} {S : ClientId → Prop} {s : BState} {x : BConn} {b b' : BSess}
    (h : s.conn? c = some x) (hs : s.sessOf c = some b) (hS : ∀ k, x.sref = .stored k → S k)
    (ha : b'.active = b.active) : Quiet c S s (s.setSessOf c b') := by
  rw [sessOf_of_conn h] at hs
  rw [setSessOf_of_conn h]
  cases hr : x.sref with
  | none => rw [hr] at hs; cases hs
  | temp =>
    rw [hr] at hs
    simp only at hs ⊢
    refine ⟨rfl, rfl, rfl, fun _ _ => rfl, coreRel_refl _, fun _ => ORel.refl (SessChg.refl _) _, ?_,
      ⟨[], by simp, by simp⟩⟩
    intro k
    simp only [get_set]
    by_cases hk : k = c
    · subst hk; rw [hs]; simp only [if_true, ORel]; exact ⟨ha, fun hn => absurd trivial hn⟩
    · simp only [hk, if_false]; exact ORel.refl (SessChg.refl _) _
  | stored i =>
    rw [hr] at hs
    simp only at hs ⊢
    refine ⟨rfl, rfl, rfl, fun _ _ => rfl, coreRel_refl _, ?_, fun _ => ORel.refl (SessChg.refl _) _,
      ⟨[], by simp, by simp⟩⟩
    intro k
    simp only [get_set]
    by_cases hk : k = i
    · subst hk; rw [hs]; simp only [if_true, ORel]; exact ⟨ha, fun hn => absurd (hS _ hr) hn⟩
    · simp only [hk, if_false]; exact ORel.refl (SessChg.refl _) _

/-! ### `backendPublish` -/

def R1All (P : BState → Prop) : Res1 → Prop
  | .ok s => P s
  | .queueFull s => P s
  | .unsupported _ => True

/-- the state after the bookkeeping part of `backendPublish` (event, retained store, group counter) -/
def pubPre (s : BState) (c : ConnId) (m : Message) : BState :=
  { s with
    bevents := s.bevents ++ [BEvent.publish c m],
    retained := if m.retain then (if m.payload.length > 0 then Tree.set m.topic s.rmsgs.length s.retained
                                  else Tree.emptyTopic m.topic s.retained) else s.retained,
    rmsgs := if m.retain then (if m.payload.length > 0 then s.rmsgs ++ [m] else s.rmsgs) else s.rmsgs,
    nextGroup := s.nextGroup + 1 }

theorem backendPublish_eq (s : BState) (c : ConnId) (m : Message) :
    backendPublish s c m =
      match fanTemp s.cfg c { m with retain := false } s.nextGroup s.temp [] with
      | .error e => .unsupported e
      | .ok (temp', full1) =>
        if full1 then .queueFull { pubPre s c m with temp := temp' } else
        match fanStored s.cfg c { m with retain := false } s.nextGroup s.stored [] with
        | .error e => .unsupported e
        | .ok (stored', full2) =>
          if full2 then .queueFull { pubPre s c m with temp := temp', stored := stored' }
          else .ok { pubPre s c m with temp := temp', stored := stored' } := by
  unfold backendPublish pubPre
  by_cases h1 : m.retain = true
  · by_cases h2 : m.payload.length > 0
    · simp only [h1, h2, if_true]; rfl
    · simp only [h1, h2, if_true, if_false]; rfl
  · simp only [h1, if_false]; rfl

/-- pointwise relation of two association lists: same keys in the same places, related values -/
inductive PW (R : BSess → BSess → Prop) {κ : Type} : List (κ × BSess) → List (κ × BSess) → Prop where
  | nil : PW R [] []
  | cons {k : κ} {b b' : BSess} {l l' : List (κ × BSess)} : R b b' → PW R l l' → PW R ((k, b) :: l) ((k, b') :: l')

theorem PW.refl {R : BSess → BSess → Prop} (h : ∀ b, R b b) {κ : Type} (l : List (κ × BSess)) : PW R l l := by
  induction l with
  | nil => exact PW.nil
  | cons e rest ih => obtain ⟨k, b⟩ := e; exact PW.cons (h b) ih

theorem PW.get {R : BSess → BSess → Prop} {κ : Type} [DecidableEq κ] {l l' : List (κ × BSess)} (h : PW R l l') (k : κ) :
    ORel R (Assoc.get l k) (Assoc.get l' k) := by
  induction h with
  | nil => simp [get_nil, ORel]
  | cons hr _ ih =>
    rw [get_cons, get_cons]
    split
    · exact hr
    · exact ih

theorem PW.append {R : BSess → BSess → Prop} {κ : Type} {l1 l1' l2 l2' : List (κ × BSess)}
    (h1 : PW R l1 l1') (h2 : PW R l2 l2') : PW R (l1 ++ l2) (l1' ++ l2') := by
  induction h1 with
  | nil => simpa using h2
  | cons hr _ ih => exact PW.cons hr ih

theorem enqueue_ext {cfg : Cfg} {b b' : BSess} {m : Message} {g : Nat} (h : enqueue cfg b m g = .ok b') :
    SessExt b b' := by
  unfold enqueue at h
  split at h
  · split at h
    · injection h with h; subst h; exact ⟨rfl, rfl, rfl, ⟨[], by simp⟩, ⟨[(g, applyQOS b m)], rfl⟩⟩
    · cases h
  · split at h
    · injection h with h; subst h; exact ⟨rfl, rfl, rfl, ⟨[applyQOS b m], rfl⟩, ⟨[], by simp⟩⟩
    · cases h

theorem fanTemp_pw (cfg : Cfg) (c : ConnId) (m : Message) (g : Nat) :
    ∀ (l acc l' : List (ConnId × BSess)) (full : Bool), fanTemp cfg c m g l acc = .ok (l', full) →
      ∃ l'', l' = acc.reverse ++ l'' ∧ PW SessExt l l'' := by
  intro l
  induction l with
  | nil =>
    intro acc l' full h
    simp only [fanTemp, Except.ok.injEq, Prod.mk.injEq] at h
    exact ⟨[], by simp [h.1], PW.nil⟩
  | cons e rest ih =>
    intro acc l' full h
    obtain ⟨k, b⟩ := e
    simp only [fanTemp] at h
    split at h
    · split at h
      · rename_i b' he
        obtain ⟨l'', h1, h2⟩ := ih _ _ _ h
        exact ⟨(k, b') :: l'', by simp [h1], PW.cons (enqueue_ext he) h2⟩
      · split at h
        · simp only [Except.ok.injEq, Prod.mk.injEq] at h
          exact ⟨(k, b) :: rest, h.1.symm, PW.refl SessExt.refl _⟩
        · cases h
    · obtain ⟨l'', h1, h2⟩ := ih _ _ _ h
      exact ⟨(k, b) :: l'', by simp [h1], PW.cons (SessExt.refl b) h2⟩

theorem fanStored_pw (cfg : Cfg) (c : ConnId) (m : Message) (g : Nat) :
    ∀ (l acc l' : List (ClientId × BSess)) (full : Bool), fanStored cfg c m g l acc = .ok (l', full) →
      ∃ l'', l' = acc.reverse ++ l'' ∧ PW SessExt l l'' := by
  intro l
  induction l with
  | nil =>
    intro acc l' full h
    simp only [fanStored, Except.ok.injEq, Prod.mk.injEq] at h
    exact ⟨[], by simp [h.1], PW.nil⟩
  | cons e rest ih =>
    intro acc l' full h
    obtain ⟨k, b⟩ := e
    simp only [fanStored] at h
    split at h
    · split at h
      · rename_i b' he
        obtain ⟨l'', h1, h2⟩ := ih _ _ _ h
        exact ⟨(k, b') :: l'', by simp [h1], PW.cons (enqueue_ext he) h2⟩
      · split at h
        · simp only [Except.ok.injEq, Prod.mk.injEq] at h
          exact ⟨(k, b) :: rest, h.1.symm, PW.refl SessExt.refl _⟩
        · split at h
          · cases h
          · obtain ⟨l'', h1, h2⟩ := ih _ _ _ h
            exact ⟨(k, b) :: l'', by simp [h1], PW.cons (SessExt.refl b) h2⟩
    · obtain ⟨l'', h1, h2⟩ := ih _ _ _ h
      exact ⟨(k, b) :: l'', by simp [h1], PW.cons (SessExt.refl b) h2⟩

theorem quiet_of_fan {c : ConnId} {S : ClientId → Prop} {s : BState} {m : Message}
    {temp' : List (ConnId × BSess)} {stored' : List (ClientId × BSess)}
    (ht : PW SessExt s.temp temp') (hs : PW SessExt s.stored stored') :
    Quiet c S s { pubPre s c m with temp := temp', stored := stored' } := by
  refine ⟨rfl, rfl, rfl, fun _ _ => rfl, coreRel_refl _, ?_, ?_, ⟨[BEvent.publish c m], rfl, ?_⟩⟩
  · intro k; exact ORel.mono (fun _ _ h => SessChg.of_ext h) (hs.get k)
  · intro k; exact ORel.mono (fun _ _ h => SessChg.of_ext h) (ht.get k)
  · intro ev hev; simp at hev; exact ⟨m, hev⟩

/-- `Backend.Publish` is quiet: no connection record, no session ownership changes; queues grow -/
theorem backendPublish_quiet (s : BState) (c : ConnId) (m : Message) (S : ClientId → Prop) :
    R1All (Quiet c S s) (backendPublish s c m) := by
  rw [backendPublish_eq]
  split
  · trivial
  · rename_i temp' full1 hft
    obtain ⟨t'', ht1, ht2⟩ := fanTemp_pw _ _ _ _ _ _ _ _ hft
    simp only [List.reverse_nil, List.nil_append] at ht1
    subst ht1
    split
    · exact quiet_of_fan ht2 (PW.refl SessExt.refl _)
    · split
      · trivial
      · rename_i stored' full2 hfs
        obtain ⟨s'', hs1, hs2⟩ := fanStored_pw _ _ _ _ _ _ _ _ hfs
        simp only [List.reverse_nil, List.nil_append] at hs1
        subst hs1
        split
        · exact quiet_of_fan ht2 hs2
        · exact quiet_of_fan ht2 hs2

/-! ### `kill` and its parts -/

theorem lastDequeue_mem {s s1 : BState} {c : ConnId} {x : BConn} (h : s1 ∈ lastDequeue s c x) :
    s1 = s ∨ ∃ b b', s.sessOf c = some b ∧ b'.active = b.active ∧ b'.subs = b.subs ∧ s1 = s.setSessOf c b' := by
  unfold lastDequeue at h
  split at h
  · simp at h; exact Or.inl h
  · split at h
    · simp at h; exact Or.inl h
    · rename_i b hb
      simp only [List.mem_cons, List.mem_append] at h
      rcases h with h | h | h
      · exact Or.inl h
      · right
        split at h
        · rename_i hd rest hq
          simp only [List.mem_cons, List.not_mem_nil, or_false] at h
          split at h
          · refine ⟨b, _, hb, ?_, ?_, h⟩ <;> rfl
          · split at h
            · refine ⟨b, _, hb, ?_, ?_, h⟩ <;> rfl
            · refine ⟨b, _, hb, ?_, ?_, h⟩ <;> rfl
        · simp at h
      · right
        split at h
        · simp at h
        · simp only [List.mem_map] at h
          obtain ⟨e, _, he⟩ := h
          split at he
          · refine ⟨b, _, hb, ?_, ?_, he.symm⟩ <;> rfl
          · split at he
            · refine ⟨b, _, hb, ?_, ?_, he.symm⟩ <;> rfl
            · refine ⟨b, _, hb, ?_, ?_, he.symm⟩ <;> rfl

theorem lastDequeue_quiet {s s1 : BState} {c : ConnId} {x : BConn} {S : ClientId → Prop}
    (hc : s.conn? c = some x) (hS : ∀ k, x.sref = .stored k → S k) (h : s1 ∈ lastDequeue s c x) :
    Quiet c S s s1 ∧ s1.bevents = s.bevents := by
  rcases lastDequeue_mem h with h | ⟨b, b', hb, ha, _, h⟩
  · subst h; exact ⟨Quiet.refl _ _ _, rfl⟩
  · subst h; exact ⟨Quiet.setSessOf hc hb hS ha, by simp⟩

theorem backendPublish_bevents (s : BState) (c : ConnId) (m : Message) :
    R1All (fun s' => s'.bevents = s.bevents ++ [BEvent.publish c m]) (backendPublish s c m) := by
  rw [backendPublish_eq]
  split
  · trivial
  · split
    · rfl
    · split
      · trivial
      · split <;> rfl

theorem backendPublish_conns (s : BState) (c : ConnId) (m : Message) :
    R1All (fun s' => s'.conns = s.conns) (backendPublish s c m) := by
  rw [backendPublish_eq]
  split
  · trivial
  · split
    · rfl
    · split
      · trivial
      · split <;> rfl

/-- the record of a connection that has just been closed -/
def deadRec (x : BConn) : BConn := { x with alive := false, running := false }
def zombieRec (x : BConn) : BConn := { x with alive := false, running := false, zombie := true }

/-- the backend calls `cleanup` makes for the will -/
def willEvents (c : ConnId) (x : BConn) : List BEvent :=
  match x.phase, x.will with
  | .connected, some w => [BEvent.publish c w]
  | _, _ => []

def termEvents (c : ConnId) (x : BConn) : List BEvent :=
  if x.phase ≠ .connecting then [BEvent.terminate c] else []

def termIf (x : BConn) (s : BState) (c : ConnId) : BState :=
  if x.phase ≠ .connecting then backendTerminate s c else s

/-- Hoare rule for `cleanup`: an optional quiet will publish, then `Terminate` unless the
    connection never got past CONNECT -/
theorem cleanup_rule {P : BState → Prop} (s : BState) (c : ConnId) (x : BConn)
    (h : ∀ s2, (∀ S, Quiet c S s s2) → s2.bevents = s.bevents ++ willEvents c x → s2.conns = s.conns →
      P (termIf x s2 c)) :
    RAll P (cleanup s c x) := by
  unfold cleanup
  apply RAll_bind (Q := fun s2 => (∀ S, Quiet c S s s2) ∧ s2.bevents = s.bevents ++ willEvents c x ∧ s2.conns = s.conns)
  · cases hp : x.phase with
    | connecting => simp [RAll_one, willEvents, hp]; exact fun S => Quiet.refl _ _ _
    | disconnected => simp [RAll_one, willEvents, hp]; exact fun S => Quiet.refl _ _ _
    | connected =>
      cases hw : x.will with
      | none => simp [RAll_one, willEvents, hp, hw]; exact fun S => Quiet.refl _ _ _
      | some w =>
        simp only [willEvents, hp, hw]
        have hq := fun S => backendPublish_quiet s c w S
        have he := backendPublish_bevents s c w
        have hcn := backendPublish_conns s c w
        cases hb : backendPublish s c w with
        | unsupported e => trivial
        | ok s' =>
          simp only [RAll_one]
          rw [hb] at he hcn
          exact ⟨fun S => by have := hq S; rw [hb] at this; exact this, he, hcn⟩
        | queueFull s' =>
          simp only [RAll_one]
          rw [hb] at he hcn
          exact ⟨fun S => by have := hq S; rw [hb] at this; exact this, he, hcn⟩
  · intro s2 ⟨hq, hb, hcn⟩
    have := h s2 hq hb hcn
    unfold termIf at this
    split
    · rw [if_pos (by assumption)] at this; exact RAll_one.2 this
    · rw [if_neg (by assumption)] at this; exact RAll_one.2 this

/-- Hoare rule for `kill` -/
theorem kill_rule {P : BState → Prop} (s : BState) (d : ConnId)
    (hnone : s.conn? d = none → P s)
    (hdead : ∀ x, s.conn? d = some x → x.alive = false → P s)
    (hlive : ∀ x, s.conn? d = some x → x.alive = true → ∀ s1,
        (∀ S : ClientId → Prop, (∀ k, x.sref = .stored k → S k) → Quiet d S s s1) → s1.bevents = s.bevents →
        s1.conns = s.conns →
        (x.stalled = true → P (s1.setConn d (zombieRec x))) ∧
        (x.stalled = false → RAll P (cleanup (s1.setConn d (deadRec x)) d x))) :
    RAll P (kill s d) := by
  unfold kill
  cases hc : s.conn? d with
  | none => simp only []; exact RAll_one.2 (hnone hc)
  | some x =>
    simp only []
    cases ha : x.alive with
    | false => simp only [Bool.not_false, if_true]; exact RAll_one.2 (hdead x hc ha)
    | true =>
      simp only [Bool.not_true, Bool.false_eq_true, if_false]
      apply RAll_bind (Q := fun s1 => (∀ S : ClientId → Prop, (∀ k, x.sref = .stored k → S k) → Quiet d S s s1) ∧ s1.bevents = s.bevents ∧ s1.conns = s.conns)
      · intro s1 hs1
        refine ⟨fun S hS => (lastDequeue_quiet hc hS hs1).1, (lastDequeue_quiet (S := fun _ => True) hc (fun _ _ => trivial) hs1).2, ?_⟩
        rcases lastDequeue_mem hs1 with h | ⟨_, b', _, _, _, h⟩
        · rw [h]
        · rw [h]; simp
      · intro s1 ⟨hq, hb, hcn⟩
        have := hlive x hc ha s1 hq hb hcn
        by_cases hst : x.stalled = true
        · rw [if_pos hst]; exact RAll_one.2 (this.1 hst)
        · rw [if_neg hst]; exact this.2 (by simpa using hst)

/-! #### `backendTerminate` -/

@[simp] theorem bt_conns (s : BState) (c : ConnId) : (backendTerminate s c).conns = s.conns := by
  unfold backendTerminate; simp only []
  split <;> simp
@[simp] theorem bt_conn? (s : BState) (c e : ConnId) : (backendTerminate s c).conn? e = s.conn? e := by
  unfold BState.conn?; rw [bt_conns]
@[simp] theorem bt_cfg (s : BState) (c : ConnId) : (backendTerminate s c).cfg = s.cfg := by
  unfold backendTerminate; simp only []
  split <;> simp
@[simp] theorem bt_closing (s : BState) (c : ConnId) : (backendTerminate s c).closing = s.closing := by
  unfold backendTerminate; simp only []
  split <;> simp
@[simp] theorem bt_bevents (s : BState) (c : ConnId) :
    (backendTerminate s c).bevents = s.bevents ++ [BEvent.terminate c] := by
  unfold backendTerminate; simp only []
  split <;> simp

theorem sessOf_withBev (s : BState) (l : List BEvent) (d : ConnId) :
    ({ s with bevents := l } : BState).sessOf d = s.sessOf d := rfl
theorem conn?_withBev (s : BState) (l : List BEvent) (d : ConnId) :
    ({ s with bevents := l } : BState).conn? d = s.conn? d := rfl
theorem setSessOf_withBev (s : BState) (l : List BEvent) (d : ConnId) (b : BSess) :
    ({ s with bevents := l } : BState).setSessOf d b = { s.setSessOf d b with bevents := l } := by
  unfold BState.setSessOf BState.conn?
  simp only []
  split
  · split <;> rfl
  · rfl

theorem bt_stored (s : BState) (d : ConnId) :
    (backendTerminate s d).stored =
      match s.sessOf d with
      | some b => (s.setSessOf d { b with active := none }).stored
      | none => s.stored := by
  unfold backendTerminate
  simp only [sessOf_withBev]
  cases hs : s.sessOf d with
  | none => rfl
  | some b => simp only [setSessOf_withBev]

theorem bt_temp (s : BState) (d : ConnId) :
    (backendTerminate s d).temp =
      match s.sessOf d with
      | some b => Assoc.del (s.setSessOf d { b with active := none }).temp d
      | none => Assoc.del s.temp d := by
  unfold backendTerminate
  simp only [sessOf_withBev]
  cases hs : s.sessOf d with
  | none => rfl
  | some b => simp only [setSessOf_withBev]

theorem bt_ac {s : BState} {d : ConnId} {x : BConn} (h : s.conn? d = some x) :
    (backendTerminate s d).activeClients =
      if Assoc.get s.activeClients x.id = some d then Assoc.del s.activeClients x.id else s.activeClients := by
  have h' : Assoc.get s.conns d = some x := h
  rcases hs : s.sessOf d with _ | b
  · unfold backendTerminate
    simp only [sessOf_withBev, hs, conn?_withBev, h]
  · unfold backendTerminate
    simp only [sessOf_withBev, hs, setSessOf_withBev, BState.conn?, setSessOf_conns, setSessOf_ac, h']

theorem bt_stored_get {s : BState} {d : ConnId} {x : BConn} (h : s.conn? d = some x) (k : ClientId) :
    Assoc.get (backendTerminate s d).stored k =
      if x.sref = .stored k then (Assoc.get s.stored k).map (fun b => { b with active := none })
      else Assoc.get s.stored k := by
  rw [bt_stored, sessOf_of_conn h]
  cases hr : x.sref with
  | none => simp
  | temp =>
    simp only []
    cases hg : Assoc.get s.temp d with
    | none => simp
    | some b => simp [setSessOf_of_conn h, hr]
  | stored i =>
    simp only []
    cases hg : Assoc.get s.stored i with
    | none =>
      by_cases hk : i = k
      · subst hk; simp [hg]
      · simp [hk]
    | some b =>
      simp only [setSessOf_of_conn h, hr, get_set]
      by_cases hk : k = i
      · subst hk; simp [hg]
      · have : ¬ i = k := fun h => hk h.symm
        simp [hk, this]

theorem bt_temp_get (s : BState) (d k : ConnId) :
    Assoc.get (backendTerminate s d).temp k = if k = d then none else Assoc.get s.temp k := by
  rw [bt_temp]
  by_cases hk : k = d
  · subst hk
    cases hs : s.sessOf k <;> simp [get_del]
  · cases hs : s.sessOf d with
    | none => simp [get_del, hk]
    | some b =>
      simp only [get_del, hk, if_false]
      cases hc : s.conn? d with
      | none => unfold BState.sessOf at hs; rw [hc] at hs; cases hs
      | some x =>
        rw [setSessOf_of_conn hc]
        cases x.sref with
        | none => rfl
        | temp => simp [get_set, hk]
        | stored i => rfl

/-! ### the inductive invariant behind C13 -/

theorem core_eq_iff {x x' : BConn} : core x' = core x ↔
    x'.phase = x.phase ∧ x'.alive = x.alive ∧ x'.id = x.id ∧ x'.sref = x.sref ∧ x'.stalled = x.stalled ∧
      x'.zombie = x.zombie := by
  simp [core]

/-- same life-cycle data: connection cores, session owners, the active-client map -/
structure CoreEq (s s' : BState) : Prop where
  ac : s'.activeClients = s.activeClients
  conn : ∀ e, ORel (fun x x' => core x' = core x) (s.conn? e) (s'.conn? e)
  stored : ∀ k, ORel (fun b b' => b'.active = b.active) (Assoc.get s.stored k) (Assoc.get s'.stored k)
  temp : ∀ k, ORel (fun b b' => b'.active = b.active) (Assoc.get s.temp k) (Assoc.get s'.temp k)

theorem actRel_refl (o : Option BSess) : ORel (fun b b' : BSess => b'.active = b.active) o o := by
  cases o <;> simp [ORel]

theorem actRel_trans {o1 o2 o3 : Option BSess}
    (h1 : ORel (fun b b' : BSess => b'.active = b.active) o1 o2)
    (h2 : ORel (fun b b' : BSess => b'.active = b.active) o2 o3) :
    ORel (fun b b' : BSess => b'.active = b.active) o1 o3 := by
  cases o1 <;> cases o2 <;> cases o3 <;> simp_all [ORel]

theorem coreRel_trans {o1 o2 o3 : Option BConn}
    (h1 : ORel (fun x x' : BConn => core x' = core x) o1 o2)
    (h2 : ORel (fun x x' : BConn => core x' = core x) o2 o3) :
    ORel (fun x x' : BConn => core x' = core x) o1 o3 := by
  cases o1 <;> cases o2 <;> cases o3 <;> simp_all [ORel]

theorem CoreEq.refl (s : BState) : CoreEq s s :=
  ⟨rfl, fun _ => coreRel_refl _, fun _ => actRel_refl _, fun _ => actRel_refl _⟩

theorem CoreEq.trans {s1 s2 s3 : BState} (h1 : CoreEq s1 s2) (h2 : CoreEq s2 s3) : CoreEq s1 s3 :=
  ⟨h2.ac.trans h1.ac, fun e => coreRel_trans (h1.conn e) (h2.conn e),
   fun k => actRel_trans (h1.stored k) (h2.stored k), fun k => actRel_trans (h1.temp k) (h2.temp k)⟩

theorem Quiet.coreEq {c : ConnId} {S : ClientId → Prop} {s s' : BState} (h : Quiet c S s s') : CoreEq s s' := by
  refine ⟨h.ac, ?_, fun k => ORel.mono (fun _ _ h => h.1) (h.stored k), fun k => ORel.mono (fun _ _ h => h.1) (h.temp k)⟩
  intro e
  by_cases he : e = c
  · subst he; exact h.connC
  · rw [h.connO e he]; exact coreRel_refl _

/-- the part of the invariant that holds in every intermediate state as well -/
structure InvW (s : BState) : Prop where
  az : ∀ c x, s.conn? c = some x → x.alive = true → x.zombie = false
  o : ∀ c x, s.conn? c = some x → x.phase = .connecting → x.sref = .none
  st : ∀ c x i, s.conn? c = some x → (x.alive = true ∨ x.zombie = true) → x.sref = .stored i →
        x.id = i ∧ ∃ b, Assoc.get s.stored i = some b ∧ b.active = some c
  tm : ∀ c x, s.conn? c = some x → (x.alive = true ∨ x.zombie = true) → x.sref = .temp →
        (∃ b, Assoc.get s.temp c = some b ∧ b.active = some c) ∧
        (x.id ≠ [] → Assoc.get s.activeClients x.id = some c ∧ Assoc.get s.stored x.id = none)

theorem InvW.of_coreEq {s s' : BState} (h : InvW s) (he : CoreEq s s') : InvW s' := by
  have conn : ∀ c x', s'.conn? c = some x' → ∃ x, s.conn? c = some x ∧ core x' = core x := by
    intro c x' hc
    have := he.conn c; rw [hc] at this
    exact this.some_right
  constructor
  · intro c x' hc ha
    obtain ⟨x, hx, hcore⟩ := conn c x' hc
    obtain ⟨_, hal, _, _, _, hz⟩ := core_eq_iff.1 hcore
    rw [hz]; exact h.az c x hx (hal ▸ ha)
  · intro c x' hc hp
    obtain ⟨x, hx, hcore⟩ := conn c x' hc
    obtain ⟨hph, _, _, hsr, _, _⟩ := core_eq_iff.1 hcore
    rw [hsr]; exact h.o c x hx (hph ▸ hp)
  · intro c x' i hc hl hs
    obtain ⟨x, hx, hcore⟩ := conn c x' hc
    obtain ⟨_, hal, hid, hsr, _, hz⟩ := core_eq_iff.1 hcore
    obtain ⟨h1, b, hb, hba⟩ := h.st c x i hx (by rw [← hal, ← hz]; exact hl) (hsr ▸ hs)
    have := he.stored i; rw [hb] at this
    obtain ⟨b', hb', hact⟩ := this.some_left
    exact ⟨hid ▸ h1, b', hb', hact.trans hba⟩
  · intro c x' hc hl hs
    obtain ⟨x, hx, hcore⟩ := conn c x' hc
    obtain ⟨_, hal, hid, hsr, _, hz⟩ := core_eq_iff.1 hcore
    obtain ⟨⟨b, hb, hba⟩, h2⟩ := h.tm c x hx (by rw [← hal, ← hz]; exact hl) (hsr ▸ hs)
    have := he.temp c; rw [hb] at this
    obtain ⟨b', hb', hact⟩ := this.some_left
    refine ⟨⟨b', hb', hact.trans hba⟩, fun hne => ?_⟩
    obtain ⟨h3, h4⟩ := h2 (hid ▸ hne)
    rw [hid, he.ac]
    refine ⟨h3, ?_⟩
    have := he.stored x.id; rw [h4] at this
    exact this.none_left

/-- `d` is the owner of the stored session it refers to (if that exists) -/
def Owns (s : BState) (d : ConnId) : Prop :=
  ∀ x i b, s.conn? d = some x → x.sref = .stored i → Assoc.get s.stored i = some b → b.active = some d

theorem Owns.of_coreEq {s s' : BState} {d : ConnId} (h : Owns s d) (he : CoreEq s s') : Owns s' d := by
  intro x' i b' hc hs hb
  have h1 := he.conn d; rw [hc] at h1
  obtain ⟨x, hx, hcore⟩ := h1.some_right
  have h2 := he.stored i; rw [hb] at h2
  obtain ⟨b, hb0, hact⟩ := h2.some_right
  rw [hact]
  exact h x i b hx ((core_eq_iff.1 hcore).2.2.2.1 ▸ hs) hb0

theorem InvW.owns {s : BState} (h : InvW s) {d : ConnId} {x : BConn} (hc : s.conn? d = some x)
    (hl : x.alive = true ∨ x.zombie = true) : Owns s d := by
  intro x' i b hc' hs hb
  rw [hc] at hc'; cases hc'
  obtain ⟨_, b0, hb0, hact⟩ := h.st d x i hc hl hs
  rw [hb] at hb0; cases hb0; exact hact

/-- rewriting the record of `d` without touching what the invariant is about -/
theorem InvW.setConn {s : BState} (h : InvW s) {d : ConnId} {x x' : BConn} (hc : s.conn? d = some x)
    (hp : x'.phase = .connecting → x.phase = .connecting) (hs : x'.sref = x.sref) (hi : x'.id = x.id)
    (ha : x'.alive = true → x'.zombie = false)
    (hl : x'.alive = true ∨ x'.zombie = true → x.alive = true ∨ x.zombie = true) : InvW (s.setConn d x') := by
  constructor
  · intro c y hy hal
    rw [conn?_setConn] at hy
    split at hy
    · cases hy; exact ha hal
    · exact h.az c y hy hal
  · intro c y hy hph
    rw [conn?_setConn] at hy
    split at hy
    · cases hy; rename_i hcd; subst hcd; rw [hs]; exact h.o _ x hc (hp hph)
    · exact h.o c y hy hph
  · intro c y i hy hlv hsr
    rw [conn?_setConn] at hy
    split at hy
    · cases hy; rename_i hcd; subst hcd
      have := h.st _ x i hc (hl hlv) (hs ▸ hsr)
      rw [hi]; exact this
    · exact h.st c y i hy hlv hsr
  · intro c y hy hlv hsr
    rw [conn?_setConn] at hy
    split at hy
    · cases hy; rename_i hcd; subst hcd
      have := h.tm _ x hc (hl hlv) (hs ▸ hsr)
      rw [hi]; exact this
    · exact h.tm c y hy hlv hsr

/-- a record without session reference can be written anywhere -/
theorem InvW.setConn_none {s : BState} (h : InvW s) (d : ConnId) {x' : BConn}
    (hs : x'.sref = .none) (ha : x'.alive = true → x'.zombie = false) : InvW (s.setConn d x') := by
  constructor
  · intro c y hy hal
    rw [conn?_setConn] at hy
    split at hy
    · cases hy; exact ha hal
    · exact h.az c y hy hal
  · intro c y hy hph
    rw [conn?_setConn] at hy
    split at hy
    · cases hy; exact hs
    · exact h.o c y hy hph
  · intro c y i hy hlv hsr
    rw [conn?_setConn] at hy
    split at hy
    · cases hy; rw [hs] at hsr; cases hsr
    · exact h.st c y i hy hlv hsr
  · intro c y hy hlv hsr
    rw [conn?_setConn] at hy
    split at hy
    · cases hy; rw [hs] at hsr; cases hsr
    · exact h.tm c y hy hlv hsr

/-- `Terminate` of a connection that is neither alive nor waiting for its cleanup any more -/
theorem InvW.terminate {s : BState} (h : InvW s) {d : ConnId} {x : BConn} (hc : s.conn? d = some x)
    (hna : x.alive = false) (hnz : x.zombie = false) (hown : Owns s d) : InvW (backendTerminate s d) := by
  have hne : ∀ c y, s.conn? c = some y → (y.alive = true ∨ y.zombie = true) → c ≠ d := by
    intro c y hy hl hcd
    subst hcd; rw [hc] at hy; cases hy
    rcases hl with hl | hl
    · rw [hna] at hl; cases hl
    · rw [hnz] at hl; cases hl
  constructor
  · intro c y hy; rw [bt_conn?] at hy; exact h.az c y hy
  · intro c y hy; rw [bt_conn?] at hy; exact h.o c y hy
  · intro c y i hy hl hsr
    rw [bt_conn?] at hy
    obtain ⟨h1, b, hb, hact⟩ := h.st c y i hy hl hsr
    refine ⟨h1, ?_⟩
    rw [bt_stored_get hc]
    by_cases hx : x.sref = .stored i
    · have := hown x i b hc hx hb
      rw [hact] at this; cases this
      exact absurd rfl (hne _ y hy hl)
    · rw [if_neg hx]; exact ⟨b, hb, hact⟩
  · intro c y hy hl hsr
    rw [bt_conn?] at hy
    have hcd := hne c y hy hl
    obtain ⟨⟨b, hb, hact⟩, h2⟩ := h.tm c y hy hl hsr
    refine ⟨⟨b, by rw [bt_temp_get, if_neg hcd]; exact hb, hact⟩, fun hid => ?_⟩
    obtain ⟨h3, h4⟩ := h2 hid
    constructor
    · rw [bt_ac hc]
      split
      · rename_i hdel
        rw [get_del]
        by_cases hk : y.id = x.id
        · rw [hk] at h3; rw [h3] at hdel; cases hdel; exact absurd rfl hcd
        · rw [if_neg hk]; exact h3
      · exact h3
    · rw [bt_stored_get hc]
      split
      · rw [h4]; rfl
      · exact h4

theorem conn?_of_conns {s s' : BState} (h : s'.conns = s.conns) (e : ConnId) : s'.conn? e = s.conn? e := by
  unfold BState.conn?; rw [h]

theorem termIf_conn? (x : BConn) (s : BState) (d e : ConnId) : (termIf x s d).conn? e = s.conn? e := by
  unfold termIf; split <;> simp

/-- `cleanup` of a connection that is neither alive nor a zombie keeps the invariant -/
theorem cleanup_invW {s : BState} (h : InvW s) {d : ConnId} {x0 : BConn} (hc : s.conn? d = some x0)
    (hna : x0.alive = false) (hnz : x0.zombie = false) (hown : Owns s d) (x : BConn) :
    RAll InvW (cleanup s d x) := by
  apply cleanup_rule
  intro s2 hq _ hcn
  have hce := (hq (fun _ => True)).coreEq
  have h2 := h.of_coreEq hce
  unfold termIf
  split
  · have hc2 : s2.conn? d = some x0 := by rw [conn?_of_conns hcn]; exact hc
    exact h2.terminate hc2 hna hnz (hown.of_coreEq hce)
  · exact h2

/-- closing a connection keeps the invariant -/
theorem kill_invW {s : BState} (h : InvW s) (d : ConnId) : RAll InvW (kill s d) := by
  apply kill_rule
  · intro _; exact h
  · intro _ _ _; exact h
  · intro x hc ha s1 hq _ hcn
    have hce := (hq (fun _ => True) (fun _ _ => trivial)).coreEq
    have h1 := h.of_coreEq hce
    have hc1 : s1.conn? d = some x := by rw [conn?_of_conns hcn]; exact hc
    have hz := h.az d x hc ha
    constructor
    · intro _
      exact h1.setConn hc1 (fun hp => hp) rfl rfl (fun ha' => by simp [zombieRec] at ha') (fun _ => Or.inl ha)
    · intro _
      have h2 : InvW (s1.setConn d (deadRec x)) :=
        h1.setConn hc1 (fun hp => hp) rfl rfl (fun ha' => by simp [deadRec] at ha') (fun _ => Or.inl ha)
      have hown : Owns (s1.setConn d (deadRec x)) d := by
        have := (h.owns hc (Or.inl ha)).of_coreEq hce
        intro y i b hy hs hb
        simp only [conn?_setConn, if_true] at hy
        cases hy
        exact this x i b hc1 hs hb
      exact cleanup_invW (x0 := deadRec x) h2 (by simp) (by simp [deadRec]) (by simp [deadRec, hz]) hown x

/-- what `kill` does to the connection records: only `d` changes, and `d` ends up closed -/
structure KillConns (s : BState) (d : ConnId) (s' : BState) : Prop where
  other : ∀ e, e ≠ d → s'.conn? e = s.conn? e
  absent : s.conn? d = none → s'.conn? d = none
  dead : ∀ x, s.conn? d = some x → x.alive = false → s'.conn? d = some x
  live : ∀ x, s.conn? d = some x → x.alive = true →
     s'.conn? d = some (if x.stalled then zombieRec x else deadRec x)

theorem KillConns.refl_of_none {s : BState} {d : ConnId} (hn : s.conn? d = none) : KillConns s d s :=
  ⟨fun _ _ => rfl, fun _ => hn, fun x hx => (by rw [hn] at hx; cases hx), fun x hx => (by rw [hn] at hx; cases hx)⟩

theorem KillConns.refl_of_dead {s : BState} {d : ConnId} {x : BConn} (hc : s.conn? d = some x)
    (ha : x.alive = false) : KillConns s d s :=
  ⟨fun _ _ => rfl, fun hn => (by rw [hn] at hc; cases hc), fun _ hx _ => hx,
   fun y hy hya => (by rw [hc] at hy; cases hy; rw [ha] at hya; cases hya)⟩

theorem KillConns.of_live {s s' : BState} {d : ConnId} {x : BConn} (hc : s.conn? d = some x)
    (ha : x.alive = true) (ho : ∀ e, e ≠ d → s'.conn? e = s.conn? e)
    (hd : s'.conn? d = some (if x.stalled then zombieRec x else deadRec x)) : KillConns s d s' :=
  ⟨ho, fun hn => (by rw [hn] at hc; cases hc),
   fun y hy hya => (by rw [hc] at hy; cases hy; rw [ha] at hya; cases hya),
   fun y hy _ => (by rw [hc] at hy; cases hy; exact hd)⟩

theorem kill_conns (s : BState) (d : ConnId) : RAll (KillConns s d) (kill s d) := by
  apply kill_rule
  · intro hn; exact KillConns.refl_of_none hn
  · intro x hc ha; exact KillConns.refl_of_dead hc ha
  · intro x hc ha s1 _ _ hcn
    constructor
    · intro hst
      apply KillConns.of_live hc ha
      · intro e he; simp [he, conn?_of_conns hcn]
      · simp [hst]
    · intro hst
      apply cleanup_rule
      intro s2 _ _ hcn2
      apply KillConns.of_live hc ha
      · intro e he; rw [termIf_conn?, conn?_of_conns hcn2]; simp [he, conn?_of_conns hcn]
      · rw [termIf_conn?, conn?_of_conns hcn2]; simp [hst]

/-- boundary part of the invariant: an accepted live connection has a session -/
def NSess (s : BState) : Prop :=
  ∀ c x, s.conn? c = some x → x.alive = true → x.phase = .connected → x.sref ≠ .none

theorem NSess.of_coreEq {s s' : BState} (h : NSess s) (he : CoreEq s s') : NSess s' := by
  intro c x' hc ha hp
  have := he.conn c; rw [hc] at this
  obtain ⟨x, hx, hcore⟩ := this.some_right
  obtain ⟨hph, hal, _, hsr, _, _⟩ := core_eq_iff.1 hcore
  rw [hsr]; exact h c x hx (hal ▸ ha) (hph ▸ hp)

theorem NSess.of_killConns {s s' : BState} {d : ConnId} (h : NSess s) (hk : KillConns s d s') : NSess s' := by
  intro c x' hc ha hp
  by_cases hcd : c = d
  · subst hcd
    cases hx : s.conn? c with
    | none => rw [hk.absent hx] at hc; cases hc
    | some x =>
      cases hal : x.alive with
      | false => rw [hk.dead x hx hal] at hc; cases hc; rw [hal] at ha; cases ha
      | true =>
        rw [hk.live x hx hal] at hc; cases hc
        split at ha <;> simp [zombieRec, deadRec] at ha
  · rw [hk.other c hcd] at hc; exact h c x' hc ha hp

/-- the invariant at step boundaries -/
def Inv (s : BState) : Prop := InvW s ∧ NSess s

theorem kill_inv {s : BState} (h : Inv s) (d : ConnId) : RAll Inv (kill s d) :=
  RAll_mono (RAll_and (kill_invW h.1 d) (kill_conns s d)) (fun _ hh => ⟨hh.1, h.2.of_killConns hh.2⟩)

/-! ### the shape of `recv` -/

/-- membership in a result -/
def RMem (s' : BState) : Res → Prop
  | .ok ss => s' ∈ ss
  | .unsupported _ => False

theorem RAll_iff {P : BState → Prop} {r : Res} : RAll P r ↔ ∀ s', RMem s' r → P s' := by
  cases r <;> simp [RAll, RMem]

theorem RMem_one {s s' : BState} : RMem s' (Res.one s) ↔ s' = s := by simp [RMem, Res.one]

/-- connection `c` exists and `S` contains the key of its stored session -/
def HasC (c : ConnId) (S : ClientId → Prop) (s : BState) : Prop :=
  ∃ x, s.conn? c = some x ∧ ∀ k, x.sref = .stored k → S k

theorem Quiet.hasC {c : ConnId} {S : ClientId → Prop} {s s' : BState} (h : HasC c S s) (hq : Quiet c S s s') :
    HasC c S s' := by
  obtain ⟨x, hx, hS⟩ := h
  have := hq.connC; rw [hx] at this
  obtain ⟨x', hx', hcore⟩ := this.some_left
  exact ⟨x', hx', fun k hk => hS k ((core_eq_iff.1 hcore).2.2.2.1 ▸ hk)⟩

theorem core_retake (x : BConn) : core (retake x) = core x := by
  unfold retake; split <;> rfl

theorem core_putDeq (cfg : Cfg) (x : BConn) : core (putDeq cfg x) = core x := by
  unfold putDeq; rw [core_retake]; split <;> rfl

theorem Quiet.setSessOf' {c : ConnId} {S : ClientId → Prop} {s : BState} {b b' : BSess}
    (h : HasC c S s) (hs : s.sessOf c = some b) (ha : b'.active = b.active) : Quiet c S s (s.setSessOf c b') := by
  obtain ⟨x, hx, hS⟩ := h
  exact Quiet.setSessOf hx hs hS ha

theorem Quiet.forgetIncoming {c : ConnId} {S : ClientId → Prop} {s : BState} (h : HasC c S s) (id : UInt16) :
    Quiet c S s (forgetIncoming c id s) := by
  unfold BState.forgetIncoming
  split
  · rename_i b hb; exact Quiet.setSessOf' h hb (by rfl)
  · exact Quiet.refl _ _ _

theorem Quiet.ackPre {c : ConnId} {S : ClientId → Prop} {s : BState} (h : HasC c S s) (q : Packet) :
    Quiet c S s (ackPre c q s) := by
  unfold BState.ackPre
  split
  · exact Quiet.forgetIncoming h _
  · exact Quiet.refl _ _ _

theorem Quiet.pending {c : ConnId} {S : ClientId → Prop} (s : BState) (l : List PendingAck) :
    Quiet c S s { s with pendingAcks := l } :=
  ⟨rfl, rfl, rfl, fun _ _ => rfl, coreRel_refl _, fun _ => ORel.refl (SessChg.refl _) _,
   fun _ => ORel.refl (SessChg.refl _) _, ⟨[], by simp, by simp⟩⟩

theorem Quiet.ackVia {c : ConnId} {S : ClientId → Prop} {s : BState} (p : Packet) {pre : BState → BState}
    (hpre : Quiet c S s (pre s)) : Quiet c S s (ackVia s c p pre) := by
  unfold BState.ackVia
  split
  · exact Quiet.refl _ _ _
  · split
    · exact Quiet.pending s _
    · refine hpre.trans (Quiet.updConn ?_)
      intro x; split <;> rfl

theorem queueRetained_act {cfg : Cfg} {g : Nat} : ∀ (ms : List Message) (b b' : BSess),
    queueRetained cfg b ms g = some b' → b'.active = b.active := by
  intro ms
  induction ms with
  | nil => intro b b' h; simp [queueRetained] at h; rw [← h]
  | cons m rest ih =>
    intro b b' h
    simp only [queueRetained] at h
    split at h
    · have := ih _ _ h; exact this
    · cases h

theorem subscribeRetained_quiet {c : ConnId} {S : ClientId → Prop} : ∀ (subs : List Subscription) (s : BState),
    HasC c S s → R1All (Quiet c S s) (subscribeRetained s c subs) := by
  intro subs
  induction subs with
  | nil => intro s _; exact Quiet.refl _ _ _
  | cons sub rest ih =>
    intro s h
    simp only [subscribeRetained]
    split
    · exact Quiet.refl _ _ _
    · rename_i b hb
      split
      · rename_i b' hq
        have q1 : Quiet c S s (s.setSessOf c b') := Quiet.setSessOf' h hb (queueRetained_act _ _ _ hq)
        have q2 : Quiet c S s { (s.setSessOf c b') with nextGroup := s.nextGroup + 1 } :=
          q1.trans ⟨rfl, rfl, rfl, fun _ _ => rfl, coreRel_refl _, fun _ => ORel.refl (SessChg.refl _) _,
            fun _ => ORel.refl (SessChg.refl _) _, ⟨[], by simp, by simp⟩⟩
        have := ih _ (q2.hasC h)
        cases hr : subscribeRetained { (s.setSessOf c b') with nextGroup := s.nextGroup + 1 } c rest with
        | ok s' => rw [hr] at this; exact q2.trans this
        | queueFull s' => rw [hr] at this; exact q2.trans this
        | unsupported e => trivial
      · exact Quiet.refl _ _ _

/-- a quiet stretch, possibly followed by `c` being closed -/
def QK (c : ConnId) (S : ClientId → Prop) (s s' : BState) : Prop :=
  ∃ s1, Quiet c S s s1 ∧ (s' = s1 ∨ RMem s' (kill s1 c))

theorem QK.one {c : ConnId} {S : ClientId → Prop} {s s1 : BState} (h : Quiet c S s s1) :
    RAll (QK c S s) (Res.one s1) := RAll_one.2 ⟨s1, h, Or.inl rfl⟩

theorem QK.kill {c : ConnId} {S : ClientId → Prop} {s s1 : BState} (h : Quiet c S s s1) :
    RAll (QK c S s) (kill s1 c) := RAll_iff.2 (fun s' hm => ⟨s1, h, Or.inr hm⟩)

theorem QK.publishThen {c : ConnId} {S : ClientId → Prop} {s s1 : BState} (m : Message) {k : BState → Res}
    (h : Quiet c S s s1) (hk : ∀ s2, Quiet c S s s2 → RAll (QK c S s) (k s2)) :
    RAll (QK c S s) (publishThen s1 c m k) := by
  unfold BState.publishThen
  have := backendPublish_quiet s1 c m S
  cases hb : backendPublish s1 c m with
  | ok s2 => rw [hb] at this; exact hk s2 (h.trans this)
  | queueFull s2 => rw [hb] at this; exact QK.kill (h.trans this)
  | unsupported e => trivial

theorem foldl_unsub_active (topics : List Bytes) (b : BSess) :
    (topics.foldl (fun b t => { b with subs := Tree.emptyTopic t b.subs }) b).active = b.active := by
  induction topics generalizing b with
  | nil => rfl
  | cons t rest ih => simp only [List.foldl_cons]; rw [ih]

theorem foldl_sub_active (subs : List Subscription) (b : BSess) :
    (subs.foldl (fun b sub => { b with subs := Tree.set sub.topic sub.qos.toNat b.subs }) b).active = b.active := by
  induction subs generalizing b with
  | nil => rfl
  | cons t rest ih => simp only [List.foldl_cons]; rw [ih]

/-- every packet other than CONNECT / DISCONNECT handled for an accepted connection: a quiet
    stretch, then possibly the connection itself is closed -/
theorem recv_connected {s : BState} {c : ConnId} {x : BConn} {S : ClientId → Prop} (p : Packet)
    (hc : s.conn? c = some x) (ha : x.alive = true) (hp : x.phase = .connected)
    (hS : ∀ k, x.sref = .stored k → S k) (hnd : p ≠ .disconnect) :
    RAll (QK c S s) (recv s c p) := by
  have hC : HasC c S s := ⟨x, hc, hS⟩
  have qset : ∀ x', core x' = core x → Quiet c S s (s.setConn c x') := fun x' h' => Quiet.setConn hc h'
  cases p with
  | connect => unfold recv; simp only [hc, ha, hp, Bool.not_true, Bool.false_eq_true, if_false]; exact QK.kill (Quiet.refl _ _ _)
  | connack => unfold recv; simp only [hc, ha, hp, Bool.not_true, Bool.false_eq_true, if_false]; exact QK.kill (Quiet.refl _ _ _)
  | suback => unfold recv; simp only [hc, ha, hp, Bool.not_true, Bool.false_eq_true, if_false]; exact QK.kill (Quiet.refl _ _ _)
  | unsuback => unfold recv; simp only [hc, ha, hp, Bool.not_true, Bool.false_eq_true, if_false]; exact QK.kill (Quiet.refl _ _ _)
  | pingresp => unfold recv; simp only [hc, ha, hp, Bool.not_true, Bool.false_eq_true, if_false]; exact QK.kill (Quiet.refl _ _ _)
  | disconnect => exact absurd rfl hnd
  | pingreq =>
    unfold recv; simp only [hc, ha, hp, Bool.not_true, Bool.false_eq_true, if_false]
    exact QK.one (Quiet.updConn (fun _ => rfl))
  | pubrec id =>
    unfold recv; simp only [hc, ha, hp, Bool.not_true, Bool.false_eq_true, if_false]
    split
    · trivial
    · rename_i b hb
      exact QK.one ((Quiet.setSessOf' hC hb (by rfl)).trans (Quiet.updConn (fun _ => rfl)))
  | puback id =>
    unfold recv; simp only [hc, ha, hp, Bool.not_true, Bool.false_eq_true, if_false]
    split
    · trivial
    · rename_i b hb
      exact QK.one ((Quiet.setSessOf' hC hb (by rfl)).trans (Quiet.updConn (fun _ => core_putDeq _ _)))
  | pubcomp id =>
    unfold recv; simp only [hc, ha, hp, Bool.not_true, Bool.false_eq_true, if_false]
    split
    · trivial
    · rename_i b hb
      exact QK.one ((Quiet.setSessOf' hC hb (by rfl)).trans (Quiet.updConn (fun _ => core_putDeq _ _)))
  | pubrel id =>
    unfold recv; simp only [hc, ha, hp, Bool.not_true, Bool.false_eq_true, if_false]
    split
    · trivial
    · rename_i b hb
      split
      · apply QK.publishThen _ (Quiet.refl _ _ _)
        intro s2 q2
        exact QK.one (q2.trans (Quiet.ackVia _ (Quiet.ackPre (q2.hasC hC) _)))
      · exact QK.one (Quiet.updConn (fun _ => rfl))
  | unsubscribe topics id =>
    unfold recv; simp only [hc, ha, hp, Bool.not_true, Bool.false_eq_true, if_false]
    split
    · trivial
    · have q1 := qset { x with phase := .connected, alive := true, subTok := x.subTok - 1 } (by simp [core, hp, ha])
      split
      · trivial
      · rename_i b hb
        have q2 := q1.trans (Quiet.setSessOf' (b' := topics.foldl (fun b t => { b with subs := Tree.emptyTopic t b.subs }) b) (q1.hasC hC) hb ?_)
        · exact QK.one (q2.trans (Quiet.ackVia _ (Quiet.refl _ _ _)))
        · exact foldl_unsub_active topics b
  | subscribe subs id =>
    unfold recv; simp only [hc, ha, hp, Bool.not_true, Bool.false_eq_true, if_false]
    split
    · trivial
    · have q1 := qset { x with phase := .connected, alive := true, subTok := x.subTok - 1 } (by simp [core, hp, ha])
      split
      · trivial
      · rename_i b hb
        have q2 := q1.trans (Quiet.setSessOf' (b' := subs.foldl (fun b sub => { b with subs := Tree.set sub.topic sub.qos.toNat b.subs }) b) (q1.hasC hC) hb ?_)
        · have q3 := q2.trans (Quiet.ackVia (.suback (subs.map (·.qos)) id) (pre := fun s => s) (Quiet.refl _ _ _))
          have := subscribeRetained_quiet (c := c) (S := S) subs _ (q3.hasC hC)
          split
          · rename_i s' hr; rw [hr] at this; exact QK.one (q3.trans this)
          · rename_i s' hr; rw [hr] at this; exact QK.kill (q3.trans this)
          · trivial
        · exact foldl_sub_active subs b
  | publish m dup id =>
    unfold recv; simp only [hc, ha, hp, Bool.not_true, Bool.false_eq_true, if_false]
    split
    · exact QK.publishThen _ (Quiet.refl _ _ _) (fun s2 q2 => QK.one q2)
    · split
      · trivial
      · have q1 := qset { x with phase := .connected, alive := true, pubTok := x.pubTok - 1 } (by simp [core, hp, ha])
        split
        · apply QK.publishThen _ q1
          intro s2 q2
          exact QK.one (q2.trans (Quiet.ackVia _ (Quiet.refl _ _ _)))
        · split
          · trivial
          · rename_i b hb
            exact QK.one ((q1.trans (Quiet.setSessOf' (q1.hasC hC) hb (by rfl))).trans (Quiet.updConn (fun _ => rfl)))

/-! ### CONNECT: take-over and installation of the session -/

/-- the connection that holds the session for client id `id` (what `Setup` looks up) -/
def holder (s : BState) (id : ClientId) : Option ConnId :=
  match Assoc.get s.stored id with
  | some b => b.active
  | none => (match Assoc.get s.activeClients id with
             | some oc => (match Assoc.get s.temp oc with | some b => b.active | none => none)
             | none => none)

/-- the awaited old connection did not finish dying -/
def stuck (s : BState) (o : Option ConnId) : Bool :=
  match o with
  | some oc => (match s.conn? oc with | some ox => ox.zombie | none => false)
  | none => false

def installAnon (s : BState) (c : ConnId) (x : BConn) (will : Option Message) : BState :=
  let b := newSess c
  let s := { s with temp := Assoc.set s.temp c b, bevents := s.bevents ++ [BEvent.setup c false] }
  let x := startConn s.cfg { x with sref := .temp, will := will, running := true,
                                    procOut := x.procOut ++ [.connack false 0] }
  s.setConn c (retake x)

def installClean (s : BState) (c : ConnId) (x : BConn) (id : ClientId) (will : Option Message) : BState :=
  let b := newSess c
  let s := { s with stored := Assoc.del s.stored id, temp := Assoc.set s.temp c b,
                    activeClients := Assoc.set s.activeClients id c,
                    bevents := s.bevents ++ [BEvent.setup c false] }
  let x := startConn s.cfg { x with sref := .temp, will := will, running := true,
                                    procOut := x.procOut ++ [.connack false 0] }
  s.setConn c (retake x)

def installResume (s : BState) (c : ConnId) (x : BConn) (id : ClientId) (will : Option Message) (b : BSess) : BState :=
  let b := { b with tempQ := [], active := some c }
  let x := startConn s.cfg { x with sref := .stored id, will := will, running := true,
                                    procOut := x.procOut ++ [.connack true 0] }
  let (b, x) := resend b x
  let s := { s with stored := Assoc.set s.stored id b,
                    activeClients := Assoc.set s.activeClients id c,
                    bevents := s.bevents ++ [BEvent.setup c true] }
  s.setConn c (retake x)

def installFresh (s : BState) (c : ConnId) (x : BConn) (id : ClientId) (will : Option Message) : BState :=
  let b := newSess c
  let s := { s with stored := Assoc.set s.stored id b,
                    activeClients := Assoc.set s.activeClients id c,
                    bevents := s.bevents ++ [BEvent.setup c false] }
  let x := startConn s.cfg { x with sref := .stored id, will := will, running := true,
                                    procOut := x.procOut ++ [.connack false 0] }
  s.setConn c (retake x)

theorem setupAndConnack_eq (s : BState) (c : ConnId) (x : BConn) (id : ClientId) (clean : Bool)
    (will : Option Message) :
    setupAndConnack s c x id clean will =
      (let x1 : BConn := { x with phase := .connected, id := id }
       let s1 := s.setConn c x1
       if s1.closing then kill s1 c else
       if id.length = 0 then .one (installAnon s1 c x1 will) else
       Res.bind (match holder s1 id with | some oc => kill s1 oc | none => .one s1) fun s2 =>
         if stuck s2 (holder s1 id) then kill s2 c else
         if clean then .one (installClean s2 c x1 id will) else
         match Assoc.get s2.stored id with
         | some b => .one (installResume s2 c x1 id will b)
         | none => .one (installFresh s2 c x1 id will)) := by
  rfl

/-- fields of the connection record that starting the goroutines leaves alone -/
structure Kept (y y' : BConn) : Prop where
  alive : y'.alive = y.alive
  phase : y'.phase = y.phase
  id : y'.id = y.id
  sref : y'.sref = y.sref
  zombie : y'.zombie = y.zombie
  stalled : y'.stalled = y.stalled
  will : y'.will = y.will
  ackOut : y'.ackOut = y.ackOut
  closedSeen : y'.closedSeen = y.closedSeen
  procOut : y'.procOut = y.procOut

theorem kept_retake (y : BConn) : Kept y (retake y) := by
  unfold retake; split <;> exact ⟨rfl, rfl, rfl, rfl, rfl, rfl, rfl, rfl, rfl, rfl⟩

theorem kept_startConn (cfg : Cfg) (y : BConn) : Kept y (startConn cfg y) :=
  ⟨rfl, rfl, rfl, rfl, rfl, rfl, rfl, rfl, rfl, rfl⟩

theorem Kept.trans {a b c : BConn} (h1 : Kept a b) (h2 : Kept b c) : Kept a c :=
  ⟨h2.alive.trans h1.alive, h2.phase.trans h1.phase, h2.id.trans h1.id, h2.sref.trans h1.sref,
   h2.zombie.trans h1.zombie, h2.stalled.trans h1.stalled, h2.will.trans h1.will, h2.ackOut.trans h1.ackOut,
   h2.closedSeen.trans h1.closedSeen, h2.procOut.trans h1.procOut⟩

/-- installing a session for `c`: only the keys in `K` of the stored sessions / the active-client
    map and the temporary session of `c` change, and nobody who is still around uses those -/
theorem InvW.install {s : BState} (h : InvW s) (c : ConnId) (K : ClientId → Prop) {s' : BState} {x' : BConn}
    (hconn : ∀ e, s'.conn? e = if e = c then some x' else s.conn? e)
    (hst : ∀ k, ¬K k → Assoc.get s'.stored k = Assoc.get s.stored k)
    (htm : ∀ k, k ≠ c → Assoc.get s'.temp k = Assoc.get s.temp k)
    (hac : ∀ k, ¬K k → Assoc.get s'.activeClients k = Assoc.get s.activeClients k)
    (hfree : ∀ e y, e ≠ c → s.conn? e = some y → (y.alive = true ∨ y.zombie = true) →
      (∀ i, y.sref = .stored i → ¬K i) ∧ (y.sref = .temp → y.id ≠ [] → ¬K y.id))
    (haz : x'.alive = true → x'.zombie = false) (hph : x'.phase ≠ .connecting)
    (hown : (x'.sref = .temp ∧ (∃ b, Assoc.get s'.temp c = some b ∧ b.active = some c) ∧
              (x'.id ≠ [] → Assoc.get s'.activeClients x'.id = some c ∧ Assoc.get s'.stored x'.id = none)) ∨
            (∃ i, x'.sref = .stored i ∧ x'.id = i ∧ ∃ b, Assoc.get s'.stored i = some b ∧ b.active = some c)) :
    InvW s' := by
  constructor
  · intro e y hy hal
    rw [hconn] at hy
    split at hy
    · cases hy; exact haz hal
    · exact h.az e y hy hal
  · intro e y hy hp
    rw [hconn] at hy
    split at hy
    · cases hy; exact absurd hp hph
    · exact h.o e y hy hp
  · intro e y i hy hl hs
    rw [hconn] at hy
    split at hy
    · cases hy; rename_i hec; subst hec
      rcases hown with ⟨ht, _⟩ | ⟨j, hj, hid, b, hb, hact⟩
      · rw [ht] at hs; cases hs
      · rw [hj] at hs; cases hs; exact ⟨hid, b, hb, hact⟩
    · rename_i hec
      obtain ⟨h1, b, hb, hact⟩ := h.st e y i hy hl hs
      refine ⟨h1, b, ?_, hact⟩
      rw [hst i ((hfree e y hec hy hl).1 i hs)]; exact hb
  · intro e y hy hl hs
    rw [hconn] at hy
    split at hy
    · cases hy; rename_i hec; subst hec
      rcases hown with ⟨_, h1, h2⟩ | ⟨j, hj, _⟩
      · exact ⟨h1, h2⟩
      · rw [hj] at hs; cases hs
    · rename_i hec
      obtain ⟨⟨b, hb, hact⟩, h2⟩ := h.tm e y hy hl hs
      refine ⟨⟨b, by rw [htm e hec]; exact hb, hact⟩, fun hid => ?_⟩
      have hk := (hfree e y hec hy hl).2 hs hid
      obtain ⟨h3, h4⟩ := h2 hid
      exact ⟨by rw [hac _ hk]; exact h3, by rw [hst _ hk]; exact h4⟩

/-- after the take-over (the old holder closed and not stuck) nobody who is still around uses the
    session or the active-client entry of `id` -/
theorem free_after {s1 s2 : BState} {id : ClientId} (h1 : InvW s1) (hid : id ≠ [])
    (hk : match holder s1 id with
          | some oc => KillConns s1 oc s2
          | none => s2 = s1)
    (hns : stuck s2 (holder s1 id) = false) :
    ∀ e y, s2.conn? e = some y → (y.alive = true ∨ y.zombie = true) →
      (y.sref ≠ .stored id) ∧ (y.sref = .temp → y.id ≠ id) := by
  -- anybody alive (or a zombie) in `s1` who uses `id` is the holder
  have key : ∀ e y, s1.conn? e = some y → (y.alive = true ∨ y.zombie = true) →
      (y.sref = .stored id ∨ (y.sref = .temp ∧ y.id = id)) → holder s1 id = some e := by
    intro e y hy hl hs
    rcases hs with hs | ⟨hs, hi⟩
    · obtain ⟨_, b, hb, hact⟩ := h1.st e y id hy hl hs
      simp [holder, hb, hact]
    · obtain ⟨⟨b, hb, hact⟩, h2⟩ := h1.tm e y hy hl hs
      obtain ⟨h3, h4⟩ := h2 (hi ▸ hid)
      rw [hi] at h3 h4
      simp [holder, h3, h4, hb, hact]
  intro e y hy hl
  suffices hh : ¬ (y.sref = .stored id ∨ (y.sref = .temp ∧ y.id = id)) from
    ⟨fun h => hh (Or.inl h), fun h1 h2 => hh (Or.inr ⟨h1, h2⟩)⟩
  intro hs
  cases hh : holder s1 id with
  | none =>
    rw [hh] at hk; simp only at hk; subst hk
    have := key e y hy hl hs
    rw [hh] at this; cases this
  | some oc =>
    rw [hh] at hk hns; simp only at hk
    by_cases heo : e = oc
    · subst heo
      -- the old holder is neither alive nor stuck after the kill
      simp only [stuck, hy] at hns
      cases hx : s1.conn? e with
      | none => rw [hk.absent hx] at hy; cases hy
      | some x =>
        cases hal : x.alive with
        | false =>
          rw [hk.dead x hx hal] at hy; cases hy
          rcases hl with hl | hl
          · rw [hal] at hl; cases hl
          · rw [hns] at hl; cases hl
        | true =>
          rw [hk.live x hx hal] at hy; cases hy
          rcases hl with hl | hl
          · split at hl <;> simp [zombieRec, deadRec] at hl
          · rw [hns] at hl; cases hl
    · rw [hk.other e heo] at hy
      have := key e y hy hl hs
      rw [hh] at this; cases this; exact heo rfl

theorem RMem_bind {r : Res} {f : BState → Res} {s' : BState} (h : RMem s' (Res.bind r f)) :
    ∃ s2, RMem s2 r ∧ RMem s' (f s2) := by
  cases hb : Res.bind r f with
  | unsupported w => rw [hb] at h; exact h.elim
  | ok out =>
    rw [hb] at h
    obtain ⟨ss, rfl⟩ := bind_ok_inv hb
    obtain ⟨s2, hs2, o, ho, hm⟩ := (mem_bind hb s').1 h
    exact ⟨s2, hs2, by rw [ho]; exact hm⟩

theorem RAll_of_RMem {P : BState → Prop} {r : Res} {s' : BState} (h : RAll P r) (hm : RMem s' r) : P s' :=
  RAll_iff.1 h s' hm

/-- the record of the newcomer while `Setup` runs -/
def acceptedRec (x : BConn) (id : ClientId) : BConn := { x with phase := .connected, id := id }

/-- the take-over: the holder of the session (if any) is closed and waited for -/
def TakeOver (s1 : BState) (id : ClientId) (s2 : BState) : Prop :=
  match holder s1 id with
  | some oc => RMem s2 (kill s1 oc)
  | none => s2 = s1

/-- the session installed for the newcomer once the way is free -/
def installNamed (s2 : BState) (c : ConnId) (x1 : BConn) (id : ClientId) (clean : Bool) (will : Option Message) :
    BState :=
  if clean then installClean s2 c x1 id will else
  match Assoc.get s2.stored id with
  | some b => installResume s2 c x1 id will b
  | none => installFresh s2 c x1 id will

/-- all possible outcomes of `processConnect` after authentication -/
inductive SetupShape (s : BState) (c : ConnId) (x : BConn) (id : ClientId) (clean : Bool) (will : Option Message)
    (s' : BState) : Prop where
  | closing : (s.setConn c (acceptedRec x id)).closing = true →
      RMem s' (kill (s.setConn c (acceptedRec x id)) c) → SetupShape s c x id clean will s'
  | anon : (s.setConn c (acceptedRec x id)).closing = false → id.length = 0 →
      s' = installAnon (s.setConn c (acceptedRec x id)) c (acceptedRec x id) will → SetupShape s c x id clean will s'
  | refused (s2 : BState) : (s.setConn c (acceptedRec x id)).closing = false → id.length ≠ 0 →
      TakeOver (s.setConn c (acceptedRec x id)) id s2 →
      stuck s2 (holder (s.setConn c (acceptedRec x id)) id) = true → RMem s' (kill s2 c) →
      SetupShape s c x id clean will s'
  | installed (s2 : BState) : (s.setConn c (acceptedRec x id)).closing = false → id.length ≠ 0 →
      TakeOver (s.setConn c (acceptedRec x id)) id s2 →
      stuck s2 (holder (s.setConn c (acceptedRec x id)) id) = false →
      s' = installNamed s2 c (acceptedRec x id) id clean will → SetupShape s c x id clean will s'

theorem setup_shape (s : BState) (c : ConnId) (x : BConn) (id : ClientId) (clean : Bool) (will : Option Message) :
    RAll (SetupShape s c x id clean will) (setupAndConnack s c x id clean will) := by
  rw [setupAndConnack_eq, RAll_iff]
  intro s' hm
  simp only [] at hm
  change RMem s' (if (s.setConn c (acceptedRec x id)).closing = true then _ else _) at hm
  split at hm
  · rename_i hcl; exact .closing hcl hm
  · rename_i hcl
    have hcl : (s.setConn c (acceptedRec x id)).closing = false := by simpa using hcl
    split at hm
    · rename_i hlen; exact .anon hcl hlen (RMem_one.1 hm)
    · rename_i hlen
      obtain ⟨s2, h2, hm⟩ := RMem_bind hm
      have hto : TakeOver (s.setConn c (acceptedRec x id)) id s2 := by
        unfold TakeOver
        split at h2
        · rename_i oc ho; rw [show holder (s.setConn c (acceptedRec x id)) id = some oc from ho]; exact h2
        · rename_i ho; rw [show holder (s.setConn c (acceptedRec x id)) id = none from ho]; exact RMem_one.1 h2
      split at hm
      · rename_i hst; exact .refused s2 hcl hlen hto hst hm
      · rename_i hst
        refine .installed s2 hcl hlen hto (Bool.eq_false_iff.2 hst) ?_
        unfold installNamed
        split at hm
        · rename_i hc; rw [if_pos hc]; exact RMem_one.1 hm
        · rename_i hc; rw [if_neg hc]
          split at hm
          · exact RMem_one.1 hm
          · exact RMem_one.1 hm

end BrokerB4
