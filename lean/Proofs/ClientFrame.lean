import Model.Client
/-
  Proofs/ClientFrame.lean — frame lemmas for Model/Client.lean: which thread can change which
  program counter.  (K1)
-/
open Cl Cl.St
namespace ClientK1

/-- split every `match` / `if` of an unfolded step function (also those under a `let`) -/
macro "split_all" h:ident : tactic =>
  `(tactic| ((repeat' split at $h:ident); (all_goals (try simp only [] at $h:ident)); (repeat' split at $h:ident)))

/-- discharge the cases of an unfolded step function: impossible ones by `simp`, the others by
    substituting the successor state -/
macro "close_cases" h:ident " using " ls:Lean.Parser.Tactic.simpLemma,* : tactic =>
  `(tactic| all_goals (first
      | (simp at $h:ident; done)
      | (simp at $h:ident; subst $h:ident; simp [$ls,*]; done)
      | (simp at $h:ident; obtain ⟨h1, _⟩ := $h:ident; subst h1; simp [$ls,*]; done)
      | skip))

@[simp] theorem procAfter_api (s : St) (a : DAfter) : (s.procAfter a).api = s.api := by
  cases a <;> simp [procAfter, procExit, goroutineExit, resolve] <;> split <;> simp
@[simp] theorem procAfter_ping (s : St) (a : DAfter) : (s.procAfter a).ping = s.ping := by
  cases a <;> simp [procAfter, procExit, goroutineExit, resolve] <;> split <;> simp
@[simp] theorem procErr_api (fx : Fix) (s : St) : (procErr fx s).api = s.api := by
  simp [procErr]; split <;> simp [procDie, procExit, goroutineExit]
@[simp] theorem procErr_ping (fx : Fix) (s : St) : (procErr fx s).ping = s.ping := by
  simp [procErr]; split <;> simp [procDie, procExit, goroutineExit]

theorem cleanStep_api {s s' : St} {t c l r} (h : cleanStep s t c l = some (s', r)) : s'.api = s.api := by
  unfold cleanStep at h
  split_all h
  close_cases h using resolve, storeClear
theorem cleanStep_proc {s s' : St} {t c l r} (h : cleanStep s t c l = some (s', r)) : s'.proc = s.proc := by
  unfold cleanStep at h
  split_all h
  close_cases h using resolve, storeClear
theorem cleanStep_ping {s s' : St} {t c l r} (h : cleanStep s t c l = some (s', r)) : s'.ping = s.ping := by
  unfold cleanStep at h
  split_all h
  close_cases h using resolve, storeClear

theorem dieStep_api {s s' : St} {t d l r} (h : dieStep s t d l = some (s', r)) : s'.api = s.api := by
  unfold dieStep at h
  split_all h
  close_cases h using resolve
  all_goals (rename_i hc; simp at h; obtain ⟨rfl, _⟩ := h; exact cleanStep_api hc)
theorem dieStep_proc {s s' : St} {t d l r} (h : dieStep s t d l = some (s', r)) : s'.proc = s.proc := by
  unfold dieStep at h
  split_all h
  close_cases h using resolve
  all_goals (rename_i hc; simp at h; obtain ⟨rfl, _⟩ := h; exact cleanStep_proc hc)
theorem dieStep_ping {s s' : St} {t d l r} (h : dieStep s t d l = some (s', r)) : s'.ping = s.ping := by
  unfold dieStep at h
  split_all h
  close_cases h using resolve
  all_goals (rename_i hc; simp at h; obtain ⟨rfl, _⟩ := h; exact cleanStep_ping hc)

theorem stepProc_api {fx s s' l} (h : stepProc fx s l = some s') : s'.api = s.api := by
  unfold stepProc at h
  split_all h
  close_cases h using procDie, procExit, goroutineExit, sendLog, markDup, resolve, storeDel
  all_goals (rename_i hd; simp at h; subst h; simp [dieStep_api hd])

theorem stepProc_ping {fx s s' l} (h : stepProc fx s l = some s') : s'.ping = s.ping := by
  unfold stepProc at h
  split_all h
  close_cases h using procDie, procExit, goroutineExit, sendLog, markDup, resolve, storeDel
  all_goals (rename_i hd; simp at h; subst h; simp [dieStep_ping hd])

theorem stepPing_api {s s' l} (h : stepPing s l = some s') : s'.api = s.api := by
  unfold stepPing at h
  split_all h
  close_cases h using pingExit, goroutineExit, sendLog, mkDie
  all_goals (rename_i hd; simp at h; subst h; simp [pingExit, goroutineExit, dieStep_api hd])

theorem stepPing_proc {s s' l} (h : stepPing s l = some s') : s'.proc = s.proc := by
  unfold stepPing at h
  split_all h
  close_cases h using pingExit, goroutineExit, sendLog, mkDie
  all_goals (rename_i hd; simp at h; subst h; simp [pingExit, goroutineExit, dieStep_proc hd])

end ClientK1
