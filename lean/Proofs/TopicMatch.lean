import Proofs.TopicBasic
/-
  Proofs/TopicMatch.lean — helper lemmas for property C04 (Props/C04.lean): unfolding lemmas for
  `stored` / `matchAll` / `tmatches`, association-list facts under `Node.WF`, the subtree walk,
  `matchFirst` generalised over its threaded value, `eraseDups` is duplicate free, and the
  sentinel walk versus plain splitting.
-/
namespace Node

/-! ### association list / WF -/

theorem child?_mem {cs : List (Level × Node)} {k : Level} {c : Node} (h : child? cs k = some c) :
    (k, c) ∈ cs := by
  induction cs with
  | nil => simp [child?] at h
  | cons hd tl ih =>
    obtain ⟨k', n'⟩ := hd
    simp only [child?] at h
    by_cases hk : k' = k
    · simp [hk] at h; subst hk; subst h; simp
    · simp [hk] at h; exact List.mem_cons_of_mem _ (ih h)

theorem mem_child? {cs : List (Level × Node)} {k : Level} {c : Node}
    (hnd : (cs.map (·.1)).Nodup) (h : (k, c) ∈ cs) : child? cs k = some c := by
  induction cs with
  | nil => simp at h
  | cons hd tl ih =>
    obtain ⟨k', n'⟩ := hd
    simp only [List.map_cons, List.nodup_cons] at hnd
    simp only [child?]
    rcases List.mem_cons.1 h with h | h
    · cases h; simp
    · have hne : k' ≠ k := by
        intro e; subst e
        exact hnd.1 (List.mem_map.2 ⟨(k', c), h, rfl⟩)
      simp [hne]; exact ih hnd.2 h

theorem WFList_mem {cs : List (Level × Node)} (hw : WFList cs) {k : Level} {c : Node}
    (h : (k, c) ∈ cs) : WF c := by
  induction cs with
  | nil => simp at h
  | cons hd tl ih =>
    obtain ⟨k', n'⟩ := hd
    simp only [WFList] at hw
    rcases List.mem_cons.1 h with h | h
    · cases h; exact hw.1
    · exact ih hw.2 h

theorem WF_child {vs : List Val} {cs : List (Level × Node)} (hw : WF (mk vs cs)) {k : Level}
    {c : Node} (h : child? cs k = some c) : WF c := by
  simp only [WF] at hw
  exact WFList_mem hw.2 (child?_mem h)

/-! ### `stored` -/

@[simp] theorem stored_nil (n : Node) : stored n [] = n.values := by
  simp [stored, get]

theorem stored_cons (vs : List Val) (cs : List (Level × Node)) (l : Level) (ls : List Level) :
    stored (mk vs cs) (l :: ls) = match child? cs l with | some c => stored c ls | none => [] := by
  simp only [stored, get]
  cases child? cs l <;> rfl

theorem mem_stored_cons {v : Val} {vs : List Val} {cs : List (Level × Node)} {l : Level}
    {ls : List Level} :
    v ∈ stored (mk vs cs) (l :: ls) ↔ ∃ c, child? cs l = some c ∧ v ∈ stored c ls := by
  rw [stored_cons]
  cases child? cs l <;> simp

/-! ### `tmatches` -/

theorem tmatches_hash (ns : List Level) : tmatches [wildSome] ns = true := by
  simp [tmatches]

theorem tmatches_nil_left (ns : List Level) : tmatches [] ns = true ↔ ns = [] := by
  cases ns <;> simp [tmatches]

theorem tmatches_cons_nil (f : Level) (fs : List Level) :
    tmatches (f :: fs) [] = true ↔ f = wildSome ∧ fs = [] := by
  simp [tmatches]

theorem tmatches_cons_cons (f : Level) (fs : List Level) (n : Level) (ns : List Level)
    (h : ¬ (f = wildSome ∧ fs = [])) :
    tmatches (f :: fs) (n :: ns) = true ↔
      (f = wildOne ∨ (f ≠ wildSome ∧ f = n)) ∧ tmatches fs ns = true := by
  rw [tmatches]
  simp [h]

theorem wildOne_ne_wildSome : wildOne ≠ wildSome := by decide

/-! ### `matchAll` -/

theorem matchAll_nil (vs : List Val) (cs : List (Level × Node)) :
    matchAll [] (mk vs cs) = stored (mk vs cs) [wildSome] ++ vs := by
  rw [matchAll, stored_cons]
  cases child? cs wildSome <;> simp

theorem matchAll_cons (l : Level) (rest : List Level) (vs : List Val) (cs : List (Level × Node)) :
    matchAll (l :: rest) (mk vs cs) =
      stored (mk vs cs) [wildSome]
      ++ (match child? cs wildOne with | some c => matchAll rest c | none => [])
      ++ (if l ≠ wildOne ∧ l ≠ wildSome then
            (match child? cs l with | some c => matchAll rest c | none => [])
          else []) := by
  rw [matchAll, stored_cons]
  cases child? cs wildSome <;> simp <;> rfl

theorem mem_matchAll_cons {v : Val} {l : Level} {rest : List Level} {vs : List Val}
    {cs : List (Level × Node)} (h1 : l ≠ wildOne) (h2 : l ≠ wildSome) :
    v ∈ matchAll (l :: rest) (mk vs cs) ↔
      v ∈ stored (mk vs cs) [wildSome]
      ∨ (∃ c, child? cs wildOne = some c ∧ v ∈ matchAll rest c)
      ∨ (∃ c, child? cs l = some c ∧ v ∈ matchAll rest c) := by
  rw [matchAll_cons]
  simp only [h1, h2, ne_eq, not_false_eq_true, and_self, if_true, List.mem_append, or_assoc]
  cases child? cs wildOne <;> cases child? cs l <;> simp

theorem matchAll_spec (n : Node) (hw : n.WF) (name : List Level) (hn : NoWild name) (v : Val) :
    v ∈ matchAll name n ↔ ∃ f, v ∈ stored n f ∧ tmatches f name = true := by
  induction name generalizing n with
  | nil =>
    obtain ⟨vs, cs⟩ := n
    rw [matchAll_nil, List.mem_append]
    constructor
    · rintro (h | h)
      · exact ⟨[wildSome], h, tmatches_hash _⟩
      · exact ⟨[], by simpa [values] using h, by simp [tmatches]⟩
    · rintro ⟨f, hv, hm⟩
      cases f with
      | nil => right; simpa [values] using hv
      | cons x fs =>
        obtain ⟨rfl, rfl⟩ := (tmatches_cons_nil x fs).1 hm
        left; exact hv
  | cons l rest ih =>
    obtain ⟨vs, cs⟩ := n
    have hl := hn l (by simp)
    have hrest : NoWild rest := fun x hx => hn x (List.mem_cons_of_mem _ hx)
    rw [mem_matchAll_cons hl.1 hl.2]
    constructor
    · rintro (h | ⟨c, hc, h⟩ | ⟨c, hc, h⟩)
      · exact ⟨[wildSome], h, tmatches_hash _⟩
      · obtain ⟨f, hf, hm⟩ := (ih c (WF_child hw hc) hrest).1 h
        refine ⟨wildOne :: f, mem_stored_cons.2 ⟨c, hc, hf⟩, ?_⟩
        rw [tmatches_cons_cons _ _ _ _ (fun h => wildOne_ne_wildSome h.1)]
        exact ⟨Or.inl rfl, hm⟩
      · obtain ⟨f, hf, hm⟩ := (ih c (WF_child hw hc) hrest).1 h
        refine ⟨l :: f, mem_stored_cons.2 ⟨c, hc, hf⟩, ?_⟩
        rw [tmatches_cons_cons _ _ _ _ (fun h => hl.2 h.1)]
        exact ⟨Or.inr ⟨hl.2, rfl⟩, hm⟩
    · rintro ⟨f, hv, hm⟩
      cases f with
      | nil => simp [tmatches] at hm
      | cons x fs =>
        by_cases hx : x = wildSome ∧ fs = []
        · obtain ⟨rfl, rfl⟩ := hx
          left; exact hv
        · obtain ⟨hhead, hm⟩ := (tmatches_cons_cons _ _ _ _ hx).1 hm
          obtain ⟨c, hc, hv⟩ := mem_stored_cons.1 hv
          have := (ih c (WF_child hw hc) hrest).2 ⟨fs, hv, hm⟩
          rcases hhead with rfl | ⟨_, rfl⟩
          · right; left; exact ⟨c, hc, this⟩
          · right; right; exact ⟨c, hc, this⟩

/-! ### the subtree walk -/

theorem mem_stored_of_child {v : Val} {vs : List Val} {cs : List (Level × Node)} {k : Level}
    {c : Node} {p : List Level} (hc : child? cs k = some c) (h : v ∈ stored c p) :
    v ∈ stored (mk vs cs) (k :: p) := mem_stored_cons.2 ⟨c, hc, h⟩

mutual
theorem mem_subtreeVals (v : Val) : (n : Node) → WF n →
    (v ∈ subtreeVals n ↔ ∃ p, v ∈ stored n p)
  | .mk vs cs, hw => by
    have hw' : (cs.map (·.1)).Nodup ∧ WFList cs := by simpa only [WF] using hw
    rw [subtreeVals, List.mem_append, mem_subtreeValsList v cs hw'.2]
    constructor
    · rintro (h | ⟨k, c, p, hm, h⟩)
      · exact ⟨[], by simpa [values] using h⟩
      · exact ⟨k :: p, mem_stored_of_child (mem_child? hw'.1 hm) h⟩
    · rintro ⟨p, h⟩
      cases p with
      | nil => left; simpa [values] using h
      | cons k p =>
        obtain ⟨c, hc, h⟩ := mem_stored_cons.1 h
        exact Or.inr ⟨k, c, p, child?_mem hc, h⟩
theorem mem_subtreeValsList (v : Val) : (cs : List (Level × Node)) → WFList cs →
    (v ∈ subtreeValsList cs ↔ ∃ k c p, (k, c) ∈ cs ∧ v ∈ stored c p)
  | [], _ => by simp [subtreeValsList]
  | (k0, c0) :: rest, hw => by
    have hw' : WF c0 ∧ WFList rest := by simpa only [WFList] using hw
    rw [subtreeValsList, List.mem_append, mem_subtreeVals v c0 hw'.1,
      mem_subtreeValsList v rest hw'.2]
    constructor
    · rintro (⟨p, h⟩ | ⟨k, c, p, hm, h⟩)
      · exact ⟨k0, c0, p, by simp, h⟩
      · exact ⟨k, c, p, List.mem_cons_of_mem _ hm, h⟩
    · rintro ⟨k, c, p, hm, h⟩
      rcases List.mem_cons.1 hm with e | hm
      · cases e; exact Or.inl ⟨p, h⟩
      · exact Or.inr ⟨k, c, p, hm, h⟩
end

/-! ### `searchAll` -/

theorem mem_searchKids {v : Val} {ls : List Level} {cs : List (Level × Node)} :
    v ∈ searchKids ls cs ↔ ∃ k c, (k, c) ∈ cs ∧ v ∈ searchAll ls c := by
  induction cs with
  | nil => simp [searchKids]
  | cons hd tl ih =>
    obtain ⟨k0, c0⟩ := hd
    rw [searchKids, List.mem_append, ih]
    constructor
    · rintro (h | ⟨k, c, hm, h⟩)
      · exact ⟨k0, c0, by simp, h⟩
      · exact ⟨k, c, List.mem_cons_of_mem _ hm, h⟩
    · rintro ⟨k, c, hm, h⟩
      rcases List.mem_cons.1 hm with e | hm
      · cases e; exact Or.inl h
      · exact Or.inr ⟨k, c, hm, h⟩

theorem ValidFilter_tail {l : Level} {rest : List Level} (h : ValidFilter (l :: rest)) :
    ValidFilter rest := by
  cases rest with
  | nil => trivial
  | cons l2 r => exact h.2

theorem ValidFilter_hash {rest : List Level} (h : ValidFilter (wildSome :: rest)) : rest = [] := by
  cases rest with
  | nil => rfl
  | cons l2 r => exact absurd rfl h.1

theorem searchAll_spec (n : Node) (hw : n.WF) (filter : List Level) (hf : ValidFilter filter)
    (v : Val) :
    v ∈ searchAll filter n ↔ ∃ nm, v ∈ stored n nm ∧ tmatches filter nm = true := by
  induction filter generalizing n with
  | nil =>
    rw [searchAll]
    constructor
    · intro h; exact ⟨[], by simpa using h, by simp [tmatches]⟩
    · rintro ⟨nm, hv, hm⟩
      rw [(tmatches_nil_left nm).1 hm] at hv
      simpa using hv
  | cons l rest ih =>
    obtain ⟨vs, cs⟩ := n
    have hrest := ValidFilter_tail hf
    have hw' : (cs.map (·.1)).Nodup ∧ WFList cs := by simpa only [WF] using hw
    rw [searchAll]
    by_cases h1 : l = wildSome
    · subst h1
      obtain rfl := ValidFilter_hash hf
      simp only [if_true, mem_subtreeVals v _ hw, tmatches_hash, and_true]
    · by_cases h2 : l = wildOne
      · subst h2
        simp only [h1, if_false, if_true, mem_searchKids]
        constructor
        · rintro ⟨k, c, hm, h⟩
          obtain ⟨nm, hv, hmm⟩ := (ih c (WFList_mem hw'.2 hm) hrest).1 h
          refine ⟨k :: nm, mem_stored_of_child (mem_child? hw'.1 hm) hv, ?_⟩
          rw [tmatches_cons_cons _ _ _ _ (fun h => h1 h.1)]
          exact ⟨Or.inl rfl, hmm⟩
        · rintro ⟨nm, hv, hmm⟩
          cases nm with
          | nil => exact absurd ((tmatches_cons_nil _ _).1 hmm).1 h1
          | cons k nm =>
            obtain ⟨c, hc, hv⟩ := mem_stored_cons.1 hv
            obtain ⟨_, hmm⟩ := (tmatches_cons_cons _ _ _ _ (fun h => h1 h.1)).1 hmm
            exact ⟨k, c, child?_mem hc,
              (ih c (WF_child hw hc) hrest).2 ⟨nm, hv, hmm⟩⟩
      · simp only [h1, h2, if_false]
        constructor
        · intro h
          cases hc : child? cs l with
          | none => simp [hc] at h
          | some c =>
            simp only [hc] at h
            obtain ⟨nm, hv, hmm⟩ := (ih c (WF_child hw hc) hrest).1 h
            refine ⟨l :: nm, mem_stored_of_child hc hv, ?_⟩
            rw [tmatches_cons_cons _ _ _ _ (fun h => h1 h.1)]
            exact ⟨Or.inr ⟨h1, rfl⟩, hmm⟩
        · rintro ⟨nm, hv, hmm⟩
          cases nm with
          | nil => exact absurd ((tmatches_cons_nil _ _).1 hmm).1 h1
          | cons k nm =>
            obtain ⟨c, hc, hv'⟩ := mem_stored_cons.1 hv
            obtain ⟨hhead, hmm'⟩ := (tmatches_cons_cons _ _ _ _ (fun h => h1 h.1)).1 hmm
            rcases hhead with e | ⟨_, e⟩
            · exact absurd e h2
            · subst e
              simp only [hc]
              exact (ih c (WF_child hw hc) hrest).2 ⟨nm, hv', hmm'⟩

/-! ### `matchFirst`, generalised over the threaded value -/

theorem isEmpty_append' {α : Type} (a b : List α) :
    (a ++ b).isEmpty = (a.isEmpty && b.isEmpty) := by
  cases a <;> simp

theorem matchFirst_isSome (name : List Level) (n : Node) (cur : Option Val) :
    (matchFirst name n cur).isSome = (cur.isSome || !(matchAll name n).isEmpty) := by
  induction name generalizing n cur with
  | nil =>
    obtain ⟨vs, cs⟩ := n
    rw [matchFirst, matchAll]
    cases child? cs wildSome with
    | none => cases vs <;> simp
    | some c =>
      obtain ⟨w, _⟩ := c
      cases w <;> cases vs <;> simp [values]
  | cons l rest ih =>
    obtain ⟨vs, cs⟩ := n
    rw [matchFirst, matchAll]
    cases child? cs wildSome with
    | none =>
      by_cases hl : l ≠ wildOne ∧ l ≠ wildSome
      · cases child? cs wildOne <;> cases child? cs l <;>
          simp [hl, ih, Bool.or_assoc, isEmpty_append']
      · cases child? cs wildOne <;> simp [hl, ih]
    | some c =>
      obtain ⟨w, _⟩ := c
      cases w with
      | cons x xs => simp [values]
      | nil =>
        by_cases hl : l ≠ wildOne ∧ l ≠ wildSome
        · cases child? cs wildOne <;> cases child? cs l <;>
            simp [hl, ih, values, Bool.or_assoc, isEmpty_append']
        · cases child? cs wildOne <;> simp [hl, ih, values]

theorem matchFirst_mem_or (name : List Level) (n : Node) (cur : Option Val) (v : Val)
    (h : matchFirst name n cur = some v) : v ∈ matchAll name n ∨ cur = some v := by
  induction name generalizing n cur with
  | nil =>
    obtain ⟨vs, cs⟩ := n
    rw [matchFirst] at h
    rw [matchAll]
    cases hc : child? cs wildSome with
    | none =>
      simp only [hc] at h
      cases vs with
      | nil => right; simpa using h
      | cons x xs => left; simp at h; simp [h]
    | some c =>
      obtain ⟨w, cc⟩ := c
      simp only [hc, values] at h
      cases w with
      | cons y ys => left; simp at h; simp [values, h]
      | nil =>
        cases vs with
        | nil => right; simpa using h
        | cons x xs => left; simp at h; simp [h]
  | cons l rest ih =>
    obtain ⟨vs, cs⟩ := n
    rw [matchFirst] at h
    rw [matchAll]
    -- the part below the `#` child
    have key : ∀ cur2,
        (let cur1 := match child? cs wildOne with
            | some c => matchFirst rest c cur | none => cur
          if l ≠ wildOne ∧ l ≠ wildSome then
            (match child? cs l with | some c => matchFirst rest c cur1 | none => cur1)
          else cur1) = cur2 → cur2 = some v →
        (v ∈ (match child? cs wildOne with | some c => matchAll rest c | none => [])
          ∨ v ∈ (if l ≠ wildOne ∧ l ≠ wildSome then
                  (match child? cs l with | some c => matchAll rest c | none => [])
                else []))
        ∨ cur = some v := by
      intro cur2 h1 h2
      subst h2
      by_cases hl : l ≠ wildOne ∧ l ≠ wildSome
      · simp only [if_pos hl] at h1 ⊢
        cases h5 : child? cs wildOne with
        | none =>
          simp only [h5] at h1
          cases h6 : child? cs l with
          | none => simp only [h6] at h1; exact Or.inr h1
          | some c6 =>
            simp only [h6] at h1
            rcases ih c6 cur h1 with h | h
            · exact Or.inl (Or.inr h)
            · exact Or.inr h
        | some c5 =>
          simp only [h5] at h1
          cases h6 : child? cs l with
          | none =>
            simp only [h6] at h1
            rcases ih c5 cur h1 with h | h
            · exact Or.inl (Or.inl h)
            · exact Or.inr h
          | some c6 =>
            simp only [h6] at h1
            rcases ih c6 _ h1 with h | h
            · exact Or.inl (Or.inr h)
            · rcases ih c5 cur h with h | h
              · exact Or.inl (Or.inl h)
              · exact Or.inr h
      · simp only [if_neg hl] at h1 ⊢
        cases h5 : child? cs wildOne with
        | none => simp only [h5] at h1; exact Or.inr h1
        | some c5 =>
          simp only [h5] at h1
          rcases ih c5 cur h1 with h | h
          · exact Or.inl (Or.inl h)
          · exact Or.inr h
    cases hc : child? cs wildSome with
    | none =>
      simp only [hc] at h
      rcases key _ h rfl with h | h
      · exact Or.inl (List.mem_append.2 (h.elim (fun h => Or.inl (List.mem_append.2 (Or.inr h))) Or.inr))
      · exact Or.inr h
    | some c =>
      obtain ⟨w, cc⟩ := c
      simp only [hc, values] at h
      cases w with
      | cons y ys => left; simp at h; simp [values, h]
      | nil =>
        rcases key _ h rfl with h | h
        · exact Or.inl (List.mem_append.2 (h.elim (fun h => Or.inl (List.mem_append.2 (Or.inr h))) Or.inr))
        · exact Or.inr h

/-! ### a single path added to the empty tree -/

theorem add_empty_nil (v : Val) : add v [] empty = mk [v] [] := rfl

theorem add_empty_cons (v : Val) (l : Level) (ls : List Level) :
    add v (l :: ls) empty = mk [] [(l, add v ls empty)] := rfl

theorem WF_add_empty (v : Val) (p : List Level) : WF (add v p empty) := by
  induction p with
  | nil => rw [add_empty_nil]; simp [WF, WFList]
  | cons l ls ih => rw [add_empty_cons]; simp [WF, WFList, ih]

theorem mem_stored_add_empty (v : Val) (p q : List Level) :
    v ∈ stored (add v p empty) q ↔ q = p := by
  induction p generalizing q with
  | nil =>
    rw [add_empty_nil]
    cases q with
    | nil => simp [values]
    | cons k q => rw [mem_stored_cons]; simp [child?]
  | cons l ls ih =>
    rw [add_empty_cons]
    cases q with
    | nil => simp [values]
    | cons k q =>
      rw [mem_stored_cons]
      by_cases hk : l = k
      · subst hk; simp [child?, ih]
      · have hk' : ¬ k = l := fun e => hk e.symm
        simp [child?, hk, hk']

theorem matchAll_searchAll_agree (f name : List Level) (hf : ValidFilter f) (hn : NoWild name) (v : Val) :
    v ∈ matchAll name (add v f empty) ↔ v ∈ searchAll f (add v name empty) := by
  rw [matchAll_spec _ (WF_add_empty v f) name hn, searchAll_spec _ (WF_add_empty v name) f hf]
  constructor
  · rintro ⟨g, hv, hm⟩
    rw [mem_stored_add_empty] at hv; subst hv
    exact ⟨name, (mem_stored_add_empty v name name).2 rfl, hm⟩
  · rintro ⟨nm, hv, hm⟩
    rw [mem_stored_add_empty] at hv; subst hv
    exact ⟨f, (mem_stored_add_empty v f f).2 rfl, hm⟩

end Node

/-! ### `eraseDups` is duplicate free -/

theorem eraseDups_nodup_aux (k : Nat) : ∀ l : List Val, l.length ≤ k → (l.eraseDups).Nodup := by
  induction k with
  | zero =>
    intro l hl
    have : l = [] := List.length_eq_zero_iff.1 (Nat.le_zero.1 hl)
    subst this; simp
  | succ k ih =>
    intro l hl
    cases l with
    | nil => simp
    | cons a as =>
      rw [List.eraseDups_cons, List.nodup_cons]
      constructor
      · rw [List.mem_eraseDups]
        simp
      · apply ih
        have := List.length_filter_le (fun b => !b == a) as
        simp only [List.length_cons] at hl
        omega

theorem eraseDups_nodup (l : List Val) : (l.eraseDups).Nodup :=
  eraseDups_nodup_aux l.length l (Nat.le_refl _)

/-! ### the sentinel walk is plain splitting on NUL-free topics -/

theorem topic_decomp (t : Bytes) :
    sepByte ∉ t ∨ ∃ a rest, sepByte ∉ a ∧ t = a ++ sepByte :: rest := by
  induction t with
  | nil => left; simp
  | cons b r ih =>
    by_cases hb : b = sepByte
    · right; exact ⟨[], r, by simp, by simp [hb]⟩
    · rcases ih with h | ⟨a, rest, ha, rfl⟩
      · left
        intro hm
        rcases List.mem_cons.1 hm with e | e
        · exact hb e.symm
        · exact h e
      · right
        refine ⟨b :: a, rest, ?_, by simp⟩
        intro hm
        rcases List.mem_cons.1 hm with e | e
        · exact hb e.symm
        · exact ha e

theorem takeWhile_nosep (t : Bytes) (h : sepByte ∉ t) : t.takeWhile (· != sepByte) = t := by
  induction t with
  | nil => rfl
  | cons b r ih =>
    have hb : (b != sepByte) = true := by
      simp only [bne_iff_ne]; exact fun e => h (by simp [e])
    have hr : sepByte ∉ r := fun e => h (List.mem_cons_of_mem _ e)
    rw [List.takeWhile_cons, hb, if_pos rfl, ih hr]

theorem dropWhile_nosep (t : Bytes) (h : sepByte ∉ t) : t.dropWhile (· != sepByte) = [] := by
  induction t with
  | nil => rfl
  | cons b r ih =>
    have hb : (b != sepByte) = true := by
      simp only [bne_iff_ne]; exact fun e => h (by simp [e])
    have hr : sepByte ∉ r := fun e => h (List.mem_cons_of_mem _ e)
    rw [List.dropWhile_cons, hb, if_pos rfl, ih hr]

theorem takeWhile_sep (a rest : Bytes) (h : sepByte ∉ a) :
    (a ++ sepByte :: rest).takeWhile (· != sepByte) = a := by
  induction a with
  | nil => simp
  | cons b r ih =>
    have hb : (b != sepByte) = true := by
      simp only [bne_iff_ne]; exact fun e => h (by simp [e])
    have hr : sepByte ∉ r := fun e => h (List.mem_cons_of_mem _ e)
    rw [List.cons_append, List.takeWhile_cons, hb, if_pos rfl, ih hr]

theorem dropWhile_sep (a rest : Bytes) (h : sepByte ∉ a) :
    (a ++ sepByte :: rest).dropWhile (· != sepByte) = sepByte :: rest := by
  induction a with
  | nil => simp
  | cons b r ih =>
    have hb : (b != sepByte) = true := by
      simp only [bne_iff_ne]; exact fun e => h (by simp [e])
    have hr : sepByte ∉ r := fun e => h (List.mem_cons_of_mem _ e)
    rw [List.cons_append, List.dropWhile_cons, hb, if_pos rfl, ih hr]

theorem topicSegment_nosep (t : Bytes) (h : sepByte ∉ t) : topicSegment t = t :=
  takeWhile_nosep t h

theorem topicShorten_nosep (t : Bytes) (h : sepByte ∉ t) : topicShorten t = topicEnd := by
  rw [topicShorten, dropWhile_nosep t h]

theorem topicSegment_sep (a rest : Bytes) (h : sepByte ∉ a) :
    topicSegment (a ++ sepByte :: rest) = a :=
  takeWhile_sep a rest h

theorem topicShorten_sep (a rest : Bytes) (h : sepByte ∉ a) :
    topicShorten (a ++ sepByte :: rest) = rest := by
  rw [topicShorten, dropWhile_sep a rest h]

theorem go_nosep (t : Bytes) (cur : Level) (h : sepByte ∉ t) :
    splitLevels.go t cur = [cur.reverse ++ t] := by
  induction t generalizing cur with
  | nil => simp [splitLevels.go]
  | cons b r ih =>
    have hb : b ≠ sepByte := fun e => h (by simp [e])
    have hr : sepByte ∉ r := fun e => h (List.mem_cons_of_mem _ e)
    rw [splitLevels.go, if_neg hb, ih _ hr]
    simp

theorem go_sep (a rest : Bytes) (cur : Level) (h : sepByte ∉ a) :
    splitLevels.go (a ++ sepByte :: rest) cur = (cur.reverse ++ a) :: splitLevels.go rest [] := by
  induction a generalizing cur with
  | nil => simp [splitLevels.go]
  | cons b r ih =>
    have hb : b ≠ sepByte := fun e => h (by simp [e])
    have hr : sepByte ∉ r := fun e => h (List.mem_cons_of_mem _ e)
    rw [List.cons_append, splitLevels.go, if_neg hb, ih _ hr]
    simp

theorem walkAux_eq_go (fuel : Nat) : ∀ t : Bytes, (0 : UInt8) ∉ t → t.length + 2 ≤ fuel →
    walkAux fuel t = splitLevels.go t [] := by
  induction fuel with
  | zero => intro t _ hl; omega
  | succ f ih =>
    intro t h0 hl
    have hne : t ≠ topicEnd := by
      intro e; subst e; exact h0 (by simp [topicEnd])
    rw [walkAux, if_neg hne]
    rcases topic_decomp t with hs | ⟨a, rest, ha, rfl⟩
    · rw [topicSegment_nosep t hs, topicShorten_nosep t hs, go_nosep t [] hs]
      cases f with
      | zero => omega
      | succ f' => simp [walkAux]
    · rw [topicSegment_sep a rest ha, topicShorten_sep a rest ha, go_sep a rest [] ha]
      have h0' : (0 : UInt8) ∉ rest := fun e => h0 (by simp [e])
      have hl' : rest.length + 2 ≤ f := by
        simp only [List.length_append, List.length_cons] at hl; omega
      rw [ih rest h0' hl']
      simp

theorem walk_eq_splitLevels (t : Bytes) (h : (0 : UInt8) ∉ t) : walk t = splitLevels t :=
  walkAux_eq_go (t.length + 2) t h (Nat.le_refl _)
