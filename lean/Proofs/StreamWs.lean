import Model.Stream
/-
  Proofs/StreamWs.lean — C03, `wsStream.Read`: under gorilla's contract (EOF of a message reader
  comes alone) and binary messages the bytes returned are the payloads, in order, nothing lost.
-/
namespace StreamS1
open Framing Framing.Ws

def payloads (ms : List Msg) : Bytes := (ms.map Msg.payload).flatten

def cleanMsgs (ms : List Msg) : Prop := ∀ m ∈ ms, m.binary = true ∧ m.eofWithData = false

def curFlat : Option (List Bytes × Bool) → Bytes
  | some (fr, _) => fr.flatten
  | none => []

def cleanCur : Option (List Bytes × Bool) → Prop
  | some (_, ewd) => ewd = false
  | none => True

def endOut : End → Out
  | .close => .eof
  | .error => .error

theorem pending_eq (c : Conn) : c.pending = curFlat c.cur ++ payloads c.msgs := by
  unfold Conn.pending curFlat payloads
  cases c.cur with
  | none => rfl
  | some p => rfl

theorem msgRead_spec (size : Nat) : ∀ (frames : List Bytes),
    (msgRead size false frames).1 ++ (msgRead size false frames).2.2.flatten = frames.flatten ∧
    ((msgRead size false frames).2.1 = true →
      (msgRead size false frames).1 = [] ∧ frames.flatten = []) := by
  intro frames
  induction frames with
  | nil => simp [msgRead]
  | cons f fs ih =>
    unfold msgRead
    by_cases he : f.isEmpty
    · rw [if_pos he]
      have : f = [] := List.isEmpty_iff.mp he
      subst this
      simpa using ih
    · rw [if_neg he]
      by_cases hl : f.length ≤ size
      · rw [if_pos hl]; simp
      · rw [if_neg hl]
        simp only [List.flatten_cons, Bool.false_eq_true, false_implies, and_true]
        rw [← List.append_assoc, List.take_append_drop]

theorem msgRead_progress (size : Nat) (hs : 0 < size) : ∀ (frames : List Bytes), frames.flatten ≠ [] →
    (msgRead size false frames).1 ≠ [] ∧ (msgRead size false frames).2.1 = false := by
  intro frames
  induction frames with
  | nil => intro h; simp at h
  | cons f fs ih =>
    intro h
    unfold msgRead
    by_cases he : f.isEmpty
    · rw [if_pos he]
      have : f = [] := List.isEmpty_iff.mp he
      subst this
      exact ih (by simpa using h)
    · rw [if_neg he]
      have hne : f ≠ [] := fun h' => he (by simp [h'])
      by_cases hl : f.length ≤ size
      · rw [if_pos hl]; exact ⟨hne, by simp⟩
      · rw [if_neg hl]
        refine ⟨?_, rfl⟩
        simp only []
        intro h'
        rcases List.take_eq_nil_iff.mp h' with h0 | h0
        · omega
        · exact hne h0

theorem next_spec (fin : End) : ∀ (msgs : List Msg) (size : Nat) (total : Bytes), cleanMsgs msgs →
    ((next fin size total msgs).2.1 = .ok →
      (next fin size total msgs).1 ++ curFlat (next fin size total msgs).2.2.1
          ++ payloads (next fin size total msgs).2.2.2 = total ++ payloads msgs ∧
      cleanCur (next fin size total msgs).2.2.1 ∧ cleanMsgs (next fin size total msgs).2.2.2) ∧
    ((next fin size total msgs).2.1 ≠ .ok →
      payloads msgs = [] ∧ (next fin size total msgs).1 = [] ∧ (next fin size total msgs).2.2.1 = none ∧
      (next fin size total msgs).2.2.2 = [] ∧ (next fin size total msgs).2.1 = endOut fin) := by
  intro msgs
  induction msgs with
  | nil =>
    intro size total _
    unfold next
    refine ⟨fun h => ?_, fun _ => ⟨rfl, rfl, rfl, rfl, ?_⟩⟩
    · cases fin <;> simp at h
    · cases fin <;> rfl
  | cons m ms ih =>
    intro size total hc
    have hm := hc m (by simp)
    have hms : cleanMsgs ms := fun q hq => hc q (by simp [hq])
    unfold next
    rw [hm.1, hm.2]
    simp only [Bool.not_true, Bool.false_eq_true, if_false]
    obtain ⟨h1, h2⟩ := msgRead_spec size m.frames
    rcases hr : msgRead size false m.frames with ⟨bs, eof, rest⟩
    rw [hr] at h1 h2
    simp only [] at h1 h2
    cases eof with
    | true =>
      obtain ⟨hb, hf⟩ := h2 rfl
      subst hb
      simp only []
      have hp : payloads (m :: ms) = payloads ms := by
        simp [payloads, Msg.payload, hf]
      rw [hp]
      have := ih (size - ([] : Bytes).length) (total ++ []) hms
      simpa using this
    | false =>
      simp only []
      refine ⟨fun _ => ⟨?_, rfl, hms⟩, fun h => absurd rfl h⟩
      simp only [curFlat, payloads, List.map_cons, List.flatten_cons, Msg.payload]
      rw [← h1]
      simp [List.append_assoc]

def cleanConn (c : Conn) : Prop := cleanCur c.cur ∧ cleanMsgs c.msgs

/-- one `wsStream.Read` -/
theorem read_spec (size : Nat) (c : Conn) (hc : cleanConn c) :
    ((Ws.read size c).2.1 = .ok →
      (Ws.read size c).1 ++ (Ws.read size c).2.2.pending = c.pending ∧ cleanConn (Ws.read size c).2.2) ∧
    ((Ws.read size c).2.1 ≠ .ok →
      c.pending = [] ∧ (Ws.read size c).2.2.pending = [] ∧ (Ws.read size c).2.1 = endOut c.fin) ∧
    (Ws.read size c).2.2.fin = c.fin := by
  obtain ⟨hcur, hmsgs⟩ := hc
  rw [pending_eq c]
  unfold Ws.read
  cases hcc : c.cur with
  | none =>
    simp only []
    have := next_spec c.fin c.msgs size [] hmsgs
    rcases hn : next c.fin size [] c.msgs with ⟨bs, o, cur, ms⟩
    rw [hn] at this
    simp only [] at this ⊢
    obtain ⟨a, b⟩ := this
    refine ⟨fun h => ?_, fun h => ?_, trivial⟩
    · obtain ⟨a1, a2, a3⟩ := a h
      rw [pending_eq]
      simp only [curFlat, List.nil_append] at a1 ⊢
      exact ⟨by rw [← List.append_assoc]; exact a1, a2, a3⟩
    · obtain ⟨b1, b2, b3, b4, b5⟩ := b h
      rw [pending_eq]
      simp only [b3, b4, curFlat, b1, b5]
      simp [payloads]
  | some p =>
    obtain ⟨frames, ewd⟩ := p
    rw [hcc] at hcur
    simp only [cleanCur] at hcur
    subst hcur
    simp only []
    obtain ⟨h1, h2⟩ := msgRead_spec size frames
    rcases hr : msgRead size false frames with ⟨bs, eof, rest⟩
    rw [hr] at h1 h2
    simp only [] at h1 h2
    cases eof with
    | false =>
      simp only []
      refine ⟨fun _ => ⟨?_, rfl, hmsgs⟩, fun h => absurd rfl h, trivial⟩
      rw [pending_eq]
      simp only [curFlat]
      rw [← h1, List.append_assoc]
    | true =>
      obtain ⟨hb, hf⟩ := h2 rfl
      subst hb
      simp only []
      have := next_spec c.fin c.msgs (size - ([] : Bytes).length) [] hmsgs
      rcases hn : next c.fin (size - ([] : Bytes).length) [] c.msgs with ⟨bs, o, cur, ms⟩
      rw [hn] at this
      simp only [] at this ⊢
      obtain ⟨a, b⟩ := this
      refine ⟨fun h => ?_, fun h => ?_, trivial⟩
      · obtain ⟨a1, a2, a3⟩ := a h
        rw [pending_eq]
        simp only [curFlat, List.nil_append, hf] at a1 ⊢
        exact ⟨by rw [← List.append_assoc]; exact a1, a2, a3⟩
      · obtain ⟨b1, b2, b3, b4, b5⟩ := b h
        rw [pending_eq]
        simp only [b3, b4, curFlat, b1, b5, hf]
        simp [payloads]

theorem drain_spec : ∀ (sizes : List Nat) (c : Conn), cleanConn c →
    (drain sizes c).1.flatten ++ (drain sizes c).2.2.pending = c.pending ∧
    ((drain sizes c).2.1 ≠ .ok → (drain sizes c).2.2.pending = [] ∧ (drain sizes c).2.1 = endOut c.fin) := by
  intro sizes
  induction sizes with
  | nil => intro c _; simp [drain]
  | cons s ss ih =>
    intro c hc
    obtain ⟨h1, h2, h3⟩ := read_spec s c hc
    unfold drain
    rcases hr : Ws.read s c with ⟨bs, o, c'⟩
    rw [hr] at h1 h2 h3
    simp only [] at h1 h2 h3
    cases o with
    | ok =>
      obtain ⟨e, hc'⟩ := h1 rfl
      obtain ⟨i1, i2⟩ := ih c' hc'
      simp only []
      refine ⟨?_, ?_⟩
      · simp only [List.flatten_cons, List.append_assoc]
        rw [i1, e]
      · intro h; rw [← h3]; exact i2 h
    | eof =>
      obtain ⟨e1, e2, e3⟩ := h2 (by simp)
      simp only []
      exact ⟨by simp [e1, e2], fun _ => ⟨e2, e3⟩⟩
    | notBinary =>
      obtain ⟨e1, e2, e3⟩ := h2 (by simp)
      simp only []
      exact ⟨by simp [e1, e2], fun _ => ⟨e2, e3⟩⟩
    | error =>
      obtain ⟨e1, e2, e3⟩ := h2 (by simp)
      simp only []
      exact ⟨by simp [e1, e2], fun _ => ⟨e2, e3⟩⟩

/-- pending payload: the call does not report an error -/
theorem read_ok_of_pending (size : Nat) (c : Conn) (hc : cleanConn c) (hp : c.pending ≠ []) :
    (Ws.read size c).2.1 = .ok := by
  obtain ⟨_, h2, _⟩ := read_spec size c hc
  cases ho : (Ws.read size c).2.1 with
  | ok => rfl
  | _ => exact absurd (h2 (by rw [ho]; simp)).1 hp

end StreamS1
