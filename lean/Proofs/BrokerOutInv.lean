import Proofs.BrokerOut
/-
  Proofs/BrokerOutInv.lean — the window invariant of the broker model (property C16) and its
  preservation by every building block of a step.
-/

namespace BrokerB3
open BState

/-- dequeue tokens of a connection: in the channel, plus the one the dequeuer holds -/
def tok (x : BConn) : Nat := x.deqChan + (if x.deqHand then 1 else 0)

/-- packets sent (or about to be) and not yet acknowledged -/
def outLen (b : BSess) : Nat := b.sess.outgoing.entries.length

/-- The invariant behind C16.
    * `conn`: tokens + unacknowledged packets of a live connection never exceed the window;
    * `stored`: no stored session holds more unacknowledged packets than the window (so the resend
      loop of a later resume finds enough tokens);
    * `owner`: a live (or closed but not yet cleaned up) connection using a stored session is the
      session's active client — two live connections never share a stored session;
    * `nz`: a live connection is not waiting for its cleanup. -/
structure Inv (s : BState) : Prop where
  conn : ∀ c x b, s.conn? c = some x → x.alive = true → s.sessOf c = some b →
      tok x + outLen b ≤ s.cfg.window
  stored : ∀ id b, Assoc.get s.stored id = some b → outLen b ≤ s.cfg.window
  owner : ∀ c x id, s.conn? c = some x → (x.alive = true ∨ x.zombie = true) → x.sref = .stored id →
      ∃ b, Assoc.get s.stored id = some b ∧ b.active = some c
  nz : ∀ c x, s.conn? c = some x → x.alive = true → x.zombie = false

theorem tok_of_cview {x x' : BConn} (h : cview x' = cview x) : tok x' = tok x := by
  obtain ⟨_, _, _, h4, _, h6⟩ := cview_eq h
  simp [tok, h4, h6]

theorem outLen_of_sview {b b' : BSess} (h : sview b' = sview b) : outLen b' = outLen b := by
  simp [outLen, (sview_eq h).1]

theorem Inv.congr {s s' : BState} (h : CoreEq s s') (hI : Inv s) : Inv s' := by
  have h' := h.symm
  refine ⟨?_, ?_, ?_, ?_⟩
  · intro c x' b' hx' ha' hb'
    obtain ⟨x, hx, hv⟩ := h'.conn_some hx'
    obtain ⟨b, hb, hw⟩ := h'.sessOf_some hb'
    have := hI.conn c x b hx (by rw [(cview_eq hv).1]; exact ha') hb
    rw [h.cfg, ← tok_of_cview hv, ← outLen_of_sview hw]
    exact this
  · intro id b' hb'
    obtain ⟨b, hb, hw⟩ := map_eq_some (h'.stored id) hb'
    rw [h.cfg, ← outLen_of_sview hw]
    exact hI.stored id b hb
  · intro c x' id hx' hl hs
    obtain ⟨x, hx, hv⟩ := h'.conn_some hx'
    obtain ⟨e1, _, e3, _, e5, _⟩ := cview_eq hv
    obtain ⟨b, hb, hact⟩ := hI.owner c x id hx (by rw [e1, e3]; exact hl) (by rw [e5]; exact hs)
    obtain ⟨b', hb', hw⟩ := map_eq_some (h.stored id) hb
    exact ⟨b', hb', by rw [(sview_eq hw).2.2]; exact hact⟩
  · intro c x' hx' ha'
    obtain ⟨x, hx, hv⟩ := h'.conn_some hx'
    obtain ⟨e1, _, e3, _⟩ := cview_eq hv
    rw [← e3]
    exact hI.nz c x hx (by rw [e1]; exact ha')

/-- states that differ only in fields the invariant does not read -/
theorem Inv.of_fields {s s' : BState} (hI : Inv s) (h1 : s'.cfg = s.cfg) (h2 : s'.conns = s.conns)
    (h3 : s'.stored = s.stored) (h4 : s'.temp = s.temp) : Inv s' :=
  hI.congr ⟨h1, fun c => by unfold conn?; rw [h2], fun k => by rw [h3], fun k => by rw [h4]⟩

/-- the stored session of `c` names `c` as its active client -/
def Owned (s : BState) (c : ConnId) : Prop :=
  ∀ x id, s.conn? c = some x → x.sref = .stored id →
    ∃ b, Assoc.get s.stored id = some b ∧ b.active = some c

theorem Owned.congr {s s' : BState} {c : ConnId} (h : CoreEq s s') (ho : Owned s c) : Owned s' c := by
  intro x' id hx' hs
  obtain ⟨x, hx, hv⟩ := h.symm.conn_some hx'
  obtain ⟨b, hb, hact⟩ := ho x id hx (by rw [(cview_eq hv).2.2.2.2.1]; exact hs)
  obtain ⟨b', hb', hw⟩ := map_eq_some (h.stored id) hb
  exact ⟨b', hb', by rw [(sview_eq hw).2.2]; exact hact⟩

theorem Inv.owned {s : BState} (hI : Inv s) {c : ConnId} {x : BConn} (hx : s.conn? c = some x)
    (hl : x.alive = true ∨ x.zombie = true) : Owned s c := by
  intro x' id hx' hs
  rw [hx] at hx'
  cases hx'
  exact hI.owner c x id hx hl hs

/-- two connections that both own their stored session do not share it -/
theorem owner_unique {s : BState} {c c2 : ConnId} {x x2 : BConn} {id : ClientId}
    (ho : Owned s c) (hx : s.conn? c = some x) (hs : x.sref = .stored id)
    (ho2 : Owned s c2) (hx2 : s.conn? c2 = some x2) (hs2 : x2.sref = .stored id) : c2 = c := by
  obtain ⟨b, hb, ha⟩ := ho x id hx hs
  obtain ⟨b2, hb2, ha2⟩ := ho2 x2 id hx2 hs2
  rw [hb] at hb2
  cases hb2
  rw [ha] at ha2
  cases ha2
  rfl

/-- the session of another connection is not touched when `c` (owner of its session) writes its own -/
theorem sessOf_setSessOf_other {s : BState} {c c2 : ConnId} {x x2 : BConn} (b' : BSess)
    (hx : s.conn? c = some x) (hx2 : s.conn? c2 = some x2) (hne : c2 ≠ c)
    (hns : ∀ id, x.sref = .stored id → x2.sref = .stored id → False) :
    (s.setSessOf c b').sessOf c2 = s.sessOf c2 := by
  have hx2' : (s.setSessOf c b').conn? c2 = some x2 := by rw [setSessOf_conn?]; exact hx2
  rw [sessOf_some hx2', sessOf_some hx2]
  cases hr : x2.sref with
  | none => rfl
  | temp =>
    show Assoc.get (s.setSessOf c b').temp c2 = Assoc.get s.temp c2
    rw [get_temp_setSessOf b' hx]
    simp [hne]
  | stored id =>
    show Assoc.get (s.setSessOf c b').stored id = Assoc.get s.stored id
    rw [get_stored_setSessOf b' hx]
    split
    · rename_i h
      exact (hns id h hr).elim
    · rfl

/-- The local update: connection `c` (owner of its session) replaces its session `b` by `b'` and its
    record `x` by `x'` (same session reference, not more alive than before). -/
theorem Inv.update {s : BState} {c : ConnId} {x x' : BConn} {b b' : BSess} (hI : Inv s)
    (hx : s.conn? c = some x) (hb : s.sessOf c = some b)
    (hl : x.alive = true ∨ x.zombie = true)
    (hs : x'.sref = x.sref) (hact : b'.active = b.active)
    (hbound : x'.alive = true → tok x' + outLen b' ≤ s.cfg.window)
    (hlen : outLen b' ≤ s.cfg.window) (hnz : x'.alive = true → x'.zombie = false) :
    Inv ((s.setSessOf c b').setConn c x') := by
  have ho := hI.owned hx hl
  have hx1 : (s.setSessOf c b').conn? c = some x := by rw [setSessOf_conn?]; exact hx
  -- other live connections use other sessions
  have other : ∀ c2 x2, c2 ≠ c → s.conn? c2 = some x2 → (x2.alive = true ∨ x2.zombie = true) →
      ∀ id, x.sref = .stored id → x2.sref = .stored id → False := by
    intro c2 x2 hne hx2 hl2 id h1 h2
    exact hne (owner_unique ho hx h1 (hI.owned hx2 hl2) hx2 h2)
  refine ⟨?_, ?_, ?_, ?_⟩
  · intro c2 x2 b2 hx2 ha2 hb2
    rw [setConn_cfg, setSessOf_cfg]
    by_cases hc : c2 = c
    · subst hc
      rw [conn?_setConn_same] at hx2
      cases hx2
      rw [sessOf_upd_same b' hx hb hs] at hb2
      cases hb2
      exact hbound ha2
    · rw [conn?_setConn_other _ _ _ _ hc, setSessOf_conn?] at hx2
      rw [sessOf_setConn_same_sref hx1 hs,
        sessOf_setSessOf_other b' hx hx2 hc (other c2 x2 hc hx2 (Or.inl ha2))] at hb2
      exact hI.conn c2 x2 b2 hx2 ha2 hb2
  · intro id b2 hb2
    rw [setConn_cfg, setSessOf_cfg]
    rw [setConn_stored, get_stored_setSessOf b' hx] at hb2
    split at hb2
    · cases hb2; exact hlen
    · exact hI.stored id b2 hb2
  · intro c2 x2 id hx2 hl2 hs2
    rw [setConn_stored, get_stored_setSessOf b' hx]
    by_cases hc : c2 = c
    · subst hc
      rw [conn?_setConn_same] at hx2
      cases hx2
      rw [hs] at hs2
      rw [if_pos hs2]
      obtain ⟨b0, hb0, ha0⟩ := ho x id hx hs2
      rw [sessOf_some hx, hs2] at hb
      simp only [sessAt] at hb
      rw [hb0] at hb
      cases hb
      exact ⟨b', rfl, by rw [hact]; exact ha0⟩
    · rw [conn?_setConn_other _ _ _ _ hc, setSessOf_conn?] at hx2
      rw [if_neg (fun h => other c2 x2 hc hx2 hl2 id h hs2)]
      exact hI.owner c2 x2 id hx2 hl2 hs2
  · intro c2 x2 hx2 ha2
    by_cases hc : c2 = c
    · subst hc
      rw [conn?_setConn_same] at hx2
      cases hx2
      exact hnz ha2
    · rw [conn?_setConn_other _ _ _ _ hc, setSessOf_conn?] at hx2
      exact hI.nz c2 x2 hx2 ha2

/-- replacing a connection record by one that is not more alive and holds no more tokens -/
theorem Inv.setConn_le {s : BState} {c : ConnId} {x x' : BConn} (hI : Inv s)
    (hx : s.conn? c = some x) (hs : x'.sref = x.sref)
    (hl : (x'.alive = true ∨ x'.zombie = true) → (x.alive = true ∨ x.zombie = true))
    (ha : x'.alive = true → x.alive = true ∧ tok x' ≤ tok x)
    (hnz : x'.alive = true → x'.zombie = false) :
    Inv (s.setConn c x') := by
  refine ⟨?_, ?_, ?_, ?_⟩
  · intro c2 x2 b2 hx2 ha2 hb2
    rw [sessOf_setConn_same_sref hx hs] at hb2
    rw [setConn_cfg]
    by_cases hc : c2 = c
    · subst hc
      rw [conn?_setConn_same] at hx2
      cases hx2
      have := hI.conn c2 x b2 hx (ha ha2).1 hb2
      have := (ha ha2).2
      omega
    · rw [conn?_setConn_other _ _ _ _ hc] at hx2
      exact hI.conn c2 x2 b2 hx2 ha2 hb2
  · intro id b hb
    exact hI.stored id b hb
  · intro c2 x2 id hx2 hl2 hs2
    by_cases hc : c2 = c
    · subst hc
      rw [conn?_setConn_same] at hx2
      cases hx2
      exact hI.owner c2 x id hx (hl hl2) (by rw [← hs]; exact hs2)
    · rw [conn?_setConn_other _ _ _ _ hc] at hx2
      exact hI.owner c2 x2 id hx2 hl2 hs2
  · intro c2 x2 hx2 ha2
    by_cases hc : c2 = c
    · subst hc
      rw [conn?_setConn_same] at hx2
      cases hx2
      exact hnz ha2
    · rw [conn?_setConn_other _ _ _ _ hc] at hx2
      exact hI.nz c2 x2 hx2 ha2

/-- a fresh connection record without a session -/
theorem Inv.setConn_noSess {s : BState} {c : ConnId} {x' : BConn} (hI : Inv s)
    (hs : x'.sref = .none) (hnz : x'.alive = true → x'.zombie = false) : Inv (s.setConn c x') := by
  refine ⟨?_, ?_, ?_, ?_⟩
  · intro c2 x2 b2 hx2 ha2 hb2
    by_cases hc : c2 = c
    · subst hc
      rw [conn?_setConn_same] at hx2
      cases hx2
      rw [sessOf_some (conn?_setConn_same s c2 x'), hs] at hb2
      cases hb2
    · have hx2' := hx2
      rw [conn?_setConn_other _ _ _ _ hc] at hx2'
      rw [sessOf_some hx2, sessAt_setConn, ← sessOf_some hx2'] at hb2
      exact hI.conn c2 x2 b2 hx2' ha2 hb2
  · intro id b hb
    exact hI.stored id b hb
  · intro c2 x2 id hx2 hl2 hs2
    by_cases hc : c2 = c
    · subst hc
      rw [conn?_setConn_same] at hx2
      cases hx2
      rw [hs] at hs2
      cases hs2
    · rw [conn?_setConn_other _ _ _ _ hc] at hx2
      exact hI.owner c2 x2 id hx2 hl2 hs2
  · intro c2 x2 hx2 ha2
    by_cases hc : c2 = c
    · subst hc
      rw [conn?_setConn_same] at hx2
      cases hx2
      exact hnz ha2
    · rw [conn?_setConn_other _ _ _ _ hc] at hx2
      exact hI.nz c2 x2 hx2 ha2

/-! ### `backendTerminate` -/

theorem terminate_conns (s : BState) (c : ConnId) : (backendTerminate s c).conns = s.conns := by
  unfold backendTerminate
  simp only []
  split
  · simp only [setSessOf_conns]
  · rfl

theorem terminate_conn? (s : BState) (c c' : ConnId) : (backendTerminate s c).conn? c' = s.conn? c' := by
  unfold conn?; rw [terminate_conns]

theorem terminate_cfg (s : BState) (c : ConnId) : (backendTerminate s c).cfg = s.cfg := by
  unfold backendTerminate
  simp only []
  split
  · simp only [setSessOf_cfg]
  · rfl

theorem terminate_stored (s : BState) (c : ConnId) (id : ClientId) :
    Assoc.get (backendTerminate s c).stored id =
      match s.conn? c with
      | some x => if x.sref = .stored id then (Assoc.get s.stored id).map (fun b => { b with active := none })
                  else Assoc.get s.stored id
      | none => Assoc.get s.stored id := by
  unfold backendTerminate
  simp only []
  cases hx : s.conn? c with
  | none =>
    have : ({ s with bevents := s.bevents ++ [BEvent.terminate c] } : BState).sessOf c = none :=
      sessOf_none hx
    rw [this]
  | some x =>
    have hx0 : ({ s with bevents := s.bevents ++ [BEvent.terminate c] } : BState).conn? c = some x := hx
    have hs0 : ({ s with bevents := s.bevents ++ [BEvent.terminate c] } : BState).sessOf c
        = sessAt s c x.sref := sessOf_some hx0
    simp only []
    cases hb : sessAt s c x.sref with
    | none =>
      rw [hs0, hb]
      simp only []
      split
      · rename_i h
        rw [h] at hb
        simp only [sessAt] at hb
        rw [hb]; rfl
      · rfl
    | some b =>
      rw [hs0, hb]
      simp only []
      rw [get_stored_setSessOf _ hx0]
      split
      · rename_i h
        rw [h] at hb
        simp only [sessAt] at hb
        show _ = (Assoc.get s.stored id).map _
        rw [hb]; rfl
      · rfl

theorem terminate_temp (s : BState) (c k : ConnId) :
    Assoc.get (backendTerminate s c).temp k = if k = c then none else Assoc.get s.temp k := by
  unfold backendTerminate
  simp only []
  rw [get_del]
  by_cases hk : k = c
  · simp [hk]
  · simp only [hk, if_false]
    split
    · rename_i b hb
      obtain ⟨x, hx, _⟩ := sessOf_conn hb
      rw [get_temp_setSessOf _ hx]
      simp [hk]
    · rfl

/-- `Terminate` for a connection that is closed and owns its session -/
theorem terminate_inv {s : BState} {c : ConnId} (hI : Inv s) (ho : Owned s c)
    (hd : ∀ x, s.conn? c = some x → x.alive = false ∧ x.zombie = false) :
    Inv (backendTerminate s c) := by
  -- a stored session used by another live connection is not the one of `c`
  have other : ∀ c2 x2 id, s.conn? c2 = some x2 → (x2.alive = true ∨ x2.zombie = true) →
      x2.sref = .stored id →
      Assoc.get (backendTerminate s c).stored id = Assoc.get s.stored id := by
    intro c2 x2 id hx2 hl2 hs2
    rw [terminate_stored]
    cases hx : s.conn? c with
    | none => rfl
    | some x =>
      simp only []
      split
      · rename_i h
        have := owner_unique ho hx h (hI.owned hx2 hl2) hx2 hs2
        subst this
        obtain ⟨h1, h2⟩ := hd x2 hx2
        rcases hl2 with h | h
        · rw [h1] at h; cases h
        · rw [h2] at h; cases h
      · rfl
  have ne : ∀ c2 x2, s.conn? c2 = some x2 → (x2.alive = true ∨ x2.zombie = true) → c2 ≠ c := by
    intro c2 x2 hx2 hl2 e
    subst e
    obtain ⟨h1, h2⟩ := hd x2 hx2
    rcases hl2 with h | h
    · rw [h1] at h; cases h
    · rw [h2] at h; cases h
  refine ⟨?_, ?_, ?_, fun c2 x2 hx2 ha2 => hI.nz c2 x2 (by rw [terminate_conn?] at hx2; exact hx2) ha2⟩
  · intro c2 x2 b2 hx2 ha2 hb2
    rw [terminate_conn?] at hx2
    rw [terminate_cfg]
    have hx2' : (backendTerminate s c).conn? c2 = some x2 := by rw [terminate_conn?]; exact hx2
    rw [sessOf_some hx2'] at hb2
    refine hI.conn c2 x2 b2 hx2 ha2 ?_
    rw [sessOf_some hx2]
    cases hr : x2.sref with
    | none => rw [hr] at hb2; exact hb2
    | temp =>
      rw [hr] at hb2
      simp only [sessAt] at hb2 ⊢
      rw [terminate_temp, if_neg (ne c2 x2 hx2 (Or.inl ha2))] at hb2
      exact hb2
    | stored id =>
      rw [hr] at hb2
      simp only [sessAt] at hb2 ⊢
      rw [other c2 x2 id hx2 (Or.inl ha2) hr] at hb2
      exact hb2
  · intro id b hb
    rw [terminate_cfg]
    rw [terminate_stored] at hb
    split at hb
    · split at hb
      · cases h0 : Assoc.get s.stored id with
        | none => rw [h0] at hb; cases hb
        | some b0 =>
          rw [h0] at hb
          simp only [Option.map_some, Option.some.injEq] at hb
          subst hb
          exact hI.stored id b0 h0
      · exact hI.stored id b hb
    · exact hI.stored id b hb
  · intro c2 x2 id hx2 hl2 hs2
    rw [terminate_conn?] at hx2
    rw [other c2 x2 id hx2 hl2 hs2]
    exact hI.owner c2 x2 id hx2 hl2 hs2

/-! ### `kill` -/

/-- no step ever makes a connection the active client of a stored session except `Setup` -/
def ActiveMono (s s' : BState) : Prop :=
  ∀ id b' c2, Assoc.get s'.stored id = some b' → b'.active = some c2 →
    ∃ b, Assoc.get s.stored id = some b ∧ b.active = some c2

theorem ActiveMono.refl (s : BState) : ActiveMono s s := fun _ b' _ h1 h2 => ⟨b', h1, h2⟩

theorem ActiveMono.trans {s s' s'' : BState} (h : ActiveMono s s') (h' : ActiveMono s' s'') :
    ActiveMono s s'' := by
  intro id b'' c2 h1 h2
  obtain ⟨b', h3, h4⟩ := h' id b'' c2 h1 h2
  exact h id b' c2 h3 h4

theorem ActiveMono.of_coreEq {s s' : BState} (h : CoreEq s s') : ActiveMono s s' := by
  intro id b' c2 h1 h2
  obtain ⟨b, hb, hw⟩ := map_eq_some (h.symm.stored id) h1
  exact ⟨b, hb, by rw [(sview_eq hw).2.2]; exact h2⟩

theorem ActiveMono.terminate (s : BState) (c : ConnId) : ActiveMono s (backendTerminate s c) := by
  intro id b' c2 h1 h2
  rw [terminate_stored] at h1
  split at h1
  · split at h1
    · cases h0 : Assoc.get s.stored id with
      | none => rw [h0] at h1; cases h1
      | some b0 =>
        rw [h0] at h1
        simp only [Option.map_some, Option.some.injEq] at h1
        subst h1
        cases h2
    · exact ⟨b', h1, h2⟩
  · exact ⟨b', h1, h2⟩

theorem ActiveMono.update {s : BState} {c : ConnId} {x x' : BConn} {b b' : BSess}
    (hx : s.conn? c = some x) (hb : s.sessOf c = some b) (hact : b'.active = b.active) :
    ActiveMono s ((s.setSessOf c b').setConn c x') := by
  intro id b2 c2 h1 h2
  rw [setConn_stored, get_stored_setSessOf b' hx] at h1
  split at h1
  · rename_i hs
    cases h1
    rw [sessOf_some hx, hs] at hb
    exact ⟨b, hb, by rw [← hact]; exact h2⟩
  · exact ⟨b2, h1, h2⟩

theorem Pop.frame {b bq : BSess} {m : Message} (h : Pop b m bq) :
    bq.sess = b.sess ∧ bq.active = b.active ∧ bq.subs = b.subs := by
  cases h <;> exact ⟨rfl, rfl, rfl⟩

theorem length_save_le (st : PacketStore) (p : Packet) :
    (st.save p).entries.length ≤ st.entries.length + 1 := by
  unfold PacketStore.save
  split
  · rename_i id _
    simp only [List.length_append, List.length_singleton]
    have := length_erase_le st.entries id
    omega
  · omega

theorem Owned.update {s : BState} {c : ConnId} {x x' : BConn} {b b' : BSess} (ho : Owned s c)
    (hx : s.conn? c = some x) (hb : s.sessOf c = some b) (hs : x'.sref = x.sref)
    (hact : b'.active = b.active) : Owned ((s.setSessOf c b').setConn c x') c := by
  intro x2 id hx2 hs2
  rw [conn?_setConn_same] at hx2
  cases hx2
  rw [hs] at hs2
  rw [setConn_stored, get_stored_setSessOf b' hx, if_pos hs2]
  obtain ⟨b0, hb0, ha0⟩ := ho x id hx hs2
  rw [sessOf_some hx, hs2] at hb
  simp only [sessAt] at hb
  rw [hb0] at hb
  cases hb
  exact ⟨b', rfl, by rw [hact]; exact ha0⟩

theorem Owned.setConn {s : BState} {c : ConnId} {x x' : BConn} (ho : Owned s c)
    (hx : s.conn? c = some x) (hs : x'.sref = x.sref) : Owned (s.setConn c x') c := by
  intro x2 id hx2 hs2
  rw [conn?_setConn_same] at hx2
  cases hx2
  rw [hs] at hs2
  exact ho x id hx hs2

theorem lastTake_eq (s : BState) (c : ConnId) {b bq : BSess} {out : Message} (hp : Pop b out bq) :
    ∃ b1, lastTake s c bq out = s.setSessOf c b1 ∧ b1.active = b.active ∧
      outLen b1 ≤ outLen b + 1 := by
  obtain ⟨e1, e2, _⟩ := hp.frame
  unfold lastTake
  split
  · exact ⟨bq, rfl, e2, by simp [outLen, e1]⟩
  · split
    · exact ⟨_, rfl, e2, by simp [outLen, e1]⟩
    · refine ⟨_, rfl, e2, ?_⟩
      simp only [outLen, savePacket_outgoing, MemorySession.freshID_outgoing, e1]
      exact length_save_le _ _

/-- what the dying dequeuer leaves behind, followed by marking the connection closed -/
theorem lastDequeue_dead {s : BState} {c : ConnId} {x x' : BConn} {s1 : BState} (hI : Inv s)
    (hx : s.conn? c = some x) (ha : x.alive = true) (h1 : s1 ∈ lastDequeue s c x)
    (hs : x'.sref = x.sref) (ha' : x'.alive = false) :
    Inv (s1.setConn c x') ∧ Owned (s1.setConn c x') c ∧ ActiveMono s (s1.setConn c x') := by
  have ho := hI.owned hx (Or.inl ha)
  rcases lastDequeue_cases h1 with rfl | ⟨_, hh, b, out, bq, hb, hp, rfl⟩
  · refine ⟨hI.setConn_le hx hs (fun _ => Or.inl ha) (fun h => ?_) (fun h => ?_), ho.setConn hx hs,
      fun _ b' _ h1 h2 => ⟨b', h1, h2⟩⟩
    · rw [ha'] at h; cases h
    · rw [ha'] at h; cases h
  · obtain ⟨b1, e, hact, hlen⟩ := lastTake_eq s c hp
    rw [e]
    refine ⟨hI.update hx hb (Or.inl ha) hs hact (fun h => ?_) ?_ (fun h => ?_), ho.update hx hb hs hact,
      ActiveMono.update hx hb hact⟩
    · rw [ha'] at h; cases h
    · have := hI.conn c x b hx ha hb
      simp only [tok, hh, if_true] at this
      omega
    · rw [ha'] at h; cases h

/-- `kill` keeps the invariant; the killed connection is closed afterwards; no session gets a new
    active client -/
theorem kill_post {s : BState} {c : ConnId} {s' : BState} (hI : Inv s) (hk : Killed s c s') :
    Inv s' ∧ ActiveMono s s' ∧ (∀ x', s'.conn? c = some x' → x'.alive = false) ∧ s'.cfg = s.cfg := by
  cases hk with
  | noop h e =>
    subst e
    refine ⟨hI, ActiveMono.refl _, fun x' hx' => ?_, rfl⟩
    rcases h with h | ⟨x, hx, hd⟩
    · rw [h] at hx'; cases hx'
    · rw [hx] at hx'; cases hx'; exact hd
  | zombie x s1 hx ha h1 hst e =>
    subst e
    obtain ⟨i1, _, i3⟩ := lastDequeue_dead (x' := { x with alive := false, running := false, zombie := true })
      hI hx ha h1 rfl rfl
    refine ⟨i1, i3, fun x' hx' => ?_, ?_⟩
    · rw [conn?_setConn_same] at hx'; cases hx'; rfl
    · rcases lastDequeue_cases h1 with rfl | ⟨_, _, b, out, bq, _, _, rfl⟩
      · rfl
      · unfold lastTake; split <;> (try split) <;> simp
  | dead x s1 s2 hx ha h1 hst hw e =>
    obtain ⟨i1, i2, i3⟩ := lastDequeue_dead (x' := { x with alive := false, running := false })
      hI hx ha h1 rfl rfl
    have hc := CoreEq.of_will hw
    have j1 := i1.congr hc
    have j2 := i2.congr hc
    have j3 := i3.trans (ActiveMono.of_coreEq hc)
    have hcfg1 : (s1.setConn c { x with alive := false, running := false }).cfg = s.cfg := by
      rcases lastDequeue_cases h1 with rfl | ⟨_, _, b, out, bq, _, _, rfl⟩
      · rfl
      · unfold lastTake; split <;> (try split) <;> simp
    have hdead : ∀ x2, s2.conn? c = some x2 → x2.alive = false ∧ x2.zombie = false := by
      intro x2 hx2
      obtain ⟨x1, hx1, hv⟩ := hc.symm.conn_some hx2
      rw [conn?_setConn_same] at hx1
      cases hx1
      obtain ⟨e1, _, e3, _⟩ := cview_eq hv
      exact ⟨e1.symm, e3.symm.trans (hI.nz c x hx ha)⟩
    subst e
    split
    · refine ⟨terminate_inv j1 j2 hdead, j3.trans (ActiveMono.terminate _ _), fun x' hx' => ?_, ?_⟩
      · rw [terminate_conn?] at hx'
        exact (hdead x' hx').1
      · rw [terminate_cfg, hc.cfg, hcfg1]
    · exact ⟨j1, j3, fun x' hx' => (hdead x' hx').1, by rw [hc.cfg, hcfg1]⟩

theorem kill_RAll {s : BState} (c : ConnId) (hI : Inv s) :
    RAll (fun s' => Inv s' ∧ ActiveMono s s' ∧ (∀ x', s'.conn? c = some x' → x'.alive = false) ∧
      s'.cfg = s.cfg) (kill s c) :=
  fun _ e _ hm => kill_post hI (kill_cases e hm)

theorem kill_inv {s : BState} (c : ConnId) (hI : Inv s) : RAll Inv (kill s c) :=
  RAll_mono (kill_RAll c hI) (fun _ h => h.1)

/-! ### tokens -/

theorem retake_sref (x : BConn) : (retake x).sref = x.sref := by unfold retake; split <;> rfl
theorem retake_alive (x : BConn) : (retake x).alive = x.alive := by unfold retake; split <;> rfl
theorem retake_zombie (x : BConn) : (retake x).zombie = x.zombie := by unfold retake; split <;> rfl
theorem retake_running (x : BConn) : (retake x).running = x.running := by unfold retake; split <;> rfl

/-- taking a token out of the channel does not change the number of tokens -/
theorem tok_retake (x : BConn) : tok (retake x) = tok x := by
  unfold retake
  split
  · rename_i h
    simp only [Bool.and_eq_true, Bool.not_eq_eq_eq_not, Bool.not_true, decide_eq_true_eq] at h
    obtain ⟨⟨_, hh⟩, hc⟩ := h
    simp only [tok, hh, if_true, Bool.false_eq_true, if_false]
    omega
  · rfl

theorem putDeq_sref (cfg : Cfg) (x : BConn) : (putDeq cfg x).sref = x.sref := by
  unfold putDeq; rw [retake_sref]; split <;> rfl
theorem putDeq_alive (cfg : Cfg) (x : BConn) : (putDeq cfg x).alive = x.alive := by
  unfold putDeq; rw [retake_alive]; split <;> rfl
theorem putDeq_zombie (cfg : Cfg) (x : BConn) : (putDeq cfg x).zombie = x.zombie := by
  unfold putDeq; rw [retake_zombie]; split <;> rfl

/-- a returned token is added unless the channel is full -/
theorem tok_putDeq (cfg : Cfg) (x : BConn) :
    tok (putDeq cfg x) = if x.deqChan < cfg.window then tok x + 1 else tok x := by
  unfold putDeq
  rw [tok_retake]
  split
  · simp only [tok]; omega
  · rfl

/-! ### the dequeuer -/

theorem acceptDelivery_window {s : BState} {c : ConnId} {x : BConn} {b : BSess} {m : Message}
    {id : UInt16} {s' : BState} (hI : Inv s) (hx : s.conn? c = some x) (ha : x.alive = true)
    (hb : s.sessOf c = some b) (h : acceptDelivery s c x b m id = some s') : Inv s' := by
  obtain ⟨hh, bq, hp, hf⟩ := acceptDelivery_cases h
  obtain ⟨e1, e2, _⟩ := hp.frame
  have hw := hI.conn c x b hx ha hb
  simp only [tok, hh, if_true] at hw
  have hz := hI.nz c x hx ha
  rcases hf with ⟨_, _, rfl⟩ | ⟨_, _, rfl⟩
  · unfold finishQ0
    refine hI.update hx hb (Or.inl ha) (retake_sref _) e2 (fun _ => ?_) ?_ (fun _ => ?_)
    · rw [tok_retake]
      simp only [tok, Bool.false_eq_true, if_false, outLen, e1]
      simp only [outLen] at hw
      omega
    · simp only [outLen, e1]; simp only [outLen] at hw; omega
    · rw [retake_zombie]; exact hz
  · unfold finishQ12
    have hl : outLen { bq with sess := (bq.sess.freshID.2).savePacket .outgoing (.publish m false id) }
        ≤ outLen b + 1 := by
      simp only [outLen, savePacket_outgoing, MemorySession.freshID_outgoing, e1]
      exact length_save_le _ _
    refine hI.update hx hb (Or.inl ha) (retake_sref _) e2 (fun _ => ?_) ?_ (fun _ => ?_)
    · rw [tok_retake]
      simp only [tok, Bool.false_eq_true, if_false]
      omega
    · omega
    · rw [retake_zombie]; exact hz

/-- `deqChan + hand` and `outgoing` are untouched by a QoS 0 delivery -/
theorem acceptDelivery_qos0 {s : BState} {c : ConnId} {x : BConn} {b : BSess} {m : Message}
    {id : UInt16} {s' : BState} (hx : s.conn? c = some x) (hb : s.sessOf c = some b)
    (h : acceptDelivery s c x b m id = some s') (hq : m.qos = 0) (hroom : tok x ≤ s.cfg.window) :
    ∃ x' b', s'.conn? c = some x' ∧ s'.sessOf c = some b' ∧ tok x' = tok x ∧
      b'.sess = b.sess := by
  obtain ⟨hh, bq, hp, hf⟩ := acceptDelivery_cases h
  obtain ⟨e1, _, _⟩ := hp.frame
  rcases hf with ⟨_, _, rfl⟩ | ⟨hq', _, _⟩
  · unfold finishQ0
    refine ⟨_, bq, conn?_setConn_same _ _ _, sessOf_upd_same bq hx hb (retake_sref _), ?_, e1⟩
    rw [tok_retake]
    simp only [tok, hh, if_true, Bool.false_eq_true, if_false] at hroom ⊢
    omega
  · exact absurd hq hq'

/-! ### acknowledgements from the subscriber -/

/-- state after the processor handled PUBACK / PUBCOMP `id` on a session `b` -/
def afterAck (s : BState) (c : ConnId) (b : BSess) (id : UInt16) : BState :=
  (s.setSessOf c { b with sess := b.sess.deletePacket .outgoing id }).updConn c (putDeq s.cfg)

theorem afterAck_eq {s : BState} {c : ConnId} {x : BConn} (b : BSess) (id : UInt16)
    (hx : s.conn? c = some x) :
    afterAck s c b id =
      (s.setSessOf c { b with sess := b.sess.deletePacket .outgoing id }).setConn c (putDeq s.cfg x) := by
  unfold afterAck
  rw [updConn_some _ (by rw [setSessOf_conn?]; exact hx)]

theorem recv_puback_window {s : BState} {c : ConnId} {x : BConn} {b : BSess} {id : UInt16}
    (hI : Inv s) (hx : s.conn? c = some x) (ha : x.alive = true) (hb : s.sessOf c = some b)
    (hk : id ∈ b.sess.outgoing.entries.map (·.1)) : Inv (afterAck s c b id) := by
  rw [afterAck_eq b id hx]
  have hw := hI.conn c x b hx ha hb
  have hlt : outLen { b with sess := b.sess.deletePacket .outgoing id } < outLen b := by
    simp only [outLen, deletePacket_outgoing, delete_entries]
    exact length_erase_lt _ _ hk
  refine hI.update hx hb (Or.inl ha) (putDeq_sref _ _) rfl (fun _ => ?_) ?_ (fun _ => ?_)
  · rw [tok_putDeq]
    split <;> omega
  · omega
  · rw [putDeq_zombie]; exact hI.nz c x hx ha

/-- state after the processor handled PUBREC `id` -/
def afterPubrec (s : BState) (c : ConnId) (b : BSess) (id : UInt16) : BState :=
  (s.setSessOf c { b with sess := b.sess.savePacket .outgoing (.pubrel id) }).updConn c
    fun x => { x with procOut := x.procOut ++ [.pubrel id] }

theorem recv_pubrec_window {s : BState} {c : ConnId} {x : BConn} {b : BSess} {id : UInt16}
    (hI : Inv s) (hx : s.conn? c = some x) (ha : x.alive = true) (hb : s.sessOf c = some b)
    (hk : id ∈ b.sess.outgoing.entries.map (·.1)) : Inv (afterPubrec s c b id) := by
  unfold afterPubrec
  rw [updConn_some _ (by rw [setSessOf_conn?]; exact hx)]
  have hw := hI.conn c x b hx ha hb
  have hle : outLen { b with sess := b.sess.savePacket .outgoing (.pubrel id) } ≤ outLen b := by
    simp only [outLen, savePacket_outgoing, save_pubrel_entries, List.length_append,
      List.length_singleton]
    have := length_erase_lt _ _ hk
    omega
  refine hI.update hx hb (Or.inl ha) rfl rfl (fun _ => ?_) ?_ (fun _ => hI.nz c x hx ha)
  · have : tok { x with procOut := x.procOut ++ [Packet.pubrel id] } = tok x := rfl
    omega
  · omega

/-! ### `Setup` / CONNACK / resend -/

/-- A connection `c` is (re)started with record `x'` on a session that `Setup` just installed:
    `s'` differs from `s` only in `c`'s record, in the stored entry `x'` refers to (if any), in
    entries no live connection refers to, and in `c`'s own temporary entry. -/
theorem Inv.install {s s' : BState} {c : ConnId} {x' : BConn} (hI : Inv s)
    (hcfg : s'.cfg = s.cfg)
    (hconn : ∀ c2, s'.conn? c2 = if c2 = c then some x' else s.conn? c2)
    (hst : ∀ id2 b2, Assoc.get s'.stored id2 = some b2 → Assoc.get s.stored id2 = some b2 ∨
      (x'.sref = .stored id2 ∧ b2.active = some c ∧ outLen b2 ≤ s.cfg.window))
    (hst2 : ∀ c2 x2 id2, c2 ≠ c → s.conn? c2 = some x2 → (x2.alive = true ∨ x2.zombie = true) →
      x2.sref = .stored id2 → Assoc.get s'.stored id2 = Assoc.get s.stored id2)
    (htp : ∀ c2, c2 ≠ c → Assoc.get s'.temp c2 = Assoc.get s.temp c2)
    (hown : ∀ id2, x'.sref = .stored id2 → ∃ b, Assoc.get s'.stored id2 = some b ∧ b.active = some c)
    (hbound : x'.alive = true → ∀ b, sessAt s' c x'.sref = some b → tok x' + outLen b ≤ s.cfg.window)
    (hnz : x'.alive = true → x'.zombie = false) : Inv s' := by
  have hc_same : s'.conn? c = some x' := by rw [hconn]; simp
  have hc_other : ∀ c2, c2 ≠ c → s'.conn? c2 = s.conn? c2 := by
    intro c2 h; rw [hconn]; simp [h]
  refine ⟨?_, ?_, ?_, ?_⟩
  · intro c2 x2 b2 hx2 ha2 hb2
    rw [hcfg]
    by_cases hc : c2 = c
    · subst hc
      rw [hc_same] at hx2
      cases hx2
      rw [sessOf_some hc_same] at hb2
      exact hbound ha2 b2 hb2
    · have hx2' := hx2
      rw [hc_other c2 hc] at hx2'
      refine hI.conn c2 x2 b2 hx2' ha2 ?_
      rw [sessOf_some hx2] at hb2
      rw [sessOf_some hx2']
      cases hr : x2.sref with
      | none => rw [hr] at hb2; exact hb2
      | temp =>
        rw [hr] at hb2
        simp only [sessAt] at hb2 ⊢
        rw [htp c2 hc] at hb2
        exact hb2
      | stored id2 =>
        rw [hr] at hb2
        simp only [sessAt] at hb2 ⊢
        rw [hst2 c2 x2 id2 hc hx2' (Or.inl ha2) hr] at hb2
        exact hb2
  · intro id2 b2 hb2
    rw [hcfg]
    rcases hst id2 b2 hb2 with h | ⟨_, _, h⟩
    · exact hI.stored id2 b2 h
    · exact h
  · intro c2 x2 id2 hx2 hl2 hs2
    by_cases hc : c2 = c
    · subst hc
      rw [hc_same] at hx2
      cases hx2
      exact hown id2 hs2
    · rw [hc_other c2 hc] at hx2
      rw [hst2 c2 x2 id2 hc hx2 hl2 hs2]
      exact hI.owner c2 x2 id2 hx2 hl2 hs2
  · intro c2 x2 hx2 ha2
    by_cases hc : c2 = c
    · subst hc
      rw [hc_same] at hx2
      cases hx2
      exact hnz ha2
    · rw [hc_other c2 hc] at hx2
      exact hI.nz c2 x2 hx2 ha2

theorem resend_fst_len (b : BSess) (x : BConn) : outLen (resend b x).1 = outLen b := by
  simp [resend, outLen]

theorem resend_fst_active (b : BSess) (x : BConn) : (resend b x).1.active = b.active := rfl
theorem resend_snd_sref (b : BSess) (x : BConn) : (resend b x).2.sref = x.sref := rfl
theorem resend_snd_alive (b : BSess) (x : BConn) : (resend b x).2.alive = x.alive := rfl
theorem resend_snd_zombie (b : BSess) (x : BConn) : (resend b x).2.zombie = x.zombie := rfl
theorem resend_snd_tok (b : BSess) (x : BConn) :
    tok (resend b x).2 = x.deqChan - outLen b + (if x.deqHand then 1 else 0) := by
  simp [resend, tok, outLen]

theorem startConn_tok (cfg : Cfg) (x : BConn) : tok (startConn cfg x) = cfg.window := by
  simp [startConn, tok]

theorem conn?_with_setConn (s s0 : BState) (c c2 : ConnId) (x' : BConn) (h : s0.conns = s.conns) :
    (s0.setConn c x').conn? c2 = if c2 = c then some x' else s.conn? c2 := by
  rw [conn?_setConn]
  unfold conn?
  rw [h]

theorem tempFinal_inv {s : BState} {c : ConnId} {x : BConn} (hI : Inv s) (will : Option Message)
    (hnz : x.alive = true → x.zombie = false) : Inv (tempFinal s c x will) := by
  unfold tempFinal
  refine hI.install rfl (fun c2 => conn?_with_setConn s _ c c2 _ rfl) (fun _ _ h => Or.inl h)
    (fun _ _ _ _ _ _ _ => rfl) (fun c2 hc => get_set_other _ _ _ _ hc) ?_ ?_ ?_
  · intro id2 h
    rw [retake_sref] at h
    cases h
  · intro _ b hb
    rw [retake_sref] at hb
    simp only [startConn, sessAt, setConn_temp, get_set_same, Option.some.injEq] at hb
    subst hb
    rw [tok_retake, startConn_tok]
    simp [outLen, newSess]
  · intro h
    rw [retake_alive] at h
    rw [retake_zombie]
    exact hnz h

theorem cleanFinal_inv {s : BState} {c : ConnId} {x : BConn} {id : ClientId} (hI : Inv s)
    (will : Option Message) (hnz : x.alive = true → x.zombie = false)
    (hU : ∀ c2 x2, s.conn? c2 = some x2 → (x2.alive = true ∨ x2.zombie = true) →
      x2.sref = .stored id → False) : Inv (cleanFinal s c x id will) := by
  unfold cleanFinal
  refine hI.install rfl (fun c2 => conn?_with_setConn s _ c c2 _ rfl) ?_ ?_
    (fun c2 hc => get_set_other _ _ _ _ hc) ?_ ?_ ?_
  · intro id2 b2 h
    simp only [setConn_stored, get_del] at h
    split at h
    · cases h
    · exact Or.inl h
  · intro c2 x2 id2 _ hx2 hl2 hs2
    simp only [setConn_stored, get_del]
    split
    · rename_i e
      subst e
      exact (hU c2 x2 hx2 hl2 hs2).elim
    · rfl
  · intro id2 h
    rw [retake_sref] at h
    cases h
  · intro _ b hb
    rw [retake_sref] at hb
    simp only [startConn, sessAt, setConn_temp, get_set_same, Option.some.injEq] at hb
    subst hb
    rw [tok_retake, startConn_tok]
    simp [outLen, newSess]
  · intro h
    rw [retake_alive] at h
    rw [retake_zombie]
    exact hnz h

theorem newFinal_inv {s : BState} {c : ConnId} {x : BConn} {id : ClientId} (hI : Inv s)
    (will : Option Message) (hnz : x.alive = true → x.zombie = false)
    (hU : ∀ c2 x2, s.conn? c2 = some x2 → (x2.alive = true ∨ x2.zombie = true) →
      x2.sref = .stored id → False) : Inv (newFinal s c x id will) := by
  unfold newFinal
  refine hI.install rfl (fun c2 => conn?_with_setConn s _ c c2 _ rfl) ?_ ?_
    (fun c2 _ => rfl) ?_ ?_ ?_
  · intro id2 b2 h
    simp only [setConn_stored, get_set] at h
    split at h
    · rename_i e
      subst e
      cases h
      exact Or.inr ⟨by rw [retake_sref]; rfl, rfl, by simp [outLen, newSess]⟩
    · exact Or.inl h
  · intro c2 x2 id2 _ hx2 hl2 hs2
    simp only [setConn_stored, get_set]
    split
    · rename_i e
      subst e
      exact (hU c2 x2 hx2 hl2 hs2).elim
    · rfl
  · intro id2 h
    rw [retake_sref] at h
    simp only [startConn, SessRef.stored.injEq] at h
    subst h
    exact ⟨newSess c, by simp only [setConn_stored, get_set_same], rfl⟩
  · intro _ b hb
    rw [retake_sref] at hb
    simp only [startConn, sessAt, setConn_stored, get_set_same, Option.some.injEq] at hb
    subst hb
    rw [tok_retake, startConn_tok]
    simp [outLen, newSess]
  · intro h
    rw [retake_alive] at h
    rw [retake_zombie]
    exact hnz h

theorem resumeFinal_inv {s : BState} {c : ConnId} {x : BConn} {id : ClientId} {b : BSess} (hI : Inv s)
    (will : Option Message) (hnz : x.alive = true → x.zombie = false)
    (hb : Assoc.get s.stored id = some b)
    (hU : ∀ c2 x2, s.conn? c2 = some x2 → (x2.alive = true ∨ x2.zombie = true) →
      x2.sref = .stored id → False) : Inv (resumeFinal s c x id will b) := by
  have hlen := hI.stored id b hb
  have hl1 : outLen (resend (resumedSess c b) (resumedConn s.cfg x id will)).1 = outLen b := by
    rw [resend_fst_len]; rfl
  unfold resumeFinal
  refine hI.install rfl (fun c2 => conn?_with_setConn s _ c c2 _ rfl) ?_ ?_
    (fun c2 _ => rfl) ?_ ?_ ?_
  · intro id2 b2 h
    simp only [setConn_stored, get_set] at h
    split at h
    · rename_i e
      subst e
      cases h
      exact Or.inr ⟨by rw [retake_sref]; rfl, rfl, by rw [hl1]; exact hlen⟩
    · exact Or.inl h
  · intro c2 x2 id2 _ hx2 hl2 hs2
    simp only [setConn_stored, get_set]
    split
    · rename_i e
      subst e
      exact (hU c2 x2 hx2 hl2 hs2).elim
    · rfl
  · intro id2 h
    rw [retake_sref, resend_snd_sref] at h
    simp only [resumedConn, startConn, SessRef.stored.injEq] at h
    subst h
    exact ⟨_, get_set_same _ _ _, rfl⟩
  · intro _ b2 hb2
    rw [retake_sref, resend_snd_sref] at hb2
    have hsr : (resumedConn s.cfg x id will).sref = .stored id := rfl
    rw [hsr] at hb2
    simp only [sessAt, setConn_stored, get_set_same, Option.some.injEq] at hb2
    subst hb2
    rw [tok_retake, resend_snd_tok, hl1]
    have h1 : outLen (resumedSess c b) = outLen b := rfl
    have h2 : (resumedConn s.cfg x id will).deqChan = s.cfg.window := rfl
    have h3 : (resumedConn s.cfg x id will).deqHand = false := rfl
    rw [h1, h2, h3]
    simp only [Bool.false_eq_true, if_false]
    omega
  · intro h
    rw [retake_alive] at h
    rw [retake_zombie]
    exact hnz h

theorem afterTakeover_inv {s : BState} {c : ConnId} {x : BConn} {id : ClientId} (hI : Inv s)
    (clean : Bool) (will : Option Message) (hnz : x.alive = true → x.zombie = false)
    (hU : ∀ c2 x2, s.conn? c2 = some x2 → (x2.alive = true ∨ x2.zombie = true) →
      x2.sref = .stored id → False) : Inv (afterTakeover s c x id clean will) := by
  unfold afterTakeover
  split
  · exact cleanFinal_inv hI will hnz hU
  · split
    · rename_i b hb
      exact resumeFinal_inv hI will hnz hb hU
    · exact newFinal_inv hI will hnz hU

/-- `processConnect` from `Setup` on keeps the invariant: a resumed session brings at most `window`
    unacknowledged packets (clause `stored`), the resend loop charges one token for each -/
theorem setup_inv {s : BState} {c : ConnId} {x0 x : BConn} (hI : Inv s) (hx0 : s.conn? c = some x0)
    (hv : cview x = cview x0) (id : ClientId) (clean : Bool) (will : Option Message) :
    RAll Inv (setupAndConnack s c x id clean will) := by
  rw [setupAndConnack_eq]
  simp only []
  have hnz0 : x.alive = true → x.zombie = false := by
    intro h
    obtain ⟨e1, _, e3, _⟩ := cview_eq hv
    rw [e3]
    exact hI.nz c x0 hx0 (by rw [← e1]; exact h)
  generalize hx1 : ({ x with phase := .connected, id := id } : BConn) = x1
  have hv1 : cview x1 = cview x0 := by subst hx1; exact hv
  have hnz : x1.alive = true → x1.zombie = false := by subst hx1; exact hnz0
  have hI1 : Inv (s.setConn c x1) := hI.congr (CoreEq.of_setConn hx0 hv1)
  generalize s.setConn c x1 = s1 at hI1 ⊢
  split
  · exact kill_inv c hI1
  split
  · exact RAll_one (tempFinal_inv hI1 will hnz)
  refine RAll_bind (Q := fun s3 => Inv s3 ∧ ActiveMono s1 s3 ∧
    (∀ oc, existingOf s1 id = some oc → ∀ x', s3.conn? oc = some x' → x'.alive = false)) ?_ ?_
  · split
    · rename_i oc he
      refine RAll_mono (kill_RAll oc hI1) ?_
      rintro s3 ⟨h1, h2, h3, _⟩
      refine ⟨h1, h2, fun oc' e => ?_⟩
      rw [he] at e
      cases e
      exact h3
    · rename_i he
      refine RAll_one ⟨hI1, ActiveMono.refl _, fun oc e => ?_⟩
      rw [he] at e
      cases e
  · rintro s3 ⟨hI3, hm, hdead⟩
    split
    · exact kill_inv c hI3
    · rename_i htf
      refine RAll_one (afterTakeover_inv hI3 clean will hnz ?_)
      intro c2 x2 hx2 hl2 hs2
      obtain ⟨b3, hb3, ha3⟩ := hI3.owner c2 x2 id hx2 hl2 hs2
      obtain ⟨b1, hb1, ha1⟩ := hm id b3 c2 hb3 ha3
      have hex : existingOf s1 id = some c2 := by
        unfold existingOf; rw [hb1]; exact ha1
      have hal := hdead c2 hex x2 hx2
      rw [hex] at htf
      simp only [takeoverFailed, hx2, Bool.not_eq_true] at htf
      rcases hl2 with h | h
      · rw [hal] at h; cases h
      · rw [htf] at h; cases h

/-! ### the processor -/

/-- the subscriber acknowledges only what it received: the id of a PUBACK / PUBREC / PUBCOMP is
    present in the session's outgoing store -/
def AckOK (s : BState) (c : ConnId) : Packet → Prop
  | .puback id | .pubcomp id | .pubrec id =>
    ∀ b, s.sessOf c = some b → id ∈ b.sess.outgoing.entries.map (·.1)
  | _ => True

theorem sview_foldl_sub (subs : List Subscription) (b : BSess) :
    sview (subs.foldl (fun b sub => { b with subs := Tree.set sub.topic sub.qos.toNat b.subs }) b)
      = sview b := by
  induction subs generalizing b with
  | nil => rfl
  | cons a l ih => rw [List.foldl_cons, ih]; rfl

theorem sview_foldl_unsub (ts : List Bytes) (b : BSess) :
    sview (ts.foldl (fun b t => { b with subs := Tree.emptyTopic t b.subs }) b) = sview b := by
  induction ts generalizing b with
  | nil => rfl
  | cons a l ih => rw [List.foldl_cons, ih]; rfl

theorem queueRetained_sview (cfg : Cfg) (ms : List Message) (g : Nat) :
    ∀ (b b' : BSess), queueRetained cfg b ms g = some b' → sview b' = sview b := by
  induction ms with
  | nil => intro b b' h; simp only [queueRetained, Option.some.injEq] at h; rw [h]
  | cons m rest ih =>
    intro b b' h
    simp only [queueRetained] at h
    split at h
    · rw [ih _ _ h]; rfl
    · cases h

theorem subscribeRetained_coreEq (c : ConnId) (subs : List Subscription) :
    ∀ (s s' : BState) (full : Bool),
      subscribeRetained s c subs = (if full then Res1.queueFull s' else Res1.ok s') → CoreEq s s' := by
  induction subs with
  | nil =>
    intro s s' full h
    cases full <;> simp [subscribeRetained] at h
    rw [h]; exact CoreEq.refl _
  | cons sub rest ih =>
    intro s s' full h
    simp only [subscribeRetained] at h
    split at h
    · cases full <;> simp at h
      rw [h]; exact CoreEq.refl _
    · rename_i b hb
      split at h
      · rename_i b' hq
        have h1 : CoreEq s (s.setSessOf c b') :=
          CoreEq.of_setSessOf hb (queueRetained_sview _ _ _ _ _ hq)
        have h2 : CoreEq (s.setSessOf c b') { (s.setSessOf c b') with nextGroup := s.nextGroup + 1 } :=
          ⟨rfl, fun _ => rfl, fun _ => rfl, fun _ => rfl⟩
        exact (h1.trans h2).trans (ih _ _ _ h)
      · cases full <;> simp at h
        rw [h]; exact CoreEq.refl _

theorem publishThen_inv {s : BState} {c : ConnId} {m : Message} {k : BState → Res} (hI : Inv s)
    (hk : ∀ s', CoreEq s s' → RAll Inv (k s')) : RAll Inv (publishThen s c m k) := by
  unfold publishThen
  split
  · rename_i s' h
    exact hk s' (CoreEq.of_publish_ok h)
  · rename_i s' h
    exact kill_inv c (hI.congr (CoreEq.of_publish_full h))
  · exact RAll_unsupported _

theorem recv_inv {s : BState} {c : ConnId} {p : Packet} (hI : Inv s) (hk : AckOK s c p) :
    RAll Inv (recv s c p) := by
  unfold recv
  split
  · exact RAll_unsupported _
  rename_i x hx
  split
  · exact RAll_one hI
  rename_i ha
  simp only [Bool.not_eq_true', Bool.not_eq_false] at ha
  split
  · exact RAll_one hI
  · -- connecting
    split
    · rename_i id _ u pw clean will _
      simp only []
      have hI1 : Inv (s.setConn c { x with id := id }) := hI.congr (CoreEq.of_setConn hx rfl)
      split
      · exact kill_inv c hI1
      split
      · exact kill_inv c (hI1.congr (CoreEq.of_setConn (conn?_setConn_same _ _ _) rfl))
      · exact setup_inv hI1 (conn?_setConn_same _ _ _) rfl id clean will
    · exact kill_inv c hI
  · -- connected
    split
    · -- subscribe
      rename_i subs id
      split
      · exact RAll_unsupported _
      simp only []
      have hc1 : CoreEq s (s.setConn c { x with subTok := x.subTok - 1 }) := CoreEq.of_setConn hx rfl
      split
      · exact RAll_unsupported _
      rename_i b hb
      have hc2 := hc1.trans (CoreEq.of_setSessOf hb (sview_foldl_sub subs b))
      have hc3 := hc2.trans (CoreEq.of_ackVia _ c (.suback (subs.map (·.qos)) id) (fun s => s)
        (fun s => CoreEq.refl s))
      split
      · rename_i s' h
        exact RAll_one (hI.congr (hc3.trans (subscribeRetained_coreEq c subs _ s' false h)))
      · rename_i s' h
        exact kill_inv c (hI.congr (hc3.trans (subscribeRetained_coreEq c subs _ s' true h)))
      · exact RAll_unsupported _
    · -- unsubscribe
      rename_i topics id
      split
      · exact RAll_unsupported _
      simp only []
      have hc1 : CoreEq s (s.setConn c { x with subTok := x.subTok - 1 }) := CoreEq.of_setConn hx rfl
      split
      · exact RAll_unsupported _
      rename_i b hb
      have hc2 := hc1.trans (CoreEq.of_setSessOf hb (sview_foldl_unsub topics b))
      exact RAll_one (hI.congr (hc2.trans (CoreEq.of_ackVia _ c (.unsuback id) (fun s => s)
        (fun s => CoreEq.refl s))))
    · -- publish
      rename_i m dup id
      split
      · exact publishThen_inv hI (fun s' h => RAll_one (hI.congr h))
      split
      · exact RAll_unsupported _
      simp only []
      have hc1 : CoreEq s (s.setConn c { x with pubTok := x.pubTok - 1 }) := CoreEq.of_setConn hx rfl
      split
      · refine publishThen_inv (hI.congr hc1) (fun s' h => RAll_one ?_)
        exact hI.congr ((hc1.trans h).trans (CoreEq.of_ackVia _ c (.puback id) (fun s => s)
          (fun s => CoreEq.refl s)))
      · split
        · exact RAll_unsupported _
        · rename_i b hb
          have hc2 := hc1.trans (CoreEq.of_setSessOf
            (b' := { b with sess := b.sess.savePacket .incoming (Packet.publish m dup id) }) hb rfl)
          exact RAll_one (hI.congr (hc2.trans (CoreEq.of_updConn (fun _ => rfl))))
    · -- pubrel
      rename_i id
      split
      · exact RAll_unsupported _
      rename_i b hb
      split
      · rename_i m _ _ _
        refine publishThen_inv hI (fun s' h => RAll_one ?_)
        exact hI.congr (h.trans (CoreEq.of_ackVia _ c (.pubcomp id) (ackPre c (.pubcomp id))
          (fun s => CoreEq.of_ackPre s c _)))
      · exact RAll_one (hI.congr (CoreEq.of_updConn (fun _ => rfl)))
    · -- puback
      rename_i id
      split
      · exact RAll_unsupported _
      rename_i b hb
      simp only [setSessOf_cfg]
      exact RAll_one (recv_puback_window hI hx ha hb (hk b hb))
    · -- pubcomp
      rename_i id
      split
      · exact RAll_unsupported _
      rename_i b hb
      simp only [setSessOf_cfg]
      exact RAll_one (recv_puback_window hI hx ha hb (hk b hb))
    · -- pubrec
      rename_i id
      split
      · exact RAll_unsupported _
      rename_i b hb
      exact RAll_one (recv_pubrec_window hI hx ha hb (hk b hb))
    · exact RAll_one (hI.congr (CoreEq.of_updConn (fun _ => rfl)))
    · exact kill_inv c (hI.congr (CoreEq.of_setConn hx rfl))
    · exact kill_inv c hI

/-! ### stimuli and observations -/

theorem killAll_inv (l : List ConnId) : ∀ {s : BState}, Inv s → RAll Inv (killAll s l) := by
  induction l with
  | nil => intro s hI; exact RAll_one hI
  | cons c rest ih =>
    intro s hI
    exact RAll_bind (kill_inv c hI) (fun s' h => ih h)

theorem ackRelease_coreEq (l : List PendingAck) : ∀ s : BState,
    CoreEq s (l.foldl (fun s a =>
      (ackPre a.conn a.pkt s).updConn a.conn
        (fun x => if x.alive then { x with ackOut := x.ackOut ++ [a.pkt] } else x)) s) := by
  induction l with
  | nil => intro s; exact CoreEq.refl s
  | cons a rest ih =>
    intro s
    rw [List.foldl_cons]
    refine ((CoreEq.of_ackPre s a.conn a.pkt).trans (CoreEq.of_updConn ?_)).trans (ih _)
    intro x
    split <;> rfl

/-- `cleanup` of a closed connection that still owns its session -/
theorem cleanup_inv {s : BState} {c : ConnId} {x : BConn} (hI : Inv s) (ho : Owned s c)
    (hd : ∀ x', s.conn? c = some x' → x'.alive = false ∧ x'.zombie = false) :
    RAll Inv (cleanup s c x) := by
  intro ss e s' hm
  obtain ⟨s1, hw, rfl⟩ := cleanup_cases e hm
  have hc := CoreEq.of_will hw
  split
  · refine terminate_inv (hI.congr hc) (ho.congr hc) ?_
    intro x2 hx2
    obtain ⟨x1, hx1, hv⟩ := hc.symm.conn_some hx2
    obtain ⟨e1, _, e3, _⟩ := cview_eq hv
    rw [← e1, ← e3]
    exact hd x1 hx1
  · exact hI.congr hc

/-- the stimulus-level form of `AckOK` -/
def AcksKnown (s : BState) : Stim → Prop
  | .send c p => AckOK s c p
  | _ => True

theorem stim_inv {s : BState} {st : Stim} (hI : Inv s) (hk : AcksKnown s st) :
    RAll Inv (stim s st) := by
  cases st with
  | conn c => exact RAll_one (hI.setConn_noSess rfl (fun _ => rfl))
  | send c p => exact recv_inv hI hk
  | drop c => exact kill_inv c hI
  | ackRelease =>
    exact RAll_one ((hI.congr (ackRelease_coreEq s.pendingAcks s)).of_fields rfl rfl rfl rfl)
  | backendClose =>
    exact killAll_inv _ (hI.of_fields rfl rfl rfl rfl)
  | stall c => exact RAll_one (hI.congr (CoreEq.of_updConn (fun _ => rfl)))
  | unstall c =>
    simp only [stim]
    split
    · rename_i x hx
      split
      · rename_i hz
        have hal : x.alive = false := by
          cases h : x.alive
          · rfl
          · have := hI.nz c x hx h
            rw [hz] at this; cases this
        refine cleanup_inv (hI.setConn_le hx rfl (fun h => ?_) (fun h => ?_) (fun _ => rfl))
          ((hI.owned hx (Or.inr hz)).setConn hx rfl) ?_
        · exact Or.inr hz
        · rw [hal] at h; cases h
        · intro x' hx'
          rw [conn?_setConn_same] at hx'
          cases hx'
          exact ⟨hal, rfl⟩
      · exact RAll_one (hI.congr (CoreEq.of_setConn hx rfl))
    · exact RAll_unsupported _
  | tokenTimeout c =>
    simp only [stim]
    split
    · split
      · exact kill_inv c hI
      · exact RAll_unsupported _
    · exact RAll_unsupported _

theorem cview_ackSent (x : BConn) (cfg : Cfg) (p : Packet) : cview (ackSent x cfg p) = cview x := by
  unfold ackSent
  split <;> rfl

theorem observeSent_inv {s : BState} {c : ConnId} {p : Packet} {s' : BState} (hI : Inv s)
    (h : observeSent s c p = some s') : Inv s' := by
  obtain ⟨x, hx, _, hs⟩ := observeSent_cases h
  cases hs with
  | proc rest _ e => rw [e]; exact hI.congr (CoreEq.of_setConn hx rfl)
  | ack rest _ e => rw [e]; exact hI.congr (CoreEq.of_setConn hx (cview_ackSent _ _ _))
  | deq m id b _ hb ha hd => exact acceptDelivery_window hI hx ha hb hd

theorem observe_inv {s : BState} {o : Obs} {s' : BState} (hI : Inv s) (h : s' ∈ observe s o) :
    Inv s' := by
  cases o with
  | backend e =>
    simp only [observe] at h
    split at h
    · rw [List.mem_singleton.1 h]
      exact hI.of_fields rfl rfl rfl rfl
    · cases h
  | closed c =>
    simp only [observe] at h
    split at h
    · rename_i x hx
      split at h
      · rw [List.mem_singleton.1 h]
        exact hI.congr (CoreEq.of_setConn hx rfl)
      · cases h
    · cases h
  | sent c p =>
    simp only [observe, Option.mem_toList] at h
    exact observeSent_inv hI h
  | sendFail c p =>
    simp only [observe] at h
    split at h
    · rename_i s1 hs1
      have hI1 := observeSent_inv hI hs1
      split at h
      · rename_i ss hk
        obtain ⟨s2, hs2, rfl⟩ := List.mem_map.1 h
        exact (kill_inv c hI1 ss hk s2 hs2).congr (CoreEq.of_updConn (fun _ => rfl))
      · cases h
    · cases h

/-- a step whose stimulus (if any) acknowledges only what the subscriber received -/
inductive GoodStep : BState → BState → Prop where
  | stim {s s' : BState} (st : Stim) (ss : List BState) (hk : AcksKnown s st)
      (h : BState.stim s st = .ok ss) (hm : s' ∈ ss) : GoodStep s s'
  | obs {s s' : BState} (o : Obs) (hm : s' ∈ observe s o) : GoodStep s s'
  | ackMode {s : BState} (late never : Bool) : GoodStep s { s with lateAck := late, neverAck := never }

theorem GoodStep.toStep {s s' : BState} (h : GoodStep s s') : Step s s' := by
  cases h with
  | stim st ss _ h hm => exact Step.stim st ss h hm
  | obs o hm => exact Step.obs o hm
  | ackMode l n => exact Step.ackMode l n

theorem step_inv {s s' : BState} (hI : Inv s) (h : GoodStep s s') : Inv s' := by
  cases h with
  | stim st ss hk h hm => exact stim_inv hI hk ss h s' hm
  | obs o hm => exact observe_inv hI hm
  | ackMode l n => exact hI.of_fields rfl rfl rfl rfl

theorem init_inv (cfg : Cfg) : Inv { cfg := cfg } := by
  refine ⟨?_, ?_, ?_, ?_⟩
  · intro c x b hx; cases hx
  · intro id b hb; cases hb
  · intro c x id hx; cases hx
  · intro c x hx; cases hx

end BrokerB3
