import Proofs.ServiceSurvive
import Proofs.ServiceSubs
/-
  Proofs/ServiceCancel.lean — what `Stop(true)` leaves pending, and the concrete runs that show
  what goes wrong in today's code (rows 9, 16, 17 of DESIGN §6).
-/
set_option linter.unusedSimpArgs false
namespace SvcK2
open Svc Svc.SState

/-- after the `Clear` of an unprotected store no attached future is pending -/
theorem clear_unprotected_pending {s : SState} (hp : s.protected = false) (m : Nat)
    (hm : futOf s.clearStore.futs m = some .pending) :
    futOf s.futs m = some .pending ∧ ∀ e ∈ s.store, m ∉ e.2.attached := by
  unfold SState.clearStore at hm
  simp only [hp] at hm
  have := futOf_resolveAll_pending _ _ _ _ (by simp) hm
  refine ⟨this.2, ?_⟩
  intro e he hme
  exact this.1 (List.mem_flatMap.mpr ⟨e, he, hme⟩)

/-- `Stop(true)` with the store repair (row 17): whatever is still pending afterwards is a
    command that was still queued -/
theorem stopTail_pending_queued {s : SState} (hf : FInv s) (hfix : s.cfg.fix17 = true) (hbl : s.blocked = none)
    (n : Nat) (hn : futOf (stopTail s true).futs n = some .pending) : ∃ c ∈ s.queue, c.n = n := by
  have key : ∀ m, futOf (unprotect (stopDone s)).clearStore.futs m = some .pending → ∃ c ∈ s.queue, c.n = m := by
    intro m hm
    obtain ⟨h1, h2⟩ := clear_unprotected_pending (s := unprotect (stopDone s)) rfl m hm
    cases hf.tracked hfix m (by simpa using h1) with
    | inl h => cases h
    | inr h =>
      rcases h with h3 | ⟨c, hc, _⟩ | ⟨e, he, hme⟩
      · exact h3
      · rw [hbl] at hc; cases hc
      · exact absurd hme (h2 e (by simpa using he))
  unfold stopTail at hn
  simp only [if_true] at hn
  split at hn
  · have := futOf_resolveAll_pending ((unprotect (stopDone s)).clearStore.queue.map (·.n))
      (unprotect (stopDone s)).clearStore.futs n FutSt.cancelled (by simp) (by simpa [drainQueue] using hn)
    exact key n this.2
  · exact key n hn

/-- `Stop(true)` with both repairs (rows 16 and 17): nothing is pending afterwards -/
theorem stopTail_nothing_pending {s : SState} (hf : FInv s) (h16 : s.cfg.fix16 = true) (h17 : s.cfg.fix17 = true)
    (hbl : s.blocked = none) (n : Nat) : futOf (stopTail s true).futs n ≠ some .pending := by
  intro hn
  have hn' := hn
  unfold stopTail at hn
  simp only [if_true, h16] at hn
  have h1 := futOf_resolveAll_pending ((unprotect (stopDone s)).clearStore.queue.map (·.n))
    (unprotect (stopDone s)).clearStore.futs n FutSt.cancelled (by simp) (by simpa [drainQueue] using hn)
  obtain ⟨c, hc, hcn⟩ := stopTail_pending_queued hf h17 hbl n hn'
  apply h1.1
  exact List.mem_map.mpr ⟨c, by simpa using hc, hcn⟩

/-! ### concrete runs -/

def pubCmd (n : Nat) (qos : UInt8) : Cmd := ⟨n, .publish ⟨[97], [], qos, false⟩⟩
def subCmd (n : Nat) : Cmd := ⟨n, .subscribe [⟨[97], 1⟩]⟩

/-- row 16: start; no connection can be made; publish; subscribe; Stop(true) -/
def row16Run : List Ev :=
  [.plan .refuse, .start, .sup .run, .call (pubCmd 1 1), .call (subCmd 2), .stopCall true, .sup .dying, .stopRet]

/-- row 9: the CONNECT packet cannot be written -/
def row9Run : List Ev := [.plan .sendfail, .start, .sup .run, .stopCall true]

/-- row 17: clean session; publish (id 1) stays unacknowledged; the connection is lost; after the
    reconnect the id counter starts again and the next publish takes id 1 as well; Stop(true) -/
def row17Run : List Ev :=
  [.start, .sup .run, .recv 1 (.connack false 0), .sup .run, .sup .run,
   .call (pubCmd 1 1), .sup .take, .drop 1, .sup .kill, .fire, .sup .run,
   .recv 2 (.connack false 0), .sup .run, .sup .run, .call (pubCmd 2 1), .sup .take,
   .stopCall true, .sup .dying, .fire, .stopRet]

end SvcK2
