import Model.Session
/-
  Proofs/Session.lean — helper lemmas for property C18 (id counter arithmetic, packet store as a map).
-/

namespace IDCounter

/-- the value the next allocation hands out, as a natural number (0 is skipped) -/
def normNat (c : IDCounter) : Nat := if c.next = 0 then 1 else c.next.toNat

theorem next_eq_zero_iff (c : IDCounter) : c.next = 0 ↔ c.next.toNat = 0 := by
  rw [← UInt16.toNat_inj]; rfl

theorem normNat_pos (c : IDCounter) : 1 ≤ c.normNat := by
  unfold normNat
  split
  · omega
  · rename_i h
    rw [next_eq_zero_iff] at h
    omega

theorem normNat_le (c : IDCounter) : c.normNat ≤ 65535 := by
  unfold normNat
  have := UInt16.toNat_lt c.next
  split <;> omega

/-- one step: the id handed out is the normalised counter value -/
theorem nextID_fst_toNat (c : IDCounter) : c.nextID.1.toNat = c.normNat := by
  unfold nextID normNat
  by_cases h : c.next = 0
  · simp [h]
  · simp [h]

/-- one step: the successor state, normalised, is the cyclic successor in 1..65535 -/
theorem nextID_snd_normNat (c : IDCounter) : c.nextID.2.normNat = c.normNat % 65535 + 1 := by
  have hlt := UInt16.toNat_lt c.next
  unfold nextID normNat
  by_cases h : c.next = 0
  · simp [h]
  · have h' : c.next.toNat ≠ 0 := fun e => h ((next_eq_zero_iff c).2 e)
    simp only [h, if_false]
    have e : (c.next + 1).toNat = (c.next.toNat + 1) % 65536 := by
      rw [UInt16.toNat_add]; rfl
    have z : (c.next + 1 = 0) ↔ (c.next + 1).toNat = 0 := by
      rw [← UInt16.toNat_inj]; rfl
    by_cases h2 : c.next + 1 = 0
    · have := z.1 h2
      simp only [h2, if_true]
      omega
    · have : (c.next + 1).toNat ≠ 0 := fun e => h2 (z.2 e)
      simp only [h2, if_false]
      omega

end IDCounter

namespace PacketStore

/-! ### association-list lemmas -/

/-- raw lookup on the entry list -/
def find (l : List (UInt16 × Packet)) (k : UInt16) : Option Packet :=
  (l.find? (fun e => e.1 == k)).map (·.2)

theorem lookup_eq_find (s : PacketStore) (k : UInt16) : s.lookup k = find s.entries k := rfl

theorem find_nil (k : UInt16) : find [] k = none := rfl

theorem find_cons (e : UInt16 × Packet) (l : List (UInt16 × Packet)) (k : UInt16) :
    find (e :: l) k = if e.1 = k then some e.2 else find l k := by
  unfold find
  by_cases h : e.1 = k
  · simp [h]
  · simp [h]

theorem find_erase (l : List (UInt16 × Packet)) (id k : UInt16) :
    find (erase l id) k = if k = id then none else find l k := by
  induction l with
  | nil => simp [erase, find]
  | cons e l ih =>
    unfold erase at ih ⊢
    by_cases he : e.1 = id
    · rw [List.filter_cons_of_neg (by simp [he]), ih, find_cons]
      by_cases hk : k = id
      · simp [hk]
      · have : ¬ e.1 = k := fun h => hk (h ▸ he)
        simp [hk, this]
    · rw [List.filter_cons_of_pos (by simp [he]), find_cons, find_cons, ih]
      by_cases hk : k = id
      · simp [hk]
        intro h; exact absurd h he
      · simp [hk]

theorem find_append_single (l : List (UInt16 × Packet)) (id k : UInt16) (p : Packet) :
    find (l ++ [(id, p)]) k = (find l k).or (if id = k then some p else none) := by
  induction l with
  | nil => simp [find_cons, find_nil]
  | cons e l ih =>
    rw [List.cons_append, find_cons, find_cons, ih]
    split <;> simp

theorem mem_keys_erase (l : List (UInt16 × Packet)) (id k : UInt16) :
    k ∈ (erase l id).map (·.1) ↔ k ∈ l.map (·.1) ∧ k ≠ id := by
  simp only [erase, List.mem_map, List.mem_filter]
  constructor
  · rintro ⟨e, ⟨he, hne⟩, rfl⟩
    exact ⟨⟨e, he, rfl⟩, by simpa using hne⟩
  · rintro ⟨⟨e, he, rfl⟩, hne⟩
    exact ⟨e, ⟨he, by simpa using hne⟩, rfl⟩

theorem nodup_keys_erase (l : List (UInt16 × Packet)) (id : UInt16)
    (h : (l.map (·.1)).Nodup) : ((erase l id).map (·.1)).Nodup :=
  List.Nodup.sublist (List.Sublist.map _ List.filter_sublist) h

theorem nodup_keys_save (l : List (UInt16 × Packet)) (id : UInt16) (p : Packet)
    (h : (l.map (·.1)).Nodup) : ((erase l id ++ [(id, p)]).map (·.1)).Nodup := by
  rw [List.map_append, List.nodup_append]
  refine ⟨nodup_keys_erase l id h, by simp, ?_⟩
  intro a ha b hb
  simp at hb
  subst hb
  intro e
  subst e
  exact ((mem_keys_erase l a a).1 ha).2 rfl

theorem find_eq_none_of_not_mem (l : List (UInt16 × Packet)) (k : UInt16)
    (h : k ∉ l.map (·.1)) : find l k = none := by
  induction l with
  | nil => rfl
  | cons e l ih =>
    simp only [List.map_cons, List.mem_cons, not_or] at h
    rw [find_cons, if_neg (fun e' => h.1 e'.symm), ih h.2]

/-- with unique keys every entry is found under its own key -/
theorem find_of_mem (l : List (UInt16 × Packet)) (h : (l.map (·.1)).Nodup)
    (k : UInt16) (p : Packet) (hm : (k, p) ∈ l) : find l k = some p := by
  induction l with
  | nil => cases hm
  | cons e l ih =>
    rw [List.map_cons, List.nodup_cons] at h
    rw [find_cons]
    rcases List.mem_cons.1 hm with rfl | hm'
    · simp
    · have : e.1 ≠ k := by
        intro e'
        exact h.1 (e' ▸ List.mem_map.2 ⟨(k, p), hm', rfl⟩)
      rw [if_neg this, ih h.2 hm']

theorem mem_of_find (l : List (UInt16 × Packet)) (k : UInt16) (p : Packet)
    (h : find l k = some p) : (k, p) ∈ l := by
  induction l with
  | nil => cases h
  | cons e l ih =>
    rw [find_cons] at h
    split at h
    · rename_i hk
      cases h
      cases hk
      exact List.mem_cons_self
    · exact List.mem_cons_of_mem _ (ih h)

/-! ### operations -/

theorem save_of_some (s : PacketStore) (p : Packet) (id : UInt16) (h : p.getID = some id) :
    s.save p = ⟨erase s.entries id ++ [(id, p)]⟩ := by
  unfold save; rw [h]

theorem save_of_none (s : PacketStore) (p : Packet) (h : p.getID = none) : s.save p = s := by
  unfold save; rw [h]

theorem lookup_save (s : PacketStore) (p : Packet) (id k : UInt16) (h : p.getID = some id) :
    (s.save p).lookup k = if k = id then some p else s.lookup k := by
  rw [save_of_some s p id h, lookup_eq_find, lookup_eq_find, find_append_single, find_erase]
  by_cases hk : k = id
  · simp [hk]
  · have : ¬ id = k := fun e => hk e.symm
    simp [hk, this]

theorem lookup_delete (s : PacketStore) (id k : UInt16) :
    (s.delete id).lookup k = if k = id then none else s.lookup k :=
  find_erase s.entries id k

theorem lookup_reset (s : PacketStore) (k : UInt16) : s.reset.lookup k = none := rfl

/-- store invariant: keys are unique -/
def KeysNodup (s : PacketStore) : Prop := (s.entries.map (·.1)).Nodup

theorem keysNodup_empty : KeysNodup {} := List.nodup_nil

theorem keysNodup_save (s : PacketStore) (p : Packet) (h : KeysNodup s) : KeysNodup (s.save p) := by
  cases hp : p.getID with
  | none => rw [save_of_none s p hp]; exact h
  | some id => rw [save_of_some s p id hp]; exact nodup_keys_save s.entries id p h

theorem keysNodup_delete (s : PacketStore) (id : UInt16) (h : KeysNodup s) :
    KeysNodup (s.delete id) := nodup_keys_erase s.entries id h

theorem keysNodup_reset (s : PacketStore) : KeysNodup s.reset := List.nodup_nil

/-- with unique keys the listing is exactly the range of `lookup` -/
theorem mem_all_iff (s : PacketStore) (h : KeysNodup s) (p : Packet) :
    p ∈ s.all ↔ ∃ id, s.lookup id = some p := by
  constructor
  · intro hm
    obtain ⟨e, he, rfl⟩ := List.mem_map.1 hm
    exact ⟨e.1, find_of_mem s.entries h e.1 e.2 he⟩
  · rintro ⟨id, hl⟩
    exact List.mem_map.2 ⟨(id, p), mem_of_find s.entries id p hl, rfl⟩

end PacketStore
