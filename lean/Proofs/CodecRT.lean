import Model.Codec
import Model.Ref
/-
  Proofs/CodecRT.lean — helper lemmas for property C01 (codec round trip).
-/

/-! ### string literals -/

theorem mqtt_bytes : "MQTT".toUTF8.toList = [77, 81, 84, 84] := by
  have h : "MQTT".toByteArray = ⟨#[77, 81, 84, 84]⟩ := by rfl
  simp only [String.toUTF8, h, ByteArray.toList]
  rw [ByteArray.toList.loop]; simp [ByteArray.size]
  rw [ByteArray.toList.loop]; simp [ByteArray.size]
  rw [ByteArray.toList.loop]; simp [ByteArray.size]
  rw [ByteArray.toList.loop]; simp [ByteArray.size]
  rw [ByteArray.toList.loop]; simp [ByteArray.size]
  decide

theorem mqisdp_bytes : "MQIsdp".toUTF8.toList = [77, 81, 73, 115, 100, 112] := by
  have h : "MQIsdp".toByteArray = ⟨#[77, 81, 73, 115, 100, 112]⟩ := by rfl
  simp only [String.toUTF8, h, ByteArray.toList]
  rw [ByteArray.toList.loop]; simp [ByteArray.size]
  rw [ByteArray.toList.loop]; simp [ByteArray.size]
  rw [ByteArray.toList.loop]; simp [ByteArray.size]
  rw [ByteArray.toList.loop]; simp [ByteArray.size]
  rw [ByteArray.toList.loop]; simp [ByteArray.size]
  rw [ByteArray.toList.loop]; simp [ByteArray.size]
  rw [ByteArray.toList.loop]; simp [ByteArray.size]
  decide

/-! ### machine integers -/

theorem u8_toNat_ofNat {n : Nat} (h : n < 256) : (UInt8.ofNat n).toNat = n := by
  simp [UInt8.toNat_ofNat']; omega

theorem u8_ofNat_toNat (b : UInt8) : UInt8.ofNat b.toNat = b := by
  simp

theorem u16_ofNat_toNat (b : UInt16) : UInt16.ofNat b.toNat = b := by
  simp

theorem u16_toNat_lt (b : UInt16) : b.toNat < 65536 := by
  have := b.toNat_lt; simpa using this

theorem u8_toNat_lt (b : UInt8) : b.toNat < 256 := by
  have := b.toNat_lt; simpa using this

/-! ### varint -/

theorem putUvarint_lt {n : Nat} (h : n < 128) : putUvarint n = [UInt8.ofNat n] := by
  rw [putUvarint]; simp [h]

theorem putUvarint_ge {n : Nat} (h : ¬ n < 128) :
    putUvarint n = UInt8.ofNat (n % 128 + 128) :: putUvarint (n / 128) := by
  rw [putUvarint]; simp [h]

theorem varintLen_eq_length' (n : Nat) (hn : n ≤ maxVarint) :
    (putUvarint n).length = varintLen n := by
  unfold maxVarint at hn
  unfold varintLen maxVarint
  by_cases h1 : n < 128
  · simp [putUvarint_lt h1, h1]
  · rw [putUvarint_ge h1]
    by_cases h2 : n < 16384
    · have : n / 128 < 128 := by omega
      simp [putUvarint_lt this, h1, h2]
    · have g2 : ¬ n / 128 < 128 := by omega
      rw [putUvarint_ge g2]
      by_cases h3 : n < 2097152
      · have : n / 128 / 128 < 128 := by omega
        simp [putUvarint_lt this, h1, h2, h3]
      · have g3 : ¬ n / 128 / 128 < 128 := by omega
        rw [putUvarint_ge g3]
        have : n / 128 / 128 / 128 < 128 := by omega
        simp [putUvarint_lt this, h1, h2, h3, hn]

theorem varintLen_le4 (n : Nat) : varintLen n ≤ 4 := by
  unfold varintLen; split <;> (try split) <;> (try split) <;> (try split) <;> omega

theorem varintLen_pos {n : Nat} (hn : n ≤ maxVarint) : 1 ≤ varintLen n := by
  unfold varintLen; split <;> (try split) <;> (try split) <;> (try split) <;> omega

theorem uvarintAux_put (n : Nat) : ∀ (rest : Bytes) (x s i : Nat),
    i + (putUvarint n).length ≤ 9 →
    uvarintAux (putUvarint n ++ rest) x s i
      = (x + n * 2 ^ s, (i : Int) + ((putUvarint n).length : Int)) := by
  induction n using putUvarint.induct with
  | case1 n h =>
    intro rest x s i hi
    rw [putUvarint_lt h] at hi ⊢
    have hb : (UInt8.ofNat n).toNat = n := u8_toNat_ofNat (by omega)
    simp only [List.length_cons, List.length_nil] at hi
    simp only [List.cons_append, List.nil_append, uvarintAux, hb]
    have h10 : ¬ i = 10 := by omega
    have h9 : ¬ (i = 9 ∧ n > 1) := by omega
    simp [h10, h, h9]
  | case2 n h ih =>
    intro rest x s i hi
    rw [putUvarint_ge h] at hi ⊢
    have hb : (UInt8.ofNat (n % 128 + 128)).toNat = n % 128 + 128 := u8_toNat_ofNat (by omega)
    simp only [List.length_cons] at hi
    simp only [List.cons_append, uvarintAux, hb]
    have h10 : ¬ i = 10 := by omega
    have hge : ¬ (n % 128 + 128 < 128) := by omega
    simp only [h10, hge, if_false]
    rw [ih rest _ _ _ (by omega)]
    have hm : (n % 128 + 128) % 128 = n % 128 := by omega
    rw [hm]
    have e1 : x + n % 128 * 2 ^ s + n / 128 * 2 ^ (s + 7) = x + n * 2 ^ s := by
      rw [Nat.pow_add]
      generalize 2 ^ s = p
      have : n = n % 128 + 128 * (n / 128) := by omega
      conv => rhs; rw [this]
      simp only [Nat.add_mul, Nat.mul_assoc, Nat.add_assoc]
      rw [Nat.mul_left_comm (n / 128) p, Nat.mul_comm p]
      simp [Nat.mul_comm, Nat.mul_left_comm]
    rw [e1]
    simp only [List.length_cons]
    congr 1
    omega

theorem uvarint_put (n : Nat) (hn : n ≤ maxVarint) (rest : Bytes) :
    uvarint (putUvarint n ++ rest) = (n, ((putUvarint n).length : Int)) := by
  unfold uvarint
  have hl := varintLen_eq_length' n hn
  have h4 := varintLen_le4 n
  rw [uvarintAux_put n rest 0 0 0 (by omega)]
  simp

/-! ### reader primitives -/

theorem putUvarint_length_pos (n : Nat) : 1 ≤ (putUvarint n).length := by
  by_cases h : n < 128
  · simp [putUvarint_lt h]
  · simp [putUvarint_ge h]

theorem readVarint_put (n : Nat) (hn : n ≤ maxVarint) (rest : Bytes) :
    readVarint (putUvarint n ++ rest) = .ok n rest := by
  have hl := varintLen_eq_length' n hn
  have h4 := varintLen_le4 n
  have hp := putUvarint_length_pos n
  unfold readVarint
  have ht : (putUvarint n ++ rest).take 4
      = putUvarint n ++ rest.take (4 - (putUvarint n).length) := by
    rw [List.take_append, List.take_of_length_le (by omega)]
  rw [ht, uvarint_put n hn]
  have : ¬ (((putUvarint n).length : Int) ≤ 0) := by omega
  simp only [this, if_false, Int.toNat_natCast]
  simp

theorem readU8_cons (b : UInt8) (rest : Bytes) : readU8 (b :: rest) = .ok b rest := rfl

theorem readU16_be16 (n : Nat) (hn : n < 65536) (rest : Bytes) :
    readU16 (be16 n ++ rest) = .ok n rest := by
  have h1 : (UInt8.ofNat (n / 256)).toNat = n / 256 := u8_toNat_ofNat (by omega)
  have h2 : (UInt8.ofNat (n % 256)).toNat = n % 256 := u8_toNat_ofNat (by omega)
  simp only [be16, readU16, List.cons_append, List.nil_append, h1, h2]
  congr 1
  omega

theorem readLP_lp (b : Bytes) (hb : b.length ≤ 65535) (rest : Bytes) :
    readLP (be16 b.length ++ (b ++ rest)) = .ok b rest := by
  unfold readLP
  rw [readU16_be16 _ (by omega)]
  simp

theorem within_exact {α : Type} (rl : Nat) (m : Rd α) (body tail : Bytes)
    (hl : body.length = rl) :
    Rd.within rl m (body ++ tail) = match m body with
      | .ok a r => .ok a (r ++ tail)
      | .err e r => .err e (r ++ tail) := by
  subst hl
  unfold Rd.within slice?
  simp
  rfl

theorem decodeHeader_ok (t : PType) (flags rl : Nat) (hrl : rl ≤ maxVarint)
    (hf : t.defaultFlags + flags < 16)
    (hfl : t ≠ .publish → flags = 0)
    (rest : Bytes) (hrest : rl ≤ rest.length) :
    decodeHeader t (UInt8.ofNat (t.code * 16 + (t.defaultFlags + flags)) :: (putUvarint rl ++ rest))
      = .ok (t.defaultFlags + flags, rl) rest := by
  have hc : 1 ≤ t.code ∧ t.code ≤ 14 := by cases t <;> simp [PType.code]
  have hb : (UInt8.ofNat (t.code * 16 + (t.defaultFlags + flags))).toNat
      = t.code * 16 + (t.defaultFlags + flags) := u8_toNat_ofNat (by omega)
  have hp := putUvarint_length_pos rl
  unfold decodeHeader
  cases hpu : putUvarint rl with
  | nil => rw [hpu] at hp; simp at hp
  | cons a as =>
    simp only [List.cons_append]
    rw [← List.cons_append, ← hpu, readVarint_put rl hrl, hb]
    have e1 : (t.code * 16 + (t.defaultFlags + flags)) / 16 = t.code := by omega
    have e2 : (t.code * 16 + (t.defaultFlags + flags)) % 16 = t.defaultFlags + flags := by omega
    simp only [e1, e2]
    have e4 : ¬ rl > rest.length := by omega
    simp [e4]
    exact hfl

/-! ### closed form of the encoder -/

def lpB (b : Bytes) : Bytes := be16 b.length ++ b

def subsBytes : List Subscription → Bytes
  | [] => []
  | s :: ss => lpB s.topic ++ [s.qos] ++ subsBytes ss

def topicsBytes : List Bytes → Bytes
  | [] => []
  | t :: ts => lpB t ++ topicsBytes ts

def normVersion (v : UInt8) : UInt8 := if v = 0 then 4 else v

/-- publish flags of the fixed header (0 for every other type) -/
def pflags : Packet → Nat
  | .publish m dup _ => (if dup then 8 else 0) + (if m.retain then 1 else 0) + m.qos.toNat * 2
  | _ => 0

def willBytes : Option Message → Bytes
  | some m => lpB m.topic ++ lpB m.payload
  | none => []

def mbody : Packet → Bytes
  | .connect c ka u p clean w v =>
      lpB (versionName (normVersion v)) ++ [normVersion v]
        ++ [UInt8.ofNat (connectFlags u p clean w)] ++ be16 ka.toNat ++ lpB c
        ++ willBytes w
        ++ (if u.length > 0 then lpB u else []) ++ (if p.length > 0 then lpB p else [])
  | .connack sp code => [if sp then 1 else 0, code]
  | .publish m _ id => lpB m.topic ++ (if m.qos ≠ 0 then be16 id.toNat else []) ++ m.payload
  | .puback id | .pubrec id | .pubrel id | .pubcomp id | .unsuback id => be16 id.toNat
  | .subscribe ss id => be16 id.toNat ++ subsBytes ss
  | .suback cs id => be16 id.toNat ++ cs
  | .unsubscribe ts id => be16 id.toNat ++ topicsBytes ts
  | .pingreq | .pingresp | .disconnect => []

def hdr (p : Packet) : Bytes :=
  UInt8.ofNat (p.type.code * 16 + (p.type.defaultFlags + pflags p)) :: putUvarint p.rlen

def wire (p : Packet) : Bytes := hdr p ++ mbody p

theorem lpB_length (b : Bytes) : (lpB b).length = 2 + b.length := by
  simp [lpB, be16]; omega

theorem be16_length (n : Nat) : (be16 n).length = 2 := rfl

theorem writeLP_ok {b : Bytes} (h : lp16 b = true) : writeLP b = .ok (lpB b) := by
  have : ¬ b.length > 65535 := by simpa [lp16] using h
  simp [writeLP, this, lpB]

theorem encSubs_ok (ss : List Subscription)
    (h : ss.all (fun s => lp16 s.topic && qosOK s.qos) = true) :
    encSubs ss = .ok (subsBytes ss) := by
  induction ss with
  | nil => rfl
  | cons s ss ih =>
    simp only [List.all_cons, Bool.and_eq_true] at h
    obtain ⟨⟨h1, h2⟩, h3⟩ := h
    simp [encSubs, writeLP_ok h1, h2, ih h3, subsBytes, bind, Except.bind, pure, Except.pure]

theorem encCodes_ok (cs : List UInt8) (h : cs.all subackCodeOK = true) :
    encCodes cs = .ok cs := by
  induction cs with
  | nil => rfl
  | cons c cs ih =>
    simp only [List.all_cons, Bool.and_eq_true] at h
    obtain ⟨h1, h3⟩ := h
    simp [encCodes, h1, ih h3, bind, Except.bind, pure, Except.pure]

theorem encTopics_ok (ts : List Bytes) (h : ts.all lp16 = true) :
    encTopics ts = .ok (topicsBytes ts) := by
  induction ts with
  | nil => rfl
  | cons t ts ih =>
    simp only [List.all_cons, Bool.and_eq_true] at h
    obtain ⟨h1, h3⟩ := h
    simp [encTopics, writeLP_ok h1, ih h3, topicsBytes, bind, Except.bind, pure, Except.pure]

theorem subsBytes_length (ss : List Subscription) : (subsBytes ss).length = Packet.subsLen ss := by
  induction ss with
  | nil => rfl
  | cons s ss ih => simp [subsBytes, Packet.subsLen, lpB_length, ih]; omega

theorem topicsBytes_length (ts : List Bytes) : (topicsBytes ts).length = Packet.topicsLen ts := by
  induction ts with
  | nil => rfl
  | cons t ts ih => simp [topicsBytes, Packet.topicsLen, lpB_length, ih]

theorem encodeHeader_ok (t : PType) (flags rl : Nat) (h : rl ≤ maxVarint) :
    encodeHeader t flags rl
      = .ok (UInt8.ofNat (t.code * 16 + (t.defaultFlags + flags)) :: putUvarint rl) := by
  have : ¬ rl > maxVarint := by omega
  simp [encodeHeader, this]

theorem encodeIdentified_ok (t : PType) (id : UInt16) (h : id ≠ 0) :
    encodeIdentified t id
      = .ok (UInt8.ofNat (t.code * 16 + (t.defaultFlags + 0)) :: putUvarint 2 ++ be16 id.toNat) := by
  simp [encodeIdentified, h, encodeHeader_ok t 0 2 (by decide), bind, Except.bind, pure, Except.pure]

/-! WF unpacked -/

theorem versionName_eq (v : UInt8) : versionName v =
    if v = 3 then [77, 81, 73, 115, 100, 112] else if v = 4 then [77, 81, 84, 84] else [] := by
  unfold versionName
  rw [mqtt_bytes, mqisdp_bytes]

theorem versionName_lp16 (v : UInt8) : lp16 (versionName v) = true := by
  rw [versionName_eq]
  split
  · simp [lp16]
  · split <;> simp [lp16]

theorem connect_rlen_le (c : Bytes) (ka : UInt16) (u p : Bytes) (clean : Bool)
    (w : Option Message) (v : UInt8)
    (h : (Packet.connect c ka u p clean w v).WF = true) :
    (Packet.connect c ka u p clean w v).rlen ≤ maxVarint := by
  simp only [Packet.WF, Bool.and_eq_true] at h
  obtain ⟨⟨⟨⟨⟨⟨_, hc⟩, hu⟩, hp⟩, hw⟩, _⟩, _⟩ := h
  simp only [lp16, decide_eq_true_eq] at hc hu hp
  unfold Packet.rlen maxVarint
  cases w with
  | none => simp only []; split <;> split <;> split <;> omega
  | some m =>
    simp only [Message.WF, Bool.and_eq_true, lp16, decide_eq_true_eq] at hw
    obtain ⟨⟨⟨_, ht⟩, _⟩, hpl⟩ := hw
    simp only []
    split <;> split <;> split <;> omega

theorem rlen_le_of_WF (p : Packet) (h : p.WF = true) : p.rlen ≤ maxVarint := by
  cases p with
  | connect c ka u p clean w v => exact connect_rlen_le c ka u p clean w v h
  | publish m dup id =>
    simp only [Packet.WF, Bool.and_eq_true, decide_eq_true_eq] at h
    simp only [Packet.rlen]
    exact h.2
  | subscribe ss id =>
    simp only [Packet.WF, Bool.and_eq_true, decide_eq_true_eq] at h
    simp only [Packet.rlen]; omega
  | suback cs id =>
    simp only [Packet.WF, Bool.and_eq_true, decide_eq_true_eq] at h
    simp only [Packet.rlen]; omega
  | unsubscribe ts id =>
    simp only [Packet.WF, Bool.and_eq_true, decide_eq_true_eq] at h
    simp only [Packet.rlen]; omega
  | _ => simp [Packet.rlen, maxVarint]

/-! closed form, one packet type at a time -/

theorem encode_connect_ok (c : Bytes) (ka : UInt16) (u p : Bytes) (clean : Bool)
    (w : Option Message) (v : UInt8)
    (h : (Packet.connect c ka u p clean w v).WF = true) :
    encode (.connect c ka u p clean w v) = .ok (wire (.connect c ka u p clean w v)) := by
  have hrl := connect_rlen_le c ka u p clean w v h
  simp only [Packet.WF, Bool.and_eq_true] at h
  obtain ⟨⟨⟨⟨⟨⟨hv, hc⟩, hu⟩, hp⟩, hw⟩, hcl⟩, hup⟩ := h
  have hv' : ¬ (normVersion v ≠ 4 ∧ normVersion v ≠ 3) := by
    simp only [Bool.or_eq_true, beq_iff_eq] at hv
    unfold normVersion
    rcases hv with (hv | hv) | hv <;> subst hv <;> decide
  have hcl' : ¬ (c.length = 0 ∧ (!clean) = true) := by
    simp only [Bool.or_eq_true, decide_eq_true_eq] at hcl
    intro ⟨h1, h2⟩
    rcases hcl with h | h
    · omega
    · simp [h] at h2
  have hup' : ¬ (u.length = 0 ∧ p.length > 0) := by
    simp only [Bool.or_eq_true, decide_eq_true_eq, beq_iff_eq] at hup
    omega
  have hub : (if 0 < u.length then writeLP u else Except.ok []) =
      (Except.ok (if 0 < u.length then lpB u else []) : GoM Bytes) := by
    split
    · exact writeLP_ok hu
    · rfl
  have hpb : (if 0 < p.length then writeLP p else Except.ok []) =
      (Except.ok (if 0 < p.length then lpB p else []) : GoM Bytes) := by
    split
    · exact writeLP_ok hp
    · rfl
  unfold encode
  simp only [encodeHeader_ok _ _ _ hrl]
  cases w with
  | none =>
    simp only [← normVersion.eq_1, hv', hcl', hup', writeLP_ok hc,
      writeLP_ok (versionName_lp16 _), bind, Except.bind, pure, Except.pure, if_false]
    simp [wire, hdr, mbody, willBytes, Packet.type, pflags, hub, hpb]
  | some m =>
    simp only [Message.WF, Bool.and_eq_true, decide_eq_true_eq] at hw
    obtain ⟨⟨⟨hq, ht⟩, ht0⟩, hpl⟩ := hw
    have ht0' : ¬ m.topic.length = 0 := by omega
    simp only [← normVersion.eq_1, hv', hcl', hup', writeLP_ok hc, writeLP_ok ht,
      writeLP_ok hpl, ht0', hq,
      writeLP_ok (versionName_lp16 _), bind, Except.bind, pure, Except.pure, if_false]
    simp [wire, hdr, mbody, willBytes, Packet.type, pflags, hub, hpb]

theorem qosOK_cases {q : UInt8} (h : qosOK q = true) : q = 0 ∨ q = 1 ∨ q = 2 := by
  simpa [qosOK, or_assoc] using h

theorem encode_connack_ok (sp : Bool) (code : UInt8) (h : (Packet.connack sp code).WF = true) :
    encode (.connack sp code) = .ok (wire (.connack sp code)) := by
  simp only [Packet.WF, decide_eq_true_eq] at h
  have h' : ¬ code > 5 := by simpa [UInt8.not_lt] using h
  unfold encode
  simp only [encodeHeader_ok _ _ _ (show 2 ≤ maxVarint by decide), h', bind, Except.bind, pure,
    Except.pure, if_false]
  simp [wire, hdr, mbody, Packet.type, pflags, Packet.rlen]

theorem encode_publish_ok (m : Message) (dup : Bool) (id : UInt16)
    (h : (Packet.publish m dup id).WF = true) :
    encode (.publish m dup id) = .ok (wire (.publish m dup id)) := by
  have hrl := rlen_le_of_WF _ h
  simp only [Packet.WF, Message.WF, Bool.and_eq_true, decide_eq_true_eq] at h
  obtain ⟨⟨⟨⟨hq, ht⟩, ht0⟩, hid⟩, _⟩ := h
  have ht0' : ¬ m.topic.length = 0 := by omega
  have hid' : ¬ (m.qos > 0 ∧ id = 0) := by
    intro ⟨h1, h2⟩
    subst h2
    split at hid
    · rename_i h3
      simp only [beq_iff_eq] at h3
      rw [h3] at h1
      exact absurd h1 (by decide)
    · simp at hid
  unfold encode
  simp only [ht0', hq, hid', encodeHeader_ok _ _ _ hrl, writeLP_ok ht, bind, Except.bind, pure,
    Except.pure, if_false]
  simp [wire, hdr, mbody, Packet.type, pflags]

theorem encode_subscribe_ok (ss : List Subscription) (id : UInt16)
    (h : (Packet.subscribe ss id).WF = true) :
    encode (.subscribe ss id) = .ok (wire (.subscribe ss id)) := by
  have hrl := rlen_le_of_WF _ h
  simp only [Packet.WF, Bool.and_eq_true, decide_eq_true_eq, bne_iff_ne] at h
  obtain ⟨⟨⟨hid, _⟩, hall⟩, _⟩ := h
  unfold encode
  simp only [hid, encodeHeader_ok _ _ _ hrl, encSubs_ok ss hall, bind, Except.bind, pure,
    Except.pure, if_false]
  simp [wire, hdr, mbody, Packet.type, pflags]

theorem encode_suback_ok (cs : List UInt8) (id : UInt16)
    (h : (Packet.suback cs id).WF = true) :
    encode (.suback cs id) = .ok (wire (.suback cs id)) := by
  have hrl := rlen_le_of_WF _ h
  simp only [Packet.WF, Bool.and_eq_true, decide_eq_true_eq, bne_iff_ne] at h
  obtain ⟨⟨⟨hid, _⟩, hall⟩, _⟩ := h
  unfold encode
  simp only [hid, encodeHeader_ok _ _ _ hrl, encCodes_ok cs hall, bind, Except.bind, pure,
    Except.pure, if_false]
  simp [wire, hdr, mbody, Packet.type, pflags]

theorem encode_unsubscribe_ok (ts : List Bytes) (id : UInt16)
    (h : (Packet.unsubscribe ts id).WF = true) :
    encode (.unsubscribe ts id) = .ok (wire (.unsubscribe ts id)) := by
  have hrl := rlen_le_of_WF _ h
  simp only [Packet.WF, Bool.and_eq_true, decide_eq_true_eq, bne_iff_ne] at h
  obtain ⟨⟨⟨hid, _⟩, hall⟩, _⟩ := h
  unfold encode
  simp only [hid, encodeHeader_ok _ _ _ hrl, encTopics_ok ts hall, bind, Except.bind, pure,
    Except.pure, if_false]
  simp [wire, hdr, mbody, Packet.type, pflags]

theorem encode_wire (p : Packet) (h : p.WF = true) : encode p = .ok (wire p) := by
  cases p with
  | connect c ka u p clean w v => exact encode_connect_ok c ka u p clean w v h
  | connack sp code => exact encode_connack_ok sp code h
  | publish m dup id => exact encode_publish_ok m dup id h
  | subscribe ss id => exact encode_subscribe_ok ss id h
  | suback cs id => exact encode_suback_ok cs id h
  | unsubscribe ts id => exact encode_unsubscribe_ok ts id h
  | puback id | pubrec id | pubrel id | pubcomp id | unsuback id =>
    simp only [Packet.WF, bne_iff_ne] at h
    simp [encode, encodeIdentified_ok _ id h, wire, hdr, mbody, Packet.type, pflags, Packet.rlen]
  | pingreq | pingresp | disconnect =>
    simp [encode, encodeHeader_ok _ 0 0 (by decide), wire, hdr, mbody, Packet.type, pflags,
      Packet.rlen]

/-! ### lengths -/

theorem versionName_norm_length (v : UInt8) (hv : (v == 0 || v == 3 || v == 4) = true) :
    2 + (versionName (normVersion v)).length + 1 = if v = 3 then 2 + 6 + 1 else 2 + 4 + 1 := by
  simp only [Bool.or_eq_true, beq_iff_eq] at hv
  rw [versionName_eq]
  unfold normVersion
  rcases hv with (hv | hv) | hv <;> subst hv <;> decide

theorem mbody_length (p : Packet) (h : p.WF = true) : (mbody p).length = p.rlen := by
  cases p with
  | connect c ka u p clean w v =>
    simp only [Packet.WF, Bool.and_eq_true] at h
    have hv := versionName_norm_length v h.1.1.1.1.1.1
    simp only [mbody, Packet.rlen, List.length_append, lpB_length, be16_length, List.length_cons,
      List.length_nil]
    cases w with
    | none =>
      simp only [willBytes]; split <;> split <;> simp only [lpB_length, List.length_nil] <;> omega
    | some m =>
      simp only [willBytes, List.length_append, lpB_length]
      split <;> split <;> simp only [lpB_length, List.length_nil] <;> omega
  | publish m dup id =>
    simp only [mbody, Packet.rlen, List.length_append, lpB_length]
    split <;> simp [be16_length] <;> omega
  | subscribe ss id =>
    simp [mbody, Packet.rlen, be16_length, subsBytes_length]
  | unsubscribe ts id =>
    simp [mbody, Packet.rlen, be16_length, topicsBytes_length]
  | suback cs id => simp [mbody, Packet.rlen, be16_length]
  | _ => simp [mbody, Packet.rlen, be16_length]

theorem wire_length (p : Packet) (h : p.WF = true) : (wire p).length = p.len := by
  have hrl := rlen_le_of_WF p h
  simp [wire, hdr, mbody_length p h, Packet.len, Packet.headerLen, varintLen_eq_length' _ hrl]
  omega

/-! ### decoder loops -/

theorem decSubs_rt (ss : List Subscription)
    (hall : ss.all (fun s => lp16 s.topic && qosOK s.qos) = true) :
    ∀ (tail : Bytes) (acc : List Subscription),
      decSubs (Packet.subsLen ss : Int) (subsBytes ss ++ tail) acc = .ok (acc.reverse ++ ss) tail := by
  induction ss with
  | nil =>
    intro tail acc
    rw [decSubs]; simp [Packet.subsLen, subsBytes]
  | cons s ss ih =>
    intro tail acc
    simp only [List.all_cons, Bool.and_eq_true] at hall
    obtain ⟨⟨h1, h2⟩, h3⟩ := hall
    have hl : s.topic.length ≤ 65535 := by simpa [lp16] using h1
    rw [decSubs]
    have hpos : ¬ ((Packet.subsLen (s :: ss) : Nat) : Int) ≤ 0 := by
      simp only [Packet.subsLen]; omega
    have hbuf : subsBytes (s :: ss) ++ tail
        = be16 s.topic.length ++ (s.topic ++ (s.qos :: (subsBytes ss ++ tail))) := by
      simp [subsBytes, lpB]
    simp only [hpos, if_false]
    split
    · rename_i e r h
      rw [hbuf, readLP_lp _ hl] at h
      cases h
    · rename_i topic rest h
      rw [hbuf, readLP_lp _ hl] at h
      cases h
      simp only [h2, Bool.not_true, Bool.false_eq_true, if_false]
      have : ((Packet.subsLen (s :: ss) : Nat) : Int) - (2 + (s.topic.length : Int) + 1)
          = (Packet.subsLen ss : Int) := by
        simp only [Packet.subsLen]; omega
      rw [this, ih h3]
      simp

theorem decTopics_rt (ts : List Bytes) (hall : ts.all lp16 = true) :
    ∀ (tail : Bytes) (acc : List Bytes),
      decTopics (Packet.topicsLen ts : Int) (topicsBytes ts ++ tail) acc
        = .ok (acc.reverse ++ ts) tail := by
  induction ts with
  | nil =>
    intro tail acc
    rw [decTopics]; simp [Packet.topicsLen, topicsBytes]
  | cons t ts ih =>
    intro tail acc
    simp only [List.all_cons, Bool.and_eq_true] at hall
    obtain ⟨h1, h3⟩ := hall
    have hl : t.length ≤ 65535 := by simpa [lp16] using h1
    rw [decTopics]
    have hpos : ¬ ((Packet.topicsLen (t :: ts) : Nat) : Int) ≤ 0 := by
      simp only [Packet.topicsLen]; omega
    have hbuf : topicsBytes (t :: ts) ++ tail
        = be16 t.length ++ (t ++ (topicsBytes ts ++ tail)) := by
      simp [topicsBytes, lpB]
    simp only [hpos, if_false]
    split
    · rename_i e r h
      rw [hbuf, readLP_lp _ hl] at h
      cases h
    · rename_i topic rest h
      rw [hbuf, readLP_lp _ hl] at h
      cases h
      have : ((Packet.topicsLen (t :: ts) : Nat) : Int) - (2 + (t.length : Int))
          = (Packet.topicsLen ts : Int) := by
        simp only [Packet.topicsLen]; omega
      rw [this, ih h3]
      simp

theorem decCodes_rt (cs : List UInt8) (hall : cs.all subackCodeOK = true) :
    ∀ (tail : Bytes) (acc : List UInt8),
      decCodes cs.length (cs ++ tail) acc = .ok (acc.reverse ++ cs) tail := by
  induction cs with
  | nil => intro tail acc; simp [decCodes]
  | cons c cs ih =>
    intro tail acc
    simp only [List.all_cons, Bool.and_eq_true] at hall
    obtain ⟨h1, h3⟩ := hall
    simp [decCodes, h1, ih h3]

/-! ### decoding the closed form -/

theorem pflags_lt (p : Packet) (h : p.WF = true) : p.type.defaultFlags + pflags p < 16 := by
  cases p with
  | publish m dup id =>
    simp only [Packet.WF, Message.WF, Bool.and_eq_true] at h
    have hq := qosOK_cases h.1.1.1.1
    simp only [Packet.type, PType.defaultFlags, pflags]
    rcases hq with hq | hq | hq <;> rw [hq] <;> cases dup <;> cases m.retain <;> decide
  | _ => simp [Packet.type, PType.defaultFlags, pflags]

theorem pflags_nonpub (p : Packet) (h : p.type ≠ .publish) : pflags p = 0 := by
  cases p <;> simp_all [Packet.type, pflags]

theorem decodeHeader_wire (p : Packet) (h : p.WF = true) (tail : Bytes) :
    decodeHeader p.type (wire p ++ tail)
      = .ok (p.type.defaultFlags + pflags p, p.rlen) (mbody p ++ tail) := by
  have hb : wire p ++ tail = UInt8.ofNat (p.type.code * 16 + (p.type.defaultFlags + pflags p))
      :: (putUvarint p.rlen ++ (mbody p ++ tail)) := by
    simp [wire, hdr]
  rw [hb]
  exact decodeHeader_ok p.type (pflags p) p.rlen (rlen_le_of_WF p h) (pflags_lt p h)
    (pflags_nonpub p) _ (by simp [mbody_length p h])

theorem decodeIdentified_rt (t : PType) (mk : UInt16 → Packet) (id : UInt16) (hid : id ≠ 0)
    (hm : mbody (mk id) = be16 id.toNat) (ht : (mk id).type = t) (hwf : (mk id).WF = true)
    (hrl : (mk id).rlen = 2) (tail : Bytes) :
    decodeIdentified t mk (wire (mk id) ++ tail) = .ok (mk id) tail := by
  have hh := decodeHeader_wire (mk id) hwf tail
  rw [ht, hm, hrl] at hh
  have hne : ¬ id.toNat = 0 := by
    intro h; apply hid; exact UInt16.toNat_inj.mp (by simpa using h)
  unfold decodeIdentified
  simp [Rd.bind_apply, hne, hh, readU16_be16 _ (u16_toNat_lt id)]
  rfl

theorem u16_ne_zero_toNat {id : UInt16} (hid : id ≠ 0) : ¬ id.toNat = 0 := by
  intro h; apply hid; exact UInt16.toNat_inj.mp (by simpa using h)

theorem rd_pure_apply {α : Type} (a : α) (bs : Bytes) : (Pure.pure a : Rd α) bs = .ok a bs := rfl

theorem rd_fail_apply {α : Type} (bs : Bytes) : (Rd.fail : Rd α) bs = .err .err bs := rfl

/-- `Rd.bind_apply` for a first action written as a bare function -/
theorem rd_bind_fun {α β : Type} (g : Bytes → R α) (f : α → Rd β) (bs : Bytes) :
    (@Bind.bind Rd _ α β g f) bs = match g bs with
      | .ok a rest => f a rest
      | .err e rest => .err e rest := rfl

theorem decodeNaked_rt (t : PType) (p : Packet) (hm : mbody p = []) (ht : p.type = t)
    (hwf : p.WF = true) (hrl : p.rlen = 0) (tail : Bytes) :
    decodeNaked t p (wire p ++ tail) = .ok p tail := by
  have hh := decodeHeader_wire p hwf tail
  rw [ht, hm, hrl] at hh
  unfold decodeNaked
  simp [Rd.bind_apply, hh]
  rfl

theorem decodeConnack_rt (sp : Bool) (code : UInt8) (hwf : (Packet.connack sp code).WF = true)
    (tail : Bytes) :
    decodeConnack (wire (.connack sp code) ++ tail) = .ok (.connack sp code) tail := by
  have hh := decodeHeader_wire _ hwf tail
  simp only [Packet.type, mbody, Packet.rlen] at hh
  simp only [Packet.WF, decide_eq_true_eq] at hwf
  have h' : ¬ code > 5 := by simpa [UInt8.not_lt] using hwf
  unfold decodeConnack
  cases sp <;> simp [Rd.bind_apply, hh, readU8_cons, h'] <;> rfl

theorem decodeSuback_rt (cs : List UInt8) (id : UInt16) (hwf : (Packet.suback cs id).WF = true)
    (tail : Bytes) :
    decodeSuback (wire (.suback cs id) ++ tail) = .ok (.suback cs id) tail := by
  have hh := decodeHeader_wire _ hwf tail
  simp only [Packet.type, mbody, Packet.rlen, List.append_assoc] at hh
  simp only [Packet.WF, Bool.and_eq_true, decide_eq_true_eq, bne_iff_ne] at hwf
  obtain ⟨⟨⟨hid, hne⟩, hall⟩, _⟩ := hwf
  have hne' := u16_ne_zero_toNat hid
  have hlen : 1 ≤ cs.length := by
    cases cs with
    | nil => simp at hne
    | cons c cs => simp
  have hlt : ¬ (2 + (cs.length : Int) - 2 < 1) := by omega
  unfold decodeSuback
  simp only [Rd.bind_apply, hh, readU16_be16 _ (u16_toNat_lt id)]
  simp [hne', hlt]
  rw [rd_bind_fun]
  simp [decCodes_rt cs hall]
  rfl

theorem getLen_apply (bs : Bytes) : Rd.getLen bs = .ok bs.length bs := rfl

theorem slice_all (bs : Bytes) : slice? bs 0 bs.length = .ok bs := by
  simp [slice?]

theorem decodePublishBody_rt (m : Message) (dup : Bool) (id : UInt16)
    (hwf : (Packet.publish m dup id).WF = true) (rl : Nat) :
    decodePublishBody (pflags (.publish m dup id)) rl (mbody (.publish m dup id))
      = .ok (.publish m dup id) [] := by
  simp only [Packet.WF, Message.WF, Bool.and_eq_true, decide_eq_true_eq] at hwf
  obtain ⟨⟨⟨⟨hq, ht⟩, ht0⟩, hid⟩, _⟩ := hwf
  have ht' : m.topic.length ≤ 65535 := by simpa [lp16] using ht
  have ht0' : ¬ m.topic.length = 0 := by omega
  obtain ⟨topic, payload, qos, retain⟩ := m
  simp only at hq ht' ht0' hid
  have hqc := qosOK_cases hq
  have htn : ¬ topic = [] := by
    intro h; subst h; simp at ht0'
  unfold decodePublishBody
  rcases hqc with hq0 | hq0 | hq0 <;> subst hq0
  · simp only [beq_self_eq_true, if_true, beq_iff_eq] at hid
    subst hid
    cases dup <;> cases retain <;>
      simp [pflags, mbody, lpB, Rd.bind_apply, rd_bind_fun, rd_pure_apply, readLP_lp _ ht', htn, getLen_apply,
        slice_all]
  all_goals
    have hid' : id ≠ 0 := by simpa using hid
    have hne := u16_ne_zero_toNat hid'
    cases dup <;> cases retain <;>
      simp [pflags, mbody, lpB, Rd.bind_apply, rd_bind_fun, rd_pure_apply, readLP_lp _ ht', htn, getLen_apply,
        slice_all, readU16_be16 _ (u16_toNat_lt id), hne]

theorem decodePublish_rt (m : Message) (dup : Bool) (id : UInt16)
    (hwf : (Packet.publish m dup id).WF = true) (tail : Bytes) :
    decodePublish (wire (.publish m dup id) ++ tail) = .ok (.publish m dup id) tail := by
  have hh := decodeHeader_wire _ hwf tail
  have hl := mbody_length _ hwf
  simp only [Packet.type, PType.defaultFlags, Nat.zero_add] at hh
  unfold decodePublish
  simp only [Rd.bind_apply, hh]
  rw [within_exact _ _ _ _ hl, decodePublishBody_rt m dup id hwf]
  simp

theorem nonempty_ne_nil {α : Type} {l : List α} (h : (!l.isEmpty) = true) : ¬ l = [] := by
  cases l with
  | nil => simp at h
  | cons a l => simp

theorem decodeSubscribe_rt (ss : List Subscription) (id : UInt16)
    (hwf : (Packet.subscribe ss id).WF = true) (tail : Bytes) :
    decodeSubscribe (wire (.subscribe ss id) ++ tail) = .ok (.subscribe ss id) tail := by
  have hh := decodeHeader_wire _ hwf tail
  have hl := mbody_length _ hwf
  simp only [Packet.type] at hh
  simp only [Packet.WF, Bool.and_eq_true, decide_eq_true_eq, bne_iff_ne] at hwf
  obtain ⟨⟨⟨hid, hne⟩, hall⟩, _⟩ := hwf
  have hne' := u16_ne_zero_toNat hid
  have hlen := nonempty_ne_nil hne
  have hsl : ((Packet.subscribe ss id).rlen : Int) - 2 = (Packet.subsLen ss : Int) := by
    simp only [Packet.rlen]; omega
  have hd := decSubs_rt ss hall [] []
  simp only [List.append_nil, List.reverse_nil, List.nil_append] at hd
  unfold decodeSubscribe
  simp only [Rd.bind_apply, hh]
  rw [within_exact _ _ _ _ hl]
  simp [mbody, Rd.bind_apply, rd_bind_fun, rd_pure_apply, readU16_be16 _ (u16_toNat_lt id), hne',
    hsl, hd, hlen]

theorem decodeUnsubscribe_rt (ts : List Bytes) (id : UInt16)
    (hwf : (Packet.unsubscribe ts id).WF = true) (tail : Bytes) :
    decodeUnsubscribe (wire (.unsubscribe ts id) ++ tail) = .ok (.unsubscribe ts id) tail := by
  have hh := decodeHeader_wire _ hwf tail
  have hl := mbody_length _ hwf
  simp only [Packet.type] at hh
  simp only [Packet.WF, Bool.and_eq_true, decide_eq_true_eq, bne_iff_ne] at hwf
  obtain ⟨⟨⟨hid, hne⟩, hall⟩, _⟩ := hwf
  have hne' := u16_ne_zero_toNat hid
  have hlen := nonempty_ne_nil hne
  have hsl : ((Packet.unsubscribe ts id).rlen : Int) - 2 = (Packet.topicsLen ts : Int) := by
    simp only [Packet.rlen]; omega
  have hd := decTopics_rt ts hall [] []
  simp only [List.append_nil, List.reverse_nil, List.nil_append] at hd
  unfold decodeUnsubscribe
  simp only [Rd.bind_apply, hh]
  rw [within_exact _ _ _ _ hl]
  simp [mbody, Rd.bind_apply, rd_bind_fun, rd_pure_apply, readU16_be16 _ (u16_toNat_lt id), hne',
    hsl, hd, hlen]

/-! CONNECT -/

def willRetain : Option Message → Bool
  | some m => m.retain
  | none => false

def willQos : Option Message → Nat
  | some m => m.qos.toNat
  | none => 0

theorem connectFlags_bits (u p : Bytes) (clean : Bool) (w : Option Message)
    (hq : ∀ m, w = some m → qosOK m.qos = true) :
    let cf := connectFlags u p clean w
    cf < 256 ∧ ((cf / 128) % 2 == 1) = decide (u.length > 0)
      ∧ ((cf / 64) % 2 == 1) = decide (p.length > 0)
      ∧ ((cf / 4) % 2 == 1) = w.isSome
      ∧ ((cf / 32) % 2 == 1) = willRetain w
      ∧ (cf / 8) % 4 = willQos w
      ∧ ((cf / 2) % 2 == 1) = clean
      ∧ cf % 2 = 0 := by
  intro cf
  have hcf : cf = (if u.length > 0 then 128 else 0) + (if p.length > 0 then 64 else 0)
      + (if w.isSome then 4 else 0) + willQos w * 8 + (if willRetain w then 32 else 0)
      + (if clean then 2 else 0) := by
    rcases w with _ | m
    · simp [cf, connectFlags, willQos, willRetain]
    · simp only [cf, connectFlags, willQos, willRetain, Option.isSome_some, if_true]
      by_cases hr : m.retain = true <;> simp [hr] <;> omega
  have hq2 : willQos w ≤ 2 := by
    cases w with
    | none => simp [willQos]
    | some m =>
      rcases qosOK_cases (hq m rfl) with h | h | h <;> simp [willQos, h]
  have hr : willRetain w = true → w.isSome = true := by
    cases w <;> simp [willRetain]
  have hq0 : w.isSome = false → willQos w = 0 := by
    cases w <;> simp [willQos]
  rw [hcf]
  by_cases hu : u.length > 0 <;> by_cases hp : p.length > 0 <;> cases clean <;>
    cases hs : w.isSome <;> cases hwr : willRetain w <;>
    simp_all <;> omega

theorem normVersion_34 (v : UInt8) (hv : (v == 0 || v == 3 || v == 4) = true) :
    normVersion v = 3 ∨ normVersion v = 4 := by
  simp only [Bool.or_eq_true, beq_iff_eq] at hv
  unfold normVersion
  rcases hv with (hv | hv) | hv <;> subst hv <;> decide

theorem decodeConnect_rt (c : Bytes) (ka : UInt16) (u p : Bytes) (clean : Bool)
    (w : Option Message) (v : UInt8)
    (hwf : (Packet.connect c ka u p clean w v).WF = true) (tail : Bytes) :
    decodeConnect (wire (.connect c ka u p clean w v) ++ tail)
      = .ok (.connect c ka u p clean w (normVersion v)) tail := by
  have hh := decodeHeader_wire _ hwf tail
  simp only [Packet.type] at hh
  simp only [Packet.WF, Bool.and_eq_true] at hwf
  obtain ⟨⟨⟨⟨⟨⟨hv, hc⟩, hu⟩, hp⟩, hw⟩, hcl⟩, hup⟩ := hwf
  have hq : ∀ m, w = some m → qosOK m.qos = true := by
    intro m hm; subst hm
    simp only [Message.WF, Bool.and_eq_true] at hw
    exact hw.1.1.1
  obtain ⟨hcf, b7, b6, b2, b5, b3, b1, b0⟩ := connectFlags_bits u p clean w hq
  have hcfb : (UInt8.ofNat (connectFlags u p clean w)).toNat = connectFlags u p clean w :=
    u8_toNat_ofNat hcf
  have hv34 := normVersion_34 v hv
  have hvv : ¬ (normVersion v ≠ 4 ∧ normVersion v ≠ 3) := by
    rcases hv34 with h | h <;> rw [h] <;> decide
  have hnl : (versionName (normVersion v)).length ≤ 65535 := by
    simpa [lp16] using versionName_lp16 (normVersion v)
  have hcl' : c.length ≤ 65535 := by simpa [lp16] using hc
  have hq2 : ¬ willQos w > 2 := by
    cases w with
    | none => simp [willQos]
    | some m => rcases qosOK_cases (hq m rfl) with h | h | h <;> simp [willQos, h]
  have hwr : ¬ ((!w.isSome) = true ∧ (willRetain w = true ∨ ¬ willQos w = 0)) := by
    cases w <;> simp [willRetain, willQos]
  have hup' : ¬ ((!decide (u.length > 0)) = true ∧ decide (p.length > 0) = true) := by
    simp only [Bool.or_eq_true, decide_eq_true_eq, beq_iff_eq] at hup
    simp only [Bool.not_eq_true', decide_eq_false_iff_not, decide_eq_true_eq]
    omega
  have hclc : ¬ (c.length = 0 ∧ (!clean) = true) := by
    simp only [Bool.or_eq_true, decide_eq_true_eq] at hcl
    intro ⟨h1, h2⟩
    rcases hcl with h | h
    · omega
    · simp [h] at h2
  have hbody : mbody (.connect c ka u p clean w v) ++ tail
      = be16 (versionName (normVersion v)).length ++ (versionName (normVersion v) ++
        (normVersion v :: UInt8.ofNat (connectFlags u p clean w) :: (be16 ka.toNat ++
          (be16 c.length ++ (c ++
            (willBytes w ++ ((if u.length > 0 then lpB u else []) ++
              ((if p.length > 0 then lpB p else []) ++ tail)))))))) := by
    simp [mbody, lpB]
  rw [hbody] at hh
  unfold decodeConnect
  simp only [Rd.bind_apply, hh, readLP_lp _ hnl, readU8_cons, hvv, if_false, rd_pure_apply,
    ne_eq, not_true_eq_false, hcfb, b0, b1, b2, b3, b5, b6, b7, hq2, hwr, hup', hclc,
    readU16_be16 _ (u16_toNat_lt ka), readLP_lp _ hcl', u16_ofNat_toNat]
  have hul : u.length ≤ 65535 := by simpa [lp16] using hu
  have hpl : p.length ≤ 65535 := by simpa [lp16] using hp
  have hu0 : ¬ u.length > 0 → u = [] := by
    intro h; cases u with
    | nil => rfl
    | cons a u => simp at h
  have hp0 : ¬ p.length > 0 → p = [] := by
    intro h; cases p with
    | nil => rfl
    | cons a p => simp at h
  have hwill : ∀ rest : Bytes,
      (if w.isSome = true then do
          let t ← readLP
          if List.length t = 0 then do
              Rd.fail
              let pl ← readLP
              pure (some { topic := t, payload := pl, qos := UInt8.ofNat (willQos w), retain := willRetain w })
            else do
              let pl ← readLP
              pure (some { topic := t, payload := pl, qos := UInt8.ofNat (willQos w), retain := willRetain w })
        else pure none : Rd (Option Message)) (willBytes w ++ rest) = .ok w rest := by
    intro rest
    cases w with
    | none => simp [willBytes, rd_pure_apply]
    | some m =>
      simp only [Message.WF, Bool.and_eq_true, decide_eq_true_eq, lp16] at hw
      obtain ⟨⟨⟨_, ht⟩, ht0⟩, hpl⟩ := hw
      have ht0' : ¬ m.topic.length = 0 := by omega
      have hb : willBytes (some m) ++ rest = be16 m.topic.length ++ (m.topic ++
          (be16 m.payload.length ++ (m.payload ++ rest))) := by simp [willBytes, lpB]
      rw [hb]
      simp only [Option.isSome_some, if_true, Rd.bind_apply, readLP_lp _ ht, ht0', if_false,
        readLP_lp _ hpl, rd_pure_apply, willQos, willRetain, u8_ofNat_toNat]
  rw [hwill]
  by_cases hu1 : u.length > 0 <;> by_cases hp1 : p.length > 0
  · simp [hu1, hp1, lpB, readLP_lp _ hul, readLP_lp _ hpl]
  · simp [hu1, lpB, readLP_lp _ hul, hp0 hp1, rd_pure_apply]
  · exact absurd ⟨by simp [hu1], by simp [hp1]⟩ hup'
  · simp [hu0 hu1, hp0 hp1, rd_pure_apply]

theorem decode_wire (p : Packet) (h : p.WF = true) (tail : Bytes) :
    decode p.type (wire p ++ tail) = .ok p.norm tail := by
  cases p with
  | connect c ka u p clean w v =>
    simpa [Packet.type, decode, Packet.norm, normVersion] using
      decodeConnect_rt c ka u p clean w v h tail
  | connack sp code => exact decodeConnack_rt sp code h tail
  | publish m dup id => exact decodePublish_rt m dup id h tail
  | subscribe ss id => exact decodeSubscribe_rt ss id h tail
  | suback cs id => exact decodeSuback_rt cs id h tail
  | unsubscribe ts id => exact decodeUnsubscribe_rt ts id h tail
  | puback id =>
    exact decodeIdentified_rt .puback .puback id (by simpa [Packet.WF] using h) rfl rfl h rfl tail
  | pubrec id =>
    exact decodeIdentified_rt .pubrec .pubrec id (by simpa [Packet.WF] using h) rfl rfl h rfl tail
  | pubrel id =>
    exact decodeIdentified_rt .pubrel .pubrel id (by simpa [Packet.WF] using h) rfl rfl h rfl tail
  | pubcomp id =>
    exact decodeIdentified_rt .pubcomp .pubcomp id (by simpa [Packet.WF] using h) rfl rfl h rfl tail
  | unsuback id =>
    exact decodeIdentified_rt .unsuback .unsuback id (by simpa [Packet.WF] using h) rfl rfl h rfl tail
  | pingreq => exact decodeNaked_rt .pingreq .pingreq rfl rfl h rfl tail
  | pingresp => exact decodeNaked_rt .pingresp .pingresp rfl rfl h rfl tail
  | disconnect => exact decodeNaked_rt .disconnect .disconnect rfl rfl h rfl tail

/-! ### the buffer check -/

theorem headerLen_le_len (p : Packet) : Packet.headerLen p.rlen ≤ p.len := by
  simp [Packet.len]

theorem encodeInto_ge' (p : Packet) (h : p.WF = true) (cap : Nat) (hc : p.len ≤ cap) :
    encodeInto cap p = encode p := by
  have h1 := headerLen_le_len p
  have hn : ¬ (cap < Packet.headerLen p.rlen ∨ cap < p.len) := by omega
  cases p with
  | publish m dup id =>
    have hw := h
    simp only [Packet.WF, Message.WF, Bool.and_eq_true, decide_eq_true_eq] at hw
    obtain ⟨⟨⟨⟨hq, ht⟩, ht0⟩, hid⟩, _⟩ := hw
    have hpre : ¬ (m.topic.length = 0 ∨ (!qosOK m.qos) = true ∨ (m.qos > 0 ∧ id = 0)) := by
      rintro (g1 | g1 | ⟨g1, g2⟩)
      · omega
      · simp [hq] at g1
      · subst g2
        split at hid
        · rename_i g3
          simp only [beq_iff_eq] at g3
          rw [g3] at g1
          exact absurd g1 (by decide)
        · simp at hid
    simp only [encodeInto, hpre, hn, if_false]
  | _ => simp only [encodeInto, hn, if_false]

theorem encodeInto_lt' (p : Packet) (cap : Nat) (hc : cap < p.len) :
    encodeInto cap p = .error .err := by
  have hn : (cap < Packet.headerLen p.rlen ∨ cap < p.len) := Or.inr hc
  cases p with
  | publish m dup id =>
    simp only [encodeInto, hn, if_true]
    split <;> rfl
  | _ => simp only [encodeInto, hn, if_true]

/-! ### the reference codec -/

theorem encRL_eq (n : Nat) : Ref.encRL n = putUvarint n := by
  induction n using putUvarint.induct with
  | case1 n h =>
    rw [Ref.encRL, putUvarint_lt h]
    have h0 : ¬ n / 128 > 0 := by omega
    have h1 : n % 128 = n := by omega
    simp [h0, h1]
  | case2 n h ih =>
    rw [Ref.encRL, putUvarint_ge h]
    have h0 : n / 128 > 0 := by omega
    simp [h0, ih]

theorem ref_u16_eq (n : Nat) : Ref.u16 n = be16 n := by
  have h1 : n >>> 8 = n / 256 := by rw [Nat.shiftRight_eq_div_pow]
  have h2 : n &&& 0xff = n % 256 := Nat.and_two_pow_sub_one_eq_mod n 8
  simp only [Ref.u16, be16, h1, h2]

theorem ref_lp_eq (b : Bytes) : Ref.lp b = lpB b := by
  simp [Ref.lp, lpB, ref_u16_eq]

theorem ref_connect_flags (u p : Bytes) (clean : Bool) (w : Option Message)
    (hq : ∀ m, w = some m → qosOK m.qos = true) :
    ((if u.length > 0 then 0x80 else 0) ||| (if p.length > 0 then 0x40 else 0)
        ||| (match w with
             | some m => (if m.retain then 0x20 else 0) ||| (m.qos.toNat <<< 3) ||| 0x04
             | none => 0)
        ||| (if clean then 0x02 else 0) : Nat) = connectFlags u p clean w := by
  unfold connectFlags
  cases w with
  | none =>
    by_cases hu : u.length > 0 <;> by_cases hp : p.length > 0 <;> cases clean <;> simp [hu, hp]
  | some m =>
    obtain ⟨t, pl, q, r⟩ := m
    rcases qosOK_cases (hq _ rfl) with h | h | h <;> simp only at h <;> subst h <;>
    by_cases hu : u.length > 0 <;> by_cases hp : p.length > 0 <;> cases clean <;> cases r <;>
      simp [hu, hp]

theorem ref_subs_eq (ss : List Subscription) :
    ss.flatMap (fun s => Ref.lp s.topic ++ [s.qos]) = subsBytes ss := by
  induction ss with
  | nil => rfl
  | cons s ss ih => rw [List.flatMap_cons, ih, ref_lp_eq]; simp [subsBytes]

theorem ref_topics_eq (ts : List Bytes) : ts.flatMap Ref.lp = topicsBytes ts := by
  induction ts with
  | nil => rfl
  | cons t ts ih => rw [List.flatMap_cons, ih, ref_lp_eq]; simp [topicsBytes]

theorem ref_validQoS {q : UInt8} (h : qosOK q = true) : Ref.validQoS q = true := by
  rcases qosOK_cases h with h | h | h <;> subst h <;> decide

theorem ref_body_eq (p : Packet) (h : p.WF = true) : Ref.body p = mbody p := by
  cases p with
  | connect c ka u p clean w v =>
    simp only [Packet.WF, Bool.and_eq_true] at h
    obtain ⟨⟨⟨⟨⟨⟨hv, hc⟩, hu⟩, hp⟩, hw⟩, hcl⟩, hup⟩ := h
    have hq : ∀ m, w = some m → qosOK m.qos = true := by
      intro m hm; subst hm
      simp only [Message.WF, Bool.and_eq_true] at hw
      exact hw.1.1.1
    have hlevel : (if (v == 3) = true then (3 : UInt8) else 4) = normVersion v := by
      simp only [Bool.or_eq_true, beq_iff_eq] at hv
      unfold normVersion
      rcases hv with (hv | hv) | hv <;> subst hv <;> decide
    have hname : (if (v == 3) = true then "MQIsdp".toUTF8.toList else "MQTT".toUTF8.toList)
        = versionName (normVersion v) := by
      simp only [Bool.or_eq_true, beq_iff_eq] at hv
      rw [versionName_eq, mqtt_bytes, mqisdp_bytes]
      unfold normVersion
      rcases hv with (hv | hv) | hv <;> subst hv <;> decide
    have hf := ref_connect_flags u p clean w hq
    cases w with
    | none =>
      simp only [] at hf
      simp only [Ref.body, mbody, willBytes, hlevel, hname, hf, ref_lp_eq, ref_u16_eq]
      simp
    | some m =>
      simp only [] at hf
      simp only [Ref.body, mbody, willBytes, hlevel, hname, hf, ref_lp_eq, ref_u16_eq]
      simp
  | connack sp code => rfl
  | publish m dup id =>
    have hc : (m.qos.toNat > 0) = (m.qos ≠ 0) := by
      apply propext
      constructor
      · intro h1 h2; rw [h2] at h1; exact absurd h1 (by decide)
      · intro h1
        apply Nat.pos_of_ne_zero
        intro h2; apply h1; exact UInt8.toNat_inj.mp (by simpa using h2)
    simp only [Ref.body, mbody, ref_lp_eq, ref_u16_eq, hc]
  | subscribe ss id => simp only [Ref.body, mbody, ref_u16_eq, ref_subs_eq]
  | suback cs id => simp only [Ref.body, mbody, ref_u16_eq]
  | unsubscribe ts id => simp only [Ref.body, mbody, ref_u16_eq, ref_topics_eq]
  | puback id | pubrec id | pubrel id | pubcomp id | unsuback id =>
    simp only [Ref.body, mbody, ref_u16_eq]
  | pingreq | pingresp | disconnect => rfl

theorem ref_wellFormed (p : Packet) (h : p.WF = true) : Ref.wellFormed p = true := by
  cases p with
  | connect c ka u p clean w v =>
    simp only [Packet.WF, Bool.and_eq_true] at h
    obtain ⟨⟨⟨⟨⟨⟨hv, hc⟩, hu⟩, hp⟩, hw⟩, hcl⟩, hup⟩ := h
    cases w with
    | none => simp_all [Ref.wellFormed, Ref.str16, lp16]
    | some m =>
      simp only [Message.WF, Bool.and_eq_true] at hw
      obtain ⟨⟨⟨hq, ht⟩, ht0⟩, hpl⟩ := hw
      have := ref_validQoS hq
      simp_all [Ref.wellFormed, Ref.str16, lp16]
  | connack sp code =>
    simp only [Packet.WF, decide_eq_true_eq] at h
    simpa [Ref.wellFormed, UInt8.le_iff_toNat_le] using h
  | publish m dup id =>
    simp only [Packet.WF, Message.WF, Bool.and_eq_true, decide_eq_true_eq] at h
    obtain ⟨⟨⟨⟨hq, ht⟩, ht0⟩, hid⟩, _⟩ := h
    have := ref_validQoS hq
    have hd : (m.qos == 0 || id != 0) = true := by
      split at hid
      · rename_i g; simp [g]
      · simp [hid]
    simp only [Ref.wellFormed, Ref.str16, this, hd, Bool.and_true, Bool.true_and, Bool.and_eq_true,
      decide_eq_true_eq]
    exact ⟨by simpa [lp16] using ht, ht0⟩
  | subscribe ss id =>
    simp only [Packet.WF, Bool.and_eq_true, decide_eq_true_eq] at h
    obtain ⟨⟨⟨hid, hne⟩, hall⟩, _⟩ := h
    have hall' : ss.all (fun s => Ref.str16 s.topic && Ref.validQoS s.qos) = true := by
      rw [List.all_eq_true] at hall ⊢
      intro s hs
      have := hall s hs
      simp only [Bool.and_eq_true] at this ⊢
      exact ⟨by simpa [lp16, Ref.str16] using this.1, ref_validQoS this.2⟩
    simp [Ref.wellFormed, hid, hne, hall']
  | suback cs id =>
    simp only [Packet.WF, Bool.and_eq_true, decide_eq_true_eq] at h
    obtain ⟨⟨⟨hid, hne⟩, hall⟩, _⟩ := h
    have hall' : cs.all (fun c => Ref.validQoS c || c == 0x80) = true := by
      rw [List.all_eq_true] at hall ⊢
      intro c hc
      have := hall c hc
      simp only [subackCodeOK, Bool.or_eq_true] at this ⊢
      rcases this with h1 | h1
      · exact Or.inl (ref_validQoS h1)
      · exact Or.inr h1
    simp [Ref.wellFormed, hid, hne, hall']
  | unsubscribe ts id =>
    simp only [Packet.WF, Bool.and_eq_true, decide_eq_true_eq] at h
    obtain ⟨⟨⟨hid, hne⟩, hall⟩, _⟩ := h
    have hall' : ts.all Ref.str16 = true := hall
    simp [Ref.wellFormed, hid, hne, hall']
  | puback id | pubrec id | pubrel id | pubcomp id | unsuback id =>
    simpa [Ref.wellFormed, Packet.WF] using h
  | pingreq | pingresp | disconnect => rfl

theorem ref_fixedFlags (p : Packet) (h : p.WF = true) :
    Ref.fixedFlags p = p.type.defaultFlags + pflags p := by
  cases p with
  | publish m dup id =>
    simp only [Packet.WF, Message.WF, Bool.and_eq_true] at h
    obtain ⟨t, pl, q, r⟩ := m
    rcases qosOK_cases h.1.1.1.1 with hq | hq | hq <;> simp only at hq <;> subst hq <;>
      cases dup <;> cases r <;> simp [Ref.fixedFlags, Packet.type, PType.defaultFlags, pflags]
  | _ => simp [Ref.fixedFlags, Packet.type, PType.defaultFlags, pflags]

theorem ref_encode_wire (p : Packet) (h : p.WF = true) : Ref.encode p = some (wire p) := by
  have hl := mbody_length p h
  have hr := rlen_le_of_WF p h
  unfold maxVarint at hr
  simp only [Ref.encode, ref_body_eq p h, ref_fixedFlags p h, encRL_eq, hl, ref_wellFormed p h]
  simp [wire, hdr, hr]

/-! ### packets that are not well-formed -/

theorem writeLP_err {b : Bytes} (h : ¬ lp16 b = true) : writeLP b = .error .err := by
  have : b.length > 65535 := by simpa [lp16] using h
  simp [writeLP, this]

theorem not_lp16_pos {b : Bytes} (h : ¬ lp16 b = true) : b.length > 0 := by
  have : b.length > 65535 := by simpa [lp16] using h
  omega

theorem encSubs_err (ss : List Subscription)
    (h : ¬ ss.all (fun s => lp16 s.topic && qosOK s.qos) = true) :
    encSubs ss = .error .err := by
  induction ss with
  | nil => simp at h
  | cons s ss ih =>
    by_cases h1 : lp16 s.topic = true
    · by_cases h2 : qosOK s.qos = true
      · have h3 : ¬ ss.all (fun s => lp16 s.topic && qosOK s.qos) = true := by
          intro h3; apply h; simp [h1, h2, h3]
        simp [encSubs, writeLP_ok h1, h2, ih h3, bind, Except.bind]
      · simp [encSubs, writeLP_ok h1, h2, bind, Except.bind]
    · simp [encSubs, writeLP_err h1, bind, Except.bind]

theorem encCodes_err (cs : List UInt8) (h : ¬ cs.all subackCodeOK = true) :
    encCodes cs = .error .err := by
  induction cs with
  | nil => simp at h
  | cons c cs ih =>
    by_cases h1 : subackCodeOK c = true
    · have h3 : ¬ cs.all subackCodeOK = true := by
        intro h3; apply h; simp [h1, h3]
      simp [encCodes, h1, ih h3, bind, Except.bind]
    · simp [encCodes, h1, bind, Except.bind]

theorem encTopics_err (ts : List Bytes) (h : ¬ ts.all lp16 = true) :
    encTopics ts = .error .err := by
  induction ts with
  | nil => simp at h
  | cons t ts ih =>
    by_cases h1 : lp16 t = true
    · have h3 : ¬ ts.all lp16 = true := by
        intro h3; apply h; simp [h1, h3]
      simp [encTopics, writeLP_ok h1, ih h3, bind, Except.bind]
    · simp [encTopics, writeLP_err h1, bind, Except.bind]

theorem encodeIdentified_err (t : PType) : encodeIdentified t 0 = .error .err := by
  simp [encodeIdentified, bind, Except.bind]

theorem encode_connack_err (sp : Bool) (code : UInt8) (h : (Packet.connack sp code).WF = false) :
    encode (.connack sp code) = .error .err := by
  have h' : code > 5 := by simpa [Packet.WF, UInt8.not_le] using h
  simp [encode, encodeHeader_ok _ _ _ (show 2 ≤ maxVarint by decide), h', bind, Except.bind]

theorem encode_subscribe_err (ss : List Subscription) (id : UInt16)
    (h : (Packet.subscribe ss id).WF = false) (hne : ss ≠ [])
    (hlen : (Packet.subscribe ss id).rlen ≤ maxVarint) :
    encode (.subscribe ss id) = .error .err := by
  by_cases hid : id = 0
  · simp [encode, hid, bind, Except.bind]
  · by_cases hall : ss.all (fun s => lp16 s.topic && qosOK s.qos) = true
    · exfalso
      have : (Packet.subscribe ss id).WF = true := by
        simp only [Packet.rlen] at hlen
        simp [Packet.WF, hid, hne, hall, hlen]
      rw [this] at h; cases h
    · simp [encode, hid, encodeHeader_ok _ _ _ hlen, encSubs_err ss hall, bind, Except.bind]

theorem encode_suback_err (cs : List UInt8) (id : UInt16)
    (h : (Packet.suback cs id).WF = false) (hne : cs ≠ [])
    (hlen : (Packet.suback cs id).rlen ≤ maxVarint) :
    encode (.suback cs id) = .error .err := by
  by_cases hid : id = 0
  · subst hid
    simp [encode, encodeHeader_ok _ _ _ hlen, bind, Except.bind]
  · by_cases hall : cs.all subackCodeOK = true
    · exfalso
      have : (Packet.suback cs id).WF = true := by
        simp only [Packet.rlen] at hlen
        simp [Packet.WF, hid, hne, hall, hlen]
      rw [this] at h; cases h
    · simp [encode, hid, encodeHeader_ok _ _ _ hlen, encCodes_err cs hall, bind, Except.bind]

theorem encode_unsubscribe_err (ts : List Bytes) (id : UInt16)
    (h : (Packet.unsubscribe ts id).WF = false) (hne : ts ≠ [])
    (hlen : (Packet.unsubscribe ts id).rlen ≤ maxVarint) :
    encode (.unsubscribe ts id) = .error .err := by
  by_cases hid : id = 0
  · subst hid
    simp [encode, encodeHeader_ok _ _ _ hlen, bind, Except.bind]
  · by_cases hall : ts.all lp16 = true
    · exfalso
      have : (Packet.unsubscribe ts id).WF = true := by
        simp only [Packet.rlen] at hlen
        simp [Packet.WF, hid, hne, hall, hlen]
      rw [this] at h; cases h
    · simp [encode, hid, encodeHeader_ok _ _ _ hlen, encTopics_err ts hall, bind, Except.bind]

theorem encode_publish_err (m : Message) (dup : Bool) (id : UInt16)
    (h : (Packet.publish m dup id).WF = false) (hid0 : m.qos = 0 → id = 0)
    (hlen : (Packet.publish m dup id).rlen ≤ maxVarint) :
    encode (.publish m dup id) = .error .err := by
  have hmax : 2 + m.topic.length + m.payload.length + (if m.qos ≠ 0 then 2 else 0) ≤ maxVarint := by
    simpa [Packet.rlen] using hlen
  by_cases ht0 : m.topic.length = 0
  · simp [encode, ht0, bind, Except.bind]
  by_cases hq : ¬ qosOK m.qos = true
  · simp [encode, ht0, hq, bind, Except.bind]
  have hq := Decidable.not_not.mp hq
  by_cases hid : m.qos > 0 ∧ id = 0
  · simp [encode, ht0, hq, hid, bind, Except.bind]
  by_cases ht : ¬ lp16 m.topic = true
  · simp [encode, ht0, hq, hid, encodeHeader_ok _ _ _ hlen, writeLP_err ht, bind, Except.bind]
  have ht := Decidable.not_not.mp ht
  exfalso
  have : (Packet.publish m dup id).WF = true := by
    have h0 : m.topic.length > 0 := by omega
    have hidc : (if m.qos == 0 then id == 0 else id != 0) = true := by
      split
      · rename_i g
        simp only [beq_iff_eq] at g
        simp [hid0 g]
      · rename_i g
        simp only [beq_iff_eq] at g
        have : m.qos > 0 := by
          rcases qosOK_cases hq with q | q | q
          · exact absurd q g
          · rw [q]; decide
          · rw [q]; decide
        simp only [bne_iff_ne, ne_eq]
        intro g2
        exact hid ⟨this, g2⟩
    simp only [Packet.WF, Message.WF, hq, ht, h0, hidc, hmax, decide_true, Bool.and_self]
  rw [this] at h; cases h

theorem encode_connect_err (c : Bytes) (ka : UInt16) (u p : Bytes) (clean : Bool)
    (w : Option Message) (v : UInt8)
    (h : (Packet.connect c ka u p clean w v).WF = false)
    (hlen : (Packet.connect c ka u p clean w v).rlen ≤ maxVarint) :
    encode (.connect c ka u p clean w v) = .error .err := by
  unfold encode
  simp only [encodeHeader_ok _ _ _ hlen, ← normVersion.eq_1]
  -- version
  by_cases a1 : normVersion v ≠ 4 ∧ normVersion v ≠ 3
  · simp [a1, bind, Except.bind]
  have hnm := writeLP_ok (versionName_lp16 (normVersion v))
  have hv : (v == 0 || v == 3 || v == 4) = true := by
    simp only [Bool.or_eq_true, beq_iff_eq]
    unfold normVersion at a1
    by_cases h0 : v = 0
    · exact Or.inl (Or.inl h0)
    · simp only [h0, if_false] at a1
      by_cases h3 : v = 3
      · exact Or.inl (Or.inr h3)
      · by_cases h4 : v = 4
        · exact Or.inr h4
        · exact absurd ⟨h4, h3⟩ a1
  -- the part after the will checks, common to both cases
  have tailErr : ∀ (wb : GoM Bytes) (hw : Bool),
      (hw = true → ∃ b, wb = .ok b) → (hw = false → wb = .error .err) →
      ((v == 0 || v == 3 || v == 4) && lp16 c && lp16 u && lp16 p && hw
        && (c.length > 0 || clean) && (p.length == 0 || u.length > 0)) = false →
      (do
        if c.length = 0 ∧ !clean then .error .err
        let cid ← writeLP c
        let wb ← wb
        if u.length = 0 ∧ p.length > 0 then .error .err
        let ub ← (if u.length > 0 then writeLP u else pure [])
        let pb ← (if p.length > 0 then writeLP p else pure [])
        pure (UInt8.ofNat (PType.connect.code * 16 + (PType.connect.defaultFlags + 0))
              :: putUvarint (Packet.connect c ka u p clean w v).rlen ++ lpB (versionName (normVersion v))
            ++ [normVersion v] ++ [UInt8.ofNat (connectFlags u p clean w)] ++ be16 ka.toNat ++ cid
            ++ wb ++ ub ++ pb) : GoM Bytes) = .error .err := by
    intro wb hw hw1 hw0 hwf
    by_cases a6 : c.length = 0 ∧ (!clean) = true
    · simp [a6, bind, Except.bind]
    by_cases a2 : ¬ lp16 c = true
    · simp [writeLP_err a2, bind, Except.bind]
    have a2 := Decidable.not_not.mp a2
    cases hw with
    | false => simp [writeLP_ok a2, hw0 rfl, bind, Except.bind]
    | true =>
      obtain ⟨b, hb⟩ := hw1 rfl
      by_cases a7 : u.length = 0 ∧ p.length > 0
      · simp [writeLP_ok a2, hb, a7, bind, Except.bind]
      by_cases a3 : ¬ lp16 u = true
      · simp [writeLP_ok a2, hb, not_lp16_pos a3, writeLP_err a3, bind, Except.bind]
      have a3 := Decidable.not_not.mp a3
      by_cases a4 : ¬ lp16 p = true
      · have hp0 := not_lp16_pos a4
        by_cases hu0 : u.length > 0
        · simp [writeLP_ok a2, hb, hp0, hu0, writeLP_ok a3, writeLP_err a4, bind, Except.bind]
        · exact absurd ⟨by omega, hp0⟩ a7
      have a4 := Decidable.not_not.mp a4
      exfalso
      have e6 : (decide (c.length > 0) || clean) = true := by
        cases clean with
        | true => simp
        | false =>
          have h0 : ¬ c.length = 0 := fun h0 => a6 ⟨h0, rfl⟩
          have : c.length > 0 := by omega
          simp [this]
      have e7 : (p.length == 0 || decide (u.length > 0)) = true := by
        simp only [Bool.or_eq_true, beq_iff_eq, decide_eq_true_eq]; omega
      simp [hv, a2, a3, a4, e6, e7] at hwf
  cases w with
  | none =>
    have := tailErr (pure []) true (fun _ => ⟨[], rfl⟩) (fun h => by cases h)
      (by simpa [Packet.WF] using h)
    simp only [a1, if_false, hnm]
    exact this
  | some m =>
    by_cases ht0 : m.topic.length = 0
    · simp [a1, hnm, ht0, bind, Except.bind]
    by_cases hq : ¬ qosOK m.qos = true
    · simp [a1, hnm, ht0, hq, bind, Except.bind]
    have hq := Decidable.not_not.mp hq
    have := tailErr (do
        let t ← writeLP m.topic
        let pl ← writeLP m.payload
        pure (t ++ pl)) (lp16 m.topic && lp16 m.payload)
      (fun hh => by
        simp only [Bool.and_eq_true] at hh
        exact ⟨lpB m.topic ++ lpB m.payload,
          by simp [writeLP_ok hh.1, writeLP_ok hh.2, bind, Except.bind, pure, Except.pure]⟩)
      (fun hh => by
        by_cases h1 : lp16 m.topic = true
        · have h2 : ¬ lp16 m.payload = true := by
            intro h2; simp [h1, h2] at hh
          simp [writeLP_ok h1, writeLP_err h2, bind, Except.bind]
        · simp [writeLP_err h1, bind, Except.bind])
      (by
        have h0 : m.topic.length > 0 := by omega
        simpa [Packet.WF, Message.WF, hq, h0] using h)
    simp only [a1, if_false, hnm, ht0, hq, Bool.not_true, Bool.false_eq_true]
    exact this

theorem encode_err_of_not_wf' (p : Packet) (h : p.WF = false)
    (hl : match p with
          | .subscribe ss _ => ss ≠ []
          | .suback cs _ => cs ≠ []
          | .unsubscribe ts _ => ts ≠ []
          | .publish m _ id => m.qos = 0 → id = 0
          | _ => True)
    (hlen : p.rlen ≤ maxVarint) :
    encode p = .error .err := by
  cases p with
  | connect c ka u p clean w v => exact encode_connect_err c ka u p clean w v h hlen
  | connack sp code => exact encode_connack_err sp code h
  | publish m dup id => exact encode_publish_err m dup id h hl hlen
  | subscribe ss id => exact encode_subscribe_err ss id h hl hlen
  | suback cs id => exact encode_suback_err cs id h hl hlen
  | unsubscribe ts id => exact encode_unsubscribe_err ts id h hl hlen
  | puback id | pubrec id | pubrel id | pubcomp id | unsuback id =>
    have : id = 0 := by simpa [Packet.WF] using h
    subst this
    exact encodeIdentified_err _
  | pingreq | pingresp | disconnect => simp [Packet.WF] at h

/-- Boundary example: a QoS 0 PUBLISH whose remaining length is exactly `maxVarint` is `WF`
    (the bound of `WF` is exactly `rlen ≤ maxVarint`), and `encode` accepts it. -/
theorem bigPublish_boundary (pl : Bytes) (hpl : pl.length = maxVarint - 3) :
    (Packet.publish ⟨[0], pl, 0, false⟩ false 0).WF = true
    ∧ (Packet.publish ⟨[0], pl, 0, false⟩ false 0).rlen = maxVarint
    ∧ ∃ bs, encode (Packet.publish ⟨[0], pl, 0, false⟩ false 0) = .ok bs := by
  have hw : (Packet.publish ⟨[0], pl, 0, false⟩ false 0).WF = true := by
    simp [Packet.WF, Message.WF, hpl, maxVarint, qosOK, lp16]
  refine ⟨hw, ?_, _, encode_wire _ hw⟩
  simp [Packet.rlen, hpl, maxVarint]

theorem bigPublish_boundary_exists :
    ∃ p : Packet, p.WF = true ∧ p.rlen = maxVarint ∧ ∃ bs, encode p = .ok bs :=
  ⟨_, bigPublish_boundary (List.replicate (maxVarint - 3) 0) List.length_replicate⟩
