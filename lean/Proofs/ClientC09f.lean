import Proofs.ClientC09e
/-
  Proofs/ClientC09f.lean — C09: every pending future is reachable from the future store or is the
  connect future (K); the connect future gets resolved (CfInv). (K1)
-/
set_option linter.unusedSimpArgs false
set_option linter.unusedVariables false
set_option linter.unnecessarySimpa false
open Cl Cl.St
namespace ClientK1

/-- every pending future is the connect future or is in the future store -/
def K (s : St) : Prop :=
  ∀ h, s.futs[h]? = some .pending → s.cfut = some h ∨ ∃ id, getL s.fstore id = some h

theorem k_resolve {s : St} (hi : K s) (i : Nat) (v : FSt) (hv : v ≠ .pending) : K (s.resolve i v) := by
  intro h hp
  simp only [resolve] at hp ⊢
  exact hi h (resolveF_pending _ _ _ _ hv hp).1

theorem k_cleanStep {s s' : St} {t c l r} (hi : K s) (h : cleanStep s t c l = some (s', r)) : K s' := by
  unfold cleanStep at h
  split_all h
  all_goals (first
    | (simp at h; done)
    | (simp at h; obtain ⟨h1, _⟩ := h; subst h1; exact k_resolve hi _ _ (by simp))
    | (simp at h; obtain ⟨h1, _⟩ := h; subst h1; exact hi)
    | skip)
  · simp at h; obtain ⟨h1, _⟩ := h; subst h1
    intro h hp
    simp only [storeClear] at hp ⊢
    obtain ⟨hp0, hn⟩ := clearF_pending _ _ _ hp
    rcases hi h hp0 with hc | ⟨id, hg⟩
    · left; exact hc
    · exact absurd (getL_mem hg) hn

theorem k_dieStep {s s' : St} {t d l r} (hi : K s) (h : dieStep s t d l = some (s', r)) : K s' := by
  unfold dieStep at h
  split_all h
  all_goals (first
    | (simp at h; done)
    | (simp at h; obtain ⟨h1, _⟩ := h; subst h1; exact hi)
    | (have hc := k_cleanStep hi (by assumption); simp at h; obtain ⟨h1, _⟩ := h; subst h1; exact hc)
    | skip)

theorem k_procAfter {s : St} (hi : K s) (a : DAfter) : K (s.procAfter a) := by
  cases a
  · exact hi
  · exact hi
  · simp only [procAfter]
    split
    · exact k_resolve hi _ _ (by simp)
    · exact hi

theorem k_procErr {s : St} (fx : Fix) (hi : K s) : K (procErr fx s) := by
  simp only [procErr]; split <;> exact hi

/-- deleting the entry of id `id` and resolving the future that was found under it loses nothing -/
theorem k_delResolve {s : St} (hi : K s) (id : UInt16) (h : Nat) (v : FSt) (hv : v ≠ .pending)
    (hf : getL s.fstore id = some h ∨ getL s.fstore id = none) : K ((s.storeDel id).resolve h v) := by
  intro h' hp
  simp only [resolve, storeDel] at hp ⊢
  obtain ⟨hp0, hne⟩ := resolveF_pending _ _ _ _ hv hp
  rcases hi h' hp0 with hc | ⟨id2, hg⟩
  · left; exact hc
  · right
    refine ⟨id2, ?_⟩
    rw [getL_filter]
    by_cases he : id2 = id
    · subst he
      rcases hf with hf | hf
      · rw [hf] at hg; simp at hg; exact absurd hg.symm hne
      · rw [hf] at hg; simp at hg
    · simp [he, hg]

theorem k_stepProc {fx s s' l} (hi : K s) (ho : Own s) (hs : stepProc fx s l = some s') : K s' := by
  unfold stepProc at hs
  split_all hs
  all_goals (first
    | (simp at hs; done)
    | (simp at hs; subst hs; exact hi)
    | (simp at hs; subst hs; exact k_resolve hi _ _ (by simp))
    | (simp at hs; subst hs; exact k_procErr fx hi)
    | (have hd := k_dieStep hi (by assumption); simp at hs; subst hs; first | exact hd | exact k_procAfter hd _)
    | skip)
  all_goals (
    have hf := ho.f _ _ _ ‹_›
    simp at hs; subst hs
    first
      | exact k_procErr fx (k_delResolve hi _ _ _ (by simp) hf)
      | exact k_delResolve hi _ _ _ (by simp) hf)

theorem k_newFut {s s' : St} (hi : K s) (hf : s'.futs = s.futs ++ [.pending])
    (hc : s'.cfut = some s.futs.length ∧ s.cfut = none ∧ s'.fstore = s.fstore) : K s' := by
  intro h hp
  rw [hf] at hp
  rcases append_pending _ _ hp with hp0 | rfl
  · rcases hi h hp0 with hc' | ⟨id, hg⟩
    · rw [hc.2.1] at hc'; simp at hc'
    · right; exact ⟨id, by rw [hc.2.2]; exact hg⟩
  · left; exact hc.1

theorem k_put {s s' : St} (hi : K s) (id : UInt16) (hf : s'.futs = s.futs ++ [.pending])
    (hc : s'.cfut = s.cfut) (hst : s'.fstore = s.fstore.filter (·.1 != id) ++ [(id, s.futs.length)])
    (hq : getL s.fstore id = none) : K s' := by
  intro h hp
  rw [hf] at hp
  rcases append_pending _ _ hp with hp0 | rfl
  · rcases hi h hp0 with hc' | ⟨id2, hg⟩
    · left; rw [hc]; exact hc'
    · right
      refine ⟨id2, ?_⟩
      rw [hst, getL_put]
      by_cases he : id2 = id
      · subst he; rw [hq] at hg; simp at hg
      · simp [he, hg]
  · right; exact ⟨id, by rw [hst, getL_put]; simp⟩

theorem k_stepApi {fx s s' l} (hi : K s) (ho : Own s) (hc0 : C0 s) (hs : stepApi fx s l = some s') : K s' := by
  unfold stepApi at hs
  split_all hs
  all_goals (first
    | (simp at hs; done)
    | (simp at hs; subst hs; exact hi)
    | (have hd := k_cleanStep hi (by assumption); simp at hs; subst hs; exact hd)
    | skip)
  all_goals (first
    | (have hq := (ho.q _ _ ‹_›).1; simp at hs; subst hs
       exact k_put hi _ (by simp [addFut, storePut, storeGet_eq, hq]) (by simp [addFut, storePut]) (by simp [addFut, storePut]) hq)
    | (have hcf := (hc0.1 (Or.inr ‹_›)).1; simp at hs; subst hs
       exact k_newFut hi (by simp [addFut]) ⟨by simp [addFut], hcf, by simp [addFut]⟩)
    | (have hp := ho.p _ _ ⟨_, Or.inl ‹_›⟩; simp at hs; subst hs
       exact k_delResolve hi _ _ _ (by simp) hp)
    | (have hp := ho.p _ _ ⟨_, Or.inr (Or.inr (Or.inr ‹_›))⟩; simp at hs; subst hs
       exact k_delResolve hi _ _ _ (by simp) hp)
    | skip)

/-! ### the connect future is resolved -/

/-- the client got past `connecting` -/
def Past (s : St) : Prop := s.state ≠ .initialized ∧ s.state ≠ .connecting

theorem stepProc_state {fx s s' l} (h : stepProc fx s l = some s') :
    s'.state = s.state ∨ s'.state = .connacked ∨ s'.state = .connected ∨ s'.state = .disconnected := by
  unfold stepProc at h
  split_all h
  all_goals (first
    | (simp at h; done)
    | (simp at h; subst h; simp [procDie, procExit, goroutineExit, sendLog, markDup, resolve, storeDel]; done)
    | (have hd := dieStep_state (by assumption); simp at h; subst h; simp
       rcases hd with hd | hd <;> simp [hd]; done)
    | skip)

theorem past_stepProc {fx s s' l} (hp : Past s) (h : stepProc fx s l = some s') : Past s' := by
  rcases stepProc_state h with e | e | e | e <;> simp_all [Past]

/-- `Disconnect` writes `disconnecting` only after it saw `connected` -/
def D1 (s : St) : Prop := (s.api = .dSet ∨ s.api = .dAwait) → Past s

theorem d1_stepProc {fx s s' l} (hi : D1 s) (h : stepProc fx s l = some s') : D1 s' := by
  intro ha; rw [stepProc_api h] at ha; exact past_stepProc (hi ha) h

theorem d1_stepApi {fx s s' l} (hi : D1 s) (hs : stepApi fx s l = some s') : D1 s' := by
  intro ha
  unfold stepApi at hs
  split_all hs
  all_goals (first
    | (simp at hs; done)
    | (simp at hs; subst hs; simp [apiFail, sendLog, addFut, storePut, storeDel, resolve] at ha; done)
    | (simp at hs; subst hs; simp_all [Past]; done)
    | (have := hi (Or.inr ‹_›); simp at hs; subst hs; simpa [Past] using this)
    | skip)

/-- a goroutine stands right before `state := disconnected` inside `cleanup` -/
def apiAtSet : Api → Bool
  | .clean c _ => c.stage == .setState
  | _ => false
def procAtSet : Proc → Bool
  | .die ⟨.clean c, _, _⟩ => c.stage == .setState
  | _ => false

/-- the processor is about to resolve the connect future -/
def willResolve : Proc → Bool
  | .ck3 .. | .ck4 .. => true
  | .die ⟨_, _, .contCancel ..⟩ => true
  | _ => false

/-- while the connect future is pending, either nobody has looked at it yet (`connecting`, no
    cleanup past its first statement) or the processor is about to resolve it -/
def CfInv (s : St) : Prop :=
  ∀ h, s.cfut = some h → s.futs[h]? = some .pending →
    (s.state = .connecting ∧ apiAtSet s.api = false ∧ procAtSet s.proc = false) ∨ willResolve s.proc = true

theorem cleanStep_pending {s s' : St} {t c l r} (h : cleanStep s t c l = some (s', r)) (i : Nat)
    (hp : s'.futs[i]? = some .pending) : s.futs[i]? = some .pending := by
  unfold cleanStep at h
  split_all h
  all_goals (first
    | (simp at h; done)
    | (simp at h; obtain ⟨h1, _⟩ := h; subst h1; simp [resolve] at hp; exact (resolveF_pending _ _ _ _ (by simp) hp).1)
    | (simp at h; obtain ⟨h1, _⟩ := h; subst h1; simp [storeClear] at hp; exact (clearF_pending _ _ _ hp).1)
    | (simp at h; obtain ⟨h1, _⟩ := h; subst h1; simpa using hp)
    | skip)

theorem dieStep_pending {s s' : St} {t d l r} (h : dieStep s t d l = some (s', r)) (i : Nat)
    (hp : s'.futs[i]? = some .pending) : s.futs[i]? = some .pending := by
  unfold dieStep at h
  split_all h
  all_goals (first
    | (simp at h; done)
    | (simp at h; obtain ⟨h1, _⟩ := h; subst h1; simpa using hp)
    | (have hc := cleanStep_pending (by assumption) i; simp at h; obtain ⟨h1, _⟩ := h; subst h1; exact hc hp)
    | skip)

theorem cfInv_cleanProc {s s1 : St} {c : Cleanup} {cc : Bool} {af : DAfter} {l : Label} {r : Option Cleanup}
    (hi : CfInv s) (hpc : s.proc = .die ⟨.clean c, cc, af⟩) (hd : cleanStep s .proc c l = some (s1, r)) :
    CfInv { s1 with proc := .die ⟨(match r with | some c' => .clean c' | none => .cb), cc, af⟩ } := by
  intro h hc hp
  unfold cleanStep at hd
  cases af <;> split_all hd
  all_goals (first
    | (simp at hd; done)
    | (simp at hd; obtain ⟨h1, h2⟩ := hd; subst h1; subst h2
       (try simp [resolve, storeClear] at hc)
       (try simp [resolve, storeClear] at hp)
       first
         | (have hx := resolveF_pending _ _ _ _ (by simp) hp; simp_all; done)
         | (have hp0 := (clearF_pending _ _ _ hp).1; have := hi h hc hp0; rw [hpc] at this
            simp_all [procAtSet, willResolve, storeClear]; done)
         | (have := hi h hc hp; rw [hpc] at this
            cases hst : s.state <;> simp_all [procAtSet, willResolve, afterSetState, afterClose, CS.toNat] <;>
              (repeat' split) <;> simp_all; done)
         | (have := hi h hc hp; rw [hpc] at this
            simp_all [procAtSet, willResolve, afterSetState, afterClose, CS.toNat] <;> (try (split <;> simp))))
    | skip)

theorem cfInv_reproc {s : St} {d d' : Die} (hi : CfInv s) (hpc : s.proc = .die d)
    (h1 : procAtSet (.die d') = false) (h2 : willResolve (.die d') = willResolve (.die d))
    : CfInv { s with proc := .die d' } := by
  intro h hc hp
  have := hi h hc hp
  rw [hpc] at this
  rcases this with ⟨a, b, _⟩ | c
  · left; exact ⟨a, b, h1⟩
  · right; simp only []; rw [h2]; exact c

theorem cfInv_dieProc_inl {s s1 : St} {d d' : Die} {l : Label} (hi : CfInv s) (hpc : s.proc = .die d)
    (hd : dieStep s .proc d l = some (s1, .inl d')) : CfInv { s1 with proc := .die d' } := by
  obtain ⟨st, cc, af⟩ := d
  cases st
  · -- enter
    simp only [dieStep] at hd
    split_all hd
    all_goals (first
      | (simp at hd; done)
      | (simp at hd; obtain ⟨h1, h2⟩ := hd; subst h1; subst h2
         cases af <;> exact cfInv_reproc (d := ⟨.enter, cc, _⟩) hi hpc (by simp [procAtSet, startCleanup]) (by simp [willResolve])))
  · -- clean
    rename_i c
    simp only [dieStep] at hd
    split at hd
    · rename_i hcs; simp at hd; obtain ⟨h1, h2⟩ := hd; subst h1; subst h2
      exact cfInv_cleanProc hi hpc hcs
    · rename_i hcs; simp at hd; obtain ⟨h1, h2⟩ := hd; subst h1; subst h2
      exact cfInv_cleanProc hi hpc hcs
    · simp at hd
  · simp only [dieStep] at hd; split_all hd <;> simp at hd
  · simp only [dieStep] at hd; split_all hd <;> simp at hd

theorem cfInv_dieProc_inr {s s1 : St} {d : Die} {a : DAfter} {l : Label} (hi : CfInv s) (hpc : s.proc = .die d)
    (hd : dieStep s .proc d l = some (s1, .inr a)) : CfInv (s1.procAfter a) := by
  obtain ⟨st, cc, af⟩ := d
  have key : ∀ s2 : St, CfInv s2 → s2.proc = .die ⟨st, cc, af⟩ → CfInv (s2.procAfter af) := by
    intro s2 h2 hp2 h hc hp
    cases af
    · simp [procAfter, procExit, goroutineExit] at hc hp ⊢
      have := h2 h hc hp; rw [hp2] at this
      simp [willResolve] at this; simp [procAtSet, willResolve]; exact ⟨this.1, this.2.1⟩
    · simp [procAfter] at hc hp ⊢
      have := h2 h hc hp; rw [hp2] at this
      simp [willResolve] at this; simp [procAtSet, willResolve]; exact ⟨this.1, this.2.1⟩
    · rename_i sp code
      cases hcf : s2.cfut with
      | none => simp [procAfter, hcf] at hc
      | some h0 =>
        simp [procAfter, hcf, resolve] at hc hp
        have hx := resolveF_pending _ _ _ _ (by simp) hp
        exact absurd hc.symm hx.2
  cases st
  · simp only [dieStep] at hd; split_all hd <;> simp at hd
  · simp only [dieStep] at hd; split_all hd <;> simp at hd
  · simp only [dieStep] at hd
    split_all hd
    all_goals (first
      | (simp at hd; done)
      | (simp at hd; obtain ⟨h1, h2⟩ := hd; subst h1; subst h2
         exact key _ (by intro h hc hp; exact hi h hc hp) hpc))
  · simp only [dieStep] at hd
    split_all hd
    all_goals (first
      | (simp at hd; done)
      | (simp at hd; obtain ⟨h1, h2⟩ := hd; subst h1; subst h2; exact key _ hi hpc))

theorem cfInv_update {s s' : St} (hi : CfInv s) (hw : willResolve s.proc = false) (hc : s'.cfut = s.cfut)
    (hf : ∀ h : Nat, s'.futs[h]? = some FSt.pending → s.futs[h]? = some FSt.pending) (hs : s'.state = s.state)
    (ha : s'.api = s.api) (hp : procAtSet s'.proc = false) : CfInv s' := by
  intro h hc' hp'
  rw [hc] at hc'
  rcases hi h hc' (hf h hp') with ⟨a, b, _⟩ | c
  · left; rw [hs, ha]; exact ⟨a, b, hp⟩
  · rw [hw] at c; simp at c

theorem procErr_procAtSet (fx : Fix) (s : St) : procAtSet (procErr fx s).proc = false := by
  rw [procErr_proc_eq]; split <;> simp [procAtSet, mkDie]

theorem cfInv_stepProc {fx s s' l} (hi : CfInv s) (hs : stepProc fx s l = some s') : CfInv s' := by
  intro h hc hp
  unfold stepProc at hs
  split_all hs
  all_goals (first
    | (simp at hs; done)
    | (simp at hs; subst hs
       (try simp [procDie, procExit, goroutineExit, sendLog, markDup, storeDel] at hc)
       (try simp [procDie, procExit, goroutineExit, sendLog, markDup, storeDel] at hp)
       have := hi h hc hp
       simp_all [procAtSet, willResolve, procDie, procExit, goroutineExit, mkDie, sendLog, markDup, storeDel, resolve]; done)
    | skip)
  all_goals (first
    | (have hd := cfInv_dieProc_inl hi ‹_› ‹_›; simp at hs; subst hs; exact hd h hc hp)
    | (have hd := cfInv_dieProc_inr hi ‹_› ‹_›; simp at hs; subst hs; exact hd h hc hp)
    | (simp at hs; subst hs; simp [resolve] at hc hp
       have hx := resolveF_pending _ _ _ _ (by simp) hp
       simp_all; done)
    | (have hw : willResolve s.proc = false := by rw [‹s.proc = _›]; rfl
       simp at hs; subst hs
       refine cfInv_update hi hw ?_ ?_ ?_ ?_ ?_ h hc hp
       · simp [procErr_cfut, resolve, storeDel]
       · intro h' hp'
         first
           | (simpa [procErr_futs] using hp')
           | (simp [procErr_futs, resolve, storeDel] at hp'; exact (resolveF_pending _ _ _ _ (by simp) hp').1)
       · simp [resolve, storeDel]
       · simp [resolve, storeDel]
       · first | exact procErr_procAtSet _ _ | simp [procAtSet])
    | skip)

theorem cfInv_cleanApi {s s1 : St} {c : Cleanup} {k : After} {l : Label} {r : Option Cleanup}
    (hi : CfInv s) (hpc : s.api = .clean c k) (hd : cleanStep s .api c l = some (s1, r)) (a' : Api)
    (ha : ∀ c', r = some c' → a' = .clean c' k) (hn : r = none → apiAtSet a' = false) :
    CfInv { s1 with api := a' } := by
  intro h hc hp
  unfold cleanStep at hd
  split_all hd
  all_goals (first
    | (simp at hd; done)
    | (simp at hd; obtain ⟨h1, h2⟩ := hd; subst h1; subst h2
       (try simp [resolve, storeClear] at hc)
       (try simp [resolve, storeClear] at hp)
       first
         | (have hx := resolveF_pending _ _ _ _ (by simp) hp; simp_all; done)
         | (have hp0 := (clearF_pending _ _ _ hp).1; have := hi h hc hp0; rw [hpc] at this
            have hn' := hn rfl
            simp_all [apiAtSet, storeClear]; done)
         | (have := hi h hc hp; rw [hpc] at this
            have ha' := ha _ rfl
            cases hst : s.state <;> simp_all [apiAtSet, afterSetState, afterClose, CS.toNat] <;>
              (try (split <;> simp_all)))
         | skip)
    | skip)

theorem cfInv_stepApi {fx s s' l} (hi : CfInv s) (hc0 : C0 s) (hd1 : D1 s) (hlt : CfLt s)
    (hs : stepApi fx s l = some s') : CfInv s' := by
  unfold stepApi at hs
  split_all hs
  all_goals (first
    | (simp at hs; done)
    | (have hcl := cfInv_cleanApi hi ‹_› ‹_›; simp at hs; subst hs
       first
         | exact hcl _ (by intro c' hc'; simp at hc'; subst hc'; rfl) (by intro hn; simp at hn)
         | exact hcl _ (by intro c' hc'; simp at hc') (by intro _; rfl))
    | (simp at hs; subst hs
       intro h hc hp
       (try simp [apiFail, sendLog, storePut, storeDel] at hc)
       (try simp [apiFail, sendLog, storePut, storeDel] at hp)
       have := hi h hc hp
       simp_all [apiAtSet, procAtSet, willResolve, apiFail, sendLog, storePut, storeDel, startCleanup]; done)
    | skip)
  all_goals (first
    | -- cDial: no connect future yet
      (have hcf := (hc0.2.2.1 (hc0.2.1 ‹_›)).1; simp at hs; subst hs
       intro h hc hp; simp at hc; rw [hcf] at hc; simp at hc; done)
    | -- cFut: the connect future is created while `connecting`
      (have h0 := hc0.1 (Or.inr ‹_›); simp at hs; subst hs
       intro h hc hp; left
       simp [addFut, apiAtSet, procAtSet, h0.2.1, h0.2.2]; done)
    | -- cGo: the processor starts
      (have hpn := hc0.2.2.2 (Or.inr ‹_›); simp at hs; subst hs
       intro h hc hp
       (try simp at hc); (try simp at hp)
       have := hi h hc hp; rw [hpn] at this
       simp_all [apiAtSet, procAtSet, willResolve]; done)
    | -- rPut: a new future is appended
      (simp at hs; subst hs
       intro h hc hp
       simp [addFut, storePut] at hc hp
       have hp := cancelOpt_pending _ _ _ hp
       have hl := hlt h hc
       rw [List.getElem?_append_left hl] at hp
       have := hi h hc hp
       simp_all [apiAtSet, addFut, storePut]; done)
    | -- rCheck failed / rDone: a request future is resolved
      (simp at hs; subst hs
       intro h hc hp
       simp [resolve, storeDel] at hc hp
       have hp0 := (resolveF_pending _ _ _ _ (by simp) hp).1
       have := hi h hc hp0
       simp_all [apiAtSet, resolve, storeDel]; done)
    | -- dSet: only after `connected` was seen
      (have hpast := hd1 (Or.inl ‹_›); simp at hs; subst hs
       intro h hc hp
       simp at hc hp
       have := hi h hc hp
       simp_all [apiAtSet, Past]; done)
    | skip)

/-! ### the store is empty once the client is disconnected and nobody is cleaning up -/

def apiClean : Api → Bool
  | .clean .. => true
  | _ => false
def procClean : Proc → Bool
  | .die ⟨.clean _, _, _⟩ => true
  | _ => false

/-- disconnected and no goroutine inside `cleanup`: the future store is empty, except for the
    one entry an exported method has just put and is about to check -/
def S (s : St) : Prop :=
  s.state = .disconnected → apiClean s.api = false → procClean s.proc = false →
    (s.fstore = [] ∨ ∃ r id h, s.api = .rCheck r id h ∧ s.fstore = [(id, h)])

theorem filter_single (id k : UInt16) (h : Nat) :
    [(id, h)].filter (·.1 != k) = [] ∨ [(id, h)].filter (·.1 != k) = [(id, h)] := by
  by_cases e : id = k <;> simp [e]

theorem s_concl_filter {fstore : List (UInt16 × Nat)} {api : Api} (k : UInt16)
    (hc : fstore = [] ∨ ∃ r id h, api = .rCheck r id h ∧ fstore = [(id, h)]) :
    fstore.filter (·.1 != k) = [] ∨ ∃ r id h, api = .rCheck r id h ∧ fstore.filter (·.1 != k) = [(id, h)] := by
  rcases hc with e | ⟨r, id, h, ea, ef⟩
  · left; simp [e]
  · subst ef
    rcases filter_single id k h with f | f
    · left; exact f
    · right; exact ⟨r, id, h, ea, f⟩

theorem s_dieProc_inl {s s1 : St} {d d' : Die} {l : Label} (hi : S s) (hpc : s.proc = .die d)
    (hd : dieStep s .proc d l = some (s1, .inl d')) : S { s1 with proc := .die d' } := by
  obtain ⟨st, cc, af⟩ := d
  intro h1 h2 h3
  cases st
  all_goals (simp only [dieStep] at hd; split_all hd)
  all_goals (first
    | (simp at hd; done)
    | (simp at hd; obtain ⟨e1, e2⟩ := hd; subst e1; subst e2; simp [procClean, startCleanup] at h3; done)
    | (rename_i hcs
       have hf := cleanStep_done_fstore hcs
       simp at hd; obtain ⟨e1, e2⟩ := hd; subst e1; subst e2; left; simpa using hf)
    | (simp at hd; obtain ⟨e1, e2⟩ := hd; subst e1; subst e2
       have := hi (by simpa using h1) (by simpa using h2) (by rw [hpc]; rfl)
       simpa using this)
    | skip)

theorem procAfter_procClean (s : St) (a : DAfter) : procClean (s.procAfter a).proc = false := by
  rw [procAfter_proc_eq]; split <;> rfl

theorem s_dieProc_inr {s s1 : St} {d : Die} {a : DAfter} {l : Label} (hi : S s) (hpc : s.proc = .die d)
    (hd : dieStep s .proc d l = some (s1, .inr a)) : S (s1.procAfter a) := by
  obtain ⟨st, cc, af⟩ := d
  intro h1 h2 h3
  simp only [procAfter_fstore, procAfter_api, procAfter_state] at *
  cases st
  all_goals (simp only [dieStep] at hd; split_all hd)
  all_goals (first
    | (simp at hd; done)
    | (simp at hd; obtain ⟨e1, e2⟩ := hd; subst e1; subst e2
       have := hi (by simpa using h1) (by simpa using h2) (by rw [hpc]; rfl)
       simpa using this)
    | skip)

theorem s_stepProc {fx s s' l} (hi : S s) (hs : stepProc fx s l = some s') : S s' := by
  unfold stepProc at hs
  split_all hs
  all_goals (first
    | (simp at hs; done)
    | (have hd := s_dieProc_inl hi ‹_› ‹_›; simp at hs; subst hs; exact hd)
    | (have hd := s_dieProc_inr hi ‹_› ‹_›; simp at hs; subst hs; exact hd)
    | (simp at hs; subst hs
       intro h1 h2 h3
       have := hi (by simpa [procDie, procExit, goroutineExit, sendLog, markDup, resolve, storeDel] using h1)
         (by simpa [procDie, procExit, goroutineExit, sendLog, markDup, resolve, storeDel] using h2) (by rw [‹s.proc = _›]; rfl)
       simpa [procDie, procExit, goroutineExit, sendLog, markDup, resolve, storeDel] using this)
    | (simp at hs; subst hs; intro h1; simp at h1; done)
    | skip)
  all_goals (
    simp at hs; subst hs
    intro h1 h2 h3
    have := hi (by simpa [resolve, storeDel] using h1) (by simpa [resolve, storeDel] using h2) (by rw [‹s.proc = _›]; rfl)
    simpa [storeDel, resolve] using s_concl_filter _ this)

theorem s_stepApi {fx s s' l} (hfx : fx.f14 = true) (hi : S s) (hc0 : C0 s) (hs : stepApi fx s l = some s') : S s' := by
  unfold stepApi at hs
  split_all hs
  all_goals (first
    | (simp at hs; done)
    | -- the cleanup finished: `Clear` was its last statement
      (have hf := cleanStep_done_fstore ‹_›; simp at hs; subst hs; intro _ _ _; left; simpa using hf)
    | -- still inside cleanup
      (simp at hs; subst hs; intro _ h2; simp [apiClean, apiFail, startCleanup] at h2; done)
    | -- the state written is not `disconnected`
      (simp at hs; subst hs; intro h1; simp at h1; done)
    | (simp at hs; subst hs; intro h1; simp_all; done)
    | -- nothing relevant changes
      (have hapi0 := ‹s.api = _›
       simp at hs; subst hs
       intro h1 h2 h3
       have := hi (by simpa [sendLog, addFut] using h1) (by rw [hapi0]; rfl) (by simpa [sendLog, addFut] using h3)
       rcases this with e | ⟨r, id, h, ea, ef⟩
       · left; simpa [sendLog, addFut] using e
       · rw [hapi0] at ea; simp at ea)
    | skip)
  all_goals (first
    | -- cGo: the processor starts; it was not running before
      (have hapi0 := ‹s.api = _›
       have hpn := hc0.2.2.2 (Or.inr hapi0)
       simp at hs; subst hs
       intro h1 h2 h3
       have := hi (by simpa using h1) (by rw [hapi0]; rfl) (by rw [hpn]; rfl)
       rcases this with e | ⟨r, id, h, ea, ef⟩
       · left; simpa using e
       · rw [hapi0] at ea; simp at ea)
    | -- rPut: the one entry that is about to be checked
      (have hapi0 := ‹s.api = _›
       simp [hfx] at hs; subst hs
       intro h1 h2 h3
       have := hi (by simpa [addFut, storePut] using h1) (by rw [hapi0]; rfl) (by simpa [addFut, storePut] using h3)
       rcases this with e | ⟨r, id, h, ea, ef⟩
       · right; exact ⟨_, _, _, rfl, by simp [addFut, storePut, e]⟩
       · rw [hapi0] at ea; simp at ea)
    | -- rCheck failed: the entry is taken out again
      (have hapi0 := ‹s.api = _›
       simp at hs; subst hs
       intro h1 h2 h3
       have := hi (by simpa [resolve, storeDel] using h1) (by rw [hapi0]; rfl) (by simpa [resolve, storeDel] using h3)
       rcases this with e | ⟨r, id, h, ea, ef⟩
       · left; simp [resolve, storeDel, e]
       · rw [hapi0] at ea; simp at ea; obtain ⟨_, rfl, _⟩ := ea
         left; simp [resolve, storeDel, ef])
    | -- rDone
      (have hapi0 := ‹s.api = _›
       simp at hs; subst hs
       intro h1 h2 h3
       have := hi (by simpa [resolve, storeDel] using h1) (by rw [hapi0]; rfl) (by simpa [resolve, storeDel] using h3)
       rcases this with e | ⟨r, id, h, ea, ef⟩
       · left; simp [resolve, storeDel, e]
       · rw [hapi0] at ea; simp at ea)
    | skip)

/-! ### the theorem -/

/-- all invariants together -/
structure AllInv (s : St) : Prop where
  np : NoPing s
  own : Own s
  c0 : C0 s
  lt : CfLt s
  k : K s
  d1 : D1 s
  cf : CfInv s
  st : S s

theorem allInv_init (σ : MemorySession) : AllInv { sess := σ } := by
  refine ⟨⟨rfl, rfl, rfl⟩, own_init σ, ?_, ?_, ?_, ?_, ?_, ?_⟩
  · simp [C0]
  · intro h hc; simp at hc
  · intro h hp; simp at hp
  · intro ha; simp at ha
  · intro h hc; simp at hc
  · intro h1; simp at h1

theorem allInv_step {fx s s' l} (hfx : FixOK fx) (hi : AllInv s) (hs : step fx s l = some s') (hw : Well s l) :
    AllInv s' := by
  have hnp := noPing_step hi.np hs hw
  have hown := own_step hi.own hi.np hs hw
  unfold step at hs
  split at hs
  · exact ⟨hnp, hown, c0_stepApi hi.c0 hs, cfLt_stepApi hi.lt hs, k_stepApi hi.k hi.own hi.c0 hs,
      d1_stepApi hi.d1 hs, cfInv_stepApi hi.cf hi.c0 hi.d1 hi.lt hs, s_stepApi hfx.1 hi.st hi.c0 hs⟩
  · exact ⟨hnp, hown, c0_stepProc hi.c0 hs, cfLt_stepProc hi.lt hs, k_stepProc hi.k hi.own hs,
      d1_stepProc hi.d1 hs, cfInv_stepProc hi.cf hs, s_stepProc hi.st hs⟩
  · simp [stepPing, hi.np.1] at hs
  · exact (not_newClient_branch hw (by assumption)).elim

theorem allInv_reach {fx s} (hfx : FixOK fx) (h : Reach1 fx s) : AllInv s :=
  reach1_inv (fx := fx) AllInv allInv_init (fun s s' l _ hi hs hw => allInv_step hfx hi hs hw) s h

/-- **every future is resolved at the end**: in every state that is reachable (one client
    lifetime, any initial session, no keep-alive, fresh ids) in which the client is
    `disconnected`, no exported method is running and the processor is not running (never started,
    or has returned), no future ever handed out — including the connect future — is pending. -/
theorem all_resolved {fx s} (hfx : FixOK fx) (hr : Reach1 fx s) (hst : s.state = .disconnected)
    (hapi : s.api = .idle) (hproc : s.proc = .notStarted ∨ ∃ b, s.proc = .exited b) :
    ∀ h : Nat, s.futs[h]? ≠ some FSt.pending := by
  intro h hp
  have inv := allInv_reach hfx hr
  have hpc : procClean s.proc = false ∧ willResolve s.proc = false ∧ procAtSet s.proc = false := by
    rcases hproc with e | ⟨b, e⟩ <;> rw [e] <;> exact ⟨rfl, rfl, rfl⟩
  have hstore : s.fstore = [] := by
    rcases inv.st hst (by rw [hapi]; rfl) hpc.1 with e | ⟨r, id, h', ea, _⟩
    · exact e
    · rw [hapi] at ea; simp at ea
  rcases inv.k h hp with hc | ⟨id, hg⟩
  · rcases inv.cf h hc hp with ⟨e, _, _⟩ | e
    · rw [hst] at e; simp at e
    · rw [hpc.2.1] at e; simp at e
  · rw [hstore] at hg; simp at hg

end ClientK1
