import Model.BaseConn
/-
  Proofs/BaseConn.lean — lemmas about the BaseConn LTS (C19), part 1: the writer side.
-/
namespace BaseConn
namespace Pf

/-- what the writer-side primitives never touch -/
structure WOnly (s s' : State) : Prop where
  closed : s'.closed = s.closed
  hist : s'.hist = s.hist
  delay0 : s'.delay0 = s.delay0
  rbuf : s'.rbuf = s.rbuf
  inbox : s'.inbox = s.inbox

theorem WOnly.refl (s : State) : WOnly s s := ⟨rfl, rfl, rfl, rfl, rfl⟩
theorem WOnly.trans {a b c : State} (h1 : WOnly a b) (h2 : WOnly b c) : WOnly a c :=
  ⟨h2.closed.trans h1.closed, h2.hist.trans h1.hist, h2.delay0.trans h1.delay0,
   h2.rbuf.trans h1.rbuf, h2.inbox.trans h1.inbox⟩

/-! ### carrierWrite -/

theorem carrierWrite_ok {s s' : State} {bs : Bytes} (h : carrierWrite s bs = (s', true)) :
    s'.wire = s.wire ++ bs ∧ s.closed = false ∧ s'.buf = s.buf ∧ s'.berr = s.berr ∧ s'.werr = s.werr
      ∧ s'.timerArmed = s.timerArmed ∧ WOnly s s' := by
  unfold carrierWrite at h
  split at h
  · simp at h
  · rename_i hc
    split at h
    · simp at h
    · simp at h; subst h; refine ⟨?_, ?_, ?_, ?_, ?_, ?_, ?_⟩ <;> first | (constructor <;> simp_all) | simp_all

theorem carrierWrite_fail {s s' : State} {bs : Bytes} (h : carrierWrite s bs = (s', false)) :
    s'.wire = s.wire ∧ s'.buf = s.buf ∧ s'.berr = s.berr ∧ s'.werr = s.werr
      ∧ s'.timerArmed = s.timerArmed ∧ WOnly s s' := by
  unfold carrierWrite at h
  split at h
  · simp at h; subst h; simp; exact WOnly.refl _
  · split at h
    · simp at h; subst h; simp; exact ⟨rfl, rfl, rfl, rfl, rfl⟩
    · simp at h

theorem carrierWrite_closed {s : State} {bs : Bytes} (h : s.closed = true) :
    carrierWrite s bs = (s, false) := by
  simp [carrierWrite, h]


/-! ### bufio.Writer -/

theorem bufFlush_ok {s s' : State} (h : bufFlush s = (s', true)) :
    s.berr = false ∧ s'.berr = false ∧ s'.buf = [] ∧ s'.wire = s.wire ++ s.buf
      ∧ (s.buf ≠ [] → s.closed = false) ∧ s'.werr = s.werr ∧ s'.timerArmed = s.timerArmed ∧ WOnly s s' := by
  unfold bufFlush at h
  split at h
  · simp at h
  · rename_i hb
    split at h
    · rename_i he
      simp at h; subst h; simp_all; exact WOnly.refl _
    · split at h
      · rename_i s1 hw
        have := carrierWrite_ok hw
        simp at h; subst h
        obtain ⟨h1, h2, h3, h4, h5, h6, h7⟩ := this
        refine ⟨by simpa using hb, by simp [h4]; simpa using hb, rfl, by simp [h1], fun _ => h2, by simp [h5], by simp [h6], ?_⟩
        exact ⟨h7.closed, h7.hist, h7.delay0, h7.rbuf, h7.inbox⟩
      · simp at h

theorem bufFlush_fail {s s' : State} (h : bufFlush s = (s', false)) :
    s'.berr = true ∧ s'.wire = s.wire ∧ s'.buf = s.buf ∧ s'.werr = s.werr
      ∧ s'.timerArmed = s.timerArmed ∧ WOnly s s' := by
  unfold bufFlush at h
  split at h
  · rename_i hb; simp at h; subst h; simp [hb]; exact WOnly.refl _
  · split at h
    · simp at h
    · split at h
      · simp at h
      · rename_i s1 hw
        obtain ⟨h1, h2, h3, h4, h5, h7⟩ := carrierWrite_fail hw
        simp at h; subst h
        refine ⟨rfl, by simp [h1], by simp [h2], by simp [h4], by simp [h5], ?_⟩
        exact ⟨h7.closed, h7.hist, h7.delay0, h7.rbuf, h7.inbox⟩

theorem directWrite_ok {s s' : State} {p : Bytes} (h : directWrite s p = (s', true)) :
    s'.wire = s.wire ++ p ∧ s.closed = false ∧ s'.buf = s.buf ∧ s'.berr = s.berr ∧ s'.werr = s.werr
      ∧ s'.timerArmed = s.timerArmed ∧ WOnly s s' := by
  unfold directWrite at h
  split at h
  · rename_i s1 hw; simp at h; subst h; exact carrierWrite_ok hw
  · simp at h

theorem directWrite_fail {s s' : State} {p : Bytes} (h : directWrite s p = (s', false)) :
    s'.berr = true ∧ s'.wire = s.wire ∧ s'.buf = s.buf ∧ s'.werr = s.werr
      ∧ s'.timerArmed = s.timerArmed ∧ WOnly s s' := by
  unfold directWrite at h
  split at h
  · simp at h
  · rename_i s1 hw
    obtain ⟨h1, h2, h3, h4, h5, h7⟩ := carrierWrite_fail hw
    simp at h; subst h
    refine ⟨rfl, by simp [h1], by simp [h2], by simp [h4], by simp [h5], ?_⟩
    exact ⟨h7.closed, h7.hist, h7.delay0, h7.rbuf, h7.inbox⟩


theorem WOnly.of_buf {s s1 : State} {b : Bytes} (h : WOnly { s with buf := b } s1) : WOnly s s1 :=
  ⟨h.closed, h.hist, h.delay0, h.rbuf, h.inbox⟩

theorem WOnly.set_buf {s s1 : State} {b : Bytes} (h : WOnly s s1) : WOnly s { s1 with buf := b } :=
  ⟨h.closed, h.hist, h.delay0, h.rbuf, h.inbox⟩

theorem bufWrite_ok {C : Cfg} {s s' : State} {p : Bytes} (h : bufWrite C s p = (s', true)) :
    s.berr = false ∧ s'.berr = false ∧ s'.wire ++ s'.buf = s.wire ++ s.buf ++ p
      ∧ (s.closed = true → s'.wire = s.wire) ∧ s'.werr = s.werr ∧ s'.timerArmed = s.timerArmed
      ∧ WOnly s s' := by
  unfold bufWrite at h
  split at h
  · simp at h
  · rename_i hb
    have hb' : s.berr = false := by simpa using hb
    split at h
    · simp at h; subst h
      refine ⟨hb', hb', by simp, fun _ => rfl, rfl, rfl, ⟨rfl, rfl, rfl, rfl, rfl⟩⟩
    · split at h
      · rename_i he
        obtain ⟨h1, h2, h3, h4, h5, h6, h7⟩ := directWrite_ok h
        refine ⟨hb', by rw [h4]; exact hb', by rw [h1, h3, he]; simp, fun hc => by simp [hc] at h2, h5, h6, h7⟩
      · rename_i he
        simp only at h
        split at h
        · simp at h
        · rename_i s1 hf
          obtain ⟨f1, f2, f3, f4, f5, f6, f7, f8⟩ := bufFlush_ok hf
          have hne : s.buf ++ List.take (C.cap - s.buf.length) p ≠ [] := by simp [he]
          have hcl : s.closed = false := by simpa using f5 hne
          split at h
          · simp at h; subst h
            refine ⟨hb', f2, ?_, fun hc => by simp [hc] at hcl, f6, f7, f8.of_buf.set_buf⟩
            simp [f4, List.append_assoc]
          · obtain ⟨h1, h2, h3, h4, h5, h6, h7⟩ := directWrite_ok h
            refine ⟨hb', by rw [h4]; exact f2, ?_, fun hc => by simp [hc] at hcl, by rw [h5]; exact f6,
              by rw [h6]; exact f7, (f8.of_buf).trans h7⟩
            rw [h1, h3, f3, f4]; simp [List.append_assoc]

theorem bufWrite_fail {C : Cfg} {s s' : State} {p : Bytes} (h : bufWrite C s p = (s', false)) :
    s'.berr = true ∧ (∃ r, s'.wire ++ r = s.wire ++ s.buf ++ p) ∧ s'.werr = s.werr
      ∧ s'.timerArmed = s.timerArmed ∧ (s.berr = true → s'.wire = s.wire ∧ s'.buf = s.buf) ∧ WOnly s s' := by
  unfold bufWrite at h
  split at h
  · rename_i hb; simp at h; subst h
    exact ⟨hb, ⟨s.buf ++ p, by simp⟩, rfl, rfl, fun _ => ⟨rfl, rfl⟩, WOnly.refl _⟩
  · rename_i hb
    have hb' : s.berr = false := by simpa using hb
    split at h
    · simp at h
    · split at h
      · obtain ⟨h1, h2, h3, h4, h5, h6⟩ := directWrite_fail h
        exact ⟨h1, ⟨s.buf ++ p, by rw [h2]; simp⟩, h4, h5, fun hc => by simp [hc] at hb', h6⟩
      · simp only at h
        split at h
        · rename_i s1 hf
          obtain ⟨f1, f2, f3, f4, f5, f6⟩ := bufFlush_fail hf
          simp at h; subst h
          exact ⟨f1, ⟨s.buf ++ p, by rw [f2]; simp⟩, f4, f5, fun hc => by simp [hc] at hb', f6.of_buf⟩
        · rename_i s1 hf
          obtain ⟨f1, f2, f3, f4, f5, f6, f7, f8⟩ := bufFlush_ok hf
          split at h
          · simp at h
          · obtain ⟨h1, h2, h3, h4, h5, h6⟩ := directWrite_fail h
            refine ⟨h1, ⟨List.drop (C.cap - s.buf.length) p, ?_⟩, by rw [h4]; exact f6, by rw [h5]; exact f7,
              fun hc => by simp [hc] at hb', (f8.of_buf).trans h6⟩
            rw [h2, f4]; simp [List.append_assoc]


/-! ### mercury.Writer -/

theorem bufWriteOpt_ok {C : Cfg} {s s' : State} {p : Bytes} (h : bufWriteOpt C s p = (s', true)) :
    (p ≠ [] → s.berr = false) ∧ s'.berr = s.berr ∧ s'.wire ++ s'.buf = s.wire ++ s.buf ++ p
      ∧ (s.closed = true → s'.wire = s.wire) ∧ s'.werr = s.werr ∧ s'.timerArmed = s.timerArmed
      ∧ WOnly s s' ∧ (p = [] → s' = s) := by
  unfold bufWriteOpt at h
  split at h
  · rename_i hp; simp at h; subst h; subst hp
    exact ⟨fun h => absurd rfl h, rfl, by simp, fun _ => rfl, rfl, rfl, WOnly.refl _, fun _ => rfl⟩
  · rename_i hp
    obtain ⟨h1, h2, h3, h4, h5, h6, h7⟩ := bufWrite_ok h
    exact ⟨fun _ => h1, by rw [h1, h2], h3, h4, h5, h6, h7, fun h => absurd h hp⟩

theorem bufWriteOpt_fail {C : Cfg} {s s' : State} {p : Bytes} (h : bufWriteOpt C s p = (s', false)) :
    s'.berr = true ∧ (∃ r, s'.wire ++ r = s.wire ++ s.buf ++ p) ∧ s'.werr = s.werr
      ∧ s'.timerArmed = s.timerArmed ∧ (s.berr = true → s'.wire = s.wire ∧ s'.buf = s.buf) ∧ WOnly s s' := by
  unfold bufWriteOpt at h
  split at h
  · simp at h
  · exact bufWrite_fail h

theorem timerAdjust_spec (s : State) :
    (timerAdjust s).buf = s.buf ∧ (timerAdjust s).berr = s.berr ∧ (timerAdjust s).werr = s.werr
      ∧ (timerAdjust s).wire = s.wire ∧ ((timerAdjust s).buf ≠ [] → (timerAdjust s).timerArmed = true)
      ∧ WOnly s (timerAdjust s) := by
  unfold timerAdjust
  split
  · rename_i h; simp at h
    exact ⟨rfl, rfl, rfl, rfl, fun _ => rfl, ⟨rfl, rfl, rfl, rfl, rfl⟩⟩
  · rename_i h1
    split
    · rename_i h; simp at h
      refine ⟨rfl, rfl, rfl, rfl, fun hn => ?_, ⟨rfl, rfl, rfl, rfl, rfl⟩⟩
      exact absurd h.1 hn
    · rename_i h2
      refine ⟨rfl, rfl, rfl, rfl, fun hn => ?_, WOnly.refl _⟩
      simp at h1
      cases ht : s.timerArmed
      · exact absurd (h1 hn) (by simp [ht])
      · rfl

/-- a successful `mercury.Writer.write` -/
theorem mercWrite_ok {C : Cfg} {s s' : State} {p : Bytes} {fl : Bool} (h : mercWrite C s p fl = (s', true)) :
    s.werr = false ∧ (p ≠ [] → s.berr = false) ∧ s'.berr = s.berr ∧ s'.werr = false
      ∧ s'.wire ++ s'.buf = s.wire ++ s.buf ++ p ∧ (s.closed = true → s'.wire = s.wire)
      ∧ (s'.buf ≠ [] → s'.timerArmed = true) ∧ ((fl = true ∨ s.delay0 = true) → s'.buf = [] ∧ s.berr = false)
      ∧ WOnly s s' ∧ (s.berr = true → s'.wire = s.wire ∧ s'.buf = s.buf) := by
  unfold mercWrite at h
  split at h
  · simp at h
  · rename_i hw
    have hw' : s.werr = false := by simpa using hw
    split at h
    · simp at h
    · rename_i s1 h1
      obtain ⟨a1, a2, a3, a4, a5, a6, a7, a8⟩ := bufWriteOpt_ok h1
      split at h
      · simp at h
      · rename_i s2 h2
        simp at h; subst h
        have hbs : s.berr = true → s1 = s := fun hb => a8 (by
          apply Classical.byContradiction; intro hne
          have := a1 hne; rw [hb] at this; simp at this)
        obtain ⟨t1, t2, t3, t4, t5, t6⟩ := timerAdjust_spec s2
        unfold flushIf at h2
        split at h2
        · rename_i hfl
          obtain ⟨f1, f2, f3, f4, f5, f6, f7, f8⟩ := bufFlush_ok h2
          refine ⟨hw', a1, by rw [t2, f2, ← a2, f1], by rw [t3, f6, a5, hw'], ?_, ?_, t5, fun _ => ⟨by rw [t1, f3], by rw [← a2, f1]⟩,
            (a7.trans f8).trans t6, fun hb => by rw [← a2, f1] at hb; simp at hb⟩
          · rw [t4, t1, f3, f4, a3]; simp
          · intro hc
            have hb : s1.buf = [] := by
              apply Classical.byContradiction; intro hne
              have := f5 hne; rw [a7.closed, hc] at this; simp at this
            have := a4 hc
            rw [t4, f4, hb, this]; simp
        · rename_i hfl
          simp at h2; subst h2
          refine ⟨hw', a1, by rw [t2, a2], by rw [t3, a5, hw'], by rw [t4, t1, a3], fun hc => by rw [t4]; exact a4 hc,
            t5, fun hor => ?_, a7.trans t6, fun hb => by rw [t4, t1, hbs hb]; exact ⟨rfl, rfl⟩⟩
          simp [a7.delay0] at hfl
          rcases hor with h | h
          · simp [h] at hfl
          · simp [h] at hfl

/-- a failing `mercury.Writer.write`: either the parked error is handed out, or the writer fails now -/
theorem mercWrite_fail {C : Cfg} {s s' : State} {p : Bytes} {fl : Bool} (h : mercWrite C s p fl = (s', false)) :
    WOnly s s' ∧ s'.werr = false ∧ s'.timerArmed = s.timerArmed ∧
    ((s.werr = true ∧ s'.wire = s.wire ∧ s'.buf = s.buf ∧ s'.berr = s.berr)
      ∨ (s.werr = false ∧ s'.berr = true ∧ (∃ r, s'.wire ++ r = s.wire ++ s.buf ++ p)
          ∧ (s.berr = true → s'.wire = s.wire ∧ s'.buf = s.buf))) := by
  unfold mercWrite at h
  split at h
  · rename_i hw; simp at h; subst h
    exact ⟨⟨rfl, rfl, rfl, rfl, rfl⟩, rfl, rfl, Or.inl ⟨hw, rfl, rfl, rfl⟩⟩
  · rename_i hw
    have hw' : s.werr = false := by simpa using hw
    split at h
    · rename_i s1 h1
      simp at h; subst h
      obtain ⟨b1, b2, b3, b4, b5, b6⟩ := bufWriteOpt_fail h1
      exact ⟨b6, by rw [b3, hw'], b4, Or.inr ⟨hw', b1, b2, b5⟩⟩
    · rename_i s1 h1
      obtain ⟨a1, a2, a3, a4, a5, a6, a7, a8⟩ := bufWriteOpt_ok h1
      split at h
      · rename_i s2 h2
        simp at h; subst h
        unfold flushIf at h2
        split at h2
        · obtain ⟨f1, f2, f3, f4, f5, f6⟩ := bufFlush_fail h2
          refine ⟨a7.trans f6, by rw [f4, a5, hw'], by rw [f5, a6], Or.inr ⟨hw', f1, ⟨s1.buf, by rw [f2, a3]⟩, fun hb => ?_⟩⟩
          have hp : p = [] := by
            apply Classical.byContradiction; intro hne
            have := a1 hne; rw [hb] at this; simp at this
          subst hp
          unfold bufWriteOpt at h1; simp at h1; subst h1
          exact ⟨f2, f3⟩
        · simp at h2
      · simp at h

theorem mercTimer_spec (s : State) :
    (mercTimer s).timerArmed = false ∧ WOnly s (mercTimer s) ∧
    ((s.berr = false ∧ (mercTimer s).berr = false ∧ (mercTimer s).buf = [] ∧ (mercTimer s).wire = s.wire ++ s.buf
        ∧ (mercTimer s).werr = s.werr ∧ (s.buf ≠ [] → s.closed = false))
      ∨ ((mercTimer s).berr = true ∧ (mercTimer s).werr = true ∧ (mercTimer s).wire = s.wire
          ∧ (mercTimer s).buf = s.buf)) := by
  unfold mercTimer
  split
  · rename_i s1 h1
    obtain ⟨f1, f2, f3, f4, f5, f6, f7, f8⟩ := bufFlush_ok h1
    exact ⟨f7, ⟨f8.closed, f8.hist, f8.delay0, f8.rbuf, f8.inbox⟩, Or.inl ⟨f1, f2, f3, f4, f6, f5⟩⟩
  · rename_i s1 h1
    obtain ⟨f1, f2, f3, f4, f5, f6⟩ := bufFlush_fail h1
    have w : WOnly s s1 := ⟨f6.closed, f6.hist, f6.delay0, f6.rbuf, f6.inbox⟩
    split
    · rename_i hw
      exact ⟨f5, w, Or.inr ⟨f1, hw, f2, f3⟩⟩
    · exact ⟨f5, ⟨w.closed, w.hist, w.delay0, w.rbuf, w.inbox⟩, Or.inr ⟨f1, rfl, f2, f3⟩⟩


/-! ### the carrier close and the inbound side leave the writer alone -/

/-- the writer-relevant part of the state (and the ghost history) is the same -/
structure WSame (s s' : State) : Prop where
  wire : s'.wire = s.wire
  buf : s'.buf = s.buf
  berr : s'.berr = s.berr
  werr : s'.werr = s.werr
  timerArmed : s'.timerArmed = s.timerArmed
  hist : s'.hist = s.hist

theorem WSame.refl (s : State) : WSame s s := ⟨rfl, rfl, rfl, rfl, rfl, rfl⟩
theorem WSame.trans {a b c : State} (h1 : WSame a b) (h2 : WSame b c) : WSame a c :=
  ⟨h2.wire.trans h1.wire, h2.buf.trans h1.buf, h2.berr.trans h1.berr, h2.werr.trans h1.werr,
   h2.timerArmed.trans h1.timerArmed, h2.hist.trans h1.hist⟩

theorem carrierClose_spec (s : State) :
    (carrierClose s).1.closed = true ∧ WSame s (carrierClose s).1 ∧ (carrierClose s).1.rbuf = s.rbuf
      ∧ (carrierClose s).1.inbox = s.inbox ∧ (s.closed = true → (carrierClose s) = (s, false)) := by
  unfold carrierClose
  split
  · rename_i h; exact ⟨h, WSame.refl _, rfl, rfl, fun _ => rfl⟩
  · rename_i h
    split <;> exact ⟨rfl, ⟨rfl, rfl, rfl, rfl, rfl, rfl⟩, rfl, rfl, fun hc => absurd hc h⟩

theorem closeCarrier_closed (s : State) : (closeCarrier s).closed = true := (carrierClose_spec s).1
theorem closeCarrier_wsame (s : State) : WSame s (closeCarrier s) := (carrierClose_spec s).2.1
theorem closeCarrier_rbuf (s : State) : (closeCarrier s).rbuf = s.rbuf := (carrierClose_spec s).2.2.1

theorem carrierSetDeadline_spec (C : Cfg) (s : State) (a : Bool) :
    WSame s (carrierSetDeadline C s a).1 ∧ (carrierSetDeadline C s a).1.closed = s.closed
      ∧ (carrierSetDeadline C s a).1.rbuf = s.rbuf
      ∧ (s.closed = true → C.dlClosedFails = true → (carrierSetDeadline C s a).2 = false) := by
  unfold carrierSetDeadline
  split
  · exact ⟨WSame.refl _, rfl, rfl, fun _ _ => rfl⟩
  · rename_i h
    split <;> exact ⟨⟨rfl, rfl, rfl, rfl, rfl, rfl⟩, rfl, rfl, fun h1 h2 => by simp [h1, h2] at h⟩

theorem carrierRead_spec (s : State) :
    WSame s (carrierRead s).1 ∧ (carrierRead s).1.closed = s.closed
      ∧ (s.closed = true → carrierRead s = (s, .err))
      ∧ ((carrierRead s).2 ≠ .data → (carrierRead s).1.rbuf = s.rbuf) := by
  unfold carrierRead
  split
  · exact ⟨WSame.refl _, rfl, fun _ => rfl, fun _ => rfl⟩
  · rename_i h
    split
    · exact ⟨⟨rfl, rfl, rfl, rfl, rfl, rfl⟩, rfl, fun hc => absurd hc h, fun _ => rfl⟩
    · split
      · exact ⟨⟨rfl, rfl, rfl, rfl, rfl, rfl⟩, rfl, fun hc => absurd hc h, fun _ => rfl⟩
      · split
        · exact ⟨⟨rfl, rfl, rfl, rfl, rfl, rfl⟩, rfl, fun hc => absurd hc h, fun hn => absurd rfl hn⟩
        · split
          · exact ⟨⟨rfl, rfl, rfl, rfl, rfl, rfl⟩, rfl, fun hc => absurd hc h, fun _ => rfl⟩
          · exact ⟨WSame.refl _, rfl, fun hc => absurd hc h, fun _ => rfl⟩

end Pf
end BaseConn
