import Proofs.BrokerSetup
/-
  Proofs/BrokerClean.lean — the outgoing packet stores never contain a CONNACK (they are filled
  with PUBLISH and PUBREL packets only), so the resend after a session resumption adds no CONNACK;
  what a packet on a connection that is still waiting for its CONNECT makes the broker queue.
-/

namespace BrokerB2
open BState

def isConnack : Packet → Bool
  | .connack .. => true
  | _ => false

/-- no stored session has a CONNACK in its outgoing packet store -/
def OutClean (s : BState) : Prop :=
  ∀ cid b, Assoc.get s.stored cid = some b → ∀ e ∈ b.sess.outgoing.entries, isConnack e.2 = false

theorem OutClean.of_stored {s t : BState} (h : t.stored = s.stored) (hc : OutClean s) : OutClean t := by
  intro cid b hb; rw [h] at hb; exact hc cid b hb

theorem outClean_setSessOf (s : BState) (c : ConnId) (b b' : BSess) (hs : s.sessOf c = some b)
    (hq : (∀ e ∈ b.sess.outgoing.entries, isConnack e.2 = false) → ∀ e ∈ b'.sess.outgoing.entries, isConnack e.2 = false)
    (hc : OutClean s) : OutClean (s.setSessOf c b') := by
  cases hx : s.conn? c with
  | none => rw [setSessOf_none _ _ _ hx]; exact hc
  | some x =>
    rw [setSessOf_eq _ _ _ _ hx]
    rw [sessOf_eq _ _ _ hx] at hs
    cases hr : x.sref with
    | none => exact hc
    | temp => exact OutClean.of_stored rfl hc
    | stored id =>
      rw [hr] at hs
      simp only [sessAt] at hs
      intro cid b0 hb0
      simp only [setSessAt, get_set] at hb0
      split at hb0
      · injection hb0 with hb0; subst hb0
        exact hq (hc id b hs)
      · exact hc cid b0 hb0

theorem save_publish_clean (st : PacketStore) (m : Message) (d : Bool) (id : UInt16)
    (h : ∀ e ∈ st.entries, isConnack e.2 = false) : ∀ e ∈ (st.save (.publish m d id)).entries, isConnack e.2 = false := by
  intro e he
  simp only [PacketStore.save, Packet.getID, PacketStore.erase, List.mem_append, List.mem_filter, List.mem_singleton] at he
  rcases he with ⟨he, _⟩ | he
  · exact h e he
  · subst he; rfl

theorem lastDequeue_outClean (s s1 : BState) (c : ConnId) (x : BConn) (hc : OutClean s) (h : s1 ∈ lastDequeue s c x) :
    OutClean s1 := by
  unfold lastDequeue at h
  split at h
  · simp at h; subst h; exact hc
  · split at h
    · simp at h; subst h; exact hc
    · rename_i b hb
      simp only [List.mem_cons, List.mem_append] at h
      have key : ∀ (sq : List Message) (tq : List (Nat × Message)) (m : Message),
          ∀ s1, s1 = (if (applyQOS b m).qos = 0 then s.setSessOf c ⟨b.subs, sq, tq, b.sess, b.active⟩
                  else if (b.sess.freshID).1 = 0 then s.setSessOf c ⟨b.subs, sq, tq, (b.sess.freshID).2, b.active⟩
                  else s.setSessOf c ⟨b.subs, sq, tq, (b.sess.freshID).2.savePacket .outgoing (.publish (applyQOS b m) false (b.sess.freshID).1), b.active⟩) →
          OutClean s1 := by
        intro sq tq m s1 hs1
        split at hs1
        · subst hs1; exact outClean_setSessOf s c b _ hb (fun hh => hh) hc
        · split at hs1
          · subst hs1
            refine outClean_setSessOf s c b _ hb ?_ hc
            intro hh
            simpa only [MemorySession.freshID_outgoing] using hh
          · subst hs1
            refine outClean_setSessOf s c b _ hb ?_ hc
            intro hh
            have hh' : ∀ e ∈ (b.sess.freshID).2.outgoing.entries, isConnack e.2 = false := by
              simpa only [MemorySession.freshID_outgoing] using hh
            exact save_publish_clean _ _ _ _ hh'
      rcases h with h | h | h
      · subst h; exact hc
      · split at h
        · simp only [List.mem_singleton] at h
          exact key _ _ _ s1 h
        · simp at h
      · split at h
        · simp at h
        · simp only [List.mem_map] at h
          obtain ⟨e, _, he⟩ := h
          exact key _ _ _ s1 he.symm

theorem PubFrame.outClean {s s' : BState} {c : ConnId} {m : Message} (f : PubFrame s s' c m) (hc : OutClean s) :
    OutClean s' := by
  intro cid b' hb'
  have := get_proj _ _ f.stored cid
  rw [hb'] at this
  cases hb : Assoc.get s.stored cid with
  | none => rw [hb] at this; simp at this
  | some b =>
    rw [hb] at this
    simp only [Option.map_some, Option.some.injEq, Prod.mk.injEq] at this
    rw [this.2.1]
    exact hc cid b hb

theorem backendTerminate_outClean (s : BState) (c : ConnId) (hc : OutClean s) : OutClean (backendTerminate s c) := by
  unfold backendTerminate
  simp only []
  have h1 : OutClean ({ s with bevents := s.bevents ++ [BEvent.terminate c] } : BState) := OutClean.of_stored rfl hc
  generalize ({ s with bevents := s.bevents ++ [BEvent.terminate c] } : BState) = s1 at h1
  split
  · rename_i b hb
    exact OutClean.of_stored rfl (outClean_setSessOf s1 c b _ hb (fun hh => hh) h1)
  · exact OutClean.of_stored rfl h1

theorem cleanup_outClean (s t : BState) (c : ConnId) (x : BConn) (hc : OutClean s) (h : Succ (cleanup s c x) t) :
    OutClean t := by
  unfold cleanup at h
  simp only [] at h
  obtain ⟨s1, h1, h2⟩ := succ_bind _ _ _ h
  have c1 : OutClean s1 := by
    split at h1
    · split at h1
      · rename_i s' hbp
        rw [succ_one] at h1; subst h1
        exact (backendPublish_frame _ _ _ _ (Or.inl hbp)).outClean hc
      · rename_i s' hbp
        rw [succ_one] at h1; subst h1
        exact (backendPublish_frame _ _ _ _ (Or.inr hbp)).outClean hc
      · exact absurd h1 (not_succ_unsupported _ _)
    · rw [succ_one] at h1; subst h1; exact hc
  split at h2
  · rw [succ_one] at h2; subst h2; exact backendTerminate_outClean _ _ c1
  · rw [succ_one] at h2; subst h2; exact c1

theorem kill_outClean (s t : BState) (c : ConnId) (hc : OutClean s) (ht : Succ (kill s c) t) : OutClean t := by
  cases h : s.conn? c with
  | none => rw [kill_none s c h, succ_one] at ht; subst ht; exact hc
  | some x =>
    cases ha : x.alive with
    | false => rw [kill_dead s c x h ha, succ_one] at ht; subst ht; exact hc
    | true =>
      rw [kill_alive s c x h ha] at ht
      obtain ⟨s1, hs1, ht⟩ := succ_bind _ _ _ ht
      rw [succ_ok] at hs1
      have c1 := lastDequeue_outClean s s1 c x hc hs1
      rcases succ_ite _ _ _ _ ht with ht | ht
      · rw [succ_one] at ht; subst ht; exact OutClean.of_stored rfl c1
      · refine cleanup_outClean _ _ _ _ ?_ ht
        exact OutClean.of_stored rfl c1

theorem TakeOver.outClean {s1 s2 : BState} {av : Option ConnId} (h : TakeOver s1 s2 av) (hc : OutClean s1) : OutClean s2 := by
  rcases h with rfl | ⟨oc, _, hk⟩
  · exact hc
  · exact kill_outClean _ _ _ hc hk

theorem resendPkts_clean (b : BSess) (h : ∀ e ∈ b.sess.outgoing.entries, isConnack e.2 = false) :
    ∀ q ∈ resendPkts b, isConnack q = false := by
  intro q hq
  simp only [resendPkts, List.mem_map] at hq
  obtain ⟨e, he, rfl⟩ := hq
  have := h e he
  split
  · rfl
  · exact this

/-- A packet on a connection that is still waiting for its CONNECT makes the broker queue, for this
    connection only: nothing; or the CONNACK "not authorised"; or the accepting CONNACK followed by the
    stored outgoing packets of the resumed session — in any case at most one CONNACK. -/
theorem recv_connecting_outs (s t : BState) (c : ConnId) (x : BConn) (p : Packet)
    (h : s.conn? c = some x) (ha : x.alive = true) (hp : x.phase = .connecting) (hown : NotOwner s c)
    (hclean : OutClean s) (ht : Succ (recv s c p) t) :
    ∃ lp, OutsPush s t c lp [] ∧
      (lp = [] ∨ lp = [.connack false 5] ∨ ∃ sp extra, lp = .connack sp 0 :: extra ∧ ∀ q ∈ extra, isConnack q = false) := by
  obtain ⟨ph, al, xid, xw, xs, xp, xa, pt, st, dc, dh, rn, cs, stl, zb⟩ := x
  simp only at ha hp
  subst ha hp
  have killed : ∀ s', Succ (kill s' c) t → OutsSame s s' →
      ∃ lp, OutsPush s t c lp [] ∧
        (lp = [] ∨ lp = [.connack false 5] ∨ ∃ sp extra, lp = .connack sp 0 :: extra ∧ ∀ q ∈ extra, isConnack q = false) :=
    fun s' h2 h1 => ⟨[], (h1.trans (kill_outsSame _ _ _ h2)).toPush c _ h, Or.inl rfl⟩
  unfold recv at ht
  simp only [h] at ht
  simp only [Bool.not_true, Bool.false_eq_true, if_false] at ht
  cases p with
  | connect id ka u pw clean will v =>
    simp only [setConn_closing] at ht
    have h1 := OutsSame.of_setConn s c _ ⟨.connecting, true, id, xw, xs, xp, xa, pt, st, dc, dh, rn, cs, stl, zb⟩ h rfl rfl rfl
    rcases succ_ite_prop _ _ _ _ ht with ⟨_, ht⟩ | ⟨_, ht⟩
    · exact killed _ ht h1
    · rcases succ_ite_prop _ _ _ _ ht with ⟨_, ht⟩ | ⟨_, ht⟩
      · refine ⟨[.connack false 5], ?_, Or.inr (Or.inl rfl)⟩
        have hpush := OutsPush.of_setConn (s.setConn c ⟨.connecting, true, id, xw, xs, xp, xa, pt, st, dc, dh, rn, cs, stl, zb⟩) c _
          ⟨.connecting, true, id, xw, xs, xp ++ [.connack false 5], xa, pt, st, dc, dh, rn, cs, stl, zb⟩ [.connack false 5] []
          (conn?_setConn_same _ _ _) rfl (by simp) rfl
        exact (h1.push hpush).thenSame (kill_outsSame _ _ _ ht)
      · have hown' : NotOwner (s.setConn c ⟨.connecting, true, id, xw, xs, xp, xa, pt, st, dc, dh, rn, cs, stl, zb⟩) c := hown
        have hclean' : OutClean (s.setConn c ⟨.connecting, true, id, xw, xs, xp, xa, pt, st, dc, dh, rn, cs, stl, zb⟩) :=
          OutClean.of_stored rfl hclean
        have hcase := setup_cases _ t c _ id clean will hown' ht
        obtain ⟨lp, hpush, hlp⟩ := setup_outs _ t c _ id clean will (conn?_setConn_same _ _ _) hcase
        refine ⟨lp, h1.push hpush, ?_⟩
        rcases hlp with rfl | ⟨sp, extra, rfl, hex⟩
        · exact Or.inl rfl
        · refine Or.inr (Or.inr ⟨sp, extra, rfl, ?_⟩)
          rcases hex with rfl | ⟨s2, b, hto, hb, rfl⟩
          · simp
          · exact resendPkts_clean b ((hto.outClean (OutClean.of_stored rfl hclean')) id b hb)
  | connack => exact killed s ht (OutsSame.refl _)
  | publish => exact killed s ht (OutsSame.refl _)
  | puback => exact killed s ht (OutsSame.refl _)
  | pubrec => exact killed s ht (OutsSame.refl _)
  | pubrel => exact killed s ht (OutsSame.refl _)
  | pubcomp => exact killed s ht (OutsSame.refl _)
  | subscribe => exact killed s ht (OutsSame.refl _)
  | suback => exact killed s ht (OutsSame.refl _)
  | unsubscribe => exact killed s ht (OutsSame.refl _)
  | unsuback => exact killed s ht (OutsSame.refl _)
  | pingreq => exact killed s ht (OutsSame.refl _)
  | pingresp => exact killed s ht (OutsSame.refl _)
  | disconnect => exact killed s ht (OutsSame.refl _)

end BrokerB2
