import Proofs.ClientC09d
import Props.C18
/-
  Proofs/ClientC09e.lean — C09: once the client is disconnected and no goroutine is left inside
  `cleanup`, no future is pending (this is what the state re-check after `Put` buys). (K1)
-/
set_option linter.unusedSimpArgs false
set_option linter.unusedVariables false
set_option linter.unnecessarySimpa false
open Cl Cl.St
namespace ClientK1

/-- the repairs the argument needs: the re-check after `Put` (defect 14) and `die()` on every
    error return of the processor (defect 15) -/
def FixOK (fx : Fix) : Prop := fx.f14 = true ∧ fx.f15 = true

/-- the id `Client.nextID` settles on is not in the *future* store and is not the id whose
    acknowledgement the processor is finishing right now (fewer than 65535 requests in flight).
    `Client.nextID` guarantees that no *packet* is stored under the id (`C09.fresh_id_unused`); the
    future store is a different object (SUBSCRIBE / UNSUBSCRIBE are never stored in the session, and
    the acknowledgement handlers read and delete their future-store entry in two separate steps),
    so this remains a hypothesis -/
def FreshAt (s : St) (id : UInt16) : Prop := s.storeGet id = none ∧ ∀ k h, s.proc ≠ .aFin k id h

/-- side conditions on the steps of a run: one client lifetime, no keep-alive, fresh ids (required
    only of the id the allocation ends with — the lookup that finds nothing —, not of the ids it
    steps over) -/
def Well (s : St) (l : Label) : Prop :=
  l ≠ .newClient ∧ (∀ cp e v, l ≠ .aConnect cp e v true) ∧
    (∀ id, l = .sLookup .outgoing id (.found none) → FreshAt s id)

/-- reachable within one client lifetime, starting with an arbitrary session -/
inductive Reach1 (fx : Fix) : St → Prop where
  | init (σ : MemorySession) : Reach1 fx { sess := σ }
  | step {s s' : St} (l : Label) : Reach1 fx s → step fx s l = some s' → Well s l → Reach1 fx s'

/-- generic: an invariant of the three step functions is an invariant of `Reach1` -/
theorem reach1_inv {fx} (P : St → Prop) (h0 : ∀ σ, P { sess := σ })
    (hs : ∀ s s' l, Reach1 fx s → P s → step fx s l = some s' → Well s l → P s') :
    ∀ s, Reach1 fx s → P s := by
  intro s h
  induction h with
  | init σ => exact h0 σ
  | step l hr hst hw ih => exact hs _ _ l hr ih hst hw

theorem threadOf_none {l : Label} (h : threadOf l = none) : l = .newClient := by
  cases l with
  | sLookup d _ _ => cases d <;> simp [threadOf] at h
  | _ => simp [threadOf] at h ⊢

/-- the fourth branch of `step` is excluded by `Well` -/
theorem not_newClient_branch {s : St} {l : Label} (hw : Well s l) (h : threadOf l = none) : False :=
  hw.1 (threadOf_none h)

/-! ### no pinger -/

def NoPing (s : St) : Prop := s.ping = .notStarted ∧ s.keepAlive = false ∧ s.pendKA = false

theorem cleanStep_ka {s s' : St} {t c l r} (h : cleanStep s t c l = some (s', r)) :
    s'.keepAlive = s.keepAlive ∧ s'.pendKA = s.pendKA := by
  unfold cleanStep at h
  split_all h
  close_cases h using resolve, storeClear
theorem dieStep_ka {s s' : St} {t d l r} (h : dieStep s t d l = some (s', r)) :
    s'.keepAlive = s.keepAlive ∧ s'.pendKA = s.pendKA := by
  unfold dieStep at h
  split_all h
  close_cases h using resolve
  all_goals (have hc := cleanStep_ka (by assumption); simp at h; obtain ⟨h1, _⟩ := h; subst h1; exact hc)
@[simp] theorem procAfter_ka (s : St) (a : DAfter) : (s.procAfter a).keepAlive = s.keepAlive ∧ (s.procAfter a).pendKA = s.pendKA := by
  cases a <;> simp [procAfter, procExit, goroutineExit, resolve] <;> split <;> simp
@[simp] theorem procErr_ka (fx : Fix) (s : St) : (procErr fx s).keepAlive = s.keepAlive ∧ (procErr fx s).pendKA = s.pendKA := by
  simp [procErr]; split <;> simp [procDie, procExit, goroutineExit]
theorem stepProc_ka {fx s s' l} (h : stepProc fx s l = some s') :
    s'.keepAlive = s.keepAlive ∧ s'.pendKA = s.pendKA := by
  unfold stepProc at h
  split_all h
  close_cases h using procDie, procExit, goroutineExit, sendLog, markDup, resolve, storeDel
  all_goals (have hd := dieStep_ka (by assumption); simp at h; subst h; simpa using hd)

theorem noPing_step {fx s s' l} (hi : NoPing s) (h : step fx s l = some s') (hw : Well s l) : NoPing s' := by
  obtain ⟨hp, hk, hq⟩ := hi
  unfold step at h
  split at h
  · unfold stepApi at h
    split_all h
    all_goals (first
      | (simp at h; done)
      | (simp at h; subst h; simp_all [NoPing, apiFail, sendLog, addFut, storePut, storeDel, resolve]; done)
      | (have hc := cleanStep_ka (by assumption); have hc2 := cleanStep_ping (by assumption)
         simp at h; subst h; simp_all [NoPing]; done)
      | skip)
    all_goals (
      rename_i ka _ _ _ _ _ _ _ _ _
      cases ka
      · simp at h; subst h; simp_all [NoPing]
      · exact absurd rfl (hw.2.1 _ _ _))
  · exact ⟨by rw [stepProc_ping h]; exact hp, by rw [(stepProc_ka h).1]; exact hk, by rw [(stepProc_ka h).2]; exact hq⟩
  · simp [stepPing, hp] at h
  · exact (not_newClient_branch hw (by assumption)).elim

/-! ### the future store as a function -/

def getL (l : List (UInt16 × Nat)) (k : UInt16) : Option Nat := (l.find? (·.1 == k)).map (·.2)

theorem storeGet_eq (s : St) (k : UInt16) : s.storeGet k = getL s.fstore k := rfl

theorem find_filter_ne (l : List (UInt16 × Nat)) (id k : UInt16) :
    (l.filter (·.1 != id)).find? (·.1 == k) = if k = id then none else l.find? (·.1 == k) := by
  induction l with
  | nil => simp
  | cons e t ih =>
    by_cases he : e.1 = id
    · simp only [List.filter_cons, he, bne_self_eq_false, Bool.false_eq_true, if_false, List.find?_cons]
      rw [ih]
      by_cases hk : k = id
      · simp [hk]
      · have : (id == k) = false := by simp; exact fun e => hk e.symm
        simp [hk, this]
    · have hne : (e.1 != id) = true := by simp [he]
      simp only [List.filter_cons, hne, if_true, List.find?_cons]
      by_cases hk : k = id
      · subst hk
        have : (e.1 == k) = false := by simp [he]
        simp [this, ih]
      · simp only [hk, if_false] at ih ⊢
        rw [ih]

theorem getL_filter (l : List (UInt16 × Nat)) (id k : UInt16) :
    getL (l.filter (·.1 != id)) k = if k = id then none else getL l k := by
  simp only [getL, find_filter_ne]; split <;> simp

theorem getL_put (l : List (UInt16 × Nat)) (id : UInt16) (h : Nat) (k : UInt16) :
    getL (l.filter (·.1 != id) ++ [(id, h)]) k = if k = id then some h else getL l k := by
  simp only [getL, List.find?_append, find_filter_ne]
  by_cases hk : k = id
  · subst hk; simp
  · have : (id == k) = false := by simp; exact fun e => hk e.symm
    simp [hk, this]

@[simp] theorem getL_nil (k : UInt16) : getL [] k = none := rfl

theorem getL_mem {l : List (UInt16 × Nat)} {k : UInt16} {h : Nat} (hg : getL l k = some h) : h ∈ l.map (·.2) := by
  simp only [getL, Option.map_eq_some_iff] at hg
  obtain ⟨e, he, rfl⟩ := hg
  exact List.mem_map_of_mem (List.mem_of_find?_eq_some he)

theorem em_split (A X Y : Prop) : (A → X) ∨ (¬A → Y) := by
  by_cases h : A
  · right; intro hn; exact absurd h hn
  · left; intro ha; exact absurd ha h

/-- unfold the helpers of the model down to record updates and `getL` -/
macro "model_simp" : tactic =>
  `(tactic| simp [storeGet_eq, storeDel, storePut, storeClear, resolve, addFut, sendLog, markDup, procDie, procExit,
      goroutineExit, apiFail, mkDie, getL_filter, getL_put])
macro "model_simp" " at " h:ident : tactic =>
  `(tactic| simp [storeGet_eq, storeDel, storePut, storeClear, resolve, addFut, sendLog, markDup, procDie, procExit,
      goroutineExit, apiFail, mkDie, getL_filter, getL_put] at $h:ident)

/-! ### who owns which entry of the future store -/

def apiHolds (a : Api) (id : UInt16) (h : Nat) : Prop :=
  ∃ r, a = .rCheck r id h ∨ a = .rSave r id h ∨ a = .rSend r id h ∨ a = .rDone r id h

def procHandles (pc : Proc) (id : UInt16) : Prop :=
  ∃ k, pc = .aDel k id ∨ pc = .aGet k id ∨ ∃ h, pc = .aFin k id h

theorem cleanStep_fstore {s s' : St} {t c l r} (h : cleanStep s t c l = some (s', r)) :
    s'.fstore = s.fstore ∨ (s'.fstore = [] ∧ r = none) := by
  unfold cleanStep at h
  split_all h
  all_goals (first
    | (simp at h; done)
    | (simp at h; obtain ⟨h1, h2⟩ := h; subst h1; subst h2; simp [storeClear]; done)
    | (simp at h; obtain ⟨h1, h2⟩ := h; subst h1; left; simp [resolve]; done)
    | skip)

theorem cleanStep_done_fstore {s s' : St} {t c l} (h : cleanStep s t c l = some (s', none)) : s'.fstore = [] := by
  unfold cleanStep at h
  split_all h
  all_goals (first
    | (simp at h; done)
    | (simp at h; subst h; simp [storeClear]; done)
    | skip)

theorem dieStep_fstore {s s' : St} {t d l r} (h : dieStep s t d l = some (s', r)) :
    s'.fstore = s.fstore ∨ s'.fstore = [] := by
  unfold dieStep at h
  split_all h
  all_goals (first
    | (simp at h; done)
    | (simp at h; obtain ⟨h1, _⟩ := h; subst h1; left; rfl)
    | skip)
  all_goals (
    have hc := cleanStep_fstore (by assumption)
    simp at h; obtain ⟨h1, _⟩ := h; subst h1
    rcases hc with hc | ⟨hc, _⟩
    · left; exact hc
    · right; exact hc)

@[simp] theorem procAfter_fstore (s : St) (a : DAfter) : (s.procAfter a).fstore = s.fstore := by
  cases a <;> simp [procAfter, procExit, goroutineExit, resolve] <;> split <;> simp
@[simp] theorem procErr_fstore (fx : Fix) (s : St) : (procErr fx s).fstore = s.fstore := by
  simp [procErr]; split <;> simp [procDie, procExit, goroutineExit]

/-- the processor only ever removes entries from the future store -/
theorem stepProc_getL {fx s s' l} (h : stepProc fx s l = some s') (k : UInt16) :
    getL s'.fstore k = getL s.fstore k ∨ getL s'.fstore k = none := by
  unfold stepProc at h
  split_all h
  all_goals (first
    | (simp at h; done)
    | (simp at h; subst h; left; rfl)
    | (simp at h; subst h; model_simp; done)
    | (simp at h; subst h; model_simp; split <;> simp; done)
    | (have hd := dieStep_fstore (by assumption); simp at h; subst h
       rcases hd with hd | hd <;> simp [hd]; done)
    | skip)
  all_goals (simp at h; subst h; model_simp; exact em_split _ _ _)

/-- what an exported method can do to one entry of the future store -/
theorem stepApi_getL {fx s s' l} (h : stepApi fx s l = some s') (k : UInt16) :
    getL s'.fstore k = getL s.fstore k ∨ getL s'.fstore k = none ∨
      (∃ r, s.api = .rPut r k ∧ getL s'.fstore k = some s.futs.length) := by
  unfold stepApi at h
  split_all h
  all_goals (first
    | (simp at h; done)
    | (simp at h; subst h; left; rfl)
    | (simp at h; subst h; model_simp; done)
    | (have hc := cleanStep_fstore (by assumption); simp at h; subst h
       rcases hc with hc | ⟨hc, _⟩ <;> simp [hc]; done)
    | skip)
  all_goals (
    simp at h; subst h
    simp only [storePut, addFut, storeDel, resolve, getL_put, getL_filter]
    split
    · rename_i hk; subst hk
      first
        | (right; left; rfl)
        | (right; right; exact ⟨_, by assumption, rfl⟩)
    · left; rfl)

/-- the last statement group of an acknowledgement handler is entered from `Get` with the future
    found in the store -/
theorem stepProc_enter_aFin {fx s s' l k id h} (hs : stepProc fx s l = some s') (hp : s'.proc = .aFin k id h) :
    s.proc = .aGet k id ∧ getL s.fstore id = some h ∧ s'.fstore = s.fstore := by
  unfold stepProc at hs
  split_all hs
  all_goals (first
    | (simp at hs; done)
    | (simp at hs; subst hs; model_simp at hp; done)
    | (simp at hs; subst hs; rw [procErr_proc_eq] at hp; split at hp <;> simp [mkDie] at hp; done)
    | (simp at hs; subst hs; rw [procAfter_proc_eq] at hp; split at hp <;> simp at hp; done)
    | skip)
  · simp at hs; subst hs; simp_all
  · simp at hs; subst hs; simp at hp; obtain ⟨rfl, rfl, rfl⟩ := hp
    exact ⟨by assumption, by rw [← storeGet_eq]; assumption, rfl⟩

theorem ownY_stepProc {fx s s' l} (hi : ∀ id, procHandles s.proc id → id ≠ 0) (hs : stepProc fx s l = some s') :
    ∀ id, procHandles s'.proc id → id ≠ 0 := by
  intro id hp
  unfold procHandles at *
  unfold stepProc at hs
  split_all hs
  all_goals (first
    | (simp at hs; done)
    | (simp at hs; subst hs; model_simp at hp; done)
    | (simp at hs; subst hs; rw [procErr_proc_eq] at hp; split at hp <;> simp [mkDie] at hp; done)
    | (simp at hs; subst hs; rw [procAfter_proc_eq] at hp; split at hp <;> simp at hp; done)
    | skip)
  all_goals (first
    | (simp at hs; subst hs; simp_all; done)
    | (simp at hs; subst hs; simp at hp; subst hp; exact hi _ ⟨_, by simp_all⟩)
    | (simp at hs; subst hs; simp at hp; obtain ⟨_, rfl⟩ := hp; exact hi _ ⟨_, by simp_all⟩)
    | skip)

/-- `Put` is reached either with the id `Client.nextID` ended with (its lookup found no stored
    packet) or, for QoS 0, with id 0 -/
theorem stepApi_enter_rPut {fx s s' l r id} (hs : stepApi fx s l = some s') (hp : s'.api = .rPut r id) :
    s'.fstore = s.fstore ∧ s'.proc = s.proc ∧
      ((∃ n, s.api = .rLook r id n ∧ l = .sLookup .outgoing id (.found none)) ∨ (s.api = .rChk r ∧ id = 0)) := by
  unfold stepApi at hs
  split_all hs
  all_goals (first
    | (simp at hs; done)
    | (simp at hs; subst hs; model_simp at hp; done)
    | (simp at hs; subst hs; simp at hp; simp_all; done)
    | skip)

/-- an exported method holds a future either because it just put it or because it held it before -/
theorem stepApi_holds {fx s s' l id h} (hs : stepApi fx s l = some s') (hp : apiHolds s'.api id h) :
    (apiHolds s.api id h ∧ s'.fstore = s.fstore) ∨ (∃ r, s.api = .rPut r id ∧ h = s.futs.length) := by
  unfold apiHolds at *
  unfold stepApi at hs
  split_all hs
  all_goals (first
    | (simp at hs; done)
    | (simp at hs; subst hs; model_simp at hp; done)
    | (simp at hs; subst hs; simp at hp; simp_all; done)
    | skip)
  all_goals (
    simp at hs; subst hs; simp at hp; obtain ⟨rfl, rfl⟩ := hp
    left; exact ⟨⟨_, Or.inr (Or.inr (Or.inl (by assumption)))⟩, by model_simp⟩)

def apiReq : Api → Option (Req × UInt16)
  | .rPut r id | .rCheck r id _ | .rSave r id _ | .rSend r id _ | .rDone r id _ => some (r, id)
  | _ => none

/-- requests that need an id never run under id 0, the others always do -/
def IdZ (s : St) : Prop :=
  (∀ r id, apiReq s.api = some (r, id) → (id = 0 ↔ r.needsID = false)) ∧ (∀ r n, s.api = .rID r n → r.needsID = true) ∧
    (∀ r id n, s.api = .rLook r id n → r.needsID = true ∧ id ≠ 0)

theorem sess_nextID_ne_zero (σ : MemorySession) : σ.nextID.1 ≠ 0 := by
  have := C18.nextID_ne_zero σ.counter
  simpa [MemorySession.nextID] using this

theorem idZ_stepApi {fx s s' l} (hi : IdZ s) (hs : stepApi fx s l = some s') : IdZ s' := by
  obtain ⟨h1, h2, h3⟩ := hi
  unfold stepApi at hs
  split_all hs
  all_goals (first
    | (simp at hs; done)
    | (simp at hs; subst hs; refine ⟨fun r id hp => ?_, fun r n hp => ?_, fun r id n hp => ?_⟩ <;> simp [apiReq, apiFail] at hp; done)
    | skip)
  all_goals (
    simp at hs; subst hs
    refine ⟨fun r id hp => ?_, fun r n hp => ?_, fun r id n hp => ?_⟩
    · (simp [apiReq] at hp) <;> first
        | (obtain ⟨rfl, rfl⟩ := hp; apply h1; simp [apiReq, *]; done)
        | (obtain ⟨rfl, rfl⟩ := hp; have hn := h3 _ _ _ ‹_›; simp_all; done)
        | (obtain ⟨rfl, rfl⟩ := hp; simp_all; done)
        | (simp_all; done)
    · first
        | (simp at hp; done)
        | (simp at hp; obtain ⟨rfl, rfl⟩ := hp; have hn := h3 _ _ _ ‹_›; simp_all; done)
        | (simp at hp; subst hp; simp_all; done)
        | (simp_all; done)
    · first
        | (simp at hp; done)
        | (simp at hp; obtain ⟨rfl, rfl, rfl⟩ := hp; have hn := h2 _ _ ‹_›; simp_all [sess_nextID_ne_zero]; done)
        | (simp_all; done))

/-- id 0 (QoS 0 publishes) is in the store only while the exported method that put it is at work -/
def OwnZ (s : St) : Prop :=
  ∀ h, getL s.fstore 0 = some h → apiHolds s.api 0 h ∨ ∃ c, s.api = .clean c .ret

theorem ownZ_stepApi {fx s s' l} (hi : OwnZ s) (hz : IdZ s) (hs : stepApi fx s l = some s') : OwnZ s' := by
  intro h hg
  obtain ⟨hz1, hz2, _⟩ := hz
  unfold OwnZ apiHolds at *
  unfold stepApi at hs
  split_all hs
  all_goals (first
    | (simp at hs; done)
    | (simp at hs; subst hs; model_simp at hg; have := hi h hg; simp_all; done)
    | skip)
  all_goals (
    simp at hs; subst hs
    (try simp only [storePut, addFut, storeDel, resolve, apiFail, sendLog, getL_put, getL_filter] at hg)
    first
      | (split at hg
         · simp_all
         · have := hi h hg; simp_all)
      | (have := hi h hg; simp_all [apiFail, sendLog]; done)
      | (have hc := cleanStep_fstore ‹_›; rcases hc with hc | ⟨hc, _⟩ <;> simp [hc] at hg
         have := hi h hg; simp_all; done)
      | skip)
  · have h0 := hi h hg
    have hz := hz1 _ _ (by rw [‹s.api = _›]; rfl)
    simp_all
  · have hc := cleanStep_done_fstore ‹_›
    simp [hc] at hg

structure Own (s : St) : Prop where
  idz : IdZ s
  y : ∀ id, procHandles s.proc id → id ≠ 0
  z : OwnZ s
  p : ∀ id h, apiHolds s.api id h → getL s.fstore id = some h ∨ getL s.fstore id = none
  f : ∀ k id h, s.proc = .aFin k id h → getL s.fstore id = some h ∨ getL s.fstore id = none
  q : ∀ r id, s.api = .rPut r id → getL s.fstore id = none ∧ ∀ k h, s.proc ≠ .aFin k id h

theorem own_init (σ : MemorySession) : Own { sess := σ } := by
  refine ⟨⟨?_, ?_⟩, ?_, ?_, ?_, ?_, ?_⟩ <;> simp [apiReq, procHandles, OwnZ, apiHolds]

theorem own_stepApi {fx s s' l} (hi : Own s) (hs : stepApi fx s l = some s') (hw : Well s l) : Own s' := by
  have hproc := stepApi_proc hs
  refine ⟨idZ_stepApi hi.idz hs, ?_, ownZ_stepApi hi.z hi.idz hs, ?_, ?_, ?_⟩
  · intro id hp
    rcases hproc with hq | hq
    · rw [hq] at hp; exact hi.y id hp
    · rw [hq] at hp; simp [procHandles] at hp
  · intro id h hp
    rcases stepApi_holds hs hp with ⟨ha, hf⟩ | ⟨r, ha, rfl⟩
    · rw [hf]; exact hi.p id h ha
    · have hq := (hi.q r id ha).1
      rcases stepApi_getL hs id with hg | hg | ⟨_, _, hg⟩
      · right; rw [hg]; exact hq
      · right; exact hg
      · left; exact hg
  · intro k id h hp
    rcases hproc with hq | hq
    · rw [hq] at hp
      rcases stepApi_getL hs id with hg | hg | ⟨r, ha, _⟩
      · rw [hg]; exact hi.f k id h hp
      · right; exact hg
      · exact absurd hp ((hi.q r id ha).2 k h)
    · rw [hq] at hp; simp at hp
  · intro r id hp
    obtain ⟨hf, hpr, hc⟩ := stepApi_enter_rPut hs hp
    rw [hf, hpr]
    rcases hc with ⟨_, _, rfl⟩ | ⟨ha, rfl⟩
    · have := hw.2.2 id rfl
      exact ⟨by rw [← storeGet_eq]; exact this.1, this.2⟩
    · constructor
      · cases hg : getL s.fstore 0 with
        | none => rfl
        | some h =>
          rcases hi.z h hg with ⟨r', hh⟩ | ⟨c, hh⟩ <;> simp [ha] at hh
      · intro k h hk
        exact hi.y 0 ⟨k, Or.inr (Or.inr ⟨h, hk⟩)⟩ rfl

theorem own_stepProc {fx s s' l} (hi : Own s) (hs : stepProc fx s l = some s') : Own s' := by
  have hapi := stepProc_api hs
  refine ⟨?_, ownY_stepProc hi.y hs, ?_, ?_, ?_, ?_⟩
  · have := hi.idz; unfold IdZ at *; rw [hapi]; exact this
  · intro h hg
    rw [hapi]
    rcases stepProc_getL hs 0 with he | he
    · rw [he] at hg; exact hi.z h hg
    · rw [he] at hg; simp at hg
  · intro id h hp
    rw [hapi] at hp
    rcases stepProc_getL hs id with he | he
    · rw [he]; exact hi.p id h hp
    · right; exact he
  · intro k id h hp
    obtain ⟨_, hg, hf⟩ := stepProc_enter_aFin hs hp
    left; rw [hf]; exact hg
  · intro r id hp
    rw [hapi] at hp
    obtain ⟨hq1, hq2⟩ := hi.q r id hp
    constructor
    · rcases stepProc_getL hs id with he | he
      · rw [he]; exact hq1
      · exact he
    · intro k h hk
      obtain ⟨_, hg, _⟩ := stepProc_enter_aFin hs hk
      rw [hq1] at hg; simp at hg

theorem own_step {fx s s' l} (hi : Own s) (hn : NoPing s) (hs : step fx s l = some s') (hw : Well s l) : Own s' := by
  unfold step at hs
  split at hs
  · exact own_stepApi hi hs hw
  · exact own_stepProc hi hs
  · simp [stepPing, hn.1] at hs
  · exact (not_newClient_branch hw (by assumption)).elim

/-! ### the connect future -/

theorem cleanStep_cfut {s s' : St} {t c l r} (h : cleanStep s t c l = some (s', r)) :
    s'.cfut = s.cfut ∧ s'.futs.length = s.futs.length := by
  unfold cleanStep at h
  split_all h
  all_goals (first
    | (simp at h; done)
    | (simp at h; obtain ⟨h1, _⟩ := h; subst h1; simp [resolve, storeClear, resolveF_length, clearF_length]; done)
    | skip)
theorem dieStep_cfut {s s' : St} {t d l r} (h : dieStep s t d l = some (s', r)) :
    s'.cfut = s.cfut ∧ s'.futs.length = s.futs.length := by
  unfold dieStep at h
  split_all h
  all_goals (first
    | (simp at h; done)
    | (simp at h; obtain ⟨h1, _⟩ := h; subst h1; simp; done)
    | skip)
  all_goals (have hc := cleanStep_cfut (by assumption); simp at h; obtain ⟨h1, _⟩ := h; subst h1; exact hc)
theorem procAfter_cfut (s : St) (a : DAfter) :
    (s.procAfter a).cfut = s.cfut ∧ (s.procAfter a).futs.length = s.futs.length := by
  cases a <;> simp [procAfter, procExit, goroutineExit, resolve] <;> split <;> simp [resolveF_length]
theorem procErr_cfut (fx : Fix) (s : St) : (procErr fx s).cfut = s.cfut ∧ (procErr fx s).futs.length = s.futs.length := by
  simp [procErr]; split <;> simp [procDie, procExit, goroutineExit]
theorem stepProc_cfut {fx s s' l} (h : stepProc fx s l = some s') :
    s'.cfut = s.cfut ∧ s'.futs.length = s.futs.length := by
  unfold stepProc at h
  split_all h
  all_goals (first
    | (simp at h; done)
    | (simp at h; subst h; simp [procDie, procExit, goroutineExit, sendLog, markDup, resolve, storeDel, resolveF_length,
        procErr_cfut]; done)
    | (simp at h; subst h; simp [procDie, procExit, goroutineExit, sendLog, markDup, resolve, storeDel, resolveF_length,
        procErr_cfut]; split <;> simp [resolveF_length]; done)
    | (have hd := dieStep_cfut (by assumption); simp at h; subst h; simp [procAfter_cfut, hd]; done)
    | skip)

/-- the connect future is a future that exists -/
def CfLt (s : St) : Prop := ∀ h, s.cfut = some h → h < s.futs.length

theorem cfLt_stepProc {fx s s' l} (hi : CfLt s) (hs : stepProc fx s l = some s') : CfLt s' := by
  intro h hc; obtain ⟨h1, h2⟩ := stepProc_cfut hs; rw [h1] at hc; rw [h2]; exact hi h hc

theorem cfLt_stepApi {fx s s' l} (hi : CfLt s) (hs : stepApi fx s l = some s') : CfLt s' := by
  intro h hc
  unfold CfLt at hi
  unfold stepApi at hs
  split_all hs
  all_goals (first
    | (simp at hs; done)
    | (simp at hs; subst hs; simp [apiFail, sendLog, addFut, storePut, storeDel, resolve, resolveF_length] at hc ⊢
       first | exact hi h hc | (have := hi h hc; omega) | (subst hc; omega))
    | (have hd := cleanStep_cfut (by assumption); simp at hs; subst hs; simp at hc ⊢; rw [hd.1] at hc; rw [hd.2]; exact hi h hc)
    | skip)

/-- before the first `Connect` got through there is no connect future and no processor -/
def C0 (s : St) : Prop :=
  ((s.api = .cReset ∨ s.api = .cFut) → s.cfut = none ∧ s.state = .connecting ∧ s.proc = .notStarted) ∧
  (s.api = .cDial → s.state = .initialized) ∧
  (s.state = .initialized → s.cfut = none ∧ s.proc = .notStarted) ∧
  ((s.api = .cSend ∨ s.api = .cGo) → s.proc = .notStarted)

theorem cleanStep_state {s s' : St} {t c l r} (h : cleanStep s t c l = some (s', r)) :
    s'.state = s.state ∨ s'.state = .disconnected := by
  unfold cleanStep at h
  split_all h
  all_goals (first
    | (simp at h; done)
    | (simp at h; obtain ⟨h1, _⟩ := h; subst h1; simp [resolve, storeClear]; done)
    | skip)

theorem c0_stepApi {fx s s' l} (hi : C0 s) (hs : stepApi fx s l = some s') : C0 s' := by
  obtain ⟨h1, h2, h3, h4⟩ := hi
  unfold stepApi at hs
  split_all hs
  all_goals (first
    | (simp at hs; done)
    | (simp at hs; subst hs; simp_all [C0, apiFail, sendLog, addFut, storePut, storeDel, resolve, CS.toNat]; done)
    | skip)
  all_goals (first
    | (simp at hs; subst hs; cases hst : s.state <;> simp_all [C0, CS.toNat, addFut]; done)
    | (have hc := cleanStep_cfut ‹_›; have hp := cleanStep_proc ‹_›; have hst := cleanStep_state ‹_›
       simp at hs; subst hs
       refine ⟨by simp, by simp, ?_, by simp⟩
       intro hi
       simp at hi
       rcases hst with hst | hst
       · rw [hst] at hi; simp [hc.1, hp, h3 hi]
       · rw [hst] at hi; simp at hi)
    | skip)

theorem dieStep_state {s s' : St} {t d l r} (h : dieStep s t d l = some (s', r)) :
    s'.state = s.state ∨ s'.state = .disconnected := by
  unfold dieStep at h
  split_all h
  all_goals (first
    | (simp at h; done)
    | (simp at h; obtain ⟨h1, _⟩ := h; subst h1; simp; done)
    | skip)
  all_goals (have hc := cleanStep_state (by assumption); simp at h; obtain ⟨h1, _⟩ := h; subst h1; exact hc)

@[simp] theorem procAfter_state (s : St) (a : DAfter) : (s.procAfter a).state = s.state := by
  cases a <;> simp [procAfter, procExit, goroutineExit, resolve] <;> split <;> simp
@[simp] theorem procErr_state (fx : Fix) (s : St) : (procErr fx s).state = s.state := by
  simp [procErr]; split <;> simp [procDie, procExit, goroutineExit]

/-- the processor never writes `initialized` -/
theorem stepProc_state_init {fx s s' l} (h : stepProc fx s l = some s') (hi : s'.state = .initialized) :
    s.state = .initialized := by
  unfold stepProc at h
  split_all h
  all_goals (first
    | (simp at h; done)
    | (simp at h; subst h; simpa [procDie, procExit, goroutineExit, sendLog, markDup, resolve, storeDel] using hi)
    | (have hd := dieStep_state (by assumption); simp at h; subst h; simp at hi
       rcases hd with hd | hd <;> simp_all; done)
    | skip)

theorem stepProc_started {fx s s' l} (h : stepProc fx s l = some s') : s.proc ≠ .notStarted := by
  intro hp; simp [stepProc, hp] at h

theorem c0_stepProc {fx s s' l} (hi : C0 s) (hs : stepProc fx s l = some s') : C0 s' := by
  obtain ⟨h1, h2, h3, h4⟩ := hi
  have hns : s.state ≠ .initialized := fun e => stepProc_started hs (h3 e).2
  have hns' : s'.state ≠ .initialized := fun e => hns (stepProc_state_init hs e)
  have hapi := stepProc_api hs
  have hcf := (stepProc_cfut hs).1
  refine ⟨?_, ?_, ?_, ?_⟩
  · intro ha; rw [hapi] at ha; exact absurd (h1 ha).2.2 (stepProc_started hs)
  · intro ha; rw [hapi] at ha; exact absurd (h2 ha) hns
  · intro e; exact absurd e hns'
  · intro ha; rw [hapi] at ha; exact absurd (h4 ha) (stepProc_started hs)

end ClientK1
