import Proofs.BrokerInv
/-
  Proofs/BrokerOld.lean — the defect repaired in `MemoryBackend.Terminate` (C13): the old code removed
  the active-client entry of the terminating client's id unconditionally.  Namespace `BrokerB4`.
-/
namespace BrokerB4
open BState

/-- `Terminate` as it was before the repair: `delete(m.activeClients, client.ID())` without checking that
    the entry still names the terminating client -/
def backendTerminateOld (s : BState) (c : ConnId) : BState :=
  let s := { s with bevents := s.bevents ++ [BEvent.terminate c] }
  let s := match s.sessOf c with
    | some b => s.setSessOf c { b with active := none }
    | none => s
  let id : ClientId := match s.conn? c with | some x => x.id | none => []
  { s with temp := Assoc.del s.temp c, activeClients := Assoc.del s.activeClients id }

/-- the situation of the witness: connection 2 presented id "a" while the old holder was stuck, `Setup`
    failed (kill timeout), 2 is closed and about to be terminated; meanwhile … the entry for "a" names the
    live connection 3 (in the shortest witness it names the stuck connection — same effect) -/
def sOld : BState :=
  { conns := [(2, { phase := .connected, alive := false, id := [97] }),
              (3, { phase := .connected, alive := true, id := [97], sref := .temp, running := true })],
    temp := [(3, { active := some 3 })],
    activeClients := [([97], 3)] }

theorem sOld_conn (c : ConnId) (x : BConn) (h : sOld.conn? c = some x) :
    (c = 2 ∧ x = { phase := .connected, alive := false, id := [97] }) ∨
    (c = 3 ∧ x = { phase := .connected, alive := true, id := [97], sref := .temp, running := true }) := by
  unfold BState.conn? sOld at h
  simp only [get_cons, get_nil] at h
  split at h
  · rename_i h2; cases h; exact Or.inl ⟨h2.symm, rfl⟩
  · split at h
    · rename_i h3; cases h; exact Or.inr ⟨h3.symm, rfl⟩
    · cases h

/-- `sOld` satisfies the invariant, connection 2 is closed and owns no session: exactly the hypotheses under
    which the repaired `backendTerminate` keeps the invariant (`InvW.terminate`) … -/
theorem sOld_inv : InvW sOld ∧ (∃ x, sOld.conn? 2 = some x ∧ x.alive = false ∧ x.zombie = false) ∧ Owns sOld 2 := by
  refine ⟨⟨?_, ?_, ?_, ?_⟩, ⟨_, rfl, rfl, rfl⟩, ?_⟩
  · intro c x h _
    rcases sOld_conn c x h with ⟨_, rfl⟩ | ⟨_, rfl⟩ <;> rfl
  · intro c x h hp
    rcases sOld_conn c x h with ⟨_, rfl⟩ | ⟨_, rfl⟩ <;> simp at hp
  · intro c x i h _ hs
    rcases sOld_conn c x h with ⟨_, rfl⟩ | ⟨_, rfl⟩ <;> simp at hs
  · intro c x h hl hs
    rcases sOld_conn c x h with ⟨_, rfl⟩ | ⟨rfl, rfl⟩
    · simp at hs
    · exact ⟨⟨_, rfl, rfl⟩, fun _ => ⟨rfl, rfl⟩⟩
  · intro x i b h hs _
    rcases sOld_conn 2 x h with ⟨_, rfl⟩ | ⟨h3, _⟩
    · simp at hs
    · cases h3

/-- … but the old `Terminate` breaks it: the active-client entry of the live connection 3 is gone, the next
    CONNECT with id "a" will not find (and not close) connection 3 -/
theorem terminateOld_breaks_invariant : ¬ InvW (backendTerminateOld sOld 2) := by
  intro h
  have h3 : (backendTerminateOld sOld 2).conn? 3 =
      some { phase := .connected, alive := true, id := [97], sref := .temp, running := true } := rfl
  have := (h.tm 3 _ h3 (Or.inl rfl) rfl).2 (by decide)
  have hac : Assoc.get (backendTerminateOld sOld 2).activeClients [97] = none := rfl
  rw [hac] at this
  cases this.1

/-- the repaired `Terminate` keeps it (instance of `InvW.terminate`) -/
theorem terminateNew_keeps_invariant : InvW (backendTerminate sOld 2) := by
  obtain ⟨hi, ⟨x, hx, ha, hz⟩, ho⟩ := sOld_inv
  exact hi.terminate hx ha hz ho

end BrokerB4
