import Proofs.ClientC09g
import Proofs.SessionFresh
/-
  Proofs/ClientAlloc.lean — the packet-id allocation of the exported methods (`Client.nextID` in
  client/client.go: `NextID`, then `LookupPacket(Outgoing, id)`, repeated while a packet is found, at
  most 65535 times).  (K3)

  * `enter_rPut`: an exported method reaches `Put` with an id it needs only through the lookup that
    found no stored packet under that id;
  * `apiReq_step`: from `Put` on the call keeps its `(request, id)` until it returns;
  * `alloc_run`: left alone with a working session the loop computes `MemorySession.freshID`
    (Model/Session.lean, the function the broker model uses), so the facts of Proofs/SessionFresh
    carry over — in particular `ErrPacketIDsExhausted` needs 65535 stored packets.
-/
set_option linter.unusedSimpArgs false
set_option linter.unusedVariables false
open Cl Cl.St
namespace ClientK3
open ClientK1

/-- the steps of the other threads leave the program counter of the exported method alone -/
theorem step_api_of_other {fx s s' l} (h : step fx s l = some s') (ht : threadOf l ≠ some .api)
    (hn : l ≠ .newClient) : s'.api = s.api := by
  unfold step at h
  split at h
  · rename_i e; exact absurd e ht
  · exact stepProc_api h
  · exact stepPing_api h
  · rename_i e; exact absurd (threadOf_none e) hn

/-- an exported method gets to `Put` with an id ≠ 0 only through the lookup of that id in the
    outgoing store that found nothing; the lookup changes nothing -/
theorem stepApi_enter_rPut_look {fx s s' l r id} (hs : stepApi fx s l = some s') (hp : s'.api = .rPut r id)
    (hne : s.api ≠ .rPut r id) :
    s'.sess = s.sess ∧
      ((∃ n, s.api = .rLook r id n ∧ l = .sLookup .outgoing id (.found none) ∧
          s.sess.lookupPacket .outgoing id = none) ∨ (s.api = .rChk r ∧ id = 0 ∧ r.needsID = false)) := by
  unfold stepApi at hs
  split_all hs
  all_goals (first
    | (simp at hs; done)
    | (simp at hs; subst hs; simp [apiFail, sendLog, addFut, storePut, storeDel, resolve] at hp; done)
    | (simp at hs; subst hs; simp at hp; simp_all; done)
    | skip)

theorem step_enter_rPut {fx s s' l r id} (h : step fx s l = some s') (hp : s'.api = .rPut r id)
    (hne : s.api ≠ .rPut r id) :
    s'.sess = s.sess ∧
      ((∃ n, s.api = .rLook r id n ∧ l = .sLookup .outgoing id (.found none) ∧
          s.sess.lookupPacket .outgoing id = none) ∨ (s.api = .rChk r ∧ id = 0 ∧ r.needsID = false)) := by
  unfold step at h
  split at h
  · exact stepApi_enter_rPut_look h hp hne
  · rw [stepProc_api h] at hp; exact absurd hp hne
  · rw [stepPing_api h] at hp; exact absurd hp hne
  · split at h
    · simp at h; subst h; simp [renew] at hp
    · simp at h

/-- a call holds its request and id from `Put` until it returns -/
theorem stepApi_apiReq {fx s s' l r id} (hs : stepApi fx s l = some s') (hp : apiReq s'.api = some (r, id)) :
    apiReq s.api = some (r, id) ∨ s'.api = .rPut r id := by
  unfold stepApi at hs
  split_all hs
  all_goals (first
    | (simp at hs; done)
    | (simp at hs; subst hs; simp [apiReq, apiFail, sendLog, addFut, storePut, storeDel, resolve] at hp; done)
    | (simp at hs; subst hs; simp [apiReq] at hp ⊢; simp_all [apiReq]; done)
    | skip)

theorem apiReq_step {fx s s' l r id} (h : step fx s l = some s') (hp : apiReq s'.api = some (r, id)) :
    apiReq s.api = some (r, id) ∨ s'.api = .rPut r id := by
  unfold step at h
  split at h
  · exact stepApi_apiReq h hp
  · rw [stepProc_api h] at hp; exact Or.inl hp
  · rw [stepPing_api h] at hp; exact Or.inl hp
  · split at h
    · simp at h; subst h; simp [renew, apiReq] at hp
    · simp at h

/-! ### the loop computes `MemorySession.freshID` -/

/-- the labels of an undisturbed allocation with `n` iterations left: `NextID`, `LookupPacket` (which
    finds what the store holds), again while a packet was found -/
def allocLabels : Nat → MemorySession → List Label
  | 0, _ => []
  | n + 1, σ =>
    [.sNextID σ.nextID.1, .sLookup .outgoing σ.nextID.1 (.found (σ.lookupPacket .outgoing σ.nextID.1))] ++
      (if (σ.lookupPacket .outgoing σ.nextID.1).isNone then [] else allocLabels n σ.nextID.2)

theorem lookup_nextID (σ : MemorySession) (id : UInt16) :
    σ.nextID.2.lookupPacket .outgoing id = σ.lookupPacket .outgoing id := by
  simp [MemorySession.nextID, MemorySession.lookupPacket, MemorySession.store]

/-- every run of the loop that no other thread interferes with and in which no session operation
    fails ends where `freshIDAux` says: with the id it computes, or — that id being 0 — with
    `ErrPacketIDsExhausted`; the session is the one `freshIDAux` returns (only the counter moved) -/
theorem alloc_run (fx : Fix) (r : Req) : ∀ (n : Nat) (s : St), s.api = .rID r (n + 1) →
    ∃ s', run fx s (allocLabels (n + 1) s.sess) = some s' ∧
      s'.sess = (MemorySession.freshIDAux (n + 1) s.sess).2 ∧
      ((MemorySession.freshIDAux (n + 1) s.sess).1 ≠ 0 → s'.api = .rPut r (MemorySession.freshIDAux (n + 1) s.sess).1) ∧
      ((MemorySession.freshIDAux (n + 1) s.sess).1 = 0 → s'.api = .ret .errExhausted) := by
  intro n
  induction n with
  | zero =>
    intro s ha
    cases hl : s.sess.lookupPacket .outgoing s.sess.nextID.1 with
    | none =>
      refine ⟨{ s with sess := s.sess.nextID.2, api := .rPut r s.sess.nextID.1 }, ?_, ?_, ?_, ?_⟩
      · simp [allocLabels, hl, run, step, threadOf, stepApi, ha, lookup_nextID]
      · simp [MemorySession.freshIDAux, hl]
      · intro _; simp [MemorySession.freshIDAux, hl]
      · intro h0; simp [MemorySession.freshIDAux, hl] at h0; exact absurd h0 (MemorySession.nextID_fst_ne_zero _)
    | some p =>
      refine ⟨{ s with sess := s.sess.nextID.2, api := .ret .errExhausted }, ?_, ?_, ?_, ?_⟩
      · simp [allocLabels, hl, run, step, threadOf, stepApi, ha, lookup_nextID]
      · simp [MemorySession.freshIDAux, hl]
      · intro h0; simp [MemorySession.freshIDAux, hl] at h0
      · intro _; rfl
  | succ n ih =>
    intro s ha
    cases hl : s.sess.lookupPacket .outgoing s.sess.nextID.1 with
    | none =>
      refine ⟨{ s with sess := s.sess.nextID.2, api := .rPut r s.sess.nextID.1 }, ?_, ?_, ?_, ?_⟩
      · simp [allocLabels, hl, run, step, threadOf, stepApi, ha, lookup_nextID]
      · rw [MemorySession.freshIDAux]; simp [hl]
      · intro _; rw [MemorySession.freshIDAux]; simp [hl]
      · intro h0; rw [MemorySession.freshIDAux] at h0; simp [hl] at h0
        exact absurd h0 (MemorySession.nextID_fst_ne_zero _)
    | some p =>
      obtain ⟨s', hr, h1, h2, h3⟩ := ih { s with sess := s.sess.nextID.2, api := .rID r (n + 1) } rfl
      refine ⟨s', ?_, ?_, ?_, ?_⟩
      · rw [allocLabels]
        simp only [hl, Option.isNone_some, Bool.false_eq_true, if_false, List.cons_append, List.nil_append, run]
        simp [step, threadOf, stepApi, ha, lookup_nextID, hl]
        exact hr
      · rw [MemorySession.freshIDAux]; simp [hl]; exact h1
      · rw [MemorySession.freshIDAux]; simp [hl]; exact h2
      · rw [MemorySession.freshIDAux]; simp [hl]; exact h3

end ClientK3
