import Proofs.BaseConnStep
/-
  Proofs/BaseConnTrace.lean — ghost history = trace; close flushes; timer commutation; receives
  on a closed carrier (C19).
-/
namespace BaseConn
namespace Pf

/-! ### the ghost history says what the trace says -/

def okPairs (h : List SendRec) : List (Nat × Bytes) := (okPart h).map (fun r => (r.g, r.bytes))

theorem flat_okPairs (h : List SendRec) : flat (okPairs h) = bytesAll (okPart h) := by
  simp [flat, okPairs, bytesAll, List.map_map, Function.comp_def]

theorem okPairs_snoc_ok (h : List SendRec) (g : Nat) (bs : Bytes) (a : Bool) :
    okPairs (h ++ [⟨g, bs, a, .ok⟩]) = okPairs h ++ [(g, bs)] := by
  simp [okPairs, okPart_snoc_ok h (isOk_ok g bs a)]

theorem okPairs_snoc_err (h : List SendRec) {x : SendRec} (hx : isOk x = false) : okPairs (h ++ [x]) = okPairs h := by
  simp [okPairs, okPart_snoc_err h hx]

/-- what one step does to the history -/
theorem step_hist_send (C : Cfg) (s : State) (g : Nat) (bs : Bytes) (a : Bool) :
    ((step C s (.send g bs a)).2 = .ok ∧ (step C s (.send g bs a)).1.hist = s.hist ++ [⟨g, bs, a, .ok⟩])
    ∨ ((step C s (.send g bs a)).2 = .err ∧ ∃ x : SendRec, isOk x = false ∧ x.bytes = bs ∧
        (step C s (.send g bs a)).1.hist = s.hist ++ [x]) := by
  simp only [step]; unfold sendStep
  split
  · rename_i s1 h
    left; exact ⟨rfl, by simp [(mercWrite_ok h).2.2.2.2.2.2.2.2.1.hist]⟩
  · rename_i s1 h
    right
    refine ⟨rfl, _, isOk_err g bs a s.berr, rfl, ?_⟩
    simp [(closeCarrier_wsame s1).hist, (mercWrite_fail h).1.hist]

theorem step_hist_other (C : Cfg) (s : State) (e : Event) (h : ∀ g bs a, e ≠ .send g bs a) :
    (step C s e).1.hist = s.hist := by
  cases e with
  | send g bs a => exact absurd rfl (h g bs a)
  | sendInvalid g => exact (closeCarrier_wsame s).hist
  | timerFire => exact (mercTimer_spec s).2.1.hist
  | close =>
    simp only [step]; unfold closeStep closeFlush
    split; rename_i s1 ok1 h1
    split; rename_i s2 ok2 h2
    have c := (carrierClose_spec s1).2.1; rw [h2] at c
    rw [c.hist]
    cases ok1
    · exact (mercWrite_fail h1).1.hist
    · exact (mercWrite_ok h1).2.2.2.2.2.2.2.2.1.hist
  | receive => exact (recvStep_ok C s).wsame.hist
  | setReadTimeout on => exact (setReadTimeout_wsame C s on).hist
  | setDelay z => rfl
  | peerData bs => simp only [step]; split <;> rfl
  | peerClose => rfl
  | carrierFail k n => cases k <;> rfl
  | deadlineExpire => simp only [step]; split <;> rfl

theorem okSends_send_ok (g : Nat) (bs : Bytes) (a : Bool) (es : List Event) (os : List Outcome) :
    okSends (.send g bs a :: es) (.ok :: os) = (g, bs) :: okSends es os := by simp [okSends]
theorem okSends_send_err (g : Nat) (bs : Bytes) (a : Bool) (es : List Event) (os : List Outcome) :
    okSends (.send g bs a :: es) (.err :: os) = okSends es os := by simp [okSends]
theorem okSends_other (e : Event) (h : ∀ g bs a, e ≠ .send g bs a) (o : Outcome) (es : List Event) (os : List Outcome) :
    okSends (e :: es) (o :: os) = okSends es os := by
  cases e with
  | send g bs a => exact absurd rfl (h g bs a)
  | _ => simp [okSends]

theorem okPairs_run (C : Cfg) (s : State) (evs : List Event) :
    okPairs (run C s evs).1.hist = okPairs s.hist ++ okSends evs (run C s evs).2 := by
  induction evs generalizing s with
  | nil => simp [run_nil, okSends]
  | cons e es ih =>
    rw [run_cons, ih]
    by_cases hs : ∃ g bs a, e = .send g bs a
    · obtain ⟨g, bs, a, rfl⟩ := hs
      rcases step_hist_send C s g bs a with ⟨ho, hh⟩ | ⟨ho, x, hx, _, hh⟩
      · simp only [ho, hh, okSends_send_ok, okPairs_snoc_ok]; simp
      · simp only [ho, hh, okSends_send_err, okPairs_snoc_err _ hx]
    · have hs' : ∀ g bs a, e ≠ .send g bs a := fun g bs a h => hs ⟨g, bs, a, h⟩
      simp only [step_hist_other C s e hs', okSends_other e hs']

theorem hist_grows (C : Cfg) (s : State) (evs : List Event) : ∃ t, (run C s evs).1.hist = s.hist ++ t := by
  induction evs generalizing s with
  | nil => exact ⟨[], by simp [run_nil]⟩
  | cons e es ih =>
    rw [run_cons]
    obtain ⟨t, ht⟩ := ih (step C s e).1
    by_cases hs : ∃ g bs a, e = .send g bs a
    · obtain ⟨g, bs, a, rfl⟩ := hs
      rcases step_hist_send C s g bs a with ⟨_, hh⟩ | ⟨_, x, _, _, hh⟩
      · exact ⟨⟨g, bs, a, .ok⟩ :: t, by rw [ht, hh]; simp⟩
      · exact ⟨x :: t, by rw [ht, hh]; simp⟩
    · have hs' : ∀ g bs a, e ≠ .send g bs a := fun g bs a h => hs ⟨g, bs, a, h⟩
      exact ⟨t, by rw [ht, step_hist_other C s e hs']⟩

theorem firstErr_append_some {h : List SendRec} {r : SendRec} (hf : h.find? (fun r => !isOk r) = some r)
    (t : List SendRec) : firstErr (h ++ t) = firstErr h := by
  unfold firstErr; rw [List.find?_append, hf]; simp

theorem firstErrBytes_send_err (g : Nat) (bs : Bytes) (a : Bool) (es : List Event) (os : List Outcome) :
    firstErrBytes (.send g bs a :: es) (.err :: os) = bs := by simp [firstErrBytes]
theorem firstErrBytes_send_ok (g : Nat) (bs : Bytes) (a : Bool) (es : List Event) (os : List Outcome) :
    firstErrBytes (.send g bs a :: es) (.ok :: os) = firstErrBytes es os := by simp [firstErrBytes]
theorem firstErrBytes_other (e : Event) (h : ∀ g bs a, e ≠ .send g bs a) (o : Outcome) (es : List Event) (os : List Outcome) :
    firstErrBytes (e :: es) (o :: os) = firstErrBytes es os := by
  cases e with
  | send g bs a => exact absurd rfl (h g bs a)
  | _ => simp [firstErrBytes]

theorem firstErr_run (C : Cfg) (s : State) (a : AllOk s.hist) (evs : List Event) :
    firstErr (run C s evs).1.hist = firstErrBytes evs (run C s evs).2 := by
  induction evs generalizing s with
  | nil => simp [run_nil, firstErrBytes, firstErr_allOk a]
  | cons e es ih =>
    rw [run_cons]
    by_cases hs : ∃ g bs a, e = .send g bs a
    · obtain ⟨g, bs, b, rfl⟩ := hs
      rcases step_hist_send C s g bs b with ⟨ho, hh⟩ | ⟨ho, x, hx, hxb, hh⟩
      · rw [ho, firstErrBytes_send_ok]
        exact ih _ (by rw [hh]; exact AllOk_snoc a (isOk_ok g bs b))
      · rw [ho, firstErrBytes_send_err]
        obtain ⟨t, ht⟩ := hist_grows C (step C s (.send g bs b)).1 es
        rw [ht, hh]
        have hf : (s.hist ++ [x]).find? (fun r => !isOk r) = some x := by
          rw [List.find?_append]
          have : s.hist.find? (fun r => !isOk r) = none := by
            apply List.find?_eq_none.mpr; intro r hr; simp [a r hr]
          simp [this, hx]
        rw [firstErr_append_some hf, firstErr_snoc_err_allOk a hx, hxb]
    · have hs' : ∀ g bs a, e ≠ .send g bs a := fun g bs a h => hs ⟨g, bs, a, h⟩
      rw [firstErrBytes_other e hs']
      exact ih _ (by rw [step_hist_other C s e hs']; exact a)

/-! ### close flushes -/

/-- the carrier accepts the next write -/
def CanWrite (s : State) : Prop := s.closed = false ∧ s.wfailIn ≠ some 0

theorem bufFlush_working {s : State} (hb : s.berr = false) (cw : CanWrite s) : (bufFlush s).2 = true := by
  unfold bufFlush carrierWrite
  obtain ⟨hc, hw⟩ := cw
  simp only [hb, hc]
  by_cases he : s.buf = []
  · simp [he]
  · cases hwf : s.wfailIn with
    | none => simp [he, tick]
    | some k =>
      cases k with
      | zero => exact absurd hwf hw
      | succ k => simp [he, tick]

theorem closeFlush_working {C : Cfg} {s : State} (i : Inv s) (hb : s.berr = false) (cw : CanWrite s) :
    (closeFlush C s).2 = true ∧ (closeFlush C s).1.buf = [] ∧ (closeFlush C s).1.wire = s.wire ++ s.buf
      ∧ (closeFlush C s).1.closed = false ∧ (closeFlush C s).1.hist = s.hist ∧ (closeFlush C s).1.berr = false := by
  have hw : s.werr = false := by
    cases h : s.werr
    · rfl
    · have := i.werr_berr h; rw [hb] at this; simp at this
  have hok : (closeFlush C s).2 = true := by
    unfold closeFlush mercWrite
    simp only [hw, bufWriteOpt, flushIf]
    simp only [Bool.true_or, if_true]
    have := bufFlush_working hb cw
    cases h : bufFlush s with
    | mk s2 ok => rw [h] at this; simp at this; subst this; simp
  have he : closeFlush C s = ((closeFlush C s).1, true) := by rw [← hok]
  unfold closeFlush at he
  obtain ⟨m1, m2, m3, m4, m5, m6, m7, m8, m9, m10⟩ := mercWrite_ok he
  have hbuf := (m8 (Or.inl rfl)).1
  have e1 : closeFlush C s = mercWrite C s [] true := rfl
  rw [e1]
  refine ⟨by rw [← e1]; exact hok, hbuf, ?_, by rw [m9.closed]; exact cw.1, m9.hist, by rw [m3]; exact hb⟩
  have := m5; rw [hbuf] at this; simpa using this

/-! ### the timer callback commutes with the carrier close wherever it can slip in -/

theorem timer_commutes_close {s : State} (h : s.buf = [] ∨ s.berr = true) :
    mercTimer (closeCarrier s) = closeCarrier (mercTimer s) := by
  unfold mercTimer bufFlush closeCarrier carrierClose carrierWrite
  rcases h with h | h
  · by_cases hb : s.berr = true <;> by_cases hc : s.closed = true <;> by_cases hw : s.werr = true <;>
      cases ht : tick s.cfailIn with
      | mk b c => cases b <;> simp [h, hb, hc, hw, ht]
  · by_cases hc : s.closed = true <;> by_cases hw : s.werr = true <;>
      cases ht : tick s.cfailIn with
      | mk b c => cases b <;> simp [h, hc, hw, ht]

theorem timer_commutes_close_result {s : State} (h : s.buf = [] ∨ s.berr = true) :
    (carrierClose (mercTimer s)).2 = (carrierClose s).2 := by
  unfold mercTimer bufFlush carrierClose carrierWrite
  rcases h with h | h
  · by_cases hb : s.berr = true <;> by_cases hc : s.closed = true <;> by_cases hw : s.werr = true <;>
      cases ht : tick s.cfailIn with
      | mk b c => cases b <;> simp [h, hb, hc, hw, ht]
  · by_cases hc : s.closed = true <;> by_cases hw : s.werr = true <;>
      cases ht : tick s.cfailIn with
      | mk b c => cases b <;> simp [h, hc, hw, ht]

/-- after `Close`'s flush the buffer is empty or the writer has failed -/
theorem closeFlush_post {C : Cfg} {s : State} (i : Inv s) :
    (closeFlush C s).1.buf = [] ∨ (closeFlush C s).1.berr = true := by
  cases h : closeFlush C s with
  | mk s1 ok =>
    unfold closeFlush at h
    cases ok
    · right; exact (inv_mercWrite_fail i h).2.2.1
    · left; exact ((mercWrite_ok h).2.2.2.2.2.2.2.1 (Or.inl rfl)).1

/-- after a failing writer call in `Send` the writer has failed -/
theorem sendFail_post {C : Cfg} {s s1 : State} {p : Bytes} {fl : Bool} (i : Inv s)
    (h : mercWrite C s p fl = (s1, false)) : s1.berr = true := (inv_mercWrite_fail i h).2.2.1

/-! ### receives on a closed carrier -/

theorem step_rbuf_other (C : Cfg) (s : State) (e : Event) (h : e ≠ .receive) :
    (step C s e).1.rbuf = s.rbuf ∧ ∀ p, (step C s e).2 ≠ .pkt p := by
  cases e with
  | receive => exact absurd rfl h
  | send g bs a =>
    refine ⟨(sendStep_closed C s g bs a).2.2.2, fun p hp => ?_⟩
    rcases (sendStep_closed C s g bs a).2.2.1 with h | h <;> simp [step, h] at hp
  | sendInvalid g => exact ⟨closeCarrier_rbuf s, fun p hp => by simp [step] at hp⟩
  | timerFire => exact ⟨(mercTimer_spec s).2.1.rbuf, fun p hp => by simp [step] at hp⟩
  | close =>
    refine ⟨(closeStep_closed C s).2.1, fun p hp => ?_⟩
    rcases (closeStep_closed C s).2.2 with h | h <;> simp [step, h] at hp
  | setReadTimeout on =>
    refine ⟨?_, fun p hp => by simp [step] at hp⟩
    simp only [step]; unfold resetTimeout
    exact (carrierSetDeadline_spec C { s with readTimeout := on } on).2.2.1
  | setDelay z => exact ⟨rfl, fun p hp => by simp [step] at hp⟩
  | peerData bs => refine ⟨?_, fun p hp => by simp [step] at hp⟩; simp only [step]; split <;> rfl
  | peerClose => exact ⟨rfl, fun p hp => by simp [step] at hp⟩
  | carrierFail k n => cases k <;> exact ⟨rfl, fun p hp => by simp [step] at hp⟩
  | deadlineExpire => refine ⟨?_, fun p hp => by simp [step] at hp⟩; simp only [step]; split <;> rfl

/-- number of packets handed out -/
def pktCount : List Outcome → Nat
  | [] => 0
  | .pkt _ :: os => pktCount os + 1
  | _ :: os => pktCount os

theorem closed_pkt_bound {C : Cfg} (fs : FrameSound C) {s : State} (hc : s.closed = true) (evs : List Event) :
    pktCount (run C s evs).2 + (run C s evs).1.rbuf.length ≤ s.rbuf.length := by
  induction evs generalizing s with
  | nil => simp [run_nil, pktCount]
  | cons e es ih =>
    rw [run_cons]
    have ih' := ih (closed_mono (C := C) hc e)
    by_cases he : e = .receive
    · subst he
      obtain ⟨r1, r2⟩ := recvStep_rbuf fs hc
      simp only [step] at ih' ⊢
      cases ho : (recvStep C s).2 with
      | pkt p => have := r2 p ho; simp only [pktCount]; omega
      | ok => simp only [pktCount]; omega
      | err => simp only [pktCount]; omega
      | block => simp only [pktCount]; omega
    · obtain ⟨q1, q2⟩ := step_rbuf_other C s e he
      rw [q1] at ih'
      cases ho : (step C s e).2 with
      | pkt p => exact absurd ho (q2 p)
      | ok => simp only [pktCount]; omega
      | err => simp only [pktCount]; omega
      | block => simp only [pktCount]; omega

/-- every `receive` in the trace returned (did not wait), with an error when `errOnly` -/
def RecvsReturn (errOnly : Bool) : List Event → List Outcome → Prop
  | .receive :: es, o :: os => (o ≠ .block ∧ (errOnly = true → o = .err)) ∧ RecvsReturn errOnly es os
  | _ :: es, _ :: os => RecvsReturn errOnly es os
  | _, _ => True

theorem closed_recvs_return {C : Cfg} {s : State} (hc : s.closed = true) (evs : List Event) :
    RecvsReturn C.dlClosedFails evs (run C s evs).2 := by
  induction evs generalizing s with
  | nil => trivial
  | cons e es ih =>
    rw [run_cons]
    have ih' := ih (closed_mono (C := C) hc e)
    cases e with
    | receive => exact ⟨⟨(recvStep_ok C s).no_block hc, (recvStep_ok C s).closed_err hc⟩, ih'⟩
    | _ => exact ih'

end Pf
end BaseConn
