import Proofs.StreamRead
/-
  Proofs/StreamRT.lean — C03, receiving side on the byte stream: header detection on encodings,
  round trip, truncation, overflow, fuel.  Helper lemmas only.
-/
namespace StreamS1
open Framing

/-! ### varint shape and partial headers -/

theorem putUvarint_shape (n : Nat) :
    ∃ cont last, putUvarint n = cont ++ [last] ∧ (∀ b ∈ cont, 128 ≤ b.toNat) ∧ last.toNat < 128 := by
  induction n using putUvarint.induct with
  | case1 n h =>
    refine ⟨[], UInt8.ofNat n, by rw [putUvarint_lt h]; rfl, by simp, ?_⟩
    rw [u8_toNat_ofNat (by omega)]; exact h
  | case2 n h ih =>
    obtain ⟨cont, last, he, hc, hl⟩ := ih
    refine ⟨UInt8.ofNat (n % 128 + 128) :: cont, last, by rw [putUvarint_ge h, he]; rfl, ?_, hl⟩
    intro b hb
    rcases List.mem_cons.mp hb with rfl | hb
    · rw [u8_toNat_ofNat (by omega)]; omega
    · exact hc b hb

theorem uvarintAux_cont : ∀ (l : Bytes) (x s i : Nat), (∀ b ∈ l, 128 ≤ b.toNat) →
    i + l.length ≤ 9 → uvarintAux l x s i = (0, 0) := by
  intro l
  induction l with
  | nil => intros; rfl
  | cons b bs ih =>
    intro x s i hc hi
    simp only [List.length_cons] at hi
    have hb := hc b (by simp)
    unfold uvarintAux
    rw [if_neg (by omega), if_neg (by omega)]
    exact ih _ _ _ (fun b hb => hc b (by simp [hb])) (by omega)

theorem detect_cont (b0 : UInt8) (tl : Bytes) (hc : ∀ b ∈ tl, 128 ≤ b.toNat) (hl : tl.length ≤ 9) :
    detectPacket (b0 :: tl) = (0, 0) := by
  cases tl with
  | nil => rfl
  | cons a t =>
    unfold detectPacket
    have : uvarint (a :: t) = (0, 0) := uvarintAux_cont _ 0 0 0 hc (by omega)
    simp only [this]
    rfl

theorem take_succ_cons {α : Type} (n : Nat) (a : α) (l : List α) :
    (a :: l).take (n + 1) = a :: l.take n := rfl

/-- the detection loop passes over continuation bytes -/
theorem detect_loop (limit : Nat) (fin : Fin) (b0 : UInt8) : ∀ (cont pre tailS : Bytes) (f : Nat),
    (∀ b ∈ pre ++ cont, 128 ≤ b.toNat) → pre.length + cont.length ≤ 8 →
    readLoopS limit fin (cont.length + f) (pre.length + 2) (b0 :: (pre ++ cont ++ tailS))
      = readLoopS limit fin f (pre.length + cont.length + 2) (b0 :: (pre ++ cont ++ tailS)) := by
  intro cont
  induction cont with
  | nil => intro pre tailS f _ _; simp
  | cons c cont ih =>
    intro pre tailS f hc hl
    simp only [List.length_cons] at hl ⊢
    have hfu : cont.length + 1 + f = (cont.length + f) + 1 := by omega
    rw [hfu]
    conv => lhs; unfold readLoopS
    have hlen : ¬ (b0 :: (pre ++ c :: cont ++ tailS)).length < pre.length + 2 := by
      simp only [List.length_cons, List.length_append]; omega
    rw [if_neg hlen]
    have htk : (b0 :: (pre ++ c :: cont ++ tailS)).take (pre.length + 2) = b0 :: (pre ++ [c]) := by
      rw [show pre.length + 2 = (pre.length + 1) + 1 from rfl, take_succ_cons]
      congr 1
      rw [List.append_assoc, List.take_append, List.take_of_length_le (by omega)]
      simp
    rw [htk, detect_cont b0 (pre ++ [c]) (by
      intro b hb
      apply hc b
      simp at hb ⊢
      rcases hb with hb | hb <;> simp [hb]) (by simp; omega)]
    simp only [Int.le_refl, if_true]
    have := ih (pre ++ [c]) tailS f (by
      intro b hb; apply hc b
      simp at hb ⊢
      rcases hb with hb | hb | hb <;> simp [hb]) (by simp; omega)
    simp only [List.length_append, List.length_cons, List.length_nil, List.append_assoc,
      List.cons_append, List.nil_append] at this
    have e1 : pre.length + 0 + 1 + 2 = pre.length + 2 + 1 := by omega
    have e2 : pre.length + (0 + 1) + cont.length + 2 = pre.length + (cont.length + 1) + 2 := by omega
    simp only [List.append_assoc, List.cons_append]
    rw [show pre.length + 2 + 1 = pre.length + (0 + 1) + 2 by omega]
    rw [this, e2]


/-! ### one well-formed packet at the front of the stream -/

theorem code_ofCode (t : PType) : PType.ofCode? t.code = some t := by
  cases t <;> decide

theorem wire_first_byte (p : Packet) (h : p.WF = true) :
    (UInt8.ofNat (p.type.code * 16 + (p.type.defaultFlags + pflags p))).toNat / 16 = p.type.code := by
  have hc : 1 ≤ p.type.code ∧ p.type.code ≤ 14 := by cases p.type <;> simp [PType.code]
  have := pflags_lt p h
  rw [u8_toNat_ofNat (by omega)]
  omega

theorem len_eq (p : Packet) (h : p.WF = true) :
    p.len = 1 + (putUvarint p.rlen).length + p.rlen := by
  unfold Packet.len Packet.headerLen
  rw [varintLen_eq_length' p.rlen (rlen_le_of_WF p h)]

/-- `Decoder.Read` on a stream that starts with the encoding of a well-formed packet -/
theorem readS_wire (limit : Nat) (fin : Fin) (p : Packet) (h : p.WF = true) (tail : Bytes)
    (hlim : limit = 0 ∨ p.len ≤ limit) :
    readS limit fin (wire p ++ tail) = (.pkt p.norm, tail) := by
  have hrl := rlen_le_of_WF p h
  obtain ⟨cont, last, hput, hcont, hlast⟩ := putUvarint_shape p.rlen
  have hvl := varintLen_eq_length' p.rlen hrl
  have hv4 := varintLen_le4 p.rlen
  have hcl : cont.length + 1 = (putUvarint p.rlen).length := by rw [hput]; simp
  have hlen := len_eq p h
  have hwl := wire_length p h
  generalize hb0 : UInt8.ofNat (p.type.code * 16 + (p.type.defaultFlags + pflags p)) = b0
  have hs : wire p ++ tail = b0 :: (([] : Bytes) ++ cont ++ (last :: (mbody p ++ tail))) := by
    simp [wire, hdr, hput, hb0]
  have hw : wire p = b0 :: putUvarint p.rlen ++ mbody p := by simp [wire, hdr, hb0]
  unfold readS
  rw [hs, show (4 : Nat) = cont.length + (4 - cont.length) by omega,
    show (2 : Nat) = ([] : Bytes).length + 2 from rfl,
    detect_loop limit fin b0 cont [] _ _ (by simpa using hcont) (by simp; omega)]
  rw [← hs, show 4 - cont.length = (3 - cont.length) + 1 by omega]
  unfold readLoopS
  have hge : ¬ (wire p ++ tail).length < ([] : Bytes).length + cont.length + 2 := by
    rw [List.length_append, hwl, hlen]; simp; omega
  rw [if_neg hge]
  have htk : (wire p ++ tail).take (([] : Bytes).length + cont.length + 2) = b0 :: putUvarint p.rlen := by
    rw [hw]
    simp only [List.length_nil, Nat.zero_add, List.cons_append, List.append_assoc]
    rw [show cont.length + 2 = (putUvarint p.rlen).length + 1 by omega, take_succ_cons]
    congr 1
    exact List.take_left' rfl
  have hrv : readVarint (putUvarint p.rlen) = .ok p.rlen [] := by
    have := readVarint_put p.rlen hrl []
    simpa using this
  have hdet := detect_eq_header' b0 (putUvarint p.rlen) p.rlen [] hrv
  simp only [List.length_nil, Nat.sub_zero] at hdet
  rw [htk, hdet]
  simp only []
  rw [← hlen]
  have hpos : ¬ ((p.len : Nat) : Int) ≤ 0 := by
    have : 0 < p.len := by omega
    omega
  rw [if_neg hpos]
  have hl2 : ¬ (limit > 0 ∧ ((p.len : Nat) : Int) > (limit : Int)) := by
    rcases hlim with h0 | hle
    · omega
    · omega
  rw [if_neg hl2]
  have hty : b0.toNat / 16 = p.type.code := by rw [← hb0]; exact wire_first_byte p h
  rw [hty, code_ofCode]
  simp only [Int.toNat_natCast]
  have hle : p.len ≤ (wire p ++ tail).length := by rw [List.length_append, hwl]; omega
  rw [if_pos hle]
  have ht : (wire p ++ tail).take p.len = wire p := List.take_left' hwl
  have hd : (wire p ++ tail).drop p.len = tail := List.drop_left' hwl
  rw [ht, hd]
  unfold decodeRes
  have := decode_wire p h []
  rw [List.append_nil] at this
  rw [this]


/-! ### what a successful read consumes; truncation -/

theorem finErr_ne_pkt (fin : Fin) (s : Bytes) (p : Packet) : finErr fin s ≠ .pkt p := by
  unfold finErr
  cases fin
  · simp only []; split <;> simp
  · simp

theorem readLoopS_pkt (limit : Nat) (fin : Fin) : ∀ (fuel dl : Nat) (s s' : Bytes) (p : Packet),
    readLoopS limit fin fuel dl s = (.pkt p, s') →
    ∃ k, 0 < k ∧ k ≤ s.length ∧ s' = s.drop k := by
  intro fuel
  induction fuel with
  | zero => intro dl s s' p h; simp [readLoopS] at h
  | succ fuel ih =>
    intro dl s s' p h
    unfold readLoopS at h
    split at h
    · exact absurd (Prod.mk.inj h).1 (finErr_ne_pkt _ _ _)
    · rcases hd : detectPacket (s.take dl) with ⟨pl, pt⟩
      rw [hd] at h
      simp only [] at h
      split at h
      · exact ih _ _ _ _ h
      · rename_i hpos
        split at h
        · cases h
        · split at h
          · cases h
          · split at h
            · rename_i hle
              exact ⟨pl.toNat, by omega, hle, (Prod.mk.inj h).2.symm⟩
            · exact absurd (Prod.mk.inj h).1 (finErr_ne_pkt _ _ _)

/-- if the next read of `full` returns a packet having consumed `k` bytes, then every stream that
    stops after `m < k` of those bytes (`m > 0`) makes the read fail with the end-of-stream error -/
theorem readLoopS_prefix (limit : Nat) (fin : Fin) : ∀ (fuel dl : Nat) (full s' : Bytes) (p : Packet)
    (m : Nat), readLoopS limit fin fuel dl full = (.pkt p, s') → m < full.length - s'.length →
    (readLoopS limit fin fuel dl (full.take m)).1 = finErr fin (full.take m) := by
  intro fuel
  induction fuel with
  | zero => intro dl full s' p m h; simp [readLoopS] at h
  | succ fuel ih =>
    intro dl full s' p m h hm
    unfold readLoopS at h
    split at h
    · exact absurd (Prod.mk.inj h).1 (finErr_ne_pkt _ _ _)
    · rename_i hlen
      have hml : m ≤ full.length := by omega
      have htl : (full.take m).length = m := by rw [List.length_take]; omega
      conv => lhs; unfold readLoopS
      by_cases hmd : m < dl
      · rw [if_pos (by rw [htl]; exact hmd)]
      · rw [if_neg (by rw [htl]; exact hmd)]
        have htt : (full.take m).take dl = full.take dl := by
          rw [List.take_take, Nat.min_eq_left (by omega)]
        rw [htt]
        rcases hd : detectPacket (full.take dl) with ⟨pl, pt⟩
        rw [hd] at h
        try simp only [] at h
        try simp only []
        split at h
        · rename_i h0
          rw [if_pos h0]
          exact ih _ _ _ _ _ h hm
        · rename_i h0
          rw [if_neg h0]
          split at h
          · cases h
          · rename_i hlim
            rw [if_neg hlim]
            split at h
            · cases h
            · rename_i t ht
              split at h
              · have h2 := (Prod.mk.inj h).2
                subst h2
                rw [List.length_drop] at hm
                rw [if_neg (by rw [htl]; omega)]
              · exact absurd (Prod.mk.inj h).1 (finErr_ne_pkt _ _ _)

/-! ### reading a whole list of packets -/

theorem readS_nil (limit : Nat) : readS limit .eof [] = (.err .eof, []) := by
  simp [readS, readLoopS, finErr]

theorem readAllS_succ (limit : Nat) (fin : Fin) (fuel : Nat) (s : Bytes) :
    readAllS limit fin (fuel + 1) s =
      (match readS limit fin s with
       | (.err e, _) => ([], e)
       | (.pkt p, s') =>
         match readAllS limit fin fuel s' with
         | (ps, e) => (p :: ps, e)) := rfl

theorem readAllS_wires (limit : Nat) (fin : Fin) : ∀ (ps : List Packet) (tail : Bytes) (f : Nat),
    (∀ p ∈ ps, p.WF = true ∧ (limit = 0 ∨ p.len ≤ limit)) →
    readAllS limit fin (ps.length + f) (ps.flatMap wire ++ tail)
      = (ps.map Packet.norm ++ (readAllS limit fin f tail).1, (readAllS limit fin f tail).2) := by
  intro ps
  induction ps with
  | nil => intro tail f _; simp
  | cons p ps ih =>
    intro tail f hall
    have hp := hall p (by simp)
    simp only [List.length_cons, List.flatMap_cons, List.append_assoc, List.map_cons]
    rw [show ps.length + 1 + f = (ps.length + f) + 1 by omega]
    rw [readAllS_succ, readS_wire limit fin p hp.1 _ hp.2]
    simp only []
    rw [ih tail f (fun q hq => hall q (by simp [hq]))]
    rfl

theorem wire_length_ge2 (p : Packet) (h : p.WF = true) : 2 ≤ (wire p).length := by
  rw [wire_length p h, len_eq p h]
  have := putUvarint_length_pos p.rlen
  omega

theorem flatMap_wire_length (ps : List Packet) (h : ∀ p ∈ ps, p.WF = true) :
    ps.length ≤ (ps.flatMap wire).length := by
  induction ps with
  | nil => simp
  | cons p ps ih =>
    have := wire_length_ge2 p (h p (by simp))
    have := ih (fun q hq => h q (by simp [hq]))
    simp only [List.flatMap_cons, List.length_append, List.length_cons]
    omega


/-! ### errors that never come out; fuel -/

theorem finErr_ok (fin : Fin) (s : Bytes) :
    finErr fin s = .err .eof ∨ finErr fin s = .err .unexpectedEOF ∨ finErr fin s = .err .ioErr := by
  unfold finErr
  cases fin
  · simp only []; split <;> simp
  · simp

theorem decodeRes_ok (t : PType) (b : Bytes) :
    decodeRes t b ≠ .err .panic ∧ decodeRes t b ≠ .err .noFuel := by
  unfold decodeRes
  have := NoPanic.decode t b
  cases hd : decode t b with
  | ok p r => simp
  | err e r =>
    cases e with
    | err => simp
    | panic => rw [hd] at this; simp [R.isPanic] at this

theorem readLoopS_err (limit : Nat) (fin : Fin) : ∀ (fuel dl : Nat) (s : Bytes),
    (readLoopS limit fin fuel dl s).1 ≠ .err .panic ∧ (readLoopS limit fin fuel dl s).1 ≠ .err .noFuel := by
  intro fuel
  induction fuel with
  | zero => intro dl s; simp [readLoopS]
  | succ fuel ih =>
    intro dl s
    unfold readLoopS
    have hf := finErr_ok fin s
    split
    · rcases hf with h | h | h <;> simp [h]
    · rcases detectPacket (s.take dl) with ⟨pl, pt⟩
      simp only []
      split
      · exact ih _ _
      · split
        · simp
        · split
          · simp
          · split
            · exact decodeRes_ok _ _
            · rcases hf with h | h | h <;> simp [h]

theorem readAllS_fuel (limit : Nat) (fin : Fin) : ∀ (fuel : Nat) (s : Bytes), s.length < fuel →
    (readAllS limit fin fuel s).2 ≠ .noFuel ∧ (readAllS limit fin fuel s).2 ≠ .panic := by
  intro fuel
  induction fuel with
  | zero => intro s h; omega
  | succ fuel ih =>
    intro s hs
    rw [readAllS_succ]
    rcases hr : readS limit fin s with ⟨res, s'⟩
    cases res with
    | err e =>
      have := readLoopS_err limit fin 4 2 s
      unfold readS at hr
      rw [hr] at this
      simp only [] at this ⊢
      exact ⟨fun h => this.2 (by rw [h]), fun h => this.1 (by rw [h])⟩
    | pkt p =>
      obtain ⟨k, hk, hkl, he⟩ := readLoopS_pkt limit fin 4 2 s s' p hr
      have hl : s'.length < fuel := by rw [he, List.length_drop]; omega
      exact ih s' hl

/-! ### detection overflow -/

theorem rv_cont (xl : UInt8) (rest : Bytes) (hx : xl.toNat < 128) : ∀ (cont : Bytes) (k mult acc : Nat),
    (∀ b ∈ cont, 128 ≤ b.toNat) →
    ∃ v, rv (cont.length + 1 + k) mult acc (cont ++ xl :: rest) = some (v, rest) := by
  intro cont
  induction cont with
  | nil =>
    intro k mult acc _
    refine ⟨acc + xl.toNat * mult, ?_⟩
    simp only [List.length_nil, List.nil_append]
    rw [show 0 + 1 + k = k + 1 by omega]
    simp [rv, hx]
  | cons c cont ih =>
    intro k mult acc hc
    have hcb := hc c (by simp)
    obtain ⟨v, hv⟩ := ih k (mult * 128) (acc + c.toNat % 128 * mult) (fun b hb => hc b (by simp [hb]))
    refine ⟨v, ?_⟩
    simp only [List.length_cons, List.cons_append]
    rw [show cont.length + 1 + 1 + k = (cont.length + 1 + k) + 1 by omega]
    simp only [rv]
    rw [if_neg (by omega)]
    exact hv

/-- a header whose last byte ends the varint is decided -/
theorem detect_pos (b0 xl : UInt8) (cont : Bytes) (hc : ∀ b ∈ cont, 128 ≤ b.toNat)
    (hx : xl.toNat < 128) (hl : cont.length ≤ 3) :
    0 < (detectPacket (b0 :: (cont ++ [xl]))).1 := by
  obtain ⟨v, hv⟩ := rv_cont xl [] hx cont (3 - cont.length) 1 0 hc
  rw [show cont.length + 1 + (3 - cont.length) = 4 by omega] at hv
  have hrv : readVarint (cont ++ [xl]) = .ok v [] := readVarint_ok_iff.mpr hv
  rw [detect_eq_header' b0 _ v [] hrv]
  simp only []
  omega

theorem readLoopS_overflow (limit : Nat) (fin : Fin) : ∀ (fuel dl : Nat) (s : Bytes),
    (readLoopS limit fin fuel dl s).1 = .err .detectionOverflow →
    (fuel = 0 ∨ dl + fuel ≤ s.length + 1) ∧
      ∀ k, dl ≤ k → k < dl + fuel → (detectPacket (s.take k)).1 ≤ 0 := by
  intro fuel
  induction fuel with
  | zero => intro dl s _; exact ⟨Or.inl rfl, fun k h1 h2 => by omega⟩
  | succ fuel ih =>
    intro dl s h
    unfold readLoopS at h
    have hf := finErr_ok fin s
    split at h
    · rcases hf with h' | h' | h' <;> rw [h'] at h <;> cases h
    · rename_i hlen
      rcases hd : detectPacket (s.take dl) with ⟨pl, pt⟩
      rw [hd] at h
      simp only [] at h
      split at h
      · rename_i h0
        obtain ⟨h1, h2⟩ := ih _ _ h
        refine ⟨Or.inr (by omega), fun k hk1 hk2 => ?_⟩
        by_cases hk : k = dl
        · subst hk; rw [hd]; exact h0
        · exact h2 k (by omega) (by omega)
      · split at h
        · cases h
        · split at h
          · cases h
          · split at h
            · simp only [] at h
              rename_i t _ _
              have := decodeRes_ok t (s.take pl.toNat)
              unfold decodeRes at h this
              cases hdec : decode t (s.take pl.toNat) with
              | ok p r => rw [hdec] at h; cases h
              | err e r => rw [hdec] at h; cases e <;> cases h
            · simp only [] at h
              rcases hf with h' | h' | h' <;> rw [h'] at h <;> cases h


theorem readS_overflow_iff (limit : Nat) (fin : Fin) (s : Bytes) :
    (readS limit fin s).1 = .err .detectionOverflow ↔
      ∃ b0 v1 v2 v3 v4 rest, s = b0 :: v1 :: v2 :: v3 :: v4 :: rest ∧
        128 ≤ v1.toNat ∧ 128 ≤ v2.toNat ∧ 128 ≤ v3.toNat ∧ 128 ≤ v4.toNat := by
  constructor
  · intro h
    obtain ⟨hl, hd⟩ := readLoopS_overflow limit fin 4 2 s h
    have hl5 : 5 ≤ s.length := by omega
    match s, hl5 with
    | b0 :: v1 :: v2 :: v3 :: v4 :: rest, _ =>
      have d2 := hd 2 (by omega) (by omega)
      have d3 := hd 3 (by omega) (by omega)
      have d4 := hd 4 (by omega) (by omega)
      have d5 := hd 5 (by omega) (by omega)
      simp only [List.take_succ_cons, List.take_zero] at d2 d3 d4 d5
      have h1 : 128 ≤ v1.toNat := by
        by_cases hc : v1.toNat < 128
        · have := detect_pos b0 v1 [] (by simp) hc (by simp)
          simp only [List.nil_append] at this
          omega
        · omega
      have h2 : 128 ≤ v2.toNat := by
        by_cases hc : v2.toNat < 128
        · have := detect_pos b0 v2 [v1] (by simpa using h1) hc (by simp)
          simp only [List.cons_append, List.nil_append] at this
          omega
        · omega
      have h3 : 128 ≤ v3.toNat := by
        by_cases hc : v3.toNat < 128
        · have := detect_pos b0 v3 [v1, v2] (by simp; exact ⟨h1, h2⟩) hc (by simp)
          simp only [List.cons_append, List.nil_append] at this
          omega
        · omega
      have h4 : 128 ≤ v4.toNat := by
        by_cases hc : v4.toNat < 128
        · have := detect_pos b0 v4 [v1, v2, v3] (by simp; exact ⟨h1, h2, h3⟩) hc (by simp)
          simp only [List.cons_append, List.nil_append] at this
          omega
        · omega
      exact ⟨b0, v1, v2, v3, v4, rest, rfl, h1, h2, h3, h4⟩
  · rintro ⟨b0, v1, v2, v3, v4, rest, rfl, h1, h2, h3, h4⟩
    have := detect_loop limit fin b0 [v1, v2, v3, v4] [] rest 0 (by simp; exact ⟨h1, h2, h3, h4⟩) (by simp)
    simp only [List.length_cons, List.length_nil, List.nil_append, List.cons_append] at this
    unfold readS
    rw [show (4 : Nat) = 0 + 1 + 1 + 1 + 1 + 0 from rfl, show (2 : Nat) = 0 + 2 from rfl, this]
    rfl

/-! ### the read limit is applied to the detected length, before anything else -/

theorem readS_detected (limit : Nat) (fin : Fin) (b0 : UInt8) (rl : Nat) (hrl : rl ≤ maxVarint)
    (rest : Bytes) :
    readS limit fin (b0 :: (putUvarint rl ++ rest)) =
      (let s := b0 :: (putUvarint rl ++ rest)
       let pl := 1 + (putUvarint rl).length + rl
       if limit > 0 ∧ pl > limit then (.err .readLimit, s)
       else match PType.ofCode? (b0.toNat / 16) with
         | none => (.err .invalidType, s)
         | some t =>
           if pl ≤ s.length then (decodeRes t (s.take pl), s.drop pl) else (finErr fin s, [])) := by
  obtain ⟨cont, last, hput, hcont, hlast⟩ := putUvarint_shape rl
  have hvl := varintLen_eq_length' rl hrl
  have hv4 := varintLen_le4 rl
  have hcl : cont.length + 1 = (putUvarint rl).length := by rw [hput]; simp
  have hs : b0 :: (putUvarint rl ++ rest) = b0 :: (([] : Bytes) ++ cont ++ (last :: rest)) := by
    simp [hput]
  simp only []
  generalize hS : b0 :: (putUvarint rl ++ rest) = S at hs ⊢
  have hSl : S.length = 1 + (putUvarint rl).length + rest.length := by
    rw [← hS]; simp; omega
  unfold readS
  rw [hs, show (4 : Nat) = cont.length + (4 - cont.length) by omega,
    show (2 : Nat) = ([] : Bytes).length + 2 from rfl,
    detect_loop limit fin b0 cont [] _ _ (by simpa using hcont) (by simp; omega)]
  rw [← hs, show 4 - cont.length = (3 - cont.length) + 1 by omega]
  unfold readLoopS
  have hge : ¬ S.length < ([] : Bytes).length + cont.length + 2 := by
    rw [hSl]; simp; omega
  rw [if_neg hge]
  have htk : S.take (([] : Bytes).length + cont.length + 2) = b0 :: putUvarint rl := by
    rw [← hS]
    simp only [List.length_nil, Nat.zero_add]
    rw [show cont.length + 2 = (putUvarint rl).length + 1 by omega, take_succ_cons]
    congr 1
    exact List.take_left' rfl
  have hrv : readVarint (putUvarint rl) = .ok rl [] := by
    have := readVarint_put rl hrl []
    simpa using this
  have hdet := detect_eq_header' b0 (putUvarint rl) rl [] hrv
  simp only [List.length_nil, Nat.sub_zero] at hdet
  rw [htk, hdet]
  simp only []
  have hpos : ¬ (((1 + (putUvarint rl).length + rl : Nat)) : Int) ≤ 0 := by omega
  rw [if_neg hpos]
  simp only [Int.toNat_natCast]
  by_cases hlim : limit > 0 ∧ 1 + (putUvarint rl).length + rl > limit
  · rw [if_pos hlim, if_pos (by omega)]
  · rw [if_neg hlim, if_neg (by omega)]
    rfl

/-! ### the reader after a refused packet -/

theorem pullAux_nil (n : Nat) (df : Bool) (buf : Bytes) (pend : Bool) :
    pullAux n df buf pend [] =
      if buf.length < n ∧ pend = false then (buf, true, []) else (buf, pend, []) := by
  rw [pullAux]

theorem pullAux_cons (n : Nat) (df : Bool) (buf : Bytes) (pend : Bool) (c : Bytes) (cs : List Bytes) :
    pullAux n df buf pend (c :: cs) =
      if buf.length < n ∧ pend = false then pullAux n df (buf ++ c) (cs.isEmpty && df) cs
      else (buf, pend, c :: cs) := by
  rw [pullAux]

theorem pullAux_pullAux (df : Bool) (n m : Nat) (hnm : n ≤ m) : ∀ (chunks : List Bytes) (buf : Bytes)
    (pend : Bool),
    (match pullAux n df buf pend chunks with
     | (b, p, cs) => pullAux m df b p cs) = pullAux m df buf pend chunks := by
  intro chunks
  induction chunks with
  | nil =>
    intro buf pend
    rw [pullAux_nil n]
    by_cases hc : buf.length < n ∧ pend = false
    · have hc' : buf.length < m ∧ pend = false := ⟨by omega, hc.2⟩
      rw [if_pos hc]
      simp only []
      rw [pullAux_nil m, pullAux_nil m, if_pos hc']
      simp
    · rw [if_neg hc]
  | cons c cs ih =>
    intro buf pend
    rw [pullAux_cons n]
    by_cases hc : buf.length < n ∧ pend = false
    · have hc' : buf.length < m ∧ pend = false := ⟨by omega, hc.2⟩
      rw [if_pos hc, pullAux_cons m _ buf, if_pos hc']
      exact ih _ _
    · rw [if_neg hc]

theorem pull_pull (n m : Nat) (hnm : n ≤ m) (r : Reader) : (r.pull n).pull m = r.pull m := by
  have := pullAux_pullAux r.dataFin n m hnm r.chunks r.buf r.pend
  unfold Reader.pull
  rcases h1 : pullAux n r.dataFin r.buf r.pend r.chunks with ⟨b, p, cs⟩
  rw [h1] at this
  simp only [] at this ⊢
  rw [this]

/-- what `pull n` takes from the underlying reader: whole chunks `pulled`, each one requested only
    while fewer than `n` bytes were buffered -/
theorem pullAux_pulled (n : Nat) (df : Bool) : ∀ (chunks : List Bytes) (buf : Bytes) (pend : Bool),
    ∃ pulled, chunks = pulled ++ (pullAux n df buf pend chunks).2.2 ∧
      (pullAux n df buf pend chunks).1 = buf ++ pulled.flatten ∧
      ∀ pre last, pulled = pre ++ [last] → (buf ++ pre.flatten).length < n := by
  intro chunks
  induction chunks with
  | nil =>
    intro buf pend
    refine ⟨[], ?_, ?_, ?_⟩
    · rw [pullAux_nil]; split <;> rfl
    · rw [pullAux_nil]; split <;> simp
    · intro pre last h; simp at h
  | cons c cs ih =>
    intro buf pend
    rw [pullAux_cons]
    by_cases hc : buf.length < n ∧ pend = false
    · rw [if_pos hc]
      obtain ⟨pulled, h1, h2, h3⟩ := ih (buf ++ c) (cs.isEmpty && df)
      refine ⟨c :: pulled, by rw [List.cons_append, ← h1], by rw [h2]; simp, ?_⟩
      intro pre last hp
      cases pre with
      | nil => simpa using hc.1
      | cons a pre' =>
        simp only [List.cons_append, List.cons.injEq] at hp
        obtain ⟨rfl, hp⟩ := hp
        have := h3 pre' last hp
        simpa [List.append_assoc] using this
    · rw [if_neg hc]
      exact ⟨[], rfl, by simp, fun pre last h => by simp at h⟩

theorem pull_minimal (n : Nat) (r : Reader) :
    ∃ pulled, r.chunks = pulled ++ (r.pull n).chunks ∧ (r.pull n).buf = r.buf ++ pulled.flatten ∧
      ∀ pre last, pulled = pre ++ [last] → (r.buf ++ pre.flatten).length < n := by
  obtain ⟨pulled, h1, h2, h3⟩ := pullAux_pulled n r.dataFin r.chunks r.buf r.pend
  refine ⟨pulled, ?_, ?_, h3⟩
  · unfold Reader.pull; exact h1
  · unfold Reader.pull; exact h2

theorem peek_ok_state (n : Nat) (r : Reader) (hdr : Bytes) (r' : Reader)
    (h : r.peek n = (hdr, false, r')) : r' = r.pull n := by
  unfold Reader.peek at h
  simp only [] at h
  split at h
  · cases h
  · cases h; rfl

/-- when `Decoder.Read` answers ErrReadLimitExceeded the reader is exactly what a `Peek(k)` with
    `k ≤ 5` leaves: nothing but the fills needed for `k` bytes has happened -/
theorem readLoop_limit_state (limit : Nat) : ∀ (fuel dl : Nat) (r r' : Reader),
    readLoop limit fuel dl r = (.err .readLimit, r') →
    ∃ k, dl ≤ k ∧ k < dl + fuel ∧ r' = r.pull k := by
  intro fuel
  induction fuel with
  | zero => intro dl r r' h; simp [readLoop] at h
  | succ fuel ih =>
    intro dl r r' h
    unfold readLoop at h
    rcases hp : r.peek dl with ⟨hdr, e, r1⟩
    rw [hp] at h
    cases e with
    | true =>
      simp only [] at h
      have := (Prod.mk.inj h).1
      split at this
      · split at this <;> cases this
      · cases this
    | false =>
      have hr1 := peek_ok_state dl r hdr r1 hp
      simp only [] at h
      rcases hd : detectPacket hdr with ⟨pl, pt⟩
      rw [hd] at h
      simp only [] at h
      split at h
      · obtain ⟨k, hk1, hk2, hk3⟩ := ih _ _ _ h
        refine ⟨k, by omega, by omega, ?_⟩
        rw [hk3, hr1, pull_pull dl k (by omega)]
      · split at h
        · have := (Prod.mk.inj h).2
          exact ⟨dl, Nat.le_refl _, by omega, by rw [← this, hr1]⟩
        · split at h
          · cases h
          · rcases hrf : r1.readFull pl.toNat with ⟨res, r2⟩
            rw [hrf] at h
            cases res with
            | ok body =>
              simp only [] at h
              have := (Prod.mk.inj h).1
              cases hdec : decode _ body with
              | ok p rr => rw [hdec] at this; cases this
              | err e rr => rw [hdec] at this; cases e <;> cases this
            | eof => cases h
            | unexpectedEOF => cases h
            | other => cases h

end StreamS1
