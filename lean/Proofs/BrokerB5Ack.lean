import Proofs.BrokerIso
import Proofs.BrokerClean
import Proofs.BrokerB1
import Proofs.BrokerOnce
/-
  Proofs/BrokerB5Ack.lean — what the broker queues for sending, over whole histories (C20, global
  form): a connection gets at most one CONNACK appended to its output queues, and nothing at all
  is queued (or parked as a deferred acknowledgement) for a connection before its CONNECT has been
  accepted, except the one CONNACK(5) of a refused authentication.

  `Tr s s'`   a stretch of execution without CONNECT processing: every connection record only gets
              packets appended that are no CONNACK (none at all while it waits for its CONNECT), no
              record falls back to / leaves `connecting`, no closed connection comes back;
              the stored outgoing packet stores stay free of CONNACKs; deferred acknowledgements are
              only added for accepted connections.
  `Tr1 c s s'` the processing of one CONNECT on connection `c`.
  Namespace `BrokerB5`.  `RAll`, `RMem`, the `Assoc` lemmas: `BrokerB4` (Proofs/BrokerLife);
  `Succ`, `KillFrame`, `PubFrame`, `OutClean`, `isConnack`: `BrokerB2` (Proofs/BrokerProc, BrokerClean).
-/
namespace BrokerB5
open BState BrokerB4

abbrev isConnack : Packet → Bool := BrokerB2.isConnack

/-- no CONNACK in the list -/
def NoCk (l : List Packet) : Prop := ∀ q ∈ l, isConnack q = false

theorem NoCk.nil : NoCk [] := fun _ h => by cases h
theorem NoCk.append {l1 l2 : List Packet} (h1 : NoCk l1) (h2 : NoCk l2) : NoCk (l1 ++ l2) := by
  intro q hq
  rcases List.mem_append.1 hq with h | h
  · exact h1 q h
  · exact h2 q h
theorem NoCk.single {p : Packet} (h : isConnack p = false) : NoCk [p] := by
  intro q hq; simp only [List.mem_singleton] at hq; rw [hq]; exact h
theorem NoCk.countP {l : List Packet} (h : NoCk l) : l.countP isConnack = 0 := by
  rw [List.countP_eq_zero]; intro q hq; simp [h q hq]

/-- `Succ` (B2) and `RMem` (B4) say the same -/
theorem succ_of_rmem {r : Res} {t : BState} (h : RMem t r) : BrokerB2.Succ r t := by
  cases r with
  | ok ss => exact ⟨ss, rfl, h⟩
  | unsupported w => exact h.elim

theorem rmem_of_succ {r : Res} {t : BState} (h : BrokerB2.Succ r t) : RMem t r := by
  obtain ⟨ss, rfl, hm⟩ := h; exact hm

/-! ### how one connection record may change without CONNECT processing -/

structure RecStep (x x' : BConn) : Prop where
  phase : x'.phase = .connecting ↔ x.phase = .connecting
  alive : x'.alive = true → x.alive = true
  outs : ∃ lp la, x'.procOut = x.procOut ++ lp ∧ x'.ackOut = x.ackOut ++ la ∧ NoCk lp ∧ NoCk la ∧
      (x.phase = .connecting → lp = [] ∧ la = [])

theorem RecStep.refl (x : BConn) : RecStep x x :=
  ⟨Iff.rfl, fun h => h, [], [], by simp, by simp, NoCk.nil, NoCk.nil, fun _ => ⟨rfl, rfl⟩⟩

theorem RecStep.trans {a b c : BConn} (h1 : RecStep a b) (h2 : RecStep b c) : RecStep a c := by
  obtain ⟨lp1, la1, e1, f1, n1, m1, z1⟩ := h1.outs
  obtain ⟨lp2, la2, e2, f2, n2, m2, z2⟩ := h2.outs
  refine ⟨h2.phase.trans h1.phase, fun h => h1.alive (h2.alive h), lp1 ++ lp2, la1 ++ la2,
    by rw [e2, e1, List.append_assoc], by rw [f2, f1, List.append_assoc], n1.append n2, m1.append m2, ?_⟩
  intro hp
  obtain ⟨a1, a2⟩ := z1 hp
  obtain ⟨b1, b2⟩ := z2 (h1.phase.2 hp)
  simp [a1, a2, b1, b2]

/-- a change of fields other than the two output queues -/
theorem RecStep.of_fields {x x' : BConn} (hp : x'.phase = x.phase) (ha : x'.alive = true → x.alive = true)
    (h1 : x'.procOut = x.procOut) (h2 : x'.ackOut = x.ackOut) : RecStep x x' :=
  ⟨by rw [hp], ha, [], [], by simp [h1], by simp [h2], NoCk.nil, NoCk.nil, fun _ => ⟨rfl, rfl⟩⟩

/-- an accepted connection may leave `connected` for `disconnected` -/
theorem RecStep.of_past {x x' : BConn} (hp : x.phase ≠ .connecting) (hp' : x'.phase ≠ .connecting)
    (ha : x'.alive = true → x.alive = true) {lp la : List Packet} (h1 : x'.procOut = x.procOut ++ lp)
    (h2 : x'.ackOut = x.ackOut ++ la) (n1 : NoCk lp) (n2 : NoCk la) : RecStep x x' :=
  ⟨⟨fun h => absurd h hp', fun h => absurd h hp⟩, ha, lp, la, h1, h2, n1, n2, fun h => absurd h hp⟩

/-! ### the relation between the states before and after a stretch without CONNECT processing -/

/-- the deferred acknowledgements in `l` are no CONNACKs and belong to connections past CONNECT -/
def AcksOK (s : BState) (l : List PendingAck) : Prop :=
  ∀ a ∈ l, isConnack a.pkt = false ∧ ∃ x, s.conn? a.conn = some x ∧ x.phase ≠ .connecting

structure Tr (s s' : BState) : Prop where
  conns : ∀ e, ORel RecStep (s.conn? e) (s'.conn? e)
  clean : BrokerB2.OutClean s → BrokerB2.OutClean s'
  pend : ∃ l, s'.pendingAcks = s.pendingAcks ++ l ∧ AcksOK s' l

theorem orel_recStep_refl (o : Option BConn) : ORel RecStep o o := ORel.refl RecStep.refl o

theorem Tr.refl (s : BState) : Tr s s :=
  ⟨fun _ => orel_recStep_refl _, fun h => h, [], by simp, fun _ h => by cases h⟩

theorem AcksOK.mono {s s' : BState} {l : List PendingAck} (h : AcksOK s l)
    (hc : ∀ e, ORel RecStep (s.conn? e) (s'.conn? e)) : AcksOK s' l := by
  intro a ha
  obtain ⟨h1, x, hx, hp⟩ := h a ha
  have := hc a.conn
  rw [hx] at this
  obtain ⟨x', hx', hr⟩ := this.some_left
  exact ⟨h1, x', hx', fun h => hp (hr.phase.1 h)⟩

theorem AcksOK.append {s : BState} {l1 l2 : List PendingAck} (h1 : AcksOK s l1) (h2 : AcksOK s l2) :
    AcksOK s (l1 ++ l2) := by
  intro a ha
  rcases List.mem_append.1 ha with h | h
  · exact h1 a h
  · exact h2 a h

theorem Tr.trans {s1 s2 s3 : BState} (h1 : Tr s1 s2) (h2 : Tr s2 s3) : Tr s1 s3 := by
  obtain ⟨l1, e1, a1⟩ := h1.pend
  obtain ⟨l2, e2, a2⟩ := h2.pend
  refine ⟨fun e => ORel.trans (R := RecStep) (fun _ _ _ h h' => RecStep.trans h h') (h1.conns e) (h2.conns e),
    fun h => h2.clean (h1.clean h), l1 ++ l2, by rw [e2, e1, List.append_assoc], ?_⟩
  exact (a1.mono h2.conns).append a2

/-- only fields that do not matter here changed -/
theorem Tr.of_frame {s s' : BState} (h1 : s'.conns = s.conns) (h2 : s'.stored = s.stored)
    (h3 : s'.pendingAcks = s.pendingAcks) : Tr s s' := by
  refine ⟨fun e => ?_, fun h => BrokerB2.OutClean.of_stored h2 h, [], by simp [h3], fun _ h => by cases h⟩
  rw [conn?_of_conns h1]; exact orel_recStep_refl _

theorem Tr.setConn {s : BState} {c : ConnId} {x x' : BConn} (hc : s.conn? c = some x) (hr : RecStep x x') :
    Tr s (s.setConn c x') := by
  refine ⟨fun e => ?_, fun h => BrokerB2.OutClean.of_stored rfl h, [], by simp, fun _ h => by cases h⟩
  rw [conn?_setConn]
  split
  · rename_i he; subst he; rw [hc]; exact hr
  · exact orel_recStep_refl _

theorem Tr.updConn {s : BState} {c : ConnId} {f : BConn → BConn} (hf : ∀ x, s.conn? c = some x → RecStep x (f x)) :
    Tr s (s.updConn c f) := by
  rw [updConn_eq]
  cases h : s.conn? c with
  | none => exact Tr.refl s
  | some x => exact Tr.setConn h (hf x h)

/-- `c`'s session is rewritten; the new outgoing store is clean if the old one was -/
theorem Tr.setSessOf {s : BState} {c : ConnId} {b b' : BSess} (hb : s.sessOf c = some b)
    (hq : (∀ e ∈ b.sess.outgoing.entries, isConnack e.2 = false) → ∀ e ∈ b'.sess.outgoing.entries, isConnack e.2 = false) :
    Tr s (s.setSessOf c b') :=
  ⟨fun e => by rw [setSessOf_conn?]; exact orel_recStep_refl _,
   fun h => BrokerB2.outClean_setSessOf s c b b' hb hq h, [], by simp, fun _ h => by cases h⟩

theorem Tr.pubFrame {s s' : BState} {c : ConnId} {m : Message} (f : BrokerB2.PubFrame s s' c m) : Tr s s' :=
  ⟨fun e => by rw [conn?_of_conns f.conns]; exact orel_recStep_refl _, fun h => f.outClean h, [],
   by simp [f.pendingAcks], fun _ h => by cases h⟩

theorem backendPublish_tr (s : BState) (c : ConnId) (m : Message) : R1All (Tr s) (backendPublish s c m) := by
  cases h : backendPublish s c m with
  | ok s' => exact Tr.pubFrame (BrokerB2.backendPublish_frame s s' c m (Or.inl h))
  | queueFull s' => exact Tr.pubFrame (BrokerB2.backendPublish_frame s s' c m (Or.inr h))
  | unsupported e => trivial

/-! ### `kill`, `cleanup` -/

theorem recStep_closed (x : BConn) : RecStep x (BrokerB2.closedRec x) :=
  RecStep.of_fields (by simp) (fun h => by simp at h) (by simp) (by simp)

/-- `kill`: the record is closed, nothing is queued, no deferred acknowledgement is added -/
theorem kill_tr (s : BState) (c : ConnId) :
    RAll (fun t => Tr s t ∧ t.pendingAcks = s.pendingAcks) (kill s c) := by
  rw [RAll_iff]
  intro t hm
  have ht := succ_of_rmem hm
  cases h : s.conn? c with
  | none => rw [BrokerB2.kill_none s c h, BrokerB2.succ_one] at ht; subst ht; exact ⟨Tr.refl _, rfl⟩
  | some x =>
    cases ha : x.alive with
    | false => rw [BrokerB2.kill_dead s c x h ha, BrokerB2.succ_one] at ht; subst ht; exact ⟨Tr.refl _, rfl⟩
    | true =>
      have f := BrokerB2.kill_frame s t c x h ha ht
      refine ⟨⟨fun e => ?_, fun hc => BrokerB2.kill_outClean s t c hc ht, [], by simp [f.pendingAcks],
        fun _ h => by cases h⟩, f.pendingAcks⟩
      by_cases he : e = c
      · subst he; rw [f.conn?_same, h]; exact recStep_closed x
      · rw [f.conn?_other e he]; exact orel_recStep_refl _

theorem kill_tr' (s : BState) (c : ConnId) : RAll (Tr s) (kill s c) :=
  RAll_mono (kill_tr s c) (fun _ h => h.1)

theorem cleanup_tr (s : BState) (c : ConnId) (x : BConn) :
    RAll (fun t => Tr s t ∧ t.pendingAcks = s.pendingAcks) (cleanup s c x) := by
  rw [RAll_iff]
  intro t hm
  have ht := succ_of_rmem hm
  have f := BrokerB2.cleanup_succ s t c x ht
  exact ⟨⟨fun e => by rw [f.conn?]; exact orel_recStep_refl _, fun hc => BrokerB2.cleanup_outClean s t c x hc ht, [],
    by simp [f.pendingAcks], fun _ h => by cases h⟩, f.pendingAcks⟩

theorem killAll_tr (cs : List ConnId) : ∀ (s : BState), RAll (Tr s) (killAll s cs) := by
  induction cs with
  | nil => intro s; exact RAll_one.2 (Tr.refl s)
  | cons c rest ih =>
    intro s
    unfold BState.killAll
    exact RAll_bind (kill_tr' s c) (fun s1 h1 => RAll_mono (ih s1) (fun s2 h2 => h1.trans h2))

theorem publishThen_tr {s0 s : BState} (h : Tr s0 s) (c : ConnId) (m : Message) (k : BState → Res)
    (hk : ∀ s', Tr s0 s' → RAll (Tr s0) (k s')) : RAll (Tr s0) (publishThen s c m k) := by
  unfold BState.publishThen
  have := backendPublish_tr s c m
  split
  · rename_i s1 hp; rw [hp] at this; exact hk s1 (h.trans this)
  · rename_i s1 hp; rw [hp] at this
    exact RAll_mono (kill_tr' s1 c) (fun _ h2 => (h.trans this).trans h2)
  · trivial

/-! ### acknowledgements -/

theorem forgetIncoming_tr (s : BState) (c : ConnId) (id : UInt16) : Tr s (forgetIncoming c id s) := by
  unfold BState.forgetIncoming
  split
  · rename_i b hb
    exact Tr.setSessOf hb (fun h => h)
  · exact Tr.refl s

theorem ackPre_tr (s : BState) (c : ConnId) (p : Packet) : Tr s (ackPre c p s) := by
  unfold BState.ackPre
  split
  · exact forgetIncoming_tr s c _
  · exact Tr.refl s

theorem forgetIncoming_conn? (s : BState) (c e : ConnId) (id : UInt16) : (forgetIncoming c id s).conn? e = s.conn? e := by
  unfold BState.forgetIncoming; split <;> simp

theorem ackPre_conn? (s : BState) (c e : ConnId) (p : Packet) : (ackPre c p s).conn? e = s.conn? e := by
  unfold BState.ackPre; split
  · exact forgetIncoming_conn? _ _ _ _
  · rfl

theorem recStep_pushAck {x : BConn} (hp : x.phase ≠ .connecting) {p : Packet} (hn : isConnack p = false) :
    RecStep x (if x.alive then { x with ackOut := x.ackOut ++ [p] } else x) := by
  split
  · exact RecStep.of_past hp hp (fun h => h) (lp := []) (la := [p]) (by simp) rfl NoCk.nil (NoCk.single hn)
  · exact RecStep.refl x

/-- an acknowledgement (no CONNACK) for a connection past its CONNECT is queued, parked or dropped -/
theorem ackVia_tr {s : BState} {c : ConnId} {x : BConn} (hx : s.conn? c = some x) (hp : x.phase ≠ .connecting)
    {p : Packet} (hn : isConnack p = false) (pre : BState → BState) (hpre : Tr s (pre s))
    (hpc : (pre s).conn? c = s.conn? c) : Tr s (ackVia s c p pre) := by
  unfold BState.ackVia
  split
  · exact Tr.refl s
  · split
    · refine ⟨fun e => orel_recStep_refl _, fun h => BrokerB2.OutClean.of_stored rfl h, [⟨c, p⟩], rfl, ?_⟩
      intro a ha
      simp only [List.mem_singleton] at ha
      subst ha
      exact ⟨hn, x, hx, hp⟩
    · refine hpre.trans (Tr.updConn ?_)
      intro y hy
      rw [hpc, hx] at hy; cases hy
      exact recStep_pushAck hp hn

/-- all deferred acknowledgements are handed to their connections -/
theorem ackRelease_tr : ∀ (l : List PendingAck) (s : BState), AcksOK s l →
    Tr s (l.foldl (fun s a =>
      (ackPre a.conn a.pkt s).updConn a.conn (fun x => if x.alive then { x with ackOut := x.ackOut ++ [a.pkt] } else x)) s) := by
  intro l
  induction l with
  | nil => intro s _; exact Tr.refl s
  | cons a rest ih =>
    intro s h
    simp only [List.foldl_cons]
    obtain ⟨hn, x, hx, hp⟩ := h a (List.mem_cons_self ..)
    have t1 : Tr s ((ackPre a.conn a.pkt s).updConn a.conn
        (fun x => if x.alive then { x with ackOut := x.ackOut ++ [a.pkt] } else x)) := by
      refine (ackPre_tr s a.conn a.pkt).trans (Tr.updConn ?_)
      intro y hy
      rw [ackPre_conn?, hx] at hy; cases hy
      exact recStep_pushAck hp hn
    refine t1.trans (ih _ ?_)
    exact AcksOK.mono (fun b hb => h b (List.mem_cons_of_mem _ hb)) t1.conns

/-! ### SUBSCRIBE: the retained messages -/

theorem subscribeRetained_tr (c : ConnId) (subs : List Subscription) : ∀ (s : BState),
    R1All (Tr s) (subscribeRetained s c subs) := by
  induction subs with
  | nil => intro s; exact Tr.refl s
  | cons sub rest ih =>
    intro s
    simp only [subscribeRetained]
    split
    · exact Tr.refl s
    · rename_i b hb
      split
      · rename_i b' hq
        obtain ⟨q1, _, _⟩ := BrokerB2.queueRetained_sess _ _ _ _ _ hq
        have t1 : Tr s (s.setSessOf c b') := Tr.setSessOf hb (by rw [q1]; exact fun h => h)
        have t2 : Tr s { (s.setSessOf c b') with nextGroup := s.nextGroup + 1 } := t1.trans (Tr.of_frame rfl rfl rfl)
        have := ih { (s.setSessOf c b') with nextGroup := s.nextGroup + 1 }
        cases hr : subscribeRetained { (s.setSessOf c b') with nextGroup := s.nextGroup + 1 } c rest with
        | ok s' => rw [hr] at this; exact t2.trans this
        | queueFull s' => rw [hr] at this; exact t2.trans this
        | unsupported e => trivial
      · exact Tr.refl s


/-! ### small facts about sessions and records -/

/-- the entries of an outgoing store all are no CONNACK -/
def CleanStore (st : PacketStore) : Prop := ∀ e ∈ st.entries, isConnack e.2 = false

theorem cleanStore_delete {st : PacketStore} (h : CleanStore st) (id : UInt16) : CleanStore (st.delete id) := by
  intro e he
  simp only [PacketStore.delete, PacketStore.erase] at he
  exact h e (List.mem_filter.1 he).1

theorem cleanStore_save {st : PacketStore} (h : CleanStore st) {p : Packet} (hp : isConnack p = false) :
    CleanStore (st.save p) := by
  intro e he
  unfold PacketStore.save at he
  split at he
  · simp only [PacketStore.erase, List.mem_append, List.mem_filter, List.mem_singleton] at he
    rcases he with ⟨he, _⟩ | he
    · exact h e he
    · subst he; exact hp
  · exact h e he

theorem r1_trans {s0 s : BState} (h : Tr s0 s) {r : Res1} (hr : R1All (Tr s) r) : R1All (Tr s0) r := by
  cases r with
  | ok s' => exact h.trans hr
  | queueFull s' => exact h.trans hr
  | unsupported e => trivial

theorem retake_rec (z : BConn) : (retake z).phase = z.phase ∧ (retake z).alive = z.alive ∧
    (retake z).procOut = z.procOut ∧ (retake z).ackOut = z.ackOut := by
  unfold retake; split <;> exact ⟨rfl, rfl, rfl, rfl⟩

theorem putDeq_rec (cfg : Cfg) (z : BConn) : (putDeq cfg z).phase = z.phase ∧ (putDeq cfg z).alive = z.alive ∧
    (putDeq cfg z).procOut = z.procOut ∧ (putDeq cfg z).ackOut = z.ackOut := by
  unfold putDeq
  split
  · exact retake_rec _
  · exact retake_rec _

theorem recStep_putDeq (cfg : Cfg) (z : BConn) : RecStep z (putDeq cfg z) := by
  obtain ⟨h1, h2, h3, h4⟩ := putDeq_rec cfg z
  exact RecStep.of_fields h1 (fun h => by rw [← h2]; exact h) h3 h4

/-! ### one packet on an accepted connection, or a non-CONNECT packet before CONNECT -/

theorem isConnack_suback (l : List UInt8) (id : UInt16) : isConnack (.suback l id) = false := rfl

/-- `recv` in every situation but "CONNECT on a connection waiting for it" -/
theorem recv_tr_connected {s : BState} {c : ConnId} {x : BConn} (hx : s.conn? c = some x) (ha : x.alive = true)
    (hph : x.phase = .connected) (p : Packet) : RAll (Tr s) (recv s c p) := by
  have hpc : x.phase ≠ .connecting := by rw [hph]; simp
  have tset : ∀ x', x'.phase = x.phase → x'.alive = x.alive → x'.procOut = x.procOut → x'.ackOut = x.ackOut →
      Tr s (s.setConn c x') := fun x' h1 h2 h3 h4 =>
    Tr.setConn hx (RecStep.of_fields h1 (fun h => by rw [← h2]; exact h) h3 h4)
  have tpush : ∀ {s1 : BState} {y : BConn}, s1.conn? c = some y → y.phase ≠ .connecting → ∀ q, isConnack q = false →
      Tr s1 (s1.updConn c fun x => { x with procOut := x.procOut ++ [q] }) := by
    intro s1 y hy hyp q hq
    refine Tr.updConn ?_
    intro z hz
    rw [hy] at hz; cases hz
    exact RecStep.of_past hyp hyp (fun h => h) (lp := [q]) (la := []) rfl (by simp) (NoCk.single hq) NoCk.nil
  unfold BState.recv
  simp only [hx, ha, hph, Bool.not_true, Bool.false_eq_true, if_false]
  split
  · -- subscribe
    rename_i subs id
    split
    · trivial
    · have t1 := tset { x with phase := .connected, alive := true, subTok := x.subTok - 1 } (by simp [hph]) (by simp [ha]) rfl rfl
      split
      · trivial
      · rename_i b hb
        have t2 := t1.trans (Tr.setSessOf (b' := subs.foldl (fun b sub => { b with subs := Tree.set sub.topic sub.qos.toNat b.subs }) b)
          hb (by rw [BrokerB1.foldl_subs_set]; exact fun h => h))
        have hc2 : ((s.setConn c { x with phase := .connected, alive := true, subTok := x.subTok - 1 }).setSessOf c
            (subs.foldl (fun b sub => { b with subs := Tree.set sub.topic sub.qos.toNat b.subs }) b)).conn? c =
            some { x with phase := .connected, alive := true, subTok := x.subTok - 1 } := by simp
        have t3 := t2.trans (ackVia_tr hc2 (by simp) (isConnack_suback (subs.map (·.qos)) id) (fun s => s) (Tr.refl _) rfl)
        have h4 := r1_trans t3 (subscribeRetained_tr c subs _)
        split
        · rename_i s4 hs4; rw [hs4] at h4; exact RAll_one.2 h4
        · rename_i s4 hs4; rw [hs4] at h4
          exact RAll_mono (kill_tr' s4 c) (fun _ h5 => h4.trans h5)
        · trivial
  · -- unsubscribe
    rename_i topics id
    split
    · trivial
    · have t1 := tset { x with phase := .connected, alive := true, subTok := x.subTok - 1 } (by simp [hph]) (by simp [ha]) rfl rfl
      split
      · trivial
      · rename_i b hb
        have t2 := t1.trans (Tr.setSessOf (b' := topics.foldl (fun b t => { b with subs := Tree.emptyTopic t b.subs }) b)
          hb (by rw [BrokerB1.foldl_subs_empty]; exact fun h => h))
        have hc2 : ((s.setConn c { x with phase := .connected, alive := true, subTok := x.subTok - 1 }).setSessOf c
            (topics.foldl (fun b t => { b with subs := Tree.emptyTopic t b.subs }) b)).conn? c =
            some { x with phase := .connected, alive := true, subTok := x.subTok - 1 } := by simp
        exact RAll_one.2 (t2.trans (ackVia_tr hc2 (by simp) (p := .unsuback id) rfl (fun s => s) (Tr.refl _) rfl))
  · -- publish
    rename_i m dup id
    split
    · exact publishThen_tr (Tr.refl s) c m _ (fun s' hs' => RAll_one.2 hs')
    · split
      · trivial
      · have t1 := tset { x with phase := .connected, alive := true, pubTok := x.pubTok - 1 } (by simp [hph]) (by simp [ha]) rfl rfl
        split
        · apply publishThen_tr t1
          intro s' hs'
          refine RAll_one.2 (hs'.trans ?_)
          have := hs'.conns c
          rw [hx] at this
          obtain ⟨y, hy, hr⟩ := this.some_left
          exact ackVia_tr hy (fun h => hpc (hr.phase.1 h)) (p := .puback id) rfl (fun s => s) (Tr.refl _) rfl
        · split
          · trivial
          · rename_i b hb
            refine RAll_one.2 ((t1.trans (Tr.setSessOf (b' := { b with sess := b.sess.savePacket .incoming (.publish m dup id) }) hb ?_)).trans
              (tpush (y := { x with phase := .connected, alive := true, pubTok := x.pubTok - 1 }) (by simp) (by simp) (.pubrec id) rfl))
            exact fun h => h
  · -- pubrel
    rename_i id
    split
    · trivial
    · rename_i b hb
      split
      · rename_i m _ _ _
        apply publishThen_tr (Tr.refl s)
        intro s' hs'
        refine RAll_one.2 (hs'.trans ?_)
        have := hs'.conns c
        rw [hx] at this
        obtain ⟨y, hy, hr⟩ := this.some_left
        exact ackVia_tr hy (fun h => hpc (hr.phase.1 h)) (p := .pubcomp id) rfl _ (ackPre_tr s' c _) (ackPre_conn? s' c c _)
      · exact RAll_one.2 (tpush hx hpc (.pubcomp id) rfl)
  · -- puback
    rename_i id
    split
    · trivial
    · rename_i b hb
      refine RAll_one.2 ((Tr.setSessOf (b' := { b with sess := b.sess.deletePacket .outgoing id }) hb ?_).trans (Tr.updConn ?_))
      · intro h; exact cleanStore_delete h id
      · intro z _; exact recStep_putDeq _ z
  · -- pubcomp
    rename_i id
    split
    · trivial
    · rename_i b hb
      refine RAll_one.2 ((Tr.setSessOf (b' := { b with sess := b.sess.deletePacket .outgoing id }) hb ?_).trans (Tr.updConn ?_))
      · intro h; exact cleanStore_delete h id
      · intro z _; exact recStep_putDeq _ z
  · -- pubrec
    rename_i id
    split
    · trivial
    · rename_i b hb
      refine RAll_one.2 ((Tr.setSessOf (b' := { b with sess := b.sess.savePacket .outgoing (.pubrel id) }) hb ?_).trans
        (tpush (y := x) (by simp [hx]) hpc (.pubrel id) rfl))
      intro h; exact cleanStore_save h (p := .pubrel id) rfl
  · exact RAll_one.2 (tpush hx hpc .pingresp rfl)
  · -- disconnect
    refine RAll_mono (kill_tr' _ c) (fun _ h2 => Tr.trans ?_ h2)
    exact Tr.setConn hx (RecStep.of_past hpc (by simp) (fun _ => ha) (lp := []) (la := []) (by simp) (by simp) NoCk.nil NoCk.nil)
  · exact kill_tr' s c

/-! ### CONNECT on a connection that waits for it -/

/-- what the processing of one CONNECT on connection `c` does -/
structure Tr1 (c : ConnId) (s s' : BState) : Prop where
  other : ∀ e, e ≠ c → ORel RecStep (s.conn? e) (s'.conn? e)
  own : ∃ x x' lp, s.conn? c = some x ∧ s'.conn? c = some x' ∧ x.alive = true ∧ x.phase = .connecting ∧
      x'.procOut = x.procOut ++ lp ∧ x'.ackOut = x.ackOut ∧ lp.countP isConnack ≤ 1 ∧
      (x'.phase = .connecting → x'.alive = false ∧ (lp = [] ∨ lp = [.connack false 5]))
  clean : BrokerB2.OutClean s → BrokerB2.OutClean s'
  pend : s'.pendingAcks = s.pendingAcks

theorem Tr1.build {c : ConnId} {s s0 s2 s' : BState} {x x' : BConn} (hx : s.conn? c = some x) (ha : x.alive = true)
    (hp : x.phase = .connecting)
    (h0 : ∀ e, e ≠ c → s0.conn? e = s.conn? e) (hst0 : s0.stored = s.stored) (hpe0 : s0.pendingAcks = s.pendingAcks)
    (ht : Tr s0 s2) (hpe2 : s2.pendingAcks = s0.pendingAcks)
    (h2 : ∀ e, e ≠ c → s'.conn? e = s2.conn? e) (hcl : BrokerB2.OutClean s2 → BrokerB2.OutClean s')
    (hpe' : s'.pendingAcks = s2.pendingAcks)
    (hx' : s'.conn? c = some x') {lp : List Packet} (e1 : x'.procOut = x.procOut ++ lp) (e2 : x'.ackOut = x.ackOut)
    (hcnt : lp.countP isConnack ≤ 1)
    (hcond : x'.phase = .connecting → x'.alive = false ∧ (lp = [] ∨ lp = [.connack false 5])) : Tr1 c s s' := by
  refine ⟨fun e he => ?_, ⟨x, x', lp, hx, hx', ha, hp, e1, e2, hcnt, hcond⟩,
    fun h => hcl (ht.clean (BrokerB2.OutClean.of_stored hst0 h)), by rw [hpe', hpe2, hpe0]⟩
  rw [h2 e he, ← h0 e he]
  exact ht.conns e

/-- what `kill d` does to the record of any connection -/
theorem kill_rec {s t : BState} {d e : ConnId} {y : BConn} (hy : s.conn? e = some y) (ht : RMem t (kill s d)) :
    ∃ y', t.conn? e = some y' ∧ y'.procOut = y.procOut ∧ y'.ackOut = y.ackOut ∧ y'.phase = y.phase ∧
      (y.alive = false → y'.alive = false) ∧ (e = d → y'.alive = false) := by
  by_cases he : e = d
  · subst he
    obtain ⟨y', h1, h2, h3, h4, h5, _⟩ := BrokerB2.kill_conn_after s t e y hy (succ_of_rmem ht)
    exact ⟨y', h1, h3, h4, h5, fun _ => h2, fun _ => h2⟩
  · have := BrokerB2.kill_conn_other s t d e he (succ_of_rmem ht)
    exact ⟨y, by rw [this]; exact hy, rfl, rfl, rfl, fun h => h, fun h => absurd h he⟩

/-- `c` (waiting for its CONNECT in `s`) is closed in a state `sK` reached without queuing anything but
    `lp` for it -/
theorem Tr1.of_kill {c : ConnId} {s s0 sK t : BState} {x y : BConn} (hx : s.conn? c = some x) (ha : x.alive = true)
    (hp : x.phase = .connecting)
    (h0 : ∀ e, e ≠ c → s0.conn? e = s.conn? e) (hst0 : s0.stored = s.stored) (hpe0 : s0.pendingAcks = s.pendingAcks)
    (ht : Tr s0 sK) (hpeK : sK.pendingAcks = s0.pendingAcks)
    (hy : sK.conn? c = some y) {lp : List Packet} (e1 : y.procOut = x.procOut ++ lp) (e2 : y.ackOut = x.ackOut)
    (hcnt : lp.countP isConnack ≤ 1) (hcond : y.phase = .connecting → (lp = [] ∨ lp = [.connack false 5]))
    (hm : RMem t (kill sK c)) : Tr1 c s t := by
  obtain ⟨tk, hpk⟩ := RAll_of_RMem (kill_tr sK c) hm
  obtain ⟨y', h1, h2, h3, h4, _, h6⟩ := kill_rec hy hm
  exact Tr1.build hx ha hp h0 hst0 hpe0 (ht.trans tk) (hpk.trans hpeK) (fun _ _ => rfl) (fun h => h) rfl h1
    (by rw [h2, e1]) (by rw [h3, e2]) hcnt (fun hc => ⟨h6 rfl, hcond (by rw [← h4]; exact hc)⟩)

theorem startedRec_outs (cfg : Cfg) (x1 : BConn) (sr : SessRef) (will : Option Message) :
    (startedRec cfg x1 sr will).procOut = x1.procOut ++ [.connack false 0] ∧
    (startedRec cfg x1 sr will).ackOut = x1.ackOut ∧ (startedRec cfg x1 sr will).phase = x1.phase ∧
    (startedRec cfg x1 sr will).alive = x1.alive := by
  have := instRec_started cfg x1 sr will
  refine ⟨?_, this.ackOut, this.phase, this.alive⟩
  unfold startedRec
  rw [(retake_rec _).2.2.1]
  rfl

theorem resumedRec_outs (cfg : Cfg) (x1 : BConn) (id : ClientId) (will : Option Message) (b : BSess) (c : ConnId) :
    (resumedRec cfg x1 id will b c).procOut = x1.procOut ++ .connack true 0 :: BrokerB2.resendPkts b ∧
    (resumedRec cfg x1 id will b c).ackOut = x1.ackOut ∧ (resumedRec cfg x1 id will b c).phase = x1.phase ∧
    (resumedRec cfg x1 id will b c).alive = x1.alive := by
  have := instRec_resumed cfg x1 id will b c
  refine ⟨?_, this.ackOut, this.phase, this.alive⟩
  unfold resumedRec
  rw [(retake_rec _).2.2.1, (BrokerB2.resend_snd _ _).1]
  simp only [startConn, List.append_assoc, List.singleton_append]
  rfl

theorem outClean_set {s s' : BState} {id : ClientId} {b : BSess} (h : BrokerB2.OutClean s)
    (hs : s'.stored = Assoc.set s.stored id b) (hb : CleanStore b.sess.outgoing) : BrokerB2.OutClean s' := by
  intro cid b0 hb0
  rw [hs, get_set] at hb0
  split at hb0
  · cases hb0; exact hb
  · exact h cid b0 hb0

theorem outClean_del {s s' : BState} {id : ClientId} (h : BrokerB2.OutClean s)
    (hs : s'.stored = Assoc.del s.stored id) : BrokerB2.OutClean s' := by
  intro cid b0 hb0
  rw [hs, get_del] at hb0
  split at hb0
  · cases hb0
  · exact h cid b0 hb0

theorem cleanStore_resumed {b : BSess} (h : CleanStore b.sess.outgoing) (c : ConnId) :
    CleanStore (resumedSess b c).sess.outgoing := by
  intro e he
  simp only [resumedSess, List.mem_map] at he
  obtain ⟨e0, h0, rfl⟩ := he
  have := h e0 h0
  split
  · rfl
  · rename_i hq; simp only at hq ⊢; exact this

/-- the state after the session has been installed for the newcomer -/
theorem installNamed_facts (s2 : BState) (c : ConnId) (x1 : BConn) (id : ClientId) (clean : Bool)
    (will : Option Message) (hcl : BrokerB2.OutClean s2) :
    BrokerB2.OutClean (installNamed s2 c x1 id clean will) ∧
    (installNamed s2 c x1 id clean will).pendingAcks = s2.pendingAcks ∧
    (∀ e, e ≠ c → (installNamed s2 c x1 id clean will).conn? e = s2.conn? e) ∧
    ∃ x0 sp rest, (installNamed s2 c x1 id clean will).conn? c = some x0 ∧
      x0.procOut = x1.procOut ++ .connack sp 0 :: rest ∧ NoCk rest ∧ x0.ackOut = x1.ackOut ∧
      x0.phase = x1.phase ∧ x0.alive = x1.alive := by
  unfold installNamed
  split
  · obtain ⟨h1, h2, h3, h4⟩ := startedRec_outs s2.cfg x1 .temp will
    refine ⟨outClean_del hcl (installClean_stored _ _ _ _ _), rfl,
      fun e he => by rw [installClean_conn, if_neg he], _, false, [], by rw [installClean_conn, if_pos rfl], h1, NoCk.nil, h2, h3, h4⟩
  · split
    · rename_i b hb
      obtain ⟨h1, h2, h3, h4⟩ := resumedRec_outs s2.cfg x1 id will b c
      refine ⟨outClean_set hcl (installResume_stored _ _ _ _ _ _) (cleanStore_resumed (hcl id b hb) c), rfl,
        fun e he => by rw [installResume_conn, if_neg he], _, true, _, by rw [installResume_conn, if_pos rfl], h1,
        BrokerB2.resendPkts_clean b (hcl id b hb), h2, h3, h4⟩
    · obtain ⟨h1, h2, h3, h4⟩ := startedRec_outs s2.cfg x1 (.stored id) will
      refine ⟨outClean_set hcl (installFresh_stored _ _ _ _ _) (by intro e he; cases he), rfl,
        fun e he => by rw [installFresh_conn, if_neg he], _, false, [], by rw [installFresh_conn, if_pos rfl], h1, NoCk.nil, h2, h3, h4⟩

theorem countP_connack_cons {sp : Bool} {code : UInt8} {rest : List Packet} (h : NoCk rest) :
    (Packet.connack sp code :: rest).countP isConnack ≤ 1 := by
  rw [List.countP_cons, h.countP]
  simp [isConnack, BrokerB2.isConnack]

/-- the take-over: a stretch without CONNECT processing, no deferred acknowledgement added -/
theorem takeOver_tr {s1 s2 : BState} {id : ClientId} (h : TakeOver s1 id s2) :
    Tr s1 s2 ∧ s2.pendingAcks = s1.pendingAcks := by
  unfold TakeOver at h
  split at h
  · exact RAll_of_RMem (kill_tr s1 _) h
  · rw [h]; exact ⟨Tr.refl _, rfl⟩

theorem takeOver_rec {s1 s2 : BState} {id : ClientId} (h : TakeOver s1 id s2) {e : ConnId} {y : BConn}
    (hy : s1.conn? e = some y) :
    ∃ y', s2.conn? e = some y' ∧ y'.procOut = y.procOut ∧ y'.ackOut = y.ackOut ∧ y'.phase = y.phase := by
  unfold TakeOver at h
  split at h
  · obtain ⟨y', h1, h2, h3, h4, _⟩ := kill_rec hy h
    exact ⟨y', h1, h2, h3, h4⟩
  · rw [h]; exact ⟨y, hy, rfl, rfl, rfl⟩

/-- `processConnect` after authentication -/
theorem setup_tr1 {s s1 : BState} {c : ConnId} {x x1 : BConn} (hx : s.conn? c = some x) (ha : x.alive = true)
    (hp : x.phase = .connecting) (hcl : BrokerB2.OutClean s) (hs1 : s1 = s.setConn c x1) (hx1p : x1.procOut = x.procOut)
    (hx1a : x1.ackOut = x.ackOut) (id : ClientId) (clean : Bool) (will : Option Message) :
    RAll (Tr1 c s) (setupAndConnack s1 c x1 id clean will) := by
  refine RAll_mono (setup_shape s1 c x1 id clean will) (fun t hs => ?_)
  have h0 : ∀ e, e ≠ c → (s1.setConn c (acceptedRec x1 id)).conn? e = s.conn? e := by
    intro e he; rw [hs1]; simp [he]
  have hst0 : (s1.setConn c (acceptedRec x1 id)).stored = s.stored := by rw [hs1]; rfl
  have hpe0 : (s1.setConn c (acceptedRec x1 id)).pendingAcks = s.pendingAcks := by rw [hs1]; rfl
  have hc0 : (s1.setConn c (acceptedRec x1 id)).conn? c = some (acceptedRec x1 id) := by simp
  have hpa : (acceptedRec x1 id).phase ≠ .connecting := by simp [acceptedRec]
  cases hs with
  | closing _ hm =>
    exact Tr1.of_kill hx ha hp h0 hst0 hpe0 (Tr.refl _) rfl hc0 (lp := []) (by simp [acceptedRec, hx1p])
      (by simp [acceptedRec, hx1a]) (by simp) (fun _ => Or.inl rfl) hm
  | anon _ _ he =>
    subst he
    obtain ⟨h1, h2, h3, h4⟩ := startedRec_outs (s1.setConn c (acceptedRec x1 id)).cfg (acceptedRec x1 id) .temp will
    refine Tr1.build hx ha hp h0 hst0 hpe0 (Tr.refl _) rfl (fun e he => by rw [installAnon_conn, if_neg he])
      (fun h => BrokerB2.OutClean.of_stored (installAnon_stored _ _ _ _) h) rfl
      (by rw [installAnon_conn, if_pos rfl]) (lp := [.connack false 0]) (by rw [h1]; simp [acceptedRec, hx1p])
      (by rw [h2]; simp [acceptedRec, hx1a]) (by simp [isConnack, BrokerB2.isConnack]) (fun hc => absurd (h3 ▸ hc) hpa)
  | refused s2 _ _ hto _ hm =>
    obtain ⟨t2, hp2⟩ := takeOver_tr hto
    obtain ⟨y, hy, e1, e2, e3⟩ := takeOver_rec hto hc0
    exact Tr1.of_kill hx ha hp h0 hst0 hpe0 t2 hp2 hy (lp := []) (by rw [e1]; simp [acceptedRec, hx1p])
      (by rw [e2]; simp [acceptedRec, hx1a]) (by simp) (fun _ => Or.inl rfl) hm
  | installed s2 _ _ hto _ he =>
    subst he
    obtain ⟨t2, hp2⟩ := takeOver_tr hto
    have hcl2 : BrokerB2.OutClean s2 := t2.clean (BrokerB2.OutClean.of_stored hst0 hcl)
    obtain ⟨f1, f2, f3, x0, sp, rest, f4, f5, f6, f7, f8, f9⟩ :=
      installNamed_facts s2 c (acceptedRec x1 id) id clean will hcl2
    exact Tr1.build hx ha hp h0 hst0 hpe0 t2 hp2 f3 (fun _ => f1) f2 f4 (lp := .connack sp 0 :: rest)
      (by rw [f5]; simp [acceptedRec, hx1p]) (by rw [f7]; simp [acceptedRec, hx1a]) (countP_connack_cons f6)
      (fun hc => absurd (f8 ▸ hc) hpa)

/-! ### one packet, in any situation -/

/-- outcome of one packet: a stretch without CONNECT processing, or the processing of a CONNECT -/
inductive RecvOut (s : BState) (c : ConnId) (s' : BState) : Prop where
  | calm : Tr s s' → RecvOut s c s'
  | connect : Tr1 c s s' → RecvOut s c s'

theorem recv_connecting_other {s : BState} {c : ConnId} {x : BConn} {p : Packet} (h : s.conn? c = some x)
    (ha : x.alive = true) (hp : x.phase = .connecting) (hn : isConnect p = false) : recv s c p = kill s c := by
  unfold recv
  simp only [h, ha, hp]
  cases p <;> simp_all [isConnect]

theorem recv_out {s : BState} (hcl : BrokerB2.OutClean s) (c : ConnId) (p : Packet) :
    RAll (RecvOut s c) (recv s c p) := by
  cases hc : s.conn? c with
  | none => unfold recv; simp only [hc]; trivial
  | some x =>
    cases ha : x.alive with
    | false =>
      unfold recv; simp only [hc, ha, Bool.not_false, if_true]
      exact RAll_one.2 (.calm (Tr.refl s))
    | true =>
      cases hp : x.phase with
      | disconnected =>
        unfold recv; simp only [hc, ha, hp, Bool.not_true, Bool.false_eq_true, if_false]
        exact RAll_one.2 (.calm (Tr.refl s))
      | connected => exact RAll_mono (recv_tr_connected hc ha hp p) (fun _ h => .calm h)
      | connecting =>
        by_cases hn : isConnect p = false
        · rw [recv_connecting_other hc ha hp hn]
          exact RAll_mono (kill_tr' s c) (fun _ h => .calm h)
        · cases p with
          | connect id ka u pw clean will v =>
            unfold recv; simp only [hc, ha, hp, Bool.not_true, Bool.false_eq_true, if_false]
            have h0 : ∀ e, e ≠ c → (s.setConn c { x with id := id }).conn? e = s.conn? e := by
              intro e he; simp [he]
            split
            · refine RAll_iff.2 (fun t hm => .connect ?_)
              exact Tr1.of_kill (y := { x with id := id }) hc ha hp h0 rfl rfl (Tr.refl _) rfl (by simp) (lp := []) (by simp) rfl
                (by simp) (fun _ => Or.inl rfl) (by rw [ha, hp]; exact hm)
            · split
              · refine RAll_iff.2 (fun t hm => .connect ?_)
                refine Tr1.of_kill (s0 := (s.setConn c { x with id := id }).setConn c
                    { x with id := id, procOut := x.procOut ++ [.connack false 5] })
                  (y := { x with id := id, procOut := x.procOut ++ [.connack false 5] }) hc ha hp ?_ rfl rfl (Tr.refl _) rfl
                  (by simp) (lp := [.connack false 5]) rfl rfl (by simp [isConnack, BrokerB2.isConnack]) (fun _ => Or.inr rfl)
                  (by rw [ha, hp]; exact hm)
                intro e he; simp [he]
              · have := setup_tr1 (s1 := s.setConn c { x with id := id }) (x1 := { x with id := id }) hc ha hp hcl rfl rfl rfl
                  id clean will
                rw [ha, hp] at this
                exact RAll_mono this (fun _ h => .connect h)
          | _ => exact absurd rfl hn

/-! ### stimuli -/

/-- what one stimulus does to the output queues -/
inductive StimOut (s s' : BState) : Prop where
  | calm : Tr s s' → StimOut s s'
  | connect (c : ConnId) : Tr1 c s s' → StimOut s s'
  | fresh (c : ConnId) : s.conn? c = none → s' = s.setConn c {} → StimOut s s'
  | release (s1 : BState) : Tr s s1 → s' = { s1 with pendingAcks := [] } → StimOut s s'

theorem stim_out {s : BState} (hcl : BrokerB2.OutClean s) (hpa : AcksOK s s.pendingAcks) (st : Stim)
    (hfresh : ∀ c, st = .conn c → s.conn? c = none) : RAll (StimOut s) (stim s st) := by
  cases st with
  | conn c => exact RAll_one.2 (.fresh c (hfresh c rfl) rfl)
  | send c p =>
    refine RAll_mono (recv_out hcl c p) (fun t h => ?_)
    cases h with
    | calm h => exact .calm h
    | connect h => exact .connect c h
  | drop c => exact RAll_mono (kill_tr' s c) (fun _ h => .calm h)
  | ackRelease => exact RAll_one.2 (.release _ (ackRelease_tr s.pendingAcks s hpa) rfl)
  | backendClose =>
    simp only [stim]
    have t0 : Tr s { s with closing := true } := Tr.of_frame rfl rfl rfl
    exact RAll_mono (killAll_tr _ _) (fun _ h => .calm (t0.trans h))
  | stall c =>
    refine RAll_one.2 (.calm (Tr.updConn ?_))
    intro x _
    exact RecStep.of_fields rfl (fun h => h) rfl rfl
  | unstall c =>
    simp only [stim]
    split
    · rename_i x hx
      split
      · have t1 : Tr s (s.setConn c { x with stalled := false, zombie := false }) :=
          Tr.setConn hx (RecStep.of_fields rfl (fun h => h) rfl rfl)
        exact RAll_mono (cleanup_tr _ c x) (fun _ h => .calm (t1.trans h.1))
      · exact RAll_one.2 (.calm (Tr.setConn hx (RecStep.of_fields rfl (fun h => h) rfl rfl)))
    · trivial
  | tokenTimeout c =>
    simp only [stim]
    split
    · split
      · exact RAll_mono (kill_tr' s c) (fun _ h => .calm h)
      · trivial
    · trivial

/-! ### observations: packets leave the queues, nothing is added -/

structure RecObs (x x' : BConn) : Prop where
  phase : x'.phase = x.phase
  alive : x'.alive = true → x.alive = true
  procOut : ∃ k, x'.procOut = x.procOut.drop k
  ackOut : ∃ k, x'.ackOut = x.ackOut.drop k

theorem RecObs.refl (x : BConn) : RecObs x x := ⟨rfl, fun h => h, ⟨0, rfl⟩, ⟨0, rfl⟩⟩

theorem RecObs.trans {a b c : BConn} (h1 : RecObs a b) (h2 : RecObs b c) : RecObs a c := by
  obtain ⟨k1, e1⟩ := h1.procOut
  obtain ⟨k2, e2⟩ := h2.procOut
  obtain ⟨j1, f1⟩ := h1.ackOut
  obtain ⟨j2, f2⟩ := h2.ackOut
  exact ⟨h2.phase.trans h1.phase, fun h => h1.alive (h2.alive h), ⟨k1 + k2, by rw [e2, e1, List.drop_drop]⟩,
    ⟨j1 + j2, by rw [f2, f1, List.drop_drop]⟩⟩

theorem RecObs.of_same {x x' : BConn} (hp : x'.phase = x.phase) (ha : x'.alive = true → x.alive = true)
    (h1 : x'.procOut = x.procOut) (h2 : x'.ackOut = x.ackOut) : RecObs x x' :=
  ⟨hp, ha, ⟨0, by simp [h1]⟩, ⟨0, by simp [h2]⟩⟩

structure Shr (s s' : BState) : Prop where
  conns : ∀ e, ORel RecObs (s.conn? e) (s'.conn? e)
  clean : BrokerB2.OutClean s → BrokerB2.OutClean s'
  pend : s'.pendingAcks = s.pendingAcks

theorem orel_recObs_refl (o : Option BConn) : ORel RecObs o o := ORel.refl RecObs.refl o

theorem Shr.refl (s : BState) : Shr s s := ⟨fun _ => orel_recObs_refl _, fun h => h, rfl⟩

theorem Shr.trans {s1 s2 s3 : BState} (h1 : Shr s1 s2) (h2 : Shr s2 s3) : Shr s1 s3 :=
  ⟨fun e => ORel.trans (R := RecObs) (fun _ _ _ h h' => RecObs.trans h h') (h1.conns e) (h2.conns e),
   fun h => h2.clean (h1.clean h), h2.pend.trans h1.pend⟩

theorem Shr.setConn {s : BState} {c : ConnId} {x x' : BConn} (hc : s.conn? c = some x) (hr : RecObs x x') :
    Shr s (s.setConn c x') := by
  refine ⟨fun e => ?_, fun h => BrokerB2.OutClean.of_stored rfl h, rfl⟩
  rw [conn?_setConn]
  split
  · rename_i he; subst he; rw [hc]; exact hr
  · exact orel_recObs_refl _

theorem Shr.setSessOf {s : BState} {c : ConnId} {b b' : BSess} (hb : s.sessOf c = some b)
    (hq : CleanStore b.sess.outgoing → CleanStore b'.sess.outgoing) : Shr s (s.setSessOf c b') :=
  ⟨fun e => by rw [setSessOf_conn?]; exact orel_recObs_refl _,
   fun h => BrokerB2.outClean_setSessOf s c b b' hb hq h, by simp⟩

theorem popIf_some {l rest : List Packet} {p : Packet} (h : popIf l p = some rest) : rest = l.drop 1 := by
  unfold popIf at h
  split at h
  · split at h
    · cases h; rfl
    · cases h
  · cases h

theorem ackSent_rec (x : BConn) (cfg : Cfg) (p : Packet) : (ackSent x cfg p).phase = x.phase ∧
    (ackSent x cfg p).alive = x.alive ∧ (ackSent x cfg p).procOut = x.procOut ∧ (ackSent x cfg p).ackOut = x.ackOut := by
  unfold ackSent; split <;> exact ⟨rfl, rfl, rfl, rfl⟩

theorem acceptDelivery_shr {s s' : BState} {c : ConnId} {x : BConn} {b : BSess} {m : Message} {id : UInt16}
    (hx : s.conn? c = some x) (hb : s.sessOf c = some b) (ha : acceptDelivery s c x b m id = some s') : Shr s s' := by
  unfold BState.acceptDelivery at ha
  split at ha
  · cases ha
  · have fin : ∀ (b' : BSess) (out : Message) (r : BState),
        (if out.qos = 0 then
          (if id ≠ 0 then none else
            some ((s.setSessOf c b').setConn c
              (retake { x with deqHand := false, deqChan := min s.cfg.window (x.deqChan + 1) })))
         else
          (if (b'.sess.freshID).1 = 0 then none else
           if (b'.sess.freshID).1 ≠ id then none else
            some ((s.setSessOf c { b' with sess := (b'.sess.freshID).2.savePacket .outgoing (.publish out false id) }).setConn c
              (retake { x with deqHand := false })))) = some r → b'.sess = b.sess → Shr s r := by
      intro b' out r hr hw
      have hrec : ∀ z : BConn, z.phase = x.phase → z.alive = x.alive → z.procOut = x.procOut → z.ackOut = x.ackOut →
          RecObs x (retake z) := by
        intro z h1 h2 h3 h4
        obtain ⟨r1, r2, r3, r4⟩ := retake_rec z
        exact RecObs.of_same (r1.trans h1) (fun h => by rw [← h2, ← r2]; exact h) (r3.trans h3) (r4.trans h4)
      split at hr
      · split at hr
        · cases hr
        · injection hr with hr; rw [← hr]
          exact (Shr.setSessOf hb (by rw [hw]; exact fun h => h)).trans
            (Shr.setConn (by rw [setSessOf_conn?]; exact hx) (hrec _ rfl rfl rfl rfl))
      · split at hr
        · cases hr
        · split at hr
          · cases hr
          · injection hr with hr; rw [← hr]
            refine (Shr.setSessOf hb ?_).trans (Shr.setConn (by rw [setSessOf_conn?]; exact hx) (hrec _ rfl rfl rfl rfl))
            intro h
            have : CleanStore (b'.sess.freshID).2.outgoing := by
              rw [MemorySession.freshID_outgoing, hw]; exact h
            exact cleanStore_save (st := (b'.sess.freshID).2.outgoing) this (p := .publish out false id) rfl
    simp only at ha
    split at ha
    · rename_i s1 hfs
      injection ha with ha
      subst ha
      split at hfs
      · split at hfs
        · exact fin _ _ _ hfs rfl
        · cases hfs
      · cases hfs
    · split at ha
      · cases ha
      · split at ha
        · exact fin _ _ _ ha rfl
        · cases ha

theorem observeSent_shr {s s' : BState} {c : ConnId} {p : Packet} (ho : observeSent s c p = some s') : Shr s s' := by
  unfold BState.observeSent at ho
  split at ho
  · cases ho
  · rename_i x hx
    split at ho
    · cases ho
    · split at ho
      · rename_i rest hpop
        injection ho with ho; rw [← ho]
        exact Shr.setConn hx ⟨rfl, fun h => h, ⟨1, popIf_some hpop⟩, ⟨0, rfl⟩⟩
      · split at ho
        · rename_i rest hpop
          injection ho with ho; rw [← ho]
          obtain ⟨r1, r2, r3, r4⟩ := ackSent_rec { x with ackOut := rest } s.cfg p
          exact Shr.setConn hx ⟨r1, fun h => by rw [r2] at h; exact h, ⟨0, by rw [r3]; rfl⟩,
            ⟨1, by rw [r4]; exact popIf_some hpop⟩⟩
        · split at ho
          · rename_i b hb _ _
            split at ho
            · exact acceptDelivery_shr hx hb ho
            · cases ho
          · cases ho

theorem kill_shr {s t : BState} {c : ConnId} (hm : RMem t (kill s c)) : Shr s t := by
  obtain ⟨tk, hpk⟩ := RAll_of_RMem (kill_tr s c) hm
  refine ⟨fun e => ?_, tk.clean, hpk⟩
  cases hy : s.conn? e with
  | none =>
    have := tk.conns e
    rw [hy] at this
    rw [this.none_left]; trivial
  | some y =>
    obtain ⟨y', h1, h2, h3, h4, h5, _⟩ := kill_rec hy hm
    rw [h1]
    refine RecObs.of_same h4 (fun h => ?_) h2 h3
    cases hal : y.alive with
    | true => rfl
    | false => rw [h5 hal] at h; cases h

theorem observe_shr {s s' : BState} (o : Obs) (ho : s' ∈ observe s o) : Shr s s' := by
  cases o with
  | backend e =>
    simp only [observe] at ho
    split at ho
    · simp only [List.mem_singleton] at ho; rw [ho]
      exact ⟨fun _ => orel_recObs_refl _, fun h => BrokerB2.OutClean.of_stored rfl h, rfl⟩
    · cases ho
  | closed c =>
    simp only [observe] at ho
    split at ho
    · rename_i x hx
      split at ho
      · simp only [List.mem_singleton] at ho; rw [ho]
        exact Shr.setConn hx (RecObs.of_same rfl (fun h => h) rfl rfl)
      · cases ho
    · cases ho
  | sent c p =>
    simp only [observe, Option.mem_toList] at ho
    exact observeSent_shr ho
  | sendFail c p =>
    simp only [observe] at ho
    split at ho
    · rename_i s1 hs1
      have h1 := observeSent_shr hs1
      split at ho
      · rename_i ss hk
        simp only [List.mem_map] at ho
        obtain ⟨s2, hs2, rfl⟩ := ho
        have h2 : Shr s1 s2 := kill_shr (by rw [hk]; exact hs2)
        refine (h1.trans h2).trans ?_
        rw [updConn_eq]
        split
        · rename_i y hy
          exact Shr.setConn hy ⟨rfl, fun h => h, ⟨y.procOut.length, by simp⟩, ⟨y.ackOut.length, by simp⟩⟩
        · exact Shr.refl _
      · cases ho
    · cases ho

/-! ### the state invariant -/

/-- nothing is queued for a connection that waits for its CONNECT (but the CONNACK(5) of a refused
    authentication, once it is closed); deferred acknowledgements are no CONNACKs and belong to
    connections past their CONNECT; the stored outgoing packet stores hold no CONNACK -/
structure CI (s : BState) : Prop where
  k1 : ∀ c x, s.conn? c = some x → x.phase = .connecting →
        x.ackOut = [] ∧ (x.procOut = [] ∨ (x.alive = false ∧ x.procOut = [.connack false 5]))
  k2 : AcksOK s s.pendingAcks
  k3 : BrokerB2.OutClean s

theorem CI.init (cfg : Cfg) : CI { cfg := cfg } := by
  refine ⟨?_, ?_, ?_⟩
  · intro c x h; cases h
  · intro a h; cases h
  · intro cid b h; cases h

theorem k1_of_recStep {x x' : BConn} (hr : RecStep x x')
    (h : x.phase = .connecting → x.ackOut = [] ∧ (x.procOut = [] ∨ (x.alive = false ∧ x.procOut = [.connack false 5])))
    (hp : x'.phase = .connecting) :
    x'.ackOut = [] ∧ (x'.procOut = [] ∨ (x'.alive = false ∧ x'.procOut = [.connack false 5])) := by
  have hpx := hr.phase.1 hp
  obtain ⟨lp, la, e1, e2, _, _, z⟩ := hr.outs
  obtain ⟨z1, z2⟩ := z hpx
  obtain ⟨a1, a2⟩ := h hpx
  rw [e1, e2, z1, z2, List.append_nil, List.append_nil]
  refine ⟨a1, ?_⟩
  rcases a2 with a2 | ⟨a2, a3⟩
  · exact Or.inl a2
  · refine Or.inr ⟨?_, a3⟩
    cases hal : x'.alive with
    | false => rfl
    | true => rw [hr.alive hal] at a2; cases a2

theorem CI.tr {s s' : BState} (h : CI s) (t : Tr s s') : CI s' := by
  refine ⟨fun c x' hx' hp => ?_, ?_, t.clean h.k3⟩
  · have := t.conns c
    rw [hx'] at this
    obtain ⟨x, hx, hr⟩ := this.some_right
    exact k1_of_recStep hr (h.k1 c x hx) hp
  · obtain ⟨l, e, a⟩ := t.pend
    rw [e]
    exact (h.k2.mono t.conns).append a

theorem CI.tr1 {s s' : BState} {c : ConnId} (h : CI s) (t : Tr1 c s s') : CI s' := by
  obtain ⟨x, x', lp, hx, hx', ha, hp, e1, e2, _, hcond⟩ := t.own
  refine ⟨fun e y' hy' hpy => ?_, ?_, t.clean h.k3⟩
  · by_cases he : e = c
    · subst he
      rw [hx'] at hy'; cases hy'
      obtain ⟨a1, a2⟩ := h.k1 e x hx hp
      have hpo : x.procOut = [] := by
        rcases a2 with a2 | ⟨a2, _⟩
        · exact a2
        · rw [ha] at a2; cases a2
      obtain ⟨c1, c2⟩ := hcond hpy
      rw [e1, e2, hpo, List.nil_append]
      refine ⟨a1, ?_⟩
      rcases c2 with c2 | c2
      · exact Or.inl c2
      · exact Or.inr ⟨c1, c2⟩
    · have := t.other e he
      rw [hy'] at this
      obtain ⟨y, hy, hr⟩ := this.some_right
      exact k1_of_recStep hr (h.k1 e y hy) hpy
  · rw [t.pend]
    intro a hm
    obtain ⟨h1, y, hy, hpy⟩ := h.k2 a hm
    have hne : a.conn ≠ c := by
      intro heq; rw [heq, hx] at hy; cases hy; exact hpy hp
    have := t.other a.conn hne
    rw [hy] at this
    obtain ⟨y', hy', hr⟩ := this.some_left
    exact ⟨h1, y', hy', fun hc => hpy (hr.phase.1 hc)⟩

theorem CI.fresh {s : BState} {c : ConnId} (h : CI s) (hn : s.conn? c = none) : CI (s.setConn c {}) := by
  refine ⟨fun e y hy hpy => ?_, ?_, BrokerB2.OutClean.of_stored rfl h.k3⟩
  · rw [conn?_setConn] at hy
    split at hy
    · cases hy; exact ⟨rfl, Or.inl rfl⟩
    · exact h.k1 e y hy hpy
  · intro a hm
    obtain ⟨h1, y, hy, hpy⟩ := h.k2 a hm
    refine ⟨h1, y, ?_, hpy⟩
    rw [conn?_setConn, if_neg]
    · exact hy
    · intro heq; rw [heq, hn] at hy; cases hy

theorem CI.release {s s1 : BState} (h : CI s) (t : Tr s s1) : CI { s1 with pendingAcks := [] } := by
  have h1 := h.tr t
  refine ⟨h1.k1, ?_, BrokerB2.OutClean.of_stored rfl h1.k3⟩
  intro a hm; cases hm

theorem CI.shr {s s' : BState} (h : CI s) (t : Shr s s') : CI s' := by
  refine ⟨fun c x' hx' hp => ?_, ?_, t.clean h.k3⟩
  · have := t.conns c
    rw [hx'] at this
    obtain ⟨x, hx, hr⟩ := this.some_right
    obtain ⟨a1, a2⟩ := h.k1 c x hx (by rw [← hr.phase]; exact hp)
    obtain ⟨k, ek⟩ := hr.procOut
    obtain ⟨j, ej⟩ := hr.ackOut
    refine ⟨by rw [ej, a1]; simp, ?_⟩
    rcases a2 with a2 | ⟨a2, a3⟩
    · left; rw [ek, a2]; simp
    · cases k with
      | zero =>
        refine Or.inr ⟨?_, by rw [ek, a3]; rfl⟩
        cases hal : x'.alive with
        | false => rfl
        | true => rw [hr.alive hal] at a2; cases a2
      | succ k => left; rw [ek, a3]; simp
  · rw [t.pend]
    intro a hm
    obtain ⟨h1, y, hy, hpy⟩ := h.k2 a hm
    have := t.conns a.conn
    rw [hy] at this
    obtain ⟨y', hy', hr⟩ := this.some_left
    exact ⟨h1, y', hy', by rw [hr.phase]; exact hpy⟩

/-- summary of one step -/
theorem stepF_sum {s s' : BState} (h : CI s) (hs : BrokerB4.StepF s s') : StimOut s s' ∨ Shr s s' := by
  cases hs with
  | stim st hfresh ss hst hm => exact Or.inl (RAll_ok (stim_out h.k3 h.k2 st hfresh) hst s' hm)
  | obs o hm => exact Or.inr (observe_shr o hm)
  | ackMode late never => exact Or.inl (.calm (Tr.of_frame rfl rfl rfl))

theorem ci_step {s s' : BState} (h : CI s) (hs : BrokerB4.StepF s s') : CI s' := by
  rcases stepF_sum h hs with h1 | h1
  · cases h1 with
    | calm t => exact h.tr t
    | connect c t => exact h.tr1 t
    | fresh c hn he => rw [he]; exact h.fresh hn
    | release s1 t he => rw [he]; exact h.release t
  · exact h.shr h1

/-! ### the ghost counter: CONNACKs ever appended to the output queues of a connection -/

/-- the number of CONNACKs a step appends to the two output queues of connection `c` (what is behind
    the old contents of `procOut` / `ackOut`; a record that did not exist before starts with empty queues) -/
def connacksPushed (s s' : BState) (c : ConnId) : Nat :=
  match s.conn? c, s'.conn? c with
  | some x, some x' =>
    (x'.procOut.drop x.procOut.length).countP isConnack + (x'.ackOut.drop x.ackOut.length).countP isConnack
  | _, _ => 0

theorem pushed_append {s s' : BState} {c : ConnId} {x x' : BConn} {lp la : List Packet} (hx : s.conn? c = some x)
    (hx' : s'.conn? c = some x') (e1 : x'.procOut = x.procOut ++ lp) (e2 : x'.ackOut = x.ackOut ++ la) :
    connacksPushed s s' c = lp.countP isConnack + la.countP isConnack := by
  unfold connacksPushed
  rw [hx, hx']
  simp only [e1, e2, List.drop_left]

theorem pushed_none {s s' : BState} {c : ConnId} (hx : s.conn? c = none) : connacksPushed s s' c = 0 := by
  unfold connacksPushed; rw [hx]

theorem pushed_recStep {s s' : BState} {c : ConnId} (h : ORel RecStep (s.conn? c) (s'.conn? c)) :
    connacksPushed s s' c = 0 := by
  cases hx : s.conn? c with
  | none => exact pushed_none hx
  | some x =>
    rw [hx] at h
    obtain ⟨x', hx', hr⟩ := h.some_left
    obtain ⟨lp, la, e1, e2, n1, n2, _⟩ := hr.outs
    rw [pushed_append hx hx' e1 e2, n1.countP, n2.countP]

theorem pushed_recObs {s s' : BState} {c : ConnId} (h : ORel RecObs (s.conn? c) (s'.conn? c)) :
    connacksPushed s s' c = 0 := by
  cases hx : s.conn? c with
  | none => exact pushed_none hx
  | some x =>
    rw [hx] at h
    obtain ⟨x', hx', hr⟩ := h.some_left
    obtain ⟨k, ek⟩ := hr.procOut
    obtain ⟨j, ej⟩ := hr.ackOut
    unfold connacksPushed
    rw [hx, hx']
    simp only [ek, ej, List.drop_drop]
    rw [List.drop_eq_nil_of_le (by omega), List.drop_eq_nil_of_le (by omega)]
    rfl

/-- histories in an environment that never reuses a connection identifier, with the ghost counter -/
inductive RunC (cfg : Cfg) : BState → (ConnId → Nat) → Prop where
  | init : RunC cfg { cfg := cfg } (fun _ => 0)
  | step {s s' : BState} {n : ConnId → Nat} : RunC cfg s n → BrokerB4.StepF s s' →
      RunC cfg s' (fun c => n c + connacksPushed s s' c)

/-- the counter of `c` against its record -/
def GIat (o : Option BConn) (m : Nat) : Prop :=
  match o with
  | none => m = 0
  | some x => m ≤ 1 ∧ (x.phase = .connecting → x.alive = true → m = 0)

/-- a record change that is no CONNECT processing, or the appearance of a new connection -/
def QRel (o o' : Option BConn) : Prop :=
  match o, o' with
  | none, _ => True
  | some _, none => False
  | some x, some x' => (x'.phase = .connecting → x.phase = .connecting) ∧ (x'.alive = true → x.alive = true)

theorem giat_keep {o o' : Option BConn} {m : Nat} (h : GIat o m) (hq : QRel o o') : GIat o' m := by
  cases o with
  | none =>
    simp only [GIat] at h
    subst h
    cases o' with
    | none => rfl
    | some x' => exact ⟨by omega, fun _ _ => rfl⟩
  | some x =>
    cases o' with
    | none => exact hq.elim
    | some x' =>
      obtain ⟨q1, q2⟩ := hq
      exact ⟨h.1, fun hp ha => h.2 (q1 hp) (q2 ha)⟩

theorem qrel_recStep {o o' : Option BConn} (h : ORel RecStep o o') : QRel o o' := by
  cases o with
  | none => trivial
  | some x =>
    obtain ⟨x', rfl, hr⟩ := h.some_left
    exact ⟨hr.phase.1, hr.alive⟩

theorem qrel_recObs {o o' : Option BConn} (h : ORel RecObs o o') : QRel o o' := by
  cases o with
  | none => trivial
  | some x =>
    obtain ⟨x', rfl, hr⟩ := h.some_left
    exact ⟨fun hp => by rw [← hr.phase]; exact hp, hr.alive⟩

def GI (s : BState) (n : ConnId → Nat) : Prop := ∀ c, GIat (s.conn? c) (n c)

theorem gi_step {s s' : BState} {n : ConnId → Nat} (hci : CI s) (hg : GI s n) (hs : BrokerB4.StepF s s') :
    GI s' (fun c => n c + connacksPushed s s' c) := by
  intro e
  show GIat (s'.conn? e) (n e + connacksPushed s s' e)
  have calm : ORel RecStep (s.conn? e) (s'.conn? e) → GIat (s'.conn? e) (n e + connacksPushed s s' e) := by
    intro h
    rw [pushed_recStep h, Nat.add_zero]
    exact giat_keep (hg e) (qrel_recStep h)
  rcases stepF_sum hci hs with h1 | h1
  · cases h1 with
    | calm t => exact calm (t.conns e)
    | connect c t =>
      by_cases he : e = c
      · subst he
        obtain ⟨x, x', lp, hx, hx', ha, hp, e1, e2, hcnt, hcond⟩ := t.own
        have h0 := hg e
        rw [hx] at h0
        have hn0 : n e = 0 := h0.2 hp ha
        rw [pushed_append hx hx' e1 (la := []) (by simp [e2]), hx', hn0]
        simp only [List.countP_nil, Nat.add_zero, Nat.zero_add]
        refine ⟨hcnt, fun hpc hal => ?_⟩
        rw [(hcond hpc).1] at hal; cases hal
      · exact calm (t.other e he)
    | fresh c hn heq =>
      subst heq
      by_cases he : e = c
      · subst he
        have h0 := hg e
        rw [hn] at h0
        simp only [GIat] at h0
        rw [pushed_none hn, h0, conn?_setConn, if_pos rfl]
        exact ⟨by omega, fun _ _ => rfl⟩
      · refine calm ?_
        rw [conn?_setConn, if_neg he]; exact orel_recStep_refl _
    | release s1 t heq =>
      subst heq
      exact calm (t.conns e)
  · rw [pushed_recObs (h1.conns e), Nat.add_zero]
    exact giat_keep (hg e) (qrel_recObs (h1.conns e))

theorem runC_inv {cfg : Cfg} {s : BState} {n : ConnId → Nat} (h : RunC cfg s n) : CI s ∧ GI s n := by
  induction h with
  | init => exact ⟨CI.init cfg, fun c => rfl⟩
  | step _ hs ih => exact ⟨ci_step ih.1 hs, gi_step ih.1 ih.2 hs⟩

/-- `RunC` and B4's `RunG` describe the same histories -/
theorem runC_of_runG {cfg : Cfg} {s : BState} {log : List BEvent} (h : BrokerB4.RunG cfg s log) :
    ∃ n, RunC cfg s n := by
  induction h with
  | init => exact ⟨_, RunC.init⟩
  | step _ hs ih => obtain ⟨n, hn⟩ := ih; exact ⟨_, RunC.step hn hs⟩

theorem runG_of_runC {cfg : Cfg} {s : BState} {n : ConnId → Nat} (h : RunC cfg s n) :
    ∃ log, BrokerB4.RunG cfg s log := by
  induction h with
  | init => exact ⟨_, BrokerB4.RunG.init⟩
  | step _ hs ih => obtain ⟨l, hl⟩ := ih; exact ⟨_, BrokerB4.RunG.step hl hs⟩

theorem RunC.reachable {cfg : Cfg} {s : BState} {n : ConnId → Nat} (h : RunC cfg s n) : Reachable cfg s := by
  obtain ⟨l, hl⟩ := runG_of_runC h
  exact hl.reachable

/-- over every history: at most one CONNACK is ever appended to the output queues of a connection -/
theorem connacks_le_one {cfg : Cfg} {s : BState} {n : ConnId → Nat} (h : RunC cfg s n) (c : ConnId) : n c ≤ 1 := by
  have := (runC_inv h).2 c
  cases hx : s.conn? c with
  | none => rw [hx] at this; simp only [GIat] at this; omega
  | some x => rw [hx] at this; exact this.1

/-- the counter is exactly what it is said to be: a stimulus only appends to the queues, and the counter
    grows by the number of CONNACKs among the appended packets -/
theorem stim_only_appends {cfg : Cfg} {s s' : BState} {n : ConnId → Nat} (h : RunC cfg s n) (st : Stim)
    (hfresh : ∀ c, st = .conn c → s.conn? c = none) (ss : List BState) (hst : stim s st = .ok ss) (hm : s' ∈ ss)
    (c : ConnId) (x : BConn) (hx : s.conn? c = some x) :
    ∃ x' lp la, s'.conn? c = some x' ∧ x'.procOut = x.procOut ++ lp ∧ x'.ackOut = x.ackOut ++ la ∧
      connacksPushed s s' c = (lp ++ la).countP isConnack := by
  have hci := (runC_inv h).1
  have calm : ORel RecStep (s.conn? c) (s'.conn? c) →
      ∃ x' lp la, s'.conn? c = some x' ∧ x'.procOut = x.procOut ++ lp ∧ x'.ackOut = x.ackOut ++ la ∧
        connacksPushed s s' c = (lp ++ la).countP isConnack := by
    intro hr
    rw [hx] at hr
    obtain ⟨x', hx', hr⟩ := hr.some_left
    obtain ⟨lp, la, e1, e2, _⟩ := hr.outs
    exact ⟨x', lp, la, hx', e1, e2, by rw [pushed_append hx hx' e1 e2, List.countP_append]⟩
  have hso := RAll_ok (stim_out hci.k3 hci.k2 st hfresh) hst s' hm
  cases hso with
  | calm t => exact calm (t.conns c)
  | connect d t =>
    by_cases he : c = d
    · subst he
      obtain ⟨y, x', lp, hy, hx', _, _, e1, e2, _⟩ := t.own
      rw [hx] at hy; cases hy
      exact ⟨x', lp, [], hx', e1, by simp [e2], by rw [pushed_append hx hx' e1 (la := []) (by simp [e2]), List.countP_append]⟩
    · exact calm (t.other c he)
  | fresh d hn heq =>
    subst heq
    have he : c ≠ d := by intro heq; rw [heq, hn] at hx; cases hx
    refine calm ?_
    rw [conn?_setConn, if_neg he]; exact orel_recStep_refl _
  | release s1 t heq =>
    subst heq
    exact calm (t.conns c)

/-- … and an observation only removes packets from the queues -/
theorem obs_only_removes {s s' : BState} (o : Obs) (hm : s' ∈ observe s o) (c : ConnId) (x : BConn)
    (hx : s.conn? c = some x) :
    ∃ x' k j, s'.conn? c = some x' ∧ x'.procOut = x.procOut.drop k ∧ x'.ackOut = x.ackOut.drop j ∧
      connacksPushed s s' c = 0 := by
  have h1 := observe_shr o hm
  have := h1.conns c
  have hp := pushed_recObs this
  rw [hx] at this
  obtain ⟨x', hx', hr⟩ := this.some_left
  obtain ⟨k, ek⟩ := hr.procOut
  obtain ⟨j, ej⟩ := hr.ackOut
  exact ⟨x', k, j, hx', ek, ej, hp⟩

end BrokerB5
