import Proofs.ClientC09c
import Proofs.ClientFut
/-
  Proofs/ClientC09d.lean — C09: a future completes only after its acknowledgement was read. (K1)
-/
set_option linter.unusedSimpArgs false
set_option linter.unusedVariables false
set_option linter.unnecessarySimpa false
open Cl Cl.St
namespace ClientK1

def lastRecvStep (acc : Option Packet) : Label → Option Packet
  | .recv p => some p
  | .newClient => none
  | _ => acc
/-- the packet the processor read last (on the current client) -/
def lastRecv (tr : List Label) : Option Packet := tr.foldl lastRecvStep none
theorem lastRecv_snoc (tr : List Label) (l : Label) : lastRecv (tr ++ [l]) = lastRecvStep (lastRecv tr) l := by
  simp [lastRecv, List.foldl_append]

def lastApiSendStep (acc : Option Packet) : Label → Option Packet
  | .send .api p true => some p
  | .send .api _ false => none
  | .aReq _ | .aRet _ | .aConnect .. | .aDisconnect _ | .aClose | .newClient => none
  | _ => acc
/-- the packet the current exported call handed to the connection last -/
def lastApiSend (tr : List Label) : Option Packet := tr.foldl lastApiSendStep none
theorem lastApiSend_snoc (tr : List Label) (l : Label) :
    lastApiSend (tr ++ [l]) = lastApiSendStep (lastApiSend tr) l := by
  simp [lastApiSend, List.foldl_append]

/-- what the processor's program counter says about the packet read last -/
def Expect (pc : Proc) (lr : Option Packet) : Prop :=
  match pc with
  | .aDel k id | .aGet k id | .aFin k id _ => ∃ p, lr = some p ∧ AckFor k id p
  | .ck1 sp code | .ck2 sp code => lr = some (.connack sp code)
  | .ck3 sp code | .ck4 sp code => lr = some (.connack sp code) ∧ code = 0
  | _ => True

def RecvInv (s : St) (tr : List Label) : Prop := Expect s.proc (lastRecv tr)

theorem recvInv_stepProc {fx s s' l tr} (h : stepProc fx s l = some s') (hi : RecvInv s tr) :
    RecvInv s' (tr ++ [l]) := by
  unfold RecvInv at *
  rw [lastRecv_snoc]
  unfold stepProc at h
  split_all h
  all_goals (first
    | (simp at h; done)
    | (simp at h; subst h; simp_all [Expect, lastRecvStep, procDie, procExit, goroutineExit, AckFor]; done)
    | skip)
  all_goals (first
    | (simp at h; subst h; rw [procErr_proc_eq]; split <;> simp [Expect]; done)
    | (simp at h; subst h; rw [procAfter_proc_eq]; split <;> simp [Expect]; done))

theorem lastRecvStep_other {acc l} (h : ∀ p, l ≠ .recv p) (hn : l ≠ .newClient) : lastRecvStep acc l = acc := by
  cases l <;> simp [lastRecvStep] at * 

theorem stepApi_not_recv {fx s s' l} (h : stepApi fx s l = some s') (ht : threadOf l = some .api) :
    (∀ p, l ≠ .recv p) ∧ l ≠ .newClient := by
  constructor
  · intro p hp; subst hp; simp [threadOf] at ht
  · intro hp; subst hp; simp [threadOf] at ht

theorem recvInv_step {fx s s' l tr} (h : step fx s l = some s') (hi : RecvInv s tr) :
    RecvInv s' (tr ++ [l]) := by
  unfold step at h
  split at h
  · rename_i ht
    obtain ⟨h1, h2⟩ := stepApi_not_recv h ht
    unfold RecvInv at *
    rw [lastRecv_snoc, lastRecvStep_other h1 h2]
    rcases stepApi_proc h with hp | hp
    · rw [hp]; exact hi
    · rw [hp]; simp [Expect]
  · exact recvInv_stepProc h hi
  · rename_i ht
    unfold RecvInv at *
    rw [lastRecv_snoc, lastRecvStep_other (by intro p hp; subst hp; simp [threadOf] at ht)
      (by intro hp; subst hp; simp [threadOf] at ht), stepPing_proc h]
    exact hi
  · split at h
    · simp at h; subst h; simp [RecvInv, renew, Expect]
    · simp at h

theorem recvInv_reach {fx s tr} (h : ReachT fx s tr) : RecvInv s tr := by
  induction h with
  | init => simp [RecvInv, Expect]
  | step l _ hs ih => exact recvInv_step hs ih

/-- QoS 0: when the exported method completes its own future, the PUBLISH has been accepted by
    the connection -/
def SentInv (s : St) (tr : List Label) : Prop :=
  ∀ r id h, s.api = .rDone r id h → lastApiSend tr = some (r.pkt id) ∧ r.needsID = false

theorem sentInv_stepApi {fx s s' l tr} (h : stepApi fx s l = some s') (hi : SentInv s tr) :
    SentInv s' (tr ++ [l]) := by
  intro r id hh ha
  rw [lastApiSend_snoc]
  unfold stepApi at h
  split_all h
  all_goals (first
    | (simp at h; done)
    | (simp at h; subst h; simp [apiFail, sendLog, addFut, storePut, storeDel, resolve] at ha; done)
    | skip)
  all_goals (simp at h; subst h; simp at ha; obtain ⟨rfl, rfl, rfl⟩ := ha; simp_all [lastApiSendStep])

theorem lastApiSendStep_other {acc l} (h : threadOf l ≠ some .api) (hn : l ≠ .newClient) :
    lastApiSendStep acc l = acc := by
  cases l <;> simp [lastApiSendStep, threadOf] at * <;> (try rename_i t _ _; cases t <;> simp_all)

theorem sentInv_step {fx s s' l tr} (h : step fx s l = some s') (hi : SentInv s tr) :
    SentInv s' (tr ++ [l]) := by
  unfold step at h
  split at h
  · exact sentInv_stepApi h hi
  · rename_i ht
    intro r id hh ha
    rw [lastApiSend_snoc, lastApiSendStep_other (by simp [ht]) (by intro hc; subst hc; simp [threadOf] at ht)]
    rw [stepProc_api h] at ha; exact hi r id hh ha
  · rename_i ht
    intro r id hh ha
    rw [lastApiSend_snoc, lastApiSendStep_other (by simp [ht]) (by intro hc; subst hc; simp [threadOf] at ht)]
    rw [stepPing_api h] at ha; exact hi r id hh ha
  · split at h
    · simp at h; subst h; intro r id hh ha; simp [renew] at ha
    · simp at h

theorem sentInv_reach {fx s tr} (h : ReachT fx s tr) : SentInv s tr := by
  induction h with
  | init => intro r id hh ha; simp at ha
  | step l _ hs ih => exact sentInv_step hs ih

/-- why a future may turn from pending to completed -/
def Truthful (s : St) (tr : List Label) (h : Nat) (r : FRes) : Prop :=
  (∃ sp, s.cfut = some h ∧ r = .connack sp 0 ∧ lastRecv tr = some (.connack sp 0))
  ∨ (∃ k id p, s.proc = .aFin k id h ∧ lastRecv tr = some p ∧ AckFor k id p)
  ∨ (∃ rq id, s.api = .rDone rq id h ∧ r = .nil ∧ lastApiSend tr = some (rq.pkt id) ∧ rq.needsID = false)

theorem cleanStep_completed {s s' : St} {t c l r'} (h : cleanStep s t c l = some (s', r')) (i : Nat) (r : FRes) :
    s'.futs[i]? = some (.completed r) → s.futs[i]? = some (.completed r) := by
  unfold cleanStep at h
  split_all h
  all_goals (first
    | (simp at h; done)
    | (simp at h; obtain ⟨h1, _⟩ := h; subst h1; simp [resolve, storeClear, resolveF_cancel_completed, clearF_completed]; done)
    | skip)

theorem dieStep_completed {s s' : St} {t d l r'} (h : dieStep s t d l = some (s', r')) (i : Nat) (r : FRes) :
    s'.futs[i]? = some (.completed r) → s.futs[i]? = some (.completed r) := by
  unfold dieStep at h
  split_all h
  all_goals (first
    | (simp at h; done)
    | (simp at h; obtain ⟨h1, _⟩ := h; subst h1; simp [resolve]; done)
    | skip)
  all_goals (have hc := cleanStep_completed (by assumption) i r; simp at h; obtain ⟨h1, _⟩ := h; subst h1; exact hc)

theorem procAfter_completed (s : St) (a : DAfter) (i : Nat) (r : FRes) :
    (s.procAfter a).futs[i]? = some (.completed r) → s.futs[i]? = some (.completed r) := by
  cases a <;> simp [procAfter, procExit, goroutineExit, resolve]
  split <;> simp [resolveF_cancel_completed]
theorem procErr_futs (fx : Fix) (s : St) : (procErr fx s).futs = s.futs := by
  simp [procErr]; split <;> simp [procDie, procExit, goroutineExit]

theorem truthful_stepProc {fx s s' l tr i r} (hj : RecvInv s tr) (h : stepProc fx s l = some s')
    (hp : s.futs[i]? = some .pending) (hc : s'.futs[i]? = some (.completed r)) : Truthful s tr i r := by
  unfold RecvInv at hj
  unfold stepProc at h
  split_all h
  all_goals (first
    | (simp at h; done)
    | (simp at h; subst h; simp [procDie, procExit, goroutineExit, sendLog, markDup, storeDel, hp] at hc; done)
    | skip)
  · simp at h; subst h; simp [resolve, resolveF_getElem?, hp] at hc
    simp_all [Expect]
    split at hc
    · rename_i hh; obtain ⟨rfl, _⟩ := hh; simp at hc; subst hc
      obtain ⟨hl, rfl⟩ := hj
      left; exact ⟨_, by assumption, rfl, hl⟩
    · simp at hc
  · simp at h; subst h; simp [procErr_futs, hp] at hc
  · simp at h; subst h; simp [procErr_futs, resolve, storeDel, resolveF_cancel_completed, hp] at hc
  · simp at h; subst h; simp [resolve, storeDel, resolveF_getElem?, hp] at hc
    simp_all [Expect]
    split at hc
    · rename_i hh; obtain ⟨rfl, _⟩ := hh
      obtain ⟨p, hl, hk⟩ := hj
      right; left; exact ⟨_, _, p, by assumption, hl, hk⟩
    · simp at hc
  · simp at h; subst h; simp [resolve, storeDel, resolveF_getElem?, hp] at hc
    simp_all [Expect]
    split at hc
    · rename_i hh; obtain ⟨rfl, _⟩ := hh
      obtain ⟨p, hl, hk⟩ := hj
      right; left; exact ⟨_, _, p, by assumption, hl, hk⟩
    · simp at hc
  · have hd := dieStep_completed (by assumption) i r
    simp at h; subst h; simp at hc; simp [hd hc] at hp
  · have hd := dieStep_completed (by assumption) i r
    simp at h; subst h
    have := hd (procAfter_completed _ _ _ _ hc); simp [this] at hp

theorem truthful_stepPing {s s' : St} {l : Label} {i : Nat} {r : FRes} (h : stepPing s l = some s')
    (hp : s.futs[i]? = some FSt.pending) (hc : s'.futs[i]? = some (FSt.completed r)) : False := by
  unfold stepPing at h
  split_all h
  all_goals (first
    | (simp at h; done)
    | (simp at h; subst h; simp [pingExit, goroutineExit, sendLog, mkDie, hp] at hc; done)
    | skip)
  all_goals (
    have hd := dieStep_completed (by assumption) i r
    simp at h; subst h; simp [pingExit, goroutineExit] at hc; simp [hd hc] at hp)

theorem truthful_stepApi {fx s s' l tr i r} (hj : SentInv s tr) (h : stepApi fx s l = some s')
    (hp : s.futs[i]? = some .pending) (hc : s'.futs[i]? = some (.completed r)) : Truthful s tr i r := by
  unfold stepApi at h
  split_all h
  all_goals (first
    | (simp at h; done)
    | (simp at h; subst h; simp [apiFail, sendLog, storeDel, hp] at hc; done)
    | skip)
  all_goals (first
    | (simp at h; subst h
       have hlt : i < s.futs.length := by
         rcases Nat.lt_or_ge i s.futs.length with hl | hl
         · exact hl
         · simp [List.getElem?_eq_none hl] at hp
       simp [addFut, storePut, List.getElem?_append_left hlt, hp] at hc; done)
    | (simp at h; subst h
       have hlt : i < s.futs.length := by
         rcases Nat.lt_or_ge i s.futs.length with hl | hl
         · exact hl
         · simp [List.getElem?_eq_none hl] at hp
       simp only [addFut, storePut] at hc
       simp [cancelOpt_completed, List.getElem?_append_left hlt, hp] at hc; done)
    | (simp at h; subst h; simp [resolve, storeDel, resolveF_cancel_completed, hp] at hc; done)
    | (have hd := cleanStep_completed (by assumption) i r
       simp at h; subst h; simp at hc; simp [hd hc] at hp; done)
    | skip)
  · have hs := hj _ _ _ (by assumption)
    simp at h; subst h; simp [resolve, storeDel, resolveF_getElem?, hp] at hc
    split at hc
    · rename_i hh; obtain ⟨rfl, _⟩ := hh; simp at hc; subst hc
      right; right; exact ⟨_, _, by assumption, rfl, hs.1, hs.2⟩
    · simp at hc

/-- **futures are truthful**: in every run, a future turns from pending to completed only
    (a) the connect future, by the processor, the packet read last being an accepting CONNACK;
    (b) a request future, by the processor inside the handler of an acknowledgement for the id under
        which that future was found in the store, that acknowledgement being the packet read last;
    (c) the future of a QoS 0 publish, by the exported method itself, directly after the
        connection accepted that PUBLISH. -/
theorem future_truthful_trace {fx s s' tr l i r} (hr : ReachT fx s tr) (h : step fx s l = some s')
    (hp : s.futs[i]? = some .pending) (hc : s'.futs[i]? = some (.completed r)) : Truthful s tr i r := by
  unfold step at h
  split at h
  · exact truthful_stepApi (sentInv_reach hr) h hp hc
  · exact truthful_stepProc (recvInv_reach hr) h hp hc
  · exact (truthful_stepPing h hp hc).elim
  · split at h
    · simp at h; subst h; simp [renew, hp] at hc
    · simp at h

end ClientK1
