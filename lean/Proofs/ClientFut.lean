import Model.Client
/-
  Proofs/ClientFut.lean — lemmas about the list of futures (`resolveF`, `clearF`). (K1)
-/
open Cl Cl.St
namespace ClientK1

theorem resolveF_length (f : List FSt) (i : Nat) (v : FSt) : (resolveF f i v).length = f.length := by
  induction f generalizing i with
  | nil => simp [resolveF]
  | cons x t ih =>
    cases i with
    | zero => cases x <;> simp [resolveF]
    | succ n => simp [resolveF, ih]

theorem resolveF_getElem? (f : List FSt) (i : Nat) (v : FSt) (h : Nat) :
    (resolveF f i v)[h]? = if h = i ∧ f[i]? = some .pending then some v else f[h]? := by
  induction f generalizing i h with
  | nil => simp [resolveF]
  | cons x t ih =>
    cases i with
    | zero =>
      cases h with
      | zero => cases x <;> simp [resolveF]
      | succ m => cases x <;> simp [resolveF]
    | succ n =>
      cases h with
      | zero => simp [resolveF]
      | succ m => simp [resolveF, ih]

/-- a future that is not pending keeps its value -/
theorem resolveF_keeps (f : List FSt) (i : Nat) (v : FSt) (h : Nat) (x : FSt) (hx : f[h]? = some x)
    (hp : x ≠ .pending) : (resolveF f i v)[h]? = some x := by
  rw [resolveF_getElem?]
  split
  · rename_i hc; obtain ⟨rfl, hc⟩ := hc; rw [hx] at hc; simp at hc; exact absurd hc hp
  · exact hx

/-- resolving with a cancellation never creates a completed future -/
theorem resolveF_cancel_completed (f : List FSt) (i : Nat) (c : FRes) (h : Nat) (r : FRes) :
    (resolveF f i (.cancelled c))[h]? = some (.completed r) ↔ f[h]? = some (.completed r) := by
  rw [resolveF_getElem?]
  split
  · rename_i hc; obtain ⟨rfl, hc⟩ := hc; simp [hc]
  · rfl

theorem clearF_length (st : List (UInt16 × Nat)) (f : List FSt) : (clearF st f).length = f.length := by
  induction st generalizing f with
  | nil => rfl
  | cons e t ih => simp [clearF, List.foldl_cons] at ih ⊢; rw [ih]; exact resolveF_length _ _ _

theorem clearF_completed (st : List (UInt16 × Nat)) (f : List FSt) (h : Nat) (r : FRes) :
    (clearF st f)[h]? = some (.completed r) ↔ f[h]? = some (.completed r) := by
  induction st generalizing f with
  | nil => rfl
  | cons e t ih =>
    simp only [clearF, List.foldl_cons] at ih ⊢
    rw [ih, resolveF_cancel_completed]

theorem resolveF_cancel_not_pending (f : List FSt) (i : Nat) (c : FRes) (h : Nat)
    (hn : f[h]? ≠ some .pending) : (resolveF f i (.cancelled c))[h]? ≠ some .pending := by
  rw [resolveF_getElem?]; split <;> simp_all

theorem resolveF_self_not_pending (f : List FSt) (i : Nat) (c : FRes) :
    (resolveF f i (.cancelled c))[i]? ≠ some .pending := by
  rw [resolveF_getElem?]; split
  · simp
  · rename_i hc; simpa using hc

theorem clearF_mono (st : List (UInt16 × Nat)) (f : List FSt) (h : Nat)
    (hn : f[h]? ≠ some .pending) : (clearF st f)[h]? ≠ some .pending := by
  induction st generalizing f with
  | nil => exact hn
  | cons e t ih =>
    simp only [clearF, List.foldl_cons] at ih ⊢
    exact ih _ (resolveF_cancel_not_pending _ _ _ _ hn)

/-- after `Clear` no future that was in the store is pending -/
theorem clearF_not_pending (st : List (UInt16 × Nat)) (f : List FSt) (h : Nat)
    (hm : h ∈ st.map (·.2)) : (clearF st f)[h]? ≠ some .pending := by
  induction st generalizing f with
  | nil => simp at hm
  | cons e t ih =>
    simp only [List.map_cons, List.mem_cons] at hm
    rcases hm with rfl | hm
    · have := clearF_mono t _ _ (resolveF_self_not_pending f e.2 .nil)
      simpa [clearF, List.foldl_cons] using this
    · have := ih (resolveF f e.2 (.cancelled .nil)) hm
      simpa [clearF, List.foldl_cons] using this

/-- `Clear` keeps non-pending futures and can only cancel pending ones -/
theorem clearF_getElem? (st : List (UInt16 × Nat)) (f : List FSt) (h : Nat) :
    (clearF st f)[h]? = f[h]? ∨ (f[h]? = some .pending ∧ (clearF st f)[h]? = some (.cancelled .nil)) := by
  induction st generalizing f with
  | nil => left; rfl
  | cons e t ih =>
    simp only [clearF, List.foldl_cons] at ih ⊢
    rcases ih (resolveF f e.2 (.cancelled .nil)) with h1 | ⟨h1, h2⟩
    · rw [h1, resolveF_getElem?]
      split
      · rename_i hc; obtain ⟨rfl, hc⟩ := hc; right; exact ⟨hc, rfl⟩
      · left; rfl
    · rw [resolveF_getElem?] at h1
      split at h1
      · simp at h1
      · right; exact ⟨h1, h2⟩

/-- resolving never creates a pending future, and the resolved one is not pending afterwards -/
theorem resolveF_pending (f : List FSt) (i : Nat) (v : FSt) (h : Nat) (hv : v ≠ .pending)
    (hp : (resolveF f i v)[h]? = some .pending) : f[h]? = some .pending ∧ h ≠ i := by
  rw [resolveF_getElem?] at hp
  split at hp
  · simp at hp; exact absurd hp hv
  · rename_i hc
    refine ⟨hp, ?_⟩
    intro e; subst e
    exact hc ⟨rfl, hp⟩

theorem append_pending (f : List FSt) (h : Nat) (hp : (f ++ [FSt.pending])[h]? = some .pending) :
    f[h]? = some .pending ∨ h = f.length := by
  rcases Nat.lt_trichotomy h f.length with hl | hl | hl
  · left; rwa [List.getElem?_append_left hl] at hp
  · right; exact hl
  · rw [List.getElem?_eq_none (by simp; omega)] at hp; simp at hp

theorem clearF_pending (st : List (UInt16 × Nat)) (f : List FSt) (h : Nat)
    (hp : (clearF st f)[h]? = some .pending) : f[h]? = some .pending ∧ h ∉ st.map (·.2) := by
  constructor
  · rcases clearF_getElem? st f h with h1 | ⟨_, h2⟩
    · rw [h1] at hp; exact hp
    · rw [h2] at hp; simp at hp
  · intro hm; exact clearF_not_pending st f h hm hp

/-- `Store.Put` cancelling a displaced future does not change the number of futures -/
@[simp] theorem cancelOpt_length (f : List FSt) (o : Option Nat) : (cancelOpt f o).length = f.length := by
  cases o <;> simp [cancelOpt, resolveF_length]

@[simp] theorem cancelOpt_none (f : List FSt) : cancelOpt f none = f := rfl

theorem cancelOpt_completed (f : List FSt) (o : Option Nat) (h : Nat) (r : FRes) :
    (cancelOpt f o)[h]? = some (.completed r) ↔ f[h]? = some (.completed r) := by
  cases o <;> simp [cancelOpt, resolveF_cancel_completed]

theorem cancelOpt_pending (f : List FSt) (o : Option Nat) (h : Nat)
    (hp : (cancelOpt f o)[h]? = some .pending) : f[h]? = some .pending := by
  cases o with
  | none => exact hp
  | some old => exact (resolveF_pending _ _ _ _ (by simp) hp).1

end ClientK1
