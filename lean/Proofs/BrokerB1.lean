import Model.Broker
import Props.C04
import Props.C05
import Proofs.BrokerFan
/-
  Proofs/BrokerB1.lean — helper lemmas for Props/C06.lean and Props/C11.lean:
  association lists, `Rel2`, `Res.bind`, the session accessors of `BState`, list-equality versions
  of the `stored` lemmas for `Node.set` / `Node.remove none`, `backendPublish`, `subscribeRetained`,
  `kill`.
-/
namespace BrokerB1
open BState Node

/-! ### association lists -/

theorem get_set_same {κ α : Type} [DecidableEq κ] (l : List (κ × α)) (k : κ) (a : α) :
    Assoc.get (Assoc.set l k a) k = some a := by
  unfold Assoc.set Assoc.get
  split
  · rename_i h
    induction l with
    | nil => simp at h
    | cons e rest ih =>
      by_cases he : e.1 = k
      · simp [he]
      · simp only [List.any_cons, he, decide_false, Bool.false_or] at h
        simp [List.map_cons, he]
        simpa using ih h
  · rename_i h
    have hn : l.find? (fun e => decide (e.1 = k)) = none := by
      rw [List.find?_eq_none]
      intro e he hk
      exact h (List.any_eq_true.2 ⟨e, he, hk⟩)
    simp [List.find?_append, hn]

/-! ### `Rel2` -/

theorem Rel2.get {κ : Type} [DecidableEq κ] {R : κ × BSess → κ × BSess → Prop}
    (hk : ∀ e e', R e e' → e'.1 = e.1) {l l' : List (κ × BSess)} (h : Rel2 R l l')
    (k : κ) (b : BSess) (hg : Assoc.get l k = some b) :
    ∃ b', Assoc.get l' k = some b' ∧ R (k, b) (k, b') := by
  induction h with
  | nil => simp [Assoc.get] at hg
  | @cons e e' l l' hr _ ih =>
    have h1 := hk _ _ hr
    unfold Assoc.get at hg ⊢
    by_cases he : e.1 = k
    · simp only [List.find?_cons, he, decide_true, Option.map_some, Option.some.injEq] at hg
      have he' : e'.1 = k := by rw [h1, he]
      refine ⟨e'.2, by simp [he'], ?_⟩
      have e1 : e = (k, b) := by rw [← he, ← hg]
      have e2 : e' = (k, e'.2) := by rw [← he']
      rw [← e1, ← e2]; exact hr
    · have he' : ¬ e'.1 = k := by rw [h1]; exact he
      simp only [List.find?_cons, he, decide_false] at hg
      simp only [List.find?_cons, he', decide_false]
      exact ih hg

theorem Rel2.length {α β : Type} {R : α → β → Prop} {l : List α} {l' : List β} (h : Rel2 R l l') :
    l'.length = l.length := by
  induction h with
  | nil => rfl
  | cons _ _ ih => simp [ih]

theorem Rel2.getElem? {α β : Type} {R : α → β → Prop} {l : List α} {l' : List β} (h : Rel2 R l l')
    (i : Nat) (a : α) (hi : l[i]? = some a) : ∃ a', l'[i]? = some a' ∧ R a a' := by
  induction h generalizing i with
  | nil => simp at hi
  | cons hr _ ih =>
    cases i with
    | zero => simp at hi; subst hi; exact ⟨_, by simp, hr⟩
    | succ i => simp at hi; simpa using ih i hi

/-! ### `Res.bind` -/

def bindStep (f : BState → Res) (acc : Res) (s : BState) : Res :=
  match acc, f s with
  | Res.unsupported w, _ => Res.unsupported w
  | _, Res.unsupported w => Res.unsupported w
  | Res.ok a, Res.ok b => Res.ok (a ++ b)

theorem bind_eq (r : Res) (f : BState → Res) :
    Res.bind r f = match r with
      | Res.unsupported w => Res.unsupported w
      | Res.ok ss => ss.foldl (bindStep f) (Res.ok []) := by
  cases r <;> rfl

theorem foldl_unsupported (f : BState → Res) (ss : List BState) (w : String) :
    ss.foldl (bindStep f) (Res.unsupported w) = Res.unsupported w := by
  induction ss with
  | nil => rfl
  | cons s rest ih => simpa [List.foldl_cons, bindStep] using ih

theorem foldl_ok (f : BState → Res) (ss : List BState) :
    ∀ (a out : List BState), ss.foldl (bindStep f) (Res.ok a) = Res.ok out →
      ∀ s', s' ∈ out → s' ∈ a ∨ ∃ s0 ∈ ss, ∃ ss1, f s0 = Res.ok ss1 ∧ s' ∈ ss1 := by
  induction ss with
  | nil =>
    intro a out h s' hs'
    simp only [List.foldl_nil, Res.ok.injEq] at h
    subst h; exact Or.inl hs'
  | cons s rest ih =>
    intro a out h s' hs'
    simp only [List.foldl_cons] at h
    cases hf : f s with
    | unsupported w =>
      simp only [bindStep, hf, foldl_unsupported] at h
      cases h
    | ok b =>
      simp only [bindStep, hf] at h
      rcases ih _ _ h s' hs' with h1 | ⟨s0, h0, ss1, h1, h2⟩
      · rcases List.mem_append.1 h1 with h1 | h1
        · exact Or.inl h1
        · exact Or.inr ⟨s, by simp, b, hf, h1⟩
      · exact Or.inr ⟨s0, by simp [h0], ss1, h1, h2⟩

/-- membership in the outcome of `Res.bind` -/
theorem mem_bind {r : Res} {f : BState → Res} {out : List BState} (h : Res.bind r f = Res.ok out)
    {s' : BState} (hs' : s' ∈ out) :
    ∃ ss0, r = Res.ok ss0 ∧ ∃ s0 ∈ ss0, ∃ ss1, f s0 = Res.ok ss1 ∧ s' ∈ ss1 := by
  rw [bind_eq] at h
  cases r with
  | unsupported w => cases h
  | ok ss =>
    simp only at h
    rcases foldl_ok f ss [] out h s' hs' with h1 | h1
    · cases h1
    · exact ⟨ss, rfl, h1⟩

/-! ### session accessors -/

theorem conn?_setConn_same (s : BState) (c : ConnId) (x : BConn) : (s.setConn c x).conn? c = some x :=
  get_set_same _ _ _

theorem sessOf_eq (s : BState) (c : ConnId) (x : BConn) (hc : s.conn? c = some x) :
    s.sessOf c = (match x.sref with
      | .none => none
      | .temp => Assoc.get s.temp c
      | .stored id => Assoc.get s.stored id) := by
  unfold sessOf
  rw [hc]
  rfl

theorem sessOf_same (s s' : BState) (c : ConnId) (x x' : BConn) (hc : s.conn? c = some x)
    (hc' : s'.conn? c = some x') (hr : x'.sref = x.sref) (ht : s'.temp = s.temp)
    (hs : s'.stored = s.stored) : s'.sessOf c = s.sessOf c := by
  rw [sessOf_eq s c x hc, sessOf_eq s' c x' hc', hr, ht, hs]

theorem setSessOf_frame (s : BState) (c : ConnId) (b : BSess) :
    (s.setSessOf c b).conns = s.conns ∧ (s.setSessOf c b).cfg = s.cfg ∧
    (s.setSessOf c b).retained = s.retained ∧ (s.setSessOf c b).rmsgs = s.rmsgs ∧
    (s.setSessOf c b).nextGroup = s.nextGroup ∧ (s.setSessOf c b).lateAck = s.lateAck ∧
    (s.setSessOf c b).neverAck = s.neverAck ∧ (s.setSessOf c b).pendingAcks = s.pendingAcks := by
  unfold setSessOf
  split
  · split <;> simp
  · simp

theorem conn?_setSessOf (s : BState) (c c' : ConnId) (b : BSess) :
    (s.setSessOf c b).conn? c' = s.conn? c' := by
  unfold conn?
  rw [(setSessOf_frame s c b).1]

theorem sessOf_setSessOf (s : BState) (c : ConnId) (b b' : BSess) (hb : s.sessOf c = some b) :
    (s.setSessOf c b').sessOf c = some b' := by
  cases hc : s.conn? c with
  | none => simp [sessOf, hc] at hb
  | some x =>
    have hc' : (s.setSessOf c b').conn? c = some x := by rw [conn?_setSessOf]; exact hc
    rw [sessOf_eq _ c x hc']
    rw [sessOf_eq _ c x hc] at hb
    unfold setSessOf
    rw [hc]
    cases hr : x.sref with
    | none => rw [hr] at hb; cases hb
    | temp => simp only [hr]; exact get_set_same _ _ _
    | stored id => simp only [hr]; exact get_set_same _ _ _

theorem conn?_updConn_same (s : BState) (c : ConnId) (f : BConn → BConn) :
    (s.updConn c f).conn? c = (s.conn? c).map f := by
  unfold updConn
  cases hc : s.conn? c with
  | none => simp [hc]
  | some x => simp [conn?_setConn_same]

theorem updConn_frame (s : BState) (c : ConnId) (f : BConn → BConn) :
    (s.updConn c f).temp = s.temp ∧ (s.updConn c f).stored = s.stored ∧
    (s.updConn c f).retained = s.retained ∧ (s.updConn c f).rmsgs = s.rmsgs ∧
    (s.updConn c f).cfg = s.cfg ∧ (s.updConn c f).nextGroup = s.nextGroup ∧
    (s.updConn c f).pendingAcks = s.pendingAcks := by
  unfold updConn
  split <;> simp [setConn]

/-! ### list-equality versions of the `stored` lemmas -/

/-- `Set` replaces the value list under its path by the singleton, every other path keeps its list -/
theorem stored_set (v : Val) (p : List Level) (n : Node) (q : List Level) :
    stored (Node.set v p n) q = if q = p then [v] else stored n q := by
  induction p generalizing n q with
  | nil =>
    obtain ⟨vs, cs⟩ := n
    rw [set_nil]
    cases q with
    | nil => simp [values]
    | cons l' ls' => simp [stored_cons_o]
  | cons l ls ih =>
    obtain ⟨vs, cs⟩ := n
    rw [set_cons, stored_mk_setChild]
    cases q with
    | nil => simp [values]
    | cons l' ls' =>
      by_cases e : l' = l
      · subst e
        simp only [if_true, ih, stored_cons_o, List.cons.injEq, true_and]
      · simp [e]

/-- `Empty` clears the value list under its path, every other path keeps its list -/
theorem stored_remove_none (p : List Level) (n : Node) (hw : WF n) (q : List Level) :
    stored (Node.remove none p n).1 q = if q = p then [] else stored n q := by
  induction p generalizing n q with
  | nil =>
    obtain ⟨vs, cs⟩ := n
    rw [remove_nil]
    cases q with
    | nil => simp [newVals, values]
    | cons l' ls' => simp [stored_cons_o]
  | cons l ls ih =>
    obtain ⟨vs, cs⟩ := n
    rw [WF_mk] at hw
    cases hc : child? cs l with
    | none =>
      rw [remove_cons_none _ _ _ _ _ hc]
      by_cases e : q = l :: ls
      · subst e
        rw [if_pos rfl, stored_cons_o, hc]; simp
      · rw [if_neg e]
    | some c =>
      rw [remove_cons_some _ _ _ _ _ _ hc]
      have hcm := child?_some_mem hc
      have ihc := ih c (hw.2 _ hcm)
      cases hf : (remove none ls c).2 with
      | true =>
        have he := remove_flag_true none ls c hf
        simp only [if_true]
        rw [stored_mk_delChild _ _ _ hw.1]
        cases q with
        | nil => simp [values]
        | cons l' ls' =>
          by_cases e : l' = l
          · subst e
            have := ihc ls'
            rw [he] at this
            simp only [if_true, stored_cons_o, hc, Option.getD_some, List.cons.injEq, true_and]
            simpa using this
          · simp [e]
      | false =>
        simp only [Bool.false_eq_true, if_false]
        rw [stored_mk_setChild]
        cases q with
        | nil => simp [values]
        | cons l' ls' =>
          by_cases e : l' = l
          · subst e
            simp only [if_true, stored_cons_o, hc, Option.getD_some, List.cons.injEq, true_and]
            exact ihc ls'
          · simp [e]

/-! ### `backendPublish` -/

/-- the retained store after `Backend.Publish` of `m` -/
def retAfter (r : Node) (rm : List Message) (m : Message) : Node × List Message :=
  if m.retain then
    (if m.payload.length > 0 then (Tree.set m.topic rm.length r, rm ++ [m])
     else (Tree.emptyTopic m.topic r, rm))
  else (r, rm)

/-- the state in which the fan-out of `backendPublish` starts -/
def pubStart (s : BState) (c : ConnId) (m : Message) : BState :=
  { s with bevents := s.bevents ++ [BEvent.publish c m],
           retained := (retAfter s.retained s.rmsgs m).1, rmsgs := (retAfter s.retained s.rmsgs m).2,
           nextGroup := s.nextGroup + 1 }

theorem backendPublish_eq (s : BState) (c : ConnId) (m : Message) :
    backendPublish s c m =
      match fanTemp s.cfg c { m with retain := false } s.nextGroup s.temp [] with
      | .error e => .unsupported e
      | .ok (temp', full1) =>
        if full1 then .queueFull { pubStart s c m with temp := temp' } else
        match fanStored s.cfg c { m with retain := false } s.nextGroup s.stored [] with
        | .error e => .unsupported e
        | .ok (stored', full2) =>
          if full2 then .queueFull { pubStart s c m with temp := temp', stored := stored' }
          else .ok { pubStart s c m with temp := temp', stored := stored' } := by
  unfold backendPublish pubStart retAfter
  by_cases hr : m.retain = true <;> by_cases hp : m.payload.length > 0 <;> simp only [hr, hp, if_true, if_false] <;> rfl

theorem backendPublish_ok (s s' : BState) (c : ConnId) (m : Message) (h : backendPublish s c m = .ok s') :
    fanTemp s.cfg c { m with retain := false } s.nextGroup s.temp [] = .ok (s'.temp, false) ∧
    fanStored s.cfg c { m with retain := false } s.nextGroup s.stored [] = .ok (s'.stored, false) ∧
    s' = { pubStart s c m with temp := s'.temp, stored := s'.stored } := by
  rw [backendPublish_eq] at h
  split at h
  · cases h
  · rename_i temp' full1 hft
    split at h
    · cases h
    · rename_i hf1
      split at h
      · cases h
      · rename_i stored' full2 hfs
        split at h
        · cases h
        · rename_i hf2
          injection h with h
          subst h
          simp only [Bool.not_eq_true] at hf1 hf2
          subst hf1; subst hf2
          exact ⟨hft, hfs, rfl⟩

theorem backendPublish_full (s s' : BState) (c : ConnId) (m : Message) (h : backendPublish s c m = .queueFull s') :
    ∃ t st, s' = { pubStart s c m with temp := t, stored := st } := by
  rw [backendPublish_eq] at h
  split at h
  · cases h
  · rename_i temp' full1 hft
    split at h
    · injection h with h
      exact ⟨temp', s.stored, h.symm⟩
    · split at h
      · cases h
      · rename_i stored' full2 hfs
        split at h
        · injection h with h
          exact ⟨temp', stored', h.symm⟩
        · cases h

/-! ### `queueRetained`, `subscribeRetained` -/

theorem queueRetained_ok (cfg : Cfg) (ms : List Message) (g : Nat) :
    ∀ (b b' : BSess), queueRetained cfg b ms g = some b' →
      b'.tempQ = b.tempQ ++ ms.map (fun m => (g, applyQOS b m)) ∧ b'.storedQ = b.storedQ ∧ b'.subs = b.subs ∧
      b'.sess = b.sess ∧ b'.active = b.active := by
  induction ms with
  | nil =>
    intro b b' h
    simp only [queueRetained, Option.some.injEq] at h
    subst h; simp
  | cons m rest ih =>
    intro b b' h
    simp only [queueRetained] at h
    split at h
    · obtain ⟨h1, h2, h3, h4, h5⟩ := ih _ _ h
      refine ⟨?_, h2, h3, h4, h5⟩
      rw [h1]
      have e : ∀ m', applyQOS { b with tempQ := b.tempQ ++ [(g, applyQOS b m)] } m' = applyQOS b m' :=
        fun m' => BrokerFan.applyQOS_congr rfl m'
      simp [e]
    · cases h

/-- the replayed retained messages of one filter, as found in the store -/
def replayOne (s : BState) (f : Bytes) : List Message :=
  (Tree.search f s.retained).filterMap (fun i => s.rmsgs[i]?)

/-- everything a SUBSCRIBE appends to the temporary queue: one group per filter, every message
    capped by the grant of session `b` (the session with the subscriptions of the SUBSCRIBE stored) -/
def replay (s : BState) (b : BSess) : Nat → List Subscription → List (Nat × Message)
  | _, [] => []
  | g, sub :: rest => (replayOne s sub.topic).map (fun m => (g, applyQOS b m)) ++ replay s b (g + 1) rest

theorem replay_congr (s1 s2 : BState) (h1 : s1.retained = s2.retained) (h2 : s1.rmsgs = s2.rmsgs)
    (b1 b2 : BSess) (hb : b1.subs = b2.subs)
    (subs : List Subscription) : ∀ g, replay s1 b1 g subs = replay s2 b2 g subs := by
  have e : ∀ m, applyQOS b1 m = applyQOS b2 m := fun m => BrokerFan.applyQOS_congr hb m
  induction subs with
  | nil => intro g; rfl
  | cons sub rest ih => intro g; simp only [replay, replayOne, h1, h2, ih, e]

theorem subscribeRetained_ok (c : ConnId) (subs : List Subscription) :
    ∀ (s s' : BState) (b : BSess), s.sessOf c = some b → subscribeRetained s c subs = .ok s' →
      ∃ b', s'.sessOf c = some b' ∧ b'.tempQ = b.tempQ ++ replay s b s.nextGroup subs ∧
        b'.storedQ = b.storedQ ∧ b'.subs = b.subs ∧ b'.sess = b.sess ∧ b'.active = b.active ∧
        s'.conns = s.conns ∧ s'.retained = s.retained ∧ s'.rmsgs = s.rmsgs ∧ s'.cfg = s.cfg ∧
        s'.lateAck = s.lateAck ∧ s'.neverAck = s.neverAck ∧ s'.pendingAcks = s.pendingAcks ∧
        s'.nextGroup = s.nextGroup + subs.length := by
  induction subs with
  | nil =>
    intro s s' b hb h
    simp only [subscribeRetained, Res1.ok.injEq] at h
    subst h
    exact ⟨b, hb, by simp [replay], rfl, rfl, rfl, rfl, rfl, rfl, rfl, rfl, rfl, rfl, rfl, rfl⟩
  | cons sub rest ih =>
    intro s s' b hb h
    simp only [subscribeRetained, hb] at h
    split at h
    · rename_i b1 hq
      obtain ⟨q1, q2, q3, q4, q5⟩ := queueRetained_ok _ _ _ _ _ hq
      obtain ⟨f1, f2, f3, f4, f5, f6, f7, f8⟩ := setSessOf_frame s c b1
      have hb1 : ({ (s.setSessOf c b1) with nextGroup := s.nextGroup + 1 } : BState).sessOf c = some b1 := by
        have := sessOf_setSessOf s c b b1 hb
        exact this
      obtain ⟨b', r1, r2, r3, r4, r5, r6, r7, r8, r9, r10, r11, r12, r13, r14⟩ := ih _ _ _ hb1 h
      refine ⟨b', r1, ?_, r3.trans q2, r4.trans q3, r5.trans q4, r6.trans q5, r7.trans f1, r8.trans f3,
        r9.trans f4, r10.trans f2, r11.trans f6, r12.trans f7, r13.trans f8, ?_⟩
      · rw [r2, q1]
        simp only [replay, List.append_assoc]
        have := replay_congr ({ (s.setSessOf c b1) with nextGroup := s.nextGroup + 1 }) s f3 f4 b1 b q3 rest (s.nextGroup + 1)
        rw [this]
        rfl
      · rw [r14]; simp; omega
    · cases h

/-! ### `kill` leaves the connection dead -/

theorem pubStart_conns (s : BState) (c : ConnId) (m : Message) : (pubStart s c m).conns = s.conns := rfl

theorem backendPublish_conns (s s' : BState) (c : ConnId) (m : Message)
    (h : backendPublish s c m = .ok s' ∨ backendPublish s c m = .queueFull s') : s'.conns = s.conns := by
  rcases h with h | h
  · obtain ⟨_, _, h3⟩ := backendPublish_ok s s' c m h
    rw [h3]; rfl
  · obtain ⟨t, st, h3⟩ := backendPublish_full s s' c m h
    rw [h3]; rfl

theorem backendTerminate_conns (s : BState) (c : ConnId) : (backendTerminate s c).conns = s.conns := by
  unfold backendTerminate
  simp only
  split
  · exact (setSessOf_frame _ _ _).1
  · rfl

theorem mem_one {s s' : BState} {ss : List BState} (h : Res.one s = .ok ss) (hm : s' ∈ ss) : s' = s := by
  simp only [Res.one, Res.ok.injEq] at h
  subst h; simpa using hm

theorem cleanup_conns (s : BState) (c : ConnId) (x : BConn) (ss : List BState)
    (h : cleanup s c x = .ok ss) (s' : BState) (hm : s' ∈ ss) : s'.conns = s.conns := by
  unfold cleanup at h
  obtain ⟨ss0, h0, s0, hs0, ss1, h1, h2⟩ := mem_bind h hm
  have hc0 : s0.conns = s.conns := by
    split at h0
    · rename_i w
      split at h0
      · rename_i s1 hp
        rw [mem_one h0 hs0]; exact backendPublish_conns _ _ _ _ (Or.inl hp)
      · rename_i s1 hp
        rw [mem_one h0 hs0]; exact backendPublish_conns _ _ _ _ (Or.inr hp)
      · cases h0
    · rw [mem_one h0 hs0]
  split at h1
  · rw [mem_one h1 h2, backendTerminate_conns, hc0]
  · rw [mem_one h1 h2, hc0]

theorem kill_dead (s : BState) (c : ConnId) (x : BConn) (hc : s.conn? c = some x) (ha : x.alive = true)
    (ss : List BState) (h : kill s c = .ok ss) (s' : BState) (hm : s' ∈ ss) :
    ∃ x', s'.conn? c = some x' ∧ x'.alive = false := by
  unfold kill at h
  simp only [hc, ha, Bool.not_true, Bool.false_eq_true, if_false] at h
  obtain ⟨ss0, h0, s0, hs0, ss1, h1, h2⟩ := mem_bind h hm
  split at h1
  · rw [mem_one h1 h2]
    exact ⟨_, conn?_setConn_same _ _ _, rfl⟩
  · have := cleanup_conns _ _ _ _ h1 _ h2
    refine ⟨{ x with alive := false, running := false }, ?_, rfl⟩
    unfold conn?
    rw [this]
    exact conn?_setConn_same _ _ _

/-! ### SUBSCRIBE / UNSUBSCRIBE in the processor -/

/-- how an acknowledgement is handed on, seen from connection `c` (old state `x`, new `x'`) -/
def AckEffect (s s' : BState) (c : ConnId) (x x' : BConn) (p : Packet) : Prop :=
  if s.neverAck then x'.ackOut = x.ackOut ∧ s'.pendingAcks = s.pendingAcks
  else if s.lateAck then x'.ackOut = x.ackOut ∧ s'.pendingAcks = s.pendingAcks ++ [⟨c, p⟩]
  else x'.ackOut = x.ackOut ++ [p] ∧ s'.pendingAcks = s.pendingAcks

/-- what `ackVia` (with the identity as pre-action) does, seen from connection `c` with session `b` -/
theorem ackVia_id (s : BState) (c : ConnId) (x : BConn) (b : BSess) (p : Packet)
    (hc : s.conn? c = some x) (ha : x.alive = true) (hb : s.sessOf c = some b)
    (s' : BState) (hs' : s' = ackVia s c p (fun s => s)) :
    s'.sessOf c = some b ∧ s'.retained = s.retained ∧ s'.rmsgs = s.rmsgs ∧ s'.cfg = s.cfg ∧
    s'.nextGroup = s.nextGroup ∧ s'.lateAck = s.lateAck ∧ s'.neverAck = s.neverAck ∧
    ∃ x', s'.conn? c = some x' ∧ x'.alive = true ∧ AckEffect s s' c x x' p := by
  unfold ackVia at hs'
  unfold AckEffect
  by_cases hn : s.neverAck = true
  · rw [if_pos hn] at hs'
    subst hs'
    refine ⟨hb, rfl, rfl, rfl, rfl, rfl, rfl, x, hc, ha, ?_⟩
    rw [if_pos hn]
    exact ⟨rfl, rfl⟩
  · by_cases hl : s.lateAck = true
    · rw [if_neg hn, if_pos hl] at hs'
      subst hs'
      refine ⟨?_, rfl, rfl, rfl, rfl, rfl, rfl, x, hc, ha, ?_⟩
      · rw [← hb]
        exact sessOf_same _ _ c x x hc hc rfl rfl rfl
      · rw [if_neg hn, if_pos hl]
        exact ⟨rfl, rfl⟩
    · rw [if_neg hn, if_neg hl] at hs'
      obtain ⟨u1, u2, u3, u4, u5, u6, u7⟩ := updConn_frame s c (fun x => if x.alive then { x with ackOut := x.ackOut ++ [p] } else x)
      have hc' := conn?_updConn_same s c (fun x => if x.alive then { x with ackOut := x.ackOut ++ [p] } else x)
      rw [hc] at hc'
      simp only [Option.map_some, ha, if_true] at hc'
      rw [← hs'] at u1 u2 u3 u4 u5 u6 u7 hc'
      refine ⟨?_, u3, u4, u5, u6, ?_, ?_, _, hc', rfl, ?_⟩
      · rw [← hb]
        exact sessOf_same _ _ c x _ hc hc' rfl u1 u2
      rotate_left 2
      · rw [if_neg hn, if_neg hl]
        exact ⟨rfl, u7⟩
      · rw [hs']; unfold updConn; rw [hc]; rfl
      · rw [hs']; unfold updConn; rw [hc]; rfl

theorem foldl_subs_set (subs : List Subscription) : ∀ (b : BSess),
    subs.foldl (fun b sub => { b with subs := Tree.set sub.topic sub.qos.toNat b.subs }) b =
      { b with subs := subs.foldl (fun n sub => Tree.set sub.topic sub.qos.toNat n) b.subs } := by
  induction subs with
  | nil => intro b; rfl
  | cons sub rest ih => intro b; simp only [List.foldl_cons, ih]

theorem foldl_subs_empty (ts : List Bytes) : ∀ (b : BSess),
    ts.foldl (fun b t => { b with subs := Tree.emptyTopic t b.subs }) b =
      { b with subs := ts.foldl (fun n t => Tree.emptyTopic t n) b.subs } := by
  induction ts with
  | nil => intro b; rfl
  | cons t rest ih => intro b; simp only [List.foldl_cons, ih]

theorem subscribeRetained_full_conns (c : ConnId) (subs : List Subscription) :
    ∀ (s s' : BState), subscribeRetained s c subs = .queueFull s' → s'.conns = s.conns := by
  induction subs with
  | nil => intro s s' h; simp [subscribeRetained] at h
  | cons sub rest ih =>
    intro s s' h
    simp only [subscribeRetained] at h
    split at h
    · cases h
    · split at h
      · have := ih _ _ h
        rw [this]
        exact (setSessOf_frame _ _ _).1
      · injection h with h; rw [h]

theorem recv_subscribe (s : BState) (c : ConnId) (x : BConn) (b : BSess) (subs : List Subscription) (id : UInt16)
    (hc : s.conn? c = some x) (ha : x.alive = true) (hp : x.phase = .connected) (ht : x.subTok ≠ 0)
    (hb : s.sessOf c = some b) (ss : List BState) (h : recv s c (.subscribe subs id) = .ok ss)
    (s' : BState) (hm : s' ∈ ss) (x' : BConn) (hc' : s'.conn? c = some x') (ha' : x'.alive = true) :
    ∃ b', s'.sessOf c = some b' ∧
      b'.subs = subs.foldl (fun n sub => Tree.set sub.topic sub.qos.toNat n) b.subs ∧
      b'.tempQ = b.tempQ ++ replay s b' s.nextGroup subs ∧ b'.storedQ = b.storedQ ∧
      s'.retained = s.retained ∧ s'.rmsgs = s.rmsgs ∧
      AckEffect s s' c x x' (.suback (subs.map (·.qos)) id) := by
  obtain ⟨ph, al, xid, will, sref, procOut, ackOut, pubTok, subTok, deqChan, deqHand, running,
    closedSeen, stalled, zombie⟩ := x
  simp only at ha hp ht
  subst ha; subst hp
  unfold recv at h
  simp only [hc, Bool.not_true, Bool.false_eq_true, if_false, ht] at h
  -- the state after the token was taken
  generalize hx1 : (BConn.mk Phase.connected true xid will sref procOut ackOut pubTok (subTok - 1) deqChan
    deqHand running closedSeen stalled zombie) = x1 at h
  generalize hx0 : (BConn.mk Phase.connected true xid will sref procOut ackOut pubTok subTok deqChan
    deqHand running closedSeen stalled zombie) = x0 at hc ⊢
  have hr1 : x1.sref = x0.sref := by rw [← hx0, ← hx1]
  have ha1 : x1.alive = true := by rw [← hx1]
  have hk1 : x1.ackOut = x0.ackOut := by rw [← hx0, ← hx1]
  clear hx0 hx1
  have hc1 : (s.setConn c x1).conn? c = some x1 := conn?_setConn_same _ _ _
  have hb1 : (s.setConn c x1).sessOf c = some b := by
    rw [← hb]; exact sessOf_same _ _ c x0 _ hc hc1 hr1 rfl rfl
  rw [hb1] at h
  simp only [foldl_subs_set] at h
  generalize hs1 : s.setConn c x1 = s1 at h hc1 hb1
  have e1 : s1.retained = s.retained ∧ s1.rmsgs = s.rmsgs ∧ s1.nextGroup = s.nextGroup ∧
      s1.lateAck = s.lateAck ∧ s1.neverAck = s.neverAck ∧ s1.pendingAcks = s.pendingAcks := by
    subst hs1; exact ⟨rfl, rfl, rfl, rfl, rfl, rfl⟩
  clear hs1
  -- the subscriptions are stored
  generalize hb2 : ({ b with subs := subs.foldl (fun n sub => Tree.set sub.topic sub.qos.toNat n) b.subs } : BSess) = b2 at h
  have hs2 := sessOf_setSessOf s1 c b b2 hb1
  have hc2 : (s1.setSessOf c b2).conn? c = some x1 := by rw [conn?_setSessOf]; exact hc1
  obtain ⟨f1, f2, f3, f4, f5, f6, f7, f8⟩ := setSessOf_frame s1 c b2
  generalize s1.setSessOf c b2 = s2 at h hs2 hc2 f1 f2 f3 f4 f5 f6 f7 f8
  -- the acknowledgement
  obtain ⟨a1, a2, a3, a4, a5, a6, a7, x3, a8, a9, a10⟩ :=
    ackVia_id s2 c x1 b2 (.suback (subs.map (·.qos)) id) hc2 ha1 hs2 _ rfl
  generalize s2.ackVia c (.suback (subs.map (·.qos)) id) (fun s => s) = s3 at h a1 a2 a3 a4 a5 a6 a7 a8 a10
  obtain ⟨e1, e2, e3, e4, e5, e6⟩ := e1
  split at h
  · rename_i s4 hsr
    have := mem_one h hm
    subst this
    obtain ⟨b', r1, r2, r3, r4, r5, r6, r7, r8, r9, r10, r11, r12, r13, r14⟩ :=
      subscribeRetained_ok c subs s3 s' b2 a1 hsr
    have hx : x' = x3 := by
      have : s'.conn? c = s3.conn? c := by unfold conn?; rw [r7]
      rw [this, a8] at hc'
      exact (Option.some.inj hc').symm
    subst hx
    refine ⟨b', r1, ?_, ?_, ?_, ?_, ?_, ?_⟩
    · rw [r4, ← hb2]
    · rw [r2]
      have := replay_congr s3 s (by rw [a2, f3, e1]) (by rw [a3, f4, e2]) b2 b' r4.symm subs
      rw [this, a5, f5, e3, ← hb2]
    · rw [r3, ← hb2]
    · rw [r8, a2, f3, e1]
    · rw [r9, a3, f4, e2]
    · unfold AckEffect at a10 ⊢
      rw [f7, f6, f8, e4, e5, e6, hk1] at a10
      rw [r13]
      exact a10
  · rename_i s4 hsr
    exfalso
    have hc4 : s4.conn? c = some x3 := by
      unfold conn?; rw [subscribeRetained_full_conns c subs s3 s4 hsr]; exact a8
    obtain ⟨x5, k1, k2⟩ := kill_dead s4 c x3 hc4 a9 ss h s' hm
    rw [k1] at hc'
    have := Option.some.inj hc'
    subst this
    rw [k2] at ha'
    cases ha'
  · cases h

theorem recv_unsubscribe (s : BState) (c : ConnId) (x : BConn) (b : BSess) (topics : List Bytes) (id : UInt16)
    (hc : s.conn? c = some x) (ha : x.alive = true) (hp : x.phase = .connected) (ht : x.subTok ≠ 0)
    (hb : s.sessOf c = some b) :
    ∃ s', recv s c (.unsubscribe topics id) = .ok [s'] ∧
    ∃ b' x', s'.sessOf c = some b' ∧ s'.conn? c = some x' ∧ x'.alive = true ∧
      b'.subs = topics.foldl (fun n t => Tree.emptyTopic t n) b.subs ∧
      b'.tempQ = b.tempQ ∧ b'.storedQ = b.storedQ ∧
      s'.retained = s.retained ∧ s'.rmsgs = s.rmsgs ∧
      AckEffect s s' c x x' (.unsuback id) := by
  obtain ⟨ph, al, xid, will, sref, procOut, ackOut, pubTok, subTok, deqChan, deqHand, running,
    closedSeen, stalled, zombie⟩ := x
  simp only at ha hp ht
  subst ha; subst hp
  unfold recv
  simp only [hc, Bool.not_true, Bool.false_eq_true, if_false, ht]
  generalize hx1 : (BConn.mk Phase.connected true xid will sref procOut ackOut pubTok (subTok - 1) deqChan
    deqHand running closedSeen stalled zombie) = x1
  generalize hx0 : (BConn.mk Phase.connected true xid will sref procOut ackOut pubTok subTok deqChan
    deqHand running closedSeen stalled zombie) = x0 at hc ⊢
  have hr1 : x1.sref = x0.sref := by rw [← hx0, ← hx1]
  have ha1 : x1.alive = true := by rw [← hx1]
  have hk1 : x1.ackOut = x0.ackOut := by rw [← hx0, ← hx1]
  clear hx0 hx1
  have hc1 : (s.setConn c x1).conn? c = some x1 := conn?_setConn_same _ _ _
  have hb1 : (s.setConn c x1).sessOf c = some b := by
    rw [← hb]; exact sessOf_same _ _ c x0 _ hc hc1 hr1 rfl rfl
  rw [hb1]
  simp only [foldl_subs_empty]
  generalize hs1 : s.setConn c x1 = s1 at hc1 hb1
  have e1 : s1.retained = s.retained ∧ s1.rmsgs = s.rmsgs ∧ s1.nextGroup = s.nextGroup ∧
      s1.lateAck = s.lateAck ∧ s1.neverAck = s.neverAck ∧ s1.pendingAcks = s.pendingAcks := by
    subst hs1; exact ⟨rfl, rfl, rfl, rfl, rfl, rfl⟩
  clear hs1
  obtain ⟨e1, e2, e3, e4, e5, e6⟩ := e1
  generalize hb2 : ({ b with subs := topics.foldl (fun n t => Tree.emptyTopic t n) b.subs } : BSess) = b2
  have hs2 := sessOf_setSessOf s1 c b b2 hb1
  have hc2 : (s1.setSessOf c b2).conn? c = some x1 := by rw [conn?_setSessOf]; exact hc1
  obtain ⟨f1, f2, f3, f4, f5, f6, f7, f8⟩ := setSessOf_frame s1 c b2
  generalize s1.setSessOf c b2 = s2 at hs2 hc2 f1 f2 f3 f4 f5 f6 f7 f8
  obtain ⟨a1, a2, a3, a4, a5, a6, a7, x3, a8, a9, a10⟩ :=
    ackVia_id s2 c x1 b2 (.unsuback id) hc2 ha1 hs2 _ rfl
  refine ⟨_, rfl, b2, x3, a1, a8, a9, ?_, ?_, ?_, ?_, ?_, ?_⟩
  · rw [← hb2]
  · rw [← hb2]
  · rw [← hb2]
  · rw [a2, f3, e1]
  · rw [a3, f4, e2]
  · unfold AckEffect at a10 ⊢
    rw [f7, f6, f8, e4, e5, e6, hk1] at a10
    exact a10

/-- the queued message a delivery stems from: the head of the stored queue or a member of the first
    group of the temporary queue -/
def Deliverable (b : BSess) (h : Message) : Prop :=
  b.storedQ.head? = some h ∨
  ∃ g, (b.tempQ.head?.map (·.1)) = some g ∧ (g, h) ∈ b.tempQ.takeWhile (·.1 = g)

theorem acceptDelivery_head (s s' : BState) (c : ConnId) (x : BConn) (b : BSess) (m : Message) (id : UInt16)
    (h : acceptDelivery s c x b m id = some s') : ∃ hd, Deliverable b hd ∧ m = applyQOS b hd := by
  unfold acceptDelivery at h
  split at h
  · cases h
  · simp only at h
    split at h
    · rename_i s1 hfs
      split at hfs
      · rename_i hd rest hq
        split at hfs
        · rename_i he
          exact ⟨hd, Or.inl (by rw [hq]; rfl), he.symm⟩
        · cases hfs
      · cases hfs
    · split at h
      · cases h
      · rename_i g m0 rest hq
        split at h
        · rename_i e hfind
          have h1 := List.mem_of_find?_eq_some hfind
          have h2 := List.find?_some hfind
          simp only [decide_eq_true_eq] at h2
          refine ⟨e.2, Or.inr ⟨g, by rw [hq]; rfl, ?_⟩, h2.symm⟩
          have hg : e.1 = g := by
            have := List.all_eq_true.1 (List.all_takeWhile (l := b.tempQ) (p := fun e => decide (e.1 = g))) e h1
            simpa using this
          have : (g, e.2) = e := by rw [← hg]
          rw [this]
          exact h1
        · cases h

/-! ### a SUBSCRIBE / UNSUBSCRIBE as a fold over the subscription tree -/

/-- the grant of the last subscription of the packet that names the filter `p` -/
def lastGrant (subs : List Subscription) (p : List Level) : Option Nat :=
  (subs.reverse.find? (fun s => walk s.topic = p)).map (·.qos.toNat)

theorem stored_foldl_set (subs : List Subscription) (p : List Level) : ∀ (n : Node),
    stored (subs.foldl (fun n s => Tree.set s.topic s.qos.toNat n) n) p =
      (match lastGrant subs p with
       | some q => [q]
       | none => stored n p) := by
  induction subs with
  | nil => intro n; rfl
  | cons s rest ih =>
    intro n
    rw [List.foldl_cons, ih]
    unfold lastGrant
    rw [List.reverse_cons, List.find?_append]
    cases hf : rest.reverse.find? (fun s => walk s.topic = p) with
    | some s' => rfl
    | none =>
      simp only [Option.map_none, Option.none_or, List.find?_cons, List.find?_nil]
      unfold Tree.set
      rw [stored_set]
      by_cases hp : walk s.topic = p
      · simp [hp]
      · have : ¬ p = walk s.topic := fun e => hp e.symm
        simp [hp, this]

theorem WF_foldl_empty (ts : List Bytes) : ∀ (n : Node), n.WF →
    (ts.foldl (fun n t => Tree.emptyTopic t n) n).WF := by
  induction ts with
  | nil => intro n h; exact h
  | cons t rest ih => intro n h; exact ih _ (WF_remove _ _ _ h)

theorem stored_foldl_empty (ts : List Bytes) (p : List Level) : ∀ (n : Node), n.WF →
    stored (ts.foldl (fun n t => Tree.emptyTopic t n) n) p =
      if p ∈ ts.map walk then [] else stored n p := by
  induction ts with
  | nil => intro n _; simp
  | cons t rest ih =>
    intro n hw
    have hw' : (Tree.emptyTopic t n).WF := WF_remove _ _ _ hw
    rw [List.foldl_cons, ih _ hw']
    have := stored_remove_none (walk t) n hw p
    unfold Tree.emptyTopic
    rw [this]
    by_cases h1 : p ∈ rest.map walk
    · simp [h1]
    · by_cases h2 : p = walk t
      · simp [h2]
      · simp [h1, h2]

/-- nothing is found in an empty tree -/
theorem search_empty (f : Bytes) : Tree.search f Node.empty = [] := by
  unfold Tree.search
  cases walk f with
  | nil => simp [searchAll, Node.empty, values, clean]
  | cons l rest =>
    simp only [Node.empty, searchAll, subtreeVals, subtreeValsList, searchKids, child?]
    split
    · simp [clean]
    · split <;> simp [clean]

/-! ### the retained store -/

/-- invariant of the retained store: the trie is well formed, every stored message carries the
    retain flag and a non-empty payload, and every index in the trie points to a stored message
    published to exactly that topic -/
def RetOK (r : Node) (rm : List Message) : Prop :=
  r.WF ∧ (∀ m ∈ rm, m.retain = true ∧ m.payload.length > 0) ∧
  ∀ p i, i ∈ stored r p → ∃ m, rm[i]? = some m ∧ walk m.topic = p

theorem RetOK_empty : RetOK Node.empty [] :=
  ⟨WF_empty, by simp, by simp⟩

theorem RetOK_retAfter (r : Node) (rm : List Message) (m : Message) (h : RetOK r rm) :
    RetOK (retAfter r rm m).1 (retAfter r rm m).2 := by
  obtain ⟨hw, hall, hidx⟩ := h
  unfold retAfter
  by_cases hr : m.retain = true
  · rw [if_pos hr]
    by_cases hp : m.payload.length > 0
    · rw [if_pos hp]
      refine ⟨WF_set _ _ _ hw, ?_, ?_⟩
      · intro m' hm'
        rcases List.mem_append.1 hm' with h1 | h1
        · exact hall m' h1
        · simp only [List.mem_singleton] at h1; subst h1; exact ⟨hr, hp⟩
      · intro p i hi
        show ∃ m', (rm ++ [m])[i]? = some m' ∧ walk m'.topic = p
        unfold Tree.set at hi
        rw [stored_set] at hi
        by_cases e : p = walk m.topic
        · rw [if_pos e] at hi
          simp only [List.mem_singleton] at hi
          subst hi
          exact ⟨m, by simp, e.symm⟩
        · rw [if_neg e] at hi
          obtain ⟨m', h1, h2⟩ := hidx p i hi
          refine ⟨m', ?_, h2⟩
          have hlt : i < rm.length := by
            cases hlt : decide (i < rm.length) with
            | true => simpa using hlt
            | false =>
              have : rm.length ≤ i := by simpa using hlt
              rw [List.getElem?_eq_none this] at h1; cases h1
          rw [List.getElem?_append_left hlt]; exact h1
    · rw [if_neg hp]
      refine ⟨WF_remove _ _ _ hw, hall, ?_⟩
      intro p i hi
      unfold Tree.emptyTopic at hi
      rw [stored_remove_none _ _ hw] at hi
      by_cases e : p = walk m.topic
      · rw [if_pos e] at hi; cases hi
      · rw [if_neg e] at hi; exact hidx p i hi
  · rw [if_neg hr]; exact ⟨hw, hall, hidx⟩

/-- the retained messages a filter is handed: exactly the currently retained messages whose own
    topic the filter matches -/
theorem mem_replayOne (s : BState) (h : RetOK s.retained s.rmsgs) (f : Bytes) (hf : ValidFilter (walk f))
    (m : Message) :
    m ∈ replayOne s f ↔
      ∃ i, i ∈ stored s.retained (walk m.topic) ∧ s.rmsgs[i]? = some m ∧
        tmatches (walk f) (walk m.topic) = true := by
  unfold replayOne Tree.search clean
  simp only [List.mem_filterMap, List.mem_eraseDups]
  constructor
  · rintro ⟨i, hi, hm⟩
    obtain ⟨nm, h1, h2⟩ := (C04.search_correct s.retained h.1 (walk f) hf i).1 hi
    obtain ⟨m', h3, h4⟩ := h.2.2 nm i h1
    rw [hm] at h3
    have : m = m' := Option.some.inj h3
    subst this
    subst h4
    exact ⟨i, h1, hm, h2⟩
  · rintro ⟨i, h1, hm, h2⟩
    exact ⟨i, (C04.search_correct s.retained h.1 (walk f) hf i).2 ⟨_, h1, h2⟩, hm⟩

/-- every replayed message carries the retain flag -/
theorem replayOne_retain (s : BState) (h : RetOK s.retained s.rmsgs) (f : Bytes) (m : Message)
    (hm : m ∈ replayOne s f) : m.retain = true := by
  unfold replayOne at hm
  simp only [List.mem_filterMap] at hm
  obtain ⟨i, _, hi⟩ := hm
  exact (h.2.1 m (List.mem_of_getElem? hi)).1

/-! ### on NUL-free topics the walk is injective (a topic string is determined by its levels) -/

/-- levels joined with the separator -/
def joinLevels : List Level → Bytes
  | [] => []
  | [l] => l
  | l :: rest => l ++ sepByte :: joinLevels rest

theorem go_ne_nil (t : Bytes) : ∀ cur, splitLevels.go t cur ≠ [] := by
  induction t with
  | nil => intro cur; simp [splitLevels.go]
  | cons b rest ih =>
    intro cur
    simp only [splitLevels.go]
    split
    · simp
    · exact ih _

theorem joinLevels_go (t : Bytes) : ∀ cur, joinLevels (splitLevels.go t cur) = cur.reverse ++ t := by
  induction t with
  | nil => intro cur; simp [splitLevels.go, joinLevels]
  | cons b rest ih =>
    intro cur
    simp only [splitLevels.go]
    split
    · rename_i hb
      have hne := go_ne_nil rest []
      cases hg : splitLevels.go rest [] with
      | nil => exact absurd hg hne
      | cons l ls =>
        have := ih []
        rw [hg] at this
        simp only [joinLevels, this, hb]
        simp
    · rw [ih]; simp

theorem joinLevels_split (t : Bytes) : joinLevels (splitLevels t) = t := by
  unfold splitLevels
  rw [joinLevels_go]; simp

theorem walk_inj (t₁ t₂ : Bytes) (h₁ : (0 : UInt8) ∉ t₁) (h₂ : (0 : UInt8) ∉ t₂) (h : walk t₁ = walk t₂) :
    t₁ = t₂ := by
  rw [C04.walk_eq_split t₁ h₁, C04.walk_eq_split t₂ h₂] at h
  rw [← joinLevels_split t₁, ← joinLevels_split t₂, h]

end BrokerB1
