import Model.Broker
/-
  Proofs/BrokerOldAlloc.lean — the defect repaired in the broker's dequeuer (C08): the old code gave a new
  QoS 1/2 delivery `session.NextID()` — a plain wrapping 16-bit counter — without looking whether a stored,
  still unacknowledged packet uses that id.  `SavePacket` is keyed by id, so after a wrap-around onto an
  id in flight the older record is overwritten: the message is never retransmitted, and its late
  acknowledgement deletes the record of the newer one.  (MQTT 3.1.1 §2.3.1: a new PUBLISH takes a
  currently unused packet identifier.)  Reproduced on the real broker by `gosyn/brokertrace` scenario
  `c08Wrap`.  Namespace `BrokerB6`.
-/
namespace BrokerB6
open BState

/-- `acceptDelivery` as it was before the repair: the delivery carries `nextID`, whatever the store holds -/
def acceptDeliveryOld (s : BState) (c : ConnId) (x : BConn) (b : BSess) (m : Message) (id : UInt16) :
    Option BState :=
  if !x.deqHand then none else
  let finish (b : BSess) (out : Message) : Option BState :=
    if out.qos = 0 then
      if id ≠ 0 then none else
      let x := retake { x with deqHand := false, deqChan := min s.cfg.window (x.deqChan + 1) }
      some ((s.setSessOf c b).setConn c x)
    else
      let (nid, ms) := b.sess.nextID
      if nid ≠ id then none else
      let ms := ms.savePacket .outgoing (.publish out false id)
      let x := retake { x with deqHand := false }
      some ((s.setSessOf c { b with sess := ms }).setConn c x)
  let fromStored : Option BState :=
    match b.storedQ with
    | h :: rest => if applyQOS b h = m then finish { b with storedQ := rest } m else none
    | [] => none
  match fromStored with
  | some s' => some s'
  | none =>
    match b.tempQ with
    | [] => none
    | (g, _) :: _ =>
      let grp := b.tempQ.takeWhile (·.1 = g)
      match grp.find? (fun e => applyQOS b e.2 = m) with
      | some e => finish { b with tempQ := b.tempQ.erase e } m
      | none => none

/-- The id counter of the stored session of client "a" has wrapped around to 1 while the packet with id 1
    (message "A") is still unacknowledged; message "B" is queued and the dequeuer holds a token
    (window ≥ 2: the subscriber acknowledged the 65534 deliveries in between). -/
def exWrap : BState :=
  { conns := [(0, { phase := .connected, sref := .stored [97], running := true, deqChan := 8, deqHand := true })],
    stored := [([97], { storedQ := [⟨[116], [66], 1, false⟩], active := some 0,
                        sess := { outgoing := ⟨[(1, .publish ⟨[116], [65], 1, false⟩ false 1)]⟩,
                                  counter := ⟨1⟩ } })] }

/-- old allocator: "B" is delivered under id 1 and `SavePacket` overwrites the record of "A" — it will
    never be retransmitted -/
theorem old_id_reuse_overwrites :
    ∃ x b s' b', exWrap.conn? 0 = some x ∧ exWrap.sessOf 0 = some b ∧
      acceptDeliveryOld exWrap 0 x b ⟨[116], [66], 1, false⟩ 1 = some s' ∧ s'.sessOf 0 = some b' ∧
      b'.sess.outgoing.entries = [(1, .publish ⟨[116], [66], 1, false⟩ false 1)] :=
  ⟨_, _, _, _, rfl, rfl, rfl, rfl, rfl⟩

end BrokerB6
