import Proofs.TopicBasic
/-
  Proofs/TopicOps.lean — how every trie operation acts on the abstraction `stored`, and that the
  invariants `WF`, `NoDupVals`, `Pruned` are preserved; the matching facts about `TopicMap`.
  Used by Props/C05.lean and Props/C05b.lean.
-/
namespace Node

theorem eq_nil_or_snoc {α} (xs : List α) : xs = [] ∨ ∃ ys l, xs = ys ++ [l] := by
  rcases List.eq_nil_or_concat xs with h | ⟨ys, l, h⟩
  · exact Or.inl h
  · exact Or.inr ⟨ys, l, by simpa using h⟩

theorem removeValue_nil (v : Val) : removeValue [] v = [] := by
  simp [removeValue]

theorem removeValue_cons_self_nil (v : Val) : removeValue [v] v = [] := by
  simp [removeValue]

theorem removeValue_cons_self_snoc (v l : Val) (ys : List Val) :
    removeValue (v :: (ys ++ [l])) v = l :: ys := by
  simp only [removeValue, List.idxOf?_cons, beq_self_eq_true, if_true, List.set_cons_zero]
  have h1 : (v :: (ys ++ [l])).getLast? = some l := by
    rw [show v :: (ys ++ [l]) = (v :: ys) ++ [l] from rfl, List.getLast?_concat]
  rw [h1]
  show (l :: (ys ++ [l])).dropLast = l :: ys
  rw [show l :: (ys ++ [l]) = (l :: ys) ++ [l] from rfl, List.dropLast_concat]

theorem removeValue_cons_ne (a v : Val) (xs : List Val) (h : a ≠ v) :
    removeValue (a :: xs) v = a :: removeValue xs v := by
  have hb : (a == v) = false := by simpa using h
  simp only [removeValue, List.idxOf?_cons, hb]
  cases hi : List.idxOf? v xs with
  | none => simp
  | some i =>
    have hmem : v ∈ xs := by
      by_cases hm : v ∈ xs
      · exact hm
      · rw [List.idxOf?_eq_none_iff.mpr hm] at hi; cases hi
    rcases eq_nil_or_snoc xs with h0 | ⟨ys, l, h0⟩
    · subst h0; cases hmem
    · subst h0
      simp [List.getLast?_cons, List.dropLast]

theorem mem_removeValue (vs : List Val) (v x : Val) (hn : vs.Nodup) :
    x ∈ removeValue vs v ↔ x ∈ vs ∧ x ≠ v := by
  induction vs with
  | nil => simp [removeValue_nil]
  | cons a xs ih =>
    rw [List.nodup_cons] at hn
    by_cases h : a = v
    · subst h
      rcases eq_nil_or_snoc xs with h0 | ⟨ys, l, h0⟩
      · subst h0; simp [removeValue_cons_self_nil]
      · subst h0
        rw [removeValue_cons_self_snoc]
        have hne : ∀ y, y ∈ ys ++ [l] → y ≠ a := fun y hy e => hn.1 (e ▸ hy)
        simp only [List.mem_cons, List.mem_append, List.not_mem_nil, or_false] at hne ⊢
        constructor
        · rintro (hx | hx)
          · exact ⟨Or.inr (Or.inr hx), hne x (Or.inr hx)⟩
          · exact ⟨Or.inr (Or.inl hx), hne x (Or.inl hx)⟩
        · rintro ⟨h1 | h1 | h1, h2⟩
          · exact absurd h1 h2
          · exact Or.inr h1
          · exact Or.inl h1
    · rw [removeValue_cons_ne a v xs h]
      simp only [List.mem_cons, ih hn.2]
      constructor
      · rintro (h1 | h1)
        · subst h1; exact ⟨Or.inl rfl, h⟩
        · exact ⟨Or.inr h1.1, h1.2⟩
      · rintro ⟨h1 | h1, h2⟩
        · exact Or.inl h1
        · exact Or.inr ⟨h1, h2⟩

theorem nodup_removeValue (vs : List Val) (v : Val) (hn : vs.Nodup) : (removeValue vs v).Nodup := by
  induction vs with
  | nil => simp [removeValue_nil]
  | cons a xs ih =>
    rw [List.nodup_cons] at hn
    by_cases h : a = v
    · subst h
      rcases eq_nil_or_snoc xs with h0 | ⟨ys, l, h0⟩
      · subst h0; simp [removeValue_cons_self_nil]
      · subst h0
        rw [removeValue_cons_self_snoc]
        have h2 := hn.2
        rw [List.nodup_append] at h2
        rw [List.nodup_cons]
        exact ⟨fun hm => h2.2.2 l hm l (by simp) rfl, h2.1⟩
    · rw [removeValue_cons_ne a v xs h, List.nodup_cons]
      exact ⟨fun hm => hn.1 ((mem_removeValue xs v a hn.2).mp hm).1, ih hn.2⟩


/-! ### association lists -/

theorem WFList_iff (cs : List (Level × Node)) : WFList cs ↔ ∀ kc ∈ cs, WF kc.2 := by
  induction cs with
  | nil => simp [WFList]
  | cons hd tl ih => obtain ⟨k, c⟩ := hd; simp [WFList, ih]

theorem NoDupValsList_iff (cs : List (Level × Node)) :
    NoDupValsList cs ↔ ∀ kc ∈ cs, NoDupVals kc.2 := by
  induction cs with
  | nil => simp [NoDupValsList]
  | cons hd tl ih => obtain ⟨k, c⟩ := hd; simp [NoDupValsList, ih]

theorem PrunedList_iff (cs : List (Level × Node)) :
    PrunedList cs ↔ ∀ kc ∈ cs, kc.2.isEmptyNode = false ∧ Pruned kc.2 := by
  induction cs with
  | nil => simp [PrunedList]
  | cons hd tl ih => obtain ⟨k, c⟩ := hd; simp [PrunedList, ih, and_assoc]

theorem WF_mk (vs : List Val) (cs : List (Level × Node)) :
    WF (mk vs cs) ↔ (cs.map (·.1)).Nodup ∧ ∀ kc ∈ cs, WF kc.2 := by
  rw [WF, WFList_iff]

theorem NoDupVals_mk (vs : List Val) (cs : List (Level × Node)) :
    NoDupVals (mk vs cs) ↔ vs.Nodup ∧ ∀ kc ∈ cs, NoDupVals kc.2 := by
  rw [NoDupVals, NoDupValsList_iff]

theorem Pruned_mk (vs : List Val) (cs : List (Level × Node)) :
    Pruned (mk vs cs) ↔ ∀ kc ∈ cs, kc.2.isEmptyNode = false ∧ Pruned kc.2 := by
  rw [Pruned, PrunedList_iff]

/-- induction over the trie with the children hypothesis as a membership statement -/
theorem ind {P : Node → Prop}
    (h : ∀ vs cs, (∀ kc ∈ cs, P kc.2) → P (mk vs cs)) : ∀ n, P n := by
  intro n
  refine Node.rec (motive_1 := P) (motive_2 := fun cs => ∀ kc ∈ cs, P kc.2)
    (motive_3 := fun kc => P kc.2) ?_ ?_ ?_ ?_ n
  · intro vs cs ih; exact h vs cs ih
  · intro kc hkc; cases hkc
  · intro hd tl h1 h2 kc hkc
    rcases List.mem_cons.mp hkc with e | e
    · subst e; exact h1
    · exact h2 kc e
  · intro k c hc; exact hc

theorem child?_some_mem {cs : List (Level × Node)} {k : Level} {c : Node}
    (h : child? cs k = some c) : (k, c) ∈ cs := by
  induction cs with
  | nil => simp [child?] at h
  | cons hd tl ih =>
    obtain ⟨k', n'⟩ := hd
    simp only [child?] at h
    by_cases e : k' = k
    · subst e; simp at h; subst h; simp
    · simp [e] at h; exact List.mem_cons_of_mem _ (ih h)

theorem child?_eq_none {cs : List (Level × Node)} {k : Level} :
    child? cs k = none ↔ k ∉ cs.map (·.1) := by
  induction cs with
  | nil => simp [child?]
  | cons hd tl ih =>
    obtain ⟨k', n'⟩ := hd
    simp only [child?]
    by_cases e : k' = k
    · subst e; simp
    · have e' : ¬ k = k' := fun h => e h.symm
      simp [e, e', ih]

theorem mem_child?_o {cs : List (Level × Node)} {k : Level} {c : Node}
    (hn : (cs.map (·.1)).Nodup) (h : (k, c) ∈ cs) : child? cs k = some c := by
  induction cs with
  | nil => cases h
  | cons hd tl ih =>
    obtain ⟨k', n'⟩ := hd
    simp only [List.map_cons, List.nodup_cons] at hn
    simp only [child?]
    rcases List.mem_cons.mp h with e | e
    · cases e; simp
    · have : k' ≠ k := by
        intro e2; subst e2
        exact hn.1 (List.mem_map.mpr ⟨(k', c), e, rfl⟩)
      simp [this, ih hn.2 e]

theorem mem_setChild {cs : List (Level × Node)} {k : Level} {n : Node} {kc : Level × Node}
    (h : kc ∈ setChild cs k n) : kc ∈ cs ∨ kc = (k, n) := by
  induction cs with
  | nil => simp [setChild] at h; exact Or.inr h
  | cons hd tl ih =>
    obtain ⟨k', n'⟩ := hd
    simp only [setChild] at h
    by_cases e : k' = k
    · simp only [e, if_true, List.mem_cons] at h
      rcases h with h | h
      · exact Or.inr h
      · exact Or.inl (List.mem_cons_of_mem _ h)
    · simp only [e, if_false, List.mem_cons] at h
      rcases h with h | h
      · exact Or.inl (h ▸ List.mem_cons_self)
      · rcases ih h with h | h
        · exact Or.inl (List.mem_cons_of_mem _ h)
        · exact Or.inr h

theorem mem_keys_setChild {cs : List (Level × Node)} {k x : Level} {n : Node} :
    x ∈ (setChild cs k n).map (·.1) ↔ x ∈ cs.map (·.1) ∨ x = k := by
  induction cs with
  | nil => simp [setChild]
  | cons hd tl ih =>
    obtain ⟨k', n'⟩ := hd
    simp only [setChild]
    by_cases e : k' = k
    · subst e; simp
      intro h; exact Or.inl h
    · simp only [e, if_false, List.map_cons, List.mem_cons, ih, or_assoc]

theorem nodup_keys_setChild {cs : List (Level × Node)} {k : Level} {n : Node}
    (h : (cs.map (·.1)).Nodup) : ((setChild cs k n).map (·.1)).Nodup := by
  induction cs with
  | nil => simp [setChild]
  | cons hd tl ih =>
    obtain ⟨k', n'⟩ := hd
    simp only [List.map_cons, List.nodup_cons] at h
    simp only [setChild]
    by_cases e : k' = k
    · subst e; simpa using h
    · simp only [e, if_false, List.map_cons, List.nodup_cons]
      refine ⟨?_, ih h.2⟩
      intro hm
      rcases mem_keys_setChild.mp hm with hm | hm
      · exact h.1 hm
      · exact e hm

theorem setChild_ne_nil (cs : List (Level × Node)) (k : Level) (n : Node) :
    (setChild cs k n).isEmpty = false := by
  cases cs with
  | nil => simp [setChild]
  | cons hd tl =>
    obtain ⟨k', n'⟩ := hd
    simp only [setChild]; split <;> simp

theorem delChild_sublist (cs : List (Level × Node)) (k : Level) : (delChild cs k).Sublist cs := by
  induction cs with
  | nil => simp [delChild]
  | cons hd tl ih =>
    obtain ⟨k', n'⟩ := hd
    simp only [delChild]
    by_cases e : k' = k
    · simp [e]
    · simp only [e, if_false]; exact ih.cons_cons _

theorem mem_delChild {cs : List (Level × Node)} {k : Level} {kc : Level × Node}
    (h : kc ∈ delChild cs k) : kc ∈ cs := (delChild_sublist cs k).subset h

theorem nodup_keys_delChild {cs : List (Level × Node)} {k : Level}
    (h : (cs.map (·.1)).Nodup) : ((delChild cs k).map (·.1)).Nodup :=
  List.Nodup.sublist ((delChild_sublist cs k).map _) h

theorem child?_delChild_same {cs : List (Level × Node)} {k : Level}
    (h : (cs.map (·.1)).Nodup) : child? (delChild cs k) k = none := by
  induction cs with
  | nil => simp [delChild, child?]
  | cons hd tl ih =>
    obtain ⟨k', n'⟩ := hd
    simp only [List.map_cons, List.nodup_cons] at h
    simp only [delChild]
    by_cases e : k' = k
    · subst e; simp only [if_true]; exact child?_eq_none.mpr h.1
    · simp [e, child?, ih h.2]

theorem child?_delChild_other (cs : List (Level × Node)) (k k2 : Level) (hne : k2 ≠ k) :
    child? (delChild cs k) k2 = child? cs k2 := by
  induction cs with
  | nil => simp [delChild]
  | cons hd tl ih =>
    obtain ⟨k', n'⟩ := hd
    simp only [delChild]
    by_cases e : k' = k
    · subst e
      have : ¬ k' = k2 := fun h2 => hne h2.symm
      simp [child?, this]
    · simp only [e, if_false, child?, ih]

/-! ### `stored` -/

@[simp] theorem stored_nil_o (vs : List Val) (cs : List (Level × Node)) : stored (mk vs cs) [] = vs := by
  simp [stored, get, values]

theorem stored_cons_o (vs : List Val) (cs : List (Level × Node)) (l : Level) (ls : List Level) :
    stored (mk vs cs) (l :: ls) = stored ((child? cs l).getD empty) ls := by
  simp only [stored, get]
  cases h : child? cs l with
  | none => cases ls <;> simp [empty, get, values, child?]
  | some c => simp

@[simp] theorem stored_empty (q : List Level) : stored empty q = [] := by
  cases q <;> simp [stored, empty, get, values, child?]

theorem isEmptyNode_eq {n : Node} (h : n.isEmptyNode = true) : n = empty := by
  obtain ⟨vs, cs⟩ := n
  simp [isEmptyNode, values, children] at h
  simp [empty, h.1, h.2]


/-! ### `add` and `set` -/

theorem add_nil (v : Val) (vs : List Val) (cs : List (Level × Node)) :
    add v [] (mk vs cs) = if vs.contains v then mk vs cs else mk (vs ++ [v]) cs := by
  simp [add]

theorem add_cons (v : Val) (l : Level) (ls : List Level) (vs : List Val) (cs : List (Level × Node)) :
    add v (l :: ls) (mk vs cs) = mk vs (setChild cs l (add v ls ((child? cs l).getD empty))) := by
  simp [add]

theorem set_nil (v : Val) (vs : List Val) (cs : List (Level × Node)) :
    set v [] (mk vs cs) = mk [v] cs := by
  simp [set]

theorem set_cons (v : Val) (l : Level) (ls : List Level) (vs : List Val) (cs : List (Level × Node)) :
    set v (l :: ls) (mk vs cs) = mk vs (setChild cs l (set v ls ((child? cs l).getD empty))) := by
  simp [set]

/-- a path update through `setChild`: what is stored below the other keys is unchanged -/
theorem stored_mk_setChild (vs : List Val) (cs : List (Level × Node)) (l : Level) (c' : Node)
    (q : List Level) :
    stored (mk vs (setChild cs l c')) q =
      match q with
      | [] => vs
      | l' :: ls' => if l' = l then stored c' ls' else stored (mk vs cs) (l' :: ls') := by
  cases q with
  | nil => simp
  | cons l' ls' =>
    simp only [stored_cons_o]
    by_cases e : l' = l
    · subst e; simp [child?_setChild_same]
    · simp [e, child?_setChild_other _ _ _ _ e]

theorem mem_stored_add (v : Val) (p : List Level) (n : Node) (q : List Level) (x : Val) :
    x ∈ stored (add v p n) q ↔ x ∈ stored n q ∨ (q = p ∧ x = v) := by
  induction p generalizing n q with
  | nil =>
    obtain ⟨vs, cs⟩ := n
    rw [add_nil]
    cases q with
    | nil =>
      by_cases hc : vs.contains v = true
      · simp only [hc, if_true, stored_nil_o, true_and]
        constructor
        · exact Or.inl
        · rintro (h | h)
          · exact h
          · subst h; simpa using hc
      · have hc' : v ∉ vs := by simpa using hc
        simp [hc']
    | cons l' ls' =>
      split <;> simp [stored_cons_o]
  | cons l ls ih =>
    obtain ⟨vs, cs⟩ := n
    rw [add_cons, stored_mk_setChild]
    cases q with
    | nil => simp
    | cons l' ls' =>
      by_cases e : l' = l
      · subst e
        simp only [if_true, ih, stored_cons_o, List.cons.injEq, true_and]
      · simp [e]

theorem mem_stored_set (v : Val) (p : List Level) (n : Node) (q : List Level) (x : Val) :
    x ∈ stored (set v p n) q ↔ (q ≠ p ∧ x ∈ stored n q) ∨ (q = p ∧ x = v) := by
  induction p generalizing n q with
  | nil =>
    obtain ⟨vs, cs⟩ := n
    rw [set_nil]
    cases q with
    | nil => simp
    | cons l' ls' => simp [stored_cons_o]
  | cons l ls ih =>
    obtain ⟨vs, cs⟩ := n
    rw [set_cons, stored_mk_setChild]
    cases q with
    | nil => simp
    | cons l' ls' =>
      by_cases e : l' = l
      · subst e
        simp only [if_true, ih, stored_cons_o, List.cons.injEq, true_and, ne_eq]
      · simp [e]


theorem WF_empty : WF empty := by simp [empty, WF_mk]
theorem NoDupVals_empty : NoDupVals empty := by simp [empty, NoDupVals_mk]
theorem Pruned_empty : Pruned empty := by simp [empty, Pruned_mk]

theorem WF_child_o {cs : List (Level × Node)} (h : ∀ kc ∈ cs, WF kc.2) (l : Level) :
    WF ((child? cs l).getD empty) := by
  cases hc : child? cs l with
  | none => exact WF_empty
  | some c => exact h _ (child?_some_mem hc)

theorem NoDupVals_child {cs : List (Level × Node)} (h : ∀ kc ∈ cs, NoDupVals kc.2) (l : Level) :
    NoDupVals ((child? cs l).getD empty) := by
  cases hc : child? cs l with
  | none => exact NoDupVals_empty
  | some c => exact h _ (child?_some_mem hc)

theorem Pruned_child {cs : List (Level × Node)}
    (h : ∀ kc ∈ cs, kc.2.isEmptyNode = false ∧ Pruned kc.2) (l : Level) :
    Pruned ((child? cs l).getD empty) := by
  cases hc : child? cs l with
  | none => exact Pruned_empty
  | some c => exact (h _ (child?_some_mem hc)).2

/-- rebuilding a node with one child replaced keeps an invariant of the shape "keys unique and
    every child satisfies `P`" -/
theorem forall_setChild {P : Node → Prop} {cs : List (Level × Node)} {l : Level} {c' : Node}
    (h : ∀ kc ∈ cs, P kc.2) (hc : P c') : ∀ kc ∈ setChild cs l c', P kc.2 := by
  intro kc hkc
  rcases mem_setChild hkc with h1 | h1
  · exact h kc h1
  · subst h1; exact hc

theorem WF_add (v : Val) (p : List Level) (n : Node) (h : WF n) : WF (add v p n) := by
  induction p generalizing n with
  | nil =>
    obtain ⟨vs, cs⟩ := n
    rw [add_nil]; split <;> (rw [WF_mk] at h ⊢; exact h)
  | cons l ls ih =>
    obtain ⟨vs, cs⟩ := n
    rw [add_cons]; rw [WF_mk] at h ⊢
    exact ⟨nodup_keys_setChild h.1, forall_setChild h.2 (ih _ (WF_child_o h.2 l))⟩

theorem WF_set (v : Val) (p : List Level) (n : Node) (h : WF n) : WF (set v p n) := by
  induction p generalizing n with
  | nil =>
    obtain ⟨vs, cs⟩ := n
    rw [set_nil]; rw [WF_mk] at h ⊢; exact h
  | cons l ls ih =>
    obtain ⟨vs, cs⟩ := n
    rw [set_cons]; rw [WF_mk] at h ⊢
    exact ⟨nodup_keys_setChild h.1, forall_setChild h.2 (ih _ (WF_child_o h.2 l))⟩

theorem NoDupVals_add (v : Val) (p : List Level) (n : Node) (h : NoDupVals n) :
    NoDupVals (add v p n) := by
  induction p generalizing n with
  | nil =>
    obtain ⟨vs, cs⟩ := n
    rw [add_nil]
    by_cases hc : vs.contains v = true
    · simp only [hc, if_true]; exact h
    · have hc' : v ∉ vs := by simpa using hc
      rw [if_neg hc]; rw [NoDupVals_mk] at h ⊢
      refine ⟨?_, h.2⟩
      rw [List.nodup_append]
      refine ⟨h.1, by simp, ?_⟩
      intro a ha b hb e
      simp at hb; subst hb; subst e; exact hc' ha
  | cons l ls ih =>
    obtain ⟨vs, cs⟩ := n
    rw [add_cons]; rw [NoDupVals_mk] at h ⊢
    exact ⟨h.1, forall_setChild h.2 (ih _ (NoDupVals_child h.2 l))⟩

theorem NoDupVals_set (v : Val) (p : List Level) (n : Node) (h : NoDupVals n) :
    NoDupVals (set v p n) := by
  induction p generalizing n with
  | nil =>
    obtain ⟨vs, cs⟩ := n
    rw [set_nil]; rw [NoDupVals_mk] at h ⊢; exact ⟨by simp, h.2⟩
  | cons l ls ih =>
    obtain ⟨vs, cs⟩ := n
    rw [set_cons]; rw [NoDupVals_mk] at h ⊢
    exact ⟨h.1, forall_setChild h.2 (ih _ (NoDupVals_child h.2 l))⟩

theorem add_nonempty (v : Val) (p : List Level) (n : Node) : (add v p n).isEmptyNode = false := by
  obtain ⟨vs, cs⟩ := n
  cases p with
  | nil =>
    rw [add_nil]
    by_cases hc : vs.contains v = true
    · have hc' : v ∈ vs := by simpa using hc
      simp only [hc, if_true, isEmptyNode, values]
      cases vs with
      | nil => cases hc'
      | cons a t => simp
    · rw [if_neg hc]; simp [isEmptyNode, values]
  | cons l ls =>
    rw [add_cons]; simp [isEmptyNode, children, setChild_ne_nil]

theorem set_nonempty (v : Val) (p : List Level) (n : Node) : (set v p n).isEmptyNode = false := by
  obtain ⟨vs, cs⟩ := n
  cases p with
  | nil => rw [set_nil]; simp [isEmptyNode, values]
  | cons l ls => rw [set_cons]; simp [isEmptyNode, children, setChild_ne_nil]

theorem Pruned_add (v : Val) (p : List Level) (n : Node) (h : Pruned n) : Pruned (add v p n) := by
  induction p generalizing n with
  | nil =>
    obtain ⟨vs, cs⟩ := n
    rw [add_nil]; split <;> (rw [Pruned_mk] at h ⊢; exact h)
  | cons l ls ih =>
    obtain ⟨vs, cs⟩ := n
    rw [add_cons]; rw [Pruned_mk] at h ⊢
    exact forall_setChild (P := fun c => c.isEmptyNode = false ∧ Pruned c) h
      ⟨add_nonempty _ _ _, ih _ (Pruned_child h l)⟩

theorem Pruned_set (v : Val) (p : List Level) (n : Node) (h : Pruned n) : Pruned (set v p n) := by
  induction p generalizing n with
  | nil =>
    obtain ⟨vs, cs⟩ := n
    rw [set_nil]; rw [Pruned_mk] at h ⊢; exact h
  | cons l ls ih =>
    obtain ⟨vs, cs⟩ := n
    rw [set_cons]; rw [Pruned_mk] at h ⊢
    exact forall_setChild (P := fun c => c.isEmptyNode = false ∧ Pruned c) h
      ⟨set_nonempty _ _ _, ih _ (Pruned_child h l)⟩


/-! ### `remove` / `Empty` -/

/-- the new value slice at the end of the path -/
def newVals (v : Option Val) (vs : List Val) : List Val :=
  match v with | none => [] | some x => removeValue vs x

/-- which values survive at the addressed path -/
def keepOf : Option Val → Val → Prop
  | none, _ => False
  | some w, x => x ≠ w

theorem mem_newVals (v : Option Val) (vs : List Val) (x : Val) (h : vs.Nodup) :
    x ∈ newVals v vs ↔ x ∈ vs ∧ keepOf v x := by
  cases v with
  | none => simp [newVals, keepOf]
  | some w => simp [newVals, keepOf, mem_removeValue _ _ _ h]

theorem nodup_newVals (v : Option Val) (vs : List Val) (h : vs.Nodup) : (newVals v vs).Nodup := by
  cases v with
  | none => simp [newVals]
  | some w => simp [newVals, nodup_removeValue _ _ h]

theorem remove_nil (v : Option Val) (vs : List Val) (cs : List (Level × Node)) :
    remove v [] (mk vs cs) = (mk (newVals v vs) cs, (newVals v vs).isEmpty && cs.isEmpty) := by
  cases v <;> simp [remove, newVals]

theorem remove_cons_none (v : Option Val) (l : Level) (ls : List Level) (vs : List Val)
    (cs : List (Level × Node)) (h : child? cs l = none) :
    remove v (l :: ls) (mk vs cs) = (mk vs cs, false) := by
  simp [remove, h]

theorem remove_cons_some (v : Option Val) (l : Level) (ls : List Level) (vs : List Val)
    (cs : List (Level × Node)) (c : Node) (h : child? cs l = some c) :
    remove v (l :: ls) (mk vs cs) =
      (mk vs (if (remove v ls c).2 then delChild cs l else setChild cs l (remove v ls c).1),
       vs.isEmpty &&
        (if (remove v ls c).2 then delChild cs l else setChild cs l (remove v ls c).1).isEmpty) := by
  simp [remove, h]

/-- the prune flag is only raised for a node that has become empty -/
theorem remove_flag_true (v : Option Val) (p : List Level) (n : Node)
    (h : (remove v p n).2 = true) : (remove v p n).1 = empty := by
  obtain ⟨vs, cs⟩ := n
  cases p with
  | nil =>
    rw [remove_nil] at h ⊢
    simp at h
    simp [empty, h.1, h.2]
  | cons l ls =>
    cases hc : child? cs l with
    | none => rw [remove_cons_none _ _ _ _ _ hc] at h; cases h
    | some c =>
      rw [remove_cons_some _ _ _ _ _ _ hc] at h ⊢
      simp only [Bool.and_eq_true, List.isEmpty_iff] at h
      simp only [empty, h.1, h.2]

/-- for a non-empty node the prune flag is exactly "the new node is empty" -/
theorem remove_flag_eq (v : Option Val) (p : List Level) (n : Node) (hne : n.isEmptyNode = false) :
    (remove v p n).2 = (remove v p n).1.isEmptyNode := by
  obtain ⟨vs, cs⟩ := n
  cases p with
  | nil => rw [remove_nil]; simp [isEmptyNode, values, children]
  | cons l ls =>
    cases hc : child? cs l with
    | none => rw [remove_cons_none _ _ _ _ _ hc]; exact hne.symm
    | some c => rw [remove_cons_some _ _ _ _ _ _ hc]; simp [isEmptyNode, values, children]

theorem stored_mk_delChild (vs : List Val) (cs : List (Level × Node)) (l : Level)
    (hn : (cs.map (·.1)).Nodup) (q : List Level) :
    stored (mk vs (delChild cs l)) q =
      match q with
      | [] => vs
      | l' :: ls' => if l' = l then [] else stored (mk vs cs) (l' :: ls') := by
  cases q with
  | nil => simp
  | cons l' ls' =>
    simp only [stored_cons_o]
    by_cases e : l' = l
    · subst e; simp [child?_delChild_same hn]
    · simp [e, child?_delChild_other _ _ _ e]

theorem mem_stored_remove (v : Option Val) (p : List Level) (n : Node) (hw : WF n) (hd : NoDupVals n)
    (q : List Level) (x : Val) :
    x ∈ stored (remove v p n).1 q ↔ x ∈ stored n q ∧ (q = p → keepOf v x) := by
  induction p generalizing n q with
  | nil =>
    obtain ⟨vs, cs⟩ := n
    rw [NoDupVals_mk] at hd
    rw [remove_nil]
    cases q with
    | nil => simp [mem_newVals _ _ _ hd.1]
    | cons l' ls' => simp [stored_cons_o]
  | cons l ls ih =>
    obtain ⟨vs, cs⟩ := n
    rw [WF_mk] at hw; rw [NoDupVals_mk] at hd
    cases hc : child? cs l with
    | none =>
      rw [remove_cons_none _ _ _ _ _ hc]
      constructor
      · intro hx
        refine ⟨hx, ?_⟩
        intro e; subst e
        rw [stored_cons_o, hc] at hx; simp at hx
      · exact fun hx => hx.1
    | some c =>
      rw [remove_cons_some _ _ _ _ _ _ hc]
      have hcm := child?_some_mem hc
      have ihc := ih c (hw.2 _ hcm) (hd.2 _ hcm)
      cases hf : (remove v ls c).2 with
      | true =>
        have he := remove_flag_true v ls c hf
        simp only [if_true]
        rw [stored_mk_delChild _ _ _ hw.1]
        cases q with
        | nil => simp
        | cons l' ls' =>
          by_cases e : l' = l
          · subst e
            have := ihc ls'
            rw [he] at this
            simp only [if_true, stored_cons_o, hc, Option.getD_some, List.cons.injEq, true_and]
            simpa using this
          · simp [e]
      | false =>
        simp only [Bool.false_eq_true, if_false]
        rw [stored_mk_setChild]
        cases q with
        | nil => simp
        | cons l' ls' =>
          by_cases e : l' = l
          · subst e
            simp only [if_true, stored_cons_o, hc, Option.getD_some, List.cons.injEq, true_and]
            exact ihc ls'
          · simp [e]

theorem forall_delChild {P : Node → Prop} {cs : List (Level × Node)} {l : Level}
    (h : ∀ kc ∈ cs, P kc.2) : ∀ kc ∈ delChild cs l, P kc.2 :=
  fun kc hkc => h kc (mem_delChild hkc)

theorem WF_remove (v : Option Val) (p : List Level) (n : Node) (h : WF n) : WF (remove v p n).1 := by
  induction p generalizing n with
  | nil =>
    obtain ⟨vs, cs⟩ := n
    rw [remove_nil]; rw [WF_mk] at h ⊢; exact h
  | cons l ls ih =>
    obtain ⟨vs, cs⟩ := n
    cases hc : child? cs l with
    | none => rw [remove_cons_none _ _ _ _ _ hc]; exact h
    | some c =>
      rw [remove_cons_some _ _ _ _ _ _ hc]
      rw [WF_mk] at h ⊢
      split
      · exact ⟨nodup_keys_delChild h.1, forall_delChild h.2⟩
      · exact ⟨nodup_keys_setChild h.1, forall_setChild h.2 (ih c (h.2 _ (child?_some_mem hc)))⟩

theorem NoDupVals_remove (v : Option Val) (p : List Level) (n : Node) (h : NoDupVals n) :
    NoDupVals (remove v p n).1 := by
  induction p generalizing n with
  | nil =>
    obtain ⟨vs, cs⟩ := n
    rw [remove_nil]; rw [NoDupVals_mk] at h ⊢; exact ⟨nodup_newVals _ _ h.1, h.2⟩
  | cons l ls ih =>
    obtain ⟨vs, cs⟩ := n
    cases hc : child? cs l with
    | none => rw [remove_cons_none _ _ _ _ _ hc]; exact h
    | some c =>
      rw [remove_cons_some _ _ _ _ _ _ hc]
      rw [NoDupVals_mk] at h ⊢
      split
      · exact ⟨h.1, forall_delChild h.2⟩
      · exact ⟨h.1, forall_setChild h.2 (ih c (h.2 _ (child?_some_mem hc)))⟩

theorem Pruned_remove (v : Option Val) (p : List Level) (n : Node) (h : Pruned n) :
    Pruned (remove v p n).1 := by
  induction p generalizing n with
  | nil =>
    obtain ⟨vs, cs⟩ := n
    rw [remove_nil]; rw [Pruned_mk] at h ⊢; exact h
  | cons l ls ih =>
    obtain ⟨vs, cs⟩ := n
    cases hc : child? cs l with
    | none => rw [remove_cons_none _ _ _ _ _ hc]; exact h
    | some c =>
      rw [remove_cons_some _ _ _ _ _ _ hc]
      rw [Pruned_mk] at h ⊢
      have hcc := h _ (child?_some_mem hc)
      have hfe := remove_flag_eq v ls c hcc.1
      cases hf : (remove v ls c).2 with
      | true => simp only [if_true]; exact forall_delChild (P := fun c => c.isEmptyNode = false ∧ Pruned c) h
      | false =>
        simp only [Bool.false_eq_true, if_false]
        refine forall_setChild (P := fun c => c.isEmptyNode = false ∧ Pruned c) h ⟨?_, ih c hcc.2⟩
        rw [← hfe, hf]


/-! ### `clear` -/

theorem clear_mk (v : Val) (vs : List Val) (cs : List (Level × Node)) :
    clear v (mk vs cs) =
      (mk (removeValue vs v) (clearList v cs), (removeValue vs v).isEmpty && (clearList v cs).isEmpty) := by
  simp [clear]

theorem clearList_nil (v : Val) : clearList v [] = [] := by simp [clearList]

theorem clearList_cons (v : Val) (k : Level) (c : Node) (rest : List (Level × Node)) :
    clearList v ((k, c) :: rest) =
      if (clear v c).2 then clearList v rest else (k, (clear v c).1) :: clearList v rest := by
  simp only [clearList]

theorem clear_flag (v : Val) (n : Node) : (clear v n).2 = (clear v n).1.isEmptyNode := by
  obtain ⟨vs, cs⟩ := n
  rw [clear_mk]; simp [isEmptyNode, values, children]

theorem clear_flag_true (v : Val) (n : Node) (h : (clear v n).2 = true) : (clear v n).1 = empty :=
  isEmptyNode_eq (by rw [← clear_flag]; exact h)

theorem mem_clearList {v : Val} {cs : List (Level × Node)} {kc : Level × Node}
    (h : kc ∈ clearList v cs) :
    ∃ c, (kc.1, c) ∈ cs ∧ kc.2 = (clear v c).1 ∧ (clear v c).2 = false := by
  induction cs with
  | nil => simp [clearList_nil] at h
  | cons hd tl ih =>
    obtain ⟨k, c⟩ := hd
    rw [clearList_cons] at h
    cases hf : (clear v c).2 with
    | true =>
      simp only [hf, if_true] at h
      obtain ⟨c2, h1, h2⟩ := ih h
      exact ⟨c2, List.mem_cons_of_mem _ h1, h2⟩
    | false =>
      simp only [hf, Bool.false_eq_true, if_false, List.mem_cons] at h
      rcases h with h | h
      · subst h; exact ⟨c, List.mem_cons_self, rfl, hf⟩
      · obtain ⟨c2, h1, h2⟩ := ih h
        exact ⟨c2, List.mem_cons_of_mem _ h1, h2⟩

theorem keys_clearList_sublist (v : Val) (cs : List (Level × Node)) :
    ((clearList v cs).map (·.1)).Sublist (cs.map (·.1)) := by
  induction cs with
  | nil => simp [clearList_nil]
  | cons hd tl ih =>
    obtain ⟨k, c⟩ := hd
    rw [clearList_cons]
    split
    · exact ih.cons _
    · exact ih.cons_cons _

theorem child?_clearList (v : Val) (cs : List (Level × Node)) (k : Level)
    (hn : (cs.map (·.1)).Nodup) :
    child? (clearList v cs) k =
      match child? cs k with
      | none => none
      | some c => if (clear v c).2 then none else some (clear v c).1 := by
  induction cs with
  | nil => simp [clearList_nil, child?]
  | cons hd tl ih =>
    obtain ⟨k', c⟩ := hd
    simp only [List.map_cons, List.nodup_cons] at hn
    rw [clearList_cons]
    by_cases e : k' = k
    · subst e
      simp only [child?, if_true]
      cases hf : (clear v c).2 with
      | true =>
        simp only [if_true]
        exact child?_eq_none.mpr (fun hm => hn.1 ((keys_clearList_sublist v tl).subset hm))
      | false => simp [child?]
    · split <;> simp [child?, e, ih hn.2]

theorem mem_stored_clear (v : Val) (n : Node) : WF n → NoDupVals n → ∀ (q : List Level) (x : Val),
    x ∈ stored (clear v n).1 q ↔ x ∈ stored n q ∧ x ≠ v := by
  induction n using Node.ind with
  | h vs cs ih =>
    intro hw hd q x
    rw [WF_mk] at hw; rw [NoDupVals_mk] at hd
    rw [clear_mk]
    cases q with
    | nil => simp [mem_removeValue _ _ _ hd.1]
    | cons l ls =>
      simp only [stored_cons_o]
      rw [child?_clearList _ _ _ hw.1]
      cases hc : child? cs l with
      | none => simp
      | some c =>
        have hcm := child?_some_mem hc
        have ihc := ih _ hcm (hw.2 _ hcm) (hd.2 _ hcm) ls x
        simp only [Option.getD_some]
        cases hf : (clear v c).2 with
        | true =>
          rw [clear_flag_true v c hf] at ihc
          simpa using ihc
        | false => simpa using ihc

theorem WF_clear (v : Val) (n : Node) : WF n → WF (clear v n).1 := by
  induction n using Node.ind with
  | h vs cs ih =>
    intro hw
    rw [WF_mk] at hw; rw [clear_mk, WF_mk]
    refine ⟨List.Nodup.sublist (keys_clearList_sublist v cs) hw.1, ?_⟩
    intro kc hkc
    obtain ⟨c, h1, h2, _⟩ := mem_clearList hkc
    rw [h2]; exact ih _ h1 (hw.2 _ h1)

theorem NoDupVals_clear (v : Val) (n : Node) : NoDupVals n → NoDupVals (clear v n).1 := by
  induction n using Node.ind with
  | h vs cs ih =>
    intro hd
    rw [NoDupVals_mk] at hd; rw [clear_mk, NoDupVals_mk]
    refine ⟨nodup_removeValue _ _ hd.1, ?_⟩
    intro kc hkc
    obtain ⟨c, h1, h2, _⟩ := mem_clearList hkc
    rw [h2]; exact ih _ h1 (hd.2 _ h1)

/-- `clear` prunes everything (no hypothesis on the tree before) -/
theorem Pruned_clear (v : Val) (n : Node) : Pruned (clear v n).1 := by
  induction n using Node.ind with
  | h vs cs ih =>
    rw [clear_mk, Pruned_mk]
    intro kc hkc
    obtain ⟨c, h1, h2, h3⟩ := mem_clearList hkc
    rw [h2]
    exact ⟨by rw [← clear_flag]; exact h3, ih _ h1⟩

end Node

namespace TopicMap

/-- the map holds every key once (an invariant of `put`) -/
def KeysNodup (m : TopicMap) : Prop := (m.map (·.1)).Nodup

/-- every stored value list is duplicate free -/
def ValsNodup (m : TopicMap) : Prop := ∀ kv ∈ m, kv.2.Nodup

theorem lookup_nil (k : List Level) : lookup [] k = [] := rfl

theorem lookup_cons (k' : List Level) (vs : List Val) (rest : TopicMap) (k : List Level) :
    lookup ((k', vs) :: rest) k = if k' = k then vs else lookup rest k := rfl

theorem lookup_of_not_mem {m : TopicMap} {k : List Level} (h : k ∉ m.map (·.1)) : lookup m k = [] := by
  induction m with
  | nil => rfl
  | cons hd tl ih =>
    obtain ⟨k', vs⟩ := hd
    simp only [List.map_cons, List.mem_cons, not_or] at h
    rw [lookup_cons, if_neg (fun e => h.1 e.symm), ih h.2]

theorem mem_of_mem_lookup {m : TopicMap} {k : List Level} {v : Val} (h : v ∈ lookup m k) :
    ∃ vs, (k, vs) ∈ m ∧ v ∈ vs := by
  induction m with
  | nil => cases h
  | cons hd tl ih =>
    obtain ⟨k', vs⟩ := hd
    rw [lookup_cons] at h
    by_cases e : k' = k
    · subst e; rw [if_pos rfl] at h; exact ⟨vs, List.mem_cons_self, h⟩
    · rw [if_neg e] at h
      obtain ⟨vs2, h1, h2⟩ := ih h
      exact ⟨vs2, List.mem_cons_of_mem _ h1, h2⟩

theorem lookup_of_mem {m : TopicMap} {k : List Level} {vs : List Val} (hn : KeysNodup m)
    (h : (k, vs) ∈ m) : lookup m k = vs := by
  induction m with
  | nil => cases h
  | cons hd tl ih =>
    obtain ⟨k', vs'⟩ := hd
    simp only [KeysNodup, List.map_cons, List.nodup_cons] at hn
    rw [lookup_cons]
    rcases List.mem_cons.mp h with e | e
    · cases e; simp
    · have : k' ≠ k := by
        intro e2; subst e2
        exact hn.1 (List.mem_map.mpr ⟨(k', vs), e, rfl⟩)
      rw [if_neg this]; exact ih hn.2 e

theorem mem_keys_put {m : TopicMap} {k x : List Level} {vs : List Val}
    (h : x ∈ (put m k vs).map (·.1)) : x ∈ m.map (·.1) ∨ x = k := by
  induction m with
  | nil =>
    simp only [put] at h
    split at h
    · cases h
    · simp at h; exact Or.inr h
  | cons hd tl ih =>
    obtain ⟨k', vs'⟩ := hd
    simp only [put] at h
    by_cases e : k' = k
    · subst e
      simp only [if_true] at h
      split at h
      · exact Or.inl (List.mem_cons_of_mem _ h)
      · exact Or.inl h
    · simp only [e, if_false, List.map_cons, List.mem_cons] at h
      rcases h with h | h
      · exact Or.inl (by simp [h])
      · rcases ih h with h | h
        · exact Or.inl (List.mem_cons_of_mem _ h)
        · exact Or.inr h

theorem KeysNodup_put {m : TopicMap} (k : List Level) (vs : List Val) (hn : KeysNodup m) :
    KeysNodup (put m k vs) := by
  induction m with
  | nil => simp only [put]; split <;> simp [KeysNodup]
  | cons hd tl ih =>
    obtain ⟨k', vs'⟩ := hd
    simp only [KeysNodup, List.map_cons, List.nodup_cons] at hn
    simp only [put]
    by_cases e : k' = k
    · subst e
      simp only [if_true]
      split
      · exact hn.2
      · simp only [KeysNodup, List.map_cons, List.nodup_cons]; exact hn
    · simp only [e, if_false, KeysNodup, List.map_cons, List.nodup_cons]
      refine ⟨?_, ih hn.2⟩
      intro hm
      rcases mem_keys_put hm with h | h
      · exact hn.1 h
      · exact e h

theorem lookup_put {m : TopicMap} (k : List Level) (vs : List Val) (q : List Level)
    (hn : KeysNodup m) : lookup (put m k vs) q = if q = k then vs else lookup m q := by
  induction m with
  | nil =>
    simp only [put]
    by_cases hv : vs.isEmpty = true
    · have : vs = [] := by simpa using hv
      subst this; simp [lookup_nil]
    · rw [if_neg hv, lookup_cons]
      by_cases e : k = q
      · subst e; simp
      · rw [if_neg e, if_neg (fun h => e h.symm)]
  | cons hd tl ih =>
    obtain ⟨k', vs'⟩ := hd
    simp only [KeysNodup, List.map_cons, List.nodup_cons] at hn
    simp only [put]
    by_cases e : k' = k
    · subst e
      simp only [if_true]
      by_cases hv : vs.isEmpty = true
      · have : vs = [] := by simpa using hv
        subst this
        simp only [List.isEmpty_nil, if_true, lookup_cons]
        by_cases e2 : q = k'
        · subst e2; simp [lookup_of_not_mem hn.1]
        · rw [if_neg e2, if_neg (fun h => e2 h.symm)]
      · rw [if_neg hv, lookup_cons, lookup_cons]
        by_cases e2 : q = k'
        · subst e2; simp
        · rw [if_neg e2, if_neg (fun h => e2 h.symm), if_neg (fun h => e2 h.symm)]
    · simp only [e, if_false, lookup_cons]
      by_cases e2 : k' = q
      · subst e2; simp [e]
      · rw [if_neg e2, if_neg e2]; exact ih hn.2

theorem nodup_lookup {m : TopicMap} (h : ValsNodup m) (k : List Level) : (lookup m k).Nodup := by
  induction m with
  | nil => simp [lookup_nil]
  | cons hd tl ih =>
    obtain ⟨k', vs⟩ := hd
    rw [lookup_cons]
    split
    · exact h (k', vs) List.mem_cons_self
    · exact ih (fun kv hkv => h kv (List.mem_cons_of_mem _ hkv))

theorem mem_put {m : TopicMap} {k : List Level} {vs : List Val} {kv : List Level × List Val}
    (h : kv ∈ put m k vs) : kv ∈ m ∨ kv = (k, vs) := by
  induction m with
  | nil =>
    simp only [put] at h
    split at h
    · cases h
    · simp at h; exact Or.inr h
  | cons hd tl ih =>
    obtain ⟨k', vs'⟩ := hd
    simp only [put] at h
    by_cases e : k' = k
    · subst e
      simp only [if_true] at h
      split at h
      · exact Or.inl (List.mem_cons_of_mem _ h)
      · rcases List.mem_cons.mp h with h | h
        · exact Or.inr h
        · exact Or.inl (List.mem_cons_of_mem _ h)
    · simp only [e, if_false, List.mem_cons] at h
      rcases h with h | h
      · exact Or.inl (by simp [h])
      · rcases ih h with h | h
        · exact Or.inl (List.mem_cons_of_mem _ h)
        · exact Or.inr h

theorem ValsNodup_put {m : TopicMap} (k : List Level) (vs : List Val) (h : ValsNodup m)
    (hv : vs.Nodup) : ValsNodup (put m k vs) := by
  intro kv hkv
  rcases mem_put hkv with h1 | h1
  · exact h kv h1
  · subst h1; exact hv

/-! #### `clear` on the map -/

theorem clear_nil (v : Val) : clear [] v = [] := rfl

theorem clear_cons (k : List Level) (vs : List Val) (rest : TopicMap) (v : Val) :
    clear ((k, vs) :: rest) v =
      if (vs.filter (· != v)).isEmpty then clear rest v
      else (k, vs.filter (· != v)) :: clear rest v := by
  simp only [clear, List.map_cons, List.filter_cons]
  by_cases hv : (vs.filter (· != v)).isEmpty = true
  · simp [hv]
  · simp only [hv]
    simp

theorem keys_clear_sublist (m : TopicMap) (v : Val) :
    ((clear m v).map (·.1)).Sublist (m.map (·.1)) := by
  induction m with
  | nil => simp [clear_nil]
  | cons hd tl ih =>
    obtain ⟨k, vs⟩ := hd
    rw [clear_cons]
    split
    · exact ih.cons _
    · exact ih.cons_cons _

theorem KeysNodup_clear {m : TopicMap} (v : Val) (h : KeysNodup m) : KeysNodup (clear m v) :=
  List.Nodup.sublist (keys_clear_sublist m v) h

theorem ValsNodup_clear {m : TopicMap} (v : Val) (h : ValsNodup m) : ValsNodup (clear m v) := by
  induction m with
  | nil => intro kv hkv; cases hkv
  | cons hd tl ih =>
    obtain ⟨k, vs⟩ := hd
    have h1 : vs.Nodup := h (k, vs) List.mem_cons_self
    have h2 := ih (fun kv hkv => h kv (List.mem_cons_of_mem _ hkv))
    rw [clear_cons]
    split
    · exact h2
    · intro kv hkv
      rcases List.mem_cons.mp hkv with e | e
      · subst e; exact List.Nodup.sublist List.filter_sublist h1
      · exact h2 kv e

theorem mem_lookup_clear {m : TopicMap} (v : Val) (hn : KeysNodup m) (q : List Level) (x : Val) :
    x ∈ lookup (clear m v) q ↔ x ∈ lookup m q ∧ x ≠ v := by
  induction m with
  | nil => simp [clear_nil, lookup_nil]
  | cons hd tl ih =>
    obtain ⟨k, vs⟩ := hd
    simp only [KeysNodup, List.map_cons, List.nodup_cons] at hn
    rw [clear_cons, lookup_cons]
    by_cases e : k = q
    · subst e
      simp only [if_true]
      by_cases hv : (vs.filter (· != v)).isEmpty = true
      · rw [if_pos hv]
        have hk : k ∉ (clear tl v).map (·.1) := fun hm => hn.1 ((keys_clear_sublist tl v).subset hm)
        rw [lookup_of_not_mem hk]
        have : vs.filter (· != v) = [] := by simpa using hv
        have h2 : x ∉ vs.filter (· != v) := by rw [this]; simp
        simpa using h2
      · rw [if_neg hv, lookup_cons, if_pos rfl]; simp
    · rw [if_neg e]
      split
      · exact ih hn.2
      · rw [lookup_cons, if_neg e]; exact ih hn.2

/-! #### queries by matching -/

theorem mem_matchName {m : TopicMap} (hn : KeysNodup m) (name : List Level) (v : Val) :
    v ∈ matchName m name ↔ ∃ f, v ∈ lookup m f ∧ tmatches f name = true := by
  simp only [matchName, List.mem_flatMap, List.mem_filter]
  constructor
  · rintro ⟨⟨f, vs⟩, ⟨h1, h2⟩, h3⟩
    exact ⟨f, by rw [lookup_of_mem hn h1]; exact h3, h2⟩
  · rintro ⟨f, h1, h2⟩
    obtain ⟨vs, h3, h4⟩ := mem_of_mem_lookup h1
    exact ⟨(f, vs), ⟨h3, h2⟩, h4⟩

theorem mem_searchFilter {m : TopicMap} (hn : KeysNodup m) (filter : List Level) (v : Val) :
    v ∈ searchFilter m filter ↔ ∃ nm, v ∈ lookup m nm ∧ tmatches filter nm = true := by
  simp only [searchFilter, List.mem_flatMap, List.mem_filter]
  constructor
  · rintro ⟨⟨f, vs⟩, ⟨h1, h2⟩, h3⟩
    exact ⟨f, by rw [lookup_of_mem hn h1]; exact h3, h2⟩
  · rintro ⟨f, h1, h2⟩
    obtain ⟨vs, h3, h4⟩ := mem_of_mem_lookup h1
    exact ⟨(f, vs), ⟨h3, h2⟩, h4⟩

theorem mem_all {m : TopicMap} (hn : KeysNodup m) (v : Val) :
    v ∈ all m ↔ ∃ p, v ∈ lookup m p := by
  simp only [all, List.mem_flatMap]
  constructor
  · rintro ⟨⟨f, vs⟩, h1, h3⟩
    exact ⟨f, by rw [lookup_of_mem hn h1]; exact h3⟩
  · rintro ⟨f, h1⟩
    obtain ⟨vs, h3, h4⟩ := mem_of_mem_lookup h1
    exact ⟨(f, vs), h3, h4⟩

end TopicMap

namespace Node

/-! ### the (path, value) pairs held by a trie: `all` and `count` -/

mutual
/-- every (path, value) pair of the trie, in traversal order -/
def pairs : Node → List (List Level × Val)
  | mk vs cs => vs.map (fun v => ([], v)) ++ pairsList cs
def pairsList : List (Level × Node) → List (List Level × Val)
  | [] => []
  | (k, c) :: rest => (pairs c).map (fun pv => (k :: pv.1, pv.2)) ++ pairsList rest
end

theorem pairs_mk (vs : List Val) (cs : List (Level × Node)) :
    pairs (mk vs cs) = vs.map (fun v => ([], v)) ++ pairsList cs := by simp [pairs]
theorem pairsList_nil : pairsList [] = [] := by simp [pairsList]
theorem pairsList_cons (k : Level) (c : Node) (rest : List (Level × Node)) :
    pairsList ((k, c) :: rest) = (pairs c).map (fun pv => (k :: pv.1, pv.2)) ++ pairsList rest := by
  simp [pairsList]

theorem subtreeVals_mk (vs : List Val) (cs : List (Level × Node)) :
    subtreeVals (mk vs cs) = vs ++ subtreeValsList cs := by simp [subtreeVals]
theorem subtreeValsList_nil : subtreeValsList [] = [] := by simp [subtreeValsList]
theorem subtreeValsList_cons (k : Level) (c : Node) (rest : List (Level × Node)) :
    subtreeValsList ((k, c) :: rest) = subtreeVals c ++ subtreeValsList rest := by
  simp [subtreeValsList]

theorem count_mk (vs : List Val) (cs : List (Level × Node)) :
    count (mk vs cs) = vs.length + countList cs := by simp [count]
theorem countList_nil : countList [] = 0 := by simp [countList]
theorem countList_cons (k : Level) (c : Node) (rest : List (Level × Node)) :
    countList ((k, c) :: rest) = count c + countList rest := by simp [countList]

theorem subtreeVals_eq_pairs (n : Node) : subtreeVals n = (pairs n).map (·.2) := by
  induction n using Node.ind with
  | h vs cs ih =>
    rw [subtreeVals_mk, pairs_mk, List.map_append, List.map_map]
    have h1 : List.map ((fun x => x.2) ∘ fun v => (([] : List Level), v)) vs = vs := by
      simp [Function.comp_def]
    rw [h1]; congr 1
    induction cs with
    | nil => simp [subtreeValsList_nil, pairsList_nil]
    | cons hd tl ih2 =>
      obtain ⟨k, c⟩ := hd
      rw [subtreeValsList_cons, pairsList_cons, List.map_append, List.map_map,
        ih2 (fun kc h => ih kc (List.mem_cons_of_mem _ h)), ih (k, c) List.mem_cons_self]
      simp [Function.comp_def]

theorem length_pairs (n : Node) : (pairs n).length = count n := by
  induction n using Node.ind with
  | h vs cs ih =>
    rw [count_mk, pairs_mk, List.length_append, List.length_map]; congr 1
    induction cs with
    | nil => simp [countList_nil, pairsList_nil]
    | cons hd tl ih2 =>
      obtain ⟨k, c⟩ := hd
      rw [countList_cons, pairsList_cons, List.length_append, List.length_map,
        ih2 (fun kc h => ih kc (List.mem_cons_of_mem _ h)), ih (k, c) List.mem_cons_self]

theorem mem_pairsList {cs : List (Level × Node)} {p : List Level} {v : Val} :
    (p, v) ∈ pairsList cs ↔ ∃ k c ls, (k, c) ∈ cs ∧ p = k :: ls ∧ (ls, v) ∈ pairs c := by
  induction cs with
  | nil => simp [pairsList_nil]
  | cons hd tl ih =>
    obtain ⟨k, c⟩ := hd
    rw [pairsList_cons, List.mem_append, ih]
    constructor
    · rintro (h | ⟨k2, c2, ls, h1, h2, h3⟩)
      · obtain ⟨⟨ls, v'⟩, h1, h2⟩ := List.mem_map.mp h
        simp only [Prod.mk.injEq] at h2
        obtain ⟨h2, h3⟩ := h2
        subst h3
        exact ⟨k, c, ls, List.mem_cons_self, h2.symm, h1⟩
      · exact ⟨k2, c2, ls, List.mem_cons_of_mem _ h1, h2, h3⟩
    · rintro ⟨k2, c2, ls, h1, h2, h3⟩
      rcases List.mem_cons.mp h1 with e | e
      · cases e
        exact Or.inl (List.mem_map.mpr ⟨(ls, v), h3, by simp [h2]⟩)
      · exact Or.inr ⟨k2, c2, ls, e, h2, h3⟩

theorem mem_pairs (n : Node) : WF n → ∀ (p : List Level) (v : Val),
    (p, v) ∈ pairs n ↔ v ∈ stored n p := by
  induction n using Node.ind with
  | h vs cs ih =>
    intro hw p v
    rw [WF_mk] at hw
    rw [pairs_mk, List.mem_append, mem_pairsList]
    cases p with
    | nil => simp
    | cons l ls =>
      rw [stored_cons_o]
      constructor
      · rintro (h | ⟨k, c, ls', h1, h2, h3⟩)
        · simp at h
        · cases h2
          rw [mem_child?_o hw.1 h1]
          exact (ih _ h1 (hw.2 _ h1) ls v).mp h3
      · intro h
        cases hc : child? cs l with
        | none => rw [hc] at h; simp at h
        | some c =>
          rw [hc] at h
          have hcm := child?_some_mem hc
          exact Or.inr ⟨l, c, ls, hcm, rfl, (ih _ hcm (hw.2 _ hcm) ls v).mpr h⟩

theorem mem_subtreeVals_o (n : Node) (hw : WF n) (v : Val) :
    v ∈ subtreeVals n ↔ ∃ p, v ∈ stored n p := by
  rw [subtreeVals_eq_pairs, List.mem_map]
  constructor
  · rintro ⟨⟨p, v'⟩, h1, h2⟩
    simp only at h2; subst h2
    exact ⟨p, (mem_pairs n hw p v').mp h1⟩
  · rintro ⟨p, h⟩
    exact ⟨(p, v), (mem_pairs n hw p v).mpr h, rfl⟩

theorem nodup_map_of_injective {α β} {f : α → β} {l : List α} (hf : ∀ a b, f a = f b → a = b)
    (h : l.Nodup) : (l.map f).Nodup :=
  List.Pairwise.map f (fun a b hab e => hab (hf a b e)) h

theorem nodup_pairs (n : Node) : WF n → NoDupVals n → (pairs n).Nodup := by
  induction n using Node.ind with
  | h vs cs ih =>
    intro hw hd
    rw [WF_mk] at hw; rw [NoDupVals_mk] at hd
    rw [pairs_mk, List.nodup_append]
    refine ⟨nodup_map_of_injective (by intro a b e; simpa using e) hd.1, ?_, ?_⟩
    · obtain ⟨hk, hwc⟩ := hw
      have hdc := hd.2
      clear hd
      induction cs with
      | nil => simp [pairsList_nil]
      | cons hd tl ih2 =>
        obtain ⟨k, c⟩ := hd
        simp only [List.map_cons, List.nodup_cons] at hk
        rw [pairsList_cons, List.nodup_append]
        refine ⟨nodup_map_of_injective ?_ (ih (k, c) List.mem_cons_self
            (hwc _ List.mem_cons_self) (hdc _ List.mem_cons_self)),
          ih2 (fun kc h => ih kc (List.mem_cons_of_mem _ h)) hk.2
            (fun kc h => hwc kc (List.mem_cons_of_mem _ h))
            (fun kc h => hdc kc (List.mem_cons_of_mem _ h)), ?_⟩
        · rintro ⟨p1, v1⟩ ⟨p2, v2⟩ e
          simp only [Prod.mk.injEq, List.cons.injEq, true_and] at e
          simp [e.1, e.2]
        · rintro ⟨p1, v1⟩ h1 ⟨p2, v2⟩ h2 e
          cases e
          obtain ⟨⟨ls, v'⟩, _, h3⟩ := List.mem_map.mp h1
          simp only [Prod.mk.injEq] at h3
          obtain ⟨k2, c2, ls2, h4, h5, _⟩ := mem_pairsList.mp h2
          rw [← h3.1] at h5
          cases h5
          exact hk.1 (List.mem_map.mpr ⟨(k, c2), h4, rfl⟩)
    · rintro ⟨p1, v1⟩ h1 ⟨p2, v2⟩ h2 e
      cases e
      obtain ⟨v', _, h3⟩ := List.mem_map.mp h1
      simp only [Prod.mk.injEq] at h3
      obtain ⟨k2, c2, ls2, _, h5, _⟩ := mem_pairsList.mp h2
      rw [← h3.1] at h5
      cases h5

end Node

namespace TopicMap

/-- every (key, value) pair of the map -/
def pairs (m : TopicMap) : List (List Level × Val) :=
  m.flatMap fun kv => kv.2.map fun v => (kv.1, v)

theorem length_pairs (m : TopicMap) : (pairs m).length = count m := by
  simp [pairs, count, List.length_flatMap]

theorem mem_pairs {m : TopicMap} (hn : KeysNodup m) (p : List Level) (v : Val) :
    (p, v) ∈ pairs m ↔ v ∈ lookup m p := by
  simp only [pairs, List.mem_flatMap, List.mem_map, Prod.mk.injEq]
  constructor
  · rintro ⟨⟨k, vs⟩, h1, v', h2, h3, h4⟩
    simp only at h3 h4; subst h3; subst h4
    rw [lookup_of_mem hn h1]; exact h2
  · intro h
    obtain ⟨vs, h1, h2⟩ := mem_of_mem_lookup h
    exact ⟨(p, vs), h1, v, h2, rfl, rfl⟩

theorem nodup_pairs {m : TopicMap} (hn : KeysNodup m) (hv : ValsNodup m) : (pairs m).Nodup := by
  induction m with
  | nil => simp [pairs]
  | cons hd tl ih =>
    obtain ⟨k, vs⟩ := hd
    simp only [KeysNodup, List.map_cons, List.nodup_cons] at hn
    have : pairs ((k, vs) :: tl) = vs.map (fun v => (k, v)) ++ pairs tl := by
      simp [pairs]
    rw [this, List.nodup_append]
    refine ⟨Node.nodup_map_of_injective (by intro a b e; simpa using e) (hv (k, vs) List.mem_cons_self),
      ih hn.2 (fun kv h => hv kv (List.mem_cons_of_mem _ h)), ?_⟩
    rintro ⟨p1, v1⟩ h1 ⟨p2, v2⟩ h2 e
    cases e
    obtain ⟨v', _, h3⟩ := List.mem_map.mp h1
    simp only [Prod.mk.injEq] at h3
    simp only [pairs, List.mem_flatMap, List.mem_map, Prod.mk.injEq] at h2
    obtain ⟨⟨k2, vs2⟩, h4, _, _, h5, _⟩ := h2
    simp only at h5
    rw [← h3.1] at h5; subst h5
    exact hn.1 (List.mem_map.mpr ⟨(k2, vs2), h4, rfl⟩)

end TopicMap

/-- two duplicate-free representations of the same contents hold the same number of pairs -/
theorem count_eq_of_same_contents (n : Node) (m : TopicMap) (hw : n.WF) (hd : n.NoDupVals)
    (hk : m.KeysNodup) (hv : m.ValsNodup) (h : ∀ p v, v ∈ Node.stored n p ↔ v ∈ m.lookup p) :
    Node.count n = TopicMap.count m := by
  rw [← Node.length_pairs, ← TopicMap.length_pairs]
  apply List.Perm.length_eq
  rw [List.perm_ext_iff_of_nodup (Node.nodup_pairs n hw hd) (TopicMap.nodup_pairs hk hv)]
  rintro ⟨p, v⟩
  rw [Node.mem_pairs n hw, TopicMap.mem_pairs hk]
  exact h p v
