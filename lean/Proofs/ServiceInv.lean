import Proofs.ServiceQ
/-
  Proofs/ServiceInv.lean — invariants of the service model that concern the command queue, the
  subscriptions and the supervisor's phase (everything but the futures, see ServiceFut.lean).
-/
set_option linter.unusedSimpArgs false
namespace SvcK2
open Svc Svc.SState

/-- after `split at h`: discharge impossible branches, substitute the resulting state -/
macro "step_subst" h:ident : tactic =>
  `(tactic| (all_goals (try (simp at $h:ident))
             all_goals (try (first
               | (have hs__ := congrArg Prod.fst $h:ident; dsimp only at hs__; subst hs__)
               | ((repeat' (cases ‹_ ∧ _›)); subst_vars)))))

/-! ### configuration never changes -/

theorem supStep_cfg {s s' : SState} {ch : SupChoice} {o : List Obs} (h : supStep s ch = some (s', o)) :
    s'.cfg = s.cfg := by
  unfold supStep at h
  repeat' split at h
  step_subst h
  all_goals simp [supTake]

theorem fireStep_cfg {s s' : SState} {o : List Obs} (h : fireStep s = some (s', o)) : s'.cfg = s.cfg := by
  unfold fireStep at h
  repeat' split at h
  step_subst h
  all_goals simp

theorem stopTail_cfg (s : SState) (clear : Bool) : (stopTail s clear).cfg = s.cfg := by
  unfold stopTail; repeat' split
  all_goals simp

theorem step_cfg {s s' : SState} {e : Ev} {o : List Obs} (h : step s e = some (s', o)) : s'.cfg = s.cfg := by
  cases e with
  | sup ch => exact supStep_cfg h
  | fire => exact fireStep_cfg h
  | _ =>
    simp only [step] at h
    repeat' split at h
    step_subst h
    all_goals (first | rfl | simp [stopTail_cfg])

theorem reachable_cfg {cfg : Cfg} {s : SState} (h : Reachable cfg s) : s.cfg = cfg := by
  induction h with
  | init => rfl
  | step _ hs ih => rw [step_cfg hs, ih]

/-! ### the command queue is first-in first-out -/

/-- every command ever accepted has either left the queue (in that order) or is still in it -/
def Fifo (s : SState) : Prop := s.issued = s.handled ++ s.queue

theorem dequeue_fifo {s : SState} {cmd : Cmd} {rest : List Cmd} (h : Fifo s) (hq : s.queue = cmd :: rest) :
    Fifo (dequeue s cmd rest) := by
  unfold Fifo at *
  unfold dequeue
  split <;> simp [h, hq]

theorem supStep_fifo {s s' : SState} {ch : SupChoice} {o : List Obs} (hf : Fifo s)
    (h : supStep s ch = some (s', o)) : Fifo s' := by
  unfold supStep at h
  repeat' split at h
  step_subst h
  all_goals (first
    | exact hf
    | (unfold Fifo at *; simp [hf]; done)
    | skip)
  · -- take
    rename_i hq
    have := dequeue_fifo hf hq
    unfold Fifo at *
    simpa [supTake] using this
  · -- direct hand-over
    rename_i hq _ _ hb
    unfold Fifo at *
    simp [handOver, hf, hq]

theorem fireStep_fifo {s s' : SState} {o : List Obs} (hf : Fifo s) (h : fireStep s = some (s', o)) : Fifo s' := by
  unfold fireStep at h
  repeat' split at h
  step_subst h
  all_goals (unfold Fifo at *; simp [hf])

theorem stopTail_fifo {s : SState} (clear : Bool) (hf : Fifo s) : Fifo (stopTail s clear) := by
  unfold stopTail Fifo at *
  repeat' split
  all_goals simp [drainQueue, hf]

theorem step_fifo {s s' : SState} {e : Ev} {o : List Obs} (hf : Fifo s) (h : step s e = some (s', o)) : Fifo s' := by
  cases e with
  | sup ch => exact supStep_fifo hf h
  | fire => exact fireStep_fifo hf h
  | _ =>
    simp only [step] at h
    repeat' split at h
    step_subst h
    all_goals (first
      | exact hf
      | exact stopTail_fifo _ hf
      | (unfold Fifo at *; simp [hf, enqueue, newFut, block, unblock]; done))

theorem reachable_fifo {cfg : Cfg} {s : SState} (h : Reachable cfg s) : Fifo s := by
  induction h with
  | init => simp [Fifo]
  | step _ hs ih => exact step_fifo ih hs

/-! ### the supervisor's phase, its client, the protection flag, the API flags -/

/-- phases in which the supervisor holds a client -/
def Phase.hasClient : Phase → Bool
  | .connWait | .online _ | .resubWait _ | .dispatching | .discAwait => true
  | _ => false

structure PhaseInv (s : SState) : Prop where
  /-- a phase with a client has one, the others have none -/
  client : s.cl.isSome = Phase.hasClient s.phase
  /-- while a supervisor exists the shared future store is protected -/
  prot : s.phase ≠ .exited → s.protected = true
  /-- `Stop` holds the mutex: nobody is blocked in an API call, `started` is already false -/
  stop : s.stopping.isSome = true → s.blocked = none ∧ s.started = false
  /-- a running service has a supervisor; a supervisor belongs to a running or stopping service -/
  run : s.started = true → s.phase ≠ .exited
  sup : s.phase ≠ .exited → s.started = true ∨ s.stopping.isSome = true
  /-- with the repair of row 9 the supervisor never wedges -/
  wedge : s.cfg.fix9 = true → s.phase ≠ .wedged

theorem closeSt_cl (s : SState) : s.closeSt.cl = none := by
  unfold closeSt; split <;> simp_all

theorem toLoop_hasClient (s : SState) : Phase.hasClient s.toLoop.phase = false := by
  rw [toLoop_phase]; split <;> rfl

theorem toLoop_ne_wedged (s : SState) : s.toLoop.phase ≠ .wedged := by
  rw [toLoop_phase]; split <;> simp

theorem toLoop_exited_iff (s : SState) : s.toLoop.phase ≠ .exited ↔ s.stopping.isSome = false := by
  rw [toLoop_phase]; split <;> simp_all

/-- a step that changes none of the fields the invariant talks about -/
theorem PhaseInv.congr {s s' : SState} (hi : PhaseInv s) (hcl : s'.cl.isSome = s.cl.isSome)
    (hph : s'.phase = s.phase) (hpr : s'.protected = s.protected) (hst : s'.stopping = s.stopping)
    (hbl : s'.blocked = s.blocked) (hsa : s'.started = s.started) (hcf : s'.cfg = s.cfg) : PhaseInv s' := by
  constructor
  · rw [hcl, hph]; exact hi.client
  · rw [hph, hpr]; exact hi.prot
  · rw [hst, hbl, hsa]; exact hi.stop
  · rw [hsa, hph]; exact hi.run
  · rw [hsa, hph, hst]; exact hi.sup
  · rw [hcf, hph]; exact hi.wedge

/-- the supervisor closes its client (if any) and goes back to the top of its loop -/
theorem PhaseInv.loop {s s' : SState} (hi : PhaseInv s) (hne : s.phase ≠ .exited)
    (hcl : s'.cl = none) (hph : s'.phase = s.toLoop.phase) (hpr : s'.protected = s.protected)
    (hst : s'.stopping = s.stopping) (hbl : s'.blocked = s.blocked) (hsa : s'.started = s.started) :
    PhaseInv s' := by
  have hstop := hi.stop
  have hsup := hi.sup hne
  constructor
  · rw [hcl, hph, toLoop_hasClient]; rfl
  · intro _; rw [hpr]; exact hi.prot hne
  · rw [hst, hbl, hsa]; exact hi.stop
  · rw [hsa, hph]; intro h1
    rw [toLoop_exited_iff]
    cases hs : s.stopping.isSome with
    | false => rfl
    | true => have := (hstop hs).2; rw [h1] at this; cases this
  · rw [hph, hsa, hst, toLoop_exited_iff]; intro h1
    cases hsup with
    | inl h2 => exact Or.inl h2
    | inr h2 => rw [h1] at h2; cases h2
  · intro _; rw [hph]; exact toLoop_ne_wedged s

/-- the supervisor moves on with the same client -/
theorem PhaseInv.move {s s' : SState} (hi : PhaseInv s) (hne : s.phase ≠ .exited) (p : Phase)
    (hp1 : Phase.hasClient p = Phase.hasClient s.phase) (hp2 : p ≠ .exited) (hp3 : p ≠ .wedged)
    (hcl : s'.cl.isSome = s.cl.isSome) (hph : s'.phase = p) (hpr : s'.protected = s.protected)
    (hst : s'.stopping = s.stopping) (hbl : s'.blocked = s.blocked) (hsa : s'.started = s.started) :
    PhaseInv s' := by
  constructor
  · rw [hcl, hph, hp1]; exact hi.client
  · intro _; rw [hpr]; exact hi.prot hne
  · rw [hst, hbl, hsa]; exact hi.stop
  · intro _; rw [hph]; exact hp2
  · intro _; rw [hsa, hst]; exact hi.sup hne
  · intro _; rw [hph]; exact hp3

theorem failAttempt_phaseInv {s : SState} (hi : PhaseInv s) (hne : s.phase ≠ .exited) (pre : List Obs) (sys : Sys) :
    PhaseInv (failAttempt s pre sys).1 := by
  apply hi.loop hne <;> simp [failAttempt, closeSt_cl, toLoop_phase]

theorem leaveDispatcher_phaseInv {s : SState} (hi : PhaseInv s) (hne : s.phase ≠ .exited) (pre : List Obs) :
    PhaseInv (leaveDispatcher s pre).1 := by
  apply hi.loop hne <;> simp [leaveDispatcher, closeSt_cl, toLoop_phase]

theorem supDisconnect_phaseInv {s : SState} (hi : PhaseInv s) (hne : s.phase ≠ .exited) (c : Client) :
    PhaseInv (supDisconnect s c).1 := by
  apply hi.loop hne <;> simp [supDisconnect, closeSt_cl, toLoop_phase]

theorem PhaseInv.exit {s : SState} (hi : PhaseInv s) (hph : s.phase = .backoff) (hst : s.stopping.isSome = true) :
    PhaseInv (s.setPhase .exited) := by
  have hc := hi.client
  rw [hph] at hc
  constructor
  · simpa [Phase.hasClient] using hc
  · simp
  · simpa using hi.stop
  · intro h; simp at h; have := (hi.stop hst).2; rw [h] at this; cases this
  · simp
  · simp

theorem supConnect_phaseInv {s : SState} (hi : PhaseInv s) (hph : s.phase = .connecting) : PhaseInv (supConnect s).1 := by
  have hne : s.phase ≠ .exited := by rw [hph]; simp
  have hc := hi.client
  rw [hph] at hc
  have hcn : s.cl = none := by simpa [Phase.hasClient] using hc
  unfold supConnect
  dsimp only
  repeat' split
  · apply hi.loop hne <;> simp [toLoop_phase, hcn]
  · apply hi.loop hne <;> simp [toLoop_phase, hcn]
  · -- wedged (row 9, unrepaired)
    rename_i hfix
    constructor
    · simp [Phase.hasClient, hcn]
    · intro _; simpa using hi.prot hne
    · simpa using hi.stop
    · simp
    · intro _; simpa using hi.sup hne
    · intro h; simp at h; exact absurd h hfix
  · constructor
    · simp [Phase.hasClient]
    · intro _; simpa using hi.prot hne
    · simpa using hi.stop
    · simp
    · intro _; simpa using hi.sup hne
    · simp

theorem supOnline_phaseInv {s : SState} (hi : PhaseInv s) {sp : Bool} (hph : s.phase = .online sp) (c : Client) :
    PhaseInv (supOnline s c sp).1 := by
  have hne : s.phase ≠ .exited := by rw [hph]; simp
  unfold supOnline
  repeat' split
  · apply hi.move hne .dispatching <;> simp [hph, Phase.hasClient]
  · exact failAttempt_phaseInv hi hne _ _
  · exact failAttempt_phaseInv (s := s.nextID.2) (hi.congr rfl rfl rfl rfl rfl rfl rfl) hne _ _
  · apply hi.move hne (.resubWait s.nextID.1) <;> simp [hph, Phase.hasClient]
  · apply hi.loop hne <;> simp [failAttempt, closeSt_cl, toLoop_phase]

theorem clientCall_phaseInv {s : SState} (hi : PhaseInv s) (hph : s.phase = .dispatching) (c : Client) (cmd : Cmd) :
    PhaseInv (clientCall s c cmd).1 := by
  have hne : s.phase ≠ .exited := by rw [hph]; simp
  unfold clientCall
  dsimp only
  repeat' split
  · apply hi.loop hne <;> simp [leaveDispatcher, closeSt_cl, toLoop_phase]
  · apply hi.loop hne <;> simp [leaveDispatcher, closeSt_cl, toLoop_phase]
  · apply hi.congr <;> simp
  · apply hi.congr <;> simp
  · apply hi.loop hne <;> simp [leaveDispatcher, closeSt_cl, toLoop_phase]

theorem ne_exited_of_eq {s : SState} {p : Phase} (h : s.phase = p) (hp : p ≠ .exited) : s.phase ≠ .exited := by
  rw [h]; exact hp

theorem dequeue_phaseInv {s : SState} (hi : PhaseInv s) (cmd : Cmd) (rest : List Cmd) : PhaseInv (dequeue s cmd rest) := by
  constructor
  · simpa using hi.client
  · simpa using hi.prot
  · intro h
    have := hi.stop (by simpa using h)
    unfold dequeue; split <;> simp_all
  · simpa using hi.run
  · simpa using hi.sup
  · simpa using hi.wedge

theorem handOver_phaseInv {s : SState} (hi : PhaseInv s) (b : Cmd) : PhaseInv (handOver s b) := by
  constructor
  · simpa using hi.client
  · simpa using hi.prot
  · intro h
    have := hi.stop (by simpa using h)
    simp_all [handOver]
  · simpa using hi.run
  · simpa using hi.sup
  · simpa using hi.wedge

theorem supStep_phaseInv {s s' : SState} {ch : SupChoice} {o : List Obs} (hi : PhaseInv s)
    (h : supStep s ch = some (s', o)) : PhaseInv s' := by
  unfold supStep at h
  repeat' split at h
  step_subst h
  all_goals first
    | exact hi.exit ‹_› ‹_›
    | exact supConnect_phaseInv hi ‹_›
    | exact supOnline_phaseInv hi ‹_› _
    | exact failAttempt_phaseInv hi (ne_exited_of_eq ‹s.phase = _› (by simp)) _ _
    | exact leaveDispatcher_phaseInv hi (ne_exited_of_eq ‹s.phase = _› (by simp)) _
    | exact supDisconnect_phaseInv hi (ne_exited_of_eq ‹s.phase = _› (by simp)) _
    | (refine hi.move (ne_exited_of_eq ‹s.phase = _› (by simp)) _ ?_ ?_ ?_ ?_ rfl ?_ ?_ ?_ ?_ <;>
        simp [‹s.phase = _›, Phase.hasClient]; done)
    | skip
  · -- take
    rename_i cmd rest _ _
    have h0 : PhaseInv (applySubs (dequeue s cmd rest) cmd.kind) :=
      (dequeue_phaseInv hi cmd rest).congr (by simp) (by simp) (by simp) (by simp) (by simp) (by simp) (by simp)
    exact clientCall_phaseInv h0 (by simp [‹s.phase = _›]) _ _
  · -- direct hand-over
    rename_i b _
    have h0 : PhaseInv (applySubs (handOver s b) b.kind) :=
      (handOver_phaseInv hi b).congr (by simp) (by simp) (by simp) (by simp) (by simp) (by simp) (by simp)
    exact clientCall_phaseInv h0 (by simp [‹s.phase = _›]) _ _

theorem fireStep_phaseInv {s s' : SState} {o : List Obs} (hi : PhaseInv s) (h : fireStep s = some (s', o)) :
    PhaseInv s' := by
  unfold fireStep at h
  repeat' split at h
  step_subst h
  all_goals first
    | exact failAttempt_phaseInv hi (ne_exited_of_eq ‹s.phase = _› (by simp)) _ _
    | exact supDisconnect_phaseInv hi (ne_exited_of_eq ‹s.phase = _› (by simp)) _
    | skip
  · -- backoff → connecting
    rename_i hph
    have hc := hi.client
    rw [hph] at hc
    have hne : s.phase ≠ .exited := by rw [hph]; simp
    constructor
    · simpa [Phase.hasClient] using hc
    · intro _; simpa using hi.prot hne
    · simpa using hi.stop
    · simp
    · intro _; simpa using hi.sup hne
    · simp

theorem stopTail_phaseInv {s : SState} (hi : PhaseInv s) (hph : s.phase = .exited) (clear : Bool) :
    PhaseInv (stopTail s clear) := by
  have hc := hi.client
  rw [hph] at hc
  have hrun := hi.run
  unfold stopTail
  repeat' split
  all_goals
    constructor
    · simpa [hph, Phase.hasClient] using hc
    · intro h; simp [hph] at h
    · intro h; simp [stopDone] at h
    · intro h; exact absurd hph (hrun (by simpa using h))
    · intro h; simp [hph] at h
    · simp [hph]

theorem step_start (s : SState) : step s .start =
    (if !mutexFree s then none else if s.started then some (s, []) else some (startSt s, [])) := rfl
theorem step_stopCall (s : SState) (clear : Bool) : step s (.stopCall clear) =
    (if !mutexFree s then none else if !s.started then some (s, [.stopret false]) else some (stopSt s clear, [])) := rfl
theorem step_stopRet (s : SState) : step s .stopRet =
    (match s.stopping with
     | some clear => if s.phase == .exited then some (stopTail s clear, [.stopret true]) else none
     | none => none) := rfl
theorem step_call (s : SState) (c : Cmd) : step s (.call c) =
    (if !mutexFree s then none
     else if (futOf s.futs c.n).isSome then none
     else if s.queue.length < s.cfg.cap then some (enqueue (newFut s c.n) c, [.ret c.n true])
     else some (block (newFut s c.n) c, [])) := rfl
theorem step_callTimeout (s : SState) : step s .callTimeout =
    (match s.blocked with
     | some c => some (resolveCmd (unblock s) c.n .cancelled, [.ret c.n false])
     | none => none) := rfl
theorem step_plan (s : SState) (k : PlanKind) : step s (.plan k) = some (s.setPlan k, []) := rfl
theorem step_recv (s : SState) (conn : Nat) (p : Packet) : step s (.recv conn p) =
    (match s.cl with
     | some c => if c.conn = conn then some (procRecv s c p) else some (s, [])
     | none => some (s, [])) := rfl
theorem step_drop (s : SState) (conn : Nat) : step s (.drop conn) =
    (match s.cl with
     | some c => if c.conn = conn && !c.peerGone then some (dropStep s c) else some (s, [])
     | none => some (s, [])) := rfl
theorem step_failNext (s : SState) (conn : Nat) : step s (.failNext conn) =
    (match s.cl with
     | some c => if c.conn = conn then some (s.setCl { c with failNext := true }, []) else some (s, [])
     | none => some (s, [])) := rfl
theorem step_procFail (s : SState) (conn : Nat) : step s (.procFail conn) =
    (match s.cl with
     | some c => if c.conn = conn then some (s.setCl { c with procFail := true }, []) else some (s, [])
     | none => some (s, [])) := rfl
theorem step_fire (s : SState) : step s .fire = fireStep s := rfl
theorem step_sup (s : SState) (ch : SupChoice) : step s (.sup ch) = supStep s ch := rfl

/-- case analysis of one `step` (for a concrete event constructor) -/
macro "step_cases" h:ident : tactic =>
  `(tactic| (first
              | rw [step_start] at $h:ident | rw [step_stopCall] at $h:ident | rw [step_stopRet] at $h:ident
              | rw [step_call] at $h:ident | rw [step_callTimeout] at $h:ident | rw [step_plan] at $h:ident
              | rw [step_recv] at $h:ident | rw [step_drop] at $h:ident | rw [step_failNext] at $h:ident
              | rw [step_procFail] at $h:ident
             repeat' split at $h:ident
             step_subst $h))

theorem step_phaseInv {s s' : SState} {e : Ev} {o : List Obs} (hi : PhaseInv s) (h : step s e = some (s', o)) :
    PhaseInv s' := by
  cases e with
  | sup ch => exact supStep_phaseInv hi h
  | fire => exact fireStep_phaseInv hi h
  | start =>
    step_cases h
    · exact hi
    · rename_i hm hs
      have hmf : s.stopping = none ∧ s.blocked = none := by simpa [mutexFree] using hm
      constructor
      · have hc := hi.client
        have : s.phase = .exited := by
          apply Classical.byContradiction; intro hne
          cases hi.sup hne with
          | inl h1 => exact hs h1
          | inr h2 => simp [hmf.1] at h2
        rw [this] at hc
        have hcn : s.cl = none := by simpa [Phase.hasClient] using hc
        simp [startSt, Phase.hasClient, hcn]
      · simp [startSt]
      · simp [startSt, hmf.1]
      · simp [startSt]
      · simp [startSt]
      · simp [startSt]
  | stopCall clear =>
    step_cases h
    · exact hi
    · rename_i hm hs
      have hmf : s.stopping = none ∧ s.blocked = none := by simpa [mutexFree] using hm
      have hst : s.started = true := by simpa using hs
      constructor
      · simpa [stopSt] using hi.client
      · simpa [stopSt] using hi.prot
      · simp [stopSt, hmf.2]
      · simp [stopSt]
      · intro _; simp [stopSt]
      · simpa [stopSt] using hi.wedge
  | stopRet =>
    step_cases h
    exact stopTail_phaseInv hi (by simpa using ‹(s.phase == Phase.exited) = true›) _
  | call c =>
    step_cases h
    · apply hi.congr <;> simp
    · rename_i hm _ _
      have hmf : s.stopping = none ∧ s.blocked = none := by simpa [mutexFree] using hm
      constructor
      · simpa using hi.client
      · simpa using hi.prot
      · simp [hmf.1]
      · simpa using hi.run
      · simpa using hi.sup
      · simpa using hi.wedge
  | callTimeout =>
    step_cases h
    constructor
    · simpa using hi.client
    · simpa using hi.prot
    · intro h; have := hi.stop (by simpa using h); simp_all [unblock]
    · simpa using hi.run
    · simpa using hi.sup
    · simpa using hi.wedge
  | plan k =>
    step_cases h
    apply hi.congr <;> simp
  | recv c p =>
    step_cases h
    all_goals first
      | exact hi
      | (apply hi.congr <;> simp [procRecv_cl, ‹s.cl = _›])
  | drop c =>
    step_cases h
    all_goals first
      | exact hi
      | (apply hi.congr <;> simp [dropStep_cl, ‹s.cl = _›])
  | failNext c =>
    step_cases h
    all_goals first
      | exact hi
      | (apply hi.congr <;> simp [‹s.cl = _›])
  | procFail c =>
    step_cases h
    all_goals first
      | exact hi
      | (apply hi.congr <;> simp [‹s.cl = _›])

theorem reachable_phaseInv {cfg : Cfg} {s : SState} (h : Reachable cfg s) : PhaseInv s := by
  induction h with
  | init => constructor <;> simp [Phase.hasClient]
  | step _ hs ih => exact step_phaseInv ih hs

/-! ### the subscriptions are the fold of the dispatched subscribe / unsubscribe commands -/

def addSubP (st : Node × List Subscription) (sub : Subscription) : Node × List Subscription :=
  (Tree.set sub.topic st.2.length st.1, st.2 ++ [sub])
def delSubP (st : Node × List Subscription) (t : Bytes) : Node × List Subscription :=
  (Tree.emptyTopic t st.1, st.2)
/-- what one dispatched command does to (`subscriptions`, table of subscription values) -/
def applySubsP (st : Node × List Subscription) : CmdKind → Node × List Subscription
  | .subscribe subs => subs.foldl addSubP st
  | .unsubscribe ts => ts.foldl delSubP st
  | .publish _ => st

def subsOf (ks : List CmdKind) : Node × List Subscription := ks.foldl applySubsP (Node.empty, [])

def SubsFold (s : SState) : Prop := (s.subs, s.subTab) = subsOf (s.taken.map (·.kind))

theorem foldl_addSub_pair (l : List Subscription) (s : SState) :
    ((l.foldl addSub s).subs, (l.foldl addSub s).subTab) = l.foldl addSubP (s.subs, s.subTab) := by
  induction l generalizing s with
  | nil => rfl
  | cons a l ih => rw [List.foldl_cons, List.foldl_cons, ih]; rfl

theorem foldl_delSub_pair (l : List Bytes) (s : SState) :
    ((l.foldl delSub s).subs, (l.foldl delSub s).subTab) = l.foldl delSubP (s.subs, s.subTab) := by
  induction l generalizing s with
  | nil => rfl
  | cons a l ih => rw [List.foldl_cons, List.foldl_cons, ih]; rfl

theorem applySubs_pair (s : SState) (k : CmdKind) :
    ((applySubs s k).subs, (applySubs s k).subTab) = applySubsP (s.subs, s.subTab) k := by
  cases k with
  | publish m => rfl
  | subscribe subs => exact foldl_addSub_pair subs s
  | unsubscribe ts => exact foldl_delSub_pair ts s

theorem subsFold_take {s : SState} (hf : SubsFold s) (s0 : SState) (cmd : Cmd)
    (h1 : s0.subs = s.subs) (h2 : s0.subTab = s.subTab) (h3 : s0.taken = s.taken ++ [cmd]) (c : Client) :
    SubsFold (clientCall (applySubs s0 cmd.kind) c cmd).1 := by
  unfold SubsFold at *
  simp only [clientCall_subs, clientCall_subTab, clientCall_taken, applySubs_taken]
  rw [applySubs_pair, h1, h2, hf, h3]
  simp [subsOf, List.foldl_append]

theorem supStep_subsFold {s s' : SState} {ch : SupChoice} {o : List Obs} (hf : SubsFold s)
    (h : supStep s ch = some (s', o)) : SubsFold s' := by
  unfold supStep at h
  repeat' split at h
  step_subst h
  all_goals first
    | exact hf
    | (unfold SubsFold at *; simp [hf]; done)
    | skip
  · rename_i cmd rest _ _
    exact subsFold_take hf (dequeue s cmd rest) cmd (by simp) (by simp) (by unfold dequeue; split <;> rfl) _
  · rename_i b _
    exact subsFold_take hf (handOver s b) b (by simp) (by simp) rfl _

theorem fireStep_subsFold {s s' : SState} {o : List Obs} (hf : SubsFold s) (h : fireStep s = some (s', o)) :
    SubsFold s' := by
  unfold fireStep at h
  repeat' split at h
  step_subst h
  all_goals (unfold SubsFold at *; simp [hf])

theorem step_subsFold {s s' : SState} {e : Ev} {o : List Obs} (hf : SubsFold s) (h : step s e = some (s', o)) :
    SubsFold s' := by
  cases e with
  | sup ch => exact supStep_subsFold hf h
  | fire => exact fireStep_subsFold hf h
  | _ =>
    step_cases h
    all_goals first
      | exact hf
      | (unfold SubsFold stopTail at *; repeat' split
         all_goals (simp [hf]; done))
      | (unfold SubsFold at *; simp [hf]; done)

theorem reachable_subsFold {cfg : Cfg} {s : SState} (h : Reachable cfg s) : SubsFold s := by
  induction h with
  | init => rfl
  | step _ hs ih => exact step_subsFold ih hs

/-! ### dispatch order, write order -/

/-- what a dispatcher took is a subsequence of what left the queue; what was written to a
    connection is a subsequence of what a dispatcher took -/
structure OrderInv (s : SState) : Prop where
  taken : s.taken.Sublist s.handled
  handed : (s.handed.map (·.2)).Sublist (s.taken.map (·.n))

theorem clientCall_handed (s : SState) (c : Client) (cmd : Cmd) :
    (clientCall s c cmd).1.handed = s.handed ∨ (clientCall s c cmd).1.handed = s.handed ++ [(c.conn, cmd.n)] := by
  unfold clientCall
  dsimp only
  repeat' split
  all_goals simp [pushHanded]

theorem orderInv_take {s : SState} (hf : OrderInv s) (s0 : SState) (cmd : Cmd)
    (h1 : s0.handled = s.handled ++ [cmd]) (h2 : s0.taken = s.taken ++ [cmd]) (h3 : s0.handed = s.handed) (c : Client) :
    OrderInv (clientCall (applySubs s0 cmd.kind) c cmd).1 := by
  obtain ⟨ha, hb⟩ := hf
  constructor
  · simp only [clientCall_taken, clientCall_handled, applySubs_taken, applySubs_handled, h1, h2]
    exact List.Sublist.append ha (List.Sublist.refl _)
  · simp only [clientCall_taken, applySubs_taken, h2, List.map_append, List.map_cons, List.map_nil]
    cases clientCall_handed (applySubs s0 cmd.kind) c cmd with
    | inl h => rw [h]; simp only [applySubs_handed, h3]; exact hb.trans (List.sublist_append_left _ _)
    | inr h =>
      rw [h]; simp only [applySubs_handed, h3, List.map_append, List.map_cons, List.map_nil]
      exact List.Sublist.append hb (List.Sublist.refl _)

theorem supStep_orderInv {s s' : SState} {ch : SupChoice} {o : List Obs} (hf : OrderInv s)
    (h : supStep s ch = some (s', o)) : OrderInv s' := by
  unfold supStep at h
  repeat' split at h
  step_subst h
  all_goals first
    | exact hf
    | (exact ⟨by simpa using hf.taken, by simpa using hf.handed⟩)
    | skip
  · rename_i cmd rest _ _
    exact orderInv_take hf (dequeue s cmd rest) cmd (by unfold dequeue; split <;> rfl) (by unfold dequeue; split <;> rfl)
      (by simp) _
  · rename_i b _
    exact orderInv_take hf (handOver s b) b rfl rfl (by simp) _

theorem fireStep_orderInv {s s' : SState} {o : List Obs} (hf : OrderInv s) (h : fireStep s = some (s', o)) :
    OrderInv s' := by
  unfold fireStep at h
  repeat' split at h
  step_subst h
  all_goals (exact ⟨by simpa using hf.taken, by simpa using hf.handed⟩)

theorem stopTail_orderInv {s : SState} (hf : OrderInv s) (clear : Bool) : OrderInv (stopTail s clear) := by
  obtain ⟨ha, hb⟩ := hf
  unfold stopTail
  repeat' split
  · refine ⟨?_, by simpa [drainQueue] using hb⟩
    simp only [drainQueue]
    exact ha.trans (by simp)
  all_goals (exact ⟨by simpa using ha, by simpa using hb⟩)

theorem step_orderInv {s s' : SState} {e : Ev} {o : List Obs} (hf : OrderInv s) (h : step s e = some (s', o)) :
    OrderInv s' := by
  cases e with
  | sup ch => exact supStep_orderInv hf h
  | fire => exact fireStep_orderInv hf h
  | _ =>
    step_cases h
    all_goals first
      | exact hf
      | exact stopTail_orderInv hf _
      | (exact ⟨by simpa using hf.taken, by simpa using hf.handed⟩)

theorem reachable_orderInv {cfg : Cfg} {s : SState} (h : Reachable cfg s) : OrderInv s := by
  induction h with
  | init => exact ⟨List.Sublist.refl _, List.Sublist.refl _⟩
  | step _ hs ih => exact step_orderInv ih hs

/-! ### what a step does to the queue -/

/-- connection failures, packets, timers, the supervisor's connection handling: the queue and
    a blocked caller are not touched -/
def Ev.leavesQueue : Ev → Bool
  | .plan _ | .recv _ _ | .drop _ | .failNext _ | .procFail _ | .fire
  | .sup .run | .sup .dying | .sup .kill | .start | .stopCall _ => true
  | _ => false

theorem supStep_queue_untouched {s s' : SState} {ch : SupChoice} {o : List Obs} (hch : ch ≠ .take)
    (h : supStep s ch = some (s', o)) : s'.queue = s.queue ∧ s'.blocked = s.blocked := by
  unfold supStep at h
  repeat' split at h
  step_subst h
  all_goals first
    | (simp; done)
    | exact absurd rfl hch

theorem fireStep_queue_untouched {s s' : SState} {o : List Obs} (h : fireStep s = some (s', o)) :
    s'.queue = s.queue ∧ s'.blocked = s.blocked := by
  unfold fireStep at h
  repeat' split at h
  step_subst h
  all_goals simp

theorem step_queue_untouched {s s' : SState} {e : Ev} {o : List Obs} (he : Ev.leavesQueue e = true)
    (h : step s e = some (s', o)) : s'.queue = s.queue ∧ s'.blocked = s.blocked := by
  cases e with
  | sup ch =>
    cases ch with
    | take => simp [Ev.leavesQueue] at he
    | _ => exact supStep_queue_untouched (by simp) h
  | fire => exact fireStep_queue_untouched h
  | stopRet => simp [Ev.leavesQueue] at he
  | call c => simp [Ev.leavesQueue] at he
  | callTimeout => simp [Ev.leavesQueue] at he
  | _ =>
    step_cases h
    all_goals simp

/-- a dispatcher takes the head of the queue (a blocked caller's command moves in behind) -/
theorem take_head {s s' : SState} {o : List Obs} (h : step s (.sup .take) = some (s', o)) :
    (∃ cmd rest, s.queue = cmd :: rest ∧ s'.taken = s.taken ++ [cmd] ∧
        s'.queue = rest ++ (match s.blocked with | some b => [b] | none => []))
    ∨ (s.queue = [] ∧ ∃ b, s.blocked = some b ∧ s'.taken = s.taken ++ [b] ∧ s'.queue = []) := by
  rw [step_sup] at h
  unfold supStep at h
  repeat' split at h
  all_goals (try contradiction)
  step_subst h
  · left
    rename_i cmd rest _ hq
    refine ⟨cmd, rest, hq, ?_, ?_⟩
    · simp [supTake]; unfold dequeue; split <;> rfl
    · simp [supTake]; unfold dequeue; split <;> simp_all
  · right
    rename_i hq _ b hb
    exact ⟨hq, b, hb, by simp [handOver], by simp [handOver, hq]⟩

end SvcK2
