import Model.Stream
import Proofs.CodecRT
import Proofs.CodecDec
/-
  Proofs/StreamRead.lean — C03, receiving side: the chunk-level reader refines a function of the
  byte stream alone (`readLoopS`, `readAllS`).  Helper lemmas only; the property theorems are in
  Props/C03.lean.
-/
namespace StreamS1
open Framing

/-- `bufio.Reader.err` is only ever set by the read that exhausted the underlying reader -/
def WF (r : Reader) : Prop := r.pend = true → r.chunks = []

/-- same byte stream, same terminal behaviour -/
structure Same (r r' : Reader) : Prop where
  stream : r'.stream = r.stream
  wf : WF r'
  fin : r'.fin = r.fin
  dataFin : r'.dataFin = r.dataFin

theorem WF_new (cs : List Bytes) (fin : Fin) (df : Bool) : WF (Reader.new cs fin df) := by
  intro h; simp [Reader.new] at h

theorem stream_new (cs : List Bytes) (fin : Fin) (df : Bool) :
    (Reader.new cs fin df).stream = cs.flatten := by
  simp [Reader.new, Reader.stream]

/-! ### `Peek` -/

theorem pullAux_spec (n : Nat) (df : Bool) : ∀ (chunks : List Bytes) (buf : Bytes) (pend : Bool),
    (pend = true → chunks = []) →
    ∃ b p cs, pullAux n df buf pend chunks = (b, p, cs) ∧
      b ++ cs.flatten = buf ++ chunks.flatten ∧ (p = true → cs = []) ∧
      (b.length < n → cs = [] ∧ p = true) := by
  intro chunks
  induction chunks with
  | nil =>
    intro buf pend _
    unfold pullAux
    by_cases hc : buf.length < n ∧ pend = false
    · rw [if_pos hc]; exact ⟨buf, true, [], rfl, rfl, fun _ => rfl, fun _ => ⟨rfl, rfl⟩⟩
    · rw [if_neg hc]
      refine ⟨buf, pend, [], rfl, rfl, fun _ => rfl, fun hl => ⟨rfl, ?_⟩⟩
      cases pend with
      | true => rfl
      | false => exact absurd ⟨hl, rfl⟩ hc
  | cons c cs ih =>
    intro buf pend hwf
    unfold pullAux
    by_cases hc : buf.length < n ∧ pend = false
    · rw [if_pos hc]
      obtain ⟨b, p, cs', he, h1, h2, h3⟩ := ih (buf ++ c) (cs.isEmpty && df) (by
        intro h; simp at h; exact h.1)
      exact ⟨b, p, cs', he, by simpa [List.append_assoc] using h1, h2, h3⟩
    · rw [if_neg hc]
      have hp : pend = false := by
        cases pend with
        | true => exact absurd (hwf rfl) (by simp)
        | false => rfl
      refine ⟨buf, pend, c :: cs, rfl, rfl, ?_, ?_⟩
      · intro h; rw [hp] at h; cases h
      · intro hl; exact absurd ⟨hl, hp⟩ hc

theorem pull_spec (n : Nat) (r : Reader) (hwf : WF r) :
    Same r (r.pull n) ∧ ((r.pull n).buf.length < n → (r.pull n).chunks = [] ∧ (r.pull n).pend = true) := by
  obtain ⟨b, p, cs, he, h1, h2, h3⟩ := pullAux_spec n r.dataFin r.chunks r.buf r.pend hwf
  unfold Reader.pull
  rw [he]
  exact ⟨⟨h1, h2, rfl, rfl⟩, h3⟩

/-- `Peek(n)` seen from the byte stream -/
theorem peek_spec (n : Nat) (r : Reader) (hwf : WF r) :
    ∃ r', Same r r' ∧
      r.peek n = (if r.stream.length < n then (r.stream, true, r') else (r.stream.take n, false, r')) := by
  obtain ⟨hs, h3⟩ := pull_spec n r hwf
  unfold Reader.peek
  by_cases hl : (r.pull n).buf.length < n
  · obtain ⟨hcs, _⟩ := h3 hl
    have hst : (r.pull n).buf = r.stream := by
      have := hs.stream
      unfold Reader.stream at this ⊢
      rw [hcs] at this
      simpa using this
    have hlt : r.stream.length < n := by rw [← hst]; exact hl
    refine ⟨{ r.pull n with pend := false }, ⟨?_, ?_, hs.fin, hs.dataFin⟩, ?_⟩
    · have := hs.stream; unfold Reader.stream at this ⊢; exact this
    · intro h; cases h
    · simp only [if_true, hlt, hst]
  · have hge : ¬ r.stream.length < n := by
      have := hs.stream
      unfold Reader.stream at this
      have hl2 : ((r.pull n).buf ++ (r.pull n).chunks.flatten).length = r.stream.length := by
        rw [this]; rfl
      rw [List.length_append] at hl2
      omega
    refine ⟨r.pull n, hs, ?_⟩
    simp only [hl, if_false, hge]
    have := hs.stream
    unfold Reader.stream at this
    have ht : (r.pull n).buf.take n = r.stream.take n := by
      unfold Reader.stream
      rw [← this, List.take_append_of_le_length (by omega)]
    rw [ht]

/-! ### `io.ReadFull` -/

theorem rfAux_spec (fin : Fin) (df : Bool) : ∀ (chunks : List Bytes) (need : Nat) (got : Bool) (buf : Bytes)
    (pend : Bool), (pend = true → chunks = []) →
    ∃ b p cs, rfAux fin df need got buf pend chunks =
        ((if need ≤ (buf ++ chunks.flatten).length then RF.ok ((buf ++ chunks.flatten).take need)
          else rfErr fin (got || !(buf ++ chunks.flatten).isEmpty)), b, p, cs) ∧
      b ++ cs.flatten = (buf ++ chunks.flatten).drop need ∧ (p = true → cs = []) := by
  intro chunks
  induction chunks with
  | nil =>
    intro need got buf pend _
    unfold rfAux
    simp only [List.flatten_nil, List.append_nil]
    by_cases hc : need ≤ buf.length
    · simp only [hc, if_true]
      exact ⟨_, _, _, rfl, by simp, fun _ => rfl⟩
    · simp only [hc, if_false]
      refine ⟨_, _, _, rfl, ?_, fun _ => rfl⟩
      rw [List.drop_of_length_le (by omega)]; rfl
  | cons c cs ih =>
    intro need got buf pend hwf
    have hp : pend = false := by
      cases pend with
      | true => exact absurd (hwf rfl) (by simp)
      | false => rfl
    subst hp
    unfold rfAux
    by_cases hc : need ≤ buf.length
    · have hc' : need ≤ (buf ++ (c :: cs).flatten).length := by
        rw [List.length_append]; omega
      simp only [hc, hc', if_true]
      refine ⟨buf.drop need, false, c :: cs, ?_, ?_, fun h => by cases h⟩
      · rw [List.take_append_of_le_length hc]
      · rw [List.drop_append_of_le_length hc]
    · simp only [hc, if_false, Bool.false_eq_true]
      obtain ⟨b, p, cs', he, h1, h2⟩ := ih (need - buf.length) (got || !buf.isEmpty) c (cs.isEmpty && df) (by
        intro h; simp at h; exact h.1)
      simp only [List.flatten_cons]
      generalize c ++ cs.flatten = S at he h1
      rw [he]
      by_cases hn : need ≤ (buf ++ S).length
      · have hn' : need - buf.length ≤ S.length := by rw [List.length_append] at hn; omega
        simp only [hn, hn', if_true]
        refine ⟨b, p, cs', ?_, ?_, h2⟩
        · rw [List.take_append, List.take_of_length_le (by omega : buf.length ≤ need)]
        · rw [h1, List.drop_append, List.drop_of_length_le (by omega : buf.length ≤ need)]
          simp
      · have hn' : ¬ need - buf.length ≤ S.length := by rw [List.length_append] at hn; omega
        simp only [hn, hn', if_false]
        have hgot : (got || !buf.isEmpty || !S.isEmpty) = (got || !(buf ++ S).isEmpty) := by
          cases got <;> cases buf <;> cases S <;> rfl
        refine ⟨b, p, cs', ?_, ?_, h2⟩
        · rw [hgot]
          generalize (got || !(buf ++ S).isEmpty) = g
          cases fin <;> cases g <;> rfl
        · rw [h1, List.drop_append, List.drop_of_length_le (by omega : buf.length ≤ need)]
          simp

theorem readFull_spec (n : Nat) (r : Reader) (hwf : WF r) :
    ∃ r', r.readFull n =
        ((if n ≤ r.stream.length then RF.ok (r.stream.take n) else rfErr r.fin (!r.stream.isEmpty)), r') ∧
      r'.stream = r.stream.drop n ∧ WF r' ∧ r'.fin = r.fin ∧ r'.dataFin = r.dataFin := by
  obtain ⟨b, p, cs, he, h1, h2⟩ := rfAux_spec r.fin r.dataFin r.chunks n false r.buf r.pend hwf
  unfold Reader.readFull
  rw [he]
  refine ⟨{ r with buf := b, pend := p, chunks := cs }, ?_, h1, h2, rfl, rfl⟩
  simp [Reader.stream]

/-! ### `Decoder.Read` as a function of the byte stream -/

def finErr (fin : Fin) (seen : Bytes) : Res :=
  match fin with
  | .eof => if seen.length ≠ 0 then .err .unexpectedEOF else .err .eof
  | .other => .err .ioErr

def decodeRes (t : PType) (body : Bytes) : Res :=
  match decode t body with
  | .ok p _ => .pkt p
  | .err .err _ => .err .decodeErr
  | .err .panic _ => .err .panic

/-- `Decoder.Read` on the remaining byte stream `s`: result and the stream left -/
def readLoopS (limit : Nat) (fin : Fin) : Nat → Nat → Bytes → Res × Bytes
  | 0, _, s => (.err .detectionOverflow, s)
  | fuel + 1, dl, s =>
    if s.length < dl then (finErr fin s, s)
    else
      match detectPacket (s.take dl) with
      | (pl, pt) =>
        if pl ≤ 0 then readLoopS limit fin fuel (dl + 1) s
        else if limit > 0 ∧ pl > (limit : Int) then (.err .readLimit, s)
        else match PType.ofCode? pt with
          | none => (.err .invalidType, s)
          | some t =>
            if pl.toNat ≤ s.length then (decodeRes t (s.take pl.toNat), s.drop pl.toNat)
            else (finErr fin s, [])

def readS (limit : Nat) (fin : Fin) (s : Bytes) : Res × Bytes := readLoopS limit fin 4 2 s

theorem readLoop_refines (limit : Nat) : ∀ (fuel dl : Nat) (r : Reader), WF r → 0 < dl →
    (readLoop limit fuel dl r).1 = (readLoopS limit r.fin fuel dl r.stream).1 ∧
    (readLoop limit fuel dl r).2.stream = (readLoopS limit r.fin fuel dl r.stream).2 ∧
    WF (readLoop limit fuel dl r).2 ∧ (readLoop limit fuel dl r).2.fin = r.fin ∧
    (readLoop limit fuel dl r).2.dataFin = r.dataFin := by
  intro fuel
  induction fuel with
  | zero => intro dl r hwf _; exact ⟨rfl, rfl, hwf, rfl, rfl⟩
  | succ fuel ih =>
    intro dl r hwf hdl
    obtain ⟨r', hs, hp⟩ := peek_spec dl r hwf
    unfold readLoop readLoopS
    rw [hp]
    by_cases hl : r.stream.length < dl
    · simp only [hl, if_true]
      refine ⟨?_, hs.stream, hs.wf, hs.fin, hs.dataFin⟩
      unfold finErr
      cases r.fin <;> rfl
    · simp only [hl, if_false]
      rcases hd : detectPacket (r.stream.take dl) with ⟨pl, pt⟩
      simp only []
      by_cases h0 : pl ≤ 0
      · simp only [h0, if_true]
        have := ih (dl + 1) r' hs.wf (by omega)
        rw [hs.stream, hs.fin] at this
        obtain ⟨a, b, c, d, e⟩ := this
        exact ⟨a, b, c, d, e.trans hs.dataFin⟩
      · simp only [h0, if_false]
        by_cases hlim : limit > 0 ∧ pl > (limit : Int)
        · simp only [hlim, and_self, if_true]
          exact ⟨trivial, hs.stream, hs.wf, hs.fin, hs.dataFin⟩
        · simp only [hlim, if_false]
          cases ht : PType.ofCode? pt with
          | none => exact ⟨rfl, hs.stream, hs.wf, hs.fin, hs.dataFin⟩
          | some t =>
            simp only []
            obtain ⟨r'', hrf, hst, hwf'', hfin'', hdf''⟩ := readFull_spec pl.toNat r' hs.wf
            rw [hrf, hs.stream, hs.fin]
            by_cases hn : pl.toNat ≤ r.stream.length
            · simp only [hn, if_true]
              refine ⟨?_, by rw [hst, hs.stream], hwf'', hfin''.trans hs.fin, hdf''.trans hs.dataFin⟩
              unfold decodeRes
              cases decode t (List.take pl.toNat r.stream) with
              | ok p rest => rfl
              | err e rest => cases e <;> rfl
            · simp only [hn, if_false]
              have hnil : r''.stream = [] := by
                rw [hst, hs.stream, List.drop_of_length_le (by omega)]
              have hne : r.stream ≠ [] := by
                intro h; rw [h] at hl; simp at hl; omega
              have h1 : r.stream.isEmpty = false := by
                cases hh : r.stream with
                | nil => exact absurd hh hne
                | cons _ _ => rfl
              have h2 : r.stream.length ≠ 0 := by
                intro h; exact hne (List.eq_nil_of_length_eq_zero h)
              cases hf : r.fin with
              | other =>
                simp only [rfErr, finErr]
                exact ⟨trivial, hnil, hwf'', hfin''.trans (hs.fin.trans hf), hdf''.trans hs.dataFin⟩
              | eof =>
                have hrf2 : rfErr Fin.eof (!r.stream.isEmpty) = RF.unexpectedEOF := by simp [rfErr, h1]
                rw [hrf2]
                exact ⟨by simp [finErr, h2], hnil, hwf'', hfin''.trans (hs.fin.trans hf), hdf''.trans hs.dataFin⟩

theorem read_refines (limit : Nat) (r : Reader) (hwf : WF r) :
    (read limit r).1 = (readS limit r.fin r.stream).1 ∧
    (read limit r).2.stream = (readS limit r.fin r.stream).2 ∧
    WF (read limit r).2 ∧ (read limit r).2.fin = r.fin ∧ (read limit r).2.dataFin = r.dataFin :=
  readLoop_refines limit 4 2 r hwf (by omega)

/-- call `readS` until the first error -/
def readAllS (limit : Nat) (fin : Fin) : Nat → Bytes → List Packet × Err
  | 0, _ => ([], .noFuel)
  | fuel + 1, s =>
    match readS limit fin s with
    | (.err e, _) => ([], e)
    | (.pkt p, s') =>
      match readAllS limit fin fuel s' with
      | (ps, e) => (p :: ps, e)

theorem readAllAux_refines (limit : Nat) : ∀ (fuel : Nat) (r : Reader), WF r →
    ((readAllAux limit fuel r).1, (readAllAux limit fuel r).2.1) = readAllS limit r.fin fuel r.stream := by
  intro fuel
  induction fuel with
  | zero => intro r _; rfl
  | succ fuel ih =>
    intro r hwf
    obtain ⟨h1, h2, h3, h4, _⟩ := read_refines limit r hwf
    unfold readAllAux readAllS
    rcases hr : read limit r with ⟨res, r'⟩
    rcases hs : readS limit r.fin r.stream with ⟨resS, s'⟩
    rw [hr, hs] at h1 h2
    rw [hr] at h3 h4
    simp only at h1 h2 h3 h4
    subst h1
    cases res with
    | err e => rfl
    | pkt p =>
      simp only []
      have := ih r' h3
      rw [h2, h4] at this
      rw [← this]

theorem readAll_refines (limit : Nat) (r : Reader) (hwf : WF r) :
    readAll limit r = readAllS limit r.fin (r.stream.length + 1) r.stream := by
  unfold readAll
  rw [← readAllAux_refines limit _ r hwf]

end StreamS1
