import Proofs.BrokerIso
/-
  Proofs/BrokerOnce.lean — `Terminate` exactly once per connection, over whole histories (C14
  `terminate_once`, global form).  A ghost log collects every backend event ever appended;
  connection identifiers are not reused (they stand for `*Client` pointers).  Namespace `BrokerB4`.
-/
namespace BrokerB4
open BState

/-! ### the life-cycle status of a connection -/

inductive St where
  | absent      -- never handed to the broker
  | pend        -- alive, or closed with its cleanup still to come (zombie)
  | done        -- closed and cleaned up, `Setup` had been attempted
  | dud         -- closed before CONNECT was accepted: no `Setup`, no `Terminate`
  deriving DecidableEq, Repr

def status (o : Option BConn) : St :=
  match o with
  | none => .absent
  | some x => if x.alive = true ∨ x.zombie = true then .pend
              else if x.phase = .connecting then .dud else .done

/-- transitions that one stimulus other than `conn` can cause -/
def okTrans : St → St → Bool
  | .absent, .absent => true
  | .pend, .pend => true
  | .pend, .done => true
  | .pend, .dud => true
  | .done, .done => true
  | .dud, .dud => true
  | _, _ => false

/-- the number of `Terminate` calls a transition is worth -/
def tick : St → St → Nat
  | .pend, .done => 1
  | _, _ => 0

theorem okTrans_refl (a : St) : okTrans a a = true := by cases a <;> rfl
theorem tick_refl (a : St) : tick a a = 0 := by cases a <;> rfl

theorem okTrans_trans {a b c : St} (h1 : okTrans a b = true) (h2 : okTrans b c = true) :
    okTrans a c = true ∧ tick a b + tick b c = tick a c := by
  cases a <;> cases b <;> cases c <;> simp_all [okTrans, tick]

theorem status_of_core {x x' : BConn} (h : core x' = core x) : status (some x') = status (some x) := by
  obtain ⟨h1, h2, _, _, _, h6⟩ := core_eq_iff.1 h
  simp [status, h1, h2, h6]

/-- ledger of a stretch of execution: the backend events appended, and for every connection an
    allowed status transition worth exactly the `terminate` events appended for it -/
structure Led (s s' : BState) (new : List BEvent) : Prop where
  bev : s'.bevents = s.bevents ++ new
  each : ∀ c, okTrans (status (s.conn? c)) (status (s'.conn? c)) = true ∧
    new.count (BEvent.terminate c) = tick (status (s.conn? c)) (status (s'.conn? c))

theorem Led.refl (s : BState) : Led s s [] :=
  ⟨by simp, fun c => ⟨okTrans_refl _, by simp [tick_refl]⟩⟩

theorem Led.trans {s1 s2 s3 : BState} {n1 n2 : List BEvent} (h1 : Led s1 s2 n1) (h2 : Led s2 s3 n2) :
    Led s1 s3 (n1 ++ n2) := by
  refine ⟨by rw [h2.bev, h1.bev, List.append_assoc], fun c => ?_⟩
  obtain ⟨a1, a2⟩ := h1.each c
  obtain ⟨b1, b2⟩ := h2.each c
  obtain ⟨c1, c2⟩ := okTrans_trans a1 b1
  exact ⟨c1, by rw [List.count_append, a2, b2, c2]⟩

/-- same connection statuses, no `terminate` appended -/
theorem Led.of_same {s s' : BState} {new : List BEvent} (hb : s'.bevents = s.bevents ++ new)
    (hst : ∀ c, status (s'.conn? c) = status (s.conn? c)) (hn : ∀ c, BEvent.terminate c ∉ new) : Led s s' new := by
  refine ⟨hb, fun c => ?_⟩
  rw [hst c]
  exact ⟨okTrans_refl _, by rw [tick_refl]; exact List.count_eq_zero.2 (hn c)⟩

theorem CoreEq.status {s s' : BState} (h : CoreEq s s') (c : ConnId) : status (s'.conn? c) = status (s.conn? c) := by
  have := h.conn c
  cases h1 : s.conn? c with
  | none => rw [h1] at this; rw [this.none_left]
  | some x =>
    rw [h1] at this
    obtain ⟨x', hx', hc⟩ := this.some_left
    rw [hx']; exact status_of_core hc

theorem Quiet.led {c : ConnId} {S : ClientId → Prop} {s s' : BState} (h : Quiet c S s s') : ∃ new, Led s s' new := by
  obtain ⟨l, hl, hp⟩ := h.bev
  refine ⟨l, Led.of_same hl (h.coreEq.status) ?_⟩
  intro e he
  obtain ⟨m, hm⟩ := hp _ he
  cases hm

/-- rewriting the record of a live connection that stays alive and does not fall back to `connecting` -/
theorem Led.setConn_live {s : BState} {c : ConnId} {x x' : BConn} (hc : s.conn? c = some x)
    (ha : x.alive = true) (ha' : x'.alive = true) : Led s (s.setConn c x') [] := by
  refine Led.of_same (by simp) (fun e => ?_) (by simp)
  rw [conn?_setConn]
  split
  · rename_i h; subst h; rw [hc]; simp [status, ha, ha']
  · rfl

/-! ### no session names a connection that is still before its CONNECT -/

/-- every connection a session names as its owner exists and is past CONNECT; every connection that
    exists past CONNECT … (only the first half is needed) -/
def RevInv (s : BState) : Prop :=
  (∀ k b e, Assoc.get s.stored k = some b → b.active = some e → ∃ x, s.conn? e = some x ∧ x.phase ≠ .connecting) ∧
  (∀ k b e, Assoc.get s.temp k = some b → b.active = some e → ∃ x, s.conn? e = some x ∧ x.phase ≠ .connecting)

/-- owners only disappear, connection phases never fall back to `connecting` -/
structure ActSub (s s' : BState) : Prop where
  stored : ∀ k b' e, Assoc.get s'.stored k = some b' → b'.active = some e →
    ∃ b, Assoc.get s.stored k = some b ∧ b.active = some e
  temp : ∀ k b' e, Assoc.get s'.temp k = some b' → b'.active = some e →
    ∃ b, Assoc.get s.temp k = some b ∧ b.active = some e
  phase : ∀ e x, s.conn? e = some x → x.phase ≠ .connecting → ∃ x', s'.conn? e = some x' ∧ x'.phase ≠ .connecting

theorem RevInv.of_actSub {s s' : BState} (h : RevInv s) (ha : ActSub s s') : RevInv s' := by
  refine ⟨fun k b' e hb he => ?_, fun k b' e hb he => ?_⟩
  · obtain ⟨b, hb0, he0⟩ := ha.stored k b' e hb he
    obtain ⟨x, hx, hp⟩ := h.1 k b e hb0 he0
    exact ha.phase e x hx hp
  · obtain ⟨b, hb0, he0⟩ := ha.temp k b' e hb he
    obtain ⟨x, hx, hp⟩ := h.2 k b e hb0 he0
    exact ha.phase e x hx hp

theorem ActSub.refl (s : BState) : ActSub s s :=
  ⟨fun _ b' _ hb he => ⟨b', hb, he⟩, fun _ b' _ hb he => ⟨b', hb, he⟩, fun _ x hx hp => ⟨x, hx, hp⟩⟩

theorem ActSub.trans {s1 s2 s3 : BState} (h1 : ActSub s1 s2) (h2 : ActSub s2 s3) : ActSub s1 s3 := by
  refine ⟨fun k b' e hb he => ?_, fun k b' e hb he => ?_, fun e x hx hp => ?_⟩
  · obtain ⟨b, hb0, he0⟩ := h2.stored k b' e hb he; exact h1.stored k b e hb0 he0
  · obtain ⟨b, hb0, he0⟩ := h2.temp k b' e hb he; exact h1.temp k b e hb0 he0
  · obtain ⟨x', hx', hp'⟩ := h1.phase e x hx hp; exact h2.phase e x' hx' hp'

theorem CoreEq.actSub {s s' : BState} (h : CoreEq s s') : ActSub s s' := by
  refine ⟨fun k b' e hb he => ?_, fun k b' e hb he => ?_, fun e x hx hp => ?_⟩
  · have := h.stored k; rw [hb] at this
    obtain ⟨b, hb0, hact⟩ := this.some_right
    exact ⟨b, hb0, by rw [← hact]; exact he⟩
  · have := h.temp k; rw [hb] at this
    obtain ⟨b, hb0, hact⟩ := this.some_right
    exact ⟨b, hb0, by rw [← hact]; exact he⟩
  · have := h.conn e; rw [hx] at this
    obtain ⟨x', hx', hc⟩ := this.some_left
    exact ⟨x', hx', by rw [(core_eq_iff.1 hc).1]; exact hp⟩

/-- writing the record of `c`: fine for `ActSub` if the phase does not fall back -/
theorem ActSub.setConn {s : BState} {c : ConnId} {x' : BConn}
    (hp : ∀ x, s.conn? c = some x → x.phase ≠ .connecting → x'.phase ≠ .connecting) : ActSub s (s.setConn c x') := by
  refine ⟨fun _ b' _ hb he => ⟨b', hb, he⟩, fun _ b' _ hb he => ⟨b', hb, he⟩, fun e x hx hpx => ?_⟩
  rw [conn?_setConn]
  split
  · rename_i h; subst h; exact ⟨x', rfl, hp x hx hpx⟩
  · exact ⟨x, hx, hpx⟩

theorem ActSub.terminate (s : BState) (d : ConnId) : ActSub s (backendTerminate s d) := by
  refine ⟨fun k b' e hb he => ?_, fun k b' e hb he => ?_, fun e x hx hp => ⟨x, by rw [bt_conn?]; exact hx, hp⟩⟩
  · cases hc : s.conn? d with
    | none =>
      have : (backendTerminate s d).stored = s.stored := by
        rw [bt_stored]; unfold BState.sessOf; rw [hc]
      rw [this] at hb; exact ⟨b', hb, he⟩
    | some x =>
      rw [bt_stored_get hc] at hb
      split at hb
      · cases hg : Assoc.get s.stored k with
        | none => rw [hg] at hb; cases hb
        | some b => rw [hg] at hb; cases hb; cases he
      · exact ⟨b', hb, he⟩
  · rw [bt_temp_get] at hb
    split at hb
    · cases hb
    · exact ⟨b', hb, he⟩

theorem kill_actSub (s : BState) (d : ConnId) : RAll (ActSub s) (kill s d) := by
  apply kill_rule
  · intro _; exact ActSub.refl s
  · intro _ _ _; exact ActSub.refl s
  · intro x hc _ s1 hq _ hcn
    have a1 := (hq (fun _ => True) (fun _ _ => trivial)).coreEq.actSub
    have hc1 : s1.conn? d = some x := by rw [conn?_of_conns hcn]; exact hc
    constructor
    · intro _
      exact a1.trans (ActSub.setConn (fun y hy hp => by rw [hc1] at hy; cases hy; exact hp))
    · intro _
      apply cleanup_rule
      intro s2 hq2 _ _
      have a2 := (hq2 (fun _ => True)).coreEq.actSub
      have a12 := (a1.trans (ActSub.setConn (x' := deadRec x)
        (fun y hy hp => by rw [hc1] at hy; cases hy; exact hp))).trans a2
      unfold termIf
      split
      · exact a12.trans (ActSub.terminate s2 d)
      · exact a12

/-! ### ledger of `cleanup` and `kill` -/

theorem count_term_will (c d : ConnId) (x : BConn) : (willEvents d x).count (BEvent.terminate c) = 0 := by
  unfold willEvents
  split <;> simp

theorem count_term_term (c d : ConnId) (x : BConn) :
    (termEvents d x).count (BEvent.terminate c) = if c = d ∧ x.phase ≠ .connecting then 1 else 0 := by
  unfold termEvents
  by_cases hp : x.phase ≠ .connecting
  · rw [if_pos hp]
    by_cases hc : c = d
    · subst hc; simp [hp]
    · have : ¬ d = c := fun h => hc h.symm
      simp [hc, this]
  · rw [if_neg hp]; simp [hp]

/-- the cleanup of connection `d` (pending in `s`) run in a state `s0` that differs from `s` only in the
    record of `d`, now neither alive nor zombie -/
theorem cleanup_led {s s0 : BState} {d : ConnId} {x x0 : BConn} (hc : s.conn? d = some x)
    (hpend : x.alive = true ∨ x.zombie = true) (h0 : s0 = s.setConn d x0) (ha0 : x0.alive = false)
    (hz0 : x0.zombie = false) (hp0 : x0.phase = x.phase) :
    RAll (fun s' => ∃ new, Led s s' new) (cleanup s0 d x) := by
  apply cleanup_rule
  intro s2 _ hbev hcn
  refine ⟨willEvents d x ++ termEvents d x, ?_, fun c => ?_⟩
  · unfold termIf termEvents
    split
    · rw [bt_bevents, hbev, h0]; simp
    · rw [hbev, h0]; simp
  · rw [termIf_conn?, conn?_of_conns hcn, h0, conn?_setConn]
    by_cases hcd : c = d
    · subst hcd
      simp only [if_true, hc]
      have hs : status (some x) = .pend := by
        unfold status; simp only []; rw [if_pos hpend]
      rw [hs, List.count_append, count_term_will, count_term_term]
      by_cases hp : x.phase = .connecting
      · have : status (some x0) = .dud := by simp [status, ha0, hz0, hp0, hp]
        rw [this]; simp [okTrans, tick, hp]
      · have : status (some x0) = .done := by simp [status, ha0, hz0, hp0, hp]
        rw [this]; simp [okTrans, tick, hp]
    · simp only [hcd, if_false]
      refine ⟨okTrans_refl _, ?_⟩
      rw [tick_refl, List.count_append, count_term_will, count_term_term]
      simp [hcd]

theorem kill_led {s : BState} (d : ConnId) (haz : ∀ x, s.conn? d = some x → x.alive = true → x.zombie = false) :
    RAll (fun s' => ∃ new, Led s s' new) (kill s d) := by
  apply kill_rule
  · intro _; exact ⟨[], Led.refl s⟩
  · intro _ _ _; exact ⟨[], Led.refl s⟩
  · intro x hc ha s1 hq _ hcn
    obtain ⟨n1, l1⟩ := (hq (fun _ => True) (fun _ _ => trivial)).led
    have hc1 : s1.conn? d = some x := by rw [conn?_of_conns hcn]; exact hc
    constructor
    · intro _
      refine ⟨n1 ++ [], l1.trans (Led.of_same (by simp) (fun e => ?_) (by simp))⟩
      rw [conn?_setConn]
      split
      · rename_i h; subst h; rw [hc1]; simp [status, ha, zombieRec]
      · rfl
    · intro _
      refine RAll_mono (cleanup_led (x0 := deadRec x) hc1 (Or.inl ha) rfl rfl (haz x hc ha) rfl) ?_
      rintro s' ⟨n2, l2⟩
      exact ⟨n1 ++ n2, l1.trans l2⟩

theorem killAll_led : ∀ (l : List ConnId) (s : BState), Inv s → RevInv s →
    RAll (fun s' => RevInv s' ∧ ∃ new, Led s s' new) (killAll s l) := by
  intro l
  induction l with
  | nil => intro s _ hr; exact RAll_one.2 ⟨hr, [], Led.refl s⟩
  | cons d rest ih =>
    intro s hi hr
    simp only [killAll]
    refine RAll_bind (RAll_and (kill_inv hi d) (RAll_and (kill_led d (fun x hx => hi.1.az d x hx)) (kill_actSub s d))) ?_
    rintro s1 ⟨hi1, ⟨n1, l1⟩, a1⟩
    refine RAll_mono (ih s1 hi1 (hr.of_actSub a1)) ?_
    rintro s' ⟨hr', n2, l2⟩
    exact ⟨hr', n1 ++ n2, l1.trans l2⟩

/-! ### ledger of `setupAndConnack` and `recv` -/

theorem holder_rev {s : BState} (h : RevInv s) {id : ClientId} {oc : ConnId} (ho : holder s id = some oc) :
    ∃ x, s.conn? oc = some x ∧ x.phase ≠ .connecting := by
  unfold holder at ho
  split at ho
  · rename_i b hb; exact h.1 id b oc hb ho
  · split at ho
    · rename_i e _
      split at ho
      · rename_i b hb; exact h.2 e b oc hb ho
      · cases ho
    · cases ho

/-- installing sessions owned by `c` (past CONNECT) keeps `RevInv` -/
theorem RevInv.install {s2 s' : BState} {c : ConnId} {x0 : BConn} (h : RevInv s2)
    (hconn : ∀ e, s'.conn? e = if e = c then some x0 else s2.conn? e) (hph : x0.phase ≠ .connecting)
    (hcp : ∀ y, s2.conn? c = some y → y.phase ≠ .connecting → True)
    (hst : ∀ k b', Assoc.get s'.stored k = some b' → b'.active = some c ∨
      ∃ b, Assoc.get s2.stored k = some b ∧ b.active = b'.active)
    (htm : ∀ k b', Assoc.get s'.temp k = some b' → b'.active = some c ∨
      ∃ b, Assoc.get s2.temp k = some b ∧ b.active = b'.active) : RevInv s' := by
  have conn : ∀ e x, s2.conn? e = some x → x.phase ≠ .connecting → ∃ x', s'.conn? e = some x' ∧ x'.phase ≠ .connecting := by
    intro e x hx hp
    rw [hconn]
    split
    · exact ⟨x0, rfl, hph⟩
    · exact ⟨x, hx, hp⟩
  refine ⟨fun k b' e hb he => ?_, fun k b' e hb he => ?_⟩
  · rcases hst k b' hb with h1 | ⟨b, hb0, hact⟩
    · rw [he] at h1; cases h1; exact ⟨x0, by rw [hconn, if_pos rfl], hph⟩
    · obtain ⟨x, hx, hp⟩ := h.1 k b e hb0 (by rw [hact]; exact he)
      exact conn e x hx hp
  · rcases htm k b' hb with h1 | ⟨b, hb0, hact⟩
    · rw [he] at h1; cases h1; exact ⟨x0, by rw [hconn, if_pos rfl], hph⟩
    · obtain ⟨x, hx, hp⟩ := h.2 k b e hb0 (by rw [hact]; exact he)
      exact conn e x hx hp

theorem installNamed_rev {s2 : BState} {c : ConnId} {x1 : BConn} {id : ClientId} {clean : Bool}
    {will : Option Message} (h : RevInv s2) (hp1 : x1.phase ≠ .connecting) :
    RevInv (installNamed s2 c x1 id clean will) := by
  obtain ⟨x0, sr, sp, hr, _, hconn⟩ := installNamed_conn s2 c x1 id clean will
  refine h.install hconn (by rw [hr.phase]; exact hp1) (fun _ _ _ => trivial) ?_ ?_
  · intro k b' hb
    unfold installNamed at hb
    split at hb
    · rw [installClean_stored, get_del] at hb
      split at hb
      · cases hb
      · exact Or.inr ⟨b', hb, rfl⟩
    · split at hb
      · rw [installResume_stored, get_set] at hb
        split at hb
        · cases hb; exact Or.inl rfl
        · exact Or.inr ⟨b', hb, rfl⟩
      · rw [installFresh_stored, get_set] at hb
        split at hb
        · cases hb; exact Or.inl rfl
        · exact Or.inr ⟨b', hb, rfl⟩
  · intro k b' hb
    unfold installNamed at hb
    split at hb
    · rw [installClean_temp, get_set] at hb
      split at hb
      · cases hb; exact Or.inl rfl
      · exact Or.inr ⟨b', hb, rfl⟩
    · split at hb
      · rw [installResume_temp] at hb; exact Or.inr ⟨b', hb, rfl⟩
      · rw [installFresh_temp] at hb; exact Or.inr ⟨b', hb, rfl⟩

/-- the ledger of an installation: one `setup` event, the newcomer stays pending, nobody else changes -/
theorem install_led {s2 s' : BState} {c : ConnId} {y x0 : BConn} {ev : BEvent}
    (hy : s2.conn? c = some y) (hya : y.alive = true) (hxa : x0.alive = true)
    (hconn : ∀ e, s'.conn? e = if e = c then some x0 else s2.conn? e)
    (hbev : s'.bevents = s2.bevents ++ [ev]) (hev : ∀ e, ev ≠ BEvent.terminate e) : Led s2 s' [ev] := by
  refine Led.of_same hbev (fun e => ?_) (fun e he => ?_)
  · rw [hconn]
    split
    · rename_i h; subst h; rw [hy]; simp [status, hya, hxa]
    · rfl
  · simp only [List.mem_singleton] at he
    exact hev e he.symm

/-- `processConnect` after authentication: ledger and `RevInv` -/
theorem setup_led {s : BState} {c : ConnId} {x : BConn} {id : ClientId} {clean : Bool} {will : Option Message}
    (hi : InvW s) (hr : RevInv s) (hc : s.conn? c = some x) (ha : x.alive = true) (hp : x.phase = .connecting) :
    RAll (fun s' => RevInv s' ∧ ∃ new, Led s s' new) (setupAndConnack s c x id clean will) := by
  refine RAll_mono (setup_shape s c x id clean will) (fun s' hs => ?_)
  have hsr := hi.o c x hc hp
  have haz := hi.az c x hc
  have hi1 : InvW (s.setConn c (acceptedRec x id)) := hi.setConn_none c hsr haz
  have l1 : Led s (s.setConn c (acceptedRec x id)) [] := Led.setConn_live hc ha ha
  have a1 : ActSub s (s.setConn c (acceptedRec x id)) := ActSub.setConn (fun _ _ _ => by simp [acceptedRec])
  have hr1 := hr.of_actSub a1
  have hc1 : (s.setConn c (acceptedRec x id)).conn? c = some (acceptedRec x id) := by simp
  -- the holder is somebody else: `c` has not been past CONNECT
  have hoc : ∀ oc, holder (s.setConn c (acceptedRec x id)) id = some oc → oc ≠ c := by
    intro oc ho hh
    subst hh
    obtain ⟨y, hy, hpy⟩ := holder_rev hr (show holder s id = some oc from ho)
    rw [hc] at hy; cases hy; exact hpy hp
  -- the take-over
  have tko : ∀ s2, TakeOver (s.setConn c (acceptedRec x id)) id s2 →
      RevInv s2 ∧ InvW s2 ∧ s2.conn? c = some (acceptedRec x id) ∧ ∃ n, Led (s.setConn c (acceptedRec x id)) s2 n := by
    intro s2 hto
    have hk := takeOver_conns hto
    have hi2 := takeOver_invW hi1 hto
    unfold TakeOver at hto
    cases ho : holder (s.setConn c (acceptedRec x id)) id with
    | none => rw [ho] at hto; simp only at hto; subst hto; exact ⟨hr1, hi1, hc1, [], Led.refl _⟩
    | some oc =>
      rw [ho] at hto hk; simp only at hto hk
      refine ⟨hr1.of_actSub (RAll_of_RMem (kill_actSub _ oc) hto), hi2, ?_,
        RAll_of_RMem (kill_led oc (fun y hy => hi1.az oc y hy)) hto⟩
      rw [hk.other c (fun h => hoc oc ho h.symm)]; exact hc1
  cases hs with
  | closing _ hm =>
    obtain ⟨n, l2⟩ := RAll_of_RMem (kill_led c (fun y hy => hi1.az c y hy)) hm
    exact ⟨hr1.of_actSub (RAll_of_RMem (kill_actSub _ c) hm), [] ++ n, l1.trans l2⟩
  | anon _ _ he =>
    subst he
    have hrec := instRec_started (s.setConn c (acceptedRec x id)).cfg (acceptedRec x id) .temp will
    refine ⟨?_, [] ++ [BEvent.setup c false], l1.trans (install_led hc1 ha (by rw [hrec.alive]; exact ha)
      (installAnon_conn _ _ _ _) (installAnon_bevents _ _ _ _) (by intro e h; cases h))⟩
    refine hr1.install (installAnon_conn _ _ _ _) (by rw [hrec.phase]; simp [acceptedRec]) (fun _ _ _ => trivial) ?_ ?_
    · intro k b' hb; rw [installAnon_stored] at hb; exact Or.inr ⟨b', hb, rfl⟩
    · intro k b' hb
      rw [installAnon_temp, get_set] at hb
      split at hb
      · cases hb; exact Or.inl rfl
      · exact Or.inr ⟨b', hb, rfl⟩
  | refused s2 _ _ hto _ hm =>
    obtain ⟨hr2, hi2, _, n2, l2⟩ := tko s2 hto
    obtain ⟨n3, l3⟩ := RAll_of_RMem (kill_led c (fun y hy => hi2.az c y hy)) hm
    exact ⟨hr2.of_actSub (RAll_of_RMem (kill_actSub _ c) hm), ([] ++ n2) ++ n3, (l1.trans l2).trans l3⟩
  | installed s2 _ _ hto _ he =>
    subst he
    obtain ⟨hr2, _, hc2, n2, l2⟩ := tko s2 hto
    obtain ⟨x0, sr, sp, hrec, _, hconn⟩ := installNamed_conn s2 c (acceptedRec x id) id clean will
    refine ⟨installNamed_rev hr2 (by simp [acceptedRec]), ([] ++ n2) ++ [_],
      (l1.trans l2).trans (install_led hc2 ha (by rw [hrec.alive]; exact ha) hconn
        (installNamed_bevents _ _ _ _ _ _) (by intro e h; cases h))⟩

theorem recv_led {s : BState} (hi : Inv s) (hr : RevInv s) (c : ConnId) (p : Packet) :
    RAll (fun s' => RevInv s' ∧ ∃ new, Led s s' new) (recv s c p) := by
  have killc : ∀ {s1 : BState} {n1 : List BEvent}, Led s s1 n1 → ActSub s s1 →
      (∀ y, s1.conn? c = some y → y.alive = true → y.zombie = false) →
      RAll (fun s' => RevInv s' ∧ ∃ new, Led s s' new) (kill s1 c) := by
    intro s1 n1 l1 a1 haz
    refine RAll_mono (RAll_and (kill_led c haz) (kill_actSub s1 c)) ?_
    rintro s' ⟨⟨n2, l2⟩, a2⟩
    exact ⟨hr.of_actSub (a1.trans a2), n1 ++ n2, l1.trans l2⟩
  apply recv_rule
  · intro _ _ _; exact ⟨hr, [], Led.refl s⟩
  · intro x hc _ _ _; exact killc (Led.refl s) (ActSub.refl s) (fun y hy => hi.1.az c y hy)
  · intro x id ka u pw clean will v hc ha hp _
    have hsr := hi.1.o c x hc hp
    have haz := hi.1.az c x hc
    have hi1 : InvW (s.setConn c { x with id := id }) := hi.1.setConn_none c hsr haz
    have l1 : Led s (s.setConn c { x with id := id }) [] := Led.setConn_live hc ha ha
    have a1 : ActSub s (s.setConn c { x with id := id }) :=
      ActSub.setConn (fun y hy hpy => by rw [hc] at hy; cases hy; exact absurd hp hpy)
    refine ⟨fun _ => killc l1 a1 (fun y hy => hi1.az c y hy), fun _ _ => ?_, fun _ _ => ?_⟩
    · have l2 : Led (s.setConn c { x with id := id })
          ((s.setConn c { x with id := id }).setConn c { x with id := id, procOut := x.procOut ++ [.connack false 5] }) [] :=
        Led.setConn_live (x := { x with id := id }) (by simp) ha ha
      have a2 : ActSub (s.setConn c { x with id := id })
          ((s.setConn c { x with id := id }).setConn c { x with id := id, procOut := x.procOut ++ [.connack false 5] }) :=
        ActSub.setConn (fun y hy hpy => by simp at hy; cases hy; exact absurd hp hpy)
      exact killc (l1.trans l2) (a1.trans a2) (fun y hy => by simp at hy; cases hy; exact haz)
    · refine RAll_mono (setup_led (x := { x with id := id }) hi1 (hr.of_actSub a1) (by simp) ha hp) ?_
      rintro s' ⟨hr', n2, l2⟩
      exact ⟨hr', [] ++ n2, l1.trans l2⟩
  · intro x hc ha hp _
    have l1 : Led s (s.setConn c { x with will := none, phase := .disconnected }) [] := Led.setConn_live hc ha ha
    have a1 : ActSub s (s.setConn c { x with will := none, phase := .disconnected }) :=
      ActSub.setConn (fun _ _ _ => by simp)
    exact killc l1 a1 (fun y hy => by simp at hy; cases hy; exact hi.1.az c x hc)
  · intro x hc ha hp _ s' ⟨s1, hq, hs'⟩
    obtain ⟨n1, l1⟩ := hq.led
    have a1 := hq.coreEq.actSub
    rcases hs' with hs' | hs'
    · rw [hs']; exact ⟨hr.of_actSub a1, n1, l1⟩
    · exact RAll_of_RMem (killc l1 a1 (fun y hy => (hi.1.of_coreEq hq.coreEq).az c y hy)) hs'

/-! ### histories with a ghost log -/

/-- one step of the model in an environment that never reuses a connection identifier -/
inductive StepF : BState → BState → Prop where
  | stim {s s' : BState} (st : Stim) (hfresh : ∀ c, st = .conn c → s.conn? c = none) (ss : List BState)
      (h : stim s st = .ok ss) (hm : s' ∈ ss) : StepF s s'
  | obs {s s' : BState} (o : Obs) (hm : s' ∈ observe s o) : StepF s s'
  | ackMode {s : BState} (late never : Bool) : StepF s { s with lateAck := late, neverAck := never }

theorem StepF.toStep {s s' : BState} (h : StepF s s') : Step s s' := by
  cases h with
  | stim st _ ss h hm => exact Step.stim st ss h hm
  | obs o hm => exact Step.obs o hm
  | ackMode l n => exact Step.ackMode l n

/-- the backend events a step appends (an observed event is removed from the expected list, nothing is
    appended then) -/
def appended (s s' : BState) : List BEvent :=
  if s.bevents.length ≤ s'.bevents.length then s'.bevents.drop s.bevents.length else []

/-- reachable states together with the log of all backend events ever issued -/
inductive RunG (cfg : Cfg) : BState → List BEvent → Prop where
  | init : RunG cfg { cfg := cfg } []
  | step {s s' : BState} {log : List BEvent} : RunG cfg s log → StepF s s' → RunG cfg s' (log ++ appended s s')

theorem RunG.reachable {cfg : Cfg} {s : BState} {log : List BEvent} (h : RunG cfg s log) : Reachable cfg s := by
  induction h with
  | init => exact Reachable.init
  | step _ hs ih => exact Reachable.step ih hs.toStep

theorem appended_of_led {s s' : BState} {new : List BEvent} (h : Led s s' new) : appended s s' = new := by
  unfold appended
  rw [h.bev]
  simp

/-- what a step does: either a ledger (events appended) or the observation of one backend event, or a
    new connection -/
inductive StepKind (s s' : BState) : Prop where
  | led (new : List BEvent) : Led s s' new → StepKind s s'
  | observed (e : BEvent) : e ∈ s.bevents → s'.bevents = s.bevents.erase e → s'.conns = s.conns → StepKind s s'
  | fresh (c : ConnId) : s.conn? c = none → s' = s.setConn c {} → StepKind s s'

theorem ackRelease_bevents : ∀ (l : List PendingAck) (s : BState),
    (l.foldl (fun s a =>
      (ackPre a.conn a.pkt s).updConn a.conn (fun x => if x.alive then { x with ackOut := x.ackOut ++ [a.pkt] } else x)) s).bevents
      = s.bevents := by
  intro l
  induction l with
  | nil => intro s; rfl
  | cons a rest ih =>
    intro s
    simp only [List.foldl_cons]
    rw [ih]
    simp only [updConn_bevents]
    have : ∀ (q : Packet) (c : ConnId) (s : BState), (ackPre c q s).bevents = s.bevents := by
      intro q c s
      cases q <;> first
        | rfl
        | (show (forgetIncoming c _ s).bevents = s.bevents
           unfold BState.forgetIncoming; split <;> simp)
    exact this _ _ _

theorem stepF_kind {s s' : BState} (hi : Inv s) (hr : RevInv s) (h : StepF s s') :
    RevInv s' ∧ StepKind s s' := by
  cases h with
  | ackMode late never =>
    have ce : CoreEq s { s with lateAck := late, neverAck := never } := CoreEq.of_eq rfl rfl rfl rfl
    exact ⟨hr.of_actSub ce.actSub, .led [] (Led.of_same (by simp) ce.status (by simp))⟩
  | obs o hm =>
    cases o with
    | backend e =>
      simp only [observe] at hm
      split at hm
      · rename_i hc
        simp only [List.mem_singleton] at hm; subst hm
        have ce : CoreEq s { s with bevents := s.bevents.erase e } := CoreEq.of_eq rfl rfl rfl rfl
        exact ⟨hr.of_actSub ce.actSub, .observed e (by simpa using hc) rfl rfl⟩
      · simp at hm
    | closed c =>
      simp only [observe] at hm
      split at hm
      · rename_i x hx
        split at hm
        · simp only [List.mem_singleton] at hm; subst hm
          have q : Quiet c (fun _ => True) s (s.setConn c { x with closedSeen := true }) := Quiet.setConn hx rfl
          obtain ⟨n, l⟩ := q.led
          exact ⟨hr.of_actSub q.coreEq.actSub, .led n l⟩
        · simp at hm
      · simp at hm
    | sent c p =>
      simp only [observe, Option.mem_toList] at hm
      have q := observeSent_quiet hm
      obtain ⟨n, l⟩ := q.led
      exact ⟨hr.of_actSub q.coreEq.actSub, .led n l⟩
    | sendFail c p =>
      simp only [observe] at hm
      split at hm
      · rename_i s1 hs1
        have q := observeSent_quiet hs1
        obtain ⟨n1, l1⟩ := q.led
        have hi1 := hi.1.of_coreEq q.coreEq
        split at hm
        · rename_i ss hss
          simp only [List.mem_map] at hm
          obtain ⟨s2, hs2, rfl⟩ := hm
          have hk := RAll_ok (RAll_and (kill_led c (fun y hy => hi1.az c y hy)) (kill_actSub s1 c)) hss s2 hs2
          obtain ⟨⟨n2, l2⟩, a2⟩ := hk
          have q3 : Quiet c (fun _ => True) s2 (s2.updConn c fun x => { x with procOut := [], ackOut := [] }) :=
            Quiet.updConn (fun _ => rfl)
          obtain ⟨n3, l3⟩ := q3.led
          exact ⟨hr.of_actSub ((q.coreEq.actSub.trans a2).trans q3.coreEq.actSub),
            .led ((n1 ++ n2) ++ n3) ((l1.trans l2).trans l3)⟩
        · simp at hm
      · simp at hm
  | stim st hfresh ss h hm =>
    cases st with
    | conn c =>
      simp only [stim, Res.one, Res.ok.injEq] at h
      subst h
      simp only [List.mem_singleton] at hm; subst hm
      have hn := hfresh c rfl
      refine ⟨hr.of_actSub (ActSub.setConn (fun y hy => by rw [hn] at hy; cases hy)), .fresh c hn rfl⟩
    | send c p =>
      obtain ⟨hr', n, l⟩ := RAll_ok (recv_led hi hr c p) h s' hm
      exact ⟨hr', .led n l⟩
    | drop c =>
      obtain ⟨⟨n, l⟩, a⟩ := RAll_ok (RAll_and (kill_led c (fun y hy => hi.1.az c y hy)) (kill_actSub s c)) h s' hm
      exact ⟨hr.of_actSub a, .led n l⟩
    | ackRelease =>
      simp only [stim, Res.one, Res.ok.injEq] at h
      subst h
      simp only [List.mem_singleton] at hm; subst hm
      have ce := (ackRelease_coreEq s.pendingAcks s).trans
        (CoreEq.of_eq (s' := { (s.pendingAcks.foldl (fun s a =>
          (ackPre a.conn a.pkt s).updConn a.conn (fun x => if x.alive then { x with ackOut := x.ackOut ++ [a.pkt] } else x)) s)
          with pendingAcks := [] }) rfl rfl rfl rfl)
      refine ⟨hr.of_actSub ce.actSub, .led [] (Led.of_same ?_ ce.status (by simp))⟩
      show (s.pendingAcks.foldl _ s).bevents = s.bevents ++ []
      rw [ackRelease_bevents]; simp
    | backendClose =>
      simp only [stim] at h
      have ce : CoreEq s { s with closing := true } := CoreEq.of_eq rfl rfl rfl rfl
      have l0 : Led s { s with closing := true } [] := Led.of_same (by simp) ce.status (by simp)
      obtain ⟨hr', n, l⟩ := RAll_ok (killAll_led _ _ (hi.of_coreEq ce) (hr.of_actSub ce.actSub)) h s' hm
      exact ⟨hr', .led ([] ++ n) (l0.trans l)⟩
    | stall c =>
      simp only [stim, Res.one, Res.ok.injEq] at h
      subst h
      simp only [List.mem_singleton] at hm; subst hm
      rw [updConn_eq]
      split
      · rename_i x hx
        refine ⟨hr.of_actSub (ActSub.setConn (fun y hy hp => by rw [hx] at hy; cases hy; exact hp)),
          .led [] (Led.of_same (by simp) (fun e => ?_) (by simp))⟩
        rw [conn?_setConn]
        split
        · rename_i he; subst he; rw [hx]; rfl
        · rfl
      · exact ⟨hr, .led [] (Led.refl s)⟩
    | unstall c =>
      simp only [stim] at h
      split at h
      · rename_i x hx
        split at h
        · rename_i hz
          have hk := RAll_ok (RAll_and
            (cleanup_led (s := s) (x0 := { x with stalled := false, zombie := false }) hx (Or.inr hz) rfl
              (by
                cases ha : x.alive with
                | false => rfl
                | true => rw [hi.1.az c x hx ha] at hz; cases hz) rfl rfl)
            (cleanup_rule (P := fun s'' => ActSub (s.setConn c { x with stalled := false, zombie := false }) s'')
              _ c x (fun s2 hq _ _ => by
                have a2 := (hq (fun _ => True)).coreEq.actSub
                unfold termIf
                split
                · exact a2.trans (ActSub.terminate s2 c)
                · exact a2))) h s' hm
          obtain ⟨⟨n, l⟩, a⟩ := hk
          have a0 : ActSub s (s.setConn c { x with stalled := false, zombie := false }) :=
            ActSub.setConn (fun y hy hp => by rw [hx] at hy; cases hy; exact hp)
          exact ⟨hr.of_actSub (a0.trans a), .led n l⟩
        · simp only [Res.one, Res.ok.injEq] at h
          subst h
          simp only [List.mem_singleton] at hm; subst hm
          rename_i hnz
          refine ⟨hr.of_actSub (ActSub.setConn (fun y hy hp => by rw [hx] at hy; cases hy; exact hp)),
            .led [] (Led.of_same (by simp) (fun e => ?_) (by simp))⟩
          rw [conn?_setConn]
          split
          · rename_i he; subst he; rw [hx]; rfl
          · rfl
      · cases h
    | tokenTimeout c =>
      simp only [stim] at h
      split at h
      · split at h
        · obtain ⟨⟨n, l⟩, a⟩ := RAll_ok (RAll_and (kill_led c (fun y hy => hi.1.az c y hy)) (kill_actSub s c)) h s' hm
          exact ⟨hr.of_actSub a, .led n l⟩
        · cases h
      · cases h

/-! ### the count -/

/-- the number of `terminate c` ever issued is 1 if `c` is closed and cleaned up after a `Setup` attempt,
    0 otherwise -/
def GInv (s : BState) (log : List BEvent) : Prop :=
  ∀ c, log.count (BEvent.terminate c) = if status (s.conn? c) = .done then 1 else 0

theorem tick_step {a b : St} (h : okTrans a b = true) :
    (if a = .done then 1 else 0) + tick a b = (if b = .done then 1 else 0) := by
  cases a <;> cases b <;> simp_all [okTrans, tick]

theorem runG_inv {cfg : Cfg} {s : BState} {log : List BEvent} (h : RunG cfg s log) :
    Inv s ∧ RevInv s ∧ GInv s log := by
  induction h with
  | init =>
    refine ⟨inv_init cfg, ⟨fun k b e hb => ?_, fun k b e hb => ?_⟩, fun c => ?_⟩
    · cases hb
    · cases hb
    · have : ({ cfg := cfg } : BState).conn? c = none := rfl
      rw [this]; simp [status]
  | @step s0 s1 log0 _ hs ih =>
    obtain ⟨hi, hr, hg⟩ := ih
    obtain ⟨hr', hk⟩ := stepF_kind hi hr hs
    refine ⟨inv_step hi hs.toStep, hr', fun c => ?_⟩
    cases hk with
    | led new l =>
      rw [appended_of_led l, List.count_append, hg c, (l.each c).2]
      exact tick_step (l.each c).1
    | observed e he hb hc =>
      have : appended s0 s1 = [] := by
        unfold appended
        rw [hb, List.length_erase_of_mem he]
        have : 0 < s0.bevents.length := List.length_pos_of_mem he
        rw [if_neg (by omega)]
      rw [this, List.append_nil, hg c, conn?_of_conns hc]
    | fresh d hn he =>
      have : appended s0 s1 = [] := by
        unfold appended; rw [he]; simp
      rw [this, List.append_nil, hg c, he, conn?_setConn]
      by_cases hcd : c = d
      · subst hcd; rw [hn]; simp [status]
      · rw [if_neg hcd]

end BrokerB4
