import Proofs.BrokerOnce
/-
  Proofs/BrokerB5Ghost.lean — the broker model with a ghost output (C12, global form).

  `cleanupG`, `killG`, `publishThenG`, `setupAndConnackG`, `recvG`, `killAllG`, `stimG`, `observeG` are
  the functions of Model/Broker.lean of the same names (text copied, nothing else changed) that
  additionally return, for every possible successor state, the list of backend calls made on the
  way — each tagged with its ORIGIN: `processor` (a PUBLISH / PUBREL of the peer handled by
  `publishThen`, the `Setup` call of `processConnect`) or `cleanup` (the will and `Terminate`).
  `cleanup` is the only caller of `backendPublish` with the will, `publishThen` the only other caller.

  The instrumentation is validated by two theorems: `stimG_erase` / `observeG_erase` (forgetting the
  ghost output gives exactly `stim` / `observe`: same successor states, same `unsupported`), and
  `stimG_tie` / `observeG_tie` in Proofs/BrokerB5Will.lean (the ghost output, tags forgotten, is exactly
  what the step appended to `bevents`).  Namespace `BrokerB5`.
-/
namespace BrokerB5
open BState BrokerB4

/-- who made a backend call -/
inductive Origin where
  | processor    -- the processor goroutine: `Publish` for a packet of the peer, `Setup`
  | cleanup      -- `cleanup`: the will, `Terminate`
  deriving DecidableEq, Repr

/-- a backend call with its origin -/
structure GEvent where
  origin : Origin
  ev : BEvent
  deriving DecidableEq, Repr

/-- outcome of a stimulus with ghost output: the possible successor states, each with the backend calls
    made on the way to it -/
inductive ResG where
  | ok (ss : List (BState × List GEvent))
  | unsupported (why : String)

def ResG.emit (s : BState) (g : List GEvent) : ResG := .ok [(s, g)]
def ResG.one (s : BState) : ResG := .ok [(s, [])]
def ResG.ofList (l : List BState) : ResG := .ok (l.map (fun s => (s, [])))

/-- as `Res.bind`; the ghost outputs are concatenated -/
def ResG.bind (r : ResG) (f : BState → ResG) : ResG :=
  match r with
  | .unsupported w => .unsupported w
  | .ok ss =>
    ss.foldl (fun acc sg =>
      match acc, f sg.1 with
      | .unsupported w, _ => .unsupported w
      | _, .unsupported w => .unsupported w
      | .ok a, .ok b => .ok (a ++ b.map (fun tg => (tg.1, sg.2 ++ tg.2)))) (.ok [])

/-- forget the ghost output -/
def ResG.erase : ResG → Res
  | .ok ss => .ok (ss.map (·.1))
  | .unsupported w => .unsupported w

/-! ### the instrumented functions -/

/-- `cleanupG`: the will is published if the client had been accepted and did not disconnect,
    the backend is told -/
def cleanupG (s : BState) (c : ConnId) (x : BConn) : ResG :=
  let r : ResG := match x.phase, x.will with
    | .connected, some w =>
      (match backendPublish s c w with
       | .ok s' => .emit s' [⟨.cleanup, .publish c w⟩]
       | .queueFull s' => .emit s' [⟨.cleanup, .publish c w⟩]         -- error is only logged
       | .unsupported e => .unsupported e)
    | _, _ => .one s
  ResG.bind r fun s =>
    if x.phase ≠ .connecting then .emit (backendTerminate s c) [⟨.cleanup, .terminate c⟩] else .one s

/-- `die` / `Close` followed by `cleanupG`: the connection is closed, the will is published if
    the client had been accepted and did not disconnect, the backend is told. -/
def killG (s : BState) (c : ConnId) : ResG :=
  match s.conn? c with
  | none => .one s
  | some x =>
    if !x.alive then .one s else
    let alts := lastDequeue s c x
    ResG.bind (.ofList alts) fun s =>
      if x.stalled then
        -- closed, but its goroutines cannot finish: `cleanupG` (will, Terminate) has to wait
        .one (s.setConn c { x with alive := false, running := false, zombie := true })
      else cleanupG (s.setConn c { x with alive := false, running := false }) c x

/-- run `backendPublish` for client `c`; `ErrQueueFull` kills the client -/
def publishThenG (s : BState) (c : ConnId) (m : Message) (k : BState → ResG) : ResG :=
  match backendPublish s c m with
  | .ok s' => ResG.bind (.emit s' [⟨.processor, .publish c m⟩]) k
  | .queueFull s' => ResG.bind (.emit s' [⟨.processor, .publish c m⟩]) (fun s' => killG s' c)
  | .unsupported e => .unsupported e

/-- `processConnect` after successful authentication: `Setup`, CONNACK, resend, start goroutines -/
def setupAndConnackG (s : BState) (c : ConnId) (x : BConn) (id : ClientId) (clean : Bool)
    (will : Option Message) : ResG :=
  let x := { x with phase := .connected, id := id }
  let s := s.setConn c x
  if s.closing then killG s c else
  if id.length = 0 then
    let b := newSess c
    let s := { s with temp := Assoc.set s.temp c b, bevents := s.bevents ++ [BEvent.setup c false] }
    let x := startConn s.cfg { x with sref := .temp, will := will, running := true,
                                      procOut := x.procOut ++ [.connack false 0] }
    .emit (s.setConn c (retake x)) [⟨.processor, .setup c false⟩]
  else
    -- the existing session: stored first, else the temporary session of the active client
    let existing : Option ConnId :=
      match Assoc.get s.stored id with
      | some b => b.active
      | none => (match Assoc.get s.activeClients id with
                 | some oc => (match Assoc.get s.temp oc with | some b => b.active | none => none)
                 | none => none)
    -- take over: close the old connection and wait for its cleanupG
    let r : ResG := match existing with
      | some oc => killG s oc
      | none => .one s
    ResG.bind r fun s =>
    -- the old connection did not finish dying within `KillTimeout`: `Setup` fails, the newcomer
    -- is closed (it was already marked connected, so the backend is told about its termination)
    if (match existing with
        | some oc => (match s.conn? oc with | some ox => ox.zombie | none => false)
        | none => false) then killG s c else
    if clean then
      let b := newSess c
      let s := { s with stored := Assoc.del s.stored id, temp := Assoc.set s.temp c b,
                        activeClients := Assoc.set s.activeClients id c,
                        bevents := s.bevents ++ [BEvent.setup c false] }
      let x := startConn s.cfg { x with sref := .temp, will := will, running := true,
                                        procOut := x.procOut ++ [.connack false 0] }
      .emit (s.setConn c (retake x)) [⟨.processor, .setup c false⟩]
    else
      match Assoc.get s.stored id with
      | some b =>
        let b := { b with tempQ := [], active := some c }
        let x := startConn s.cfg { x with sref := .stored id, will := will, running := true,
                                          procOut := x.procOut ++ [.connack true 0] }
        let (b, x) := resend b x
        let s := { s with stored := Assoc.set s.stored id b,
                          activeClients := Assoc.set s.activeClients id c,
                          bevents := s.bevents ++ [BEvent.setup c true] }
        .emit (s.setConn c (retake x)) [⟨.processor, .setup c true⟩]
      | none =>
        let b := newSess c
        let s := { s with stored := Assoc.set s.stored id b,
                          activeClients := Assoc.set s.activeClients id c,
                          bevents := s.bevents ++ [BEvent.setup c false] }
        let x := startConn s.cfg { x with sref := .stored id, will := will, running := true,
                                          procOut := x.procOut ++ [.connack false 0] }
        .emit (s.setConn c (retake x)) [⟨.processor, .setup c false⟩]

/-- one packet from the peer, processed by the processor goroutine -/
def recvG (s : BState) (c : ConnId) (p : Packet) : ResG :=
  match s.conn? c with
  | none => .unsupported "unknown connection"
  | some x =>
    if !x.alive then .one s else
    match x.phase with
    | .disconnected => .one s
    | .connecting =>
      (match p with
       | .connect id _ka u pw clean will _v =>
         let x := { x with id := id }
         let s := s.setConn c x
         if s.closing then killG s c else
         if !authenticate s u pw then
           killG (s.setConn c { x with procOut := x.procOut ++ [.connack false 5] }) c
         else setupAndConnackG s c x id clean will
       | _ => killG s c)
    | .connected =>
      (match p with
       | .subscribe subs id =>
         if x.subTok = 0 then .unsupported "subscribe tokens exhausted" else
         let s := s.setConn c { x with subTok := x.subTok - 1 }
         (match s.sessOf c with
          | none => .unsupported "no session"
          | some b =>
            let b := subs.foldl (fun b sub => { b with subs := Tree.set sub.topic sub.qos.toNat b.subs }) b
            let s := s.setSessOf c b
            let s := ackVia s c (.suback (subs.map (·.qos)) id) (fun s => s)
            (match subscribeRetained s c subs with
             | .ok s => .one s
             | .queueFull s => killG s c
             | .unsupported e => .unsupported e))
       | .unsubscribe topics id =>
         if x.subTok = 0 then .unsupported "subscribe tokens exhausted" else
         let s := s.setConn c { x with subTok := x.subTok - 1 }
         (match s.sessOf c with
          | none => .unsupported "no session"
          | some b =>
            let b := topics.foldl (fun b t => { b with subs := Tree.emptyTopic t b.subs }) b
            .one (ackVia (s.setSessOf c b) c (.unsuback id) (fun s => s)))
       | .publish m _dup id =>
         if m.qos = 0 then publishThenG s c m .one
         else if x.pubTok = 0 then .unsupported "publish tokens exhausted"
         else
           let s := s.setConn c { x with pubTok := x.pubTok - 1 }
           if m.qos = 1 then
             publishThenG s c m fun s => .one (ackVia s c (.puback id) (fun s => s))
           else
             (match s.sessOf c with
              | none => .unsupported "no session"
              | some b =>
                let b := { b with sess := b.sess.savePacket .incoming p }
                .one ((s.setSessOf c b).updConn c fun x => { x with procOut := x.procOut ++ [.pubrec id] }))
       | .pubrel id =>
         (match s.sessOf c with
          | none => .unsupported "no session"
          | some b =>
            (match b.sess.lookupPacket .incoming id with
             | some (.publish m _ _) =>
               publishThenG s c m fun s => .one (ackVia s c (.pubcomp id) (ackPre c (.pubcomp id)))
             | _ => .one (s.updConn c fun x => { x with procOut := x.procOut ++ [.pubcomp id] })))
       | .puback id | .pubcomp id =>
         (match s.sessOf c with
          | none => .unsupported "no session"
          | some b =>
            let s := s.setSessOf c { b with sess := b.sess.deletePacket .outgoing id }
            .one (s.updConn c (putDeq s.cfg)))
       | .pubrec id =>
         (match s.sessOf c with
          | none => .unsupported "no session"
          | some b =>
            let s := s.setSessOf c { b with sess := b.sess.savePacket .outgoing (.pubrel id) }
            .one (s.updConn c fun x => { x with procOut := x.procOut ++ [.pubrel id] }))
       | .pingreq => .one (s.updConn c fun x => { x with procOut := x.procOut ++ [.pingresp] })
       | .disconnect =>
         killG (s.setConn c { x with will := none, phase := .disconnected }) c
       | _ => killG s c)

def killAllG (s : BState) : List ConnId → ResG
  | [] => .one s
  | c :: rest => ResG.bind (killG s c) (fun s => killAllG s rest)

def stimG (s : BState) : Stim → ResG
  | .conn c => .one (s.setConn c {})
  | .send c p => recvG s c p
  | .drop c => killG s c
  | .ackRelease =>
    let s' := s.pendingAcks.foldl (fun s a =>
      (ackPre a.conn a.pkt s).updConn a.conn (fun x => if x.alive then { x with ackOut := x.ackOut ++ [a.pkt] } else x)) s
    .one { s' with pendingAcks := [] }
  | .backendClose =>
    let s := { s with closing := true }
    killAllG s ((s.conns.filter (fun e => e.2.alive ∧ e.2.sref ≠ .none)).map (·.1))
  | .stall c => .one (s.updConn c fun x => { x with stalled := true })
  | .unstall c =>
    (match s.conn? c with
     | some x =>
       if x.zombie then cleanupG (s.setConn c { x with stalled := false, zombie := false }) c x
       else .one (s.setConn c { x with stalled := false })
     | none => .unsupported "unknown connection")
  | .tokenTimeout c =>
    match s.conn? c with
    | some x => if x.alive ∧ x.running ∧ !x.deqHand ∧ x.deqChan = 0 then killG s c else .unsupported "dequeuer not blocked"
    | none => .unsupported "unknown connection"

/-- the states reachable by accepting one observation (empty = not an enabled output) -/
def observeG (s : BState) : Obs → List (BState × List GEvent)
  | .sendFail c p =>
    -- the write was attempted (all bookkeeping done), the transport failed, the connection dies
    (match observeSent s c p with
     | some s' =>
       (match killG s' c with
        | .ok ss => ss.map (fun sg => (sg.1.updConn c fun x => { x with procOut := [], ackOut := [] }, sg.2))
        | .unsupported _ => [])
     | none => [])
  | o => (observe s o).map (fun s' => (s', []))

/-! ### forgetting the ghost output gives back the model -/

@[simp] theorem erase_one (s : BState) : (ResG.one s).erase = Res.one s := rfl
@[simp] theorem erase_emit (s : BState) (g : List GEvent) : (ResG.emit s g).erase = Res.one s := rfl
@[simp] theorem erase_unsupported (w : String) : (ResG.unsupported w).erase = .unsupported w := rfl
@[simp] theorem erase_ofList (l : List BState) : (ResG.ofList l).erase = .ok l := by
  simp [ResG.ofList, ResG.erase, List.map_map, Function.comp_def]

private def stepG (f : BState → ResG) (acc : ResG) (sg : BState × List GEvent) : ResG :=
  match acc, f sg.1 with
  | .unsupported w, _ => .unsupported w
  | _, .unsupported w => .unsupported w
  | .ok a, .ok b => .ok (a ++ b.map (fun tg => (tg.1, sg.2 ++ tg.2)))

private def step0 (f : BState → Res) (acc : Res) (s : BState) : Res :=
  match acc, f s with
  | .unsupported w, _ => .unsupported w
  | _, .unsupported w => .unsupported w
  | .ok a, .ok b => .ok (a ++ b)

private theorem erase_stepG (f : BState → ResG) (acc : ResG) (sg : BState × List GEvent) :
    (stepG f acc sg).erase = step0 (fun s => (f s).erase) acc.erase sg.1 := by
  unfold stepG step0
  cases acc with
  | unsupported w => rfl
  | ok a =>
    cases h : f sg.1 with
    | unsupported w => simp [ResG.erase, h]
    | ok b => simp [ResG.erase, h, List.map_map, Function.comp_def]

private theorem erase_foldl (f : BState → ResG) : ∀ (ss : List (BState × List GEvent)) (acc : ResG),
    (ss.foldl (stepG f) acc).erase = (ss.map (·.1)).foldl (step0 (fun s => (f s).erase)) acc.erase := by
  intro ss
  induction ss with
  | nil => intro acc; rfl
  | cons sg rest ih =>
    intro acc
    simp only [List.foldl_cons, List.map_cons]
    rw [ih, erase_stepG]

theorem erase_bind (r : ResG) (f : BState → ResG) :
    (ResG.bind r f).erase = Res.bind r.erase (fun s => (f s).erase) := by
  cases r with
  | unsupported w => rfl
  | ok ss => exact erase_foldl f ss (.ok [])

theorem res_bind_one (s : BState) (f : BState → Res) : Res.bind (Res.one s) f = f s := by
  simp only [Res.bind, Res.one, List.foldl_cons, List.foldl_nil]
  cases f s <;> simp

theorem cleanupG_erase (s : BState) (c : ConnId) (x : BConn) : (cleanupG s c x).erase = cleanup s c x := by
  unfold cleanupG cleanup
  rw [erase_bind]
  congr 1
  · split
    · split <;> simp_all
    · simp
  · funext s1; split <;> rfl

theorem killG_erase (s : BState) (c : ConnId) : (killG s c).erase = kill s c := by
  unfold killG kill
  cases hc : s.conn? c with
  | none => rfl
  | some x =>
    simp only []
    cases ha : x.alive with
    | false => rfl
    | true =>
      simp only [Bool.not_true, Bool.false_eq_true, if_false, erase_bind, erase_ofList]
      congr 1
      funext s1
      split
      · rfl
      · exact cleanupG_erase _ _ _

theorem publishThenG_erase (s : BState) (c : ConnId) (m : Message) (k : BState → ResG) :
    (publishThenG s c m k).erase = publishThen s c m (fun s => (k s).erase) := by
  unfold publishThenG publishThen
  cases hb : backendPublish s c m with
  | ok s' => simp only []; rw [erase_bind, erase_emit, res_bind_one]
  | queueFull s' => simp only []; rw [erase_bind, erase_emit, res_bind_one]; exact killG_erase _ _
  | unsupported e => rfl

theorem killAllG_erase : ∀ (l : List ConnId) (s : BState), (killAllG s l).erase = killAll s l := by
  intro l
  induction l with
  | nil => intro s; rfl
  | cons c rest ih =>
    intro s
    simp only [killAllG, killAll, erase_bind, killG_erase]
    congr 1
    funext s1
    exact ih s1

def gSetup (c : ConnId) (resumed : Bool) : List GEvent := [⟨.processor, .setup c resumed⟩]

theorem setupAndConnackG_eq (s : BState) (c : ConnId) (x : BConn) (id : ClientId) (clean : Bool)
    (will : Option Message) :
    setupAndConnackG s c x id clean will =
      (let x1 : BConn := { x with phase := .connected, id := id }
       let s1 := s.setConn c x1
       if s1.closing then killG s1 c else
       if id.length = 0 then .emit (installAnon s1 c x1 will) (gSetup c false) else
       ResG.bind (match holder s1 id with | some oc => killG s1 oc | none => .one s1) fun s2 =>
         if stuck s2 (holder s1 id) then killG s2 c else
         if clean then .emit (installClean s2 c x1 id will) (gSetup c false) else
         match Assoc.get s2.stored id with
         | some b => .emit (installResume s2 c x1 id will b) (gSetup c true)
         | none => .emit (installFresh s2 c x1 id will) (gSetup c false)) := by
  rfl

theorem setupAndConnackG_erase (s : BState) (c : ConnId) (x : BConn) (id : ClientId) (clean : Bool)
    (will : Option Message) : (setupAndConnackG s c x id clean will).erase = setupAndConnack s c x id clean will := by
  rw [setupAndConnackG_eq, setupAndConnack_eq]
  simp only []
  split
  · exact killG_erase _ _
  · split
    · rfl
    · rw [erase_bind]
      cases hh : holder (s.setConn c { x with phase := .connected, id := id }) id with
      | none =>
        simp only [erase_one]
        congr 1
        funext s2
        split
        · exact killG_erase _ _
        · split
          · rfl
          · cases Assoc.get s2.stored id <;> rfl
      | some oc =>
        simp only [killG_erase]
        congr 1
        funext s2
        split
        · exact killG_erase _ _
        · split
          · rfl
          · cases Assoc.get s2.stored id <;> rfl

theorem recvG_erase (s : BState) (c : ConnId) (p : Packet) : (recvG s c p).erase = recv s c p := by
  unfold recvG recv
  cases hc : s.conn? c with
  | none => rfl
  | some x =>
    simp only []
    cases ha : x.alive with
    | false => rfl
    | true =>
      simp only [Bool.not_true, Bool.false_eq_true, if_false]
      cases hp : x.phase with
      | disconnected => rfl
      | connecting =>
        simp only []
        cases p <;> simp only [] <;> try exact killG_erase _ _
        split
        · exact killG_erase _ _
        · split
          · exact killG_erase _ _
          · exact setupAndConnackG_erase _ _ _ _ _ _
      | connected =>
        simp only []
        cases p <;> simp only [] <;> try exact killG_erase _ _
        all_goals try rfl
        all_goals (repeat' split)
        all_goals try rfl
        all_goals try exact killG_erase _ _
        all_goals try exact publishThenG_erase _ _ _ _
        all_goals try simp_all
        all_goals first | exact killG_erase _ _ | exact publishThenG_erase _ _ _ _

/-- forgetting the ghost output of `stimG` gives `stim`: same successor states, same `unsupported` -/
theorem stimG_erase (s : BState) (st : Stim) : (stimG s st).erase = stim s st := by
  cases st with
  | conn c => rfl
  | send c p => exact recvG_erase s c p
  | drop c => exact killG_erase s c
  | ackRelease => rfl
  | backendClose => exact killAllG_erase _ _
  | stall c => rfl
  | unstall c =>
    simp only [stimG, stim]
    cases s.conn? c with
    | none => rfl
    | some x =>
      simp only []
      split
      · exact cleanupG_erase _ _ _
      · rfl
  | tokenTimeout c =>
    simp only [stimG, stim]
    cases s.conn? c with
    | none => rfl
    | some x =>
      simp only []
      split
      · exact killG_erase _ _
      · rfl

/-- forgetting the ghost output of `observeG` gives `observe` -/
theorem observeG_erase (s : BState) (o : Obs) : (observeG s o).map (·.1) = observe s o := by
  cases o with
  | backend e => simp [observeG, List.map_map, Function.comp_def]
  | closed c => simp [observeG, List.map_map, Function.comp_def]
  | sent c p => simp [observeG, List.map_map, Function.comp_def]
  | sendFail c p =>
    simp only [observeG, observe]
    cases observeSent s c p with
    | none => rfl
    | some s1 =>
      simp only []
      have := killG_erase s1 c
      cases hk : killG s1 c with
      | unsupported w => rw [hk] at this; simp only [ResG.erase] at this; rw [← this]; rfl
      | ok ss =>
        rw [hk] at this; simp only [ResG.erase] at this; rw [← this]
        simp [List.map_map, Function.comp_def]

/-! ### Hoare rules for the instrumented functions -/

/-- `P` holds for every possible successor and its ghost output (vacuous for `unsupported`) -/
def RAllG (P : BState → List GEvent → Prop) : ResG → Prop
  | .ok ss => ∀ p ∈ ss, P p.1 p.2
  | .unsupported _ => True

theorem RAllG_one {P : BState → List GEvent → Prop} {s : BState} : RAllG P (ResG.one s) ↔ P s [] := by
  simp [RAllG, ResG.one]

theorem RAllG_emit {P : BState → List GEvent → Prop} {s : BState} {g : List GEvent} :
    RAllG P (ResG.emit s g) ↔ P s g := by
  simp [RAllG, ResG.emit]

theorem RAllG_ofList {P : BState → List GEvent → Prop} {l : List BState} :
    RAllG P (ResG.ofList l) ↔ ∀ s ∈ l, P s [] := by
  simp [RAllG, ResG.ofList]

theorem RAllG_mono {P Q : BState → List GEvent → Prop} {r : ResG} (h : RAllG P r) (hpq : ∀ s g, P s g → Q s g) :
    RAllG Q r := by
  cases r with
  | ok ss => exact fun p hp => hpq _ _ (h p hp)
  | unsupported w => trivial

theorem RAllG_ok {P : BState → List GEvent → Prop} {r : ResG} {ss : List (BState × List GEvent)} (h : RAllG P r)
    (hr : r = .ok ss) : ∀ p ∈ ss, P p.1 p.2 := by
  subst hr; exact h

private theorem RAllG_foldl {P Q : BState → List GEvent → Prop} {f : BState → ResG}
    (h2 : ∀ s g, Q s g → RAllG (fun s' g' => P s' (g ++ g')) (f s)) :
    ∀ (ss : List (BState × List GEvent)) (acc : ResG), RAllG P acc → (∀ sg ∈ ss, Q sg.1 sg.2) →
      RAllG P (ss.foldl (stepG f) acc) := by
  intro ss
  induction ss with
  | nil => intro acc ha _; exact ha
  | cons sg rest ih =>
    intro acc ha hq
    simp only [List.foldl_cons]
    refine ih _ ?_ (fun p hp => hq p (List.mem_cons_of_mem _ hp))
    unfold stepG
    cases acc with
    | unsupported w => trivial
    | ok a =>
      have h3 := h2 sg.1 sg.2 (hq sg (List.mem_cons_self ..))
      cases hf : f sg.1 with
      | unsupported w => trivial
      | ok b =>
        rw [hf] at h3
        intro p hp
        rcases List.mem_append.1 hp with hp | hp
        · exact ha p hp
        · simp only [List.mem_map] at hp
          obtain ⟨tg, htg, rfl⟩ := hp
          exact h3 tg htg

/-- Hoare rule for `ResG.bind`: the ghost outputs are concatenated -/
theorem RAllG_bind {P Q : BState → List GEvent → Prop} {r : ResG} {f : BState → ResG} (h1 : RAllG Q r)
    (h2 : ∀ s g, Q s g → RAllG (fun s' g' => P s' (g ++ g')) (f s)) : RAllG P (ResG.bind r f) := by
  cases r with
  | unsupported w => trivial
  | ok ss => exact RAllG_foldl h2 ss (.ok []) (fun _ h => by cases h) h1

/-- a successor of the instrumented function is a successor of the plain one -/
theorem rmem_of_erase {r : ResG} {r0 : Res} (h : r.erase = r0) {ss : List (BState × List GEvent)} (hr : r = .ok ss)
    {p : BState × List GEvent} (hp : p ∈ ss) : RMem p.1 r0 := by
  subst hr
  rw [← h]
  exact List.mem_map.2 ⟨p, hp, rfl⟩

end BrokerB5
