import Proofs.ClientC10b
/-
  Proofs/ClientC10c.lean — C10: the exactly-once invariant through the QoS 2 receive handlers. (K1)
-/
set_option linter.unusedSimpArgs false
set_option linter.unusedVariables false
set_option linter.unnecessarySimpa false
open Cl Cl.St
namespace ClientK1

/-- `pubRec`: PUBREC is handed to the connection -/
theorem j_pubRec {s s' : St} {g : G} {l : Label} {id' : UInt16} (hj : ∀ id, J s g id)
    (hp : s.proc = .pubRec id') (h : stepProc Fix.repaired s l = some s') (ha : Allowed s g l) :
    ∀ id, J s' (gstep s g l) id := by
  cases l <;> simp [stepProc, hp] at h
  rename_i t q ok
  cases t <;> simp at h
  obtain ⟨rfl, h⟩ := h
  have hjj := hj id'
  obtain ⟨m0, d0, j0, hph, hst⟩ := hjj.f' hp
  cases ok
  · -- the send failed: die
    simp at h; subst h
    have hg : gstep s g (.send .proc (.pubrec id') false) = g := rfl
    rw [hg]
    intro id
    by_cases e : id = id'
    · subst e
      refine ⟨hjj.le, hjj.i, hjj.a, ?_, ?_, ?_, ?_, ?_, ?_, ?_⟩
      · intro m hm
        rcases hjj.b m hm with b1 | ⟨b1, b2⟩
        · left; exact b1
        · right; refine ⟨b1, ?_⟩
          rcases b2 with b2 | b2
          · left; exact b2
          · rw [hp] at b2; simp at b2
      all_goals (intros; simp_all [procDie, sendLog, mkDie])
    · exact J_frame (hj id) rfl rfl rfl rfl rfl (by rw [hp]; simp [pcId]; exact fun e' => e e'.symm) (by simp [pcId, procDie, sendLog, mkDie])
  · simp at h; subst h
    have hg : gstep s g (.send .proc (.pubrec id') true) = { g with recS := upd g.recS id' true } := by
      simp [gstep, hp]
    rw [hg]
    intro id
    by_cases e : id = id'
    · subst e
      refine ⟨hjj.le, hjj.i, ?_, ?_, ?_, ?_, ?_, ?_, ?_, ?_⟩
      · intro m hm
        obtain ⟨a1, a2, _⟩ := hjj.a m hm
        refine ⟨a1, a2, fun _ => ?_⟩
        rcases hph with hph | ⟨hph, _⟩
        · simp at hm; rw [hph] at hm; simp at hm; subst hm; exact ⟨d0, j0, hst⟩
        · simp at hm; rw [hph] at hm; simp at hm
      · intro m hm
        rcases hjj.b m hm with b1 | ⟨b1, b2⟩
        · left; exact b1
        · right; refine ⟨b1, ?_⟩
          rcases b2 with b2 | b2
          · left; exact b2
          · rw [hp] at b2; simp at b2
      all_goals (intros; simp_all [sendLog])
    · exact J_frame (hj id) rfl rfl (by simp [upd_other _ _ _ _ e]) rfl rfl
        (by rw [hp]; simp [pcId]; exact fun e' => e e'.symm) (by simp [pcId, sendLog])

/-- generic: the processor moves from a program counter working on `id'` to `pc'`, nothing else
    changes; the clauses for `id'` that mention the program counter are given -/
theorem j_move {s : St} {g : G} {id' : UInt16} (pc' : Proc) (hj : ∀ id, J s g id) (hp : pcId s.proc = some id')
    (hp' : pcId pc' = some id' ∨ pcId pc' = none)
    (hb : s.proc = .relDel id' true → pc' = .relDel id' true ∨ inc s id' = none)
    (hc : ∀ m, pc' = .relCb m id' → g.n id' = 0 ∧ g.ph id' = .rel m)
    (hd : pc' = .relDel id' true → g.n id' = 1 ∧ g.compS id' = false ∧ ∃ m, g.ph id' = .rel m)
    (hf : ∀ m dup, pc' = .pubSave m dup id' → g.ph id' = .pub m ∨ (g.ph id' = .rel m ∧ g.n id' = 0))
    (hf' : pc' = .pubRec id' → ∃ m d j, (g.ph id' = .pub m ∨ (g.ph id' = .rel m ∧ g.n id' = 0)) ∧
        inc s id' = some (.publish m d j))
    (hk : (pc' = .relLook id' ∨ pc' = .relState id' ∨ pc' = .relSend id' false) → g.ph id' = .idle ∨ ∃ m, g.ph id' = .rel m)
    (hk3 : (pc' = .relState id' ∨ pc' = .relSend id' false) → g.n id' = 0 → ∀ m d j, inc s id' ≠ some (.publish m d j)) :
    ∀ id, J { s with proc := pc' } g id := by
  intro id
  by_cases e : id = id'
  · subst e
    have hjj := hj id
    refine ⟨hjj.le, hjj.i, hjj.a, ?_, hc, hd, hf, hf', hk, hk3⟩
    intro m hm
    rcases hjj.b m hm with b1 | ⟨b1, b2⟩
    · left; exact b1
    · right; refine ⟨b1, ?_⟩
      rcases b2 with b2 | b2
      · left; exact b2
      · rcases hb b2 with b3 | b3
        · right; exact b3
        · left; exact b3
  · refine J_frame (hj id) rfl rfl rfl rfl rfl (by rw [hp]; simp; exact fun e' => e e'.symm) ?_
    rcases hp' with h1 | h1 <;> rw [h1] <;> simp
    exact fun e' => e e'.symm

/-- `relLook`: the PUBREL's id is looked up -/
theorem j_relLook {s s' : St} {g : G} {l : Label} {id' : UInt16} (hm : Mode s) (hj : ∀ id, J s g id)
    (hp : s.proc = .relLook id') (h : stepProc Fix.repaired s l = some s') (ha : Allowed s g l) :
    ∀ id, J s' (gstep s g l) id := by
  have hjj := hj id'
  have hk := hjj.k (Or.inl hp)
  rcases relLook_step hp h with ⟨rfl, _⟩ | ⟨o, rfl, ho, hcase⟩
  · exact absurd rfl ha
  · have hg : gstep s g (.sLookup .incoming id' (.found o)) = g := rfl
    rw [hg]
    rcases hcase with ⟨m, d, i, rfl, hs'⟩ | ⟨hnp, hs'⟩
    · rw [if_neg (by simp [hm.early])] at hs'; subst hs'
      have hst : inc s id' = some (.publish m d i) := ho.symm
      have hcc : g.n id' = 0 ∧ g.ph id' = .rel m := by
        rcases hk with hi | ⟨m0, hr⟩
        · have := hjj.i hi; rw [hst] at this; simp at this
        · rcases hjj.b m0 hr with ⟨b1, _, d1, j1, b3⟩ | ⟨_, b2⟩
          · rw [hst] at b3; simp at b3; obtain ⟨rfl, _, _⟩ := b3; exact ⟨b1, hr⟩
          · rcases b2 with b2 | b2
            · rw [hst] at b2; simp at b2
            · rw [hp] at b2; simp at b2
      exact j_move (.relCb m id') hj (by rw [hp]; rfl) (Or.inl rfl) (by rw [hp]; simp)
        (by intro m' e'; simp at e'; subst e'; exact hcc) (by simp) (by simp) (by simp) (by simp) (by simp)
    · rw [if_pos (by rfl)] at hs'; subst hs'
      exact j_move (.relState id') hj (by rw [hp]; rfl) (Or.inl rfl) (by rw [hp]; simp)
        (by simp) (by simp) (by simp) (by simp) (by intro _; exact hk)
        (by intro _ _ m d j e'; exact hnp m d j (by rw [ho]; exact e'))

/-- `relState`: an unknown PUBREL is answered only while connected -/
theorem j_relState {s s' : St} {g : G} {l : Label} {id' : UInt16} (hj : ∀ id, J s g id)
    (hp : s.proc = .relState id') (h : stepProc Fix.repaired s l = some s') :
    ∀ id, J s' (gstep s g l) id := by
  have hjj := hj id'
  obtain ⟨rfl, hs'⟩ := relState_step hp h
  have hg : gstep s g (.tau .proc) = g := rfl
  rw [hg]
  subst hs'
  split
  · exact j_move (.relSend id' false) hj (by rw [hp]; rfl) (Or.inl rfl) (by rw [hp]; simp)
      (by simp) (by simp) (by simp) (by simp) (by intro _; exact hjj.k (Or.inr (Or.inl hp)))
      (by intro _; exact hjj.k3 (Or.inl hp))
  · exact j_move (.recv false) hj (by rw [hp]; rfl) (Or.inr rfl) (by rw [hp]; simp)
      (by simp) (by simp) (by simp) (by simp) (by simp) (by simp)

/-- `relCb`: the application gets the message — the one and only time in this handshake -/
theorem j_relCb {s s' : St} {g : G} {l : Label} {m : Message} {id' : UInt16} (hj : ∀ id, J s g id)
    (hp : s.proc = .relCb m id') (h : stepProc Fix.repaired s l = some s') :
    ∀ id, J s' (gstep s g l) id := by
  have hjj := hj id'
  obtain ⟨hn0, hph⟩ := hjj.c m hp
  cases l <;> simp [stepProc, hp] at h
  rename_i m' ok
  obtain ⟨hmm, h⟩ := h
  subst m'
  cases ok
  · -- rejected: die, nothing counted
    simp at h; subst h
    have hg : gstep s g (.cb m false) = g := rfl
    rw [hg]
    exact j_move (.die (mkDie true .exit)) hj (by rw [hp]; rfl) (Or.inr rfl) (by rw [hp]; simp)
      (by simp) (by simp) (by simp) (by simp) (by simp) (by simp)
  · simp [Fix.repaired] at h; subst h
    have hg : gstep s g (.cb m true) = { g with n := upd g.n id' (g.n id' + 1) } := by simp [gstep, hp]
    rw [hg]
    intro id
    by_cases e : id = id'
    · subst e
      have hb := hjj.b m hph
      have hb1 : g.compS id = false ∧ ∃ d j, inc s id = some (.publish m d j) := by
        rcases hb with ⟨_, b2, b3⟩ | ⟨b1, _⟩
        · exact ⟨b2, b3⟩
        · rw [hn0] at b1; simp at b1
      refine ⟨by simp [hn0], ?_, ?_, ?_, ?_, ?_, ?_, ?_, ?_, ?_⟩
      · intro hi; simp at hi; rw [hph] at hi; simp at hi
      · intro m2 hm2; simp at hm2; rw [hph] at hm2; simp at hm2
      · intro m2 hm2; right; simp [hn0]
      · intro m2 e'; simp at e'
      · intro _; exact ⟨by simp [hn0], hb1.1, m, hph⟩
      · intro m2 d2 e'; simp at e'
      · intro e'; simp at e'
      · intro e'; simp at e'
      · intro e'; simp at e'
    · exact J_frame (hj id) rfl rfl rfl rfl (by simp [upd_other _ _ _ _ e])
        (by rw [hp]; simp [pcId]; exact fun e' => e e'.symm) (by simp [pcId]; exact fun e' => e e'.symm)

/-- `relDel`: the delivered message is forgotten -/
theorem j_relDel {s s' : St} {g : G} {l : Label} {id' : UInt16} (hj : ∀ id, J s g id)
    (hp : s.proc = .relDel id' true) (h : stepProc Fix.repaired s l = some s') (ha : Allowed s g l) :
    ∀ id, J s' (gstep s g l) id := by
  have hjj := hj id'
  obtain ⟨hn1, hcf, m0, hph⟩ := hjj.d hp
  cases l <;> simp [stepProc, hp] at h
  rename_i t d id2 ok
  cases t <;> cases d <;> simp at h
  obtain ⟨hmm, h⟩ := h
  subst id2
  have hok : ok = true := ha
  subst hok
  simp at h; subst h
  have hg : gstep s g (.sDel .proc .incoming id' true) = g := rfl
  rw [hg]
  intro id
  by_cases e : id = id'
  · subst e
    have hnone : inc { s with sess := s.sess.deletePacket .incoming id, proc := Proc.relSend id false } id = none :=
      inc_del_in_same s id
    refine ⟨hjj.le, ?_, ?_, ?_, ?_, ?_, ?_, ?_, ?_, ?_⟩
    · intro _; exact hnone
    · intro m2 hm2; rw [hph] at hm2; simp at hm2
    · intro m2 hm2; right; exact ⟨hn1, Or.inl hnone⟩
    · intro m2 e'; simp at e'
    · intro e'; simp at e'
    · intro m2 d2 e'; simp at e'
    · intro e'; simp at e'
    · intro _; right; exact ⟨m0, hph⟩
    · intro _ hn0; rw [hn1] at hn0; simp at hn0
  · refine J_frame (hj id) ?_ rfl rfl rfl rfl (by rw [hp]; simp [pcId]; exact fun e' => e e'.symm)
      (by simp [pcId]; exact fun e' => e e'.symm)
    exact inc_del_in_other s id id' e

/-- `relSend` (PUBCOMP for a PUBREL whose message is not stored any more) -/
theorem j_relSend {s s' : St} {g : G} {l : Label} {id' : UInt16} (hj : ∀ id, J s g id)
    (hp : s.proc = .relSend id' false) (h : stepProc Fix.repaired s l = some s') :
    ∀ id, J s' (gstep s g l) id := by
  have hjj := hj id'
  have hk := hjj.k (Or.inr (Or.inr hp))
  have hk3 := hjj.k3 (Or.inr hp)
  cases l <;> simp [stepProc, hp] at h
  rename_i t q ok
  cases t <;> simp at h
  obtain ⟨rfl, h⟩ := h
  cases ok
  · simp at h; subst h
    have hg : gstep s g (.send .proc (.pubcomp id') false) = g := rfl
    rw [hg]
    intro id
    by_cases e : id = id'
    · subst e
      refine ⟨hjj.le, hjj.i, hjj.a, ?_, ?_, ?_, ?_, ?_, ?_, ?_⟩
      · intro m hm
        rcases hjj.b m hm with b1 | ⟨b1, b2⟩
        · left; exact b1
        · right; refine ⟨b1, ?_⟩
          rcases b2 with b2 | b2
          · left; exact b2
          · rw [hp] at b2; simp at b2
      all_goals (intros; simp_all [procDie, sendLog, mkDie])
    · exact J_frame (hj id) rfl rfl rfl rfl rfl (by rw [hp]; simp [pcId]; exact fun e' => e e'.symm) (by simp [pcId, procDie, sendLog, mkDie])
  · simp at h; subst h
    have hg : gstep s g (.send .proc (.pubcomp id') true) = { g with compS := upd g.compS id' true } := by
      simp [gstep, hp]
    rw [hg]
    intro id
    by_cases e : id = id'
    · subst e
      refine ⟨hjj.le, hjj.i, ?_, ?_, ?_, ?_, ?_, ?_, ?_, ?_⟩
      · intro m hm
        rcases hk with hi | ⟨m0, hr⟩
        · simp at hm; rw [hi] at hm; simp at hm
        · simp at hm; rw [hr] at hm; simp at hm
      · intro m hm
        rcases hjj.b m hm with ⟨b1, _, d1, j1, b3⟩ | ⟨b1, b2⟩
        · exact absurd b3 (hk3 b1 m d1 j1)
        · right; refine ⟨b1, ?_⟩
          rcases b2 with b2 | b2
          · left; exact b2
          · rw [hp] at b2; simp at b2
      all_goals (intros; simp_all [sendLog])
    · exact J_frame (hj id) rfl rfl rfl (by simp [upd_other _ _ _ _ e]) rfl
        (by rw [hp]; simp [pcId]; exact fun e' => e e'.symm) (by simp [pcId, sendLog])

end ClientK1
