import Proofs.ServiceFut2
/-
  Proofs/ServiceStop.lean — `Stop` returns: while a Stop is pending every step of the supervisor
  (a continuation or a timer) strictly decreases a measure, nothing else increases it, and as
  long as the supervisor has not ended one of its steps is enabled — unless it is wedged (row 9).
-/
set_option linter.unusedSimpArgs false
namespace SvcK2
open Svc Svc.SState

def rank : Phase → Nat
  | .exited => 0 | .wedged => 0 | .discAwait => 1 | .dispatching => 2 | .resubWait _ => 3
  | .online _ => 4 | .connWait => 5 | .connecting => 6 | .backoff => 7

/-- supervisor steps left (at most) until it has ended, while a Stop is pending -/
def mu (s : SState) : Nat := rank s.phase + s.queue.length

def Ev.isSup : Ev → Bool
  | .fire | .sup _ => true
  | _ => false

theorem toLoop_phase_stopping {s : SState} (h : s.stopping.isSome = true) : s.toLoop.phase = .exited := by
  rw [toLoop_phase, if_pos h]

theorem mu_loop {s s' : SState} (hst : s.stopping.isSome = true) (hph : s'.phase = s.toLoop.phase)
    (hq : s'.queue = s.queue) (hr : 0 < rank s.phase) : mu s' < mu s := by
  unfold mu
  rw [hph, toLoop_phase_stopping hst, hq]
  simp [rank]; exact hr

theorem clientCall_mu (s : SState) (c : Client) (cmd : Cmd) (hph : s.phase = .dispatching)
    (hst : s.stopping.isSome = true) : mu (clientCall s c cmd).1 ≤ mu s := by
  unfold mu clientCall
  dsimp only
  repeat' split
  all_goals simp [leaveDispatcher, hph, rank, toLoop_phase, hst]

theorem supStep_mu {s s' : SState} {ch : SupChoice} {o : List Obs} (hi : PhaseInv s)
    (hst : s.stopping.isSome = true) (h : supStep s ch = some (s', o)) : mu s' < mu s := by
  have hbl := (hi.stop hst).1
  unfold supStep at h
  repeat' split at h
  step_subst h
  all_goals first
    | (apply mu_loop hst <;> simp [failAttempt, leaveDispatcher, supDisconnect, toLoop_phase, rank, ‹s.phase = _›]; done)
    | (unfold mu; simp [rank, ‹s.phase = _›]; done)
    | skip
  · -- connecting
    rename_i hph
    unfold supConnect
    dsimp only
    repeat' split
    all_goals (unfold mu; simp [rank, hph, toLoop_phase, hst])
  · -- online
    rename_i hph _ c _
    unfold supOnline
    repeat' split
    all_goals (unfold mu; simp [rank, hph, toLoop_phase, hst, failAttempt])
  · -- take
    rename_i hph _ _ c cmd rest _ hq
    have h1 := clientCall_mu (applySubs (dequeue s cmd rest) cmd.kind) c cmd (by simp [hph]) (by simpa using hst)
    have h2 : mu (applySubs (dequeue s cmd rest) cmd.kind) < mu s := by
      unfold mu
      simp [hph, hq]
      unfold dequeue; rw [hbl]; simp
    exact Nat.lt_of_le_of_lt h1 h2
  · -- direct hand-over: impossible, nobody is blocked while a Stop is pending
    rename_i hb
    rw [hbl] at hb; cases hb

theorem fireStep_mu {s s' : SState} {o : List Obs} (hst : s.stopping.isSome = true)
    (h : fireStep s = some (s', o)) : mu s' < mu s := by
  unfold fireStep at h
  repeat' split at h
  step_subst h
  all_goals first
    | (apply mu_loop hst <;> simp [failAttempt, supDisconnect, toLoop_phase, rank, ‹s.phase = _›]; done)
    | (unfold mu; simp [rank, ‹s.phase = _›]; done)

/-- while a Stop is pending every supervisor step brings its end closer -/
theorem sup_step_decreases {s s' : SState} {e : Ev} {o : List Obs} (hi : PhaseInv s)
    (hst : s.stopping.isSome = true) (he : Ev.isSup e = true) (h : step s e = some (s', o)) : mu s' < mu s := by
  cases e with
  | fire => exact fireStep_mu hst h
  | sup ch => exact supStep_mu hi hst h
  | _ => simp [Ev.isSup] at he

/-- … and nothing else pushes it away (the API is locked out by `Stop`'s mutex) -/
theorem other_step_no_increase {s s' : SState} {e : Ev} {o : List Obs} (hi : PhaseInv s)
    (hst : s.stopping.isSome = true) (he : Ev.isSup e = false) (h : step s e = some (s', o)) : mu s' ≤ mu s := by
  have hbl := (hi.stop hst).1
  have hmf : mutexFree s = false := by
    unfold mutexFree
    cases hs : s.stopping with
    | none => rw [hs] at hst; cases hst
    | some _ => rfl
  cases e with
  | fire => simp [Ev.isSup] at he
  | sup ch => simp [Ev.isSup] at he
  | start => rw [step_start] at h; simp [hmf] at h
  | stopCall c => rw [step_stopCall] at h; simp [hmf] at h
  | call c => rw [step_call] at h; simp [hmf] at h
  | callTimeout => rw [step_callTimeout, hbl] at h; simp at h
  | stopRet =>
    step_cases h
    rename_i hph
    have hph' : s.phase = .exited := by simpa using hph
    unfold mu stopTail
    repeat' split
    all_goals simp [drainQueue, hph', rank]
  | _ =>
    step_cases h
    all_goals (unfold mu; simp)

/-- a supervisor that has not ended and is not wedged can always take a step of its own
    (every wait of the supervisor has a timeout, or is over once `Dying` is closed) -/
theorem sup_enabled {s : SState} (hi : PhaseInv s) (hst : s.stopping.isSome = true)
    (h1 : s.phase ≠ .exited) (h2 : s.phase ≠ .wedged) : ∃ e, Ev.isSup e = true ∧ (step s e).isSome = true := by
  have hc := hi.client
  cases hph : s.phase with
  | exited => exact absurd hph h1
  | wedged => exact absurd hph h2
  | backoff => exact ⟨.sup .dying, rfl, by simp [step_sup, supStep, hph, hst]⟩
  | connecting => exact ⟨.sup .run, rfl, by simp [step_sup, supStep, hph]⟩
  | connWait => exact ⟨.fire, rfl, by simp [step_fire, fireStep, hph]⟩
  | online sp =>
    rw [hph] at hc
    obtain ⟨c, hcl⟩ := Option.isSome_iff_exists.mp (by simpa [Phase.hasClient] using hc)
    exact ⟨.sup .run, rfl, by simp [step_sup, supStep, hph, hcl]⟩
  | resubWait id => exact ⟨.fire, rfl, by simp [step_fire, fireStep, hph]⟩
  | dispatching =>
    rw [hph] at hc
    obtain ⟨c, hcl⟩ := Option.isSome_iff_exists.mp (by simpa [Phase.hasClient] using hc)
    refine ⟨.sup .dying, rfl, ?_⟩
    simp only [step_sup, supStep, hph, hst, hcl, if_true]
    repeat' split
    all_goals rfl
  | discAwait =>
    rw [hph] at hc
    obtain ⟨c, hcl⟩ := Option.isSome_iff_exists.mp (by simpa [Phase.hasClient] using hc)
    exact ⟨.fire, rfl, by simp [step_fire, fireStep, hph, hcl]⟩

theorem step_stopping {s s' : SState} {e : Ev} {o : List Obs} (he : Ev.isSup e = true)
    (h : step s e = some (s', o)) : s'.stopping = s.stopping := by
  cases e with
  | fire =>
    rw [step_fire] at h
    unfold fireStep at h
    repeat' split at h
    step_subst h
    all_goals simp
  | sup ch =>
    rw [step_sup] at h
    unfold supStep at h
    repeat' split at h
    step_subst h
    all_goals simp [supTake]
  | _ => simp [Ev.isSup] at he

theorem reachable_run {cfg : Cfg} {s s' : SState} {o : List Obs} (es : List Ev) (hr : Reachable cfg s)
    (h : run s es = some (s', o)) : Reachable cfg s' := by
  induction es generalizing s o with
  | nil => simp [run] at h; obtain ⟨rfl, _⟩ := h; exact hr
  | cons e es ih =>
    simp only [run] at h
    split at h
    · cases h
    · rename_i s1 o1 hs1
      split at h
      · cases h
      · rename_i s2 o2 hs2
        simp at h
        obtain ⟨rfl, _⟩ := h
        exact ih (Reachable.step hr hs1) hs2

/-- the supervisor winds down by its own steps alone (timeouts and `Dying`), whatever the peer does -/
theorem winds_down {cfg : Cfg} (hfix : cfg.fix9 = true) (n : Nat) :
    ∀ s, Reachable cfg s → s.stopping.isSome = true → mu s ≤ n →
      ∃ es s' o, (∀ e ∈ es, Ev.isSup e = true) ∧ run s es = some (s', o) ∧ s'.phase = .exited ∧
        s'.stopping = s.stopping := by
  induction n with
  | zero =>
    intro s hr hst hmu
    have hi := reachable_phaseInv hr
    by_cases hex : s.phase = .exited
    · exact ⟨[], s, [], by simp, rfl, hex, rfl⟩
    · have hw : s.phase ≠ .wedged := hi.wedge (by rw [reachable_cfg hr]; exact hfix)
      obtain ⟨e, he, hen⟩ := sup_enabled hi hst hex hw
      obtain ⟨⟨s1, o1⟩, hs1⟩ := Option.isSome_iff_exists.mp hen
      have := sup_step_decreases hi hst he hs1
      omega
  | succ n ih =>
    intro s hr hst hmu
    have hi := reachable_phaseInv hr
    by_cases hex : s.phase = .exited
    · exact ⟨[], s, [], by simp, rfl, hex, rfl⟩
    · have hw : s.phase ≠ .wedged := hi.wedge (by rw [reachable_cfg hr]; exact hfix)
      obtain ⟨e, he, hen⟩ := sup_enabled hi hst hex hw
      obtain ⟨⟨s1, o1⟩, hs1⟩ := Option.isSome_iff_exists.mp hen
      have hdec := sup_step_decreases hi hst he hs1
      have hst1 : s1.stopping = s.stopping := step_stopping he hs1
      obtain ⟨es, s', o', hes, hrun, hph, hstp⟩ :=
        ih s1 (Reachable.step hr hs1) (by rw [hst1]; exact hst) (by omega)
      refine ⟨e :: es, s', o1 ++ o', ?_, ?_, hph, by rw [hstp, hst1]⟩
      · intro x hx
        cases hx with
        | head => exact he
        | tail _ hx' => exact hes x hx'
      · simp [run, hs1, hrun]

end SvcK2
