import Model.Topic
import Model.TopicSpec
/-
  Proofs/TopicBasic.lean — definitions shared by the C04 and C05 proofs: well-formedness of the
  trie (what the Go map guarantees: unique child keys), the abstraction function `stored`, and
  the basic association-list lemmas.
-/
namespace Node

mutual
/-- children keys are unique, recursively (a Go map cannot hold a key twice) -/
def WF : Node → Prop
  | mk _ cs => (cs.map (·.1)).Nodup ∧ WFList cs
def WFList : List (Level × Node) → Prop
  | [] => True
  | (_, c) :: rest => WF c ∧ WFList rest
end

mutual
/-- every node's value slice is duplicate free -/
def NoDupVals : Node → Prop
  | mk vs cs => vs.Nodup ∧ NoDupValsList cs
def NoDupValsList : List (Level × Node) → Prop
  | [] => True
  | (_, c) :: rest => NoDupVals c ∧ NoDupValsList rest
end

mutual
/-- no emptied branch is left behind: every non-root node has a value or a child -/
def Pruned : Node → Prop
  | mk _ cs => PrunedList cs
def PrunedList : List (Level × Node) → Prop
  | [] => True
  | (_, c) :: rest => (c.isEmptyNode = false) ∧ Pruned c ∧ PrunedList rest
end

/-- the abstraction: the value list stored under a path (empty when the path is absent) -/
def stored (n : Node) (p : List Level) : List Val := (get p n).getD []

theorem child?_setChild_same (cs : List (Level × Node)) (k : Level) (n : Node) :
    child? (setChild cs k n) k = some n := by
  induction cs with
  | nil => simp [setChild, child?]
  | cons hd tl ih =>
    obtain ⟨k', n'⟩ := hd
    simp only [setChild]
    by_cases h : k' = k
    · simp [h, child?]
    · simp [h, child?, ih]

theorem child?_setChild_other (cs : List (Level × Node)) (k k2 : Level) (n : Node) (hne : k2 ≠ k) :
    child? (setChild cs k n) k2 = child? cs k2 := by
  induction cs with
  | nil => simp [setChild, child?]; intro h; exact absurd h.symm hne
  | cons hd tl ih =>
    obtain ⟨k', n'⟩ := hd
    simp only [setChild]
    by_cases h : k' = k
    · subst h
      have : ¬ k' = k2 := fun h2 => hne h2.symm
      simp [child?, this]
    · simp [h, child?, ih]

end Node

/-- a level list without wildcards (topic names) -/
def NoWild (ls : List Level) : Prop := ∀ l ∈ ls, l ≠ wildOne ∧ l ≠ wildSome

/-- `#` only as the last level -/
def ValidFilter : List Level → Prop
  | [] => True
  | [_] => True
  | l :: rest => l ≠ wildSome ∧ ValidFilter rest
