import Proofs.BrokerIso
import Proofs.BrokerB1
import Proofs.TopicOps
/-
  Proofs/BrokerB5Wf.lean — every subscription trie of every stored and every temporary session of
  every reachable broker state is well formed (`Node.WF`): a session starts with `Node.empty`, its
  trie is only changed by `Tree.set` (SUBSCRIBE) and `Tree.emptyTopic` (UNSUBSCRIBE), both keep `WF`.
  Frame argument through the whole LTS (stim, recv, kill, cleanup, setupAndConnack, observe).
  Namespace `BrokerB5`; `RAll`, `Assoc` lemmas, `PW`/`SessExt` come from `BrokerB4` (Proofs/BrokerLife).
-/
namespace BrokerB5
open BState Node BrokerB4

/-- every session of an association list has a well-formed subscription trie (stated for the list's
    *members*, so it does not depend on the keys being distinct) -/
def AllWF {κ : Type} (l : List (κ × BSess)) : Prop := ∀ e ∈ l, e.2.subs.WF

/-- all subscription tries of the broker state are well formed -/
def SubsWF (s : BState) : Prop := AllWF s.stored ∧ AllWF s.temp

theorem AllWF.set {κ : Type} [DecidableEq κ] {l : List (κ × BSess)} (h : AllWF l) (k : κ) {b : BSess}
    (hb : b.subs.WF) : AllWF (Assoc.set l k b) := by
  intro e he
  unfold Assoc.set at he
  split at he
  · simp only [List.mem_map] at he
    obtain ⟨e0, h0, rfl⟩ := he
    split
    · exact hb
    · exact h e0 h0
  · rcases List.mem_append.1 he with h1 | h1
    · exact h e h1
    · simp only [List.mem_singleton] at h1; subst h1; exact hb

theorem AllWF.del {κ : Type} [DecidableEq κ] {l : List (κ × BSess)} (h : AllWF l) (k : κ) :
    AllWF (Assoc.del l k) := by
  intro e he
  unfold Assoc.del at he
  exact h e (List.mem_filter.1 he).1

theorem AllWF.get {κ : Type} [DecidableEq κ] {l : List (κ × BSess)} (h : AllWF l) {k : κ} {b : BSess}
    (hg : Assoc.get l k = some b) : b.subs.WF := h (k, b) (mem_of_get l k b hg)

theorem AllWF.of_pw {κ : Type} {l l' : List (κ × BSess)} (hp : PW SessExt l l') (h : AllWF l) : AllWF l' := by
  induction hp with
  | nil => exact h
  | cons hr _ ih =>
    intro e he
    rcases List.mem_cons.1 he with he | he
    · subst he
      show Node.WF _
      rw [hr.subs]
      exact h _ (List.mem_cons_self ..)
    · exact ih (fun e' he' => h e' (List.mem_cons_of_mem _ he')) e he

theorem AllWF.append {κ : Type} {l1 l2 : List (κ × BSess)} (h1 : AllWF l1) (h2 : AllWF l2) : AllWF (l1 ++ l2) := by
  intro e he
  rcases List.mem_append.1 he with h | h
  · exact h1 e h
  · exact h2 e h

theorem SubsWF.of_eq {s s' : BState} (h : SubsWF s) (h1 : s'.stored = s.stored) (h2 : s'.temp = s.temp) :
    SubsWF s' := by
  unfold SubsWF; rw [h1, h2]; exact h

theorem SubsWF.setConn {s : BState} (h : SubsWF s) (c : ConnId) (x : BConn) : SubsWF (s.setConn c x) :=
  h.of_eq rfl rfl

theorem SubsWF.updConn {s : BState} (h : SubsWF s) (c : ConnId) (f : BConn → BConn) : SubsWF (s.updConn c f) :=
  h.of_eq (updConn_stored s c f) (updConn_temp s c f)

theorem SubsWF.sessOf {s : BState} (h : SubsWF s) {c : ConnId} {b : BSess} (hb : s.sessOf c = some b) :
    b.subs.WF := by
  unfold BState.sessOf at hb
  split at hb
  · split at hb
    · cases hb
    · exact h.2.get hb
    · exact h.1.get hb
  · cases hb

theorem SubsWF.setSessOf {s : BState} (h : SubsWF s) (c : ConnId) {b : BSess} (hb : b.subs.WF) :
    SubsWF (s.setSessOf c b) := by
  unfold BState.setSessOf
  split
  · split
    · exact h
    · exact ⟨h.1, h.2.set c hb⟩
    · exact ⟨h.1.set _ hb, h.2⟩
  · exact h

/-- rewriting a session without touching its subscriptions -/
theorem SubsWF.setSessOf' {s : BState} (h : SubsWF s) (c : ConnId) {b b' : BSess} (hb : s.sessOf c = some b)
    (hs : b'.subs = b.subs) : SubsWF (s.setSessOf c b') :=
  h.setSessOf c (by rw [hs]; exact h.sessOf hb)

/-! ### `backendPublish`, `backendTerminate` -/

theorem backendPublish_wf {s : BState} (h : SubsWF s) (c : ConnId) (m : Message) :
    R1All SubsWF (backendPublish s c m) := by
  rw [backendPublish_eq]
  split
  · trivial
  · rename_i temp' full1 hft
    obtain ⟨t'', ht1, ht2⟩ := fanTemp_pw _ _ _ _ _ _ _ _ hft
    simp only [List.reverse_nil, List.nil_append] at ht1
    subst ht1
    have hT := AllWF.of_pw ht2 h.2
    split
    · exact ⟨h.1, hT⟩
    · split
      · trivial
      · rename_i stored' full2 hfs
        obtain ⟨s'', hs1, hs2⟩ := fanStored_pw _ _ _ _ _ _ _ _ hfs
        simp only [List.reverse_nil, List.nil_append] at hs1
        subst hs1
        have hS := AllWF.of_pw hs2 h.1
        split
        · exact ⟨hS, hT⟩
        · exact ⟨hS, hT⟩

theorem backendTerminate_wf {s : BState} (h : SubsWF s) (c : ConnId) : SubsWF (backendTerminate s c) := by
  unfold SubsWF
  rw [bt_stored, bt_temp]
  cases hs : s.sessOf c with
  | none => exact ⟨h.1, h.2.del c⟩
  | some b =>
    have h1 := h.setSessOf' c (b' := { b with active := none }) hs rfl
    exact ⟨h1.1, h1.2.del c⟩

/-! ### `kill` and its parts -/

theorem lastDequeue_wf {s : BState} (h : SubsWF s) {c : ConnId} {x : BConn} {s1 : BState}
    (hm : s1 ∈ lastDequeue s c x) : SubsWF s1 := by
  rcases lastDequeue_mem hm with e | ⟨b, b', hb, _, hsub, e⟩
  · rw [e]; exact h
  · rw [e]; exact h.setSessOf c (by rw [hsub]; exact h.sessOf hb)

theorem cleanup_wf {s : BState} (h : SubsWF s) (c : ConnId) (x : BConn) : RAll SubsWF (cleanup s c x) := by
  unfold BState.cleanup
  apply RAll_bind (Q := SubsWF)
  · split
    · rename_i w _ _
      have := backendPublish_wf h c w
      split
      · rename_i s1 hp; rw [hp] at this; exact RAll_one.2 this
      · rename_i s1 hp; rw [hp] at this; exact RAll_one.2 this
      · trivial
    · exact RAll_one.2 h
  · intro s1 h1
    split
    · exact RAll_one.2 (backendTerminate_wf h1 c)
    · exact RAll_one.2 h1

theorem kill_wf {s : BState} (h : SubsWF s) (c : ConnId) : RAll SubsWF (kill s c) := by
  unfold BState.kill
  split
  · exact RAll_one.2 h
  · rename_i x hx
    split
    · exact RAll_one.2 h
    · apply RAll_bind (Q := SubsWF)
      · intro s1 hs1; exact lastDequeue_wf h hs1
      · intro s1 h1
        split
        · exact RAll_one.2 (h1.setConn c _)
        · exact cleanup_wf (h1.setConn c _) c x

theorem killAll_wf (cs : List ConnId) : ∀ {s : BState}, SubsWF s → RAll SubsWF (killAll s cs) := by
  induction cs with
  | nil => intro s h; exact RAll_one.2 h
  | cons c rest ih =>
    intro s h
    unfold BState.killAll
    exact RAll_bind (kill_wf h c) (fun s1 h1 => ih h1)

theorem publishThen_wf {s : BState} (h : SubsWF s) (c : ConnId) (m : Message) (k : BState → Res)
    (hk : ∀ s', SubsWF s' → RAll SubsWF (k s')) : RAll SubsWF (publishThen s c m k) := by
  unfold BState.publishThen
  have := backendPublish_wf h c m
  split
  · rename_i s1 hp; rw [hp] at this; exact hk s1 this
  · rename_i s1 hp; rw [hp] at this; exact kill_wf this c
  · trivial

/-! ### acknowledgements -/

theorem forgetIncoming_wf {s : BState} (h : SubsWF s) (c : ConnId) (id : UInt16) :
    SubsWF (forgetIncoming c id s) := by
  unfold BState.forgetIncoming
  split
  · rename_i b hb
    exact h.setSessOf' c hb rfl
  · exact h

theorem ackPre_wf {s : BState} (h : SubsWF s) (c : ConnId) (p : Packet) : SubsWF (ackPre c p s) := by
  unfold BState.ackPre
  split
  · exact forgetIncoming_wf h c _
  · exact h

theorem ackVia_wf {s : BState} (h : SubsWF s) (c : ConnId) (p : Packet) (pre : BState → BState)
    (hpre : ∀ s, SubsWF s → SubsWF (pre s)) : SubsWF (ackVia s c p pre) := by
  unfold BState.ackVia
  split
  · exact h
  · split
    · exact h.of_eq rfl rfl
    · exact (hpre s h).updConn c _

theorem ackVia_wf_id {s : BState} (h : SubsWF s) (c : ConnId) (p : Packet) :
    SubsWF (ackVia s c p (fun s => s)) := ackVia_wf h c p _ (fun _ h => h)

theorem ackRelease_wf (acks : List PendingAck) : ∀ {s : BState}, SubsWF s →
    SubsWF (acks.foldl (fun s a =>
      (ackPre a.conn a.pkt s).updConn a.conn
        (fun x => if x.alive then { x with ackOut := x.ackOut ++ [a.pkt] } else x)) s) := by
  induction acks with
  | nil => intro s h; exact h
  | cons a rest ih =>
    intro s h
    rw [List.foldl_cons]
    exact ih ((ackPre_wf h a.conn a.pkt).updConn _ _)

/-! ### CONNECT -/

theorem WF_newSess (c : ConnId) : (newSess c).subs.WF := WF_empty

theorem installAnon_wf {s : BState} (h : SubsWF s) (c : ConnId) (x : BConn) (will : Option Message) :
    SubsWF (installAnon s c x will) := by
  unfold SubsWF; rw [installAnon_stored, installAnon_temp]
  exact ⟨h.1, h.2.set c (WF_newSess c)⟩

theorem installClean_wf {s : BState} (h : SubsWF s) (c : ConnId) (x : BConn) (id : ClientId) (will : Option Message) :
    SubsWF (installClean s c x id will) := by
  unfold SubsWF; rw [installClean_stored, installClean_temp]
  exact ⟨h.1.del id, h.2.set c (WF_newSess c)⟩

theorem installFresh_wf {s : BState} (h : SubsWF s) (c : ConnId) (x : BConn) (id : ClientId) (will : Option Message) :
    SubsWF (installFresh s c x id will) := by
  unfold SubsWF; rw [installFresh_stored, installFresh_temp]
  exact ⟨h.1.set id (WF_newSess c), h.2⟩

theorem installResume_wf {s : BState} (h : SubsWF s) (c : ConnId) (x : BConn) (id : ClientId) (will : Option Message)
    (b : BSess) (hb : b.subs.WF) : SubsWF (installResume s c x id will b) := by
  unfold SubsWF; rw [installResume_stored, installResume_temp]
  exact ⟨h.1.set id (b := resumedSess b c) hb, h.2⟩

theorem setupAndConnack_wf {s : BState} (h : SubsWF s) (c : ConnId) (x : BConn) (id : ClientId)
    (clean : Bool) (will : Option Message) : RAll SubsWF (setupAndConnack s c x id clean will) := by
  rw [setupAndConnack_eq]
  simp only []
  have h1 : SubsWF (s.setConn c { x with phase := .connected, id := id }) := h.setConn c _
  split
  · exact kill_wf h1 c
  · split
    · exact RAll_one.2 (installAnon_wf h1 _ _ _)
    · apply RAll_bind (Q := SubsWF)
      · split
        · exact kill_wf h1 _
        · exact RAll_one.2 h1
      · intro s2 h2
        split
        · exact kill_wf h2 c
        · split
          · exact RAll_one.2 (installClean_wf h2 _ _ _ _)
          · split
            · rename_i b hb
              exact RAll_one.2 (installResume_wf h2 _ _ _ _ b (h2.1.get hb))
            · exact RAll_one.2 (installFresh_wf h2 _ _ _ _)

/-! ### SUBSCRIBE / UNSUBSCRIBE -/

theorem WF_foldl_set (subs : List Subscription) : ∀ (n : Node), n.WF →
    (subs.foldl (fun n sub => Tree.set sub.topic sub.qos.toNat n) n).WF := by
  induction subs with
  | nil => intro n h; exact h
  | cons sub rest ih => intro n h; exact ih _ (WF_set _ _ _ h)

theorem queueRetained_subs {cfg : Cfg} {g : Nat} : ∀ (ms : List Message) (b b' : BSess),
    queueRetained cfg b ms g = some b' → b'.subs = b.subs := by
  intro ms
  induction ms with
  | nil => intro b b' h; simp only [queueRetained, Option.some.injEq] at h; rw [← h]
  | cons m rest ih =>
    intro b b' h
    simp only [queueRetained] at h
    split at h
    · exact (ih _ _ h).trans rfl
    · cases h

theorem subscribeRetained_wf (c : ConnId) (subs : List Subscription) : ∀ {s : BState}, SubsWF s →
    R1All SubsWF (subscribeRetained s c subs) := by
  induction subs with
  | nil => intro s h; exact h
  | cons sub rest ih =>
    intro s h
    simp only [subscribeRetained]
    split
    · exact h
    · rename_i b hb
      split
      · rename_i b' hq
        have hw : b'.subs.WF := by rw [queueRetained_subs _ _ _ hq]; exact h.sessOf hb
        exact ih ((h.setSessOf c hw).of_eq rfl rfl)
      · exact h

/-! ### `recv` -/

theorem recv_wf {s : BState} (h : SubsWF s) (c : ConnId) (p : Packet) : RAll SubsWF (recv s c p) := by
  unfold BState.recv
  split
  · trivial
  · rename_i x hx
    split
    · exact RAll_one.2 h
    · split
      · exact RAll_one.2 h
      · -- connecting
        split
        · simp only []
          split
          · exact kill_wf (h.setConn c _) c
          · split
            · exact kill_wf ((h.setConn c _).setConn c _) c
            · exact setupAndConnack_wf (h.setConn c _) c _ _ _ _
        · exact kill_wf h c
      · -- connected
        split
        · -- subscribe
          rename_i subs id
          split
          · trivial
          · simp only []
            have h1 : SubsWF (s.setConn c { x with subTok := x.subTok - 1 }) := h.setConn c _
            split
            · trivial
            · rename_i b hb
              have hw : (subs.foldl (fun b sub => { b with subs := Tree.set sub.topic sub.qos.toNat b.subs }) b).subs.WF := by
                rw [BrokerB1.foldl_subs_set]; exact WF_foldl_set subs _ (h1.sessOf hb)
              have h3 := ackVia_wf_id (h1.setSessOf c hw) c (.suback (subs.map (·.qos)) id)
              have h4 := subscribeRetained_wf c subs h3
              split
              · rename_i s4 hs4; rw [hs4] at h4; exact RAll_one.2 h4
              · rename_i s4 hs4; rw [hs4] at h4; exact kill_wf h4 c
              · trivial
        · -- unsubscribe
          rename_i topics id
          split
          · trivial
          · simp only []
            have h1 : SubsWF (s.setConn c { x with subTok := x.subTok - 1 }) := h.setConn c _
            split
            · trivial
            · rename_i b hb
              have hw : (topics.foldl (fun b t => { b with subs := Tree.emptyTopic t b.subs }) b).subs.WF := by
                rw [BrokerB1.foldl_subs_empty]; exact BrokerB1.WF_foldl_empty topics _ (h1.sessOf hb)
              exact RAll_one.2 (ackVia_wf_id (h1.setSessOf c hw) c _)
        · -- publish
          split
          · exact publishThen_wf h c _ _ (fun s' hs' => RAll_one.2 hs')
          · split
            · trivial
            · simp only []
              have h1 : SubsWF (s.setConn c { x with pubTok := x.pubTok - 1 }) := h.setConn c _
              split
              · apply publishThen_wf h1
                intro s' hs'
                exact RAll_one.2 (ackVia_wf_id hs' c _)
              · split
                · trivial
                · rename_i b hb
                  refine RAll_one.2 (SubsWF.updConn ?_ c _); exact h1.setSessOf' c hb rfl
        · -- pubrel
          split
          · trivial
          · split
            · apply publishThen_wf h
              intro s' hs'
              exact RAll_one.2 (ackVia_wf hs' c _ _ (fun s hs => ackPre_wf hs c _))
            · exact RAll_one.2 (h.updConn c _)
        · -- puback
          split
          · trivial
          · rename_i b hb
            refine RAll_one.2 (SubsWF.updConn ?_ c _); exact h.setSessOf' c hb rfl
        · -- pubcomp
          split
          · trivial
          · rename_i b hb
            refine RAll_one.2 (SubsWF.updConn ?_ c _); exact h.setSessOf' c hb rfl
        · -- pubrec
          split
          · trivial
          · rename_i b hb
            refine RAll_one.2 (SubsWF.updConn ?_ c _); exact h.setSessOf' c hb rfl
        · exact RAll_one.2 (h.updConn c _)
        · exact kill_wf (h.setConn c _) c
        · exact kill_wf h c

/-! ### stimuli, observations, steps -/

theorem stim_wf {s : BState} (h : SubsWF s) (st : Stim) : RAll SubsWF (stim s st) := by
  unfold BState.stim
  split
  · exact RAll_one.2 (h.setConn _ _)
  · exact recv_wf h _ _
  · exact kill_wf h _
  · exact RAll_one.2 ((ackRelease_wf _ h).of_eq rfl rfl)
  · exact killAll_wf _ (h.of_eq rfl rfl)
  · exact RAll_one.2 (h.updConn _ _)
  · split
    · split
      · exact cleanup_wf (h.setConn _ _) _ _
      · exact RAll_one.2 (h.setConn _ _)
    · trivial
  · split
    · split
      · exact kill_wf h _
      · trivial
    · trivial

theorem acceptDelivery_wf {s s' : BState} (h : SubsWF s) (c : ConnId) (x : BConn) (b : BSess) (hb : b.subs.WF)
    (m : Message) (id : UInt16) (ha : acceptDelivery s c x b m id = some s') : SubsWF s' := by
  unfold BState.acceptDelivery at ha
  split at ha
  · cases ha
  · have fin : ∀ (b' : BSess) (out : Message) (r : BState),
        (if out.qos = 0 then
          (if id ≠ 0 then none else
            some ((s.setSessOf c b').setConn c
              (retake { x with deqHand := false, deqChan := min s.cfg.window (x.deqChan + 1) })))
         else
          (if (b'.sess.freshID).1 = 0 then none else
           if (b'.sess.freshID).1 ≠ id then none else
            some ((s.setSessOf c { b' with sess := (b'.sess.freshID).2.savePacket .outgoing (.publish out false id) }).setConn c
              (retake { x with deqHand := false })))) = some r → b'.subs.WF → SubsWF r := by
      intro b' out r hr hw
      split at hr
      · split at hr
        · cases hr
        · injection hr with hr; rw [← hr]; exact (h.setSessOf c hw).setConn c _
      · split at hr
        · cases hr
        · split at hr
          · cases hr
          · injection hr with hr; rw [← hr]
            refine SubsWF.setConn ?_ c _; exact h.setSessOf c hw
    simp only at ha
    split at ha
    · rename_i s1 hfs
      injection ha with ha
      subst ha
      split at hfs
      · split at hfs
        · exact fin _ _ _ hfs hb
        · cases hfs
      · cases hfs
    · split at ha
      · cases ha
      · split at ha
        · exact fin _ _ _ ha hb
        · cases ha

theorem observeSent_wf {s s' : BState} (h : SubsWF s) (c : ConnId) (p : Packet)
    (ho : observeSent s c p = some s') : SubsWF s' := by
  unfold BState.observeSent at ho
  split at ho
  · cases ho
  · split at ho
    · cases ho
    · split at ho
      · injection ho with ho; rw [← ho]; exact h.setConn c _
      · split at ho
        · injection ho with ho; rw [← ho]; exact h.setConn c _
        · split at ho
          · rename_i b hb _ _
            split at ho
            · exact acceptDelivery_wf h _ _ _ (h.sessOf hb) _ _ ho
            · cases ho
          · cases ho

theorem observe_wf {s s' : BState} (h : SubsWF s) (o : Obs) (ho : s' ∈ observe s o) : SubsWF s' := by
  unfold BState.observe at ho
  split at ho
  · split at ho
    · simp only [List.mem_singleton] at ho; rw [ho]; exact h.of_eq rfl rfl
    · cases ho
  · split at ho
    · split at ho
      · simp only [List.mem_singleton] at ho; rw [ho]; exact h.setConn _ _
      · cases ho
    · cases ho
  · simp only [Option.mem_toList] at ho
    exact observeSent_wf h _ _ ho
  · split at ho
    · rename_i s1 hs1
      have h1 := observeSent_wf h _ _ hs1
      split at ho
      · rename_i ss hk
        simp only [List.mem_map] at ho
        obtain ⟨s2, hs2, he⟩ := ho
        have h2 : SubsWF s2 := RAll_ok (kill_wf h1 _) hk s2 hs2
        rw [← he]; exact h2.updConn _ _
      · cases ho
    · cases ho

theorem step_wf {s s' : BState} (h : SubsWF s) (hs : Step s s') : SubsWF s' := by
  cases hs with
  | stim st ss hst hm => exact RAll_ok (stim_wf h st) hst s' hm
  | obs o hm => exact observe_wf h o hm
  | ackMode late never => exact h.of_eq rfl rfl

theorem wf_init (cfg : Cfg) : SubsWF { cfg := cfg } := by
  constructor <;> (intro e he; cases he)

/-- every subscription trie of every stored and temporary session of every reachable state is
    well formed -/
theorem reachable_wf {cfg : Cfg} {s : BState} (h : Reachable cfg s) : SubsWF s := by
  induction h with
  | init => exact wf_init cfg
  | step _ hs ih => exact step_wf ih hs

end BrokerB5
