import Proofs.BrokerOutInv
/-
  Proofs/BrokerOutKeep.lean — frames for the outgoing stores of stored sessions (property C08):
  which building blocks leave them alone (`SSame`), which add at most one freshly delivered PUBLISH
  (`SGrow1`), and the shape of everything the processor does with a packet that is neither CONNECT
  nor an acknowledgement.
-/

namespace BrokerB3
open BState

/-- outgoing store and id counter are the same -/
def SameOut (b b' : BSess) : Prop :=
  b'.sess.outgoing = b.sess.outgoing ∧ b'.sess.counter = b.sess.counter

/-- at most one delivery happened: a packet id that the outgoing store does not use was allocated
    (`MemorySession.freshID`, the broker's `Client.nextID`) and the PUBLISH saved under it; or no id
    was left (the dying dequeuer drops the message): only the counter moved -/
def Take1 (b b' : BSess) : Prop :=
  SameOut b b' ∨
  (b'.sess.outgoing = b.sess.outgoing ∧ b'.sess.counter = b.sess.freshID.2.counter) ∨
  ∃ m, (b.sess.freshID.1 ≠ 0 ∧
      b'.sess.outgoing = b.sess.outgoing.save (.publish m false b.sess.freshID.1)) ∧
    b'.sess.counter = b.sess.freshID.2.counter

/-- every stored session still exists, with the same outgoing store and id counter -/
def SSame (s s' : BState) : Prop :=
  ∀ cid b, Assoc.get s.stored cid = some b → ∃ b', Assoc.get s'.stored cid = some b' ∧ SameOut b b'

/-- every stored session still exists; each saw at most one delivery -/
def SGrow1 (s s' : BState) : Prop :=
  ∀ cid b, Assoc.get s.stored cid = some b → ∃ b', Assoc.get s'.stored cid = some b' ∧ Take1 b b'

theorem SSame.refl (s : BState) : SSame s s := fun _ b h => ⟨b, h, rfl, rfl⟩

theorem SSame.trans {s s' s'' : BState} (h : SSame s s') (h' : SSame s' s'') : SSame s s'' := by
  intro cid b hb
  obtain ⟨b', hb', e1, e2⟩ := h cid b hb
  obtain ⟨b'', hb'', e3, e4⟩ := h' cid b' hb'
  exact ⟨b'', hb'', e3.trans e1, e4.trans e2⟩

theorem SSame.grow {s s' : BState} (h : SSame s s') : SGrow1 s s' := by
  intro cid b hb
  obtain ⟨b', hb', e⟩ := h cid b hb
  exact ⟨b', hb', Or.inl e⟩

theorem nextID_of_counter {ms ms' : MemorySession} (h : ms'.counter = ms.counter) :
    ms'.nextID.1 = ms.nextID.1 ∧ ms'.nextID.2.counter = ms.nextID.2.counter := by
  simp [MemorySession.nextID, h]

theorem SGrow1.after_same {s s' s'' : BState} (h : SGrow1 s s') (h' : SSame s' s'') : SGrow1 s s'' := by
  intro cid b hb
  obtain ⟨b', hb', ht⟩ := h cid b hb
  obtain ⟨b'', hb'', e3, e4⟩ := h' cid b' hb'
  refine ⟨b'', hb'', ?_⟩
  rcases ht with ⟨e1, e2⟩ | ⟨e1, e2⟩ | ⟨m, ⟨hz, e1⟩, e2⟩
  · exact Or.inl ⟨e3.trans e1, e4.trans e2⟩
  · exact Or.inr (Or.inl ⟨e3.trans e1, e4.trans e2⟩)
  · exact Or.inr (Or.inr ⟨m, ⟨hz, e3.trans e1⟩, e4.trans e2⟩)

theorem SGrow1.before_same {s s' s'' : BState} (h : SSame s s') (h' : SGrow1 s' s'') : SGrow1 s s'' := by
  intro cid b hb
  obtain ⟨b', hb', e1, e2⟩ := h cid b hb
  obtain ⟨b'', hb'', ht⟩ := h' cid b' hb'
  refine ⟨b'', hb'', ?_⟩
  obtain ⟨n1, n2⟩ := MemorySession.freshID_congr e2 e1
  rcases ht with ⟨e3, e4⟩ | ⟨e3, e4⟩ | ⟨m, ⟨hz, e3⟩, e4⟩
  · exact Or.inl ⟨e3.trans e1, e4.trans e2⟩
  · exact Or.inr (Or.inl ⟨e3.trans e1, by rw [e4, n2]⟩)
  · exact Or.inr (Or.inr ⟨m, ⟨by rw [← n1]; exact hz, by rw [e3, e1, n1]⟩, by rw [e4, n2]⟩)

theorem SSame.of_coreEq {s s' : BState} (h : CoreEq s s') : SSame s s' := by
  intro cid b hb
  obtain ⟨b', hb', hw⟩ := map_eq_some (h.stored cid) hb
  obtain ⟨e1, e2, _⟩ := sview_eq hw
  exact ⟨b', hb', e1, e2⟩

theorem SSame.terminate (s : BState) (c : ConnId) : SSame s (backendTerminate s c) := by
  intro cid b hb
  rw [terminate_stored]
  split
  · split
    · rw [hb]; exact ⟨_, rfl, rfl, rfl⟩
    · exact ⟨b, hb, rfl, rfl⟩
  · exact ⟨b, hb, rfl, rfl⟩

/-- what an entry of the old store can rely on after at most one delivery: it is still there — the
    delivery was saved under an id the store did not use (`MemorySession.freshID_unused`) -/
theorem Take1.kept {b b' : BSess} (h : Take1 b b') {k : UInt16} {p : Packet}
    (hm : (k, p) ∈ b.sess.outgoing.entries) : (k, p) ∈ b'.sess.outgoing.entries := by
  rcases h with ⟨e, _⟩ | ⟨e, _⟩ | ⟨m, ⟨hz, e⟩, _⟩
  · rw [e]; exact hm
  · rw [e]; exact hm
  · rw [e, save_publish_entries]
    have hk : k ≠ b.sess.freshID.1 :=
      PacketStore.not_mem_of_lookup_none (MemorySession.freshID_unused _ hz) hm
    exact List.mem_append_left _ ((mem_erase _ _ _).2 ⟨hm, hk⟩)

/-! ### `kill` -/

theorem lastTake_take1 (s : BState) (c : ConnId) {b bq : BSess} {out : Message} (hp : Pop b out bq) :
    ∃ b1, lastTake s c bq out = s.setSessOf c b1 ∧ Take1 b b1 ∧ b1.storedQ = bq.storedQ ∧
      b1.tempQ = bq.tempQ ∧ b1.subs = b.subs ∧ b1.active = b.active := by
  obtain ⟨e1, e2, e3⟩ := hp.frame
  unfold lastTake
  split
  · exact ⟨bq, rfl, Or.inl ⟨by rw [e1], by rw [e1]⟩, rfl, rfl, e3, e2⟩
  · split
    · refine ⟨_, rfl, Or.inr (Or.inl ⟨?_, ?_⟩), rfl, rfl, e3, e2⟩
      · simp only [MemorySession.freshID_outgoing, e1]
      · simp only [e1]
    · rename_i hz
      refine ⟨_, rfl, Or.inr (Or.inr ⟨out, ⟨by rw [← e1]; exact hz, ?_⟩, ?_⟩), rfl, rfl, e3, e2⟩
      · simp only [savePacket_outgoing, MemorySession.freshID_outgoing, e1]
      · simp only [e1]; rfl

theorem setSessOf_grow {s : BState} {c : ConnId} {b b1 : BSess} (hb : s.sessOf c = some b)
    (ht : Take1 b b1) : SGrow1 s (s.setSessOf c b1) := by
  obtain ⟨x, hx, hb'⟩ := sessOf_conn hb
  intro cid b0 hb0
  rw [get_stored_setSessOf b1 hx]
  split
  · rename_i hs
    rw [hs] at hb'
    simp only [sessAt] at hb'
    rw [hb0] at hb'
    cases hb'
    exact ⟨b1, rfl, ht⟩
  · exact ⟨b0, hb0, Or.inl ⟨rfl, rfl⟩⟩

theorem lastDequeue_grow {s : BState} {c : ConnId} {x : BConn} {s1 : BState}
    (h1 : s1 ∈ lastDequeue s c x) : SGrow1 s s1 := by
  rcases lastDequeue_cases h1 with rfl | ⟨_, _, b, out, bq, hb, hp, rfl⟩
  · exact (SSame.refl _).grow
  · obtain ⟨b1, e, ht, _⟩ := lastTake_take1 s c hp
    rw [e]
    exact setSessOf_grow hb ht

theorem SSame.of_will {s : BState} {c : ConnId} {x : BConn} {s1 : BState}
    (h : WillPublished s c x s1) : SSame s s1 := SSame.of_coreEq (CoreEq.of_will h)

/-- a dying connection: every stored session survives; the dying dequeuer may have delivered (and
    saved) one more message -/
theorem kill_grow {s : BState} {c : ConnId} {s' : BState} (hk : Killed s c s') : SGrow1 s s' := by
  cases hk with
  | noop _ e => rw [e]; exact (SSame.refl _).grow
  | zombie x s1 _ _ h1 _ e =>
    rw [e]
    exact (lastDequeue_grow h1).after_same (fun _ b h => ⟨b, h, rfl, rfl⟩)
  | dead x s1 s2 _ _ h1 _ hw e =>
    have g1 : SGrow1 s (s1.setConn c { x with alive := false, running := false }) :=
      (lastDequeue_grow h1).after_same (fun _ b h => ⟨b, h, rfl, rfl⟩)
    have g2 := g1.after_same (SSame.of_will hw)
    rw [e]
    split
    · exact g2.after_same (SSame.terminate _ _)
    · exact g2

/-! ### the processor on a packet that is neither CONNECT nor an acknowledgement -/

def Plain : Packet → Prop
  | .connect .. | .puback _ | .pubcomp _ | .pubrec _ => False
  | _ => True

/-- core-preserving bookkeeping, then possibly the death of the connection -/
def PlainShape (s : BState) (c : ConnId) (s' : BState) : Prop :=
  ∃ s1, CoreEq s s1 ∧ (s' = s1 ∨ Killed s1 c s')

theorem shape_one {s s1 : BState} {c : ConnId} (h : CoreEq s s1) : RAll (PlainShape s c) (.one s1) :=
  RAll_one ⟨s1, h, Or.inl rfl⟩

theorem shape_kill {s s1 : BState} {c : ConnId} (h : CoreEq s s1) : RAll (PlainShape s c) (kill s1 c) :=
  fun _ e _ hm => ⟨s1, h, Or.inr (kill_cases e hm)⟩

theorem publishThen_shape {s s0 : BState} {c : ConnId} {m : Message} {k : BState → Res}
    (h0 : CoreEq s0 s) (hk : ∀ s', CoreEq s0 s' → RAll (PlainShape s0 c) (k s')) :
    RAll (PlainShape s0 c) (publishThen s c m k) := by
  unfold publishThen
  split
  · rename_i s' h
    exact hk s' (h0.trans (CoreEq.of_publish_ok h))
  · rename_i s' h
    exact shape_kill (h0.trans (CoreEq.of_publish_full h))
  · exact RAll_unsupported _

theorem recv_plain_shape {s : BState} {c : ConnId} {p : Packet} (hp : Plain p) :
    RAll (PlainShape s c) (recv s c p) := by
  unfold recv
  split
  · exact RAll_unsupported _
  rename_i x hx
  split
  · exact shape_one (CoreEq.refl s)
  split
  · exact shape_one (CoreEq.refl s)
  · -- connecting
    split
    · exact (hp : False).elim
    · exact shape_kill (CoreEq.refl s)
  · -- connected
    split
    · -- subscribe
      rename_i subs id
      split
      · exact RAll_unsupported _
      simp only []
      have hc1 : CoreEq s (s.setConn c { x with subTok := x.subTok - 1 }) := CoreEq.of_setConn hx rfl
      split
      · exact RAll_unsupported _
      rename_i b hb
      have hc2 := hc1.trans (CoreEq.of_setSessOf hb (sview_foldl_sub subs b))
      have hc3 := hc2.trans (CoreEq.of_ackVia _ c (.suback (subs.map (·.qos)) id) (fun s => s)
        (fun s => CoreEq.refl s))
      split
      · rename_i s' h
        exact shape_one (hc3.trans (subscribeRetained_coreEq c subs _ s' false h))
      · rename_i s' h
        exact shape_kill (hc3.trans (subscribeRetained_coreEq c subs _ s' true h))
      · exact RAll_unsupported _
    · -- unsubscribe
      rename_i topics id
      split
      · exact RAll_unsupported _
      simp only []
      have hc1 : CoreEq s (s.setConn c { x with subTok := x.subTok - 1 }) := CoreEq.of_setConn hx rfl
      split
      · exact RAll_unsupported _
      rename_i b hb
      have hc2 := hc1.trans (CoreEq.of_setSessOf hb (sview_foldl_unsub topics b))
      exact shape_one (hc2.trans (CoreEq.of_ackVia _ c (.unsuback id) (fun s => s)
        (fun s => CoreEq.refl s)))
    · -- publish
      rename_i m dup id
      split
      · exact publishThen_shape (CoreEq.refl s) (fun s' h => shape_one h)
      split
      · exact RAll_unsupported _
      simp only []
      have hc1 : CoreEq s (s.setConn c { x with pubTok := x.pubTok - 1 }) := CoreEq.of_setConn hx rfl
      split
      · refine publishThen_shape hc1 (fun s' h => shape_one ?_)
        exact h.trans (CoreEq.of_ackVia _ c (.puback id) (fun s => s) (fun s => CoreEq.refl s))
      · split
        · exact RAll_unsupported _
        · rename_i b hb
          have hc2 := hc1.trans (CoreEq.of_setSessOf
            (b' := { b with sess := b.sess.savePacket .incoming (Packet.publish m dup id) }) hb rfl)
          exact shape_one (hc2.trans (CoreEq.of_updConn (fun _ => rfl)))
    · -- pubrel
      rename_i id
      split
      · exact RAll_unsupported _
      rename_i b hb
      split
      · rename_i m _ _ _
        refine publishThen_shape (CoreEq.refl s) (fun s' h => shape_one ?_)
        exact h.trans (CoreEq.of_ackVia _ c (.pubcomp id) (ackPre c (.pubcomp id))
          (fun s => CoreEq.of_ackPre s c _))
      · exact shape_one (CoreEq.of_updConn (fun _ => rfl))
    · exact (hp : False).elim
    · exact (hp : False).elim
    · exact (hp : False).elim
    · exact shape_one (CoreEq.of_updConn (fun _ => rfl))
    · exact shape_kill (CoreEq.of_setConn hx rfl)
    · exact shape_kill (CoreEq.refl s)

theorem PlainShape.grow {s : BState} {c : ConnId} {s' : BState} (h : PlainShape s c s') : SGrow1 s s' := by
  obtain ⟨s1, hc, rfl | hk⟩ := h
  · exact (SSame.of_coreEq hc).grow
  · exact SGrow1.before_same (SSame.of_coreEq hc) (kill_grow hk)

/-! ### the dequeuer -/

theorem finished_grow {s : BState} {c : ConnId} {x : BConn} {b bq : BSess} {m : Message} {id : UInt16}
    {s' : BState} (hb : s.sessOf c = some b) (hp : Pop b m bq) (hf : Finished s c x bq m id s') :
    SGrow1 s s' := by
  obtain ⟨e1, _, _⟩ := hp.frame
  rcases hf with ⟨_, _, rfl⟩ | ⟨_, hid, rfl⟩
  · unfold finishQ0
    exact (setSessOf_grow hb (Or.inl ⟨by rw [e1], by rw [e1]⟩)).after_same (fun _ b h => ⟨b, h, rfl, rfl⟩)
  · unfold finishQ12
    refine (setSessOf_grow hb (Or.inr (Or.inr ⟨m, ⟨by rw [← e1]; exact hid.1, ?_⟩, ?_⟩))).after_same
      (fun _ b h => ⟨b, h, rfl, rfl⟩)
    · simp only [savePacket_outgoing, MemorySession.freshID_outgoing, e1]
      rw [← hid.2, e1]
    · simp only [e1]; rfl

theorem acceptDelivery_grow {s : BState} {c : ConnId} {x : BConn} {b : BSess} {m : Message}
    {id : UInt16} {s' : BState} (hb : s.sessOf c = some b)
    (h : acceptDelivery s c x b m id = some s') : SGrow1 s s' := by
  obtain ⟨_, bq, hp, hf⟩ := acceptDelivery_cases h
  exact finished_grow hb hp hf

theorem observeSent_grow {s : BState} {c : ConnId} {p : Packet} {s' : BState}
    (h : observeSent s c p = some s') : SGrow1 s s' := by
  obtain ⟨x, hx, _, hs⟩ := observeSent_cases h
  cases hs with
  | proc rest _ e => rw [e]; exact (SSame.refl _).grow
  | ack rest _ e => rw [e]; exact (SSame.refl _).grow
  | deq m id b _ hb _ hd => exact acceptDelivery_grow hb hd

theorem mem_takeWhile_prop {α : Type} (p : α → Bool) (l : List α) (a : α) (h : a ∈ l.takeWhile p) :
    p a = true := by
  induction l with
  | nil => cases h
  | cons x l ih =>
    rw [List.takeWhile_cons] at h
    split at h
    · rename_i hx
      rcases List.mem_cons.1 h with rfl | h'
      · exact hx
      · exact ih h'
    · cases h

/-- what a pop does to the two queues -/
theorem Pop.queues {b bq : BSess} {m : Message} (h : Pop b m bq) :
    (∃ hd, b.storedQ = hd :: bq.storedQ ∧ applyQOS b hd = m ∧ bq.tempQ = b.tempQ) ∨
    (bq.storedQ = b.storedQ ∧ ∃ g m0 tl e, b.tempQ = (g, m0) :: tl ∧ e ∈ b.tempQ ∧ e.1 = g ∧
      applyQOS b e.2 = m ∧ bq.tempQ = b.tempQ.erase e) := by
  cases h with
  | stored hd rest hq ha => exact Or.inl ⟨hd, hq, ha, rfl⟩
  | temp g m0 tl e hq he ha =>
    refine Or.inr ⟨rfl, g, m0, tl, e, hq, (List.takeWhile_sublist _).subset he, ?_, ha, rfl⟩
    have := mem_takeWhile_prop _ _ _ he
    simpa using this

/-! ### entries kept — the transitive form -/

/-- every entry of the outgoing store of stored session `cid` is still there (a fresh delivery never
    takes a packet id that the store still uses) -/
def KeptAt (cid : ClientId) (s s' : BState) : Prop :=
  ∀ b k p, Assoc.get s.stored cid = some b → (k, p) ∈ b.sess.outgoing.entries →
    ∃ b', Assoc.get s'.stored cid = some b' ∧ (k, p) ∈ b'.sess.outgoing.entries

def Kept (s s' : BState) : Prop := ∀ cid, KeptAt cid s s'

theorem KeptAt.refl (cid : ClientId) (s : BState) : KeptAt cid s s :=
  fun b _ _ hb hm => ⟨b, hb, hm⟩

theorem KeptAt.trans {cid : ClientId} {s s' s'' : BState} (h : KeptAt cid s s') (h' : KeptAt cid s' s'') :
    KeptAt cid s s'' := by
  intro b k p hb hm
  obtain ⟨b', hb', hm'⟩ := h b k p hb hm
  exact h' b' k p hb' hm'

theorem SGrow1.keptAt {s s' : BState} (h : SGrow1 s s') (cid : ClientId) : KeptAt cid s s' := by
  intro b k p hb hm
  obtain ⟨b', hb', ht⟩ := h cid b hb
  exact ⟨b', hb', ht.kept hm⟩

theorem SGrow1.kept {s s' : BState} (h : SGrow1 s s') : Kept s s' := fun cid => h.keptAt cid

theorem Kept.trans {s s' s'' : BState} (h : Kept s s') (h' : Kept s' s'') : Kept s s'' :=
  fun cid => (h cid).trans (h' cid)

/-! ### a killed connection is closed -/

theorem lastDequeue_conn? {s : BState} {c : ConnId} {x : BConn} {s1 : BState}
    (h1 : s1 ∈ lastDequeue s c x) (c' : ConnId) : s1.conn? c' = s.conn? c' := by
  rcases lastDequeue_cases h1 with rfl | ⟨_, _, b, out, bq, _, _, rfl⟩
  · rfl
  · unfold lastTake; split <;> (try split) <;> simp

theorem killed_dead {s : BState} {c : ConnId} {s' : BState} (hk : Killed s c s') :
    ∀ x', s'.conn? c = some x' → x'.alive = false := by
  intro x' hx'
  cases hk with
  | noop h e =>
    subst e
    rcases h with h | ⟨x, hx, hd⟩
    · rw [h] at hx'; cases hx'
    · rw [hx] at hx'; cases hx'; exact hd
  | zombie x s1 _ _ _ _ e =>
    subst e
    rw [conn?_setConn_same] at hx'; cases hx'; rfl
  | dead x s1 s2 _ _ _ _ hw e =>
    have hc := CoreEq.of_will hw
    have hx2 : s2.conn? c = some x' := by
      subst e
      split at hx'
      · rw [terminate_conn?] at hx'; exact hx'
      · exact hx'
    obtain ⟨x1, hx1, hv⟩ := hc.symm.conn_some hx2
    rw [conn?_setConn_same] at hx1
    cases hx1
    exact (cview_eq hv).1.symm

/-! ### `setupAndConnack` decomposed -/

/-- the outcomes of `processConnect` after authentication -/
inductive SetupOutcome (s1 : BState) (c : ConnId) (x1 : BConn) (id : ClientId) (clean : Bool)
    (will : Option Message) (s' : BState) : Prop where
  | closing : s1.closing = true → Killed s1 c s' → SetupOutcome s1 c x1 id clean will s'
  | temp : s1.closing = false → id.length = 0 → s' = tempFinal s1 c x1 will →
      SetupOutcome s1 c x1 id clean will s'
  | takeoverFailed (s3 : BState) : s1.closing = false → id.length ≠ 0 →
      (existingOf s1 id = none ∧ s3 = s1 ∨ ∃ oc, existingOf s1 id = some oc ∧ Killed s1 oc s3) →
      takeoverFailed s3 (existingOf s1 id) = true → Killed s3 c s' →
      SetupOutcome s1 c x1 id clean will s'
  | done (s3 : BState) : s1.closing = false → id.length ≠ 0 →
      (existingOf s1 id = none ∧ s3 = s1 ∨ ∃ oc, existingOf s1 id = some oc ∧ Killed s1 oc s3) →
      takeoverFailed s3 (existingOf s1 id) = false → s' = afterTakeover s3 c x1 id clean will →
      SetupOutcome s1 c x1 id clean will s'

theorem setup_cases {s : BState} {c : ConnId} {x : BConn} {id : ClientId} {clean : Bool}
    {will : Option Message} {ss : List BState} {s' : BState}
    (h : setupAndConnack s c x id clean will = .ok ss) (hm : s' ∈ ss) :
    SetupOutcome (s.setConn c { x with phase := .connected, id := id }) c
      { x with phase := .connected, id := id } id clean will s' := by
  rw [setupAndConnack_eq] at h
  simp only [] at h
  generalize ({ x with phase := .connected, id := id } : BConn) = x1 at h ⊢
  generalize s.setConn c x1 = s1 at h ⊢
  split at h
  · rename_i hc
    exact SetupOutcome.closing hc (kill_cases h hm)
  rename_i hc
  simp only [Bool.not_eq_true] at hc
  split at h
  · rename_i hid
    simp only [Res.one, Res.ok.injEq] at h
    subst h
    exact SetupOutcome.temp hc hid (List.mem_singleton.1 hm)
  rename_i hid
  obtain ⟨ss0, e0, hmem⟩ := mem_bind h
  obtain ⟨s3, h3, ss1, e1, hs'⟩ := (hmem s').1 hm
  have hex : existingOf s1 id = none ∧ s3 = s1 ∨ ∃ oc, existingOf s1 id = some oc ∧ Killed s1 oc s3 := by
    split at e0
    · rename_i oc he
      exact Or.inr ⟨oc, he, kill_cases e0 h3⟩
    · rename_i he
      simp only [Res.one, Res.ok.injEq] at e0
      subst e0
      exact Or.inl ⟨he, List.mem_singleton.1 h3⟩
  split at e1
  · rename_i htf
    exact SetupOutcome.takeoverFailed s3 hc hid hex htf (kill_cases e1 hs')
  · rename_i htf
    simp only [Bool.not_eq_true] at htf
    simp only [Res.one, Res.ok.injEq] at e1
    subst e1
    exact SetupOutcome.done s3 hc hid hex htf (List.mem_singleton.1 hs')

/-! ### the configuration never changes -/

theorem killed_cfg {s : BState} {c : ConnId} {s' : BState} (hk : Killed s c s') : s'.cfg = s.cfg := by
  have ld : ∀ {x : BConn} {s1 : BState}, s1 ∈ lastDequeue s c x → s1.cfg = s.cfg := by
    intro x s1 h1
    rcases lastDequeue_cases h1 with rfl | ⟨_, _, b, out, bq, _, _, rfl⟩
    · rfl
    · unfold lastTake; split <;> (try split) <;> simp
  cases hk with
  | noop _ e => rw [e]
  | zombie x s1 _ _ h1 _ e => rw [e]; exact (ld h1 : s1.cfg = s.cfg)
  | dead x s1 s2 _ _ h1 _ hw e =>
    have h2 : s2.cfg = s.cfg := by rw [(CoreEq.of_will hw).cfg]; exact (ld h1 : s1.cfg = s.cfg)
    rw [e]
    split
    · rw [terminate_cfg]; exact h2
    · exact h2

theorem kill_cfg_RAll {s0 s : BState} (c : ConnId) (h : s.cfg = s0.cfg) :
    RAll (fun s' => s'.cfg = s0.cfg) (kill s c) :=
  fun _ e _ hm => (killed_cfg (kill_cases e hm)).trans h

theorem plainShape_cfg {s : BState} {c : ConnId} {s' : BState} (h : PlainShape s c s') : s'.cfg = s.cfg := by
  obtain ⟨s1, hc, rfl | hk⟩ := h
  · exact hc.cfg
  · rw [killed_cfg hk]; exact hc.cfg

theorem afterTakeover_cfg (s : BState) (c : ConnId) (x : BConn) (id : ClientId) (clean : Bool)
    (will : Option Message) : (afterTakeover s c x id clean will).cfg = s.cfg := by
  unfold afterTakeover
  split
  · rfl
  · split <;> rfl

theorem setupOutcome_cfg {s1 : BState} {c : ConnId} {x1 : BConn} {id : ClientId} {clean : Bool}
    {will : Option Message} {s' : BState} (h : SetupOutcome s1 c x1 id clean will s') :
    s'.cfg = s1.cfg := by
  have ex : ∀ {s3 : BState}, (existingOf s1 id = none ∧ s3 = s1 ∨
      ∃ oc, existingOf s1 id = some oc ∧ Killed s1 oc s3) → s3.cfg = s1.cfg := by
    intro s3 h3
    rcases h3 with ⟨_, rfl⟩ | ⟨oc, _, hk⟩
    · rfl
    · exact killed_cfg hk
  cases h with
  | closing _ hk => exact killed_cfg hk
  | temp _ _ e => rw [e]; rfl
  | takeoverFailed s3 _ _ h3 _ hk => rw [killed_cfg hk]; exact ex h3
  | done s3 _ _ h3 _ e => rw [e, afterTakeover_cfg]; exact ex h3

theorem recv_cfg {s : BState} {c : ConnId} {p : Packet} : RAll (fun s' => s'.cfg = s.cfg) (recv s c p) := by
  by_cases hp : Plain p
  · exact RAll_mono (recv_plain_shape hp) (fun _ h => plainShape_cfg h)
  · unfold recv
    split
    · exact RAll_unsupported _
    rename_i x hx
    split
    · exact RAll_one rfl
    split
    · exact RAll_one rfl
    · -- connecting
      split
      · rename_i id _ u pw clean will _
        simp only []
        split
        · exact kill_cfg_RAll c rfl
        split
        · exact kill_cfg_RAll c rfl
        · exact fun _ e _ hm => (setupOutcome_cfg (setup_cases e hm)).trans rfl
      · exact kill_cfg_RAll c rfl
    · -- connected
      split
      all_goals first
        | exact (hp trivial).elim
        | (split
           · exact RAll_unsupported _
           · refine RAll_one ?_
             simp)
        | exact kill_cfg_RAll c rfl

theorem killAll_cfg (l : List ConnId) : ∀ s : BState, RAll (fun s' => s'.cfg = s.cfg) (killAll s l) := by
  induction l with
  | nil => intro s; exact RAll_one rfl
  | cons c rest ih =>
    intro s
    refine RAll_bind (Q := fun s' => s'.cfg = s.cfg) (kill_cfg_RAll c rfl) ?_
    intro s1 h1
    exact RAll_mono (ih s1) (fun _ h => h.trans h1)

theorem stim_cfg {s : BState} {st : Stim} : RAll (fun s' => s'.cfg = s.cfg) (stim s st) := by
  cases st with
  | conn c => exact RAll_one rfl
  | send c p => exact recv_cfg
  | drop c => exact kill_cfg_RAll c rfl
  | ackRelease =>
    refine RAll_one ?_
    exact (ackRelease_coreEq s.pendingAcks s).cfg
  | backendClose => exact killAll_cfg _ _
  | stall c => exact RAll_one (updConn_cfg _ _ _)
  | unstall c =>
    simp only [stim]
    split
    · split
      · intro ss e s' hm
        obtain ⟨s1, hw, rfl⟩ := cleanup_cases e hm
        have := (CoreEq.of_will hw).cfg
        split
        · rw [terminate_cfg]; exact this
        · exact this
      · exact RAll_one rfl
    · exact RAll_unsupported _
  | tokenTimeout c =>
    simp only [stim]
    split
    · split
      · exact kill_cfg_RAll c rfl
      · exact RAll_unsupported _
    · exact RAll_unsupported _

theorem observeSent_cfg {s : BState} {c : ConnId} {p : Packet} {s' : BState}
    (h : observeSent s c p = some s') : s'.cfg = s.cfg := by
  obtain ⟨x, hx, _, hs⟩ := observeSent_cases h
  cases hs with
  | proc rest _ e => rw [e]; rfl
  | ack rest _ e => rw [e]; rfl
  | deq m id b _ hb _ hd =>
    obtain ⟨_, bq, _, hf⟩ := acceptDelivery_cases hd
    rcases hf with ⟨_, _, rfl⟩ | ⟨_, _, rfl⟩
    · simp [finishQ0]
    · simp [finishQ12]

theorem observe_cfg {s : BState} {o : Obs} {s' : BState} (h : s' ∈ observe s o) : s'.cfg = s.cfg := by
  cases o with
  | backend e =>
    simp only [observe] at h
    split at h
    · rw [List.mem_singleton.1 h]
    · cases h
  | closed c =>
    simp only [observe] at h
    split at h
    · split at h
      · rw [List.mem_singleton.1 h]; rfl
      · cases h
    · cases h
  | sent c p =>
    simp only [observe, Option.mem_toList] at h
    exact observeSent_cfg h
  | sendFail c p =>
    simp only [observe] at h
    split at h
    · rename_i s1 hs1
      split at h
      · rename_i ss hk
        obtain ⟨s2, hs2, rfl⟩ := List.mem_map.1 h
        rw [updConn_cfg, killed_cfg (kill_cases hk hs2)]
        exact observeSent_cfg hs1
      · cases h
    · cases h

theorem step_cfg {s s' : BState} (h : Step s s') : s'.cfg = s.cfg := by
  cases h with
  | stim st ss h hm => exact stim_cfg ss h s' hm
  | obs o hm => exact observe_cfg hm
  | ackMode l n => rfl

theorem reachable_cfg {cfg : Cfg} {s : BState} (h : Reachable cfg s) : s.cfg = cfg := by
  induction h with
  | init => rfl
  | step _ hs ih => rw [step_cfg hs]; exact ih

end BrokerB3
