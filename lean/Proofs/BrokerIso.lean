import Proofs.BrokerInv
import Proofs.SessionFresh
/-
  Proofs/BrokerIso.lean — exact effect of closing a connection (`kill`): backend events, sessions;
  isolation of `recv` (C14), hand-over of the session (C13).  Namespace `BrokerB4`.
-/
namespace BrokerB4
open BState

/-! ### the last dequeue of a dying connection -/

/-- what the dying dequeuer may still do to its own session: nothing, or take one message (head of
    the stored queue / a member of the first group of the temporary queue); a QoS > 0 message gets
    the next unused packet id (`freshID`) and is stored as outgoing — or is lost when no id is left —, a QoS 0
    message is lost -/
structure DeqStep (b b' : BSess) : Prop where
  subs : b'.subs = b.subs
  active : b'.active = b.active
  incoming : b'.sess.incoming = b.sess.incoming
  queues : (b'.storedQ = b.storedQ ∧ b'.tempQ = b.tempQ) ∨
           (∃ h, b.storedQ = h :: b'.storedQ ∧ b'.tempQ = b.tempQ) ∨
           (∃ e, e ∈ b.tempQ ∧ b'.tempQ = b.tempQ.erase e ∧ b'.storedQ = b.storedQ)
  sess : b'.sess = b.sess ∨ b'.sess = (b.sess.freshID).2 ∨
         ∃ out, (b.sess.freshID).1 ≠ 0 ∧
           b'.sess = (b.sess.freshID).2.savePacket .outgoing (.publish out false (b.sess.freshID).1)

theorem DeqStep.refl (b : BSess) : DeqStep b b := ⟨rfl, rfl, rfl, Or.inl ⟨rfl, rfl⟩, Or.inl rfl⟩

theorem savePacket_outgoing_incoming (ms : MemorySession) (p : Packet) :
    (ms.savePacket .outgoing p).incoming = ms.incoming := rfl

theorem nextID_incoming (ms : MemorySession) : (ms.nextID).2.incoming = ms.incoming := rfl

theorem lastDequeue_detail {s s1 : BState} {c : ConnId} {x : BConn} (h : s1 ∈ lastDequeue s c x) :
    s1 = s ∨ ∃ b b', s.sessOf c = some b ∧ DeqStep b b' ∧ s1 = s.setSessOf c b' := by
  unfold lastDequeue at h
  split at h
  · simp at h; exact Or.inl h
  · split at h
    · simp at h; exact Or.inl h
    · rename_i b hb
      simp only [List.mem_cons, List.mem_append] at h
      rcases h with h | h | h
      · exact Or.inl h
      · right
        split at h
        · rename_i hd rest hq
          simp only [List.mem_cons, List.not_mem_nil, or_false] at h
          split at h
          · refine ⟨b, _, hb, ?_, h⟩
            exact ⟨rfl, rfl, rfl, Or.inr (Or.inl ⟨hd, hq, rfl⟩), Or.inl rfl⟩
          · split at h
            · refine ⟨b, _, hb, ?_, h⟩
              exact ⟨rfl, rfl, MemorySession.freshID_incoming _, Or.inr (Or.inl ⟨hd, hq, rfl⟩), Or.inr (Or.inl rfl)⟩
            · rename_i hz
              refine ⟨b, _, hb, ?_, h⟩
              exact ⟨rfl, rfl, MemorySession.freshID_incoming _, Or.inr (Or.inl ⟨hd, hq, rfl⟩), Or.inr (Or.inr ⟨_, hz, rfl⟩)⟩
        · simp at h
      · right
        split at h
        · simp at h
        · simp only [List.mem_map] at h
          obtain ⟨e, hem, he⟩ := h
          have hem' : e ∈ b.tempQ := (List.takeWhile_sublist _).subset hem
          split at he
          · refine ⟨b, _, hb, ?_, he.symm⟩
            exact ⟨rfl, rfl, rfl, Or.inr (Or.inr ⟨e, hem', rfl, rfl⟩), Or.inl rfl⟩
          · split at he
            · refine ⟨b, _, hb, ?_, he.symm⟩
              exact ⟨rfl, rfl, MemorySession.freshID_incoming _, Or.inr (Or.inr ⟨e, hem', rfl, rfl⟩), Or.inr (Or.inl rfl)⟩
            · rename_i hz
              refine ⟨b, _, hb, ?_, he.symm⟩
              exact ⟨rfl, rfl, MemorySession.freshID_incoming _, Or.inr (Or.inr ⟨e, hem', rfl, rfl⟩), Or.inr (Or.inr ⟨_, hz, rfl⟩)⟩

/-! ### the exact effect of `kill` on a live connection -/

theorem kill_live_rule {P : BState → Prop} {s : BState} {d : ConnId} {x : BConn}
    (hc : s.conn? d = some x) (ha : x.alive = true)
    (h : ∀ s1, (s1 = s ∨ ∃ b b', s.sessOf d = some b ∧ DeqStep b b' ∧ s1 = s.setSessOf d b') →
      (x.stalled = true → P (s1.setConn d (zombieRec x))) ∧
      (x.stalled = false → RAll P (cleanup (s1.setConn d (deadRec x)) d x))) :
    RAll P (kill s d) := by
  unfold kill
  simp only [hc, ha, Bool.not_true, Bool.false_eq_true, if_false]
  apply RAll_bind (Q := fun s1 => s1 = s ∨ ∃ b b', s.sessOf d = some b ∧ DeqStep b b' ∧ s1 = s.setSessOf d b')
  · intro s1 hs1; exact lastDequeue_detail hs1
  · intro s1 hs1
    have := h s1 hs1
    by_cases hst : x.stalled = true
    · rw [if_pos hst]; exact RAll_one.2 (this.1 hst)
    · rw [if_neg hst]; exact this.2 (by simpa using hst)

theorem sessExt_orefl (o : Option BSess) : ORel SessExt o o := ORel.refl SessExt.refl o

theorem sessExt_otrans {o1 o2 o3 : Option BSess} (h1 : ORel SessExt o1 o2) (h2 : ORel SessExt o2 o3) :
    ORel SessExt o1 o3 := ORel.trans (R := SessExt) (fun _ _ _ h1 h2 => SessExt.trans h1 h2) h1 h2

/-- everything `kill` does besides the connection records, for a live connection `d` with record `x` -/
structure KillEff (s : BState) (d : ConnId) (x : BConn) (s' : BState) : Prop where
  cfg : s'.cfg = s.cfg
  closing : s'.closing = s.closing
  bevents : s'.bevents = s.bevents ++ (if x.stalled then [] else willEvents d x ++ termEvents d x)
  storedO : ∀ k, x.sref ≠ .stored k → ORel SessExt (Assoc.get s.stored k) (Assoc.get s'.stored k)
  tempO : ∀ k, k ≠ d → ORel SessExt (Assoc.get s.temp k) (Assoc.get s'.temp k)
  storedOwn : ∀ i b, x.sref = .stored i → Assoc.get s.stored i = some b →
      ∃ b1 b2, DeqStep b b1 ∧ SessExt b1 b2 ∧
        Assoc.get s'.stored i =
          some (if x.stalled = false ∧ x.phase ≠ .connecting then { b2 with active := none } else b2)

/-- the state after the last dequeue -/
structure AfterDeq (s : BState) (d : ConnId) (x : BConn) (s1 : BState) : Prop where
  cfg : s1.cfg = s.cfg
  closing : s1.closing = s.closing
  bevents : s1.bevents = s.bevents
  conns : s1.conns = s.conns
  storedO : ∀ k, x.sref ≠ .stored k → Assoc.get s1.stored k = Assoc.get s.stored k
  tempO : ∀ k, k ≠ d → Assoc.get s1.temp k = Assoc.get s.temp k
  storedOwn : ∀ i b, x.sref = .stored i → Assoc.get s.stored i = some b →
      ∃ b1, DeqStep b b1 ∧ Assoc.get s1.stored i = some b1

theorem afterDeq {s s1 : BState} {d : ConnId} {x : BConn} (hc : s.conn? d = some x)
    (h : s1 = s ∨ ∃ b b', s.sessOf d = some b ∧ DeqStep b b' ∧ s1 = s.setSessOf d b') : AfterDeq s d x s1 := by
  rcases h with h | ⟨b, b', hb, hd, h⟩
  · subst h
    exact ⟨rfl, rfl, rfl, rfl, fun _ _ => rfl, fun _ _ => rfl, fun i b _ hb => ⟨b, DeqStep.refl b, hb⟩⟩
  · subst h
    rw [sessOf_of_conn hc] at hb
    refine ⟨by simp, by simp, by simp, by simp, ?_, ?_, ?_⟩
    · intro k hk
      rw [setSessOf_of_conn hc]
      cases hr : x.sref with
      | none => rfl
      | temp => rfl
      | stored i =>
        simp only []
        rw [get_set_other]; intro hki; exact hk (by rw [hr, hki])
    · intro k hk
      rw [setSessOf_of_conn hc]
      cases hr : x.sref with
      | none => rfl
      | temp => simp only []; rw [get_set_other _ _ _ _ hk]
      | stored i => rfl
    · intro i b0 hr hb0
      rw [hr] at hb; simp only at hb
      rw [hb0] at hb; cases hb
      refine ⟨b', hd, ?_⟩
      rw [setSessOf_of_conn hc, hr]; simp only []
      exact get_set_same _ _ _

theorem kill_eff {s : BState} {d : ConnId} {x : BConn} (hc : s.conn? d = some x) (ha : x.alive = true) :
    RAll (KillEff s d x) (kill s d) := by
  apply kill_live_rule hc ha
  intro s1 hs1
  have a1 := afterDeq hc hs1
  constructor
  · intro hst
    refine ⟨a1.cfg, a1.closing, by simp [hst, a1.bevents], ?_, ?_, ?_⟩
    · intro k hk; show ORel SessExt _ (Assoc.get s1.stored k); rw [a1.storedO k hk]; exact sessExt_orefl _
    · intro k hk; show ORel SessExt _ (Assoc.get s1.temp k); rw [a1.tempO k hk]; exact sessExt_orefl _
    · intro i b hr hb
      obtain ⟨b1, hd, hb1⟩ := a1.storedOwn i b hr hb
      refine ⟨b1, b1, hd, SessExt.refl _, ?_⟩
      rw [if_neg (by simp [hst])]; exact hb1
  · intro hst
    apply cleanup_rule
    intro s2 hq hbev hcn
    have q := hq (fun _ => False)
    have hc2 : s2.conn? d = some (deadRec x) := by rw [conn?_of_conns hcn]; simp
    have st2 : ∀ k, ORel SessExt (Assoc.get s1.stored k) (Assoc.get s2.stored k) := by
      intro k; exact ORel.mono (fun _ _ h => h.2 (fun hf => hf)) (q.stored k)
    unfold termIf
    by_cases hph : x.phase ≠ .connecting
    · rw [if_pos hph]
      refine ⟨by rw [bt_cfg, q.cfg]; exact a1.cfg, by rw [bt_closing, q.closing]; exact a1.closing, ?_, ?_, ?_, ?_⟩
      · rw [bt_bevents, hbev]; simp [hst, termEvents, hph, a1.bevents]
      · intro k hk
        rw [bt_stored_get hc2, if_neg (by simpa [deadRec] using hk)]
        have := st2 k; rw [a1.storedO k hk] at this; exact this
      · intro k hk
        rw [bt_temp_get, if_neg hk]
        have := ORel.mono (fun _ _ h => h.2 hk) (q.temp k)
        simp only [setConn_temp] at this
        rw [a1.tempO k hk] at this; exact this
      · intro i b hr hb
        obtain ⟨b1, hd, hb1⟩ := a1.storedOwn i b hr hb
        have := st2 i; rw [hb1] at this
        obtain ⟨b2, hb2, he⟩ := this.some_left
        refine ⟨b1, b2, hd, he, ?_⟩
        rw [bt_stored_get hc2, if_pos (by simpa [deadRec] using hr), hb2, if_pos ⟨hst, hph⟩]; rfl
    · rw [if_neg hph]
      refine ⟨by rw [q.cfg]; exact a1.cfg, by rw [q.closing]; exact a1.closing, ?_, ?_, ?_, ?_⟩
      · rw [hbev]; simp [hst, termEvents, hph, a1.bevents]
      · intro k hk
        have := st2 k; rw [a1.storedO k hk] at this; exact this
      · intro k hk
        have := ORel.mono (fun _ _ h => h.2 hk) (q.temp k)
        simp only [setConn_temp] at this
        rw [a1.tempO k hk] at this; exact this
      · intro i b hr hb
        obtain ⟨b1, hd, hb1⟩ := a1.storedOwn i b hr hb
        have := st2 i; rw [hb1] at this
        obtain ⟨b2, hb2, he⟩ := this.some_left
        refine ⟨b1, b2, hd, he, ?_⟩
        rw [hb2, if_neg (by intro hh; exact hph hh.2)]

/-! ### sessions of other clients only grow at their queue tails -/

/-- sessions outside the exempt key sets `ES` (stored) / `ET` (temporary) are still there, with the
    same subscriptions, packet stores and owner; their queues may have grown at the tail -/
def SessFrame (ES : ClientId → Prop) (ET : ConnId → Prop) (s s' : BState) : Prop :=
  (∀ k, ¬ES k → ORel SessExt (Assoc.get s.stored k) (Assoc.get s'.stored k)) ∧
  (∀ k, ¬ET k → ORel SessExt (Assoc.get s.temp k) (Assoc.get s'.temp k))

theorem SessFrame.refl (ES : ClientId → Prop) (ET : ConnId → Prop) (s : BState) : SessFrame ES ET s s :=
  ⟨fun _ _ => sessExt_orefl _, fun _ _ => sessExt_orefl _⟩

theorem SessFrame.of_eq {ES : ClientId → Prop} {ET : ConnId → Prop} {s s' : BState}
    (h1 : s'.stored = s.stored) (h2 : s'.temp = s.temp) : SessFrame ES ET s s' := by
  refine ⟨fun k _ => ?_, fun k _ => ?_⟩
  · rw [h1]; exact sessExt_orefl _
  · rw [h2]; exact sessExt_orefl _

theorem SessFrame.trans {ES : ClientId → Prop} {ET : ConnId → Prop} {s1 s2 s3 : BState}
    (h1 : SessFrame ES ET s1 s2) (h2 : SessFrame ES ET s2 s3) : SessFrame ES ET s1 s3 :=
  ⟨fun k hk => sessExt_otrans (h1.1 k hk) (h2.1 k hk), fun k hk => sessExt_otrans (h1.2 k hk) (h2.2 k hk)⟩

theorem SessFrame.mono {ES ES' : ClientId → Prop} {ET ET' : ConnId → Prop} {s s' : BState}
    (h : SessFrame ES ET s s') (hs : ∀ k, ES k → ES' k) (ht : ∀ k, ET k → ET' k) : SessFrame ES' ET' s s' :=
  ⟨fun k hk => h.1 k (fun hh => hk (hs k hh)), fun k hk => h.2 k (fun hh => hk (ht k hh))⟩

theorem Quiet.sessFrame {c : ConnId} {S : ClientId → Prop} {s s' : BState} (h : Quiet c S s s') :
    SessFrame S (fun k => k = c) s s' :=
  ⟨fun k hk => ORel.mono (fun _ _ hh => hh.2 hk) (h.stored k),
   fun k hk => ORel.mono (fun _ _ hh => hh.2 hk) (h.temp k)⟩

/-- the stored-session key connection `d` refers to -/
def ownKey (s : BState) (d : ConnId) (k : ClientId) : Prop := ∃ x, s.conn? d = some x ∧ x.sref = .stored k

theorem kill_sessFrame (s : BState) (d : ConnId) :
    RAll (SessFrame (ownKey s d) (fun k => k = d) s) (kill s d) := by
  cases hc : s.conn? d with
  | none => unfold kill; simp only [hc]; exact RAll_one.2 (SessFrame.refl _ _ _)
  | some x =>
    cases ha : x.alive with
    | false => unfold kill; simp only [hc, ha, Bool.not_false, if_true]; exact RAll_one.2 (SessFrame.refl _ _ _)
    | true =>
      refine RAll_mono (kill_eff hc ha) (fun s' he => ⟨fun k hk => he.storedO k ?_, fun k hk => he.tempO k hk⟩)
      intro hh; exact hk ⟨x, hc, hh⟩

theorem ownKey_of_conn {s s' : BState} {d : ConnId} (h : s'.conn? d = s.conn? d) (k : ClientId) :
    ownKey s' d k ↔ ownKey s d k := by
  unfold ownKey; rw [h]

/-- `kill` never changes a session reference -/
theorem KillConns.sref {s s' : BState} {d : ConnId} (hk : KillConns s d s') (e : ConnId) (k : ClientId) :
    ownKey s' e k ↔ ownKey s e k := by
  by_cases he : e = d
  · subst he
    unfold ownKey
    cases hx : s.conn? e with
    | none => rw [hk.absent hx]
    | some x =>
      cases ha : x.alive with
      | false => rw [hk.dead x hx ha]
      | true =>
        rw [hk.live x hx ha]
        constructor
        · rintro ⟨y, hy, hs⟩; cases hy
          refine ⟨x, rfl, ?_⟩
          split at hs <;> exact hs
        · rintro ⟨y, hy, hs⟩; cases hy
          refine ⟨_, rfl, ?_⟩
          split <;> exact hs
  · exact ownKey_of_conn (hk.other e he) k

/-- the exempt stored sessions of a received packet: the sender's own, and for a CONNECT the one of
    the presented client id and the one the old holder refers to -/
def exemptStored (s : BState) (c : ConnId) (p : Packet) (k : ClientId) : Prop :=
  ownKey s c k ∨
  ∃ id ka u pw clean will v, p = .connect id ka u pw clean will v ∧
    (k = id ∨ ∃ oc, holder s id = some oc ∧ ownKey s oc k)

/-- the exempt temporary sessions: the sender's own and the one of the old holder -/
def exemptTemp (s : BState) (c : ConnId) (p : Packet) (k : ConnId) : Prop :=
  k = c ∨ ∃ id ka u pw clean will v, p = .connect id ka u pw clean will v ∧ holder s id = some k

theorem takeOver_sessFrame {s1 s2 : BState} {id : ClientId} (h : TakeOver s1 id s2) :
    SessFrame (fun k => ∃ oc, holder s1 id = some oc ∧ ownKey s1 oc k) (fun k => holder s1 id = some k) s1 s2 := by
  unfold TakeOver at h
  cases ho : holder s1 id with
  | none => rw [ho] at h; simp only at h; subst h; exact SessFrame.refl _ _ _
  | some oc =>
    rw [ho] at h; simp only at h
    refine (RAll_of_RMem (kill_sessFrame s1 oc) h).mono (fun k hk => ⟨oc, rfl, hk⟩) (fun k hk => by rw [hk])

theorem installNamed_sessFrame (s2 : BState) (c : ConnId) (x1 : BConn) (id : ClientId) (clean : Bool)
    (will : Option Message) :
    SessFrame (fun k => k = id) (fun k => k = c) s2 (installNamed s2 c x1 id clean will) := by
  unfold installNamed
  split
  · refine ⟨fun k hk => ?_, fun k hk => ?_⟩
    · rw [installClean_stored, get_del_other _ _ _ hk]; exact sessExt_orefl _
    · rw [installClean_temp, get_set_other _ _ _ _ hk]; exact sessExt_orefl _
  · split
    · refine ⟨fun k hk => ?_, fun k hk => ?_⟩
      · rw [installResume_stored, get_set_other _ _ _ _ hk]; exact sessExt_orefl _
      · rw [installResume_temp]; exact sessExt_orefl _
    · refine ⟨fun k hk => ?_, fun k hk => ?_⟩
      · rw [installFresh_stored, get_set_other _ _ _ _ hk]; exact sessExt_orefl _
      · rw [installFresh_temp]; exact sessExt_orefl _

theorem recv_sessions (s : BState) (c : ConnId) (p : Packet) :
    RAll (SessFrame (exemptStored s c p) (exemptTemp s c p) s) (recv s c p) := by
  apply recv_rule
  · intro _ _ _; exact SessFrame.refl _ _ _
  · intro _ _ _ _ _
    exact RAll_mono (kill_sessFrame s c) (fun s' h => h.mono (fun k hk => Or.inl hk) (fun k hk => Or.inl hk))
  · intro x id ka u pw clean will v hc ha hp hpk
    -- the record of `c` has no session reference that matters: exempt anyway
    have own1 : ∀ (y : BConn) k, y.sref = x.sref → ownKey (s.setConn c y) c k → exemptStored s c p k := by
      intro y k hy ⟨z, hz, hs⟩
      simp only [conn?_setConn, if_true] at hz; cases hz
      exact Or.inl ⟨x, hc, hy ▸ hs⟩
    have fr1 : ∀ (y : BConn), SessFrame (exemptStored s c p) (exemptTemp s c p) s (s.setConn c y) :=
      fun y => SessFrame.of_eq rfl rfl
    have kl : ∀ (y : BConn), y.sref = x.sref →
        RAll (SessFrame (exemptStored s c p) (exemptTemp s c p) s) (kill (s.setConn c y) c) := by
      intro y hy
      exact RAll_mono (kill_sessFrame _ c) (fun s' h =>
        (fr1 y).trans (h.mono (fun k hk => own1 y k hy hk) (fun k hk => Or.inl hk)))
    refine ⟨fun _ => kl _ rfl, fun _ _ => ?_, fun _ _ => ?_⟩
    · refine RAll_mono (kill_sessFrame _ c) (fun s' h => ?_)
      refine (SessFrame.of_eq (s' := (s.setConn c { x with id := id }).setConn c
        { x with id := id, procOut := x.procOut ++ [.connack false 5] }) rfl rfl).trans
        (h.mono ?_ (fun k hk => Or.inl hk))
      rintro k ⟨z, hz, hs⟩
      simp only [conn?_setConn, if_true] at hz; cases hz
      exact Or.inl ⟨x, hc, hs⟩
    · refine RAll_mono (setup_shape _ c _ id clean will) (fun s' hs => ?_)
      have hol : ∀ y, holder (s.setConn c y) id = holder s id := fun _ => rfl
      have ex2 : ∀ k, (∃ oc, holder ((s.setConn c { x with id := id }).setConn c (acceptedRec { x with id := id } id)) id = some oc ∧
          ownKey ((s.setConn c { x with id := id }).setConn c (acceptedRec { x with id := id } id)) oc k) → exemptStored s c p k := by
        rintro k ⟨oc, ho, z, hz, hs⟩
        by_cases hoc : oc = c
        · subst hoc
          simp only [conn?_setConn, if_true] at hz; cases hz
          exact Or.inl ⟨x, hc, hs⟩
        · simp only [conn?_setConn, hoc, if_false] at hz
          exact Or.inr ⟨id, ka, u, pw, clean, will, v, hpk, Or.inr ⟨oc, ho, z, hz, hs⟩⟩
      have et2 : ∀ k, holder ((s.setConn c { x with id := id }).setConn c (acceptedRec { x with id := id } id)) id = some k →
          exemptTemp s c p k := fun k hk => Or.inr ⟨id, ka, u, pw, clean, will, v, hpk, hk⟩
      have fr0 : SessFrame (exemptStored s c p) (exemptTemp s c p) s
          ((s.setConn c { x with id := id }).setConn c (acceptedRec { x with id := id } id)) := SessFrame.of_eq rfl rfl
      cases hs with
      | closing _ hm =>
        refine fr0.trans ((RAll_of_RMem (kill_sessFrame _ c) hm).mono ?_ (fun k hk => Or.inl hk))
        rintro k ⟨z, hz, hs⟩
        simp only [conn?_setConn, if_true] at hz; cases hz
        exact Or.inl ⟨x, hc, hs⟩
      | anon _ _ he =>
        subst he
        refine fr0.trans ⟨fun k _ => ?_, fun k hk => ?_⟩
        · rw [installAnon_stored]; exact sessExt_orefl _
        · rw [installAnon_temp, get_set_other _ _ _ _ (fun h => hk (Or.inl h))]; exact sessExt_orefl _
      | refused s2 _ _ hto _ hm =>
        have f1 := (takeOver_sessFrame hto).mono ex2 et2
        have hk2 := takeOver_conns hto
        refine (fr0.trans f1).trans ((RAll_of_RMem (kill_sessFrame s2 c) hm).mono ?_ (fun k hk => Or.inl hk))
        intro k hk
        -- the session reference of `c` is still the one it had
        have : ownKey ((s.setConn c { x with id := id }).setConn c (acceptedRec { x with id := id } id)) c k := by
          split at hk2
          · rename_i oc _; exact (hk2.sref c k).1 hk
          · rw [hk2] at hk; exact hk
        obtain ⟨z, hz, hs⟩ := this
        simp only [conn?_setConn, if_true] at hz; cases hz
        exact Or.inl ⟨x, hc, hs⟩
      | installed s2 _ _ hto _ he =>
        subst he
        have f1 := (takeOver_sessFrame hto).mono ex2 et2
        refine (fr0.trans f1).trans ((installNamed_sessFrame s2 c _ id clean will).mono ?_ (fun k hk => Or.inl hk))
        intro k hk
        exact Or.inr ⟨id, ka, u, pw, clean, will, v, hpk, Or.inl hk⟩
  · intro x hc ha hp _
    refine RAll_mono (kill_sessFrame _ c) (fun s' h => ?_)
    refine (SessFrame.of_eq (s' := s.setConn c { x with will := none, phase := .disconnected }) rfl rfl).trans
      (h.mono ?_ (fun k hk => Or.inl hk))
    rintro k ⟨z, hz, hs⟩
    simp only [conn?_setConn, if_true] at hz; cases hz
    exact Or.inl ⟨x, hc, hs⟩
  · intro x hc ha hp _ s' ⟨s1, hq, hs'⟩
    have f1 : SessFrame (exemptStored s c p) (exemptTemp s c p) s s1 :=
      hq.sessFrame.mono (fun k hk => Or.inl ⟨x, hc, hk⟩) (fun k hk => Or.inl hk)
    rcases hs' with hs' | hs'
    · rw [hs']; exact f1
    · refine f1.trans ((RAll_of_RMem (kill_sessFrame s1 c) hs').mono ?_ (fun k hk => Or.inl hk))
      rintro k ⟨z, hz, hs⟩
      have := hq.connC; rw [hc, hz] at this
      exact Or.inl ⟨x, hc, (core_eq_iff.1 this).2.2.2.1 ▸ hs⟩

/-! ### the installed state (C13) -/

theorem installNamed_conn (s2 : BState) (c : ConnId) (x1 : BConn) (id : ClientId) (clean : Bool)
    (will : Option Message) :
    ∃ x0 sr sp, InstRec x1 x0 sr will sp ∧ sr ≠ .none ∧
      ∀ e, (installNamed s2 c x1 id clean will).conn? e = if e = c then some x0 else s2.conn? e := by
  unfold installNamed
  split
  · exact ⟨_, _, _, instRec_started s2.cfg x1 .temp will, by simp, installClean_conn _ _ _ _ _⟩
  · split
    · rename_i b _
      exact ⟨_, _, _, instRec_resumed s2.cfg x1 id will b c, by simp, installResume_conn _ _ _ _ _ _⟩
    · exact ⟨_, _, _, instRec_started s2.cfg x1 (.stored id) will, by simp, installFresh_conn _ _ _ _ _⟩

theorem installNamed_bevents (s2 : BState) (c : ConnId) (x1 : BConn) (id : ClientId) (clean : Bool)
    (will : Option Message) :
    (installNamed s2 c x1 id clean will).bevents =
      s2.bevents ++ [BEvent.setup c (!clean && (Assoc.get s2.stored id).isSome)] := by
  unfold installNamed
  split
  · rename_i h; rw [installClean_bevents]; simp [h]
  · rename_i h
    split
    · rename_i b hb; rw [installResume_bevents]; simp [h, hb]
    · rename_i hb; rw [installFresh_bevents]; simp [hb]

/-- the stored session for `id` after an unclean `Setup`: the old one handed over (`resumedSess`) or a
    new one -/
theorem installNamed_stored_unclean (s2 : BState) (c : ConnId) (x1 : BConn) (id : ClientId)
    (will : Option Message) :
    Assoc.get (installNamed s2 c x1 id false will).stored id =
      some (match Assoc.get s2.stored id with
            | some b => resumedSess b c
            | none => newSess c) := by
  unfold installNamed
  simp only [Bool.false_eq_true, if_false]
  cases hb : Assoc.get s2.stored id with
  | some b => simp only []; rw [installResume_stored, get_set_same]
  | none => simp only []; rw [installFresh_stored, get_set_same]

/-- after a clean `Setup` the stored session is gone and the newcomer has a new temporary one -/
theorem installNamed_stored_clean (s2 : BState) (c : ConnId) (x1 : BConn) (id : ClientId)
    (will : Option Message) :
    Assoc.get (installNamed s2 c x1 id true will).stored id = none ∧
    Assoc.get (installNamed s2 c x1 id true will).temp c = some (newSess c) := by
  unfold installNamed
  simp only [if_true]
  exact ⟨by rw [installClean_stored, get_del_same], by rw [installClean_temp, get_set_same]⟩

/-- after `Setup` the newcomer is the holder of the session for `id` -/
theorem installNamed_holder (s2 : BState) (c : ConnId) (x1 : BConn) (id : ClientId) (clean : Bool)
    (will : Option Message) : holder (installNamed s2 c x1 id clean will) id = some c := by
  unfold installNamed
  cases clean with
  | true =>
    simp only [if_true]
    unfold holder
    rw [installClean_stored, get_del_same, installClean_ac, get_set_same, installClean_temp]
    simp only [get_set_same]
    rfl
  | false =>
    simp only [Bool.false_eq_true, if_false]
    cases hb : Assoc.get s2.stored id with
    | some b => simp only []; unfold holder; rw [installResume_stored, get_set_same]; rfl
    | none => simp only []; unfold holder; rw [installFresh_stored, get_set_same]; rfl

/-! ### a CONNECT wins (C13 `one_winner`) -/

/-- nobody's goroutines are held up -/
def NoStall (s : BState) : Prop := ∀ c x, s.conn? c = some x → x.stalled = false ∧ x.zombie = false

theorem kill_closing_cfg (s : BState) (d : ConnId) :
    RAll (fun s' => s'.closing = s.closing ∧ s'.cfg = s.cfg) (kill s d) := by
  apply kill_rule
  · intro _; exact ⟨rfl, rfl⟩
  · intro _ _ _; exact ⟨rfl, rfl⟩
  · intro x _ _ s1 hq _ _
    have q1 := hq (fun _ => True) (fun _ _ => trivial)
    constructor
    · intro _; exact ⟨q1.closing, q1.cfg⟩
    · intro _
      apply cleanup_rule
      intro s2 hq2 _ _
      have q2 := hq2 (fun _ => True)
      unfold termIf
      split
      · exact ⟨by rw [bt_closing, q2.closing]; exact q1.closing, by rw [bt_cfg, q2.cfg]; exact q1.cfg⟩
      · exact ⟨by rw [q2.closing]; exact q1.closing, by rw [q2.cfg]; exact q1.cfg⟩

theorem installNamed_closing_cfg (s2 : BState) (c : ConnId) (x1 : BConn) (id : ClientId) (clean : Bool)
    (will : Option Message) :
    (installNamed s2 c x1 id clean will).closing = s2.closing ∧ (installNamed s2 c x1 id clean will).cfg = s2.cfg := by
  unfold installNamed
  split
  · exact ⟨rfl, rfl⟩
  · split <;> exact ⟨rfl, rfl⟩

/-- what a successful CONNECT leaves behind -/
structure Wins (s : BState) (c : ConnId) (id : ClientId) (s' : BState) : Prop where
  winner : ∃ x', s'.conn? c = some x' ∧ x'.alive = true ∧ x'.phase = .connected ∧ x'.id = id
  holder : holder s' id = some c
  noStall : NoStall s'
  closing : s'.closing = false
  cfg : s'.cfg = s.cfg
  others : ∀ e, e ≠ c → BrokerB4.holder s id ≠ some e → s'.conn? e = s.conn? e
  old : ∀ e, e ≠ c → BrokerB4.holder s id = some e → ∀ y, s'.conn? e = some y → y.alive = false

theorem authenticate_cfg {s s' : BState} (h : s'.cfg = s.cfg) (u pw : Bytes) :
    authenticate s' u pw = authenticate s u pw := by
  unfold BState.authenticate; rw [h]

/-- a CONNECT with a non-empty id by a fresh connection that passes authentication, nobody stalled, the
    backend not closing: the newcomer is connected afterwards and holds the session, the old holder is
    closed, nobody else is touched -/
theorem connect_wins {s : BState} {c : ConnId} {x : BConn} {id : ClientId} (ka : UInt16) (u pw : Bytes)
    (clean : Bool) (will : Option Message) (v : UInt8)
    (hc : s.conn? c = some x) (ha : x.alive = true) (hp : x.phase = .connecting) (hid : id ≠ [])
    (hcl : s.closing = false) (hauth : authenticate s u pw = true) (hns : NoStall s)
    (hnh : holder s id ≠ some c) :
    RAll (Wins s c id) (recv s c (.connect id ka u pw clean will v)) := by
  have hrecv : recv s c (.connect id ka u pw clean will v) =
      setupAndConnack (s.setConn c { x with id := id }) c { x with id := id } id clean will := by
    unfold recv
    simp only [hc, ha, hp, Bool.not_true, Bool.false_eq_true, if_false]
    have h1 : (s.setConn c { x with id := id }).closing = false := hcl
    have h2 : authenticate (s.setConn c { x with id := id }) u pw = true := hauth
    rw [ha, hp] at h1 h2
    simp only [h1, h2, Bool.not_true, Bool.false_eq_true, if_false]
  rw [hrecv]
  refine RAll_mono (setup_shape _ c _ id clean will) (fun s' hs => ?_)
  -- the state in which `Setup` starts
  have e1 : ∀ e, e ≠ c →
      ((s.setConn c { x with id := id }).setConn c (acceptedRec { x with id := id } id)).conn? e = s.conn? e := by
    intro e he; simp [he]
  have hol : holder ((s.setConn c { x with id := id }).setConn c (acceptedRec { x with id := id } id)) id = holder s id := rfl
  cases hs with
  | closing h _ => rw [setConn_closing, setConn_closing, hcl] at h; cases h
  | anon _ hlen _ => exact absurd (List.eq_nil_of_length_eq_zero hlen) hid
  | refused s2 _ _ hto hst _ =>
    exfalso
    have hk := takeOver_conns hto
    rw [hol] at hk hst
    cases ho : holder s id with
    | none => rw [ho] at hst; simp [stuck] at hst
    | some oc =>
      rw [ho] at hk hst; simp only at hk
      have hoc : oc ≠ c := fun h => hnh (by rw [ho, h])
      simp only [stuck] at hst
      cases hx : s.conn? oc with
      | none => rw [hk.absent (by rw [e1 oc hoc]; exact hx)] at hst; simp at hst
      | some xo =>
        obtain ⟨n1, n2⟩ := hns oc xo hx
        cases hal : xo.alive with
        | false => rw [hk.dead xo (by rw [e1 oc hoc]; exact hx) hal] at hst; simp [n2] at hst
        | true => rw [hk.live xo (by rw [e1 oc hoc]; exact hx) hal] at hst; simp [n1, deadRec, n2] at hst
  | installed s2 _ _ hto _ he =>
    subst he
    obtain ⟨x0, sr, sp, hr, _, hconn⟩ := installNamed_conn s2 c (acceptedRec { x with id := id } id) id clean will
    have hk := takeOver_conns hto
    have hcc : s2.closing = false ∧ s2.cfg = s.cfg := by
      unfold TakeOver at hto
      split at hto
      · have := RAll_of_RMem (kill_closing_cfg _ _) hto
        exact ⟨by rw [this.1]; exact hcl, by rw [this.2]; rfl⟩
      · rw [hto]; exact ⟨hcl, rfl⟩
    rw [hol] at hk
    refine ⟨⟨x0, by rw [hconn, if_pos rfl], by rw [hr.alive]; exact ha, hr.phase, hr.id⟩,
      installNamed_holder _ _ _ _ _ _, ?_,
      by rw [(installNamed_closing_cfg _ _ _ _ _ _).1]; exact hcc.1,
      by rw [(installNamed_closing_cfg _ _ _ _ _ _).2]; exact hcc.2, ?_, ?_⟩
    · -- nobody stalled afterwards
      intro e y hy
      rw [hconn] at hy
      split at hy
      · cases hy
        obtain ⟨n1, n2⟩ := hns c x hc
        exact ⟨by rw [hr.stalled]; exact n1, by rw [hr.zombie]; exact n2⟩
      · rename_i hec
        cases ho : holder s id with
        | none => rw [ho] at hk; simp only at hk; rw [hk, e1 e hec] at hy; exact hns e y hy
        | some oc =>
          rw [ho] at hk; simp only at hk
          by_cases heo : e = oc
          · subst heo
            cases hx : s.conn? e with
            | none => rw [hk.absent (by rw [e1 e hec]; exact hx)] at hy; cases hy
            | some xo =>
              obtain ⟨n1, n2⟩ := hns e xo hx
              cases hal : xo.alive with
              | false => rw [hk.dead xo (by rw [e1 e hec]; exact hx) hal] at hy; cases hy; exact ⟨n1, n2⟩
              | true =>
                rw [hk.live xo (by rw [e1 e hec]; exact hx) hal] at hy; cases hy
                simp [n1, deadRec, n2]
          · rw [hk.other e heo, e1 e hec] at hy; exact hns e y hy
    · intro e hec hne
      rw [hconn, if_neg hec]
      cases ho : holder s id with
      | none => rw [ho] at hk; simp only at hk; rw [hk, e1 e hec]
      | some oc =>
        rw [ho] at hk; simp only at hk
        have heo : e ≠ oc := fun h => hne (by rw [ho, h])
        rw [hk.other e heo, e1 e hec]
    · intro e hec hho y hy
      rw [hconn, if_neg hec] at hy
      rw [hho] at hk; simp only at hk
      exact hk.not_alive hy

/-- a dead connection stays as it is when somebody else sends a packet -/
theorem recv_dead_stays {s : BState} {c e : ConnId} {p : Packet} {y : BConn} (he : e ≠ c)
    (hy : s.conn? e = some y) (hd : y.alive = false) : RAll (fun s' => s'.conn? e = some y) (recv s c p) := by
  refine RAll_mono (recv_conns s c p) (fun s' h => ?_)
  rcases h.other e he with h1 | ⟨_, _, _, _, _, _, _, _, _, z, hz, hza, _⟩
  · rw [h1]; exact hy
  · rw [hy] at hz; cases hz; rw [hd] at hza; cases hza

end BrokerB4
