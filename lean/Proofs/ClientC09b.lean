import Proofs.ClientC09a
import Proofs.Session
/-
  Proofs/ClientC09b.lean — C09: what may remove or replace a stored outgoing packet. (K1)
-/
set_option linter.unusedSimpArgs false
set_option linter.unusedVariables false
set_option linter.unnecessarySimpa false
open Cl Cl.St
namespace ClientK1

def stripDup : Packet → Packet
  | .publish m _ id => .publish m false id
  | p => p

/-- what the session holds for outgoing id `id`, ignoring the duplicate flag -/
def outAt (s : MemorySession) (id : UInt16) : Option Packet := (s.lookupPacket .outgoing id).map stripDup

@[simp] theorem outAt_save_in (s : MemorySession) (p : Packet) (id : UInt16) :
    outAt (s.savePacket .incoming p) id = outAt s id := by
  simp [outAt, MemorySession.savePacket, MemorySession.lookupPacket, MemorySession.store, MemorySession.setStore]
@[simp] theorem outAt_delete_in (s : MemorySession) (k id : UInt16) :
    outAt (s.deletePacket .incoming k) id = outAt s id := by
  simp [outAt, MemorySession.deletePacket, MemorySession.lookupPacket, MemorySession.store, MemorySession.setStore]
@[simp] theorem outAt_nextID (s : MemorySession) (id : UInt16) : outAt s.nextID.2 id = outAt s id := by
  simp [outAt, MemorySession.nextID, MemorySession.lookupPacket, MemorySession.store]
theorem outAt_save_out (s : MemorySession) (p : Packet) (k id : UInt16) (h : p.getID = some k) :
    outAt (s.savePacket .outgoing p) id = if id = k then some (stripDup p) else outAt s id := by
  simp [outAt, MemorySession.savePacket, MemorySession.lookupPacket, MemorySession.store, MemorySession.setStore,
    PacketStore.lookup_save _ _ _ _ h]
  split <;> simp
theorem outAt_delete_out (s : MemorySession) (k id : UInt16) :
    outAt (s.deletePacket .outgoing k) id = if id = k then none else outAt s id := by
  simp [outAt, MemorySession.deletePacket, MemorySession.lookupPacket, MemorySession.store, MemorySession.setStore,
    PacketStore.lookup_delete]
  split <;> simp

theorem find_map_dup (l : List (UInt16 × Packet)) (id k : UInt16) :
    (PacketStore.find (l.map (fun e =>
      if e.1 == id then (match e.2 with | .publish m _ i => (e.1, Packet.publish m true i) | p => (e.1, p)) else e)) k).map stripDup
    = (PacketStore.find l k).map stripDup := by
  induction l with
  | nil => rfl
  | cons e t ih =>
    obtain ⟨a, p⟩ := e
    simp only [List.map_cons, PacketStore.find_cons]
    by_cases ha : a == id
    · simp only [ha, if_true]
      cases p <;> simp <;> split <;> simp_all [stripDup]
    · simp only [ha]
      simp; split <;> simp_all

@[simp] theorem outAt_markDup (s : St) (id k : UInt16) : outAt (s.markDup id).sess k = outAt s.sess k := by
  simp only [outAt, markDup, MemorySession.lookupPacket, MemorySession.store, PacketStore.lookup_eq_find]
  exact find_map_dup _ _ _

theorem cleanStep_outAt {s s' : St} {t c l r} (h : cleanStep s t c l = some (s', r)) (id : UInt16) :
    outAt s'.sess id = outAt s.sess id ∨ ∃ t, l = .sReset t true := by
  unfold cleanStep at h
  split_all h
  all_goals (first
    | (simp at h; done)
    | (simp at h; obtain ⟨h1, _⟩ := h; subst h1; simp [resolve, storeClear]; done)
    | skip)
  all_goals (subst_vars; right; exact ⟨_, rfl⟩)

theorem dieStep_outAt {s s' : St} {t d l r} (h : dieStep s t d l = some (s', r)) (id : UInt16) :
    outAt s'.sess id = outAt s.sess id ∨ ∃ t, l = .sReset t true := by
  unfold dieStep at h
  split_all h
  all_goals (first
    | (simp at h; done)
    | (simp at h; obtain ⟨h1, _⟩ := h; subst h1; simp [resolve]; done)
    | skip)
  all_goals (have hc := cleanStep_outAt (by assumption) id; simp at h; obtain ⟨h1, _⟩ := h; subst h1; exact hc)

/-- the ways a stored outgoing packet may disappear or be replaced -/
def Releases (s : St) (l : Label) (id : UInt16) : Prop :=
  (l = .sDel .proc .outgoing id true ∧ ∃ k, s.proc = .aDel k id)
  ∨ (l = .sSave .proc .outgoing (.pubrel id) true ∧ s.proc = .recSave id)
  ∨ (∃ r h, l = .sSave .api .outgoing (r.pkt id) true ∧ s.api = .rSave r id h)
  ∨ (∃ t, l = .sReset t true)

@[simp] theorem procAfter_sess (s : St) (a : DAfter) : (s.procAfter a).sess = s.sess := by
  cases a <;> simp [procAfter, procExit, goroutineExit, resolve] <;> split <;> simp
@[simp] theorem procErr_sess (fx : Fix) (s : St) : (procErr fx s).sess = s.sess := by
  simp [procErr]; split <;> simp [procDie, procExit, goroutineExit]

theorem stepProc_outAt {fx s s' l} (h : stepProc fx s l = some s') (id : UInt16) :
    outAt s'.sess id = outAt s.sess id ∨ Releases s l id := by
  unfold stepProc at h
  split_all h
  all_goals (first
    | (simp at h; done)
    | (simp at h; subst h; simp [procDie, procExit, goroutineExit, sendLog, resolve, storeDel]; done)
    | skip)
  · -- aDel: the acknowledged packet is deleted
    rename_i _ k id0 hpc _ id' ok hne hok
    simp at h hne; subst h; subst hne
    simp only [outAt_delete_out]
    by_cases hid : id = id'
    · subst hid; right; left; exact ⟨by simp_all, k, hpc⟩
    · left; simp [hid]
  · -- recSave: the PUBLISH is replaced by the PUBREL
    rename_i _ id0 hpc _ q ok hne hok
    simp at h hne; subst h; subst hne
    simp only [outAt_save_out _ _ _ _ (rfl : (Packet.pubrel id0).getID = some id0)]
    by_cases hid : id = id0
    · subst hid; right; right; left; exact ⟨by simp_all, hpc⟩
    · left; simp [hid]
  all_goals (
    have hd := dieStep_outAt (by assumption) id
    simp at h; subst h
    rcases hd with hd | ⟨t, ht⟩
    · left; simpa using hd
    · right; right; right; right; exact ⟨t, ht⟩)

theorem Req.pkt_getID (r : Req) (id : UInt16) : (r.pkt id).getID = some id := by
  cases r <;> rfl

theorem stepPing_outAt {s s' l} (h : stepPing s l = some s') (id : UInt16) :
    outAt s'.sess id = outAt s.sess id ∨ Releases s l id := by
  unfold stepPing at h
  split_all h
  all_goals (first
    | (simp at h; done)
    | (simp at h; subst h; simp [pingExit, goroutineExit, sendLog, mkDie]; done)
    | skip)
  all_goals (
    have hd := dieStep_outAt (by assumption) id
    simp at h; subst h
    rcases hd with hd | ⟨t, ht⟩
    · left; simpa [pingExit, goroutineExit] using hd
    · right; right; right; right; exact ⟨t, ht⟩)

theorem stepApi_outAt {fx s s' l} (h : stepApi fx s l = some s') (id : UInt16) :
    outAt s'.sess id = outAt s.sess id ∨ Releases s l id := by
  unfold stepApi at h
  split_all h
  all_goals (first
    | (simp at h; done)
    | (simp at h; subst h; simp [apiFail, sendLog, addFut, storePut, storeDel, resolve]; done)
    | skip)
  · -- cReset: Connect with a clean session
    right; right; right; right; exact ⟨_, rfl⟩
  · -- rSave: a new request is stored under its (fresh) id
    rename_i _ r id0 hh hpc _ q ok hne hok
    simp at h hne; subst h; subst hne
    simp only [outAt_save_out _ _ _ _ (Req.pkt_getID r id0)]
    by_cases hid : id = id0
    · subst hid; right; right; right; left; exact ⟨r, hh, by simp_all, hpc⟩
    · left; simp [hid]
  all_goals (
    have hd := cleanStep_outAt (by assumption) id
    simp at h; subst h
    rcases hd with hd | ⟨t, ht⟩
    · left; simpa using hd
    · right; right; right; right; exact ⟨t, ht⟩)

/-- **kept until acknowledged**: in one step the packet stored for an outgoing id changes (up to
    the duplicate flag) only through: the deletion that follows an acknowledgement for that id,
    the PUBREL that replaces the PUBLISH after PUBREC, a new request being stored under that id,
    or a session reset -/
theorem step_outAt {fx s s' l} (h : step fx s l = some s') (id : UInt16) :
    outAt s'.sess id = outAt s.sess id ∨ Releases s l id := by
  unfold step at h
  split at h
  · exact stepApi_outAt h id
  · exact stepProc_outAt h id
  · exact stepPing_outAt h id
  · split at h
    · simp at h; subst h; left; simp [renew]
    · simp at h

end ClientK1
