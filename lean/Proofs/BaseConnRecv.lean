import Proofs.BaseConnInv
/-
  Proofs/BaseConnRecv.lean — the receive side of the BaseConn LTS (C19), the step/run lemmas.
-/
namespace BaseConn
namespace Pf

/-- what every `receive` satisfies -/
structure RecvOK (C : Cfg) (s : State) (r : State × Outcome) : Prop where
  wsame : WSame s r.1
  mono : s.closed = true → r.1.closed = true
  err_closes : r.2 = .err → r.1.closed = true
  not_ok : r.2 ≠ .ok
  no_block : s.closed = true → r.2 ≠ .block
  closed_err : s.closed = true → C.dlClosedFails = true → r.2 = .err
  pkt_open : ∀ p, r.2 = .pkt p → r.1.closed = s.closed

theorem recvDeliver_ok (C : Cfg) (s : State) (p rest : Bytes) : RecvOK C s (recvDeliver C s p rest) := by
  unfold recvDeliver resetTimeout
  have sp := carrierSetDeadline_spec C { s with rbuf := rest } s.readTimeout
  split
  · rename_i s1 h
    simp only at h
    rw [h] at sp
    obtain ⟨w, c, _, f⟩ := sp
    have w' : WSame s s1 := ⟨w.wire, w.buf, w.berr, w.werr, w.timerArmed, w.hist⟩
    exact ⟨w', fun hc => by rw [c]; exact hc, fun h => by simp at h, by simp, fun _ => by simp,
      fun h1 h2 => by have := f h1 h2; simp at this, fun _ _ => c⟩
  · rename_i s1 h
    simp only at h
    rw [h] at sp
    obtain ⟨w, c, _, f⟩ := sp
    have w' : WSame s s1 := ⟨w.wire, w.buf, w.berr, w.werr, w.timerArmed, w.hist⟩
    exact ⟨w'.trans (closeCarrier_wsame s1), fun _ => closeCarrier_closed s1, fun _ => closeCarrier_closed s1,
      by simp, fun _ => by simp, fun _ _ => rfl, fun _ h => by simp at h⟩

theorem recvBad_ok (C : Cfg) (s : State) (rest : Bytes) :
    RecvOK C s (closeCarrier { s with rbuf := rest }, .err) := by
  have w := closeCarrier_wsame { s with rbuf := rest }
  exact ⟨⟨w.wire, w.buf, w.berr, w.werr, w.timerArmed, w.hist⟩, fun _ => closeCarrier_closed _,
    fun _ => closeCarrier_closed _, by simp, fun _ => by simp, fun _ _ => rfl, fun _ h => by simp at h⟩

theorem dropHeld_wsame (s : State) (h : Bool) : WSame s (dropHeld s h) := by
  unfold dropHeld; split
  · exact ⟨rfl, rfl, rfl, rfl, rfl, rfl⟩
  · exact WSame.refl _

theorem dropHeld_rbuf_le (s : State) (h : Bool) : (dropHeld s h).rbuf.length ≤ s.rbuf.length := by
  unfold dropHeld; split <;> simp

theorem recvCloseErr_ok (C : Cfg) {s s1 : State} (w : WSame s s1) (h : Bool) :
    RecvOK C s (closeCarrier (dropHeld s1 h), .err) :=
  ⟨(w.trans (dropHeld_wsame s1 h)).trans (closeCarrier_wsame _), fun _ => closeCarrier_closed _, fun _ => closeCarrier_closed _,
    by simp, fun _ => by simp, fun _ _ => rfl, fun _ h => by simp at h⟩

theorem RecvOK.of_open {C : Cfg} {s s1 : State} {r : State × Outcome} (w : WSame s s1) (hc : s.closed = false)
    (hc1 : s1.closed = false) (h : RecvOK C s1 r) : RecvOK C s r :=
  ⟨w.trans h.wsame, fun x => by simp [hc] at x, h.err_closes, h.not_ok, fun x => by simp [hc] at x,
    fun x => by simp [hc] at x, fun p hp => by rw [h.pkt_open p hp, hc1, hc]⟩

theorem recvStep_ok (C : Cfg) (s : State) : RecvOK C s (recvStep C s) := by
  unfold recvStep
  split
  · exact recvDeliver_ok C s _ _
  · exact recvBad_ok C s _
  · have sp := carrierRead_spec s
    split
    · rename_i s1 h; rw [h] at sp
      exact recvCloseErr_ok C sp.1 _
    · rename_i s1 h; rw [h] at sp
      obtain ⟨w, c, f, _⟩ := sp
      refine ⟨w, fun hc => by rw [c]; exact hc, fun h => by simp at h, by simp, fun hc => ?_, fun hc _ => ?_, fun _ h => by simp at h⟩
      · have := f hc; simp at this
      · have := f hc; simp at this
    · rename_i s1 h; rw [h] at sp
      obtain ⟨w, c, f, _⟩ := sp
      have hc : s.closed = false := by
        cases hcl : s.closed
        · rfl
        · have := f hcl; simp at this
      have hc1 : s1.closed = false := by rw [c]; exact hc
      apply RecvOK.of_open w hc hc1
      split
      · exact recvDeliver_ok C s1 _ _
      · exact recvBad_ok C s1 _
      · have sp1 := carrierRead_spec s1
        split
        · rename_i s2 h2; rw [h2] at sp1
          exact recvCloseErr_ok C sp1.1 _
        · rename_i s2 h2; rw [h2] at sp1
          obtain ⟨w2, c2, f2, _⟩ := sp1
          exact ⟨w2, fun hx => by simp [hc1] at hx, fun h => by simp at h, by simp, fun hx => by simp [hc1] at hx,
            fun hx => by simp [hc1] at hx, fun _ h => by simp at h⟩
        · rename_i s2 h2; rw [h2] at sp1
          obtain ⟨w2, c2, f2, _⟩ := sp1
          exact ⟨w2, fun hx => by simp [hc1] at hx, fun h => by simp at h, by simp, fun hx => by simp [hc1] at hx,
            fun hx => by simp [hc1] at hx, fun _ h => by simp at h⟩

/-- the framing never invents bytes: a delivered packet strictly shrinks the reader's buffer -/
structure FrameSound (C : Cfg) : Prop where
  pkt_lt : ∀ b p rest, C.frame b = .pkt p rest → rest.length < b.length
  bad_le : ∀ b rest, C.frame b = .bad rest → rest.length ≤ b.length

/-- on a closed carrier the reader's buffer only shrinks, strictly with every delivered packet -/
theorem recvStep_rbuf {C : Cfg} (fs : FrameSound C) {s : State} (hc : s.closed = true) :
    (recvStep C s).1.rbuf.length ≤ s.rbuf.length ∧
    (∀ p, (recvStep C s).2 = .pkt p → (recvStep C s).1.rbuf.length < s.rbuf.length) := by
  unfold recvStep
  split
  · rename_i p rest hf
    have hlt := fs.pkt_lt _ _ _ hf
    unfold recvDeliver resetTimeout
    have sp := carrierSetDeadline_spec C { s with rbuf := rest } s.readTimeout
    split
    · rename_i s1 h; simp only at h; rw [h] at sp
      have : s1.rbuf = rest := sp.2.2.1
      simp only [this]; exact ⟨Nat.le_of_lt hlt, fun _ _ => hlt⟩
    · rename_i s1 h; simp only at h; rw [h] at sp
      have : s1.rbuf = rest := sp.2.2.1
      simp only [closeCarrier_rbuf, this]; exact ⟨Nat.le_of_lt hlt, fun _ _ => hlt⟩
  · rename_i rest hf
    have hle := fs.bad_le _ _ hf
    simp only [closeCarrier_rbuf]
    exact ⟨hle, fun _ h => by simp at h⟩
  · have := (carrierRead_spec s).2.2.1 hc
    rw [this]
    simp only [closeCarrier_rbuf]
    exact ⟨dropHeld_rbuf_le s _, fun _ h => by simp at h⟩

end Pf
end BaseConn
