import Model.Service
/-
  Proofs/ServiceBasic.lean — helper lemmas for the service model: the command-future list, the
  future store, and what each helper of `Svc.step` leaves untouched (frame lemmas).
-/
namespace SvcK2
open Svc Svc.SState

/-! ### command futures -/

theorem futOf_nil (n : Nat) : futOf [] n = none := rfl

theorem futOf_cons (e : Nat × FutSt) (l : List (Nat × FutSt)) (n : Nat) :
    futOf (e :: l) n = if e.1 = n then some e.2 else futOf l n := by
  unfold futOf
  by_cases h : e.1 = n <;> simp [List.find?, h]

theorem futOf_append_fresh (l : List (Nat × FutSt)) (n m : Nat) (st : FutSt) (h : futOf l n = none) :
    futOf (l ++ [(n, st)]) m = if m = n then some st else futOf l m := by
  induction l with
  | nil => simp [futOf_cons, futOf_nil, eq_comm]
  | cons e l ih =>
    rw [futOf_cons] at h
    rw [List.cons_append, futOf_cons, futOf_cons]
    by_cases he : e.1 = n
    · simp [he] at h
    · rw [if_neg he] at h
      rw [ih h]
      by_cases hm : e.1 = m
      · have : m ≠ n := fun hh => he (hm.trans hh)
        simp [hm, this]
      · simp [hm]

/-- `resolve` never creates a pending future; the resolved one is no longer pending -/
theorem futOf_resolve_pending (l : List (Nat × FutSt)) (n m : Nat) (st : FutSt) (hst : st ≠ .pending)
    (h : futOf (resolve l n st) m = some .pending) : m ≠ n ∧ futOf l m = some .pending := by
  induction l with
  | nil => simp [resolve, futOf_nil] at h
  | cons e l ih =>
    simp only [resolve, List.map_cons] at h ih
    rw [futOf_cons] at h
    rw [futOf_cons]
    by_cases hc : e.1 = n ∧ e.2 = .pending
    · rw [if_pos hc] at h
      by_cases hm : n = m
      · subst hm; simp at h; exact absurd h hst
      · simp only [hm, if_false] at h
        have hem : ¬ e.1 = m := by rw [hc.1]; exact hm
        rw [if_neg hem]
        exact ih h
    · rw [if_neg hc] at h
      by_cases hm : e.1 = m
      · rw [if_pos hm] at h ⊢
        refine ⟨?_, h⟩
        intro hmn
        apply hc
        refine ⟨hm.trans hmn, ?_⟩
        simpa using h
      · rw [if_neg hm] at h ⊢
        exact ih h

theorem futOf_resolve_other (l : List (Nat × FutSt)) (n m : Nat) (st : FutSt) (h : m ≠ n) :
    futOf (resolve l n st) m = futOf l m := by
  induction l with
  | nil => rfl
  | cons e l ih =>
    simp only [resolve, List.map_cons] at ih ⊢
    rw [futOf_cons, futOf_cons, ih]
    by_cases hc : e.1 = n ∧ e.2 = .pending
    · rw [if_pos hc]
      have h1 : ¬ n = m := fun hh => h hh.symm
      have h2 : ¬ e.1 = m := by rw [hc.1]; exact h1
      simp [h1, h2]
    · rw [if_neg hc]

/-- a pending future that is resolved gets exactly the new state -/
theorem futOf_resolve_self (l : List (Nat × FutSt)) (n : Nat) (st : FutSt) (h : futOf l n = some .pending) :
    futOf (resolve l n st) n = some st := by
  induction l with
  | nil => simp [futOf_nil] at h
  | cons e l ih =>
    simp only [resolve, List.map_cons] at ih ⊢
    rw [futOf_cons] at h
    rw [futOf_cons]
    by_cases he : e.1 = n
    · rw [if_pos he] at h
      have hp : e.2 = .pending := by simpa using h
      simp [he, hp]
    · rw [if_neg he] at h
      have : ¬ (e.1 = n ∧ e.2 = .pending) := fun hh => he hh.1
      rw [if_neg this, if_neg he]
      exact ih h

/-- a future that is not pending keeps its state (Complete / Cancel return false) -/
theorem futOf_resolve_done (l : List (Nat × FutSt)) (n m : Nat) (st x : FutSt) (hx : x ≠ .pending)
    (h : futOf l m = some x) : futOf (resolve l n st) m = some x := by
  induction l with
  | nil => simp [futOf_nil] at h
  | cons e l ih =>
    simp only [resolve, List.map_cons] at ih ⊢
    rw [futOf_cons] at h
    rw [futOf_cons]
    by_cases hc : e.1 = n ∧ e.2 = .pending
    · rw [if_pos hc]
      by_cases hm : e.1 = m
      · rw [if_pos hm] at h
        have : e.2 = x := by simpa using h
        rw [this] at hc
        exact absurd hc.2 hx
      · rw [if_neg hm] at h
        have : ¬ n = m := by rw [← hc.1]; exact hm
        simp only [this, if_false]
        exact ih h
    · rw [if_neg hc]
      by_cases hm : e.1 = m
      · rw [if_pos hm] at h ⊢; exact h
      · rw [if_neg hm] at h ⊢; exact ih h

theorem futOf_resolve_isSome (l : List (Nat × FutSt)) (n m : Nat) (st : FutSt) :
    (futOf (resolve l n st) m).isSome = (futOf l m).isSome := by
  induction l with
  | nil => rfl
  | cons e l ih =>
    simp only [resolve, List.map_cons] at ih ⊢
    rw [futOf_cons, futOf_cons]
    by_cases hc : e.1 = n ∧ e.2 = .pending
    · rw [if_pos hc]
      by_cases hm : e.1 = m
      · have : n = m := hc.1.symm.trans hm
        simp [hm, this]
      · have : ¬ n = m := by rw [← hc.1]; exact hm
        simp [hm, this, ih]
    · rw [if_neg hc]
      by_cases hm : e.1 = m <;> simp [hm, ih]

theorem futOf_resolveAll_pending (ns : List Nat) (l : List (Nat × FutSt)) (m : Nat) (st : FutSt)
    (hst : st ≠ .pending) (h : futOf (resolveAll l ns st) m = some .pending) :
    m ∉ ns ∧ futOf l m = some .pending := by
  induction ns generalizing l with
  | nil => exact ⟨by simp, h⟩
  | cons n ns ih =>
    simp only [resolveAll, List.foldl_cons] at h ih
    obtain ⟨h1, h2⟩ := ih _ h
    obtain ⟨h3, h4⟩ := futOf_resolve_pending l n m st hst h2
    exact ⟨by simp [h1, h3], h4⟩

theorem futOf_resolveAll_isSome (ns : List Nat) (l : List (Nat × FutSt)) (m : Nat) (st : FutSt) :
    (futOf (resolveAll l ns st) m).isSome = (futOf l m).isSome := by
  induction ns generalizing l with
  | nil => rfl
  | cons n ns ih =>
    simp only [resolveAll, List.foldl_cons] at ih ⊢
    rw [ih, futOf_resolve_isSome]

theorem futOf_resolveAll_done (ns : List Nat) (l : List (Nat × FutSt)) (m : Nat) (st x : FutSt)
    (hx : x ≠ .pending) (h : futOf l m = some x) : futOf (resolveAll l ns st) m = some x := by
  induction ns generalizing l with
  | nil => exact h
  | cons n ns ih =>
    simp only [resolveAll, List.foldl_cons] at ih ⊢
    exact ih _ (futOf_resolve_done l n m st x hx h)

/-- a pending future among the resolved ones gets the new state -/
theorem futOf_resolveAll_mem (ns : List Nat) (l : List (Nat × FutSt)) (m : Nat) (st : FutSt)
    (hst : st ≠ .pending) (hm : m ∈ ns) (h : futOf l m = some .pending) :
    futOf (resolveAll l ns st) m = some st := by
  induction ns generalizing l with
  | nil => cases hm
  | cons n ns ih =>
    simp only [resolveAll, List.foldl_cons] at ih ⊢
    by_cases hn : m = n
    · subst hn
      exact futOf_resolveAll_done ns _ m st st hst (futOf_resolve_self l m st h)
    · have hm' : m ∈ ns := by
        cases hm with
        | head => exact absurd rfl hn
        | tail _ h' => exact h'
      exact ih _ hm' (by rw [futOf_resolve_other l n m st hn]; exact h)

/-! ### the future store -/

theorem storeGet_nil (id : UInt16) : storeGet [] id = none := rfl

theorem storeGet_cons (e : UInt16 × SFut) (l : List (UInt16 × SFut)) (id : UInt16) :
    storeGet (e :: l) id = if e.1 = id then some e.2 else storeGet l id := by
  unfold storeGet
  by_cases h : e.1 = id <;> simp [List.find?, h]

theorem storeGet_mem {l : List (UInt16 × SFut)} {id : UInt16} {f : SFut} (h : storeGet l id = some f) :
    (id, f) ∈ l := by
  induction l with
  | nil => simp [storeGet_nil] at h
  | cons e l ih =>
    rw [storeGet_cons] at h
    by_cases he : e.1 = id
    · rw [if_pos he] at h
      have : e.2 = f := by simpa using h
      have : e = (id, f) := by cases e; simp_all
      simp [this]
    · rw [if_neg he] at h
      exact List.mem_cons_of_mem _ (ih h)

theorem mem_storeDel {l : List (UInt16 × SFut)} {id : UInt16} {e : UInt16 × SFut} :
    e ∈ storeDel l id ↔ e ∈ l ∧ e.1 ≠ id := by
  simp [storeDel]

theorem mem_storePut {l : List (UInt16 × SFut)} {id : UInt16} {f : SFut} {e : UInt16 × SFut} :
    e ∈ storePut l id f ↔ (e ∈ l ∧ e.1 ≠ id) ∨ e = (id, f) := by
  simp [storePut, mem_storeDel]

theorem storeDel_nil (id : UInt16) : storeDel [] id = [] := rfl

theorem storeDel_cons (e : UInt16 × SFut) (l : List (UInt16 × SFut)) (id : UInt16) :
    storeDel (e :: l) id = if e.1 = id then storeDel l id else e :: storeDel l id := by
  unfold storeDel
  by_cases he : e.1 = id <;> simp [List.filter_cons, he]

theorem storeGet_storeDel_other (l : List (UInt16 × SFut)) (id x : UInt16) (h : x ≠ id) :
    storeGet (storeDel l id) x = storeGet l x := by
  induction l with
  | nil => rfl
  | cons e l ih =>
    rw [storeDel_cons, storeGet_cons]
    by_cases he : e.1 = id
    · have hx : ¬ e.1 = x := by rw [he]; exact fun hh => h hh.symm
      rw [if_pos he, if_neg hx]; exact ih
    · rw [if_neg he, storeGet_cons, ih]

theorem storeGet_storeDel_self (l : List (UInt16 × SFut)) (id : UInt16) :
    storeGet (storeDel l id) id = none := by
  induction l with
  | nil => rfl
  | cons e l ih =>
    rw [storeDel_cons]
    by_cases he : e.1 = id
    · rw [if_pos he]; exact ih
    · rw [if_neg he, storeGet_cons, if_neg he]; exact ih

theorem storeGet_append (l1 l2 : List (UInt16 × SFut)) (x : UInt16) :
    storeGet (l1 ++ l2) x = (storeGet l1 x).or (storeGet l2 x) := by
  induction l1 with
  | nil => simp [storeGet_nil]
  | cons e l ih =>
    rw [List.cons_append, storeGet_cons, storeGet_cons, ih]
    by_cases he : e.1 = x <;> simp [he]

theorem storeGet_storePut (l : List (UInt16 × SFut)) (id x : UInt16) (f : SFut) :
    storeGet (storePut l id f) x = if x = id then some f else storeGet l x := by
  unfold storePut
  rw [storeGet_append]
  by_cases hx : x = id
  · subst hx; simp [storeGet_storeDel_self, storeGet_cons]
  · have : ¬ id = x := fun hh => hx hh.symm
    rw [storeGet_storeDel_other l id x hx]
    simp [storeGet_cons, storeGet_nil, this, hx]

/-- the store is protected ⇒ `Clear` does nothing -/
theorem clearStore_of_protected (s : SState) (h : s.protected = true) : s.clearStore = s := by
  unfold clearStore; simp [h]

theorem toLoop_phase (s : SState) : s.toLoop.phase = if s.stopping.isSome then .exited else .backoff := by
  unfold toLoop; split <;> simp_all

end SvcK2
