import Proofs.ClientC10c
/-
  Proofs/ClientC10d.lean — C10: assembling the exactly-once invariant over client ∥ broker. (K1)
-/
set_option linter.unusedSimpArgs false
set_option linter.unusedVariables false
set_option linter.unnecessarySimpa false
open Cl Cl.St
namespace ClientK1

/-- the processor is started exactly once, by `Connect`, after the state left `initialized` -/
structure NS (s : St) : Prop where
  a : s.state = .initialized → s.proc = .notStarted ∧ s.ping = .notStarted
  b : (s.api = .cReset ∨ s.api = .cFut ∨ s.api = .cSend ∨ s.api = .cGo) → s.proc = .notStarted ∧ s.state ≠ .initialized ∧ s.ping = .notStarted
  c : s.api = .cDial → s.state = .initialized

theorem ns_stepApi {fx s s' l} (hi : NS s) (hs : stepApi fx s l = some s') : NS s' := by
  obtain ⟨h1, h2, h3⟩ := hi
  unfold stepApi at hs
  split_all hs
  all_goals (first
    | (simp at hs; done)
    | (simp at hs; subst hs; refine ⟨?_, ?_, ?_⟩ <;> simp_all [apiFail, sendLog, addFut, storePut, storeDel, resolve, CS.toNat]; done)
    | (simp at hs; subst hs; cases hst : s.state <;> refine ⟨?_, ?_, ?_⟩ <;> simp_all [CS.toNat]; done)
    | (have hc := cleanStep_state ‹_›; have hp := cleanStep_proc ‹_›; have hq := cleanStep_ping ‹_›
       simp at hs; subst hs
       refine ⟨?_, by simp, by simp⟩
       intro e; simp at e
       rcases hc with hc | hc
       · rw [hc] at e; simp [hp, hq, h1 e]
       · rw [hc] at e; simp at e)
    | skip)

theorem ns_stepProc {fx s s' l} (hi : NS s) (hs : stepProc fx s l = some s') : NS s' := by
  have hst : s.state ≠ .initialized := fun e => stepProc_started hs (hi.a e).1
  have hst' : s'.state ≠ .initialized := fun e => hst (stepProc_state_init hs e)
  have hapi := stepProc_api hs
  refine ⟨fun e => absurd e hst', ?_, ?_⟩
  · intro ha; rw [hapi] at ha; exact absurd (hi.b ha).1 (stepProc_started hs)
  · intro ha; rw [hapi] at ha; exact absurd (hi.c ha) hst

theorem cleanStep_state_init {s s' : St} {t c l r} (h : cleanStep s t c l = some (s', r)) (hi : s'.state = .initialized) :
    s.state = .initialized := by
  rcases cleanStep_state h with e | e
  · rw [e] at hi; exact hi
  · rw [e] at hi; simp at hi

theorem stepPing_state_init {s s' l} (h : stepPing s l = some s') (hi : s'.state = .initialized) :
    s.state = .initialized := by
  unfold stepPing at h
  split_all h
  all_goals (first
    | (simp at h; done)
    | (simp at h; subst h; simpa [pingExit, goroutineExit, sendLog, mkDie] using hi)
    | (have hd := dieStep_state (by assumption); simp at h; subst h; simp [pingExit, goroutineExit] at hi
       rcases hd with hd | hd <;> simp_all; done)
    | skip)

theorem ns_stepPing {s s' l} (hi : NS s) (hs : stepPing s l = some s') : NS s' := by
  have hpn : s.ping ≠ .notStarted := by intro e; simp [stepPing, e] at hs
  have hst : s.state ≠ .initialized := fun e => hpn (hi.a e).2
  have hst' : s'.state ≠ .initialized := fun e => hst (stepPing_state_init hs e)
  have hapi := stepPing_api hs
  refine ⟨fun e => absurd e hst', ?_, ?_⟩
  · intro ha; rw [hapi] at ha; exact absurd (hi.b ha).2.2 hpn
  · intro ha; rw [hapi] at ha; exact absurd (hi.c ha) hst

theorem ns_step {fx s s' l} (hi : NS s) (hs : step fx s l = some s') : NS s' := by
  unfold step at hs
  split at hs
  · exact ns_stepApi hi hs
  · exact ns_stepProc hi hs
  · exact ns_stepPing hi hs
  · split at hs
    · simp at hs; subst hs; refine ⟨?_, ?_, ?_⟩ <;> simp [renew]
    · simp at hs

/-! ### exported methods and the pinger do not touch the receive path -/

theorem stepApi_inc {fx s s' l} (h : stepApi fx s l = some s') (hl : ∀ t ok, l ≠ .sReset t ok) (id : UInt16) :
    inc s' id = inc s id := by
  unfold stepApi at h
  split_all h
  all_goals (first
    | (simp at h; done)
    | (exact absurd rfl (hl _ _))
    | (simp at h; subst h; simp [inc, apiFail, sendLog, addFut, storePut, storeDel, resolve]; done)
    | (have hc := cleanStep_inc (by assumption) hl id; simp at h; subst h; simpa [inc] using hc)
    | skip)

theorem stepPing_inc {s s' l} (h : stepPing s l = some s') (hl : ∀ t ok, l ≠ .sReset t ok) (id : UInt16) :
    inc s' id = inc s id := by
  unfold stepPing at h
  split_all h
  all_goals (first
    | (simp at h; done)
    | (simp at h; subst h; simp [inc, pingExit, goroutineExit, sendLog, mkDie]; done)
    | (have hd := dieStep_inc (by assumption) hl id; simp at h; subst h; simpa [inc, pingExit, goroutineExit] using hd)
    | skip)

theorem gstep_not_proc (s : St) (g : G) (l : Label) (h : threadOf l ≠ some .proc) : gstep s g l = g := by
  cases l <;> simp [gstep, threadOf] at h ⊢
  rename_i t p ok
  cases t <;> simp_all

/-- the mode is kept by the exported methods (the environment only connects unclean, default mode) -/
theorem mode_stepApi {fx s s' l} {g : G} (hm : Mode s) (hs : stepApi fx s l = some s') (ha : Allowed s g l) : Mode s' := by
  have hproc := stepApi_proc hs
  have hx : ∀ id, s'.proc ≠ .relSend id true ∧ s'.proc ≠ .relDel id false := by
    intro id; rcases hproc with e | e <;> rw [e]
    · exact hm.x id
    · simp
  have hy : ∀ m dup id, s'.proc = .pubCb m dup id → m.qos ≠ 2 := by
    intro m dup id hp; rcases hproc with e | e <;> rw [e] at hp
    · exact hm.y m dup id hp
    · simp at hp
  obtain ⟨m1, m2, m3, m4, _, _⟩ := hm
  unfold stepApi at hs
  split_all hs
  all_goals (first
    | (simp at hs; done)
    | (simp at hs; subst hs; exact ⟨by simpa using m1, by simpa using m2, by simpa using m3, by simpa using m4, hx, hy⟩)
    | (have hc := cleanStep_cfg (by assumption); simp at hs; subst hs
       exact ⟨by simpa [hc.1] using m1, by simpa [hc.2.1] using m2, by simpa [hc.2.2.1] using m3, by simpa [hc.2.2.2] using m4, hx, hy⟩)
    | skip)
  all_goals (first
    | (exact ha.elim)
    | (simp at hs; subst hs
       refine ⟨?_, ?_, ?_, ?_, hx, hy⟩ <;> simp_all [Allowed, addFut, storePut, storeDel, resolve, apiFail, sendLog]; done)
    | skip)

theorem stepPing_cfg {s s' l} (h : stepPing s l = some s') :
    s'.early = s.early ∧ s'.pendEarly = s.pendEarly ∧ s'.clean = s.clean ∧ s'.cpkt = s.cpkt := by
  unfold stepPing at h
  split_all h
  all_goals (first
    | (simp at h; done)
    | (simp at h; subst h; simp [pingExit, goroutineExit, sendLog, mkDie]; done)
    | (have hd := dieStep_cfg (by assumption); simp at h; subst h; simpa [pingExit, goroutineExit] using hd)
    | skip)

/-- `J` looks at the state only through the processor's program counter and the incoming store -/
theorem J_congr {s s' : St} {g g' : G} {id : UInt16} (hj : J s g id) (hp : s'.proc = s.proc)
    (hi : inc s' id = inc s id) (hph : g'.ph id = g.ph id) (hr : g'.recS id = g.recS id)
    (hc : g'.compS id = g.compS id) (hn : g'.n id = g.n id) : J s' g' id := by
  refine ⟨by rw [hn]; exact hj.le, ?_, ?_, ?_, ?_, ?_, ?_, ?_, ?_, ?_⟩
  · rw [hph, hi]; exact hj.i
  · intro m; rw [hph, hn, hc, hr, hi]; exact hj.a m
  · intro m; rw [hph, hn, hc, hi, hp]; exact hj.b m
  · intro m; rw [hp, hn, hph]; exact hj.c m
  · rw [hp, hn, hc, hph]; exact hj.d
  · intro m dup; rw [hp, hph, hn]; exact hj.f m dup
  · rw [hp, hph, hn, hi]; exact hj.f'
  · rw [hp, hph]; exact hj.k
  · rw [hp, hn, hi]; exact hj.k3

/-- the broker learns that the PUBREC arrived -/
theorem j_gotPubrec {s : St} {g : G} {id' : UInt16} {m : Message} (hj : ∀ id, J s g id)
    (hph : g.ph id' = .pub m) (hr : g.recS id' = true) :
    ∀ id, J s { g with ph := upd g.ph id' (.rel m) } id := by
  intro id
  by_cases e : id = id'
  · subst e
    have hjj := hj id
    obtain ⟨a1, a2, a3⟩ := hjj.a m hph
    obtain ⟨d, j, hst⟩ := a3 hr
    refine ⟨hjj.le, ?_, ?_, ?_, ?_, ?_, ?_, ?_, ?_, hjj.k3⟩
    · intro hi; simp at hi
    · intro m' hm'; simp at hm'
    · intro m' hm'; simp at hm'; subst hm'; left; exact ⟨a1, a2, d, j, hst⟩
    · intro m' hp'; have := (hjj.c m' hp').2; rw [hph] at this; simp at this
    · intro hp'; obtain ⟨_, _, m', hm'⟩ := hjj.d hp'; rw [hph] at hm'; simp at hm'
    · intro m' dup hp'
      rcases hjj.f m' dup hp' with hf | ⟨hf, _⟩
      · rw [hph] at hf; simp at hf; subst hf; right; simp [a1]
      · rw [hph] at hf; simp at hf
    · intro hp'
      obtain ⟨m', d', j', hf, hst'⟩ := hjj.f' hp'
      rcases hf with hf | ⟨hf, _⟩
      · rw [hph] at hf; simp at hf; subst hf; exact ⟨m, d', j', Or.inr ⟨by simp, a1⟩, hst'⟩
      · rw [hph] at hf; simp at hf
    · intro _; right; exact ⟨m, by simp⟩
  · exact J_congr (hj id) rfl rfl (by simp [upd_other _ _ _ _ e]) rfl rfl rfl

/-- the broker learns that the PUBCOMP arrived: the handshake is over -/
theorem j_gotPubcomp {s : St} {g : G} {id' : UInt16} {m : Message} (hj : ∀ id, J s g id)
    (hph : g.ph id' = .rel m) (hc : g.compS id' = true) :
    ∀ id, J s { g with ph := upd g.ph id' .idle } id := by
  intro id
  by_cases e : id = id'
  · subst e
    have hjj := hj id
    have hb : g.n id = 1 ∧ inc s id = none := by
      rcases hjj.b m hph with ⟨_, b2, _⟩ | ⟨b1, b2⟩
      · rw [hc] at b2; simp at b2
      · refine ⟨b1, ?_⟩
        rcases b2 with b2 | b2
        · exact b2
        · have := (hjj.d b2).2.1; rw [hc] at this; simp at this
    refine ⟨hjj.le, ?_, ?_, ?_, ?_, ?_, ?_, ?_, ?_, hjj.k3⟩
    · intro _; exact hb.2
    · intro m' hm'; simp at hm'
    · intro m' hm'; simp at hm'
    · intro m' hp'; have := (hjj.c m' hp').1; rw [hb.1] at this; simp at this
    · intro hp'; have := (hjj.d hp').2.1; rw [hc] at this; simp at this
    · intro m' dup hp'
      rcases hjj.f m' dup hp' with hf | ⟨_, hf⟩
      · rw [hph] at hf; simp at hf
      · rw [hb.1] at hf; simp at hf
    · intro hp'
      obtain ⟨m', d', j', _, hst'⟩ := hjj.f' hp'
      rw [hb.2] at hst'; simp at hst'
    · intro _; left; simp
  · exact J_congr (hj id) rfl rfl (by simp [upd_other _ _ _ _ e]) rfl rfl rfl

theorem stepApi_proc_changed {fx s s' l} (h : stepApi fx s l = some s') (hne : s'.proc ≠ s.proc) : s.api = .cGo := by
  unfold stepApi at h
  split_all h
  all_goals (first
    | (simp at h; done)
    | (simp at h; subst h; simp [apiFail, sendLog, addFut, storePut, storeDel, resolve] at hne; done)
    | (have hc := cleanStep_proc (by assumption); simp at h; subst h; simp at hne; exact absurd hc hne)
    | assumption
    | skip)

/-- every step of the processor keeps the invariant -/
theorem j_stepProc {s s' : St} {g : G} {l : Label} (hm : Mode s) (hj : ∀ id, J s g id)
    (h : stepProc Fix.repaired s l = some s') (ha : Allowed s g l) : ∀ id, J s' (gstep s g l) id := by
  cases hpc : s.proc with
  | recv first => exact j_recv hm hj hpc h ha
  | pubSave m dup id' => exact j_pubSave hj hpc h ha
  | pubRec id' => exact j_pubRec hj hpc h ha
  | relLook id' => exact j_relLook hm hj hpc h ha
  | relState id' => exact j_relState hj hpc h
  | relCb m id' => exact j_relCb hj hpc h
  | relDel id' b =>
    cases b
    · exact absurd hpc (hm.x id').2
    · exact j_relDel hj hpc h ha
  | relSend id' b =>
    cases b
    · exact j_relSend hj hpc h
    · exact absurd hpc (hm.x id').1
  | _ => exact j_neutral hm hj (by rw [hpc]; rfl) (by intro f e; rw [hpc] at e; simp at e) h ha

structure SysInv (x : St × G) : Prop where
  mode : Mode x.1
  ns : NS x.1
  j : ∀ id, J x.1 x.2 id

theorem sysInv_init : SysInv ({}, {}) := by
  refine ⟨⟨rfl, rfl, rfl, by simp, by simp, by simp⟩, ⟨by simp, by simp, by simp⟩, ?_⟩
  intro id
  refine ⟨by simp, ?_, ?_, ?_, ?_, ?_, ?_, ?_, ?_, ?_⟩ <;> simp [inc, MemorySession.lookupPacket, MemorySession.store, PacketStore.lookup]

theorem sysInv_step {x y : St × G} (hi : SysInv x) (h : Sys Fix.repaired x y) : SysInv y := by
  cases h with
  | gotPubrec id m hph hr => exact ⟨hi.mode, hi.ns, j_gotPubrec hi.j hph hr⟩
  | gotPubcomp id m hph hc => exact ⟨hi.mode, hi.ns, j_gotPubcomp hi.j hph hc⟩
  | client l hs ha =>
    rename_i s s' g
    have hns := ns_step hi.ns hs
    have hnr := Allowed_not_reset ha
    unfold step at hs
    split at hs
    · -- an exported method
      rename_i ht
      have hg : gstep s g l = g := gstep_not_proc s g l (by rw [ht]; simp)
      refine ⟨mode_stepApi hi.mode hs ha, hns, ?_⟩
      intro id
      rw [hg]
      by_cases hp : s'.proc = s.proc
      · exact J_congr (hi.j id) hp (stepApi_inc hs hnr id) rfl rfl rfl rfl
      · -- the processor is started: it was not running
        have hnot : s.proc = .notStarted := (hi.ns.b (Or.inr (Or.inr (Or.inr (stepApi_proc_changed hs hp))))).1
        have hp' : s'.proc = .recv true := by
          rcases stepApi_proc hs with e | e
          · exact absurd e hp
          · exact e
        exact J_frame (hi.j id) (stepApi_inc hs hnr id) rfl rfl rfl rfl (by rw [hnot]; simp [pcId]) (by rw [hp']; simp [pcId])
    · exact ⟨mode_stepProc hi.mode hs, hns, j_stepProc hi.mode hi.j hs ha⟩
    · rename_i ht
      have hg : gstep s g l = g := gstep_not_proc s g l (by rw [ht]; simp)
      obtain ⟨c1, c2, c3, c4⟩ := stepPing_cfg hs
      have hp := stepPing_proc hs
      refine ⟨⟨by rw [c1]; exact hi.mode.early, by rw [c2]; exact hi.mode.pend, by rw [c3]; exact hi.mode.clean,
        by rw [c4]; exact hi.mode.cpkt, by rw [hp]; exact hi.mode.x, by rw [hp]; exact hi.mode.y⟩, hns, ?_⟩
      intro id
      rw [hg]
      exact J_congr (hi.j id) hp (stepPing_inc hs hnr id) rfl rfl rfl rfl
    · rename_i ht
      have hl := threadOf_none ht
      subst hl
      split at hs
      · rename_i htd
        simp at hs; subst hs
        have hg : gstep s g .newClient = g := rfl
        rw [hg]
        refine ⟨⟨rfl, rfl, rfl, by simp [renew], by simp [renew], by simp [renew]⟩, hns, ?_⟩
        intro id
        have hpn : pcId s.proc = none := by
          simp [threadsDone, procGone] at htd
          rcases htd.1.2 with e | e
          · rw [e]; rfl
          · split at e <;> simp_all [pcId]
        exact J_frame (hi.j id) (by simp [inc, renew]) rfl rfl rfl rfl (by rw [hpn]; simp) (by simp [renew, pcId])
      · simp at hs

end ClientK1
