import Proofs.BrokerB1
/-
  Proofs/BrokerB1Reach.lean — the retained store of every reachable broker state is the fold of
  `retAfter` over some history of publishes (frame argument through the whole LTS of
  Model/Broker.lean: only `backendPublish` ever touches `retained` / `rmsgs`).
-/
namespace BrokerB1
open BState Node

/-- the retained store after a history of publishes, starting from the empty store -/
def retHist (ms : List Message) : Node × List Message :=
  ms.foldl (fun st m => retAfter st.1 st.2 m) (Node.empty, [])

/-- the retained store of `s` stems from a history of publishes -/
def Hist (s : BState) : Prop := ∃ ms, (s.retained, s.rmsgs) = retHist ms

theorem Hist.of_eq {s s' : BState} (h : Hist s) (h1 : s'.retained = s.retained) (h2 : s'.rmsgs = s.rmsgs) :
    Hist s' := by
  obtain ⟨ms, hm⟩ := h
  exact ⟨ms, by rw [h1, h2]; exact hm⟩

theorem Hist.publish {s s' : BState} {c : ConnId} {m : Message} (h : Hist s)
    (hp : backendPublish s c m = .ok s' ∨ backendPublish s c m = .queueFull s') : Hist s' := by
  obtain ⟨ms, hm⟩ := h
  refine ⟨ms ++ [m], ?_⟩
  have e : (s'.retained, s'.rmsgs) = retAfter s.retained s.rmsgs m := by
    rcases hp with hp | hp
    · obtain ⟨_, _, h3⟩ := backendPublish_ok s s' c m hp
      rw [h3]; rfl
    · obtain ⟨t, st, h3⟩ := backendPublish_full s s' c m hp
      rw [h3]; rfl
  unfold retHist at hm ⊢
  rw [List.foldl_append, ← hm, e]
  rfl

theorem Hist.setConn {s : BState} (h : Hist s) (c : ConnId) (x : BConn) : Hist (s.setConn c x) :=
  h.of_eq rfl rfl

theorem Hist.updConn {s : BState} (h : Hist s) (c : ConnId) (f : BConn → BConn) : Hist (s.updConn c f) :=
  h.of_eq (updConn_frame s c f).2.2.1 (updConn_frame s c f).2.2.2.1

theorem Hist.setSessOf {s : BState} (h : Hist s) (c : ConnId) (b : BSess) : Hist (s.setSessOf c b) :=
  h.of_eq (setSessOf_frame s c b).2.2.1 (setSessOf_frame s c b).2.2.2.1

/-- every outcome of a nondeterministic piece of code satisfies `Hist` -/
def ResHist (r : Res) : Prop := ∀ ss, r = Res.ok ss → ∀ s' ∈ ss, Hist s'

theorem ResHist.one {s : BState} (h : Hist s) : ResHist (Res.one s) := by
  intro ss hss s' hs'
  rw [mem_one hss hs']; exact h

theorem ResHist.unsupported (w : String) : ResHist (Res.unsupported w) := by
  intro ss hss; cases hss

theorem ResHist.ok {ss : List BState} (h : ∀ s ∈ ss, Hist s) : ResHist (Res.ok ss) := by
  intro ss' hss s' hs'
  injection hss with hss; subst hss; exact h s' hs'

theorem ResHist.bind {r : Res} {f : BState → Res} (hr : ResHist r) (hf : ∀ s, Hist s → ResHist (f s)) :
    ResHist (Res.bind r f) := by
  intro ss hss s' hs'
  obtain ⟨ss0, h0, s0, hs0, ss1, h1, h2⟩ := mem_bind hss hs'
  exact hf s0 (hr ss0 h0 s0 hs0) ss1 h1 s' h2

theorem backendTerminate_ret (s : BState) (c : ConnId) :
    (backendTerminate s c).retained = s.retained ∧ (backendTerminate s c).rmsgs = s.rmsgs := by
  unfold BState.backendTerminate
  simp only
  split
  · exact ⟨(setSessOf_frame _ _ _).2.2.1, (setSessOf_frame _ _ _).2.2.2.1⟩
  · exact ⟨rfl, rfl⟩

theorem Hist.backendTerminate {s : BState} (h : Hist s) (c : ConnId) : Hist (backendTerminate s c) :=
  h.of_eq (backendTerminate_ret s c).1 (backendTerminate_ret s c).2

theorem lastDequeue_hist {s : BState} (h : Hist s) (c : ConnId) (x : BConn) :
    ∀ s' ∈ lastDequeue s c x, Hist s' := by
  intro s' hs'
  unfold lastDequeue at hs'
  split at hs'
  · simp only [List.mem_singleton] at hs'; rw [hs']; exact h
  · split at hs'
    · simp only [List.mem_singleton] at hs'; rw [hs']; exact h
    · rename_i b hb
      simp only [List.mem_cons, List.mem_append] at hs'
      rcases hs' with hs' | hs' | hs'
      · rw [hs']; exact h
      · split at hs'
        · simp only [List.mem_singleton] at hs'
          rw [hs']; split
          · exact h.setSessOf c _
          · split <;> exact h.setSessOf c _
        · cases hs'
      · split at hs'
        · cases hs'
        · simp only [List.mem_map] at hs'
          obtain ⟨e, _, he⟩ := hs'
          rw [← he]; split
          · exact h.setSessOf c _
          · split <;> exact h.setSessOf c _

theorem ResHist.cleanup {s : BState} (h : Hist s) (c : ConnId) (x : BConn) : ResHist (cleanup s c x) := by
  unfold BState.cleanup
  apply ResHist.bind
  · split
    · rename_i w
      split
      · rename_i s1 hp; exact ResHist.one (h.publish (Or.inl hp))
      · rename_i s1 hp; exact ResHist.one (h.publish (Or.inr hp))
      · exact ResHist.unsupported _
    · exact ResHist.one h
  · intro s1 h1
    split
    · exact ResHist.one (h1.backendTerminate c)
    · exact ResHist.one h1

theorem ResHist.kill {s : BState} (h : Hist s) (c : ConnId) : ResHist (kill s c) := by
  unfold BState.kill
  split
  · exact ResHist.one h
  · rename_i x hx
    split
    · exact ResHist.one h
    · apply ResHist.bind (ResHist.ok (lastDequeue_hist h c x))
      intro s1 h1
      split
      · exact ResHist.one (h1.setConn c _)
      · exact ResHist.cleanup (h1.setConn c _) c x

theorem ResHist.killAll (cs : List ConnId) : ∀ {s : BState}, Hist s → ResHist (killAll s cs) := by
  induction cs with
  | nil => intro s h; exact ResHist.one h
  | cons c rest ih =>
    intro s h
    unfold BState.killAll
    exact ResHist.bind (ResHist.kill h c) (fun s1 h1 => ih h1)

theorem ResHist.publishThen {s : BState} (h : Hist s) (c : ConnId) (m : Message) (k : BState → Res)
    (hk : ∀ s', Hist s' → ResHist (k s')) : ResHist (publishThen s c m k) := by
  unfold BState.publishThen
  split
  · rename_i s1 hp; exact hk s1 (h.publish (Or.inl hp))
  · rename_i s1 hp; exact ResHist.kill (h.publish (Or.inr hp)) c
  · exact ResHist.unsupported _

theorem Hist.ackVia {s : BState} (h : Hist s) (c : ConnId) (p : Packet) (pre : BState → BState)
    (hpre : ∀ s, Hist s → Hist (pre s)) : Hist (ackVia s c p pre) := by
  unfold BState.ackVia
  split
  · exact h
  · split
    · exact h.of_eq rfl rfl
    · exact (hpre s h).updConn c _

theorem Hist.forgetIncoming {s : BState} (h : Hist s) (c : ConnId) (id : UInt16) :
    Hist (forgetIncoming c id s) := by
  unfold BState.forgetIncoming
  split
  · exact h.setSessOf c _
  · exact h

theorem Hist.ackPre {s : BState} (h : Hist s) (c : ConnId) (p : Packet) : Hist (ackPre c p s) := by
  unfold BState.ackPre
  split
  · exact h.forgetIncoming c _
  · exact h

theorem ret_setConn (s : BState) (c : ConnId) (x : BConn) :
    (s.setConn c x).retained = s.retained ∧ (s.setConn c x).rmsgs = s.rmsgs := ⟨rfl, rfl⟩
theorem ret_updConn (s : BState) (c : ConnId) (f : BConn → BConn) :
    (s.updConn c f).retained = s.retained ∧ (s.updConn c f).rmsgs = s.rmsgs :=
  ⟨(updConn_frame s c f).2.2.1, (updConn_frame s c f).2.2.2.1⟩
theorem ret_setSessOf (s : BState) (c : ConnId) (b : BSess) :
    (s.setSessOf c b).retained = s.retained ∧ (s.setSessOf c b).rmsgs = s.rmsgs :=
  ⟨(setSessOf_frame s c b).2.2.1, (setSessOf_frame s c b).2.2.2.1⟩

theorem ret_forgetIncoming (s : BState) (c : ConnId) (id : UInt16) :
    (forgetIncoming c id s).retained = s.retained ∧ (forgetIncoming c id s).rmsgs = s.rmsgs := by
  unfold BState.forgetIncoming
  split
  · exact ret_setSessOf _ _ _
  · exact ⟨rfl, rfl⟩

theorem ret_ackPre (s : BState) (c : ConnId) (p : Packet) :
    (ackPre c p s).retained = s.retained ∧ (ackPre c p s).rmsgs = s.rmsgs := by
  unfold BState.ackPre
  split
  · exact ret_forgetIncoming _ _ _
  · exact ⟨rfl, rfl⟩

theorem ret_ackVia (s : BState) (c : ConnId) (p : Packet) (pre : BState → BState)
    (hpre : ∀ s, (pre s).retained = s.retained ∧ (pre s).rmsgs = s.rmsgs) :
    (ackVia s c p pre).retained = s.retained ∧ (ackVia s c p pre).rmsgs = s.rmsgs := by
  unfold BState.ackVia
  split
  · exact ⟨rfl, rfl⟩
  · split
    · exact ⟨rfl, rfl⟩
    · exact ⟨(ret_updConn _ _ _).1.trans (hpre s).1, (ret_updConn _ _ _).2.trans (hpre s).2⟩

theorem ret_ackVia_id (s : BState) (c : ConnId) (p : Packet) :
    (ackVia s c p (fun s => s)).retained = s.retained ∧ (ackVia s c p (fun s => s)).rmsgs = s.rmsgs :=
  ret_ackVia s c p _ (fun _ => ⟨rfl, rfl⟩)

theorem ret_ackVia_pre (s : BState) (c : ConnId) (p : Packet) (c' : ConnId) (p' : Packet) :
    (ackVia s c p (ackPre c' p')).retained = s.retained ∧ (ackVia s c p (ackPre c' p')).rmsgs = s.rmsgs :=
  ret_ackVia s c p _ (fun s => ret_ackPre s c' p')

/-- `Hist` of a state built from `s` by updates that leave the retained store alone -/
macro "hist_frame " h:term : tactic =>
  `(tactic| (refine Hist.of_eq $h ?_ ?_ <;>
      (try simp +zetaDelta only [(ret_setConn _ _ _).1, (ret_setConn _ _ _).2, (ret_updConn _ _ _).1, (ret_updConn _ _ _).2,
        (ret_setSessOf _ _ _).1, (ret_setSessOf _ _ _).2, (ret_ackVia_id _ _ _).1, (ret_ackVia_id _ _ _).2,
        (ret_ackVia_pre _ _ _ _ _).1, (ret_ackVia_pre _ _ _ _ _).2]) <;> rfl))

theorem ResHist.setupAndConnack {s : BState} (h : Hist s) (c : ConnId) (x : BConn) (id : ClientId)
    (clean : Bool) (will : Option Message) : ResHist (setupAndConnack s c x id clean will) := by
  unfold BState.setupAndConnack
  extract_lets x1 s1 b0 s2 x2 existing r
  have h1 : Hist s1 := h.setConn c _
  have h2 : Hist s2 := by hist_frame h1
  clear_value existing
  have hr : ResHist r := by
    show ResHist (match existing with | some oc => BState.kill s1 oc | none => Res.one s1)
    cases existing with
    | none => exact ResHist.one h1
    | some oc => exact ResHist.kill h1 _
  clear_value s1 s2 r x2 b0 x1
  split
  · exact ResHist.kill h1 c
  · split
    · exact ResHist.one (h2.setConn c _)
    · apply ResHist.bind hr
      intro s3 h3
      repeat' split
      all_goals first
        | exact ResHist.kill h3 c
        | (extract_lets sA xA
           apply ResHist.one
           have hA : Hist sA := by hist_frame h3
           exact hA.setConn c _)
        | (extract_lets bA xA
           split
           extract_lets sA
           apply ResHist.one
           have hA : Hist sA := by hist_frame h3
           exact hA.setConn c _)

theorem subscribeRetained_hist (c : ConnId) (subs : List Subscription) : ∀ {s : BState}, Hist s →
    ∀ s', (subscribeRetained s c subs = .ok s' ∨ subscribeRetained s c subs = .queueFull s') → Hist s' := by
  induction subs with
  | nil =>
    intro s h s' hs'
    simp only [subscribeRetained, Res1.ok.injEq, reduceCtorEq, or_false] at hs'
    rw [← hs']; exact h
  | cons sub rest ih =>
    intro s h s' hs'
    simp only [subscribeRetained] at hs'
    split at hs'
    · simp only [Res1.ok.injEq, reduceCtorEq, or_false] at hs'
      rw [← hs']; exact h
    · split at hs'
      · refine ih ?_ s' hs'
        hist_frame h
      · simp only [reduceCtorEq, Res1.queueFull.injEq, false_or] at hs'
        rw [← hs']; exact h

theorem ResHist.recv {s : BState} (h : Hist s) (c : ConnId) (p : Packet) : ResHist (recv s c p) := by
  unfold BState.recv
  split
  · exact ResHist.unsupported _
  · rename_i x hx
    split
    · exact ResHist.one h
    · split
      · exact ResHist.one h
      · -- connecting
        split
        · extract_lets x1 s1
          have h1 : Hist s1 := h.setConn c _
          clear_value s1
          repeat' split
          · exact ResHist.kill h1 c
          · apply ResHist.kill; hist_frame h1
          · exact ResHist.setupAndConnack h1 c _ _ _ _
        · exact ResHist.kill h c
      · -- connected
        split
        · -- subscribe
          split
          · exact ResHist.unsupported _
          · extract_lets s1
            have h1 : Hist s1 := h.setConn c _
            clear_value s1
            split
            · exact ResHist.unsupported _
            · extract_lets b1 s2 s3
              have h3 : Hist s3 := by hist_frame h1
              clear_value s3
              split
              · rename_i s4 hs4
                exact ResHist.one (subscribeRetained_hist c _ h3 s4 (Or.inl hs4))
              · rename_i s4 hs4
                exact ResHist.kill (subscribeRetained_hist c _ h3 s4 (Or.inr hs4)) c
              · exact ResHist.unsupported _
        · -- unsubscribe
          split
          · exact ResHist.unsupported _
          · extract_lets s1
            have h1 : Hist s1 := h.setConn c _
            clear_value s1
            split
            · exact ResHist.unsupported _
            · extract_lets b1
              apply ResHist.one; hist_frame h1
        · -- publish
          split
          · exact ResHist.publishThen h c _ _ (fun s' hs' => ResHist.one hs')
          · split
            · exact ResHist.unsupported _
            · extract_lets s1
              have h1 : Hist s1 := h.setConn c _
              clear_value s1
              split
              · apply ResHist.publishThen h1
                intro s' hs'
                apply ResHist.one; hist_frame hs'
              · split
                · exact ResHist.unsupported _
                · extract_lets b1
                  apply ResHist.one; hist_frame h1
        · -- pubrel
          split
          · exact ResHist.unsupported _
          · split
            · apply ResHist.publishThen h
              intro s' hs'
              apply ResHist.one; hist_frame hs'
            · apply ResHist.one; hist_frame h
        · -- puback
          split
          · exact ResHist.unsupported _
          · extract_lets s1
            apply ResHist.one; hist_frame h
        · -- pubcomp
          split
          · exact ResHist.unsupported _
          · extract_lets s1
            apply ResHist.one; hist_frame h
        · -- pubrec
          split
          · exact ResHist.unsupported _
          · extract_lets s1
            apply ResHist.one; hist_frame h
        · apply ResHist.one; hist_frame h
        · apply ResHist.kill; hist_frame h
        · exact ResHist.kill h c

theorem ackRelease_hist (acks : List PendingAck) : ∀ {s : BState}, Hist s →
    Hist (acks.foldl (fun s a =>
      (ackPre a.conn a.pkt s).updConn a.conn
        (fun x => if x.alive then { x with ackOut := x.ackOut ++ [a.pkt] } else x)) s) := by
  induction acks with
  | nil => intro s h; exact h
  | cons a rest ih =>
    intro s h
    rw [List.foldl_cons]
    exact ih ((h.ackPre a.conn a.pkt).updConn _ _)

theorem ResHist.stim {s : BState} (h : Hist s) (st : Stim) : ResHist (stim s st) := by
  unfold BState.stim
  split
  · apply ResHist.one; hist_frame h
  · exact ResHist.recv h _ _
  · exact ResHist.kill h _
  · extract_lets s1
    have h1 : Hist s1 := ackRelease_hist _ h
    clear_value s1
    apply ResHist.one; hist_frame h1
  · extract_lets s1
    have h1 : Hist s1 := by hist_frame h
    clear_value s1
    exact ResHist.killAll _ h1
  · apply ResHist.one; hist_frame h
  · split
    · split
      · apply ResHist.cleanup; hist_frame h
      · apply ResHist.one; hist_frame h
    · exact ResHist.unsupported _
  · split
    · split
      · exact ResHist.kill h _
      · exact ResHist.unsupported _
    · exact ResHist.unsupported _

theorem acceptDelivery_hist {s s' : BState} (h : Hist s) (c : ConnId) (x : BConn) (b : BSess) (m : Message)
    (id : UInt16) (ha : acceptDelivery s c x b m id = some s') : Hist s' := by
  unfold BState.acceptDelivery at ha
  split at ha
  · cases ha
  · -- every successful branch ends in `finish`, which is `setSessOf` followed by `setConn`
    have fin : ∀ (b' : BSess) (out : Message) (r : BState),
        (if out.qos = 0 then
          (if id ≠ 0 then none else
            some ((s.setSessOf c b').setConn c
              (retake { x with deqHand := false, deqChan := min s.cfg.window (x.deqChan + 1) })))
         else
          (if (b'.sess.freshID).1 = 0 then none else
           if (b'.sess.freshID).1 ≠ id then none else
            some ((s.setSessOf c { b' with sess := (b'.sess.freshID).2.savePacket .outgoing (.publish out false id) }).setConn c
              (retake { x with deqHand := false })))) = some r → Hist r := by
      intro b' out r hr
      split at hr
      · split at hr
        · cases hr
        · injection hr with hr; rw [← hr]; hist_frame h
      · split at hr
        · cases hr
        · split at hr
          · cases hr
          · injection hr with hr; rw [← hr]; hist_frame h
    simp only at ha
    split at ha
    · rename_i s1 hfs
      injection ha with ha
      subst ha
      split at hfs
      · split at hfs
        · exact fin _ _ _ hfs
        · cases hfs
      · cases hfs
    · split at ha
      · cases ha
      · split at ha
        · exact fin _ _ _ ha
        · cases ha

theorem observeSent_hist {s s' : BState} (h : Hist s) (c : ConnId) (p : Packet)
    (ho : observeSent s c p = some s') : Hist s' := by
  unfold BState.observeSent at ho
  split at ho
  · cases ho
  · split at ho
    · cases ho
    · split at ho
      · injection ho with ho; rw [← ho]; hist_frame h
      · split at ho
        · injection ho with ho; rw [← ho]; hist_frame h
        · split at ho
          · split at ho
            · exact acceptDelivery_hist h _ _ _ _ _ ho
            · cases ho
          · cases ho

theorem observe_hist {s s' : BState} (h : Hist s) (o : Obs) (ho : s' ∈ observe s o) : Hist s' := by
  unfold BState.observe at ho
  split at ho
  · split at ho
    · simp only [List.mem_singleton] at ho; rw [ho]; hist_frame h
    · cases ho
  · split at ho
    · split at ho
      · simp only [List.mem_singleton] at ho; rw [ho]; hist_frame h
      · cases ho
    · cases ho
  · simp only [Option.mem_toList] at ho
    exact observeSent_hist h _ _ ho
  · split at ho
    · rename_i s1 hs1
      have h1 := observeSent_hist h _ _ hs1
      split at ho
      · rename_i ss hk
        simp only [List.mem_map] at ho
        obtain ⟨s2, hs2, he⟩ := ho
        have h2 : Hist s2 := ResHist.kill h1 _ ss hk s2 hs2
        rw [← he]; hist_frame h2
      · cases ho
    · cases ho

theorem step_hist {s s' : BState} (h : Hist s) (hs : Step s s') : Hist s' := by
  cases hs with
  | stim st ss hst hm => exact ResHist.stim h st ss hst s' hm
  | obs o hm => exact observe_hist h o hm
  | ackMode late never => exact h.of_eq rfl rfl

theorem hist_init (cfg : Cfg) : Hist { cfg := cfg } := ⟨[], rfl⟩

/-- the retained store of every reachable broker state is the fold of `retAfter` over a history of
    publishes: nothing but `backendPublish` ever touches it -/
theorem reachable_hist {cfg : Cfg} {s : BState} (h : Reachable cfg s) : Hist s := by
  induction h with
  | init => exact hist_init cfg
  | step _ hs ih => exact step_hist ih hs

end BrokerB1
