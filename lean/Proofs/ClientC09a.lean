import Proofs.ClientFrame
/-
  Proofs/ClientC09a.lean — C09: close/disconnect return, store-before-send (trace invariant). (K1)
-/
set_option linter.unusedSimpArgs false
set_option linter.unusedVariables false
set_option linter.unnecessarySimpa false
open Cl Cl.St
namespace ClientK1

/-- reachability that remembers the labels taken -/
inductive ReachT (fx : Fix) : St → List Label → Prop where
  | init : ReachT fx {} []
  | step {s s' : St} {tr : List Label} (l : Label) : ReachT fx s tr → step fx s l = some s' → ReachT fx s' (tr ++ [l])

theorem ReachT.reach {fx s tr} (h : ReachT fx s tr) : Reach fx s := by
  induction h with
  | init => exact .init
  | step l _ hs ih => exact .step l ih hs

theorem Reach.reachT {fx s} (h : Reach fx s) : ∃ tr, ReachT fx s tr := by
  induction h with
  | init => exact ⟨[], .init⟩
  | step l _ hs ih => obtain ⟨tr, ht⟩ := ih; exact ⟨tr ++ [l], .step l ht hs⟩

/-! ### close / disconnect return -/

theorem stepApi_not_blocked {fx s s' l} (h : stepApi fx s l = some s') (hf : fx.f9 = true)
    (hb : s.api ≠ .blocked) : s'.api ≠ .blocked := by
  unfold stepApi at h
  split_all h
  close_cases h using apiFail, sendLog, addFut, storePut, storeDel, resolve

theorem step_not_blocked {fx s s' l} (h : step fx s l = some s') (hf : fx.f9 = true)
    (hb : s.api ≠ .blocked) : s'.api ≠ .blocked := by
  unfold step at h
  split at h
  · exact stepApi_not_blocked h hf hb
  · rw [stepProc_api h]; exact hb
  · rw [stepPing_api h]; exact hb
  · split at h
    · simp at h; subst h; simp [renew]
    · simp at h

/-! ### store before send -/

/-- the packet whose `SavePacket(Outgoing, ·)` was the last thing the current exported call did
    to the session (`none` once a new call starts or the call returns) -/
def savedNowStep (acc : Option Packet) : Label → Option Packet
  | .sSave .api .outgoing p true => some p
  | .aReq _ | .aRet _ | .aConnect .. | .aDisconnect _ | .aClose | .newClient => none
  | _ => acc

def savedNow (tr : List Label) : Option Packet := tr.foldl savedNowStep none

theorem savedNow_snoc (tr : List Label) (l : Label) : savedNow (tr ++ [l]) = savedNowStep (savedNow tr) l := by
  simp [savedNow, List.foldl_append]

theorem savedNowStep_other {acc l} (h : threadOf l ≠ some .api) (hn : l ≠ .newClient) : savedNowStep acc l = acc := by
  cases l <;> simp [savedNowStep, threadOf] at * <;> (try rename_i t _ _ _; cases t <;> simp_all)

/-- while an exported method is about to hand a stored request to the connection, its packet is
    the one just saved -/
def SavedInv (s : St) (tr : List Label) : Prop :=
  ∀ r id h, s.api = .rSend r id h → r.stored = true → savedNow tr = some (r.pkt id)

theorem savedInv_stepApi {fx s s' l tr} (h : stepApi fx s l = some s') (hi : SavedInv s tr) :
    SavedInv s' (tr ++ [l]) := by
  intro r id hh ha hs
  rw [savedNow_snoc]
  unfold stepApi at h
  split_all h
  all_goals (first
    | (simp at h; done)
    | (simp at h; subst h; simp [apiFail, sendLog, addFut, storePut, storeDel, resolve] at ha; done)
    | skip)
  all_goals (simp at h; subst h; simp at ha; obtain ⟨rfl, rfl, rfl⟩ := ha; simp_all [savedNowStep])

theorem savedInv_step {fx s s' l tr} (h : step fx s l = some s') (hi : SavedInv s tr) :
    SavedInv s' (tr ++ [l]) := by
  unfold step at h
  split at h
  · exact savedInv_stepApi h hi
  · rename_i ht
    intro r id hh ha hs
    rw [savedNow_snoc, savedNowStep_other (by simp [ht]) (by intro hc; subst hc; simp [threadOf] at ht)]
    rw [stepProc_api h] at ha; exact hi r id hh ha hs
  · rename_i ht
    intro r id hh ha hs
    rw [savedNow_snoc, savedNowStep_other (by simp [ht]) (by intro hc; subst hc; simp [threadOf] at ht)]
    rw [stepPing_api h] at ha; exact hi r id hh ha hs
  · split at h
    · simp at h; subst h; intro r id hh ha; simp [renew] at ha
    · simp at h

theorem savedInv_reach {fx s tr} (h : ReachT fx s tr) : SavedInv s tr := by
  induction h with
  | init => intro r id hh ha; simp at ha
  | step l _ hs ih => exact savedInv_step hs ih

/-- the packet `Connect` sends is never a PUBLISH -/
def CpktInv (s : St) : Prop := ∀ m d i, s.cpkt ≠ .publish m d i

theorem cleanStep_cpkt {s s' : St} {t c l r} (h : cleanStep s t c l = some (s', r)) : s'.cpkt = s.cpkt := by
  unfold cleanStep at h
  split_all h
  close_cases h using resolve, storeClear
theorem dieStep_cpkt {s s' : St} {t d l r} (h : dieStep s t d l = some (s', r)) : s'.cpkt = s.cpkt := by
  unfold dieStep at h
  split_all h
  close_cases h using resolve
  all_goals (rename_i hc; simp at h; obtain ⟨rfl, _⟩ := h; exact cleanStep_cpkt hc)
@[simp] theorem procAfter_cpkt (s : St) (a : DAfter) : (s.procAfter a).cpkt = s.cpkt := by
  cases a <;> simp [procAfter, procExit, goroutineExit, resolve] <;> split <;> simp
@[simp] theorem procErr_cpkt (fx : Fix) (s : St) : (procErr fx s).cpkt = s.cpkt := by
  simp [procErr]; split <;> simp [procDie, procExit, goroutineExit]
theorem stepProc_cpkt {fx s s' l} (h : stepProc fx s l = some s') : s'.cpkt = s.cpkt := by
  unfold stepProc at h
  split_all h
  close_cases h using procDie, procExit, goroutineExit, sendLog, markDup, resolve, storeDel
  all_goals (rename_i hd; simp at h; subst h; simp [dieStep_cpkt hd])
theorem stepPing_cpkt {s s' l} (h : stepPing s l = some s') : s'.cpkt = s.cpkt := by
  unfold stepPing at h
  split_all h
  close_cases h using pingExit, goroutineExit, sendLog, mkDie
  all_goals (rename_i hd; simp at h; subst h; simp [pingExit, goroutineExit, dieStep_cpkt hd])

theorem cpktInv_step {fx s s' l} (h : step fx s l = some s') (hi : CpktInv s) : CpktInv s' := by
  unfold step at h
  split at h
  · unfold stepApi at h
    split_all h
    all_goals (first
      | (simp at h; done)
      | (simp at h; subst h; simpa [CpktInv, apiFail, sendLog, addFut, storePut, storeDel, resolve] using hi)
      | skip)
    all_goals (first
      | (simp at h; subst h; intro m d i; simp; done)
      | (have hc := cleanStep_cpkt (by assumption); simp at h; subst h; simpa [CpktInv, hc] using hi))
  · intro m d i; rw [stepProc_cpkt h]; exact hi m d i
  · intro m d i; rw [stepPing_cpkt h]; exact hi m d i
  · split at h
    · simp at h; subst h; intro m d i; simp [renew]
    · simp at h

theorem cpktInv_reach {fx s} (h : Reach fx s) : CpktInv s := by
  induction h with
  | init => intro m d i; simp
  | step l _ hs ih => exact cpktInv_step hs ih

theorem cleanStep_send {s : St} {t c t' p ok} : cleanStep s t c (.send t' p ok) = none := by
  unfold cleanStep; cases c.stage <;> simp

/-- an exported method hands a PUBLISH to the connection only from `rSend` -/
theorem api_send_publish {fx s s' m dup id ok} (hc : CpktInv s)
    (h : step fx s (.send .api (.publish m dup id) ok) = some s') :
    ∃ hh, s.api = .rSend (.pub m) id hh ∧ dup = false := by
  simp [step, threadOf] at h
  cases hapi : s.api <;> simp [stepApi, hapi, cleanStep_send] at h
  case cSend => exact absurd h.1.symm (hc m dup id)
  case rSend r id' hh =>
    have hp := h.1
    cases r <;> simp [Req.pkt] at hp
    obtain ⟨rfl, rfl, rfl⟩ := hp
    exact ⟨hh, rfl, rfl⟩

/-- **store before send**: whenever an exported method hands a QoS ≥ 1 PUBLISH to the connection,
    the last thing that call did to the session was the successful `SavePacket` of that packet -/
theorem stored_before_send_trace {fx s s' tr m dup id ok} (hr : ReachT fx s tr)
    (h : step fx s (.send .api (.publish m dup id) ok) = some s') (hq : m.qos ≠ 0) :
    savedNow tr = some (.publish m dup id) := by
  obtain ⟨hh, ha, rfl⟩ := api_send_publish (cpktInv_reach hr.reach) h
  have := savedInv_reach hr (.pub m) id hh ha (by simp [Req.stored, hq])
  simpa [Req.pkt] using this

end ClientK1
