import Proofs.BrokerB5Ghost
import Proofs.BrokerProc
/-
  Proofs/BrokerB5Will.lean — the will is published exactly once iff the client had been accepted and
  did not DISCONNECT, over whole histories (C12, global form), for the model with ghost output of
  Proofs/BrokerB5Ghost.lean.

  `cwills log c`   the messages `cleanup` published on behalf of connection `c` (ghost tag `cleanup`),
                   in order.
  `GL s s' g`      ledger of a stretch of execution with ghost output `g`: `g` (tags forgotten) is what
                   was appended to `bevents`; a connection that was cleaned up stays so and gets nothing
                   published; one that is cleaned up during the stretch gets exactly its will published.
  Namespace `BrokerB5`.
-/
namespace BrokerB5
open BState BrokerB4

/-! ### the counting definitions -/

/-- closed and cleaned up (`cleanup` has run): neither alive nor waiting as a zombie -/
def isCl (o : Option BConn) : Bool :=
  match o with
  | some x => !x.alive && !x.zombie
  | none => false

/-- what `cleanup` publishes for a connection whose record is `x`: the stored will, if the client was
    accepted and did not DISCONNECT (phase `connected`) -/
def willOf (o : Option BConn) : List Message :=
  match o with
  | some x => (match x.phase, x.will with
               | .connected, some w => [w]
               | _, _ => [])
  | none => []

/-- the messages published by `cleanup` (ghost tag) on behalf of connection `c` -/
def cwills (g : List GEvent) (c : ConnId) : List Message :=
  g.filterMap fun e =>
    match e with
    | ⟨.cleanup, .publish c' m⟩ => if c' = c then some m else none
    | _ => none

theorem cwills_nil (c : ConnId) : cwills [] c = [] := rfl
theorem cwills_append (g1 g2 : List GEvent) (c : ConnId) : cwills (g1 ++ g2) c = cwills g1 c ++ cwills g2 c := by
  simp [cwills, List.filterMap_append]

theorem cwills_processor (ev : BEvent) (c : ConnId) : cwills [⟨.processor, ev⟩] c = [] := rfl
theorem cwills_gSetup (c d : ConnId) (r : Bool) : cwills (gSetup d r) c = [] := rfl
theorem cwills_terminate (c d : ConnId) : cwills [⟨.cleanup, .terminate d⟩] c = [] := rfl

/-- a live connection is no zombie -/
def AZ (s : BState) : Prop := ∀ c x, s.conn? c = some x → x.alive = true → x.zombie = false

/-! ### record changes that are no clean-up -/

structure Keep (x x' : BConn) : Prop where
  cl : isCl (some x) = true → isCl (some x') = true ∧ willOf (some x') = willOf (some x)
  ncl : isCl (some x) = false → isCl (some x') = false
  az : (x.alive = true → x.zombie = false) → x'.alive = true → x'.zombie = false

theorem Keep.refl (x : BConn) : Keep x x := ⟨fun h => ⟨h, rfl⟩, fun h => h, fun h => h⟩

theorem Keep.trans {a b c : BConn} (h1 : Keep a b) (h2 : Keep b c) : Keep a c := by
  refine ⟨fun h => ?_, fun h => h2.ncl (h1.ncl h), fun h => h2.az (h1.az h)⟩
  obtain ⟨a1, a2⟩ := h1.cl h
  obtain ⟨b1, b2⟩ := h2.cl a1
  exact ⟨b1, b2.trans a2⟩

/-- life-cycle fields unchanged; phase and will unchanged once the connection is closed -/
theorem Keep.of_life {x x' : BConn} (h1 : x'.alive = x.alive) (h2 : x'.zombie = x.zombie)
    (h3 : x.alive = false → x'.phase = x.phase ∧ x'.will = x.will) : Keep x x' := by
  refine ⟨fun h => ?_, fun h => ?_, fun h ha => ?_⟩
  · simp only [isCl, Bool.and_eq_true, Bool.not_eq_true'] at h
    obtain ⟨p1, p2⟩ := h3 h.1
    refine ⟨by simp [isCl, h1, h2, h.1, h.2], ?_⟩
    simp only [willOf, p1, p2]
  · simpa [isCl, h1, h2] using h
  · rw [h2]; exact h (by rw [← h1]; exact ha)

theorem orel_keep_refl (o : Option BConn) : ORel Keep o o := ORel.refl Keep.refl o

/-- a stretch in which no backend call is made and no connection is cleaned up -/
structure Kp (s s' : BState) : Prop where
  bev : s'.bevents = s.bevents
  conns : ∀ e, ORel Keep (s.conn? e) (s'.conn? e)

theorem Kp.refl (s : BState) : Kp s s := ⟨rfl, fun _ => orel_keep_refl _⟩

theorem Kp.trans {s1 s2 s3 : BState} (h1 : Kp s1 s2) (h2 : Kp s2 s3) : Kp s1 s3 :=
  ⟨h2.bev.trans h1.bev, fun e => ORel.trans (R := Keep) (fun _ _ _ h h' => Keep.trans h h') (h1.conns e) (h2.conns e)⟩

theorem Kp.of_conns {s s' : BState} (hc : s'.conns = s.conns) (hb : s'.bevents = s.bevents) : Kp s s' :=
  ⟨hb, fun e => by rw [conn?_of_conns hc]; exact orel_keep_refl _⟩

theorem Kp.setConn {s : BState} {c : ConnId} {x x' : BConn} (hc : s.conn? c = some x) (hk : Keep x x') :
    Kp s (s.setConn c x') := by
  refine ⟨rfl, fun e => ?_⟩
  rw [conn?_setConn]
  split
  · rename_i he; subst he; rw [hc]; exact hk
  · exact orel_keep_refl _

theorem Kp.updConn {s : BState} {c : ConnId} {f : BConn → BConn} (hf : ∀ x, s.conn? c = some x → Keep x (f x)) :
    Kp s (s.updConn c f) := by
  rw [updConn_eq]
  cases h : s.conn? c with
  | none => exact Kp.refl s
  | some x => exact Kp.setConn h (hf x h)

theorem Kp.setSessOf (s : BState) (c : ConnId) (b : BSess) : Kp s (s.setSessOf c b) :=
  Kp.of_conns (by simp) (by simp)

/-! ### the ledger -/

structure GL (s s' : BState) (g : List GEvent) : Prop where
  bev : s'.bevents = s.bevents ++ g.map (·.ev)
  keep : ∀ c, isCl (s.conn? c) = true →
    isCl (s'.conn? c) = true ∧ willOf (s'.conn? c) = willOf (s.conn? c) ∧ cwills g c = []
  fresh : ∀ c, isCl (s.conn? c) = false → cwills g c = if isCl (s'.conn? c) then willOf (s'.conn? c) else []
  az : AZ s → AZ s'

theorem isCl_of_keep {o o' : Option BConn} (h : ORel Keep o o') :
    (isCl o = true → isCl o' = true ∧ willOf o' = willOf o) ∧ (isCl o = false → isCl o' = false) := by
  cases o with
  | none =>
    rw [h.none_left]
    exact ⟨fun h => ⟨h, rfl⟩, fun h => h⟩
  | some x =>
    obtain ⟨x', rfl, hk⟩ := h.some_left
    exact ⟨hk.cl, hk.ncl⟩

theorem az_of_keep {s s' : BState} (h : ∀ e, ORel Keep (s.conn? e) (s'.conn? e)) (ha : AZ s) : AZ s' := by
  intro c x' hx' hal
  have := h c
  rw [hx'] at this
  obtain ⟨x, hx, hk⟩ := this.some_right
  exact hk.az (ha c x hx) hal

/-- no connection cleaned up, the events `g` appended, none of them a will published by `cleanup` -/
theorem GL.of_keep {s s' : BState} {g : List GEvent} (hb : s'.bevents = s.bevents ++ g.map (·.ev))
    (hc : ∀ e, ORel Keep (s.conn? e) (s'.conn? e)) (hg : ∀ c, cwills g c = []) : GL s s' g := by
  refine ⟨hb, fun c h => ?_, fun c h => ?_, az_of_keep hc⟩
  · obtain ⟨a1, a2⟩ := (isCl_of_keep (hc c)).1 h
    exact ⟨a1, a2, hg c⟩
  · rw [(isCl_of_keep (hc c)).2 h, hg c]; rfl

theorem GL.of_kp {s s' : BState} (h : Kp s s') : GL s s' [] :=
  GL.of_keep (by simp [h.bev]) h.conns (fun _ => rfl)

theorem GL.refl (s : BState) : GL s s [] := GL.of_kp (Kp.refl s)

theorem GL.trans {s1 s2 s3 : BState} {g1 g2 : List GEvent} (h1 : GL s1 s2 g1) (h2 : GL s2 s3 g2) :
    GL s1 s3 (g1 ++ g2) := by
  refine ⟨by rw [h2.bev, h1.bev, List.map_append, List.append_assoc], fun c h => ?_, fun c h => ?_,
    fun h => h2.az (h1.az h)⟩
  · obtain ⟨a1, a2, a3⟩ := h1.keep c h
    obtain ⟨b1, b2, b3⟩ := h2.keep c a1
    exact ⟨b1, b2.trans a2, by rw [cwills_append, a3, b3]; rfl⟩
  · rw [cwills_append, h1.fresh c h]
    cases h12 : isCl (s2.conn? c) with
    | true =>
      obtain ⟨b1, b2, b3⟩ := h2.keep c h12
      simp [b1, b2, b3]
    | false =>
      rw [h2.fresh c h12]
      simp

/-- a publish made by the processor -/
theorem GL.pub {s s' : BState} {c : ConnId} {m : Message}
    (h : backendPublish s c m = .ok s' ∨ backendPublish s c m = .queueFull s') :
    GL s s' [⟨.processor, .publish c m⟩] := by
  have hb := backendPublish_bevents s c m
  have hc := backendPublish_conns s c m
  have : s'.bevents = s.bevents ++ [BEvent.publish c m] ∧ s'.conns = s.conns := by
    rcases h with h | h <;> (rw [h] at hb hc; exact ⟨hb, hc⟩)
  exact GL.of_keep (by simp [this.1]) (fun e => by rw [conn?_of_conns this.2]; exact orel_keep_refl _)
    (fun _ => rfl)

/-! ### `cleanup`, `kill` -/

/-- the ghost output of `cleanup` for a connection whose record is `x` -/
def gCleanup (c : ConnId) (x : BConn) : List GEvent :=
  (willEvents c x ++ termEvents c x).map (fun e => ⟨.cleanup, e⟩)

theorem gCleanup_ev (c : ConnId) (x : BConn) : (gCleanup c x).map (·.ev) = willEvents c x ++ termEvents c x := by
  simp [gCleanup, List.map_map, Function.comp_def]

theorem cwills_gCleanup (c d : ConnId) (x : BConn) :
    cwills (gCleanup d x) c = if c = d then willOf (some x) else [] := by
  unfold gCleanup willEvents termEvents willOf
  by_cases hcd : c = d
  · subst hcd
    split <;> split <;> simp_all [cwills]
  · have : ¬ d = c := fun h => hcd h.symm
    split <;> split <;> simp_all [cwills]

/-- what `cleanupG` does: connection records untouched, its ghost output is `gCleanup` -/
theorem cleanupG_spec (s : BState) (c : ConnId) (x : BConn) :
    RAllG (fun s' g => s'.conns = s.conns ∧ s'.bevents = s.bevents ++ g.map (·.ev) ∧ g = gCleanup c x)
      (cleanupG s c x) := by
  unfold cleanupG
  apply RAllG_bind (Q := fun s1 g1 => s1.conns = s.conns ∧ s1.bevents = s.bevents ++ g1.map (·.ev) ∧
      g1 = (willEvents c x).map (fun e => ⟨.cleanup, e⟩))
  · cases hp : x.phase with
    | connecting => simp [RAllG_one, willEvents, hp]
    | disconnected => simp [RAllG_one, willEvents, hp]
    | connected =>
      cases hw : x.will with
      | none => simp [RAllG_one, willEvents, hp, hw]
      | some w =>
        simp only [willEvents, hp, hw]
        have he := backendPublish_bevents s c w
        have hcn := backendPublish_conns s c w
        cases hb : backendPublish s c w with
        | unsupported e => trivial
        | ok s' => rw [hb] at he hcn; simp only [RAllG_emit]; exact ⟨hcn, by simp; exact he, rfl⟩
        | queueFull s' => rw [hb] at he hcn; simp only [RAllG_emit]; exact ⟨hcn, by simp; exact he, rfl⟩
  · intro s1 g1 ⟨h1, h2, h3⟩
    unfold gCleanup termEvents
    split
    · rename_i hp
      simp only [RAllG_emit]
      refine ⟨by rw [bt_conns, h1], by rw [bt_bevents, h2]; simp, by rw [h3]; simp⟩
    · rename_i hp
      simp only [RAllG_one]
      exact ⟨h1, by rw [h2]; simp, by rw [h3]; simp⟩

/-- the clean-up of `c` as one unit: its record (pending in `s1`) is rewritten to the closed record `x0`,
    then `cleanupG` runs with the record `x` the connection had when it was closed -/
theorem cleanup_unit {s1 : BState} {c : ConnId} {y x x0 : BConn} (hy : s1.conn? c = some y)
    (hpend : isCl (some y) = false) (hcl : isCl (some x0) = true) (hw : willOf (some x0) = willOf (some x)) :
    RAllG (GL s1) (cleanupG (s1.setConn c x0) c x) := by
  refine RAllG_mono (cleanupG_spec (s1.setConn c x0) c x) ?_
  rintro s' g ⟨h1, h2, h3⟩
  have hconn : ∀ e, s'.conn? e = if e = c then some x0 else s1.conn? e := by
    intro e; rw [conn?_of_conns h1, conn?_setConn]
  refine ⟨by rw [h2]; rfl, fun e he => ?_, fun e he => ?_, fun ha e z hz hal => ?_⟩
  · have hec : e ≠ c := by intro h; subst h; rw [hy, hpend] at he; cases he
    rw [hconn, if_neg hec, h3, cwills_gCleanup, if_neg hec]
    exact ⟨he, rfl, rfl⟩
  · rw [hconn, h3, cwills_gCleanup]
    by_cases hec : e = c
    · subst hec; simp only [if_true, hcl, hw]
    · simp only [if_neg hec, he]; rfl
  · rw [hconn] at hz
    split at hz
    · cases hz
      simp only [isCl, Bool.and_eq_true, Bool.not_eq_true'] at hcl
      rw [hcl.1] at hal; cases hal
    · exact ha e z hz hal

theorem willOf_deadRec (x : BConn) : willOf (some (deadRec x)) = willOf (some x) := rfl

theorem killG_gl {s : BState} (ha : AZ s) (d : ConnId) : RAllG (GL s) (killG s d) := by
  unfold killG
  cases hc : s.conn? d with
  | none => exact RAllG_one.2 (GL.refl s)
  | some x =>
    simp only []
    cases hal : x.alive with
    | false => exact RAllG_one.2 (GL.refl s)
    | true =>
      simp only [Bool.not_true, Bool.false_eq_true, if_false]
      have hz : x.zombie = false := ha d x hc hal
      apply RAllG_bind (Q := fun s1 g1 => g1 = [] ∧ s1.conns = s.conns ∧ s1.bevents = s.bevents)
      · rw [RAllG_ofList]
        intro s1 hs1
        refine ⟨rfl, ?_, (lastDequeue_quiet (S := fun _ => True) hc (fun _ _ => trivial) hs1).2⟩
        rcases lastDequeue_mem hs1 with h | ⟨_, b', _, _, _, h⟩
        · rw [h]
        · rw [h]; simp
      · rintro s1 g1 ⟨rfl, hcn, hbe⟩
        have k1 : GL s s1 [] := GL.of_kp (Kp.of_conns hcn hbe)
        have hc1 : s1.conn? d = some x := by rw [conn?_of_conns hcn]; exact hc
        have hpend : isCl (some x) = false := by simp [isCl, hal]
        split
        · refine RAllG_one.2 (k1.trans (GL.of_kp (Kp.setConn hc1 ⟨fun h => ?_, fun _ => by simp [isCl], fun _ h => by cases h⟩)))
          rw [hpend] at h; cases h
        · have := cleanup_unit (x := x) (x0 := { x with alive := false, running := false }) hc1 hpend
            (by simp [isCl, hz]) rfl
          exact RAllG_mono this (fun s' g h => k1.trans h)

theorem killAllG_gl : ∀ (l : List ConnId) {s : BState}, AZ s → RAllG (GL s) (killAllG s l) := by
  intro l
  induction l with
  | nil => intro s _; exact RAllG_one.2 (GL.refl s)
  | cons d rest ih =>
    intro s ha
    simp only [killAllG]
    refine RAllG_bind (killG_gl ha d) ?_
    intro s1 g1 h1
    exact RAllG_mono (ih (h1.az ha)) (fun s' g h => h1.trans h)

theorem publishThenG_gl {s0 s : BState} {g0 : List GEvent} (ha : AZ s0) (h : GL s0 s g0) (c : ConnId) (m : Message)
    (k : BState → ResG)
    (hk : ∀ s' g', GL s0 s' g' → RAllG (fun t g => GL s0 t (g' ++ g)) (k s')) :
    RAllG (fun t g => GL s0 t (g0 ++ g)) (publishThenG s c m k) := by
  unfold publishThenG
  cases hb : backendPublish s c m with
  | unsupported e => trivial
  | ok s' =>
    simp only []
    have h1 := h.trans (GL.pub (Or.inl hb))
    refine RAllG_bind (Q := fun s1 g1 => s1 = s' ∧ g1 = [⟨.processor, .publish c m⟩]) (RAllG_emit.2 ⟨rfl, rfl⟩) ?_
    rintro s1 g1 ⟨rfl, rfl⟩
    refine RAllG_mono (hk s1 _ h1) (fun t g hg => ?_)
    rw [← List.append_assoc]; exact hg
  | queueFull s' =>
    simp only []
    have h1 := h.trans (GL.pub (Or.inr hb))
    refine RAllG_bind (Q := fun s1 g1 => s1 = s' ∧ g1 = [⟨.processor, .publish c m⟩]) (RAllG_emit.2 ⟨rfl, rfl⟩) ?_
    rintro s1 g1 ⟨rfl, rfl⟩
    refine RAllG_mono (killG_gl (h1.az ha) c) (fun t g hg => ?_)
    rw [← List.append_assoc]; exact h1.trans hg

/-! ### pieces of the processor that make no backend call -/

theorem keep_retake (z : BConn) : Keep z (retake z) := by
  have k := kept_retake z
  exact Keep.of_life k.alive k.zombie (fun _ => ⟨k.phase, k.will⟩)

theorem keep_putDeq (cfg : Cfg) (z : BConn) : Keep z (putDeq cfg z) := by
  unfold putDeq
  split
  · exact Keep.trans (b := { z with deqChan := z.deqChan + 1 }) (Keep.of_life rfl rfl (fun _ => ⟨rfl, rfl⟩)) (keep_retake _)
  · exact keep_retake _

theorem kp_forgetIncoming (s : BState) (c : ConnId) (id : UInt16) : Kp s (forgetIncoming c id s) := by
  unfold BState.forgetIncoming
  split
  · exact Kp.setSessOf _ _ _
  · exact Kp.refl s

theorem kp_ackPre (s : BState) (c : ConnId) (p : Packet) : Kp s (ackPre c p s) := by
  unfold BState.ackPre
  split
  · exact kp_forgetIncoming s c _
  · exact Kp.refl s

theorem kp_ackVia (s : BState) (c : ConnId) (p : Packet) (pre : BState → BState) (hpre : Kp s (pre s)) :
    Kp s (ackVia s c p pre) := by
  unfold BState.ackVia
  split
  · exact Kp.refl s
  · split
    · exact Kp.of_conns rfl rfl
    · refine hpre.trans (Kp.updConn ?_)
      intro z _
      split
      · exact Keep.of_life rfl rfl (fun _ => ⟨rfl, rfl⟩)
      · exact Keep.refl z

theorem kp_subscribeRetained (s : BState) (c : ConnId) (subs : List Subscription) :
    R1All (Kp s) (subscribeRetained s c subs) := by
  cases h : subscribeRetained s c subs with
  | ok s' =>
    have f := BrokerB2.subscribeRetained_frame c subs s s' (Or.inl h)
    exact Kp.of_conns f.conns f.bevents
  | queueFull s' =>
    have f := BrokerB2.subscribeRetained_frame c subs s s' (Or.inr h)
    exact Kp.of_conns f.conns f.bevents
  | unsupported e => trivial

theorem ackRelease_kp : ∀ (l : List PendingAck) (s : BState),
    Kp s (l.foldl (fun s a =>
      (ackPre a.conn a.pkt s).updConn a.conn (fun x => if x.alive then { x with ackOut := x.ackOut ++ [a.pkt] } else x)) s) := by
  intro l
  induction l with
  | nil => intro s; exact Kp.refl s
  | cons a rest ih =>
    intro s
    simp only [List.foldl_cons]
    refine ((kp_ackPre s a.conn a.pkt).trans (Kp.updConn ?_)).trans (ih _)
    intro z _
    split
    · exact Keep.of_life rfl rfl (fun _ => ⟨rfl, rfl⟩)
    · exact Keep.refl z

/-! ### one packet on an accepted connection -/

theorem recvG_gl_connected {s : BState} (haz : AZ s) {c : ConnId} {x : BConn} (hx : s.conn? c = some x)
    (ha : x.alive = true) (hph : x.phase = .connected) (p : Packet) : RAllG (GL s) (recvG s c p) := by
  have kset : ∀ x', x'.alive = x.alive → x'.zombie = x.zombie → Kp s (s.setConn c x') := fun x' h1 h2 =>
    Kp.setConn hx (Keep.of_life h1 h2 (fun h => by rw [ha] at h; cases h))
  have kpush : ∀ (s1 : BState) (q : Packet), Kp s1 (s1.updConn c fun x => { x with procOut := x.procOut ++ [q] }) :=
    fun s1 q => Kp.updConn (fun z _ => Keep.of_life rfl rfl (fun _ => ⟨rfl, rfl⟩))
  have fin : ∀ {s' : BState}, Kp s s' → RAllG (GL s) (ResG.one s') := fun h => RAllG_one.2 (GL.of_kp h)
  have kil : ∀ {s' : BState}, Kp s s' → RAllG (GL s) (killG s' c) := fun h =>
    RAllG_mono (killG_gl ((GL.of_kp h).az haz) c) (fun t g hg => (GL.of_kp h).trans hg)
  have pub : ∀ {s1 : BState} (_ : Kp s s1) (m : Message) (k : BState → ResG),
      (∀ s' g', GL s s' g' → RAllG (fun t g => GL s t (g' ++ g)) (k s')) → RAllG (GL s) (publishThenG s1 c m k) := by
    intro s1 h1 m k hk
    have := publishThenG_gl haz (GL.of_kp h1) c m k hk
    exact RAllG_mono this (fun t g hg => by simpa using hg)
  have one' : ∀ {s' s'' : BState} {g' : List GEvent}, GL s s' g' → Kp s' s'' →
      RAllG (fun t g => GL s t (g' ++ g)) (ResG.one s'') := by
    intro s' s'' g' h1 h2
    exact RAllG_one.2 (h1.trans (GL.of_kp h2))
  unfold recvG
  simp only [hx, ha, hph, Bool.not_true, Bool.false_eq_true, if_false]
  split
  · -- subscribe
    rename_i subs id
    split
    · trivial
    · have k1 := kset { x with phase := .connected, alive := true, subTok := x.subTok - 1 } (by simp [ha]) rfl
      split
      · trivial
      · rename_i b hb
        have k3 := (k1.trans (Kp.setSessOf _ c _)).trans
          (kp_ackVia ((s.setConn c { x with phase := .connected, alive := true, subTok := x.subTok - 1 }).setSessOf c
            (subs.foldl (fun b sub => { b with subs := Tree.set sub.topic sub.qos.toNat b.subs }) b))
            c (.suback (subs.map (·.qos)) id) (fun s => s) (Kp.refl _))
        have h4 := kp_subscribeRetained (ackVia ((s.setConn c { x with phase := .connected, alive := true, subTok := x.subTok - 1 }).setSessOf c
            (subs.foldl (fun b sub => { b with subs := Tree.set sub.topic sub.qos.toNat b.subs }) b))
            c (.suback (subs.map (·.qos)) id) (fun s => s)) c subs
        split
        · rename_i s4 hs4; rw [hs4] at h4; exact fin (k3.trans h4)
        · rename_i s4 hs4; rw [hs4] at h4; exact kil (k3.trans h4)
        · trivial
  · -- unsubscribe
    rename_i topics id
    split
    · trivial
    · have k1 := kset { x with phase := .connected, alive := true, subTok := x.subTok - 1 } (by simp [ha]) rfl
      split
      · trivial
      · rename_i b hb
        exact fin ((k1.trans (Kp.setSessOf _ c _)).trans (kp_ackVia _ c _ _ (Kp.refl _)))
  · -- publish
    rename_i m dup id
    split
    · exact pub (Kp.refl s) m _ (fun s' g' h => one' h (Kp.refl _))
    · split
      · trivial
      · have k1 := kset { x with phase := .connected, alive := true, pubTok := x.pubTok - 1 } (by simp [ha]) rfl
        split
        · exact pub k1 m _ (fun s' g' h => one' h (kp_ackVia _ c _ _ (Kp.refl _)))
        · split
          · trivial
          · rename_i b hb
            exact fin ((k1.trans (Kp.setSessOf _ c _)).trans (kpush _ _))
  · -- pubrel
    rename_i id
    split
    · trivial
    · rename_i b hb
      split
      · rename_i m _ _ _
        exact pub (Kp.refl s) m _ (fun s' g' h => one' h (kp_ackVia _ c _ _ (kp_ackPre _ _ _)))
      · exact fin (kpush _ _)
  · -- puback
    rename_i id
    split
    · trivial
    · rename_i b hb
      exact fin ((Kp.setSessOf _ c _).trans (Kp.updConn (fun z _ => keep_putDeq _ z)))
  · -- pubcomp
    rename_i id
    split
    · trivial
    · rename_i b hb
      exact fin ((Kp.setSessOf _ c _).trans (Kp.updConn (fun z _ => keep_putDeq _ z)))
  · -- pubrec
    rename_i id
    split
    · trivial
    · rename_i b hb
      exact fin ((Kp.setSessOf _ c _).trans (kpush _ _))
  · exact fin (kpush _ _)
  · -- disconnect
    exact kil (kset _ (by simp [ha]) rfl)
  · exact kil (Kp.refl s)

/-! ### CONNECT -/

theorem RAllG_and {P Q : BState → List GEvent → Prop} {r : ResG} (h1 : RAllG P r) (h2 : RAllG Q r) :
    RAllG (fun s g => P s g ∧ Q s g) r := by
  cases r with
  | ok ss => exact fun p hp => ⟨h1 p hp, h2 p hp⟩
  | unsupported w => trivial

/-- a successor of `killG` is a successor of `kill` -/
theorem killG_rmem (s : BState) (d : ConnId) : RAllG (fun s' _ => RMem s' (kill s d)) (killG s d) := by
  cases h : killG s d with
  | unsupported w => trivial
  | ok ss => exact fun p hp => rmem_of_erase (killG_erase s d) h hp

/-- installing the session: the record of `c` (alive before and after) is rewritten, one `Setup` call -/
theorem install_gl {s2 s' : BState} {c : ConnId} {x1 x0 : BConn} {r : Bool} (hc2 : s2.conn? c = some x1)
    (h1a : x1.alive = true) (h0a : x0.alive = true) (h0z : x0.zombie = false)
    (hconn : ∀ e, s'.conn? e = if e = c then some x0 else s2.conn? e)
    (hbev : s'.bevents = s2.bevents ++ [BEvent.setup c r]) : GL s2 s' (gSetup c r) := by
  refine GL.of_keep (by simp [hbev, gSetup]) (fun e => ?_) (fun e => cwills_gSetup e c r)
  rw [hconn]
  split
  · rename_i he; subst he; rw [hc2]
    exact ⟨fun h => by simp [isCl, h1a] at h, fun _ => by simp [isCl, h0a], fun _ _ => h0z⟩
  · exact orel_keep_refl _

theorem setupG_gl {s : BState} (haz : AZ s) {c : ConnId} {y x : BConn} (hy : s.conn? c = some y)
    (hya : y.alive = true) (hxa : x.alive = true) (hxz : x.zombie = false) (id : ClientId)
    (hh : holder s id ≠ some c) (clean : Bool) (will : Option Message) :
    RAllG (GL s) (setupAndConnackG s c x id clean will) := by
  rw [setupAndConnackG_eq]
  simp only []
  have k1 : Kp s (s.setConn c { x with phase := .connected, id := id }) :=
    Kp.setConn hy ⟨fun h => by simp [isCl, hya] at h, fun _ => by simp [isCl, hxa], fun _ _ => hxz⟩
  have g1 := GL.of_kp k1
  have haz1 := g1.az haz
  have hc1 : (s.setConn c { x with phase := .connected, id := id }).conn? c = some { x with phase := .connected, id := id } := by
    simp
  have inst : ∀ {s2 s' : BState} {x0 : BConn} {r : Bool} {g2 : List GEvent}, GL s s2 g2 →
      s2.conn? c = some { x with phase := .connected, id := id } →
      InstRec { x with phase := .connected, id := id } x0 (x0.sref) will r →
      (∀ e, s'.conn? e = if e = c then some x0 else s2.conn? e) → s'.bevents = s2.bevents ++ [BEvent.setup c r] →
      RAllG (fun t g => GL s t (g2 ++ g)) (ResG.emit s' (gSetup c r)) := by
    intro s2 s' x0 r g2 h2 hc2 hi hconn hbev
    exact RAllG_emit.2 (h2.trans (install_gl hc2 hxa (by rw [hi.alive]; exact hxa) (by rw [hi.zombie]; exact hxz) hconn hbev))
  split
  · exact RAllG_mono (killG_gl haz1 c) (fun t g h => g1.trans h)
  · split
    · have := inst (x0 := startedRec (s.setConn c { x with phase := .connected, id := id }).cfg
          { x with phase := .connected, id := id } .temp will) (r := false) g1 hc1
        (by have := instRec_started (s.setConn c { x with phase := .connected, id := id }).cfg
              { x with phase := .connected, id := id } .temp will
            rw [this.sref]; exact this)
        (installAnon_conn _ _ _ _) (installAnon_bevents _ _ _ _)
      exact RAllG_mono this (fun t g h => by simpa using h)
    · rw [holder_setConn]
      apply RAllG_bind (Q := fun s2 g2 => GL s s2 g2 ∧
          s2.conn? c = some { x with phase := .connected, id := id })
      · cases hho : holder s id with
        | none => exact RAllG_one.2 ⟨g1, hc1⟩
        | some oc =>
          simp only []
          have hne : c ≠ oc := fun h => hh (by rw [hho, h])
          refine RAllG_mono (RAllG_and (killG_gl haz1 oc) (killG_rmem _ oc)) ?_
          rintro s2 g2 ⟨h2, hm⟩
          have hk := RAll_of_RMem (kill_conns _ oc) hm
          exact ⟨g1.trans h2, by rw [hk.other c hne]; exact hc1⟩
      · rintro s2 g2 ⟨h2, hc2⟩
        have haz2 := h2.az haz
        split
        · exact RAllG_mono (killG_gl haz2 c) (fun t g h => h2.trans h)
        · split
          · exact inst (x0 := startedRec s2.cfg { x with phase := .connected, id := id } .temp will) (r := false) h2 hc2
              (by have := instRec_started s2.cfg { x with phase := .connected, id := id } .temp will
                  rw [this.sref]; exact this)
              (installClean_conn _ _ _ _ _) (installClean_bevents _ _ _ _ _)
          · split
            · rename_i b hb
              exact inst (x0 := resumedRec s2.cfg { x with phase := .connected, id := id } id will b c) (r := true) h2 hc2
                (by have := instRec_resumed s2.cfg { x with phase := .connected, id := id } id will b c
                    rw [this.sref]; exact this)
                (installResume_conn _ _ _ _ _ _) (installResume_bevents _ _ _ _ _ _)
            · exact inst (x0 := startedRec s2.cfg { x with phase := .connected, id := id } (.stored id) will) (r := false)
                h2 hc2
                (by have := instRec_started s2.cfg { x with phase := .connected, id := id } (.stored id) will
                    rw [this.sref]; exact this)
                (installFresh_conn _ _ _ _ _) (installFresh_bevents _ _ _ _ _)

/-! ### one packet, in any situation -/

theorem recvG_connecting_other {s : BState} {c : ConnId} {x : BConn} {p : Packet} (h : s.conn? c = some x)
    (ha : x.alive = true) (hp : x.phase = .connecting) (hn : isConnect p = false) : recvG s c p = killG s c := by
  unfold recvG
  simp only [h, ha, hp]
  cases p <;> simp_all [isConnect]

theorem recvG_gl {s : BState} (haz : AZ s) (hr : RevInv s) (c : ConnId) (p : Packet) : RAllG (GL s) (recvG s c p) := by
  cases hc : s.conn? c with
  | none => unfold recvG; simp only [hc]; trivial
  | some x =>
    cases ha : x.alive with
    | false =>
      unfold recvG; simp only [hc, ha, Bool.not_false, if_true]
      exact RAllG_one.2 (GL.refl s)
    | true =>
      cases hp : x.phase with
      | disconnected =>
        unfold recvG; simp only [hc, ha, hp, Bool.not_true, Bool.false_eq_true, if_false]
        exact RAllG_one.2 (GL.refl s)
      | connected => exact recvG_gl_connected haz hc ha hp p
      | connecting =>
        by_cases hn : isConnect p = false
        · rw [recvG_connecting_other hc ha hp hn]
          exact killG_gl haz c
        · cases p with
          | connect id ka u pw clean will v =>
            unfold recvG; simp only [hc, ha, hp, Bool.not_true, Bool.false_eq_true, if_false]
            have k1 : Kp s (s.setConn c { x with id := id }) :=
              Kp.setConn hc (Keep.of_life rfl rfl (fun h => by rw [ha] at h; cases h))
            have g1 := GL.of_kp k1
            have haz1 := g1.az haz
            split
            · rw [ha, hp] at g1 haz1
              exact RAllG_mono (killG_gl haz1 c) (fun t g h => g1.trans h)
            · split
              · have k2 : Kp s ((s.setConn c { x with id := id }).setConn c
                    { x with id := id, procOut := x.procOut ++ [.connack false 5] }) :=
                  k1.trans (Kp.setConn (x := { x with id := id }) (by simp)
                    (Keep.of_life rfl rfl (fun h => by simp [ha] at h)))
                have g2 := GL.of_kp k2
                have haz2 := g2.az haz
                rw [ha, hp] at g2 haz2
                exact RAllG_mono (killG_gl haz2 c) (fun t g h => g2.trans h)
              · have hh : holder (s.setConn c { x with id := id }) id ≠ some c := by
                  rw [holder_setConn]
                  intro ho
                  obtain ⟨y, hy, hpy⟩ := holder_rev hr ho
                  rw [hc] at hy; cases hy; exact hpy hp
                have := setupG_gl haz1 (y := { x with id := id }) (x := { x with id := id }) (by simp) ha ha
                  (haz c x hc ha) id hh clean will
                rw [ha, hp] at this g1
                exact RAllG_mono this (fun t g h => g1.trans h)
          | _ => exact absurd rfl hn

/-! ### stimuli -/

theorem GL.conn {s : BState} {c : ConnId} (hn : s.conn? c = none) : GL s (s.setConn c {}) [] := by
  have hconn : ∀ e, (s.setConn c {}).conn? e = if e = c then some {} else s.conn? e := fun e => conn?_setConn _ _ _ _
  refine ⟨by simp, fun e he => ?_, fun e he => ?_, fun ha e z hz hal => ?_⟩
  · have hec : e ≠ c := by intro h; subst h; rw [hn] at he; cases he
    rw [hconn, if_neg hec]; exact ⟨he, rfl, rfl⟩
  · rw [hconn]
    by_cases hec : e = c
    · subst hec; simp [isCl, cwills]
    · simp only [if_neg hec, he]; rfl
  · rw [hconn] at hz
    split at hz
    · cases hz; rfl
    · exact ha e z hz hal

theorem stimG_gl {s : BState} (haz : AZ s) (hr : RevInv s) (st : Stim)
    (hfresh : ∀ c, st = .conn c → s.conn? c = none) : RAllG (GL s) (stimG s st) := by
  cases st with
  | conn c => exact RAllG_one.2 (GL.conn (hfresh c rfl))
  | send c p => exact recvG_gl haz hr c p
  | drop c => exact killG_gl haz c
  | ackRelease =>
    exact RAllG_one.2 (GL.of_kp ((ackRelease_kp s.pendingAcks s).trans (Kp.of_conns rfl rfl)))
  | backendClose =>
    simp only [stimG]
    have g0 : GL s { s with closing := true } [] := GL.of_kp (Kp.of_conns rfl rfl)
    exact RAllG_mono (killAllG_gl _ (g0.az haz)) (fun t g h => g0.trans h)
  | stall c =>
    exact RAllG_one.2 (GL.of_kp (Kp.updConn (fun z _ => Keep.of_life rfl rfl (fun _ => ⟨rfl, rfl⟩))))
  | unstall c =>
    simp only [stimG]
    cases hc : s.conn? c with
    | none => trivial
    | some x =>
      simp only []
      split
      · rename_i hz
        have hal : x.alive = false := by
          cases h : x.alive with
          | false => rfl
          | true => rw [haz c x hc h] at hz; cases hz
        exact cleanup_unit (x := x) (x0 := { x with stalled := false, zombie := false }) hc (by simp [isCl, hz])
          (by simp [isCl, hal]) rfl
      · exact RAllG_one.2 (GL.of_kp (Kp.setConn hc (Keep.of_life rfl rfl (fun _ => ⟨rfl, rfl⟩))))
  | tokenTimeout c =>
    simp only [stimG]
    cases hc : s.conn? c with
    | none => trivial
    | some x =>
      simp only []
      split
      · exact killG_gl haz c
      · trivial

/-! ### observations -/

theorem ackSent_life (x : BConn) (cfg : Cfg) (p : Packet) : (ackSent x cfg p).phase = x.phase ∧
    (ackSent x cfg p).alive = x.alive ∧ (ackSent x cfg p).zombie = x.zombie ∧ (ackSent x cfg p).will = x.will := by
  unfold ackSent; split <;> exact ⟨rfl, rfl, rfl, rfl⟩

theorem acceptDelivery_kp {s s' : BState} {c : ConnId} {x : BConn} {b : BSess} {m : Message} {id : UInt16}
    (hx : s.conn? c = some x) (ha : acceptDelivery s c x b m id = some s') : Kp s s' := by
  unfold BState.acceptDelivery at ha
  split at ha
  · cases ha
  · have fin : ∀ (b' : BSess) (out : Message) (r : BState),
        (if out.qos = 0 then
          (if id ≠ 0 then none else
            some ((s.setSessOf c b').setConn c
              (retake { x with deqHand := false, deqChan := min s.cfg.window (x.deqChan + 1) })))
         else
          (if (b'.sess.freshID).1 = 0 then none else
           if (b'.sess.freshID).1 ≠ id then none else
            some ((s.setSessOf c { b' with sess := (b'.sess.freshID).2.savePacket .outgoing (.publish out false id) }).setConn c
              (retake { x with deqHand := false })))) = some r → Kp s r := by
      intro b' out r hr
      split at hr
      · split at hr
        · cases hr
        · injection hr with hr; rw [← hr]
          exact (Kp.setSessOf s c _).trans (Kp.setConn (by rw [setSessOf_conn?]; exact hx)
            (Keep.trans (a := x) (b := { x with deqHand := false, deqChan := min s.cfg.window (x.deqChan + 1) })
              (Keep.of_life rfl rfl (fun _ => ⟨rfl, rfl⟩)) (keep_retake _)))
      · split at hr
        · cases hr
        · split at hr
          · cases hr
          · injection hr with hr; rw [← hr]
            exact (Kp.setSessOf s c _).trans (Kp.setConn (by rw [setSessOf_conn?]; exact hx)
              (Keep.trans (a := x) (b := { x with deqHand := false }) (Keep.of_life rfl rfl (fun _ => ⟨rfl, rfl⟩)) (keep_retake _)))
    simp only at ha
    split at ha
    · rename_i s1 hfs
      injection ha with ha
      subst ha
      split at hfs
      · split at hfs
        · exact fin _ _ _ hfs
        · cases hfs
      · cases hfs
    · split at ha
      · cases ha
      · split at ha
        · exact fin _ _ _ ha
        · cases ha

theorem observeSent_kp {s s' : BState} {c : ConnId} {p : Packet} (ho : observeSent s c p = some s') : Kp s s' := by
  unfold BState.observeSent at ho
  split at ho
  · cases ho
  · rename_i x hx
    split at ho
    · cases ho
    · split at ho
      · injection ho with ho; rw [← ho]
        exact Kp.setConn hx (Keep.of_life rfl rfl (fun _ => ⟨rfl, rfl⟩))
      · split at ho
        · rename_i rest _
          injection ho with ho; rw [← ho]
          obtain ⟨r1, r2, r3, r4⟩ := ackSent_life { x with ackOut := rest } s.cfg p
          exact Kp.setConn hx (Keep.of_life r2 r3 (fun _ => ⟨r1, r4⟩))
        · split at ho
          · split at ho
            · exact acceptDelivery_kp hx ho
            · cases ho
          · cases ho

/-- what one step with ghost output does -/
inductive StepKindG (s s' : BState) (g : List GEvent) : Prop where
  | led : GL s s' g → StepKindG s s' g
  | observed (e : BEvent) : e ∈ s.bevents → s'.bevents = s.bevents.erase e → s'.conns = s.conns → g = [] →
      StepKindG s s' g

theorem observeG_kind {s s' : BState} {g : List GEvent} (haz : AZ s) (o : Obs) (hm : (s', g) ∈ observeG s o) :
    StepKindG s s' g := by
  cases o with
  | backend e =>
    simp only [observeG, observe, List.mem_map] at hm
    obtain ⟨t, ht, heq⟩ := hm
    cases heq
    split at ht
    · rename_i hc
      simp only [List.mem_singleton] at ht; subst ht
      exact .observed e (by simpa using hc) rfl rfl rfl
    · cases ht
  | closed c =>
    simp only [observeG, observe, List.mem_map] at hm
    obtain ⟨t, ht, heq⟩ := hm
    cases heq
    split at ht
    · rename_i x hx
      split at ht
      · simp only [List.mem_singleton] at ht; subst ht
        exact .led (GL.of_kp (Kp.setConn hx (Keep.of_life rfl rfl (fun _ => ⟨rfl, rfl⟩))))
      · cases ht
    · cases ht
  | sent c p =>
    simp only [observeG, observe, List.mem_map, Option.mem_toList] at hm
    obtain ⟨t, ht, heq⟩ := hm
    cases heq
    exact .led (GL.of_kp (observeSent_kp ht))
  | sendFail c p =>
    simp only [observeG] at hm
    split at hm
    · rename_i s1 hs1
      have k1 := GL.of_kp (observeSent_kp hs1)
      split at hm
      · rename_i ss hk
        simp only [List.mem_map] at hm
        obtain ⟨sg, hsg, heq⟩ := hm
        cases heq
        have h2 := RAllG_ok (killG_gl (k1.az haz) c) hk sg hsg
        have k3 : Kp sg.1 (sg.1.updConn c fun x => { x with procOut := [], ackOut := [] }) :=
          Kp.updConn (fun z _ => Keep.of_life rfl rfl (fun _ => ⟨rfl, rfl⟩))
        have := (k1.trans h2).trans (GL.of_kp k3)
        simp only [List.nil_append, List.append_nil] at this
        exact .led this
      · cases hm
    · cases hm

/-! ### histories with the tagged ghost log -/

/-- one step of the instrumented model in an environment that never reuses a connection identifier,
    with the backend calls it made (tagged with their origin) -/
inductive StepG : BState → BState → List GEvent → Prop where
  | stim {s s' : BState} {g : List GEvent} (st : Stim) (hfresh : ∀ c, st = .conn c → s.conn? c = none)
      (ss : List (BState × List GEvent)) (h : stimG s st = .ok ss) (hm : (s', g) ∈ ss) : StepG s s' g
  | obs {s s' : BState} {g : List GEvent} (o : Obs) (hm : (s', g) ∈ observeG s o) : StepG s s' g
  | ackMode {s : BState} (late never : Bool) : StepG s { s with lateAck := late, neverAck := never } []

/-- histories from the empty broker, with the log of all backend calls ever made, each tagged with
    its origin -/
inductive RunW (cfg : Cfg) : BState → List GEvent → Prop where
  | init : RunW cfg { cfg := cfg } []
  | step {s s' : BState} {log g : List GEvent} : RunW cfg s log → StepG s s' g → RunW cfg s' (log ++ g)

/-- a step of the instrumented model is a step of the model -/
theorem StepG.toStepF {s s' : BState} {g : List GEvent} (h : StepG s s' g) : StepF s s' := by
  cases h with
  | stim st hfresh ss h hm =>
    have he := stimG_erase s st
    rw [h] at he
    exact StepF.stim st hfresh _ he.symm (List.mem_map.2 ⟨(s', g), hm, rfl⟩)
  | obs o hm =>
    refine StepF.obs o ?_
    rw [← observeG_erase]
    exact List.mem_map.2 ⟨(s', g), hm, rfl⟩
  | ackMode late never => exact StepF.ackMode late never

/-- … and every step of the model is a step of the instrumented model, with some ghost output -/
theorem stepG_of_stepF {s s' : BState} (h : StepF s s') : ∃ g, StepG s s' g := by
  cases h with
  | stim st hfresh ss h hm =>
    have he := stimG_erase s st
    cases hg : stimG s st with
    | unsupported w => rw [hg, h] at he; cases he
    | ok ssG =>
      rw [hg, h] at he
      simp only [ResG.erase, Res.ok.injEq] at he
      rw [← he] at hm
      obtain ⟨p, hp, rfl⟩ := List.mem_map.1 hm
      exact ⟨p.2, StepG.stim st hfresh ssG hg hp⟩
  | obs o hm =>
    rw [← observeG_erase] at hm
    obtain ⟨p, hp, rfl⟩ := List.mem_map.1 hm
    exact ⟨p.2, StepG.obs o hp⟩
  | ackMode late never => exact ⟨[], StepG.ackMode late never⟩

theorem stepG_kind {s s' : BState} {g : List GEvent} (haz : AZ s) (hr : RevInv s) (h : StepG s s' g) :
    StepKindG s s' g := by
  cases h with
  | stim st hfresh ss h hm => exact .led (RAllG_ok (stimG_gl haz hr st hfresh) h (s', g) hm)
  | obs o hm => exact observeG_kind haz o hm
  | ackMode late never => exact .led (GL.of_kp (Kp.of_conns rfl rfl))

/-- the ghost output of a step, tags forgotten, is exactly what the step appended to `bevents` -/
theorem appended_of_kind {s s' : BState} {g : List GEvent} (h : StepKindG s s' g) :
    appended s s' = g.map (·.ev) := by
  cases h with
  | led l =>
    unfold appended
    rw [l.bev]
    simp
  | observed e he hb hc hg =>
    subst hg
    unfold appended
    rw [hb, List.length_erase_of_mem he]
    have : 0 < s.bevents.length := List.length_pos_of_mem he
    rw [if_neg (by omega)]
    rfl

/-- the invariant: the wills published by `cleanup` for `c` so far are: its will, once it has been
    cleaned up in phase `connected` with a will stored — nothing otherwise -/
def WInv (s : BState) (log : List GEvent) : Prop :=
  ∀ c, cwills log c = if isCl (s.conn? c) then willOf (s.conn? c) else []

theorem az_of_inv {s : BState} (h : Inv s) : AZ s := fun c x hx ha => h.1.az c x hx ha

theorem winv_step {s s' : BState} {log g : List GEvent} (hw : WInv s log) (hk : StepKindG s s' g) :
    WInv s' (log ++ g) := by
  intro c
  rw [cwills_append, hw c]
  cases hk with
  | led l =>
    cases hcl : isCl (s.conn? c) with
    | true =>
      obtain ⟨a1, a2, a3⟩ := l.keep c hcl
      simp [a1, a2, a3]
    | false =>
      rw [l.fresh c hcl]
      simp
  | observed e he hb hc hg =>
    subst hg
    rw [conn?_of_conns hc]
    simp [cwills]

/-- the tagged log, tags forgotten, is B4's ghost log of the same history (C14): the sequence of all
    backend calls ever appended to `bevents` -/
theorem runW_inv {cfg : Cfg} {s : BState} {log : List GEvent} (h : RunW cfg s log) :
    RunG cfg s (log.map (·.ev)) ∧ WInv s log := by
  induction h with
  | init => exact ⟨RunG.init, fun c => rfl⟩
  | @step s0 s1 log0 g _ hs ih =>
    obtain ⟨hi, hr, _⟩ := runG_inv ih.1
    have hk := stepG_kind (az_of_inv hi) hr hs
    refine ⟨?_, winv_step ih.2 hk⟩
    rw [List.map_append, ← appended_of_kind hk]
    exact RunG.step ih.1 hs.toStepF

/-- every history of the model (C14's `RunG`) is a history of the instrumented model, with the same
    backend calls in the same order -/
theorem runW_of_runG {cfg : Cfg} {s : BState} {l : List BEvent} (h : RunG cfg s l) :
    ∃ log, RunW cfg s log ∧ log.map (·.ev) = l := by
  induction h with
  | init => exact ⟨[], RunW.init, rfl⟩
  | @step s0 s1 l0 _ hs ih =>
    obtain ⟨log, hl, he⟩ := ih
    obtain ⟨g, hg⟩ := stepG_of_stepF hs
    refine ⟨log ++ g, RunW.step hl hg, ?_⟩
    obtain ⟨hi, hr, _⟩ := runG_inv (runW_inv hl).1
    rw [List.map_append, he, appended_of_kind (stepG_kind (az_of_inv hi) hr hg)]

theorem RunW.reachable {cfg : Cfg} {s : BState} {log : List GEvent} (h : RunW cfg s log) : Reachable cfg s :=
  (runW_inv h).1.reachable

/-- C12, global form: over every history, the messages `cleanup` published on behalf of connection `c`
    are: the will stored for it, if `c` is closed, its `cleanup` has run (not a zombie), it had been
    accepted and did not DISCONNECT (phase `connected`) and a will is stored — and nothing otherwise -/
theorem will_exactly_once {cfg : Cfg} {s : BState} {log : List GEvent} (h : RunW cfg s log) (c : ConnId) :
    cwills log c = if isCl (s.conn? c) then willOf (s.conn? c) else [] := (runW_inv h).2 c

theorem willOf_length (o : Option BConn) : (willOf o).length ≤ 1 := by
  unfold willOf
  split
  · split <;> simp
  · simp

theorem will_at_most_once {cfg : Cfg} {s : BState} {log : List GEvent} (h : RunW cfg s log) (c : ConnId) :
    (cwills log c).length ≤ 1 := by
  rw [will_exactly_once h c]
  split
  · exact willOf_length _
  · simp

end BrokerB5
