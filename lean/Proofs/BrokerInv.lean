import Proofs.BrokerLife
/-
  Proofs/BrokerInv.lean — the inductive invariant of the broker model (C13 `unique_active`) and the
  frame / life-cycle facts about whole stimuli (C14).  Namespace `BrokerB4`.
-/
namespace BrokerB4
open BState

/-! ### the installed session and connection record -/

/-- the newcomer's record after `Setup`: life-cycle fields as before, the session reference set,
    the will stored, CONNACK (and the resent packets) appended to the processor's output -/
structure InstRec (x1 x' : BConn) (sr : SessRef) (will : Option Message) (sp : Bool) : Prop where
  alive : x'.alive = x1.alive
  phase : x'.phase = x1.phase
  id : x'.id = x1.id
  zombie : x'.zombie = x1.zombie
  stalled : x'.stalled = x1.stalled
  sref : x'.sref = sr
  will : x'.will = will
  closedSeen : x'.closedSeen = x1.closedSeen
  ackOut : x'.ackOut = x1.ackOut
  procOut : ∃ rest, x'.procOut = x1.procOut ++ Packet.connack sp 0 :: rest

/-- the record built by the three non-resuming branches of `Setup` -/
def startedRec (cfg : Cfg) (x1 : BConn) (sr : SessRef) (will : Option Message) : BConn :=
  retake (startConn cfg { x1 with sref := sr, will := will, running := true,
                                  procOut := x1.procOut ++ [Packet.connack false 0] })

/-- the record built when a stored session is resumed -/
def resumedRec (cfg : Cfg) (x1 : BConn) (id : ClientId) (will : Option Message) (b : BSess) (c : ConnId) : BConn :=
  retake (resend { b with tempQ := [], active := some c }
    (startConn cfg { x1 with sref := .stored id, will := will, running := true,
                             procOut := x1.procOut ++ [Packet.connack true 0] })).2

theorem instRec_started (cfg : Cfg) (x1 : BConn) (sr : SessRef) (will : Option Message) :
    InstRec x1 (startedRec cfg x1 sr will) sr will false := by
  let y : BConn := { x1 with sref := sr, will := will, running := true,
                             procOut := x1.procOut ++ [Packet.connack false 0] }
  have hk : Kept y (retake (startConn cfg y)) := (kept_startConn cfg y).trans (kept_retake _)
  exact ⟨hk.alive, hk.phase, hk.id, hk.zombie, hk.stalled, hk.sref, hk.will, hk.closedSeen, hk.ackOut,
    ⟨[], hk.procOut⟩⟩

theorem instRec_resumed (cfg : Cfg) (x1 : BConn) (id : ClientId) (will : Option Message) (b : BSess) (c : ConnId) :
    InstRec x1 (resumedRec cfg x1 id will b c) (.stored id) will true := by
  let y : BConn := { x1 with sref := .stored id, will := will, running := true,
                             procOut := x1.procOut ++ [Packet.connack true 0] }
  have hk := kept_retake ((resend { b with tempQ := [], active := some c } (startConn cfg y)).2)
  refine ⟨hk.alive, hk.phase, hk.id, hk.zombie, hk.stalled, hk.sref, hk.will, hk.closedSeen, hk.ackOut, ?_⟩
  unfold resumedRec
  rw [hk.procOut]
  simp only [resend, startConn, y, List.append_assoc, List.singleton_append]
  exact ⟨_, rfl⟩

theorem installAnon_conn (s : BState) (c : ConnId) (x1 : BConn) (will : Option Message) (e : ConnId) :
    (installAnon s c x1 will).conn? e = if e = c then some (startedRec s.cfg x1 .temp will) else s.conn? e := by
  simp only [installAnon, conn?_setConn]; rfl

theorem installClean_conn (s : BState) (c : ConnId) (x1 : BConn) (id : ClientId) (will : Option Message) (e : ConnId) :
    (installClean s c x1 id will).conn? e = if e = c then some (startedRec s.cfg x1 .temp will) else s.conn? e := by
  simp only [installClean, conn?_setConn]; rfl

theorem installFresh_conn (s : BState) (c : ConnId) (x1 : BConn) (id : ClientId) (will : Option Message) (e : ConnId) :
    (installFresh s c x1 id will).conn? e =
      if e = c then some (startedRec s.cfg x1 (.stored id) will) else s.conn? e := by
  simp only [installFresh, conn?_setConn]; rfl

theorem installResume_conn (s : BState) (c : ConnId) (x1 : BConn) (id : ClientId) (will : Option Message) (b : BSess)
    (e : ConnId) :
    (installResume s c x1 id will b).conn? e =
      if e = c then some (resumedRec s.cfg x1 id will b c) else s.conn? e := by
  simp only [installResume, resend, conn?_setConn]; rfl

/-- the session a resumed connection gets: the stored one, temporary backlog dropped, owner set,
    outgoing PUBLISH packets flagged dup -/
def resumedSess (b : BSess) (c : ConnId) : BSess :=
  { b with tempQ := [], active := some c,
           sess := { b.sess with outgoing := ⟨b.sess.outgoing.entries.map (fun e =>
             match e.2 with
             | .publish m _ id => (e.1, Packet.publish m true id)
             | p => (e.1, p))⟩ } }

theorem installAnon_stored (s : BState) (c : ConnId) (x1 : BConn) (will : Option Message) :
    (installAnon s c x1 will).stored = s.stored := rfl
theorem installAnon_temp (s : BState) (c : ConnId) (x1 : BConn) (will : Option Message) :
    (installAnon s c x1 will).temp = Assoc.set s.temp c (newSess c) := rfl
theorem installAnon_ac (s : BState) (c : ConnId) (x1 : BConn) (will : Option Message) :
    (installAnon s c x1 will).activeClients = s.activeClients := rfl
theorem installAnon_bevents (s : BState) (c : ConnId) (x1 : BConn) (will : Option Message) :
    (installAnon s c x1 will).bevents = s.bevents ++ [BEvent.setup c false] := rfl

theorem installClean_stored (s : BState) (c : ConnId) (x1 : BConn) (id : ClientId) (will : Option Message) :
    (installClean s c x1 id will).stored = Assoc.del s.stored id := rfl
theorem installClean_temp (s : BState) (c : ConnId) (x1 : BConn) (id : ClientId) (will : Option Message) :
    (installClean s c x1 id will).temp = Assoc.set s.temp c (newSess c) := rfl
theorem installClean_ac (s : BState) (c : ConnId) (x1 : BConn) (id : ClientId) (will : Option Message) :
    (installClean s c x1 id will).activeClients = Assoc.set s.activeClients id c := rfl
theorem installClean_bevents (s : BState) (c : ConnId) (x1 : BConn) (id : ClientId) (will : Option Message) :
    (installClean s c x1 id will).bevents = s.bevents ++ [BEvent.setup c false] := rfl

theorem installFresh_stored (s : BState) (c : ConnId) (x1 : BConn) (id : ClientId) (will : Option Message) :
    (installFresh s c x1 id will).stored = Assoc.set s.stored id (newSess c) := rfl
theorem installFresh_temp (s : BState) (c : ConnId) (x1 : BConn) (id : ClientId) (will : Option Message) :
    (installFresh s c x1 id will).temp = s.temp := rfl
theorem installFresh_ac (s : BState) (c : ConnId) (x1 : BConn) (id : ClientId) (will : Option Message) :
    (installFresh s c x1 id will).activeClients = Assoc.set s.activeClients id c := rfl
theorem installFresh_bevents (s : BState) (c : ConnId) (x1 : BConn) (id : ClientId) (will : Option Message) :
    (installFresh s c x1 id will).bevents = s.bevents ++ [BEvent.setup c false] := rfl

theorem installResume_stored (s : BState) (c : ConnId) (x1 : BConn) (id : ClientId) (will : Option Message) (b : BSess) :
    (installResume s c x1 id will b).stored = Assoc.set s.stored id (resumedSess b c) := rfl
theorem installResume_temp (s : BState) (c : ConnId) (x1 : BConn) (id : ClientId) (will : Option Message) (b : BSess) :
    (installResume s c x1 id will b).temp = s.temp := rfl
theorem installResume_ac (s : BState) (c : ConnId) (x1 : BConn) (id : ClientId) (will : Option Message) (b : BSess) :
    (installResume s c x1 id will b).activeClients = Assoc.set s.activeClients id c := rfl
theorem installResume_bevents (s : BState) (c : ConnId) (x1 : BConn) (id : ClientId) (will : Option Message) (b : BSess) :
    (installResume s c x1 id will b).bevents = s.bevents ++ [BEvent.setup c true] := rfl

/-! ### `setupAndConnack` keeps the invariant -/

theorem takeOver_conns {s1 s2 : BState} {id : ClientId} (h : TakeOver s1 id s2) :
    match holder s1 id with
    | some oc => KillConns s1 oc s2
    | none => s2 = s1 := by
  unfold TakeOver at h
  split
  · rename_i oc ho; rw [ho] at h; exact RAll_of_RMem (kill_conns s1 oc) h
  · rename_i ho; rw [ho] at h; exact h

theorem takeOver_invW {s1 s2 : BState} {id : ClientId} (h1 : InvW s1) (h : TakeOver s1 id s2) : InvW s2 := by
  unfold TakeOver at h
  split at h
  · exact RAll_of_RMem (kill_invW h1 _) h
  · rw [h]; exact h1

theorem setup_invW {s : BState} {c : ConnId} {x : BConn} {id : ClientId} {clean : Bool} {will : Option Message}
    (h : InvW s) (hsr : x.sref = .none) (haz : x.alive = true → x.zombie = false) :
    RAll InvW (setupAndConnack s c x id clean will) := by
  refine RAll_mono (setup_shape s c x id clean will) (fun s' hs => ?_)
  have h1 : InvW (s.setConn c (acceptedRec x id)) := h.setConn_none c hsr haz
  have hph : ∀ sr w, (startedRec (s.setConn c (acceptedRec x id)).cfg (acceptedRec x id) sr w).phase ≠ .connecting := by
    intro sr w; rw [(instRec_started _ _ _ _).phase]; simp [acceptedRec]
  cases hs with
  | closing _ hm => exact RAll_of_RMem (kill_invW h1 c) hm
  | anon _ hlen he =>
    subst he
    have hr := instRec_started (s.setConn c (acceptedRec x id)).cfg (acceptedRec x id) .temp will
    refine h1.install c (fun _ => False) (installAnon_conn _ _ _ _) (fun _ _ => rfl) ?_ (fun _ _ => rfl)
      (fun _ _ _ _ _ => ⟨fun _ _ hk => hk, fun _ _ hk => hk⟩) ?_ ?_ (Or.inl ⟨hr.sref, ?_, ?_⟩)
    · intro k hk; rw [installAnon_temp, get_set_other _ _ _ _ hk]
    · rw [hr.alive, hr.zombie]; exact haz
    · rw [hr.phase]; simp [acceptedRec]
    · exact ⟨newSess c, by rw [installAnon_temp, get_set_same], rfl⟩
    · rw [hr.id]; intro hne; exfalso; apply hne
      exact List.eq_nil_of_length_eq_zero hlen
  | refused s2 _ _ hto _ hm => exact RAll_of_RMem (kill_invW (takeOver_invW h1 hto) c) hm
  | installed s2 _ hlen hto hns he =>
    subst he
    have h2 := takeOver_invW h1 hto
    have hid : id ≠ [] := fun h => hlen (by rw [h]; rfl)
    have hfree := free_after h1 hid (takeOver_conns hto) hns
    have hfree' : ∀ e y, e ≠ c → s2.conn? e = some y → (y.alive = true ∨ y.zombie = true) →
        (∀ i, y.sref = .stored i → ¬ i = id) ∧ (y.sref = .temp → y.id ≠ [] → ¬ y.id = id) := by
      intro e y _ hy hl
      obtain ⟨f1, f2⟩ := hfree e y hy hl
      exact ⟨fun i hi hii => f1 (hii ▸ hi), fun ht _ => f2 ht⟩
    unfold installNamed
    split
    · have hr := instRec_started s2.cfg (acceptedRec x id) .temp will
      refine h2.install c (fun k => k = id) (installClean_conn _ _ _ _ _) ?_ ?_ ?_ hfree' ?_ ?_ (Or.inl ⟨hr.sref, ?_, ?_⟩)
      · intro k hk; rw [installClean_stored, get_del_other _ _ _ hk]
      · intro k hk; rw [installClean_temp, get_set_other _ _ _ _ hk]
      · intro k hk; rw [installClean_ac, get_set_other _ _ _ _ hk]
      · rw [hr.alive, hr.zombie]; exact haz
      · rw [hr.phase]; simp [acceptedRec]
      · exact ⟨newSess c, by rw [installClean_temp, get_set_same], rfl⟩
      · rw [hr.id]; intro _
        exact ⟨by rw [installClean_ac]; exact get_set_same _ _ _, by rw [installClean_stored]; exact get_del_same _ _⟩
    · split
      · rename_i b hb
        have hr := instRec_resumed s2.cfg (acceptedRec x id) id will b c
        refine h2.install c (fun k => k = id) (installResume_conn _ _ _ _ _ _) ?_ ?_ ?_ hfree' ?_ ?_
          (Or.inr ⟨id, hr.sref, hr.id, resumedSess b c, ?_, rfl⟩)
        · intro k hk; rw [installResume_stored, get_set_other _ _ _ _ hk]
        · intro k _; rw [installResume_temp]
        · intro k hk; rw [installResume_ac, get_set_other _ _ _ _ hk]
        · rw [hr.alive, hr.zombie]; exact haz
        · rw [hr.phase]; simp [acceptedRec]
        · rw [installResume_stored]; exact get_set_same _ _ _
      · have hr := instRec_started s2.cfg (acceptedRec x id) (.stored id) will
        refine h2.install c (fun k => k = id) (installFresh_conn _ _ _ _ _) ?_ ?_ ?_ hfree' ?_ ?_
          (Or.inr ⟨id, hr.sref, hr.id, newSess c, ?_, rfl⟩)
        · intro k hk; rw [installFresh_stored, get_set_other _ _ _ _ hk]
        · intro k _; rw [installFresh_temp]
        · intro k hk; rw [installFresh_ac, get_set_other _ _ _ _ hk]
        · rw [hr.alive, hr.zombie]; exact haz
        · rw [hr.phase]; simp [acceptedRec]
        · rw [installFresh_stored]; exact get_set_same _ _ _

/-! ### what a CONNECT does to the connection records -/

/-- `e` held the session for `id` and was closed by the take-over -/
def Victim (s : BState) (id : ClientId) (e : ConnId) (s' : BState) : Prop :=
  holder s id = some e ∧ ∃ x, s.conn? e = some x ∧ x.alive = true ∧
    s'.conn? e = some (if x.stalled then zombieRec x else deadRec x)

theorem holder_setConn (s : BState) (c : ConnId) (x : BConn) (id : ClientId) :
    holder (s.setConn c x) id = holder s id := rfl

theorem takeOver_each {s1 s2 : BState} {id : ClientId} (h : TakeOver s1 id s2) (e : ConnId) :
    s2.conn? e = s1.conn? e ∨ Victim s1 id e s2 := by
  have hk := takeOver_conns h
  cases ho : holder s1 id with
  | none => rw [ho] at hk; simp only at hk; rw [hk]; exact Or.inl rfl
  | some oc =>
    rw [ho] at hk; simp only at hk
    by_cases he : e = oc
    · subst he
      cases hx : s1.conn? e with
      | none => left; rw [hk.absent hx]
      | some x =>
        cases ha : x.alive with
        | false => left; rw [hk.dead x hx ha]
        | true => right; exact ⟨ho, x, hx, ha, hk.live x hx ha⟩
    · left; exact hk.other e he

theorem not_alive_killed (x : BConn) : (if x.stalled = true then zombieRec x else deadRec x).alive = false := by
  split <;> rfl

/-- the newcomer after `processConnect`: installed with a session, or closed -/
theorem setup_conns {s : BState} {c : ConnId} {x : BConn} {id : ClientId} {clean : Bool} {will : Option Message}
    {s' : BState} (hs : SetupShape s c x id clean will s') :
    (∀ e, e ≠ c → s'.conn? e = s.conn? e ∨ Victim s id e s') ∧
    (∀ x', s'.conn? c = some x' → x'.alive = true → x'.sref ≠ .none ∧ x'.phase = .connected ∧ x'.id = id) := by
  have hs1 : ∀ e, e ≠ c → (s.setConn c (acceptedRec x id)).conn? e = s.conn? e := by
    intro e he; simp [he]
  have hvict : ∀ e s2, e ≠ c → Victim (s.setConn c (acceptedRec x id)) id e s2 → Victim s id e s2 := by
    intro e s2 he ⟨h1, y, hy, h2⟩
    exact ⟨h1, y, by rw [← hs1 e he]; exact hy, h2⟩
  have killc : ∀ s2 s3, KillConns s2 c s3 → ∀ x', s3.conn? c = some x' → x'.alive = true → False := by
    intro s2 s3 hk x' hx' ha
    cases hx : s2.conn? c with
    | none => rw [hk.absent hx] at hx'; cases hx'
    | some y =>
      cases hal : y.alive with
      | false => rw [hk.dead y hx hal] at hx'; cases hx'; rw [hal] at ha; cases ha
      | true => rw [hk.live y hx hal] at hx'; cases hx'; rw [not_alive_killed] at ha; cases ha
  cases hs with
  | closing _ hm =>
    have hk := RAll_of_RMem (kill_conns _ c) hm
    exact ⟨fun e he => Or.inl (by rw [hk.other e he, hs1 e he]), fun x' hx' ha => (killc _ _ hk x' hx' ha).elim⟩
  | anon _ _ he =>
    subst he
    refine ⟨fun e he => Or.inl (by rw [installAnon_conn, if_neg he, hs1 e he]), fun x' hx' _ => ?_⟩
    rw [installAnon_conn, if_pos rfl] at hx'; cases hx'
    have hr := instRec_started (s.setConn c (acceptedRec x id)).cfg (acceptedRec x id) .temp will
    exact ⟨by rw [hr.sref]; simp, hr.phase, hr.id⟩
  | refused s2 _ _ hto _ hm =>
    have hk := RAll_of_RMem (kill_conns _ c) hm
    refine ⟨fun e he => ?_, fun x' hx' ha => (killc _ _ hk x' hx' ha).elim⟩
    rw [hk.other e he]
    rcases takeOver_each hto e with h | h
    · left; rw [h, hs1 e he]
    · right
      obtain ⟨h1, y, hy, h2⟩ := hvict e s2 he h
      exact ⟨h1, y, hy, h2.1, by rw [hk.other e he]; exact h2.2⟩
  | installed s2 _ _ hto _ he =>
    subst he
    have hconn : ∃ x', (x'.sref ≠ .none ∧ x'.phase = .connected ∧ x'.id = id) ∧
        ∀ e, (installNamed s2 c (acceptedRec x id) id clean will).conn? e = if e = c then some x' else s2.conn? e := by
      unfold installNamed
      split
      · have hr := instRec_started s2.cfg (acceptedRec x id) .temp will
        exact ⟨_, ⟨by rw [hr.sref]; simp, hr.phase, hr.id⟩, installClean_conn _ _ _ _ _⟩
      · split
        · rename_i b _
          have hr := instRec_resumed s2.cfg (acceptedRec x id) id will b c
          exact ⟨_, ⟨by rw [hr.sref]; simp, hr.phase, hr.id⟩, installResume_conn _ _ _ _ _ _⟩
        · have hr := instRec_started s2.cfg (acceptedRec x id) (.stored id) will
          exact ⟨_, ⟨by rw [hr.sref]; simp, hr.phase, hr.id⟩, installFresh_conn _ _ _ _ _⟩
    obtain ⟨x0, hx0, hconn⟩ := hconn
    refine ⟨fun e he => ?_, fun x' hx' _ => ?_⟩
    · rw [hconn, if_neg he]
      rcases takeOver_each hto e with h | h
      · left; rw [h, hs1 e he]
      · right
        obtain ⟨h1, y, hy, h2⟩ := hvict e s2 he h
        exact ⟨h1, y, hy, h2.1, by rw [hconn, if_neg he]; exact h2.2⟩
    · rw [hconn, if_pos rfl] at hx'; cases hx'; exact hx0

/-! ### case analysis of `recv` -/

def isConnect : Packet → Bool
  | .connect .. => true
  | _ => false

/-- Hoare rule for `recv`: the five situations the processor can be in -/
theorem recv_rule {P : BState → Prop} (s : BState) (c : ConnId) (p : Packet)
    (hidle : ∀ x, s.conn? c = some x → (x.alive = false ∨ x.phase = .disconnected) → P s)
    (hoff : ∀ x, s.conn? c = some x → x.alive = true → x.phase = .connecting → isConnect p = false →
      RAll P (kill s c))
    (hconn : ∀ x id ka u pw clean will v, s.conn? c = some x → x.alive = true → x.phase = .connecting →
      p = .connect id ka u pw clean will v →
      ((s.setConn c { x with id := id }).closing = true → RAll P (kill (s.setConn c { x with id := id }) c)) ∧
      ((s.setConn c { x with id := id }).closing = false → authenticate (s.setConn c { x with id := id }) u pw = false →
        RAll P (kill ((s.setConn c { x with id := id }).setConn c
          { x with id := id, procOut := x.procOut ++ [.connack false 5] }) c)) ∧
      ((s.setConn c { x with id := id }).closing = false → authenticate (s.setConn c { x with id := id }) u pw = true →
        RAll P (setupAndConnack (s.setConn c { x with id := id }) c { x with id := id } id clean will)))
    (hdisc : ∀ x, s.conn? c = some x → x.alive = true → x.phase = .connected → p = .disconnect →
      RAll P (kill (s.setConn c { x with will := none, phase := .disconnected }) c))
    (hq : ∀ x, s.conn? c = some x → x.alive = true → x.phase = .connected → p ≠ .disconnect →
      ∀ s', QK c (fun k => x.sref = .stored k) s s' → P s') :
    RAll P (recv s c p) := by
  cases hc : s.conn? c with
  | none => unfold recv; simp only [hc]; trivial
  | some x =>
    cases ha : x.alive with
    | false =>
      unfold recv; simp only [hc, ha, Bool.not_false, if_true]
      exact RAll_one.2 (hidle x hc (Or.inl ha))
    | true =>
      cases hp : x.phase with
      | disconnected =>
        unfold recv; simp only [hc, ha, hp, Bool.not_true, Bool.false_eq_true, if_false]
        exact RAll_one.2 (hidle x hc (Or.inr hp))
      | connected =>
        by_cases hd : p = .disconnect
        · subst hd
          have := hdisc x hc ha hp rfl
          unfold recv; simp only [hc, ha, hp, Bool.not_true, Bool.false_eq_true, if_false]
          rw [ha] at this
          exact this
        · exact RAll_iff.2 (fun s' hm =>
            hq x hc ha hp hd s' (RAll_of_RMem (recv_connected p hc ha hp (fun _ h => h) hd) hm))
      | connecting =>
        cases p with
        | connect id ka u pw clean will v =>
          obtain ⟨h1, h2, h3⟩ := hconn x id ka u pw clean will v hc ha hp rfl
          unfold recv; simp only [hc, ha, hp, Bool.not_true, Bool.false_eq_true, if_false]
          rw [ha, hp] at h1 h2 h3
          split
          · rename_i hcl; exact h1 hcl
          · rename_i hcl
            have hcl' := Bool.eq_false_iff.2 hcl
            split
            · rename_i hau; exact h2 hcl' (by simpa using hau)
            · rename_i hau; exact h3 hcl' (by simpa using hau)
        | connack => unfold recv; simp only [hc, ha, hp, Bool.not_true, Bool.false_eq_true, if_false]; exact hoff x hc ha hp rfl
        | publish => unfold recv; simp only [hc, ha, hp, Bool.not_true, Bool.false_eq_true, if_false]; exact hoff x hc ha hp rfl
        | puback => unfold recv; simp only [hc, ha, hp, Bool.not_true, Bool.false_eq_true, if_false]; exact hoff x hc ha hp rfl
        | pubrec => unfold recv; simp only [hc, ha, hp, Bool.not_true, Bool.false_eq_true, if_false]; exact hoff x hc ha hp rfl
        | pubrel => unfold recv; simp only [hc, ha, hp, Bool.not_true, Bool.false_eq_true, if_false]; exact hoff x hc ha hp rfl
        | pubcomp => unfold recv; simp only [hc, ha, hp, Bool.not_true, Bool.false_eq_true, if_false]; exact hoff x hc ha hp rfl
        | subscribe => unfold recv; simp only [hc, ha, hp, Bool.not_true, Bool.false_eq_true, if_false]; exact hoff x hc ha hp rfl
        | suback => unfold recv; simp only [hc, ha, hp, Bool.not_true, Bool.false_eq_true, if_false]; exact hoff x hc ha hp rfl
        | unsubscribe => unfold recv; simp only [hc, ha, hp, Bool.not_true, Bool.false_eq_true, if_false]; exact hoff x hc ha hp rfl
        | unsuback => unfold recv; simp only [hc, ha, hp, Bool.not_true, Bool.false_eq_true, if_false]; exact hoff x hc ha hp rfl
        | pingreq => unfold recv; simp only [hc, ha, hp, Bool.not_true, Bool.false_eq_true, if_false]; exact hoff x hc ha hp rfl
        | pingresp => unfold recv; simp only [hc, ha, hp, Bool.not_true, Bool.false_eq_true, if_false]; exact hoff x hc ha hp rfl
        | disconnect => unfold recv; simp only [hc, ha, hp, Bool.not_true, Bool.false_eq_true, if_false]; exact hoff x hc ha hp rfl

/-! ### `recv` keeps the invariant; what it does to the connection records -/

theorem KillConns.not_alive {s2 s3 : BState} {c : ConnId} (hk : KillConns s2 c s3) {x' : BConn}
    (hx' : s3.conn? c = some x') : x'.alive = false := by
  cases hx : s2.conn? c with
  | none => rw [hk.absent hx] at hx'; cases hx'
  | some y =>
    cases hal : y.alive with
    | false => rw [hk.dead y hx hal] at hx'; cases hx'; exact hal
    | true => rw [hk.live y hx hal] at hx'; cases hx'; exact not_alive_killed y

theorem recv_invW {s : BState} (h : InvW s) (c : ConnId) (p : Packet) : RAll InvW (recv s c p) := by
  apply recv_rule
  · intro _ _ _; exact h
  · intro _ _ _ _ _; exact kill_invW h c
  · intro x id ka u pw clean will v hc ha hp _
    have hsr := h.o c x hc hp
    have haz := h.az c x hc
    have h1 : InvW (s.setConn c { x with id := id }) := h.setConn_none c hsr haz
    refine ⟨fun _ => kill_invW h1 c, fun _ _ => kill_invW (h1.setConn_none (x' := { x with id := id, procOut := x.procOut ++ [.connack false 5] }) c hsr haz) c, fun _ _ => ?_⟩
    exact setup_invW h1 hsr haz
  · intro x hc ha hp _
    refine kill_invW (h.setConn (x' := { x with will := none, phase := .disconnected }) hc (fun hh => by simp at hh) rfl rfl (fun _ => h.az c x hc ha) (fun hl => hl)) c
  · intro x _ _ _ _ s' ⟨s1, hq, hs'⟩
    have h1 := h.of_coreEq hq.coreEq
    rcases hs' with hs' | hs'
    · rw [hs']; exact h1
    · exact RAll_of_RMem (kill_invW h1 c) hs'

/-- what one received packet does to the connection records -/
structure RecvConns (s : BState) (c : ConnId) (p : Packet) (s' : BState) : Prop where
  other : ∀ e, e ≠ c → s'.conn? e = s.conn? e ∨
    (∃ id ka u pw clean will v, p = .connect id ka u pw clean will v ∧ Victim s id e s')
  own : ∀ x', s'.conn? c = some x' → x'.alive = true →
    (∃ x, s.conn? c = some x ∧ x.alive = true ∧ x'.phase = x.phase ∧ x'.sref = x.sref ∧ x'.id = x.id) ∨
    (x'.sref ≠ .none ∧ x'.phase = .connected)

theorem RecvConns.of_kill {s s1 s' : BState} {c : ConnId} {p : Packet} (h1 : ∀ e, e ≠ c → s1.conn? e = s.conn? e)
    (hk : KillConns s1 c s') : RecvConns s c p s' :=
  ⟨fun e he => Or.inl (by rw [hk.other e he, h1 e he]),
   fun x' hx' ha => by rw [hk.not_alive hx'] at ha; cases ha⟩

theorem recv_conns (s : BState) (c : ConnId) (p : Packet) : RAll (RecvConns s c p) (recv s c p) := by
  apply recv_rule
  · intro x hc _
    exact ⟨fun _ _ => Or.inl rfl, fun x' hx' ha => Or.inl ⟨x', hx', ha, rfl, rfl, rfl⟩⟩
  · intro _ _ _ _ _
    exact RAll_mono (kill_conns s c) (fun s' hk => RecvConns.of_kill (fun _ _ => rfl) hk)
  · intro x id ka u pw clean will v hc ha hp hpk
    have e1 : ∀ e, e ≠ c → (s.setConn c { x with id := id }).conn? e = s.conn? e := by
      intro e he; simp [he]
    refine ⟨fun _ => RAll_mono (kill_conns _ c) (fun s' hk => RecvConns.of_kill e1 hk),
      fun _ _ => RAll_mono (kill_conns _ c) (fun s' hk => RecvConns.of_kill (by intro e he; simp [he]) hk),
      fun _ _ => RAll_mono (setup_shape _ c _ id clean will) (fun s' hs => ?_)⟩
    obtain ⟨h1, h2⟩ := setup_conns hs
    refine ⟨fun e he => ?_, fun x' hx' hal => Or.inr ⟨(h2 x' hx' hal).1, (h2 x' hx' hal).2.1⟩⟩
    rcases h1 e he with h | ⟨hh, y, hy, hv⟩
    · left; rw [h, e1 e he]
    · right; exact ⟨id, ka, u, pw, clean, will, v, hpk, hh, y, by rw [← e1 e he]; exact hy, hv⟩
  · intro x hc ha hp _
    exact RAll_mono (kill_conns _ c) (fun s' hk => RecvConns.of_kill (by intro e he; simp [he]) hk)
  · intro x hc ha hp _ s' ⟨s1, hq, hs'⟩
    rcases hs' with hs' | hs'
    · subst hs'
      refine ⟨fun e he => Or.inl (hq.connO e he), fun x' hx' hal => Or.inl ?_⟩
      have := hq.connC; rw [hc, hx'] at this
      obtain ⟨h1, h2, h3, h4, _, _⟩ := core_eq_iff.1 this
      exact ⟨x, hc, ha, h1, h4, h3⟩
    · exact RecvConns.of_kill hq.connO (RAll_of_RMem (kill_conns s1 c) hs')

theorem NSess.of_recvConns {s s' : BState} {c : ConnId} {p : Packet} (h : NSess s) (hr : RecvConns s c p s') :
    NSess s' := by
  intro e y' hy' ha hp
  by_cases he : e = c
  · subst he
    rcases hr.own y' hy' ha with ⟨y, hy, hya, h1, h2, _⟩ | ⟨h1, _⟩
    · rw [h2]; exact h e y hy hya (h1 ▸ hp)
    · exact h1
  · rcases hr.other e he with h1 | ⟨_, _, _, _, _, _, _, _, _, y, _, _, hv⟩
    · rw [h1] at hy'; exact h e y' hy' ha hp
    · rw [hv] at hy'; cases hy'; rw [not_alive_killed] at ha; cases ha

theorem recv_inv {s : BState} (h : Inv s) (c : ConnId) (p : Packet) : RAll Inv (recv s c p) :=
  RAll_mono (RAll_and (recv_invW h.1 c p) (recv_conns s c p)) (fun _ hh => ⟨hh.1, h.2.of_recvConns hh.2⟩)

/-! ### the other stimuli and the observations -/

theorem CoreEq.of_eq {s s' : BState} (hc : s'.conns = s.conns) (hs : s'.stored = s.stored)
    (ht : s'.temp = s.temp) (ha : s'.activeClients = s.activeClients) : CoreEq s s' := by
  refine ⟨ha, fun e => ?_, fun k => ?_, fun k => ?_⟩
  · rw [conn?_of_conns hc]; exact coreRel_refl _
  · rw [hs]; exact actRel_refl _
  · rw [ht]; exact actRel_refl _

theorem Inv.of_coreEq {s s' : BState} (h : Inv s) (he : CoreEq s s') : Inv s' :=
  ⟨h.1.of_coreEq he, h.2.of_coreEq he⟩

theorem Inv.setConn {s : BState} (h : Inv s) {d : ConnId} {x x' : BConn} (hc : s.conn? d = some x)
    (hp : x'.phase = x.phase) (hs : x'.sref = x.sref) (hi : x'.id = x.id) (ha : x'.alive = x.alive)
    (hz : x'.zombie = x.zombie) : Inv (s.setConn d x') := by
  refine ⟨h.1.setConn hc (fun hh => hp ▸ hh) hs hi (fun hh => by rw [hz]; exact h.1.az d x hc (ha ▸ hh))
    (fun hl => by rw [← ha, ← hz]; exact hl), ?_⟩
  intro e y hy hal hph
  rw [conn?_setConn] at hy
  split at hy
  · cases hy; rename_i hed; subst hed
    rw [hs]; exact h.2 e x hc (ha ▸ hal) (hp ▸ hph)
  · exact h.2 e y hy hal hph

theorem conn_of_sessOf {s : BState} {c : ConnId} {b : BSess} (h : s.sessOf c = some b) : ∃ x, s.conn? c = some x := by
  unfold BState.sessOf at h
  cases hc : s.conn? c with
  | none => rw [hc] at h; cases h
  | some x => exact ⟨x, rfl⟩

theorem ackPre_coreEq (c : ConnId) (p : Packet) (s : BState) : CoreEq s (ackPre c p s) := by
  unfold BState.ackPre
  split
  · unfold BState.forgetIncoming
    split
    · rename_i b hb
      obtain ⟨x, hx⟩ := conn_of_sessOf hb
      exact (Quiet.setSessOf (S := fun _ => True) hx hb (fun _ _ => trivial) (by rfl)).coreEq
    · exact CoreEq.refl _
  · exact CoreEq.refl _

theorem ackRelease_coreEq : ∀ (l : List PendingAck) (s : BState),
    CoreEq s (l.foldl (fun s a =>
      (ackPre a.conn a.pkt s).updConn a.conn (fun x => if x.alive then { x with ackOut := x.ackOut ++ [a.pkt] } else x)) s) := by
  intro l
  induction l with
  | nil => intro s; exact CoreEq.refl _
  | cons a rest ih =>
    intro s
    simp only [List.foldl_cons]
    refine CoreEq.trans ((ackPre_coreEq a.conn a.pkt s).trans ?_) (ih _)
    exact (Quiet.updConn (S := fun _ => True) (fun x => by split <;> rfl)).coreEq

theorem killAll_inv : ∀ (l : List ConnId) (s : BState), Inv s → RAll Inv (killAll s l) := by
  intro l
  induction l with
  | nil => intro s h; exact RAll_one.2 h
  | cons d rest ih =>
    intro s h
    simp only [killAll]
    exact RAll_bind (kill_inv h d) (fun s1 h1 => ih s1 h1)

theorem cleanup_conns (s : BState) (c : ConnId) (x : BConn) :
    RAll (fun s' => ∀ e, s'.conn? e = s.conn? e) (cleanup s c x) := by
  apply cleanup_rule
  intro s2 _ _ hcn e
  rw [termIf_conn?, conn?_of_conns hcn]

theorem acceptDelivery_quiet {s s' : BState} {c : ConnId} {x : BConn} {b : BSess} {m : Message} {id : UInt16}
    (hx : s.conn? c = some x) (hb : s.sessOf c = some b) (h : acceptDelivery s c x b m id = some s') :
    Quiet c (fun _ => True) s s' := by
  have fin : ∀ (b' : BSess) (y : BConn), b'.active = b.active → core y = core x →
      Quiet c (fun _ => True) s ((s.setSessOf c b').setConn c (retake y)) := by
    intro b' y hact hcore
    refine (Quiet.setSessOf hx hb (fun _ _ => trivial) hact).trans (Quiet.setConn (x := x) (by simp [hx]) ?_)
    rw [core_retake]; exact hcore
  unfold BState.acceptDelivery at h
  split at h
  · cases h
  · simp only [] at h
    split at h
    · rename_i s0 hs0
      cases h
      split at hs0
      · split at hs0
        · split at hs0
          · split at hs0
            · cases hs0
            · cases hs0; exact fin _ _ rfl rfl
          · split at hs0
            · cases hs0
            · split at hs0
              · cases hs0
              · cases hs0; exact fin _ _ rfl rfl
        · cases hs0
      · cases hs0
    · split at h
      · cases h
      · split at h
        · split at h
          · split at h
            · cases h
            · cases h; exact fin _ _ rfl rfl
          · split at h
            · cases h
            · split at h
              · cases h
              · cases h; exact fin _ _ rfl rfl
        · cases h

theorem observeSent_quiet {s s' : BState} {c : ConnId} {p : Packet} (h : observeSent s c p = some s') :
    Quiet c (fun _ => True) s s' := by
  unfold BState.observeSent at h
  split at h
  · cases h
  · rename_i x hx
    split at h
    · cases h
    · split at h
      · cases h; exact Quiet.setConn hx rfl
      · split at h
        · cases h
          refine Quiet.setConn hx ?_
          unfold BState.ackSent; split <;> rfl
        · split at h
          · rename_i hb _ _
            split at h
            · exact acceptDelivery_quiet hx hb h
            · cases h
          · cases h

/-! ### every step keeps the invariant -/

theorem stim_inv {s : BState} (h : Inv s) (st : Stim) : RAll Inv (stim s st) := by
  cases st with
  | conn c =>
    simp only [stim]
    refine RAll_one.2 ⟨h.1.setConn_none c rfl (fun _ => rfl), ?_⟩
    intro e y hy hal hph
    rw [conn?_setConn] at hy
    split at hy
    · cases hy; cases hph
    · exact h.2 e y hy hal hph
  | send c p => exact recv_inv h c p
  | drop c => exact kill_inv h c
  | ackRelease =>
    simp only [stim]
    refine RAll_one.2 (h.of_coreEq ((ackRelease_coreEq s.pendingAcks s).trans (CoreEq.of_eq rfl rfl rfl rfl)))
  | backendClose =>
    simp only [stim]
    exact killAll_inv _ _ (h.of_coreEq (CoreEq.of_eq rfl rfl rfl rfl))
  | tokenTimeout c =>
    simp only [stim]
    split
    · split
      · exact kill_inv h c
      · trivial
    · trivial
  | stall c =>
    simp only [stim, updConn_eq]
    split
    · rename_i x hx; exact RAll_one.2 (h.setConn hx rfl rfl rfl rfl rfl)
    · exact RAll_one.2 h
  | unstall c =>
    simp only [stim]
    split
    · rename_i x hx
      split
      · rename_i hz
        have hna : x.alive = false := by
          cases ha : x.alive with
          | false => rfl
          | true => rw [h.1.az c x hx ha] at hz; cases hz
        have h1 : InvW (s.setConn c { x with stalled := false, zombie := false }) :=
          h.1.setConn hx (fun hh => hh) rfl rfl (fun _ => rfl) (fun hl => Or.inr (by
            rcases hl with hl | hl
            · rw [hna] at hl; cases hl
            · cases hl))
        have hown : Owns (s.setConn c { x with stalled := false, zombie := false }) c := by
          have := h.1.owns hx (Or.inr hz)
          intro y i b hy hs hb
          simp only [conn?_setConn, if_true] at hy
          cases hy
          exact this x i b hx hs hb
        refine RAll_mono (RAll_and (cleanup_invW (x0 := { x with stalled := false, zombie := false }) h1 (by simp) hna rfl hown x)
          (cleanup_conns _ c x)) (fun s' hh => ⟨hh.1, ?_⟩)
        intro e y hy hal hph
        rw [hh.2 e, conn?_setConn] at hy
        split at hy
        · cases hy; rw [hna] at hal; cases hal
        · exact h.2 e y hy hal hph
      · exact RAll_one.2 (h.setConn hx rfl rfl rfl rfl (by
          cases hz : x.zombie with
          | false => rfl
          | true => rename_i hnz; exact absurd hz hnz))
    · trivial

theorem observe_inv {s : BState} (h : Inv s) (o : Obs) : ∀ s' ∈ observe s o, Inv s' := by
  intro s' hm
  cases o with
  | backend e =>
    simp only [observe] at hm
    split at hm
    · simp only [List.mem_singleton] at hm; subst hm
      exact h.of_coreEq (CoreEq.of_eq rfl rfl rfl rfl)
    · simp at hm
  | closed c =>
    simp only [observe] at hm
    split at hm
    · rename_i x hx
      split at hm
      · simp only [List.mem_singleton] at hm; subst hm
        exact h.setConn hx rfl rfl rfl rfl rfl
      · simp at hm
    · simp at hm
  | sent c p =>
    simp only [observe, Option.mem_toList] at hm
    exact h.of_coreEq (observeSent_quiet hm).coreEq
  | sendFail c p =>
    simp only [observe] at hm
    split at hm
    · rename_i s1 hs1
      have h1 := h.of_coreEq (observeSent_quiet hs1).coreEq
      have hk := kill_inv h1 c
      split at hm
      · rename_i ss hss
        rw [hss] at hk
        simp only [List.mem_map] at hm
        obtain ⟨s2, hs2, rfl⟩ := hm
        exact (hk s2 hs2).of_coreEq (Quiet.updConn (S := fun _ => True) (f := fun x => { x with procOut := [], ackOut := [] }) (fun _ => rfl)).coreEq
      · simp at hm
    · simp at hm

theorem inv_step {s s' : BState} (h : Inv s) (hs : Step s s') : Inv s' := by
  cases hs with
  | stim st ss hst hm => exact RAll_ok (stim_inv h st) hst s' hm
  | obs o hm => exact observe_inv h o s' hm
  | ackMode late never => exact h.of_coreEq (CoreEq.of_eq rfl rfl rfl rfl)

theorem inv_init (cfg : Cfg) : Inv { cfg := cfg } := by
  have hn : ∀ c, ({ cfg := cfg } : BState).conn? c = none := fun _ => rfl
  refine ⟨⟨?_, ?_, ?_, ?_⟩, ?_⟩
  · intro c x hx; rw [hn] at hx; cases hx
  · intro c x hx; rw [hn] at hx; cases hx
  · intro c x i hx; rw [hn] at hx; cases hx
  · intro c x hx; rw [hn] at hx; cases hx
  · intro c x hx; rw [hn] at hx; cases hx

theorem inv_reachable {cfg : Cfg} {s : BState} (h : Reachable cfg s) : Inv s := by
  induction h with
  | init => exact inv_init cfg
  | step _ hs ih => exact inv_step ih hs

/-- two live accepted connections with the same non-empty client id are the same connection -/
theorem unique_of_inv {s : BState} (h : Inv s) {c1 c2 : ConnId} {x1 x2 : BConn}
    (h1 : s.conn? c1 = some x1) (h2 : s.conn? c2 = some x2)
    (a1 : x1.alive = true) (a2 : x2.alive = true) (p1 : x1.phase = .connected) (p2 : x2.phase = .connected)
    (hid : x1.id = x2.id) (hne : x1.id ≠ []) : c1 = c2 := by
  have n1 := h.2 c1 x1 h1 a1 p1
  have n2 := h.2 c2 x2 h2 a2 p2
  cases r1 : x1.sref with
  | none => exact absurd r1 n1
  | stored i =>
    obtain ⟨e1, b1, hb1, act1⟩ := h.1.st c1 x1 i h1 (Or.inl a1) r1
    cases r2 : x2.sref with
    | none => exact absurd r2 n2
    | stored j =>
      obtain ⟨e2, b2, hb2, act2⟩ := h.1.st c2 x2 j h2 (Or.inl a2) r2
      have : i = j := by rw [← e1, ← e2, hid]
      subst this
      rw [hb1] at hb2; cases hb2
      rw [act1] at act2; cases act2; rfl
    | temp =>
      obtain ⟨_, h3⟩ := h.1.tm c2 x2 h2 (Or.inl a2) r2
      obtain ⟨_, h4⟩ := h3 (hid ▸ hne)
      rw [← hid, e1, hb1] at h4; cases h4
  | temp =>
    obtain ⟨_, h3⟩ := h.1.tm c1 x1 h1 (Or.inl a1) r1
    obtain ⟨ac1, st1⟩ := h3 hne
    cases r2 : x2.sref with
    | none => exact absurd r2 n2
    | stored j =>
      obtain ⟨e2, b2, hb2, _⟩ := h.1.st c2 x2 j h2 (Or.inl a2) r2
      rw [hid, e2, hb2] at st1; cases st1
    | temp =>
      obtain ⟨_, h4⟩ := h.1.tm c2 x2 h2 (Or.inl a2) r2
      obtain ⟨ac2, _⟩ := h4 (hid ▸ hne)
      rw [← hid, ac1] at ac2; cases ac2; rfl

end BrokerB4
