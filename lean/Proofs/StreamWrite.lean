import Model.Stream
import Proofs.CodecRT
/-
  Proofs/StreamWrite.lean — C03, sending side (mercury Writer + bufio.Writer + Encoder.Write) and the
  WebSocket stitching.  Helper lemmas only.
-/
namespace StreamS1
open Framing

/-- no error recorded anywhere and the carrier works -/
def Healthy (w : Writer) : Prop := w.bufErr = false ∧ w.pendErr = false ∧ w.down = false

/-- everything accepted so far, in order: what the carrier got, then what is still buffered -/
def wbytes (w : Writer) : Bytes := w.wire.flatten ++ w.buf

theorem healthy_init (cap : Nat) : Healthy { cap := cap } := ⟨rfl, rfl, rfl⟩

theorem carrier_ok (w : Writer) (h : w.down = false) (p : Bytes) :
    w.carrier p = ({ w with wire := w.wire ++ [p] }, true) := by
  unfold Writer.carrier; simp [h]

theorem bflush_ok (w : Writer) (h : Healthy w) :
    ∃ w', w.bflush = (w', true) ∧ Healthy w' ∧ wbytes w' = wbytes w ∧ w'.buf = [] ∧
      w'.cap = w.cap ∧ w'.timer = w.timer ∧ w'.delay0 = w.delay0 := by
  obtain ⟨h1, h2, h3⟩ := h
  unfold Writer.bflush
  rw [if_neg (by rw [h1]; simp)]
  by_cases he : w.buf.isEmpty
  · rw [if_pos he]
    have : w.buf = [] := List.isEmpty_iff.mp he
    exact ⟨w, rfl, ⟨h1, h2, h3⟩, rfl, this, rfl, rfl, rfl⟩
  · rw [if_neg he, carrier_ok w h3]
    refine ⟨_, rfl, ⟨h1, h2, h3⟩, ?_, rfl, rfl, rfl, rfl⟩
    simp [wbytes]

theorem bwrite_ok (w : Writer) (h : Healthy w) (p : Bytes) :
    ∃ w', w.bwrite p = (w', true) ∧ Healthy w' ∧ wbytes w' = wbytes w ++ p ∧
      w'.cap = w.cap ∧ w'.timer = w.timer ∧ w'.delay0 = w.delay0 := by
  obtain ⟨h1, h2, h3⟩ := h
  unfold Writer.bwrite
  rw [if_neg (by rw [h1]; simp)]
  by_cases hfit : p.length ≤ w.cap - w.buf.length
  · rw [if_pos hfit]
    exact ⟨_, rfl, ⟨h1, h2, h3⟩, by simp [wbytes], rfl, rfl, rfl⟩
  · rw [if_neg hfit]
    by_cases he : w.buf.isEmpty
    · rw [if_pos he, carrier_ok w h3]
      have : w.buf = [] := List.isEmpty_iff.mp he
      exact ⟨_, rfl, ⟨h1, h2, h3⟩, by simp [wbytes, this], rfl, rfl, rfl⟩
    · rw [if_neg he]
      simp only []
      obtain ⟨w1, hf, hh1, hb1, hbuf1, hc1, ht1, hd1⟩ :=
        bflush_ok { w with buf := w.buf ++ p.take (w.cap - w.buf.length) } ⟨h1, h2, h3⟩
      rw [hf]
      simp only []
      have hbytes : w1.wire.flatten = wbytes w ++ p.take (w.cap - w.buf.length) := by
        have := hb1
        simp only [wbytes, hbuf1, List.append_nil] at this
        rw [this]; simp [wbytes]
      by_cases hfit2 : (p.drop (w.cap - w.buf.length)).length ≤ w1.cap
      · rw [if_pos hfit2]
        refine ⟨_, rfl, hh1, ?_, hc1, ht1, hd1⟩
        simp only [wbytes]
        rw [hbytes, List.append_assoc, List.take_append_drop]
        simp [wbytes]
      · rw [if_neg hfit2, carrier_ok w1 hh1.2.2]
        refine ⟨_, rfl, hh1, ?_, hc1, ht1, hd1⟩
        simp only [wbytes, List.flatten_append, List.flatten_cons, List.flatten_nil,
          List.append_nil, hbuf1]
        rw [hbytes, List.append_assoc, List.take_append_drop]
        simp [wbytes]

theorem mwrite_ok (w : Writer) (h : Healthy w) (p : Bytes) (flush : Bool) :
    ∃ w', w.mwrite p flush = (w', true) ∧ Healthy w' ∧ wbytes w' = wbytes w ++ p ∧
      ((flush = true ∨ w.delay0 = true) → w'.buf = []) ∧ w'.cap = w.cap ∧ w'.delay0 = w.delay0 := by
  have hpe := h.2.1
  unfold Writer.mwrite
  rw [if_neg (by rw [hpe]; simp)]
  -- the bufio write
  have hstep1 : ∃ w1, (if p.length > 0 then w.bwrite p else (w, true)) = (w1, true) ∧ Healthy w1 ∧
      wbytes w1 = wbytes w ++ p ∧ w1.cap = w.cap ∧ w1.delay0 = w.delay0 := by
    by_cases hp : p.length > 0
    · rw [if_pos hp]
      obtain ⟨w1, e, hh, hb, hc, _, hd⟩ := bwrite_ok w h p
      exact ⟨w1, e, hh, hb, hc, hd⟩
    · rw [if_neg hp]
      have : p = [] := List.eq_nil_of_length_eq_zero (by omega)
      exact ⟨w, rfl, h, by simp [this], rfl, rfl⟩
  obtain ⟨w1, e1, hh1, hb1, hc1, hd1⟩ := hstep1
  rw [e1]
  simp only []
  have hstep2 : ∃ w2, (if (flush || w1.delay0) = true then w1.bflush else (w1, true)) = (w2, true) ∧
      Healthy w2 ∧ wbytes w2 = wbytes w1 ∧ ((flush = true ∨ w1.delay0 = true) → w2.buf = []) ∧
      w2.cap = w1.cap ∧ w2.delay0 = w1.delay0 := by
    by_cases hfl : (flush || w1.delay0) = true
    · rw [if_pos hfl]
      obtain ⟨w2, e, hh, hb, hbuf, hc, _, hd⟩ := bflush_ok w1 hh1
      exact ⟨w2, e, hh, hb, fun _ => hbuf, hc, hd⟩
    · rw [if_neg hfl]
      refine ⟨w1, rfl, hh1, rfl, ?_, rfl, rfl⟩
      intro hor
      exfalso; apply hfl
      rcases hor with h' | h' <;> simp [h']
  obtain ⟨w2, e2, hh2, hb2, hbuf2, hc2, hd2⟩ := hstep2
  rw [e2]
  simp only []
  refine ⟨_, rfl, ?_, ?_, ?_, ?_, ?_⟩
  · obtain ⟨a, b, c⟩ := hh2
    unfold Healthy
    split <;> split <;> simp_all
  · rw [← hb1, ← hb2]
    unfold wbytes
    split <;> split <;> rfl
  · intro hor
    have := hbuf2 (by rw [hd1]; exact hor)
    split <;> split <;> simp_all
  · rw [← hc1, ← hc2]; split <;> split <;> rfl
  · rw [← hd1, ← hd2]; split <;> split <;> rfl

theorem timerFire_ok (w : Writer) (h : Healthy w) :
    Healthy w.timerFire ∧ wbytes w.timerFire = wbytes w ∧ w.timerFire.buf = [] ∧
      w.timerFire.cap = w.cap ∧ w.timerFire.delay0 = w.delay0 := by
  obtain ⟨w', e, hh, hb, hbuf, hc, _, hd⟩ := bflush_ok { w with timer := false } h
  unfold Writer.timerFire
  rw [e]
  exact ⟨hh, hb, hbuf, hc, hd⟩

theorem encodeInto_wire (p : Packet) (h : p.WF = true) : encodeInto p.len p = .ok (wire p) := by
  rw [encodeInto_ge' p h p.len (Nat.le_refl _), encode_wire p h]

/-- bytes an event adds to the stream -/
def evBytes : Ev → Bytes
  | .write p _ => wire p
  | _ => []

def evFlushes : Ev → Bool
  | .write _ async => !async
  | .flush => true
  | .timerFire => true
  | _ => false

def evOK : Ev → Prop
  | .write p _ => p.WF = true
  | .carrierFail => False
  | _ => True

theorem step_ok (w : Writer) (h : Healthy w) (e : Ev) (he : evOK e) :
    ∃ w', step w e = (w', true) ∧ Healthy w' ∧ wbytes w' = wbytes w ++ evBytes e ∧
      (evFlushes e = true → w'.buf = []) ∧ w'.cap = w.cap := by
  cases e with
  | write p async =>
    simp only [evOK] at he
    simp only [step, Writer.encWrite, encodeInto_wire p he]
    obtain ⟨w', e, hh, hb, hbuf, hc, _⟩ := mwrite_ok w h (wire p) (!async)
    exact ⟨w', e, hh, hb, fun hf => hbuf (Or.inl (by simpa [evFlushes] using hf)), hc⟩
  | flush =>
    simp only [step]
    obtain ⟨w', e, hh, hb, hbuf, hc, _⟩ := mwrite_ok w h [] true
    exact ⟨w', e, hh, by simpa [evBytes] using hb, fun _ => hbuf (Or.inl rfl), hc⟩
  | timerFire =>
    obtain ⟨hh, hb, hbuf, hc, _⟩ := timerFire_ok w h
    exact ⟨_, rfl, hh, by simpa [evBytes] using hb, fun _ => hbuf, hc⟩
  | setDelay z =>
    exact ⟨_, rfl, h, by simp [evBytes, wbytes], fun hf => by simp [evFlushes] at hf, rfl⟩
  | carrierFail => exact absurd he id

theorem run_ok (evs : List Ev) : ∀ (w : Writer), Healthy w → (∀ e ∈ evs, evOK e) →
    Healthy (run w evs).1 ∧ wbytes (run w evs).1 = wbytes w ++ (evs.map evBytes).flatten ∧
      (run w evs).2.all id = true ∧ (run w evs).1.cap = w.cap := by
  induction evs with
  | nil => intro w h _; simp [run, h]
  | cons e es ih =>
    intro w h hall
    obtain ⟨w', hs, hh, hb, _, hc⟩ := step_ok w h e (hall e (by simp))
    obtain ⟨a, b, c, d⟩ := ih w' hh (fun e' he' => hall e' (by simp [he']))
    simp only [run, hs]
    refine ⟨a, ?_, by simpa using c, d.trans hc⟩
    rw [b, hb]; simp

theorem run_append (evs : List Ev) (e : Ev) : ∀ (w : Writer),
    run w (evs ++ [e]) = ((step (run w evs).1 e).1, (run w evs).2 ++ [(step (run w evs).1 e).2]) := by
  induction evs with
  | nil => intro w; simp [run]
  | cons a es ih =>
    intro w
    simp only [List.cons_append, run]
    rw [ih]

theorem evOK_of (evs : List Ev) (hnf : noFail evs = true) (hwf : ∀ p ∈ written evs, p.WF = true) :
    ∀ e ∈ evs, evOK e := by
  induction evs with
  | nil => intro e he; simp at he
  | cons a es ih =>
    intro e he
    cases a with
    | carrierFail => simp [noFail] at hnf
    | write p async =>
      simp only [noFail, written] at hnf hwf
      rcases List.mem_cons.mp he with rfl | he
      · exact hwf p (by simp)
      · exact ih hnf (fun q hq => hwf q (by simp [hq])) e he
    | flush =>
      simp only [noFail, written] at hnf hwf
      rcases List.mem_cons.mp he with rfl | he
      · trivial
      · exact ih hnf hwf e he
    | timerFire =>
      simp only [noFail, written] at hnf hwf
      rcases List.mem_cons.mp he with rfl | he
      · trivial
      · exact ih hnf hwf e he
    | setDelay z =>
      simp only [noFail, written] at hnf hwf
      rcases List.mem_cons.mp he with rfl | he
      · trivial
      · exact ih hnf hwf e he

theorem evBytes_written (evs : List Ev) :
    (evs.map evBytes).flatten = ((written evs).map wire).flatten := by
  induction evs with
  | nil => rfl
  | cons a es ih => cases a <;> simp [evBytes, written, ih]

theorem map_encode_wire (ps : List Packet) (h : ∀ p ∈ ps, p.WF = true) :
    ps.map encode = (ps.map wire).map Except.ok := by
  induction ps with
  | nil => rfl
  | cons p ps ih =>
    simp only [List.map_cons]
    rw [encode_wire p (h p (by simp)), ih (fun q hq => h q (by simp [hq]))]


/-! ### a failing carrier: nothing more reaches the wire -/

/-- the part of the state the carrier can see -/
def Frozen (w w' : Writer) : Prop := w'.wire = w.wire ∧ w'.down = true

theorem carrier_down (w : Writer) (h : w.down = true) (p : Bytes) : w.carrier p = (w, false) := by
  unfold Writer.carrier; simp [h]

theorem bflush_down (w : Writer) (h : w.down = true) : Frozen w w.bflush.1 := by
  unfold Writer.bflush
  split
  · exact ⟨rfl, h⟩
  · split
    · exact ⟨rfl, h⟩
    · rw [carrier_down w h]; exact ⟨rfl, h⟩

theorem bwrite_down (w : Writer) (h : w.down = true) (p : Bytes) : Frozen w (w.bwrite p).1 := by
  unfold Writer.bwrite
  split
  · exact ⟨rfl, h⟩
  · split
    · exact ⟨rfl, h⟩
    · split
      · rw [carrier_down w h]; exact ⟨rfl, h⟩
      · simp only []
        have hf := bflush_down { w with buf := w.buf ++ p.take (w.cap - w.buf.length) } h
        rcases hb : ({ w with buf := w.buf ++ p.take (w.cap - w.buf.length) } : Writer).bflush with ⟨w1, ok⟩
        rw [hb] at hf
        cases ok with
        | false => exact hf
        | true =>
          simp only []
          split
          · exact hf
          · rw [carrier_down w1 hf.2]; exact hf

theorem mwrite_down (w : Writer) (h : w.down = true) (p : Bytes) (fl : Bool) :
    Frozen w (w.mwrite p fl).1 := by
  unfold Writer.mwrite
  split
  · exact ⟨rfl, h⟩
  · have h1 : Frozen w (if p.length > 0 then w.bwrite p else (w, true)).1 := by
      split
      · exact bwrite_down w h p
      · exact ⟨rfl, h⟩
    rcases hb : (if p.length > 0 then w.bwrite p else (w, true)) with ⟨w1, ok1⟩
    rw [hb] at h1
    cases ok1 with
    | false => exact h1
    | true =>
      simp only []
      have h2 : Frozen w1 (if (fl || w1.delay0) = true then w1.bflush else (w1, true)).1 := by
        split
        · exact bflush_down w1 h1.2
        · exact ⟨rfl, h1.2⟩
      rcases hc : (if (fl || w1.delay0) = true then w1.bflush else (w1, true)) with ⟨w2, ok2⟩
      rw [hc] at h2
      have h3 : Frozen w w2 := ⟨h2.1.trans h1.1, h2.2⟩
      cases ok2 with
      | false => exact h3
      | true =>
        simp only []
        split <;> split <;> exact h3

theorem step_down (w : Writer) (h : w.down = true) (e : Ev) : Frozen w (step w e).1 := by
  cases e with
  | write p async =>
    simp only [step, Writer.encWrite]
    split
    · exact ⟨rfl, h⟩
    · exact mwrite_down w h _ _
  | flush => exact mwrite_down w h _ _
  | timerFire =>
    simp only [step, Writer.timerFire]
    have := bflush_down { w with timer := false } h
    rcases hb : ({ w with timer := false } : Writer).bflush with ⟨w1, ok⟩
    rw [hb] at this
    cases ok with
    | true => exact this
    | false => simp only []; split <;> exact this
  | setDelay z => exact ⟨rfl, h⟩
  | carrierFail => exact ⟨rfl, rfl⟩

/-- invariant of every run: while the carrier works everything accepted is on the wire or in the
    buffer; afterwards the wire is frozen at a prefix of what was submitted -/
def Inv (w : Writer) (total : Bytes) : Prop :=
  (w.down = false → Healthy w ∧ wbytes w = total) ∧ (w.down = true → w.wire.flatten <+: total)

def evWF : Ev → Prop
  | .write p _ => p.WF = true
  | _ => True

theorem step_inv (w : Writer) (total : Bytes) (hi : Inv w total) (e : Ev) (he : evWF e) :
    Inv (step w e).1 (total ++ evBytes e) := by
  cases hd : w.down with
  | true =>
    obtain ⟨h1, h2⟩ := step_down w hd e
    refine ⟨fun h => (by rw [h2] at h; cases h), fun _ => ?_⟩
    rw [h1]
    exact List.IsPrefix.trans (hi.2 hd) (List.prefix_append _ _)
  | false =>
    obtain ⟨hh, hb⟩ := hi.1 hd
    cases e with
    | carrierFail =>
      refine ⟨fun h => (by simp [step] at h), fun _ => ?_⟩
      simp only [step, evBytes, List.append_nil]
      rw [← hb]
      exact List.prefix_append _ _
    | write p async =>
      obtain ⟨w', hs, hh', hb', _, _⟩ := step_ok w hh (.write p async) he
      rw [hs]
      refine ⟨fun _ => ⟨hh', by rw [hb', hb]⟩, fun h => ?_⟩
      rw [hh'.2.2] at h; cases h
    | flush =>
      obtain ⟨w', hs, hh', hb', _, _⟩ := step_ok w hh .flush trivial
      rw [hs]
      refine ⟨fun _ => ⟨hh', by rw [hb', hb]⟩, fun h => ?_⟩
      rw [hh'.2.2] at h; cases h
    | timerFire =>
      obtain ⟨w', hs, hh', hb', _, _⟩ := step_ok w hh .timerFire trivial
      rw [hs]
      refine ⟨fun _ => ⟨hh', by rw [hb', hb]⟩, fun h => ?_⟩
      rw [hh'.2.2] at h; cases h
    | setDelay z =>
      obtain ⟨w', hs, hh', hb', _, _⟩ := step_ok w hh (.setDelay z) trivial
      rw [hs]
      refine ⟨fun _ => ⟨hh', by rw [hb', hb]⟩, fun h => ?_⟩
      rw [hh'.2.2] at h; cases h

theorem run_inv (evs : List Ev) : ∀ (w : Writer) (total : Bytes), Inv w total → (∀ e ∈ evs, evWF e) →
    Inv (run w evs).1 (total ++ (evs.map evBytes).flatten) := by
  induction evs with
  | nil => intro w total hi _; simpa [run] using hi
  | cons e es ih =>
    intro w total hi hall
    have h1 := step_inv w total hi e (hall e (by simp))
    have h2 := ih (step w e).1 _ h1 (fun x hx => hall x (by simp [hx]))
    simp only [run]
    simpa [List.append_assoc] using h2

theorem evWF_of (evs : List Ev) (hwf : ∀ p ∈ written evs, p.WF = true) : ∀ e ∈ evs, evWF e := by
  induction evs with
  | nil => intro e he; simp at he
  | cons a es ih =>
    intro e he
    cases a with
    | write p async =>
      simp only [written] at hwf
      rcases List.mem_cons.mp he with rfl | he
      · exact hwf p (by simp)
      · exact ih (fun q hq => hwf q (by simp [hq])) e he
    | flush =>
      rcases List.mem_cons.mp he with rfl | he
      · trivial
      · exact ih hwf e he
    | timerFire =>
      rcases List.mem_cons.mp he with rfl | he
      · trivial
      · exact ih hwf e he
    | setDelay z =>
      rcases List.mem_cons.mp he with rfl | he
      · trivial
      · exact ih hwf e he
    | carrierFail =>
      rcases List.mem_cons.mp he with rfl | he
      · trivial
      · exact ih hwf e he

end StreamS1
