import Proofs.ServiceInv
import Props.C05
/-
  Proofs/ServiceSubs.lean — the service's subscription tree against the obvious specification:
  a map from topic (level list) to the subscription last set for it, minus the unsubscribed
  topics.  Three representations are tied together:
    trie (`subs`, values = indices)  ~C05.Refines~  TopicMap of indices  ~Tab~  `SubSpec`.
-/
set_option linter.unusedSimpArgs false
namespace SvcK2
open Svc Svc.SState

/-- topic ↦ subscription, one entry per topic -/
abbrev SubSpec := List (List Level × Subscription)

namespace SubSpec
def lookup (m : SubSpec) (p : List Level) : Option Subscription := (m.find? (·.1 = p)).map (·.2)
def erase (m : SubSpec) (p : List Level) : SubSpec := m.filter (·.1 ≠ p)
def put (m : SubSpec) (p : List Level) (sub : Subscription) : SubSpec := m.erase p ++ [(p, sub)]

theorem lookup_nil (p : List Level) : lookup [] p = none := rfl
theorem lookup_cons (e : List Level × Subscription) (m : SubSpec) (p : List Level) :
    lookup (e :: m) p = if e.1 = p then some e.2 else lookup m p := by
  unfold lookup
  by_cases h : e.1 = p <;> simp [List.find?, h]

theorem erase_cons (e : List Level × Subscription) (m : SubSpec) (p : List Level) :
    erase (e :: m) p = if e.1 = p then erase m p else e :: erase m p := by
  unfold erase
  by_cases h : e.1 = p <;> simp [List.filter_cons, h]

theorem lookup_erase (m : SubSpec) (p q : List Level) :
    lookup (m.erase p) q = if q = p then none else lookup m q := by
  induction m with
  | nil => simp [erase, lookup_nil]
  | cons e m ih =>
    rw [erase_cons, lookup_cons]
    by_cases he : e.1 = p
    · rw [if_pos he, ih]
      by_cases hq : q = p
      · simp [hq]
      · have : ¬ e.1 = q := by rw [he]; exact fun h => hq h.symm
        simp [hq, this]
    · rw [if_neg he, lookup_cons, ih]
      by_cases hq : q = p
      · subst hq
        simp [he]
      · simp [hq]

theorem lookup_append (m1 m2 : SubSpec) (q : List Level) :
    lookup (m1 ++ m2) q = (lookup m1 q).or (lookup m2 q) := by
  induction m1 with
  | nil => simp [lookup_nil]
  | cons e m ih =>
    rw [List.cons_append, lookup_cons, lookup_cons, ih]
    by_cases he : e.1 = q <;> simp [he]

theorem lookup_put (m : SubSpec) (p q : List Level) (sub : Subscription) :
    lookup (m.put p sub) q = if q = p then some sub else lookup m q := by
  unfold put
  rw [lookup_append, lookup_erase]
  by_cases hq : q = p
  · simp [hq, lookup_cons]
  · have : ¬ p = q := fun h => hq h.symm
    simp [hq, lookup_cons, lookup_nil, this]

theorem mem_of_lookup {m : SubSpec} {p : List Level} {sub : Subscription} (h : lookup m p = some sub) :
    (p, sub) ∈ m := by
  induction m with
  | nil => simp [lookup_nil] at h
  | cons e m ih =>
    rw [lookup_cons] at h
    by_cases he : e.1 = p
    · rw [if_pos he] at h
      have : e = (p, sub) := by cases e; simp_all
      simp [this]
    · rw [if_neg he] at h
      exact List.mem_cons_of_mem _ (ih h)
end SubSpec

/-- the specification of one dispatched command -/
def specCmd (m : SubSpec) : CmdKind → SubSpec
  | .subscribe subs => subs.foldl (fun m sub => m.put (walk sub.topic) sub) m
  | .unsubscribe ts => ts.foldl (fun m t => m.erase (walk t)) m
  | .publish _ => m

/-- the subscriptions that result from a sequence of subscribe / unsubscribe commands -/
def specSubs (ks : List CmdKind) : SubSpec := ks.foldl specCmd []

/-- index-valued map and table against the specification -/
structure Tab (m : TopicMap) (tab : List Subscription) (ms : SubSpec) : Prop where
  sound : ∀ p v, v ∈ m.lookup p → ∃ sub, ms.lookup p = some sub ∧ tab[v]? = some sub
  complete : ∀ p sub, ms.lookup p = some sub → ∃ v, v ∈ m.lookup p ∧ tab[v]? = some sub
  bound : ∀ p v, v ∈ m.lookup p → v < tab.length

structure SubRel (n : Node) (tab : List Subscription) (ms : SubSpec) : Prop where
  ex : ∃ m : TopicMap, C05.Refines n m ∧ Tab m tab ms

theorem subRel_empty : SubRel Node.empty [] [] :=
  ⟨[], C05.refines_empty, ⟨by simp [TopicMap.lookup_nil], by simp [SubSpec.lookup_nil], by simp [TopicMap.lookup_nil]⟩⟩

theorem subRel_add {n : Node} {tab : List Subscription} {ms : SubSpec} (h : SubRel n tab ms) (sub : Subscription) :
    SubRel (Tree.set sub.topic tab.length n) (tab ++ [sub]) (ms.put (walk sub.topic) sub) := by
  obtain ⟨m, hr, ht⟩ := h.ex
  refine ⟨m.set (walk sub.topic) tab.length, C05.step_refines n m hr (.set (walk sub.topic) tab.length), ?_⟩
  have hk := hr.2.2.1
  constructor
  · intro p v hv
    simp only [TopicMap.set] at hv
    rw [TopicMap.lookup_put _ _ _ hk] at hv
    rw [SubSpec.lookup_put]
    by_cases hp : p = walk sub.topic
    · rw [if_pos hp] at hv ⊢
      have : v = tab.length := by simpa using hv
      subst this
      exact ⟨sub, rfl, by simp⟩
    · rw [if_neg hp] at hv ⊢
      obtain ⟨s0, h1, h2⟩ := ht.sound p v hv
      refine ⟨s0, h1, ?_⟩
      rw [List.getElem?_append_left (ht.bound p v hv)]; exact h2
  · intro p s0 hs
    rw [SubSpec.lookup_put] at hs
    simp only [TopicMap.set]
    rw [TopicMap.lookup_put _ _ _ hk]
    by_cases hp : p = walk sub.topic
    · rw [if_pos hp] at hs ⊢
      have : sub = s0 := by simpa using hs
      subst this
      exact ⟨tab.length, by simp, by simp⟩
    · rw [if_neg hp] at hs ⊢
      obtain ⟨v, h1, h2⟩ := ht.complete p s0 hs
      refine ⟨v, h1, ?_⟩
      rw [List.getElem?_append_left (ht.bound p v h1)]; exact h2
  · intro p v hv
    simp only [TopicMap.set] at hv
    rw [TopicMap.lookup_put _ _ _ hk] at hv
    by_cases hp : p = walk sub.topic
    · rw [if_pos hp] at hv
      have : v = tab.length := by simpa using hv
      subst this; simp
    · rw [if_neg hp] at hv
      have := ht.bound p v hv
      exact Nat.lt_of_lt_of_le this (by simp)

theorem subRel_del {n : Node} {tab : List Subscription} {ms : SubSpec} (h : SubRel n tab ms) (t : Bytes) :
    SubRel (Tree.emptyTopic t n) tab (ms.erase (walk t)) := by
  obtain ⟨m, hr, ht⟩ := h.ex
  refine ⟨m.emptyTopic (walk t), C05.step_refines n m hr (.empty (walk t)), ?_⟩
  have hk := hr.2.2.1
  constructor
  · intro p v hv
    simp only [TopicMap.emptyTopic] at hv
    rw [TopicMap.lookup_put _ _ _ hk] at hv
    rw [SubSpec.lookup_erase]
    by_cases hp : p = walk t
    · rw [if_pos hp] at hv; cases hv
    · rw [if_neg hp] at hv ⊢
      exact ht.sound p v hv
  · intro p s0 hs
    rw [SubSpec.lookup_erase] at hs
    simp only [TopicMap.emptyTopic]
    rw [TopicMap.lookup_put _ _ _ hk]
    by_cases hp : p = walk t
    · rw [if_pos hp] at hs; cases hs
    · rw [if_neg hp] at hs ⊢
      exact ht.complete p s0 hs
  · intro p v hv
    simp only [TopicMap.emptyTopic] at hv
    rw [TopicMap.lookup_put _ _ _ hk] at hv
    by_cases hp : p = walk t
    · rw [if_pos hp] at hv; cases hv
    · rw [if_neg hp] at hv
      exact ht.bound p v hv

theorem subRel_cmd {st : Node × List Subscription} {ms : SubSpec} (h : SubRel st.1 st.2 ms) (k : CmdKind) :
    SubRel (applySubsP st k).1 (applySubsP st k).2 (specCmd ms k) := by
  cases k with
  | publish m => exact h
  | subscribe subs =>
    simp only [applySubsP, specCmd]
    induction subs generalizing st ms with
    | nil => exact h
    | cons a l ih => simp only [List.foldl_cons]; exact ih (subRel_add h a)
  | unsubscribe ts =>
    simp only [applySubsP, specCmd]
    induction ts generalizing st ms with
    | nil => exact h
    | cons a l ih => simp only [List.foldl_cons]; exact ih (subRel_del h a)

theorem subRel_fold (ks : List CmdKind) : SubRel (subsOf ks).1 (subsOf ks).2 (specSubs ks) := by
  unfold subsOf specSubs
  have : ∀ (st : Node × List Subscription) (ms : SubSpec), SubRel st.1 st.2 ms →
      SubRel (ks.foldl applySubsP st).1 (ks.foldl applySubsP st).2 (ks.foldl specCmd ms) := by
    induction ks with
    | nil => intro st ms h; exact h
    | cons k ks ih => intro st ms h; simp only [List.foldl_cons]; exact ih _ _ (subRel_cmd h k)
  exact this _ _ subRel_empty

/-- what `All()` + the table give is exactly the range of the specification -/
theorem mem_resub_iff {n : Node} {tab : List Subscription} {ms : SubSpec} (h : SubRel n tab ms) (sub : Subscription) :
    sub ∈ (Tree.all n).filterMap (tab[·]?) ↔ ∃ p, ms.lookup p = some sub := by
  obtain ⟨m, hr, ht⟩ := h.ex
  have hk := hr.2.2.1
  rw [List.mem_filterMap]
  constructor
  · rintro ⟨v, hv, hs⟩
    have hv' : v ∈ Node.subtreeVals n := by simpa [Tree.all, Node.clean] using hv
    obtain ⟨p, hp⟩ := (TopicMap.mem_all hk v).mp ((C05.all_eq n m hr v).mp hv')
    obtain ⟨s0, h1, h2⟩ := ht.sound p v hp
    rw [h2] at hs
    have : s0 = sub := by simpa using hs
    subst this
    exact ⟨p, h1⟩
  · rintro ⟨p, hp⟩
    obtain ⟨v, h1, h2⟩ := ht.complete p sub hp
    refine ⟨v, ?_, h2⟩
    have : v ∈ Node.subtreeVals n := (C05.all_eq n m hr v).mpr ((TopicMap.mem_all hk v).mpr ⟨p, h1⟩)
    simpa [Tree.all, Node.clean] using this

/-! ### sorted by topic -/

theorem bytesLe_refl (a : Bytes) : bytesLe a a = true := by
  induction a with
  | nil => rfl
  | cons x xs ih => simp [bytesLe, ih]

theorem bytesLe_total (a b : Bytes) : (bytesLe a b || bytesLe b a) = true := by
  induction a generalizing b with
  | nil => simp [bytesLe]
  | cons x xs ih =>
    cases b with
    | nil => simp [bytesLe]
    | cons y ys =>
      simp only [bytesLe]
      by_cases h1 : x < y
      · simp [h1]
      · by_cases h2 : y < x
        · simp [h1, h2]
        · have : x = y := by
            have a1 : ¬ x.toNat < y.toNat := h1
            have a2 : ¬ y.toNat < x.toNat := h2
            exact UInt8.toNat_inj.mp (by omega)
          subst this
          simpa [h1] using ih ys

theorem bytesLe_trans (a b c : Bytes) (h1 : bytesLe a b = true) (h2 : bytesLe b c = true) : bytesLe a c = true := by
  induction a generalizing b c with
  | nil => simp [bytesLe]
  | cons x xs ih =>
    cases b with
    | nil => simp [bytesLe] at h1
    | cons y ys =>
      cases c with
      | nil => simp [bytesLe] at h2
      | cons z zs =>
        simp only [bytesLe] at h1 h2 ⊢
        by_cases hxy : x < y
        · by_cases hyz : y < z
          · have : x < z := by
              have a1 : x.toNat < y.toNat := hxy
              have a2 : y.toNat < z.toNat := hyz
              show x.toNat < z.toNat
              omega
            simp [this]
          · simp only [hyz, if_false] at h2
            by_cases hyz' : y = z
            · subst hyz'; simp [hxy]
            · simp [hyz'] at h2
        · simp only [hxy, if_false] at h1
          by_cases hxy' : x = y
          · subst hxy'
            simp only [if_true] at h1
            by_cases hyz : x < z
            · simp [hyz]
            · simp only [hyz, if_false] at h2 ⊢
              by_cases hyz' : x = z
              · subst hyz'
                simp only [if_true] at h2 ⊢
                exact ih ys zs h1 h2
              · simp [hyz'] at h2
          · simp [hxy'] at h1

theorem resubList_sorted (s : SState) : s.resubList.Pairwise (fun a b => subLe a b = true) := by
  unfold SState.resubList
  exact List.pairwise_mergeSort (fun a b c => bytesLe_trans a.topic b.topic c.topic)
    (fun a b => bytesLe_total a.topic b.topic) _

theorem mem_resubList (s : SState) (sub : Subscription) :
    sub ∈ s.resubList ↔ sub ∈ (Tree.all s.subs).filterMap (s.subTab[·]?) := by
  unfold SState.resubList
  exact (List.mergeSort_perm _ _).mem_iff

end SvcK2
