import Proofs.ClientC09b
/-
  Proofs/ClientC09c.lean — C09: handlers are entered by the matching packet; PUBREC → PUBREL;
  retransmission after CONNACK. (K1)
-/
set_option linter.unusedSimpArgs false
set_option linter.unusedVariables false
set_option linter.unnecessarySimpa false
open Cl Cl.St
namespace ClientK1

/-- `p` is an acknowledgement that makes the processor run the handler `k` for id `id` -/
def AckFor (k : AckK) (id : UInt16) (p : Packet) : Prop :=
  (∃ codes, k = .sub codes ∧ p = .suback codes id) ∨ (k = .unsub ∧ p = .unsuback id)
  ∨ (k = .pub ∧ (p = .puback id ∨ p = .pubcomp id))

theorem stepApi_proc {fx s s' l} (h : stepApi fx s l = some s') : s'.proc = s.proc ∨ s'.proc = .recv true := by
  unfold stepApi at h
  split_all h
  all_goals (first
    | (simp at h; done)
    | (simp at h; subst h; simp [apiFail, sendLog, addFut, storePut, storeDel, resolve]; done)
    | skip)
  all_goals (have hc := cleanStep_proc (by assumption); simp at h; subst h; left; simpa using hc)

theorem step_proc_of_thread {fx s l} (ht : threadOf l = some .proc) : step fx s l = stepProc fx s l := by
  simp [step, ht]

/-- a step that changes the processor's program counter, other than starting it, is a step of the
    processor -/
theorem proc_changes_by_proc {fx s s' l} (h : step fx s l = some s') (hne : s'.proc ≠ s.proc)
    (hst : s'.proc ≠ .recv true) (hns : s'.proc ≠ .notStarted) : stepProc fx s l = some s' := by
  unfold step at h
  split at h
  · rcases stepApi_proc h with hp | hp
    · exact absurd hp hne
    · exact absurd hp hst
  · exact h
  · exact absurd (stepPing_proc h) hne
  · split at h
    · simp at h; subst h; simp [renew] at hns
    · simp at h

theorem procAfter_proc (s : St) (a : DAfter) : (s.procAfter a).proc = .exited true ∨ (s.procAfter a).proc = .recv false := by
  cases a <;> simp [procAfter, procExit, goroutineExit, resolve] <;> split <;> simp
theorem procErr_proc (fx : Fix) (s : St) :
    (procErr fx s).proc = .die (mkDie true .exit) ∨ (procErr fx s).proc = .exited false := by
  simp [procErr]; split <;> simp [procDie, procExit, goroutineExit]

theorem procErr_proc_eq (fx : Fix) (s : St) :
    (procErr fx s).proc = if fx.f15 then .die (mkDie true .exit) else .exited false := by
  simp [procErr]; split <;> simp [procDie, procExit, goroutineExit]
theorem procAfter_proc_eq (s : St) (a : DAfter) :
    (s.procAfter a).proc = if a = .exit then .exited true else .recv false := by
  cases a <;> simp [procAfter, procExit, goroutineExit, resolve] <;> split <;> simp

/-- the handler of an acknowledgement is entered only by reading such an acknowledgement -/
theorem stepProc_enter_aDel {fx s s' l k id} (h : stepProc fx s l = some s') (hp : s'.proc = .aDel k id) :
    ∃ p, l = .recv p ∧ AckFor k id p := by
  unfold stepProc at h
  split_all h
  all_goals (first
    | (simp at h; done)
    | (simp at h; subst h; simp [procDie, procExit, goroutineExit, sendLog, markDup, resolve, storeDel] at hp; done)
    | skip)
  all_goals (first
    | (simp at h; subst h; simp at hp; obtain ⟨rfl, rfl⟩ := hp; exact ⟨_, rfl, by simp [AckFor]⟩)
    | (simp at h; subst h; simp_all; done)
    | (simp at h; subst h; rw [procErr_proc_eq] at hp; split at hp <;> simp at hp; done)
    | (simp at h; subst h; rw [procAfter_proc_eq] at hp; split at hp <;> simp at hp; done)
    | skip)

theorem step_enter_aDel {fx s s' l k id} (h : step fx s l = some s') (hp : s'.proc = .aDel k id)
    (hne : s.proc ≠ .aDel k id) : ∃ p, l = .recv p ∧ AckFor k id p :=
  stepProc_enter_aDel (proc_changes_by_proc h (by rw [hp]; exact fun e => hne e.symm) (by simp [hp]) (by simp [hp])) hp

/-- the PUBREC handler is entered only by reading a PUBREC -/
theorem stepProc_enter_recSave {fx s s' l id} (h : stepProc fx s l = some s') (hp : s'.proc = .recSave id) :
    l = .recv (.pubrec id) := by
  unfold stepProc at h
  split_all h
  all_goals (first
    | (simp at h; done)
    | (simp at h; subst h; simp [procDie, procExit, goroutineExit, sendLog, markDup, resolve, storeDel] at hp; done)
    | skip)
  all_goals (first
    | (simp at h; subst h; simp at hp; subst hp; rfl)
    | (simp at h; subst h; simp_all; done)
    | (simp at h; subst h; rw [procErr_proc_eq] at hp; split at hp <;> simp at hp; done)
    | (simp at h; subst h; rw [procAfter_proc_eq] at hp; split at hp <;> simp at hp; done)
    | skip)

theorem step_enter_recSave {fx s s' l id} (h : step fx s l = some s') (hp : s'.proc = .recSave id)
    (hne : s.proc ≠ .recSave id) : l = .recv (.pubrec id) :=
  stepProc_enter_recSave (proc_changes_by_proc h (by rw [hp]; exact fun e => hne e.symm) (by simp [hp]) (by simp [hp])) hp

/-- **PUBREC replaces the PUBLISH by the PUBREL**: in the PUBREC handler the only thing the
    processor can do is store the PUBREL; if that succeeds the session holds the PUBREL for that id
    and the next thing the processor does is send it -/
theorem pubrec_then_store {fx s s' l id} (hp : s.proc = .recSave id) (h : stepProc fx s l = some s') :
    ∃ ok, l = .sSave .proc .outgoing (.pubrel id) ok ∧
      (ok = true → outAt s'.sess id = some (.pubrel id) ∧ s'.proc = .recSend id) ∧
      (ok = false → s'.sess = s.sess ∧ s'.proc = .die (mkDie true .exit)) := by
  cases l <;> simp [stepProc, hp] at h
  rename_i t d q ok
  cases t <;> cases d <;> simp at h
  obtain ⟨rfl, h⟩ := h
  refine ⟨ok, rfl, ?_, ?_⟩
  · intro hok; subst hok; simp at h; subst h
    simp [outAt_save_out _ _ _ _ (rfl : (Packet.pubrel id).getID = some id), stripDup]
  · intro hok; subst hok; simp at h; subst h; simp [procDie]

theorem pubrel_then_send {fx s s' l id} (hp : s.proc = .recSend id) (h : stepProc fx s l = some s') :
    ∃ ok, l = .send .proc (.pubrel id) ok ∧ s'.out = s.out ++ [(.pubrel id, ok)] := by
  cases l <;> simp [stepProc, hp] at h
  rename_i t q ok
  cases t <;> simp at h
  obtain ⟨rfl, h⟩ := h
  refine ⟨ok, rfl, ?_⟩
  cases ok <;> simp at h <;> subst h <;> simp [sendLog, procDie]

/-! ### retransmission after CONNACK -/

theorem connack_then_all {fx s s' l} (hp : s.proc = .ckAll) (h : stepProc fx s l = some s') :
    ∃ ok, l = .sAll ok ∧ s'.sess = s.sess ∧
      (ok = true → s'.proc = .ckResend (s.sess.allPackets .outgoing)) := by
  cases l <;> simp [stepProc, hp] at h
  rename_i ok
  cases ok <;> simp at h <;> subst h <;> simp [procDie]

theorem resend_step {fx s s' l p rest} (hp : s.proc = .ckResend (p :: rest)) (h : stepProc fx s l = some s') :
    ∃ ok, l = .send .proc (dupOf p) ok ∧ s'.out = s.out ++ [(dupOf p, ok)] ∧
      (ok = true → s'.proc = .ckResend rest) ∧ (ok = false → s'.proc = .die (mkDie false .cont)) := by
  cases l <;> simp [stepProc, hp] at h
  rename_i t q ok
  cases t <;> simp at h
  obtain ⟨rfl, h⟩ := h
  refine ⟨ok, rfl, ?_⟩
  cases ok <;> cases p <;> simp at h <;> subst h <;> simp [sendLog, procDie, markDup]

theorem resend_done {fx s s' l} (hp : s.proc = .ckResend []) (h : stepProc fx s l = some s') :
    l = .tau .proc ∧ s'.proc = .recv false ∧ s'.out = s.out := by
  cases l <;> simp [stepProc, hp] at h
  rename_i t
  obtain ⟨rfl, h⟩ := h
  subst h; simp

@[simp] theorem threadOf_send (t : Th) (p : Packet) (ok : Bool) : threadOf (.send t p ok) = some t := rfl
@[simp] theorem threadOf_tau (t : Th) : threadOf (.tau t) = some t := rfl

/-- the whole retransmission can run and hands exactly the given packets, PUBLISH flagged as
    duplicate, to the connection in that order -/
theorem resend_all_run (fx : Fix) (ps : List Packet) : ∀ s : St, s.proc = .ckResend ps →
    ∃ s', run fx s (ps.map (fun p => Label.send .proc (dupOf p) true) ++ [.tau .proc]) = some s' ∧
      s'.proc = .recv false ∧ s'.out = s.out ++ ps.map (fun p => (dupOf p, true)) := by
  induction ps with
  | nil =>
    intro s hp
    refine ⟨{ s with proc := .recv false }, ?_, rfl, by simp⟩
    simp [run, step, stepProc, hp]
  | cons p rest ih =>
    intro s hp
    have hs : ∃ s1, step fx s (.send .proc (dupOf p) true) = some s1 ∧ s1.proc = .ckResend rest ∧
        s1.out = s.out ++ [(dupOf p, true)] := by
      cases p <;> simp [step, stepProc, hp, sendLog, markDup]
    obtain ⟨s1, h1, hp1, ho1⟩ := hs
    obtain ⟨s', hr, hp', ho'⟩ := ih s1 hp1
    refine ⟨s', ?_, hp', ?_⟩
    · simp only [List.map_cons, List.cons_append, run, h1]; exact hr
    · rw [ho', ho1]; simp

end ClientK1
